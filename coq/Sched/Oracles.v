(* Boolean statements of the scheduler properties over an *observed* schedule (what the
   implementation returned, or what the model computed): executable, so that they can be evaluated on
   the implementation's output; the theorems in Sched/*Proofs.v show that the model's output always
   satisfies them.  Definitions only. *)
From PJ Require Import Base.Prelude Sched.Model Sched.Check.

Record osch := {
  o_tasks : list obs_task;       (* per member, in WBS order: start, end, estimate, spent *)
  o_rows : list obs_row }.       (* usage rows in rows() order *)

Definition o_get (o : osch) (t : nat) : obs_task := nth t (o_tasks o) (None, None, None, None).
Definition o_start (o : osch) (t : nat) : option Z := let '(s, _, _, _) := o_get o t in s.
Definition o_end (o : osch) (t : nat) : option Z := let '(_, e, _, _) := o_get o t in e.
Definition o_est (o : osch) (t : nat) : option Z := let '(_, _, e, _) := o_get o t in e.
Definition o_spent (o : osch) (t : nat) : option Z := let '(_, _, _, s) := o_get o t in s.

Definition row_res (x : obs_row) : nat := let '(r, _, _, _) := x in r.
Definition row_day (x : obs_row) : Z := let '(_, d, _, _) := x in d.
Definition row_task (x : obs_row) : nat := let '(_, _, t, _) := x in t.
Definition row_units (x : obs_row) : Z := let '(_, _, _, u) := x in u.

Definition rows_of (o : osch) (t : nat) : list obs_row := filter (fun x => Nat.eqb (row_task x) t) (o_rows o).
Definition osum (l : list obs_row) : Z := fold_right (fun x a => row_units x + a) 0 l.
Definition obooked (l : list obs_row) (r : nat) (d : Z) : Z :=
  osum (filter (fun x => Nat.eqb (row_res x) r && (row_day x =? d)) l).
Definition obooked_t (l : list obs_row) (r : nat) (d : Z) (t : nat) : Z :=
  osum (filter (fun x => Nat.eqb (row_res x) r && (row_day x =? d) && Nat.eqb (row_task x) t) l).

Definition is_member (w : list itask) (t : nat) : bool := (t <? length w)%nat && negb (k_ext (gett w t)).
Definition leafb (w : list itask) (t : nat) : bool := is_leaf (gett w t).

Fixpoint zmin_list (x : Z) (l : list Z) : Z := match l with [] => x | y :: r => zmin_list (Z.min x y) r end.
Fixpoint zmax_list (x : Z) (l : list Z) : Z := match l with [] => x | y :: r => zmax_list (Z.max x y) r end.

Fixpoint nodup_z (l : list Z) : bool :=
  match l with [] => true | x :: r => negb (existsb (Z.eqb x) r) && nodup_z r end.

(* leaf descendants of a task inside the WBS (itself when it is a leaf or outside) *)
Fixpoint leaves_of (w : list itask) (fuel : nat) (t : nat) : list nat :=
  match fuel with
  | O => [t]
  | S f => match k_children (gett w t) with
           | [] => [t]
           | cs => if k_ext (gett w t) then [t] else flat_map (leaves_of w f) cs
           end
  end.
Definition prereq_leaves (w : list itask) (t : nat) : list nat :=
  flat_map (leaves_of w (length w)) (prereqs w t).
Definition dependant_leaves (w : list itask) (t : nat) : list nat :=
  flat_map (leaves_of w (length w)) (dependants w t).

(* ---------- C03: no over-allocation ---------- *)
Definition c03_b (cfg : config) (w : list itask) (o : osch) : bool :=
  forallb (fun x =>
             (0 <? row_units x) && is_member w (row_task x)
             && Nat.eqb (row_res x) (k_res (gett w (row_task x)))
             && (0 <? cap cfg (row_res x) (row_day x))
             && (if balance cfg then obooked (o_rows o) (row_res x) (row_day x) <=? cap cfg (row_res x) (row_day x)
                 else obooked_t (o_rows o) (row_res x) (row_day x) (row_task x) <=? cap cfg (row_res x) (row_day x)))
          (o_rows o).

(* the report's per-day totals agree with its rows: observed reserved(resource, day) values *)
Definition c03_report_b (o : osch) (reserved : list (nat * Z * Z)) : bool :=
  forallb (fun q => let '(r, d, v) := q in obooked (o_rows o) r d =? v) reserved.

(* resources that were not supplied are the default Monday-Friday 8-unit (scaled: 8*K) resource *)
Definition default_cap (unit8 : Z) (d : Z) : Z := if weekday_of_day d <? 5 then unit8 else 0.
Definition c03_default_b (rs : list rescal) (unit8 : Z) (r : nat) : bool :=
  let c := nth r rs no_rescal in
  forallb (fun i => nth (Z.to_nat i) (rc_tab c) 0 =? default_cap unit8 (rc_lo c + i))
          (map Z.of_nat (seq 0 (length (rc_tab c))))
  && forallb (fun i => (nth (Z.to_nat i) (rc_pre c) 0 =? (if i <? 5 then unit8 else 0))
                       && (nth (Z.to_nat i) (rc_post c) 0 =? (if i <? 5 then unit8 else 0))) [0;1;2;3;4;5;6].

(* ---------- C04: reserved work equals remaining work and agrees with the dates ---------- *)
Definition completed (fwd : bool) (k : itask) : bool :=
  fwd && match k_end k with Some _ => true | None => false end.

Definition c04_task_b (fwd : bool) (cfg : config) (w : list itask) (o : osch) (t : nat) : bool :=
  let k := gett w t in
  let rs := rows_of o t in
  let days := map row_day rs in
  if negb (leafb w t) || k_milestone k || completed fwd k then
    (match rs with [] => true | _ => false end)
    && (if fwd && leafb w t && negb (k_milestone k)
        then (match k_start k with Some s => zopt_eqb (o_start o t) (Some s) | None => true end)
             && (match k_end k with Some e => zopt_eqb (o_end o t) (Some e) | None => true end)
        else true)
  else
    match o_start o t, o_end o t with
    | Some s, Some e =>
        (osum rs =? Z.max (odflt (k_est k) (dflt_est cfg) - odflt (k_spent k) 0) 0)
        && nodup_z days
        && forallb (fun d => (day_of s <=? d) && (DAY * d <? e) && (if fwd then day_of (now cfg) <=? d else true)) days
        (* a user-fixed start is returned unchanged also when nothing is left to reserve *)
        && (if fwd then match k_start k with Some s0 => s =? s0 | None => true end else true)
        && (match days with
            | [] => true
            | d0 :: ds =>
                let dmin := zmin_list d0 ds in
                let dmax := zmax_list d0 ds in
                if fwd then
                  (match k_start k with None => day_of s =? dmin | Some s0 => (s =? s0) end)
                  && (DAY * dmax <=? e) && (e <=? DAY * (dmax + 1))
                else
                  (match k_start k with None => (DAY * dmin <=? s) && (s <=? DAY * (dmin + 1)) | Some _ => true end)
            end)
    | _, _ => false
    end.

Definition c04_b (fwd : bool) (cfg : config) (w : list itask) (o : osch) : bool :=
  forallb (c04_task_b fwd cfg w o) (members w).

(* ---------- C02: forward schedules respect prerequisites ---------- *)
Definition ends_of (o : osch) (w : list itask) (ps : list nat) : list Z :=
  somes (map (fun p => if k_ext (gett w p) then k_end (gett w p) else o_end o p) ps).
Definition starts_of (o : osch) (w : list itask) (ps : list nat) : list Z :=
  somes (map (fun p => if k_ext (gett w p) then k_start (gett w p) else o_start o p) ps).

Definition c02_task_b (cfg : config) (w : list itask) (o : osch) (t : nat) : bool :=
  let k := gett w t in
  if negb (leafb w t) then true
  else if k_milestone k then
    let b := zmax_list (pbound cfg) (ends_of o w (prereq_leaves w t)) in
    zopt_eqb (o_start o t) (Some b) && zopt_eqb (o_end o t) (Some b)
  else match k_start k, k_end k with
       | None, None =>
           match o_start o t with
           | Some s =>
               let bounds := pbound cfg :: now cfg :: odflt (k_minstart k) 0 :: ends_of o w (prereq_leaves w t) in
               forallb (fun b => (day_of b <=? day_of s)
                                 && forallb (fun x => day_of b <=? row_day x) (rows_of o t)) bounds
           | None => false
           end
       | _, _ => true
       end.
Definition c02_b (cfg : config) (w : list itask) (o : osch) : bool :=
  forallb (c02_task_b cfg w o) (members w).

(* ---------- C07: start <= end and roll-ups ---------- *)
Definition user_dates_ok (k : itask) : bool :=
  match k_start k, k_end k with Some s, Some e => s <=? e | _, _ => true end.

Definition osum_opts (l : list (option Z)) : option Z :=
  fold_right (fun x a => match x, a with Some v, Some s => Some (v + s) | _, _ => None end) (Some 0) l.

Definition c07_task_b (w : list itask) (o : osch) (t : nat) : bool :=
  let k := gett w t in
  match o_start o t, o_end o t with
  | Some s, Some e =>
      (if leafb w t then negb (user_dates_ok k) || (s <=? e) else true)
      && (match k_children k with
          | [] => true
          | c :: cs =>
              if k_milestone k then true else
              match somes (map (o_start o) (c :: cs)), somes (map (o_end o) (c :: cs)) with
              | s0 :: ss, e0 :: es =>
                  (Nat.eqb (length (s0 :: ss)) (length (c :: cs))) && (Nat.eqb (length (e0 :: es)) (length (c :: cs)))
                  && (s =? zmin_list s0 ss) && (e =? zmax_list e0 es)
                  && (match osum_opts (map (o_est o) (c :: cs)) with
                      | Some v => zopt_eqb (o_est o t) (Some v) | None => false end)
                  && (match osum_opts (map (o_spent o) (c :: cs)) with
                      | Some v => zopt_eqb (o_spent o t) (Some v) | None => false end)
              | _, _ => false
              end
          end)
  | _, _ => false
  end.

(* summaries only need start <= end when all leaves below have sane user dates; it follows from the roll-up *)
Definition c07_order_b (w : list itask) (o : osch) : bool :=
  negb (forallb (fun t => negb (leafb w t) || user_dates_ok (gett w t)) (members w))
  || forallb (fun t => match o_start o t, o_end o t with Some s, Some e => s <=? e | _, _ => false end) (members w).

Definition c07_b (w : list itask) (o : osch) (wstart wend : option Z) : bool :=
  forallb (c07_task_b w o) (members w) && c07_order_b w o
  && (match somes (map (o_start o) (members w)) with
      | [] => match wstart with None => true | _ => false end
      | s0 :: ss => zopt_eqb wstart (Some (zmin_list s0 ss))
      end)
  && (match somes (map (o_end o) (members w)) with
      | [] => match wend with None => true | _ => false end
      | e0 :: es => zopt_eqb wend (Some (zmax_list e0 es))
      end).

(* ---------- C08: forward schedules are tight, dates encode used capacity ---------- *)
Fixpoint zrange (lo : Z) (n : nat) : list Z := match n with O => [] | S m => lo :: zrange (lo + 1) m end.

(* rows that precede the first row of task t on (r, d), and rows up to and including it *)
Fixpoint before_task (l : list obs_row) (t : nat) : list obs_row :=
  match l with [] => [] | x :: r => if Nat.eqb (row_task x) t then [] else x :: before_task r t end.
Fixpoint upto_task_day (l : list obs_row) (t : nat) (d : Z) : list obs_row :=
  match l with
  | [] => []
  | x :: r => if Nat.eqb (row_task x) t && (row_day x =? d) then [x] else x :: upto_task_day r t d
  end.

Definition free_leaf (w : list itask) (t : nat) : bool :=
  let k := gett w t in
  leafb w t && negb (k_milestone k)
  && match k_start k, k_end k with None, None => true | _, _ => false end.

Definition c08_task_b (cfg : config) (w : list itask) (o : osch) (t : nat) : bool :=
  let k := gett w t in
  if negb (free_leaf w t) then true else
  match o_start o t, o_end o t with
  | Some s, Some e =>
      let r := k_res k in
      let release := zmax_list (pbound cfg)
                       (now cfg :: odflt (k_minstart k) 0 :: ends_of o w (prereq_leaves w t)) in
      let days := map row_day (rows_of o t) in
      let lastday := match days with [] => day_of s | d0 :: ds => zmax_list d0 ds end in
      (* tight: fully booked from the release day up to (excluding) the last work day *)
      (if balance cfg then
         forallb (fun d => obooked (o_rows o) r d =? cap cfg r d)
                 (zrange (day_of release) (Z.to_nat (lastday - day_of release)))
       else true)
      (* encoding of the dates *)
      && (if (now cfg <=? pbound cfg) then
            match days with
            | [] =>
                (* no work left, nothing reserved: the start is still the encoded date of its day (a day with
                   capacity); the share booked before the task is the share booked by some prefix of rows()
                   (the moment the task was placed), hence at most the share booked on that day in the whole
                   schedule; the end is the start, or the project start when that is later *)
                (0 <? cap cfg r (day_of s)) && (e =? Z.max s (pbound cfg))
                && (if balance cfg then
                      (s <=? DAY * day_of s + frac (obooked (o_rows o) r (day_of s)) (cap cfg r (day_of s)))
                      && existsb (fun n => s =? DAY * day_of s
                                                + frac (obooked (firstn n (o_rows o)) r (day_of s)) (cap cfg r (day_of s)))
                                 (seq 0 (S (length (o_rows o))))
                    else s =? DAY * day_of s)
            | d0 :: ds =>
                let first := zmin_list d0 ds in
                if balance cfg then
                  (s =? DAY * first + frac (obooked (before_task (o_rows o) t) r first) (cap cfg r first))
                  && (e =? DAY * lastday + frac (obooked (upto_task_day (o_rows o) t lastday) r lastday) (cap cfg r lastday))
                else
                  (s =? DAY * first) && (e =? DAY * lastday + frac (obooked_t (o_rows o) r lastday t) (cap cfg r lastday))
            end
          else true)
  | _, _ => false
  end.

(* tasks without any (own or inherited) dependency are served in WBS order *)
Definition unlinked (w : list itask) (t : nat) : bool :=
  free_leaf w t && (match prereqs w t with [] => true | _ => false end)
  && (match dependants w t with [] => true | _ => false end).
Fixpoint first_index (l : list obs_row) (t : nat) (i : nat) : option nat :=
  match l with [] => None | x :: r => if Nat.eqb (row_task x) t then Some i else first_index r t (S i) end.
Fixpoint increasing (l : list nat) : bool :=
  match l with
  | a :: ((b :: _) as r) => (a <? b)%nat && increasing r
  | _ => true
  end.
Definition c08_order_b (w : list itask) (o : osch) : bool :=
  increasing (somes (map (fun t => first_index (o_rows o) t 0) (filter (unlinked w) (members w)))).

Definition c08_b (cfg : config) (w : list itask) (o : osch) : bool :=
  forallb (c08_task_b cfg w o) (members w) && c08_order_b w o.

(* ---------- C09: backward schedules ---------- *)
Definition no_user_dates (w : list itask) : bool :=
  forallb (fun t => match k_start (gett w t), k_end (gett w t) with None, None => true | _, _ => false end) (members w).

Definition c09_task_b (cfg : config) (w : list itask) (o : osch) (t : nat) : bool :=
  let k := gett w t in
  match o_start o t, o_end o t with
  | Some s, Some e =>
      (e <=? pbound cfg)
      (* every declared or inherited dependency: this task ends before its dependants start *)
      && forallb (fun s2 => e <=? s2) (starts_of o w (dependants w t))
      (* ... and before every leaf inside a dependant summary starts (the dependency seen from the successor's side) *)
      && forallb (fun s2 => e <=? s2) (starts_of o w (dependant_leaves w t))
      && (if leafb w t && negb (k_milestone k) then
            let r := k_res k in
            let due := zmin_list (pbound cfg) (starts_of o w (dependants w t)) in
            let days := map row_day (rows_of o t) in
            (* the day the computed end belongs to *)
            let eday := day_of (e - 1) in
            (if balance cfg then
               (* late packed: days strictly after the end's day and wholly before the due date are full *)
               forallb (fun d => obooked (o_rows o) r d =? cap cfg r d)
                       (zrange (day_of e + 1) (Z.to_nat (day_of due - day_of e - 1)))
               && (match days with
                   | [] =>
                       (* a leaf without work left reserves nothing: start = end; the end is still the encoded
                          date of a day with capacity: the share booked before the task is the share booked
                          by some prefix of rows() (the moment the task was placed), hence at most the share
                          booked on that day in the whole schedule *)
                       (s =? e) && (0 <? cap cfg r eday)
                       && (DAY * (eday + 1) - frac (obooked (o_rows o) r eday) (cap cfg r eday) <=? e)
                       && existsb (fun n => e =? DAY * (eday + 1)
                                                 - frac (obooked (firstn n (o_rows o)) r eday) (cap cfg r eday))
                                  (seq 0 (S (length (o_rows o))))
                   | d0 :: ds =>
                       let first := zmin_list d0 ds in
                       let last := zmax_list d0 ds in
                       forallb (fun d => obooked (o_rows o) r d =? cap cfg r d)
                               (zrange (first + 1) (Z.to_nat (last - first - 1)))
                       (* start: midnight following the first work day minus the share booked up to and including the task *)
                       && (s =? DAY * (first + 1) - frac (obooked (upto_task_day (o_rows o) t first) r first) (cap cfg r first))
                       (* end: midnight following its day minus the share booked before the task was placed *)
                       && (e =? DAY * (eday + 1) - frac (obooked (before_task (o_rows o) t) r eday) (cap cfg r eday))
                   end)
             else
               match days with
               | [] =>
                   (* no work left, balancing off: nothing of its own is booked, the end is the midnight
                      following a day with capacity *)
                   (s =? e) && (0 <? cap cfg r eday) && (e =? DAY * (eday + 1))
               | d0 :: ds =>
                   let first := zmin_list d0 ds in
                   (s =? DAY * (first + 1) - frac (obooked_t (o_rows o) r first t) (cap cfg r first))
                   && (e =? DAY * (eday + 1))
               end)
          else true)
  | _, _ => false
  end.

Definition c09_b (cfg : config) (w : list itask) (o : osch) : bool :=
  negb (no_user_dates w) || forallb (c09_task_b cfg w o) (members w).

(* ---------- C06 (shape part): every task has both dates ---------- *)
Definition c06_dates_b (w : list itask) (o : osch) : bool :=
  Nat.eqb (length (o_tasks o)) (length (members w))
  && forallb (fun t => match o_start o t, o_end o t with Some _, Some _ => true | _, _ => false end) (members w).
