(* Source-text tie for ForwardScheduler.__forward_pass: the translated source [src_fwd_pass] (gen/SrcPass.v) against the
   model's [fwd_pass] / [forward] (Sched/Model.v), in the vocabulary of Sched/SrcPassRel.v. *)
From PJ Require Import Base.Prelude Sched.Model gen.SrcPass Sched.SrcPassRel.
Open Scope Z_scope.

(* ---------- the per-task computation of the source, cut at its join points ---------- *)
(* Each stage is the body of one join point of the generated term, with what it captures as parameters and the rest of
   the function as the continuation [K]; [src_fwd_pass_S] below checks (by conversion) that the generated term is their
   composition. *)
Section Stages.
Context {X : Type}.
Variables (cfg : config) (w : list itask) (_task : nat).

Definition src_leaf : bool := Z.of_nat (length (k_children (gett w _task))) =? 0.

(* join_50: the end date *)
Definition src_end (l : ledger) (K : list dyn -> ledger -> res X) (ds_51 : list dyn) : res X :=
  match d_end (getdl ds_51 _task) with
  | Some _ => K ds_51 l
  | None =>
      if src_leaf
      then
        match d_est (getdl ds_51 _task) with
        | Some v_53 =>
            match d_spent (getdl ds_51 _task) with
            | Some v_54 =>
                let left_hours_55 := Z.max (v_53 - v_54) 0 in
                match d_start (getdl ds_51 _task) with
                | Some v_56 =>
                    let start_57 := Z.max (Z.max v_56 (now cfg)) (pbound cfg) in
                    do '(resource_usage_58, r_59) <- fwd_shift cfg l (k_res (gett w _task)) _task start_57 left_hours_55;
                    match d_start (getdl ds_51 _task) with
                    | Some v_60 =>
                        let w_61 := Z.max r_59 v_60 in
                        let ds_62 := dupd ds_51 _task (with_end (Some w_61)) in
                        K ds_62 resource_usage_58
                    | None => Crash TypeError
                    end
                | None => Crash TypeError
                end
            | None => Crash TypeError
            end
        | None => Crash TypeError
        end
      else
        match somes (map (fun t_63 : nat => d_end (getdl ds_51 t_63)) (k_children (gett w _task))) with
        | [] => Crash ValueError
        | x_64 :: xs_65 =>
            let w_66 := fold_left Z.max xs_65 x_64 in
            let ds_67 := dupd ds_51 _task (with_end (Some w_66)) in K ds_67 l
        end
  end.

(* join_48: spent *)
Definition src_spent (K : list dyn -> res X) (ds_49 : list dyn) : res X :=
  match d_spent (getdl ds_49 _task) with
  | Some _ => K ds_49
  | None =>
      if src_leaf
      then let ds_69 := dupd ds_49 _task (with_spent (Some 0)) in K ds_69
      else
        do s_71 <- sum_opts (map (fun ch_70 : nat => d_spent (getdl ds_49 ch_70)) (k_children (gett w _task)));
        let ds_72 := dupd ds_49 _task (with_spent (Some s_71)) in K ds_72
  end.

(* join_46: estimate *)
Definition src_est (K : list dyn -> res X) (ds_47 : list dyn) : res X :=
  match d_est (getdl ds_47 _task) with
  | Some _ => K ds_47
  | None =>
      if src_leaf
      then let w_74 := dflt_est cfg in let ds_75 := dupd ds_47 _task (with_est (Some w_74)) in K ds_75
      else
        do s_77 <- sum_opts (map (fun ch_76 : nat => d_est (getdl ds_47 ch_76)) (k_children (gett w _task)));
        let ds_78 := dupd ds_47 _task (with_est (Some s_77)) in K ds_78
  end.

(* the start date *)
Definition src_start_leaf (bound : Z) (l : ledger) (K : list dyn -> res X) (ds_25 : list dyn) (v : Z) : res X :=
  let w_81 := Z.max (Z.max bound (now cfg)) v in
  let ds_82 := dupd ds_25 _task (with_start (Some w_81)) in
  do r_83 <- fwd_nearest cfg l (k_res (gett w _task)) _task w_81;
  let ds_84 := dupd ds_82 _task (with_start (Some r_83)) in
  match d_end (getdl ds_84 _task) with
  | Some x_v_85 =>
      let w_86 := Z.min r_83 x_v_85 in
      let ds_87 := dupd ds_84 _task (with_start (Some w_86)) in K ds_87
  | None => K ds_84
  end.

Definition src_start (bound : Z) (l : ledger) (K : list dyn -> res X) (ds_25 : list dyn) : res X :=
  match d_start (getdl ds_25 _task) with
  | Some _ => K ds_25
  | None =>
      if src_leaf
      then
        match k_minstart (gett w _task) with
        | Some v_80 => src_start_leaf bound l K ds_25 v_80
        | None => src_start_leaf bound l K ds_25 0
        end
      else
        let children_starts_96 :=
          somes (map (fun t_95 : nat => d_start (getdl ds_25 t_95)) (k_children (gett w _task))) in
        let join_97 :=
          fun children_starts_98 : list Z =>
          match children_starts_98 with
          | [] => Crash ValueError
          | x_99 :: xs_100 =>
              let w_101 := fold_left Z.min xs_100 x_99 in
              let ds_102 := dupd ds_25 _task (with_start (Some w_101)) in K ds_102
          end in
        if Z.of_nat (length children_starts_96) =? 0 then join_97 [0] else join_97 children_starts_96
  end.

(* everything between the loop over the children and the bookkeeping (join_37 = K) *)
Definition src_compute (bound : Z) (ds_25 : list dyn) (l : ledger) (K : list dyn -> ledger -> res X) : res X :=
  if k_milestone (gett w _task)
  then
    let ds_42 := dupd ds_25 _task (with_start (Some bound)) in
    let ds_43 := dupd ds_42 _task (with_end (Some bound)) in
    let ds_44 := dupd ds_43 _task (with_est (Some 0)) in
    let ds_45 := dupd ds_44 _task (with_spent (Some 0)) in K ds_45 l
  else src_start bound l (src_est (src_spent (src_end l K))) ds_25.
End Stages.

(* the bookkeeping at the end of the function *)
Definition src_done (_task : nat) (calculated_27 in_progress_28 : list nat) (ds_38 : list dyn) (resource_usage_39 : ledger)
  : res (pstate * unit) :=
  if existsb (Nat.eqb _task) in_progress_28
  then Ok ((ds_38, resource_usage_39, calculated_27 ++ [_task], src_remove1 _task in_progress_28), tt)
  else Crash ValueError.

(* the recursive calls of one loop *)
Definition src_calls (pass : list dyn -> ledger -> list nat -> list nat -> nat -> res (pstate * unit)) (ts : list nat) (x : pstate)
  : res pstate :=
  fold_res (fun st p => let '(ds, l, cl, ip) := st in do '((ds2, l2, cl2, ip2), _) <- pass ds l cl ip p; Ok (ds2, l2, cl2, ip2))
           ts x.

(* the generated function, read through the definitions above: checked by conversion *)
Lemma src_fwd_pass_S fuel cfg w ds l cl ip t :
  src_fwd_pass (S fuel) cfg w ds l cl ip t =
  if k_ext (gett w t) then Ok ((ds, l, cl, ip), tt)
  else if existsb (Nat.eqb t) cl then Ok ((ds, l, cl, ip), tt)
  else if existsb (Nat.eqb t) ip then Err
  else
    do pre <- fold_res (fun st p => Ok (st ++ k_preds (gett w p))) (ancestors w (length w) t) (k_preds (gett w t));
    do '(ds1, l1, cl1, ip1) <- src_calls (src_fwd_pass fuel cfg w) pre (ds, l, cl, ip ++ [t]);
    match somes (map (fun p => d_end (getdl ds1 p)) pre) ++ [pbound cfg] with
    | [] => Crash ValueError
    | x :: xs =>
        do '(ds2, l2, cl2, ip2) <- src_calls (src_fwd_pass fuel cfg w) (k_children (gett w t)) (ds1, l1, cl1, ip1);
        src_compute cfg w t (fold_left Z.max xs x) ds2 l2 (src_done t cl2 ip2)
    end.
Proof. reflexivity. Qed.

(* ---------- lists, the monad ---------- *)
Lemma bind_ext {A B} (m : res A) (f g : A -> res B) : (forall x, f x = g x) -> bind m f = bind m g.
Proof. intros H. destruct m; cbn [bind]; auto. Qed.

Lemma bind_assoc {A B C} (m : res A) (f : A -> res B) (g : B -> res C) :
  bind (bind m f) g = bind m (fun x => bind (f x) g).
Proof. destruct m; reflexivity. Qed.

Lemma set_nth_length {A} (l : list A) n x : length (set_nth l n x) = length l.
Proof. revert n. induction l as [|a l IH]; intros [|n]; cbn [set_nth length]; auto. Qed.

Lemma nth_set_nth_same {A} (l : list A) n x d : (n < length l)%nat -> nth n (set_nth l n x) d = x.
Proof.
  revert n. induction l as [|a l IH]; intros [|n] H; cbn [length] in H; try lia; cbn [set_nth nth]; auto.
  apply IH. lia.
Qed.

Lemma nth_set_nth_other {A} (l : list A) n m x d : n <> m -> nth m (set_nth l n x) d = nth m l d.
Proof.
  revert n m. induction l as [|a l IH]; intros [|n] [|m] H; cbn [set_nth nth]; auto; try congruence.
Qed.

Lemma set_nth_same {A} (l : list A) n d : set_nth l n (nth n l d) = l.
Proof. revert n. induction l as [|a l IH]; intros [|n]; cbn [set_nth nth]; auto. f_equal. apply IH. Qed.

Lemma set_nth_twice {A} (l : list A) n x y : set_nth (set_nth l n x) n y = set_nth l n y.
Proof. revert n. induction l as [|a l IH]; intros [|n]; cbn [set_nth]; auto. f_equal. apply IH. Qed.

(* ---------- field-by-field writes ---------- *)
Lemma getdl_set ds t d : (t < length ds)%nat -> getdl (set_nth ds t d) t = d.
Proof. intros H. unfold getdl. apply nth_set_nth_same. exact H. Qed.

Lemma dupd_set ds t d f : (t < length ds)%nat -> dupd (set_nth ds t d) t f = set_nth ds t (f d).
Proof. intros H. unfold dupd. rewrite getdl_set by exact H. apply set_nth_twice. Qed.

Lemma set_getdl ds t : set_nth ds t (getdl ds t) = ds.
Proof. apply set_nth_same. Qed.

(* a field that the write leaves alone reads the same everywhere *)
Lemma field_set {A} (f : dyn -> A) ds t d x : f d = f (getdl ds t) -> f (getdl (set_nth ds t d) x) = f (getdl ds x).
Proof.
  intros H. destruct (Nat.eq_dec t x) as [E|N].
  - subst x. destruct (Nat.lt_ge_cases t (length ds)) as [L|G].
    + rewrite getdl_set by exact L. exact H.
    + unfold getdl. rewrite !nth_overflow; [reflexivity|exact G|rewrite set_nth_length; exact G].
  - unfold getdl. rewrite nth_set_nth_other by exact N. reflexivity.
Qed.

Lemma kids_field {A} (f : dyn -> A) ds t d ch :
  f d = f (getdl ds t) -> map (fun c => f (getdl (set_nth ds t d) c)) ch = map f (map (getdl ds) ch).
Proof. intros H. rewrite map_map. apply map_ext. intros c. apply field_set. exact H. Qed.

Lemma src_leaf_eq w t : src_leaf w t = is_leaf (gett w t).
Proof. unfold src_leaf, is_leaf. destruct (k_children (gett w t)); reflexivity. Qed.

(* ---------- the model's computation, block by block ---------- *)
Definition m_start (cfg : config) (w : list itask) (ds : list dyn) (l : ledger) (t : nat) (bound : Z) : res Z :=
  match d_start (getdl ds t) with
  | Some s => Ok s
  | None =>
      if is_leaf (gett w t) then
        do s <- fwd_nearest cfg l (k_res (gett w t)) t (Z.max (Z.max bound (now cfg)) (odflt (k_minstart (gett w t)) 0));
        Ok (match d_end (getdl ds t) with Some e => Z.min s e | None => s end)
      else
        match somes (map d_start (map (getdl ds) (k_children (gett w t)))) with
        | [] => Ok 0
        | x :: xs => Ok (fold_left Z.min xs x)
        end
  end.
Definition m_est (cfg : config) (w : list itask) (ds : list dyn) (t : nat) : res Z :=
  match d_est (getdl ds t) with
  | Some e => Ok e
  | None => if is_leaf (gett w t) then Ok (dflt_est cfg) else sum_opts (map d_est (map (getdl ds) (k_children (gett w t))))
  end.
Definition m_spent (w : list itask) (ds : list dyn) (t : nat) : res Z :=
  match d_spent (getdl ds t) with
  | Some e => Ok e
  | None => if is_leaf (gett w t) then Ok 0 else sum_opts (map d_spent (map (getdl ds) (k_children (gett w t))))
  end.
Definition m_end (cfg : config) (w : list itask) (ds : list dyn) (l : ledger) (t : nat) (start est spent : Z) : res (ledger * Z) :=
  match d_end (getdl ds t) with
  | Some e => Ok (l, e)
  | None =>
      if is_leaf (gett w t) then
        do '(l', e) <- fwd_shift cfg l (k_res (gett w t)) t (Z.max (Z.max start (now cfg)) (pbound cfg)) (Z.max (est - spent) 0);
        Ok (l', Z.max e start)
      else
        match somes (map d_end (map (getdl ds) (k_children (gett w t)))) with
        | [] => Crash ValueError
        | x :: xs => Ok (l, fold_left Z.max xs x)
        end
  end.

Lemma fwd_compute_blocks cfg w ds l t bound :
  fwd_compute cfg w ds l t bound =
  if k_milestone (gett w t) then
    Ok (set_nth ds t {| d_start := Some bound; d_end := Some bound; d_est := Some 0; d_spent := Some 0 |}, l)
  else
    do start <- m_start cfg w ds l t bound;
    do est <- m_est cfg w ds t;
    do spent <- m_spent w ds t;
    do '(l', en) <- m_end cfg w ds l t start est spent;
    Ok (set_nth ds t {| d_start := Some start; d_end := Some en; d_est := Some est; d_spent := Some spent |}, l').
Proof. reflexivity. Qed.

(* ---------- the stages against the blocks ---------- *)
Section StageProofs.
Context {X : Type}.
Variables (cfg : config) (w : list itask) (t : nat) (ds : list dyn).
Hypothesis Ht : (t < length ds)%nat.

Lemma src_end_eq l (K : list dyn -> ledger -> res X) d start est spent :
  d_start d = Some start -> d_est d = Some est -> d_spent d = Some spent -> d_end d = d_end (getdl ds t) ->
  src_end cfg w t l K (set_nth ds t d) =
  do '(l', en) <- m_end cfg w ds l t start est spent;
  K (set_nth ds t {| d_start := Some start; d_end := Some en; d_est := Some est; d_spent := Some spent |}) l'.
Proof.
  intros Hs He Hp Hn. unfold src_end, m_end.
  rewrite (kids_field d_end ds t d _ Hn). rewrite getdl_set by exact Ht. rewrite src_leaf_eq.
  destruct d as [s e es sp]. cbn [d_start d_end d_est d_spent] in *. subst s es sp. rewrite <- Hn.
  destruct e as [e|]; cbn [bind].
  - reflexivity.
  - destruct (is_leaf (gett w t)).
    + rewrite bind_assoc. apply bind_ext. intros [l' e]. cbn [bind]. rewrite dupd_set by exact Ht. reflexivity.
    + destruct (somes _) as [|x xs]; cbn [bind]; [reflexivity|]. rewrite dupd_set by exact Ht. reflexivity.
Qed.

Lemma src_spent_eq (K : list dyn -> res X) d :
  d_spent d = d_spent (getdl ds t) ->
  src_spent w t K (set_nth ds t d) = do sp <- m_spent w ds t; K (set_nth ds t (with_spent (Some sp) d)).
Proof.
  intros Hn. unfold src_spent, m_spent.
  rewrite (kids_field d_spent ds t d _ Hn). rewrite getdl_set by exact Ht. rewrite src_leaf_eq. rewrite <- Hn.
  destruct d as [s e es [sp|]]; cbn [d_spent bind].
  - reflexivity.
  - destruct (is_leaf (gett w t)); cbn [bind].
    + rewrite dupd_set by exact Ht. reflexivity.
    + apply bind_ext. intros sp. rewrite dupd_set by exact Ht. reflexivity.
Qed.

Lemma src_est_eq (K : list dyn -> res X) d :
  d_est d = d_est (getdl ds t) ->
  src_est cfg w t K (set_nth ds t d) = do es <- m_est cfg w ds t; K (set_nth ds t (with_est (Some es) d)).
Proof.
  intros Hn. unfold src_est, m_est.
  rewrite (kids_field d_est ds t d _ Hn). rewrite getdl_set by exact Ht. rewrite src_leaf_eq. rewrite <- Hn.
  destruct d as [s e [es|] sp]; cbn [d_est bind].
  - reflexivity.
  - destruct (is_leaf (gett w t)); cbn [bind].
    + rewrite dupd_set by exact Ht. reflexivity.
    + apply bind_ext. intros es. rewrite dupd_set by exact Ht. reflexivity.
Qed.
End StageProofs.

Section StartProofs.
Context {X : Type}.
Variables (cfg : config) (w : list itask) (t : nat) (ds : list dyn).
Hypothesis Ht : (t < length ds)%nat.

Lemma dupd_unfold (f : dyn -> dyn) : dupd ds t f = set_nth ds t (f (getdl ds t)).
Proof. reflexivity. Qed.

Lemma src_start_leaf_eq bound l (K : list dyn -> res X) v :
  src_start_leaf cfg w t bound l K ds v =
  do s <- fwd_nearest cfg l (k_res (gett w t)) t (Z.max (Z.max bound (now cfg)) v);
  K (set_nth ds t (with_start (Some (match d_end (getdl ds t) with Some e => Z.min s e | None => s end)) (getdl ds t))).
Proof.
  unfold src_start_leaf. cbv zeta. apply bind_ext. intros r.
  rewrite dupd_unfold. rewrite dupd_set by exact Ht. rewrite getdl_set by exact Ht.
  cbn [with_start d_end]. destruct (d_end (getdl ds t)) as [e|]; [|reflexivity].
  rewrite dupd_set by exact Ht. reflexivity.
Qed.

Lemma src_start_eq bound l (K : list dyn -> res X) :
  src_start cfg w t bound l K ds =
  do s <- m_start cfg w ds l t bound; K (set_nth ds t (with_start (Some s) (getdl ds t))).
Proof.
  unfold src_start, m_start. rewrite src_leaf_eq.
  destruct (d_start (getdl ds t)) as [s|] eqn:Hs; cbn [bind].
  - replace (with_start (Some s) (getdl ds t)) with (getdl ds t); [rewrite set_getdl; reflexivity|].
    destruct (getdl ds t) as [s0 e0 es0 sp0]. cbn [d_start] in Hs. subst s0. reflexivity.
  - destruct (is_leaf (gett w t)).
    + rewrite bind_assoc. cbn [bind].
      destruct (k_minstart (gett w t)) as [v|]; cbn [odflt]; apply src_start_leaf_eq.
    + cbv zeta. rewrite map_map.
      destruct (somes (map (fun x => d_start (getdl ds x)) (k_children (gett w t)))) as [|x xs]; reflexivity.
Qed.
End StartProofs.

(* the per-task computation of the source is the model's [fwd_compute], then the rest of the function *)
Lemma src_compute_eq {X} cfg w t bound ds l (K : list dyn -> ledger -> res X) :
  (t < length ds)%nat ->
  src_compute cfg w t bound ds l K = do r <- fwd_compute cfg w ds l t bound; K (fst r) (snd r).
Proof.
  intros Ht. unfold src_compute. rewrite fwd_compute_blocks. destruct (k_milestone (gett w t)).
  - cbv zeta. cbn [bind fst snd]. rewrite (dupd_unfold t ds). rewrite !dupd_set by exact Ht. reflexivity.
  - rewrite src_start_eq by exact Ht. rewrite bind_assoc. apply bind_ext. intros start.
    rewrite src_est_eq by (exact Ht || reflexivity). rewrite bind_assoc. apply bind_ext. intros est.
    rewrite src_spent_eq by (exact Ht || reflexivity). rewrite bind_assoc. apply bind_ext. intros spent.
    rewrite (src_end_eq cfg w t ds Ht l K _ start est spent) by reflexivity.
    rewrite bind_assoc. apply bind_ext. intros [l' en]. reflexivity.
Qed.

(* ---------- the pieces around the computation ---------- *)
Lemma prereqs_fold w anc acc :
  fold_res (fun st p => Ok (st ++ k_preds (gett w p))) anc acc = Ok (acc ++ flat_map (fun a => k_preds (gett w a)) anc).
Proof.
  revert acc. induction anc as [|a anc IH]; intros acc; cbn [fold_res flat_map bind].
  - rewrite app_nil_r. reflexivity.
  - rewrite IH. rewrite app_assoc. reflexivity.
Qed.

Lemma fold_max_out l a b : fold_left Z.max l (Z.max a b) = Z.max a (fold_left Z.max l b).
Proof.
  revert b. induction l as [|y l IH]; intros b; cbn [fold_left]; [reflexivity|].
  rewrite <- Z.max_assoc. apply IH.
Qed.

(* max(xs + [b]) of the source against the model's fold from b *)
Lemma bound_cons l b : exists x xs, l ++ [b] = x :: xs /\ fold_left Z.max xs x = fold_left Z.max l b.
Proof.
  destruct l as [|x xs].
  - exists b, []. split; reflexivity.
  - exists x, (xs ++ [b]). split; [reflexivity|].
    rewrite fold_left_app. cbn [fold_left]. rewrite fold_max_out. apply Z.max_comm.
Qed.

Lemma same_elts_memb a b t : same_elts a b -> memb t a = existsb (Nat.eqb t) b.
Proof.
  intros H. unfold memb. apply eq_true_iff_eq. rewrite !existsb_exists. split; intros (x & Hx & E); exists x; (split; [|exact E]); apply H; exact Hx.
Qed.

Lemma existsb_self t ip : existsb (Nat.eqb t) (ip ++ [t]) = true.
Proof. apply existsb_exists. exists t. split; [apply in_or_app; right; left; reflexivity|apply Nat.eqb_refl]. Qed.

Lemma not_memb_not_in t ip : existsb (Nat.eqb t) ip = false -> ~ In t ip.
Proof.
  intros H Hin. assert (E : existsb (Nat.eqb t) ip = true) by (apply existsb_exists; exists t; split; [exact Hin|apply Nat.eqb_refl]).
  congruence.
Qed.

(* list.remove after the append at the start of the call gives the caller's list back *)
Lemma remove1_last t ip : ~ In t ip -> src_remove1 t (ip ++ [t]) = ip.
Proof.
  induction ip as [|y ip IH]; intros H; cbn [app src_remove1].
  - rewrite Nat.eqb_refl. reflexivity.
  - destruct (Nat.eqb t y) eqn:E.
    + apply Nat.eqb_eq in E. subst y. exfalso. apply H. left. reflexivity.
    + f_equal. apply IH. intros Hin. apply H. right. exact Hin.
Qed.

Lemma in_remove_nat x t l : In x (remove_nat t l) <-> In x l /\ x <> t.
Proof.
  unfold remove_nat. rewrite filter_In. split; intros [H1 H2]; (split; [exact H1|]).
  - intros E. subst x. rewrite Nat.eqb_refl in H2. discriminate.
  - apply Bool.negb_true_iff. apply Nat.eqb_neq. exact H2.
Qed.

Lemma ext_in_range w t : k_ext (gett w t) = false -> (t < length w)%nat.
Proof.
  intros H. destruct (Nat.lt_ge_cases t (length w)) as [L|G]; [exact L|].
  unfold gett in H. rewrite nth_overflow in H by exact G. discriminate.
Qed.

(* ---------- the model's pass keeps the number of records ---------- *)
Lemma fwd_pass_S fuel cfg w st t :
  fwd_pass (S fuel) cfg w st t =
  if k_ext (gett w t) then Ok st
  else if memb t (calc st) then Ok st
  else if memb t (inprog st) then Err
  else
    do st2 <- fold_res (fwd_pass fuel cfg w) (prereqs w t) (enter st t);
    do st3 <- fold_res (fwd_pass fuel cfg w) (k_children (gett w t)) st2;
    do r <- fwd_compute cfg w (dy st3) (lg st3) t (bound_max (dy st2) (prereqs w t) (pbound cfg));
    Ok (leave st3 t r).
Proof. reflexivity. Qed.

Lemma fwd_compute_len cfg w ds l t b r : fwd_compute cfg w ds l t b = Ok r -> length (fst r) = length ds.
Proof.
  rewrite fwd_compute_blocks. destruct (k_milestone (gett w t)).
  - intros H. inversion H. apply set_nth_length.
  - destruct (m_start cfg w ds l t b) as [s| |]; cbn [bind]; try discriminate.
    destruct (m_est cfg w ds t) as [e| |]; cbn [bind]; try discriminate.
    destruct (m_spent w ds t) as [sp| |]; cbn [bind]; try discriminate.
    destruct (m_end cfg w ds l t s e sp) as [[l' en]| |]; cbn [bind]; try discriminate.
    intros H. inversion H. apply set_nth_length.
Qed.

Lemma fold_len (M : sst -> nat -> res sst) :
  (forall st t st', M st t = Ok st' -> length (dy st') = length (dy st)) ->
  forall ts st st', fold_res M ts st = Ok st' -> length (dy st') = length (dy st).
Proof.
  intros HM. induction ts as [|a ts IH]; intros st st' H; cbn [fold_res] in H.
  - inversion H. reflexivity.
  - destruct (M st a) as [s1| |] eqn:E; cbn [bind] in H; try discriminate.
    rewrite (IH _ _ H). apply (HM _ _ _ E).
Qed.

Lemma fwd_pass_len cfg w : forall fuel st t st', fwd_pass fuel cfg w st t = Ok st' -> length (dy st') = length (dy st).
Proof.
  induction fuel as [|fuel IH]; intros st t st' H; [discriminate|].
  rewrite fwd_pass_S in H.
  destruct (k_ext (gett w t)); [inversion H; reflexivity|].
  destruct (memb t (calc st)); [inversion H; reflexivity|].
  destruct (memb t (inprog st)); [discriminate|].
  destruct (fold_res (fwd_pass fuel cfg w) (prereqs w t) (enter st t)) as [st2| |] eqn:E2; cbn [bind] in H; try discriminate.
  destruct (fold_res (fwd_pass fuel cfg w) (k_children (gett w t)) st2) as [st3| |] eqn:E3; cbn [bind] in H; try discriminate.
  destruct (fwd_compute cfg w (dy st3) (lg st3) t _) as [r| |] eqn:Ec; cbn [bind] in H; try discriminate.
  inversion H. cbn [leave dy]. rewrite (fwd_compute_len _ _ _ _ _ _ _ Ec).
  rewrite (fold_len _ IH _ _ _ E3). rewrite (fold_len _ IH _ _ _ E2). reflexivity.
Qed.

(* ---------- a loop of recursive calls ---------- *)
Definition calls_rel (ip : list nat) (m : res sst) (c : res pstate) : Prop :=
  match m, c with
  | Ok st', Ok x' => st_rel st' x' /\ snd x' = ip
  | Err, Err => True
  | Crash a, Crash b => a = b
  | _, _ => False
  end.

Definition pass_ok (w : list itask) (M : sst -> nat -> res sst)
           (C : list dyn -> ledger -> list nat -> list nat -> nat -> res (pstate * unit)) : Prop :=
  forall st ds l cl ip t, st_rel st (ds, l, cl, ip) -> (length w <= length ds)%nat -> pass_rel ip (M st t) (C ds l cl ip t).

Lemma calls_ok w M C :
  pass_ok w M C -> (forall st t st', M st t = Ok st' -> length (dy st') = length (dy st)) ->
  forall ts st ds l cl ip, st_rel st (ds, l, cl, ip) -> (length w <= length ds)%nat ->
  calls_rel ip (fold_res M ts st) (src_calls C ts (ds, l, cl, ip)).
Proof.
  intros HP HL. unfold src_calls. induction ts as [|a ts IH]; intros st ds l cl ip Hr Hn; cbn [fold_res].
  - cbn [calls_rel snd]. split; [exact Hr|reflexivity].
  - pose proof (HP st ds l cl ip a Hr Hn) as H1. pose proof (HL st a) as H2.
    destruct (M st a) as [s1| |]; destruct (C ds l cl ip a) as [[[[[ds1 l1] cl1] ip1] u]| |];
      cbn [pass_rel] in H1; cbn [bind]; try contradiction; try exact H1.
    destruct H1 as [Hr1 Hip]. cbn [snd] in Hip. subst ip1. apply IH; [exact Hr1|].
    destruct Hr1 as [Hd _]. rewrite <- Hd. rewrite (H2 s1 eq_refl). destruct Hr as [Hd0 _]. rewrite Hd0. exact Hn.
Qed.

Lemma same_elts_snoc a b t : same_elts a b -> same_elts (t :: a) (b ++ [t]).
Proof. intros H x. rewrite in_app_iff. cbn [In]. specialize (H x). tauto. Qed.

(* ---------- the pass ---------- *)
Lemma src_fwd_pass_ok cfg w : forall fuel, pass_ok w (fwd_pass fuel cfg w) (src_fwd_pass fuel cfg w).
Proof.
  induction fuel as [|fuel IH]; intros st ds l cl ip t Hr Hn.
  - reflexivity.
  - rewrite fwd_pass_S, src_fwd_pass_S.
    destruct (k_ext (gett w t)) eqn:Hext; [cbn [pass_rel snd]; split; [exact Hr|reflexivity]|].
    pose proof Hr as (Hd & Hl & Hc & Hi).
    rewrite (same_elts_memb _ _ t Hc). destruct (existsb (Nat.eqb t) cl) eqn:Hcl; [cbn [pass_rel snd]; split; [exact Hr|reflexivity]|].
    rewrite (same_elts_memb _ _ t Hi). destruct (existsb (Nat.eqb t) ip) eqn:Hip; [exact I|].
    pose proof (not_memb_not_in _ _ Hip) as Hnin.
    rewrite prereqs_fold. cbn [bind]. fold (prereqs w t).
    (* the calls for the prerequisites *)
    assert (Hr1 : st_rel (enter st t) (ds, l, cl, ip ++ [t])).
    { cbn [st_rel enter dy lg calc inprog]. split; [exact Hd|]. split; [exact Hl|]. split; [exact Hc|].
      apply same_elts_snoc. exact Hi. }
    pose proof (calls_ok w _ _ IH (fwd_pass_len cfg w fuel) (prereqs w t) _ _ _ _ _ Hr1 Hn) as H1.
    pose proof (fold_len _ (fwd_pass_len cfg w fuel) (prereqs w t) (enter st t)) as L1.
    destruct (fold_res (fwd_pass fuel cfg w) (prereqs w t) (enter st t)) as [st2| |];
      destruct (src_calls (src_fwd_pass fuel cfg w) (prereqs w t) (ds, l, cl, ip ++ [t])) as [[[[ds1 l1] cl1] ip1]| |];
      cbn [calls_rel] in H1; cbn [bind pass_rel]; try contradiction; try exact H1.
    destruct H1 as [Hr2 E]. cbn [snd] in E. subst ip1.
    pose proof Hr2 as (Hd2 & _).
    assert (Hn2 : (length w <= length ds1)%nat).
    { rewrite <- Hd2. rewrite (L1 st2 eq_refl). cbn [enter dy]. rewrite Hd. exact Hn. }
    (* the bound *)
    destruct (bound_cons (somes (map (fun p => d_end (getdl ds1 p)) (prereqs w t))) (pbound cfg)) as (x & xs & E1 & E2).
    rewrite E1. rewrite E2. fold (bound_max ds1 (prereqs w t) (pbound cfg)). rewrite Hd2.
    (* the calls for the children *)
    pose proof (calls_ok w _ _ IH (fwd_pass_len cfg w fuel) (k_children (gett w t)) _ _ _ _ _ Hr2 Hn2) as H3.
    pose proof (fold_len _ (fwd_pass_len cfg w fuel) (k_children (gett w t)) st2) as L3.
    destruct (fold_res (fwd_pass fuel cfg w) (k_children (gett w t)) st2) as [st3| |];
      destruct (src_calls (src_fwd_pass fuel cfg w) (k_children (gett w t)) (ds1, l1, cl1, ip ++ [t])) as [[[[ds3 l3] cl3] ip3]| |];
      cbn [calls_rel] in H3; cbn [bind pass_rel]; try contradiction; try exact H3.
    destruct H3 as [Hr3 E]. cbn [snd] in E. subst ip3.
    destruct Hr3 as (Hd3 & Hl3 & Hc3 & Hi3).
    assert (Ht : (t < length ds3)%nat).
    { apply ext_in_range in Hext. rewrite <- Hd3. rewrite (L3 st3 eq_refl). rewrite Hd2. lia. }
    (* the computation and the bookkeeping *)
    rewrite src_compute_eq by exact Ht. rewrite Hd3, Hl3.
    destruct (fwd_compute cfg w ds3 l3 t (bound_max ds1 (prereqs w t) (pbound cfg))) as [[ds4 l4]| |]; cbn [bind pass_rel]; auto.
    unfold src_done. rewrite existsb_self. rewrite remove1_last by exact Hnin.
    cbn [pass_rel snd fst st_rel leave dy lg calc inprog].
    split; [|reflexivity]. split; [reflexivity|]. split; [reflexivity|]. split; [apply same_elts_snoc; exact Hc3|].
    intros t0. split.
    + intros H. apply in_remove_nat in H. destruct H as [H Hne]. apply Hi3 in H. rewrite in_app_iff in H. cbn [In] in H.
      destruct H as [H|[H|[]]]; [exact H|congruence].
    + intros H. apply in_remove_nat. split; [apply Hi3; rewrite in_app_iff; left; exact H|]. intros E. subst t0. exact (Hnin H).
Qed.

(* ---------- the statements ---------- *)
(* Corrected form of the tie for one call: the dynamic records must cover the WBS ([length w <= length ds]; the
   scheduler builds [ds] as [map init_dyn w] and the pass keeps its length).  Without it the statement is false: a write
   to a record that does not exist is lost in the model ([set_nth] beyond the end) and the source then reads None back
   (TypeError), see [src_fwd_pass_rel_needs_length].  [NoDup ip] is not needed (kept as in the brief; [src_fwd_pass_ok] is
   the statement without it): the guard shows that the task is not in in_progress, which is all list.remove needs. *)
Theorem src_fwd_pass_rel : forall fuel cfg w st ds l cl ip t,
  st_rel st (ds, l, cl, ip) -> NoDup ip -> (length w <= length ds)%nat ->
  pass_rel ip (fwd_pass fuel cfg w st t) (src_fwd_pass fuel cfg w ds l cl ip t).
Proof. intros fuel cfg w st ds l cl ip t Hr _ Hn. apply src_fwd_pass_ok; assumption. Qed.

Lemma roots_fold_rel cfg w F : forall rts st ds l cl,
  dy st = ds -> lg st = l -> same_elts (calc st) cl -> inprog st = [] -> (length w <= length ds)%nat ->
  calc_rel (fold_res (fwd_pass F cfg w) rts st)
           (fold_res (fun st t => let '(ds, l, cl) := st in
                                  do '((ds2, l2, cl2, _), _) <- src_fwd_pass F cfg w ds l cl [] t; Ok (ds2, l2, cl2))
                     rts (ds, l, cl)).
Proof.
  induction rts as [|a rts IH]; intros st ds l cl Hd Hl Hc Hi Hn; cbn [fold_res].
  - cbn [calc_rel]. auto.
  - assert (Hr : st_rel st (ds, l, cl, [])).
    { cbn [st_rel]. split; [exact Hd|]. split; [exact Hl|]. split; [exact Hc|]. rewrite Hi. intros x. tauto. }
    pose proof (src_fwd_pass_ok cfg w F st ds l cl [] a Hr Hn) as H1.
    pose proof (fwd_pass_len cfg w F st a) as L1.
    destruct (fwd_pass F cfg w st a) as [s1| |]; destruct (src_fwd_pass F cfg w ds l cl [] a) as [[[[[ds1 l1] cl1] ip1] u]| |];
      cbn [pass_rel] in H1; cbn [bind calc_rel]; try contradiction; try exact H1.
    destruct H1 as [(Hd1 & Hl1 & Hc1 & Hi1) E]. cbn [snd] in E. subst ip1. apply IH; try assumption.
    + destruct (inprog s1) as [|x r]; [reflexivity|]. exfalso. apply (Hi1 x). left. reflexivity.
    + rewrite <- Hd1. rewrite (L1 s1 eq_refl). rewrite Hd. exact Hn.
Qed.

Theorem src_forward_rel : forall cfg w, isolated_ok w = true -> no_future_ends w (now cfg) = true ->
  calc_rel (forward cfg w) (src_roots_fold src_fwd_pass cfg w (roots w)).
Proof.
  intros cfg w H1 H2. unfold forward, src_roots_fold. rewrite H1, H2. cbn [negb].
  apply roots_fold_rel; try reflexivity.
  - intros x. tauto.
  - cbn [init_state dy]. rewrite map_length. apply Nat.le_refl.
Qed.

(* transport: whatever is proved about the model's result is a statement about the translated source *)
Corollary src_forward_Ok : forall cfg w ds l cl, isolated_ok w = true -> no_future_ends w (now cfg) = true ->
  src_roots_fold src_fwd_pass cfg w (roots w) = Ok (ds, l, cl) ->
  exists st, forward cfg w = Ok st /\ dy st = ds /\ lg st = l /\ same_elts (calc st) cl.
Proof.
  intros cfg w ds l cl H1 H2 E. pose proof (src_forward_rel cfg w H1 H2) as H. rewrite E in H.
  destruct (forward cfg w) as [st| |]; cbn [calc_rel] in H; try contradiction.
  exists st. split; [reflexivity|exact H].
Qed.

Corollary src_forward_outcome : forall cfg w, isolated_ok w = true -> no_future_ends w (now cfg) = true ->
  outcome_code (src_roots_fold src_fwd_pass cfg w (roots w)) = outcome_code (forward cfg w).
Proof.
  intros cfg w H1 H2. pose proof (src_forward_rel cfg w H1 H2) as H.
  destruct (forward cfg w) as [st| |]; destruct (src_roots_fold src_fwd_pass cfg w (roots w)) as [[[ds l] cl]| |];
    cbn [calc_rel] in H; try contradiction; cbn [outcome_code]; try reflexivity.
  subst. reflexivity.
Qed.

(* ---------- instances ---------- *)
Definition ex_cap (r : nat) (d : Z) : Z := match r with O => if weekday_of_day d <? 5 then 64 else 0 | _ => 0 end.
Definition ex_cfg : config :=
  {| cap := ex_cap; balance := true; dflt_est := 16; pbound := 19723 * DAY; now := 19700 * DAY;
     h_search := 1000; h_near := 1000; h_fill := 1000 |}.
Definition ex_task (p : option nat) (ch pr su : list nat) (ms : bool) (es : option Z) : itask :=
  {| k_parent := p; k_children := ch; k_preds := pr; k_succs := su; k_ext := false; k_milestone := ms;
     k_res := 0; k_est := es; k_spent := None; k_start := None; k_end := None; k_minstart := None |}.
(* 0: a summary task with the children 1 and 2; 2 depends on 1; 3: a milestone that depends on the summary task *)
Definition ex_w : list itask :=
  [ ex_task None [1; 2]%nat [] [3%nat] false None;
    ex_task (Some 0%nat) [] [] [2%nat] false (Some 80);
    ex_task (Some 0%nat) [] [1%nat] [] false (Some 100);
    ex_task None [] [0%nat] [] true None ].

(* non-vacuity: the hypotheses hold and the translated source returns a schedule *)
Example src_forward_example :
  isolated_ok ex_w = true /\ no_future_ends ex_w (now ex_cfg) = true /\
  exists ds l, src_roots_fold src_fwd_pass ex_cfg ex_w (roots ex_w) = Ok (ds, l, [1; 2; 0; 3]%nat)
               /\ length l = 4%nat /\ d_start (nth 3 ds no_dyn) = d_end (nth 0 ds no_dyn).
Proof.
  split; [vm_compute; reflexivity|]. split; [vm_compute; reflexivity|].
  eexists. eexists. split; [vm_compute; reflexivity|]. split; vm_compute; reflexivity.
Qed.

(* the statement of the brief without the length hypothesis is false: one leaf task, no record for it *)
Example src_fwd_pass_rel_needs_length :
  exists fuel cfg w st ds l cl ip t,
    st_rel st (ds, l, cl, ip) /\ NoDup ip /\
    ~ pass_rel ip (fwd_pass fuel cfg w st t) (src_fwd_pass fuel cfg w ds l cl ip t).
Proof.
  exists 3%nat, ex_cfg, [ex_task None [] [] [] false (Some 80)], {| dy := []; lg := []; calc := []; inprog := [] |},
         [], [], [], [], 0%nat.
  split; [cbn [st_rel dy lg calc inprog]; repeat split; auto|]. split; [constructor|].
  intros H. vm_compute in H. exact H.
Qed.

Print Assumptions src_fwd_pass_S.
Print Assumptions src_compute_eq.
Print Assumptions src_fwd_pass_ok.
Print Assumptions src_fwd_pass_rel.
Print Assumptions src_forward_rel.
Print Assumptions src_forward_Ok.
Print Assumptions src_forward_outcome.
Print Assumptions src_forward_example.
Print Assumptions src_fwd_pass_rel_needs_length.
