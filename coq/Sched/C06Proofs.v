(* C06 - what of "calc is pure and deterministic" is a theorem about the scheduler models.

   Proved here, for every WBS / capacity function / configuration:
   (a) C06_dates: a returned schedule has a start and an end (and amounts) for every member task and
       one observed entry per member - the pass reaches every member: roots in order, children
       recursively (invariant [c06_basic] of the abstract machine of Sched/Machine.v, for both passes);
   (b) C06_clock: two forward configurations that differ only in the clock, both clocks not later
       than the project start, give the same result (the whole final state); stronger: the recursive
       pass itself returns equal results on equal states ([c06_fwd_pass_clock]) - the clock is only
       read by the pre-check "no fixed end in the future", which is why both runs are assumed Ok.

   NOT theorems (said once, here, in Props_C06.v and in design_parts/C06.md): "calc leaves the input
   WBS untouched" and "repeating the call with equal inputs gives equal results" hold of ANY Gallina
   function by construction - the input is a value, [forward]/[backward] are functions.  Whether the
   Python implementation has these two properties is decided only by the differential run: bit 512 of
   Case.check_case (repeated call on the same scheduler object, on a fresh one, and with another clock
   <= project start must return equal observations) and the runner's before/after snapshots
   ([pure], [pure2]) and shape comparison ([shape]).  That is testing, not proof. *)
From PJ Require Import Base.Prelude Sched.Model Sched.LedgerProofs Sched.Machine Sched.Instances
     Sched.Check Sched.Oracles Sched.WfIn Sched.C03Proofs Sched.OracleProofs.

(* ---------- what WFin says about one member ---------- *)
Record c06_member_ok (w : list itask) (t : nat) : Prop := {
  mo_children : forall c, In c (k_children (gett w t)) ->
      (c < length w)%nat /\ k_ext (gett w c) = false /\ k_parent (gett w c) = Some t;
  mo_parent : forall p, k_parent (gett w t) = Some p ->
      (p < length w)%nat /\ k_ext (gett w p) = false /\ In t (k_children (gett w p));
  mo_noself : ~ In t (ancestors w (length w) t);
  mo_preds : forall p, In p (k_preds (gett w t)) -> (p < length w)%nat /\ p <> t;
  mo_milestone : k_milestone (gett w t) = true -> is_leaf (gett w t) = true }.

Lemma c06_wfin_member w t : WFin w -> k_ext (gett w t) = false -> c06_member_ok w t.
Proof.
  intros Hw He. pose proof (not_ext_in_range w t He) as Hr.
  unfold WFin, wfin_b in Hw. rewrite forallb_forall in Hw.
  specialize (Hw t ltac:(apply in_seq; lia)). unfold is_ext in Hw. rewrite He in Hw.
  apply andb_true_iff in Hw. destruct Hw as [Hm _]. unfold wfin_member_b in Hm. cbv zeta in Hm.
  rewrite !andb_true_iff in Hm.
  destruct Hm as [[[[[[[[[[[H1 H2] H3] H4] H5] H6] H7] H8] H9] H10] H11] H12].
  constructor.
  - intros c Hc. rewrite forallb_forall in H1. specialize (H1 c Hc). rewrite !andb_true_iff in H1.
    destruct H1 as [[A B] C]. unfold in_range in A. apply Nat.ltb_lt in A. apply negb_true_iff in B.
    unfold is_ext in B. repeat split; try assumption.
    destruct (k_parent (gett w c)) as [p|]; [|discriminate]. apply Nat.eqb_eq in C. subst. reflexivity.
  - intros p Hp. rewrite Hp in H3. rewrite !andb_true_iff in H3. destruct H3 as [[A B] C].
    unfold in_range in A. apply Nat.ltb_lt in A. apply negb_true_iff in B. apply memb_true in C.
    unfold is_ext in B. repeat split; assumption.
  - apply negb_true_iff in H4. apply memb_false in H4. exact H4.
  - intros p Hp. rewrite forallb_forall in H5. specialize (H5 p Hp). rewrite !andb_true_iff in H5.
    destruct H5 as [[A B] _]. unfold in_range in A. apply Nat.ltb_lt in A. apply negb_true_iff in B.
    apply Nat.eqb_neq in B. split; assumption.
  - intros Hm. rewrite Hm in H10. exact H10.
Qed.

(* ---------- the parent chain is finite ---------- *)
Lemma c06_anc_mono w n m t x : (n <= m)%nat -> In x (ancestors w n t) -> In x (ancestors w m t).
Proof.
  revert m t. induction n as [|n IH]; intros m t Hle; simpl; [intros []|].
  destruct m as [|m]; [lia|]. simpl. destruct (k_parent (gett w t)) as [p|]; [|intros []].
  intros [E|H]; [left; exact E | right; apply IH; [lia | exact H]].
Qed.

Lemma c06_anc_member w : WFin w -> forall n t, k_ext (gett w t) = false ->
  forall x, In x (ancestors w n t) -> k_ext (gett w x) = false.
Proof.
  intros Hw. induction n as [|n IH]; intros t He x; simpl; [intros []|].
  destruct (k_parent (gett w t)) as [p|] eqn:Hp; [|intros []].
  destruct (mo_parent _ _ (c06_wfin_member w t Hw He) p Hp) as [_ [Hpe _]].
  intros [<-|H]; [exact Hpe | eapply IH; eauto].
Qed.

Lemma c06_anc_nodup w : WFin w -> forall n t, (n <= length w)%nat -> k_ext (gett w t) = false ->
  NoDup (t :: ancestors w n t).
Proof.
  intros Hw. induction n as [|n IH]; intros t Hn He.
  - simpl. constructor; [intros [] | constructor].
  - constructor.
    + intro Hin. apply (mo_noself _ _ (c06_wfin_member w t Hw He)).
      apply (c06_anc_mono w (S n) (length w) t t Hn). exact Hin.
    + simpl. destruct (k_parent (gett w t)) as [p|] eqn:Hp; [|constructor].
      apply IH; [lia|]. destruct (mo_parent _ _ (c06_wfin_member w t Hw He) p Hp) as [_ [Hpe _]]. exact Hpe.
Qed.

Lemma c06_anc_short w t : WFin w -> k_ext (gett w t) = false ->
  (length (ancestors w (length w) t) < length w)%nat.
Proof.
  intros Hw He.
  pose proof (c06_anc_nodup w Hw (length w) t (Nat.le_refl _) He) as Hnd.
  assert (Hincl : incl (t :: ancestors w (length w) t) (seq 0 (length w))).
  { intros x [<-|Hx]; apply in_seq; split; try lia; simpl; apply not_ext_in_range; [exact He|].
    eapply c06_anc_member; eauto. }
  pose proof (NoDup_incl_length Hnd Hincl) as Hlen. rewrite seq_length in Hlen. simpl in Hlen. lia.
Qed.

(* ---------- both machines: every member is calculated and dated ---------- *)
Lemma c06_init_nth w t : nth t (map init_dyn w) no_dyn = init_dyn (gett w t).
Proof. unfold gett. change no_dyn with (init_dyn no_task). apply map_nth. Qed.

Section Reach.
Variable w : list itask.
Variable deps : nat -> list nat.
Variable kids : nat -> list nat.
Variable bnd : list dyn -> list nat -> Z.
Variable compute : list dyn -> ledger -> nat -> Z -> res (list dyn * ledger).

Hypothesis compute_frame : forall ds l t b ds' l', compute ds l t b = Ok (ds', l') ->
  forall p, p <> t -> nth p ds' no_dyn = nth p ds no_dyn.
Hypothesis compute_len : forall ds l t b ds' l', compute ds l t b = Ok (ds', l') -> length ds' = length ds.
Hypothesis compute_dates : forall ds l t b ds' l', compute ds l t b = Ok (ds', l') -> (t < length ds)%nat ->
  exists s e es sp, nth t ds' no_dyn = mkd s e es sp.
Hypothesis kids_children : forall t ch, In ch (k_children (gett w t)) -> In ch (kids t).

(* invariant of the machine: the date table has one entry per task; tasks not yet calculated still
   carry their initial entry; what a calculated task waited for and its children are calculated;
   calculated tasks have dates and amounts *)
Definition c06_basic (c : core) : Prop :=
  length (c_dy c) = length w
  /\ (forall t, ~ In t (c_calc c) -> nth t (c_dy c) no_dyn = init_dyn (gett w t))
  /\ (forall t, In t (c_calc c) ->
        k_ext (gett w t) = false /\ (forall p, In p (deps t) -> ready w c p)
        /\ (forall ch, In ch (kids t) -> ready w c ch))
  /\ (forall t, In t (c_calc c) -> exists s e es sp, nth t (c_dy c) no_dyn = mkd s e es sp).

Lemma c06_basic_init : c06_basic (init_core w).
Proof.
  unfold c06_basic, init_core. simpl. split; [apply map_length|].
  split; [intros t _; apply c06_init_nth|]. split; intros t [].
Qed.

Lemma c06_ready_cons (c c' : core) t p : c_calc c' = t :: c_calc c -> ready w c p -> ready w c' p.
Proof. intros E [H|H]; [left; exact H | right; rewrite E; right; exact H]. Qed.

Lemma c06_basic_step c t c' :
  c06_basic c -> gstep w deps kids bnd compute c t c' -> c06_basic c'.
Proof.
  intros [Hl [Hu [Hc Hd]]] Hs. destruct Hs as [c t r Hext Hnot Hdeps Hkids Hcomp]. destruct r as [ds' l'].
  set (c' := {| c_dy := fst (ds', l'); c_lg := snd (ds', l'); c_calc := t :: c_calc c |}).
  assert (Hcalc : c_calc c' = t :: c_calc c) by reflexivity.
  unfold c06_basic. simpl. split; [|split; [|split]].
  - rewrite (compute_len _ _ _ _ _ _ Hcomp). exact Hl.
  - intros u Hu'. rewrite (compute_frame _ _ _ _ _ _ Hcomp u).
    + apply Hu. intro H. apply Hu'. right. exact H.
    + intro E. apply Hu'. left. symmetry. exact E.
  - intros u [<-|Hin].
    + split; [exact Hext|]. split; intros p Hp.
      * apply (c06_ready_cons c c' t p Hcalc). apply Hdeps. exact Hp.
      * apply (c06_ready_cons c c' t p Hcalc). apply Hkids. exact Hp.
    + destruct (Hc u Hin) as [A [B C]]. split; [exact A|]. split; intros p Hp.
      * apply (c06_ready_cons c c' t p Hcalc). apply B. exact Hp.
      * apply (c06_ready_cons c c' t p Hcalc). apply C. exact Hp.
  - intros u [<-|Hin].
    + apply (compute_dates _ _ _ _ _ _ Hcomp). rewrite Hl. apply not_ext_in_range. exact Hext.
    + rewrite (compute_frame _ _ _ _ _ _ Hcomp u); [apply Hd; exact Hin|].
      intro E. subst u. contradiction.
Qed.

Lemma c06_basic_run I c : gsteps w deps kids bnd compute I (init_core w) c -> c06_basic c.
Proof.
  intros Hs. eapply (gsteps_inv w deps kids bnd compute c06_basic); [|exact Hs | exact c06_basic_init].
  intros a t b Ha Hst. eapply c06_basic_step; eauto.
Qed.

(* every member is a root or below a calculated member *)
Lemma c06_covered c : WFin w -> c06_basic c -> (forall t, In t (roots w) -> ready w c t) ->
  forall n t, k_ext (gett w t) = false -> (length (ancestors w n t) < n)%nat -> In t (c_calc c).
Proof.
  intros Hw [_ [_ [Hc _]]] Hroots. induction n as [|n IH]; intros t He Hlen; [simpl in Hlen; lia|].
  simpl in Hlen. destruct (k_parent (gett w t)) as [p|] eqn:Hp.
  - destruct (mo_parent _ _ (c06_wfin_member w t Hw He) p Hp) as [_ [Hpe Hin]].
    assert (Hpc : In p (c_calc c)) by (apply IH; [exact Hpe | simpl in Hlen; lia]).
    destruct (Hc p Hpc) as [_ [_ Hk]]. destruct (Hk t (kids_children p t Hin)) as [E|E]; [congruence | exact E].
  - assert (Hr : In t (roots w)).
    { unfold roots, members. apply filter_In. split; [|rewrite Hp; reflexivity].
      apply filter_In. split; [|rewrite He; reflexivity]. apply in_seq.
      pose proof (not_ext_in_range w t He). lia. }
    destruct (Hroots t Hr) as [E|E]; [congruence | exact E].
Qed.

Theorem c06_all_calculated c : WFin w -> gsteps w deps kids bnd compute [] (init_core w) c ->
  (forall t, In t (roots w) -> ready w c t) ->
  forall t, k_ext (gett w t) = false ->
    In t (c_calc c) /\ exists s e es sp, nth t (c_dy c) no_dyn = mkd s e es sp.
Proof.
  intros Hw Hs Hr t He. pose proof (c06_basic_run _ _ Hs) as Hb.
  assert (Hin : In t (c_calc c)).
  { eapply (c06_covered c Hw Hb Hr (length w)); [exact He | apply c06_anc_short; assumption]. }
  split; [exact Hin|]. destruct Hb as [_ [_ [_ Hd]]]. apply Hd. exact Hin.
Qed.
End Reach.

(* ---------- the two instances ---------- *)
Lemma c06_fwd_compute_len cfg w ds l t b ds' l' :
  fwd_compute cfg w ds l t b = Ok (ds', l') -> length ds' = length ds.
Proof.
  intros H. apply fwd_compute_inv in H.
  destruct H as [[_ [-> _]] | [_ [s [e [es [sp [-> _]]]]]]]; apply length_set_nth.
Qed.

Lemma c06_bwd_compute_len cfg w ds l t b ds' l' :
  bwd_compute cfg w ds l t b = Ok (ds', l') -> length ds' = length ds.
Proof.
  intros H. apply bwd_compute_inv in H.
  destruct H as [[_ [-> _]] | [_ [s [e [es [sp [-> _]]]]]]]; apply length_set_nth.
Qed.

Lemma c06_fwd_compute_dates cfg w ds l t b ds' l' :
  fwd_compute cfg w ds l t b = Ok (ds', l') -> (t < length ds)%nat ->
  exists s e es sp, nth t ds' no_dyn = mkd s e es sp.
Proof.
  intros H Ht. apply fwd_compute_inv in H.
  destruct H as [[_ [-> _]] | [_ [s [e [es [sp [-> _]]]]]]].
  - exists b, b, 0, 0. apply nth_set_nth_same. exact Ht.
  - exists s, e, es, sp. apply nth_set_nth_same. exact Ht.
Qed.

Lemma c06_bwd_compute_dates cfg w ds l t b ds' l' :
  bwd_compute cfg w ds l t b = Ok (ds', l') -> (t < length ds)%nat ->
  exists s e es sp, nth t ds' no_dyn = mkd s e es sp.
Proof.
  intros H Ht. apply bwd_compute_inv in H.
  destruct H as [[_ [-> _]] | [_ [s [e [es [sp [-> _]]]]]]].
  - exists b, b, 0, 0. apply nth_set_nth_same. exact Ht.
  - exists s, e, es, sp. apply nth_set_nth_same. exact Ht.
Qed.

Definition fwd_basic (w : list itask) := c06_basic w (fdeps w) (fkids w).
Definition bwd_basic (w : list itask) := c06_basic w (bdeps w) (bkids w).

Lemma c06_fwd_basic_step cfg w c t c' : fwd_basic w c -> fstep cfg w c t c' -> fwd_basic w c'.
Proof.
  apply (c06_basic_step w (fdeps w) (fkids w) (fbnd cfg) (fwd_compute cfg w)
           (fwd_compute_frame cfg w) (c06_fwd_compute_len cfg w) (c06_fwd_compute_dates cfg w)).
Qed.

Theorem c06_forward_all cfg w st : WFin w -> forward cfg w = Ok st ->
  fwd_basic w (core_of st)
  /\ forall t, k_ext (gett w t) = false ->
       In t (calc st) /\ exists s e es sp, getd st t = mkd s e es sp.
Proof.
  intros Hw H. destruct (forward_is_run _ _ _ H) as [Hs [Hr _]]. split.
  - exact (c06_basic_run w (fdeps w) (fkids w) (fbnd cfg) (fwd_compute cfg w)
             (fwd_compute_frame cfg w) (c06_fwd_compute_len cfg w) (c06_fwd_compute_dates cfg w) _ _ Hs).
  - intros t He.
    exact (c06_all_calculated w (fdeps w) (fkids w) (fbnd cfg) (fwd_compute cfg w)
             (fwd_compute_frame cfg w) (c06_fwd_compute_len cfg w) (c06_fwd_compute_dates cfg w)
             (fun t ch Hc => Hc) (core_of st) Hw Hs Hr t He).
Qed.

Theorem c06_backward_all cfg w st : WFin w -> backward cfg w = Ok st ->
  bwd_basic w (core_of st)
  /\ forall t, k_ext (gett w t) = false ->
       In t (calc st) /\ exists s e es sp, getd st t = mkd s e es sp.
Proof.
  intros Hw H. destruct (backward_is_run _ _ _ H) as [Hs [Hr _]]. split.
  - exact (c06_basic_run w (bdeps w) (bkids w) (bbnd cfg) (bwd_compute cfg w)
             (bwd_compute_frame cfg w) (c06_bwd_compute_len cfg w) (c06_bwd_compute_dates cfg w) _ _ Hs).
  - intros t He.
    exact (c06_all_calculated w (bdeps w) (bkids w) (bbnd cfg) (bwd_compute cfg w)
             (bwd_compute_frame cfg w) (c06_bwd_compute_len cfg w) (c06_bwd_compute_dates cfg w)
             (fun t ch Hc => proj1 (in_rev _ _) Hc) (core_of st) Hw Hs Hr t He).
Qed.

Lemma c06_forward_reaches cfg w st t :
  WFin w -> forward cfg w = Ok st -> k_ext (gett w t) = false -> In t (calc st).
Proof. intros Hw H He. exact (proj1 (proj2 (c06_forward_all cfg w st Hw H) t He)). Qed.

Lemma c06_backward_reaches cfg w st t :
  WFin w -> backward cfg w = Ok st -> k_ext (gett w t) = false -> In t (calc st).
Proof. intros Hw H He. exact (proj1 (proj2 (c06_backward_all cfg w st Hw H) t He)). Qed.

(* ---------- C06_dates in the words of the property ---------- *)
Definition all_dated (w : list itask) (st : sst) : Prop :=
  length (model_tasks w st) = length (members w)
  /\ forall t, In t (members w) ->
       exists s e es sp, d_start (getd st t) = Some s /\ d_end (getd st t) = Some e
                         /\ d_est (getd st t) = Some es /\ d_spent (getd st t) = Some sp.

Lemma c06_member_not_ext w t : In t (members w) -> (t < length w)%nat /\ k_ext (gett w t) = false.
Proof.
  unfold members. intros H. apply filter_In in H. destruct H as [A B]. apply in_seq in A.
  apply negb_true_iff in B. split; [lia | exact B].
Qed.

Lemma c06_member_in w t : k_ext (gett w t) = false -> In t (members w).
Proof.
  intros He. unfold members. apply filter_In. split; [|rewrite He; reflexivity].
  apply in_seq. pose proof (not_ext_in_range w t He). lia.
Qed.

Lemma c06_all_dated w st :
  (forall t, k_ext (gett w t) = false -> exists s e es sp, getd st t = mkd s e es sp) -> all_dated w st.
Proof.
  intros H. split; [unfold model_tasks; apply map_length|].
  intros t Ht. destruct (c06_member_not_ext w t Ht) as [_ He].
  destruct (H t He) as [s [e [es [sp E]]]]. exists s, e, es, sp. rewrite E. repeat split.
Qed.

Theorem C06_dates_forward_holds cfg w st : WFin w -> forward cfg w = Ok st -> all_dated w st.
Proof.
  intros Hw H. apply c06_all_dated. intros t He.
  destruct (c06_forward_all cfg w st Hw H) as [_ A]. destruct (A t He) as [_ B]. exact B.
Qed.

Theorem C06_dates_backward_holds cfg w st : WFin w -> backward cfg w = Ok st -> all_dated w st.
Proof.
  intros Hw H. apply c06_all_dated. intros t He.
  destruct (c06_backward_all cfg w st Hw H) as [_ A]. destruct (A t He) as [_ B]. exact B.
Qed.

(* ---------- observations are indexed by task number: members come first ---------- *)
(* The observed schedule lists one entry per member in WBS order and the oracles look task t up at
   position t: tasks outside the WBS are numbered after the members (Model.v, header).  The runner
   builds its abstract input that way; harness/props/c02.py and c06.py assert it on every case. *)
Definition ext_last_b (w : list itask) : bool :=
  list_eqb Nat.eqb (members w) (seq 0 (length (members w))).
Definition ext_last (w : list itask) : Prop := ext_last_b w = true.

Lemma c06_o_get w st t : ext_last w -> In t (members w) -> o_get (obs_of w st) t = dyn_obs (getd st t).
Proof.
  unfold ext_last, ext_last_b. intros H Ht.
  apply (list_eqb_spec Nat.eqb Nat.eqb_eq) in H.
  unfold o_get, obs_of, model_tasks. cbn [o_tasks].
  remember (length (members w)) as n eqn:Hn. rewrite H in Ht |- *.
  apply in_seq in Ht.
  rewrite (nth_indep _ _ (dyn_obs (getd st 0%nat))) by (rewrite map_length, seq_length; lia).
  rewrite (map_nth (fun t => dyn_obs (getd st t))). rewrite seq_nth by lia. reflexivity.
Qed.

Lemma c06_o_start w st t : ext_last w -> In t (members w) -> o_start (obs_of w st) t = d_start (getd st t).
Proof. intros H Ht. unfold o_start. rewrite (c06_o_get w st t H Ht). reflexivity. Qed.

Lemma c06_o_end w st t : ext_last w -> In t (members w) -> o_end (obs_of w st) t = d_end (getd st t).
Proof. intros H Ht. unfold o_end. rewrite (c06_o_get w st t H Ht). reflexivity. Qed.

(* ---------- the oracle c06_dates_b: reflection, and the model passes it ---------- *)
Definition c06_dates_statement (w : list itask) (o : osch) : Prop :=
  length (o_tasks o) = length (members w)
  /\ forall t, In t (members w) -> exists s e, o_start o t = Some s /\ o_end o t = Some e.

Theorem c06_dates_b_spec w o : c06_dates_b w o = true <-> c06_dates_statement w o.
Proof.
  unfold c06_dates_b, c06_dates_statement. rewrite andb_true_iff, Nat.eqb_eq, forallb_forall.
  split; intros [A B]; (split; [exact A|]); intros t Ht; specialize (B t Ht).
  - destruct (o_start o t) as [s|]; [|discriminate]. destruct (o_end o t) as [e|]; [|discriminate].
    exists s, e. split; reflexivity.
  - destruct B as [s [e [-> ->]]]. reflexivity.
Qed.

Lemma c06_all_dated_oracle w st : ext_last w -> all_dated w st -> c06_dates_b w (obs_of w st) = true.
Proof.
  intros Hx [A B]. apply c06_dates_b_spec. split; [exact A|]. intros t Ht.
  destruct (B t Ht) as [s [e [_ [_ [Hs [He _]]]]]]. exists s, e.
  rewrite (c06_o_start w st t Hx Ht), (c06_o_end w st t Hx Ht). split; assumption.
Qed.

Theorem C06_forward_oracle cfg w st :
  WFin w -> ext_last w -> forward cfg w = Ok st -> c06_dates_b w (obs_of w st) = true.
Proof. intros Hw Hx H. apply c06_all_dated_oracle; [exact Hx | eapply C06_dates_forward_holds; eauto]. Qed.

Theorem C06_backward_oracle cfg w st :
  WFin w -> ext_last w -> backward cfg w = Ok st -> c06_dates_b w (obs_of w st) = true.
Proof. intros Hw Hx H. apply c06_all_dated_oracle; [exact Hx | eapply C06_dates_backward_holds; eauto]. Qed.

(* ---------- C06_clock ---------- *)
Definition with_now (cfg : config) (n : Z) : config :=
  {| cap := cap cfg; balance := balance cfg; dflt_est := dflt_est cfg; pbound := pbound cfg; now := n;
     h_search := h_search cfg; h_near := h_near cfg; h_fill := h_fill cfg |}.

(* cfg2 is cfg1 with another clock *)
Definition same_but_clock (cfg1 cfg2 : config) : Prop := cfg2 = with_now cfg1 (now cfg2).

Lemma c06_same_but_clock_with_now cfg n : same_but_clock cfg (with_now cfg n).
Proof. reflexivity. Qed.

Lemma c06_with_now_self cfg : with_now cfg (now cfg) = cfg.
Proof. destruct cfg. reflexivity. Qed.

Lemma c06_fold_max_ge l : forall b, b <= fold_left Z.max l b.
Proof. induction l as [|x l IH]; intros b; simpl; [lia|]. specialize (IH (Z.max b x)). lia. Qed.

Lemma c06_bound_max_ge ds pre b : b <= bound_max ds pre b.
Proof. unfold bound_max. apply c06_fold_max_ge. Qed.

Lemma c06_bind_congr {A B} (r1 r2 : res A) (f1 f2 : A -> res B) :
  r1 = r2 -> (forall a, f1 a = f2 a) -> bind r1 f1 = bind r2 f2.
Proof. intros -> H. destruct r2; simpl; [apply H | reflexivity | reflexivity]. Qed.

(* one task: with both clocks <= project start <= bound the clock is never the binding term *)
Lemma c06_fwd_compute_clock cfg n2 w ds l t b :
  now cfg <= pbound cfg -> n2 <= pbound cfg -> pbound cfg <= b ->
  fwd_compute (with_now cfg n2) w ds l t b = fwd_compute cfg w ds l t b.
Proof.
  intros H1 H2 Hb. unfold fwd_compute. destruct (k_milestone (gett w t)); [reflexivity|].
  apply c06_bind_congr.
  - destruct (d_start (getdl ds t)); [reflexivity|]. destruct (is_leaf (gett w t)); [|reflexivity].
    change (fwd_nearest (with_now cfg n2)) with (fwd_nearest cfg). change (now (with_now cfg n2)) with n2.
    replace (Z.max (Z.max b n2) (odflt (k_minstart (gett w t)) 0))
      with (Z.max (Z.max b (now cfg)) (odflt (k_minstart (gett w t)) 0)) by lia.
    reflexivity.
  - intros start. apply c06_bind_congr; [reflexivity|]. intros est.
    apply c06_bind_congr; [reflexivity|]. intros spent. apply c06_bind_congr; [|reflexivity].
    destruct (d_end (getdl ds t)); [reflexivity|]. destruct (is_leaf (gett w t)); [|reflexivity].
    change (fwd_shift (with_now cfg n2)) with (fwd_shift cfg). change (now (with_now cfg n2)) with n2.
    change (pbound (with_now cfg n2)) with (pbound cfg).
    replace (Z.max (Z.max start n2) (pbound cfg)) with (Z.max (Z.max start (now cfg)) (pbound cfg)) by lia.
    reflexivity.
Qed.

Lemma c06_fold_res_ext {S A} (f g : S -> A -> res S) :
  (forall s a, f s a = g s a) -> forall l s, fold_res f l s = fold_res g l s.
Proof.
  intros H. induction l as [|a l IH]; intros s; simpl; [reflexivity|].
  rewrite H. destruct (g s a); simpl; [apply IH | reflexivity | reflexivity].
Qed.

(* the recursive pass only uses [compute] on bounds produced by [bnd] *)
Lemma c06_gpass_ext w deps kids bnd
      (c1 c2 : list dyn -> ledger -> nat -> Z -> res (list dyn * ledger)) :
  (forall ds l t ds0 pre, c1 ds l t (bnd ds0 pre) = c2 ds l t (bnd ds0 pre)) ->
  forall fuel st t, gpass w deps kids bnd c1 fuel st t = gpass w deps kids bnd c2 fuel st t.
Proof.
  intros Hc. induction fuel as [|f IH]; intros st t; simpl; [reflexivity|].
  destruct (k_ext (gett w t)); [reflexivity|]. destruct (memb t (calc st)); [reflexivity|].
  destruct (memb t (inprog st)); [reflexivity|].
  rewrite (c06_fold_res_ext _ _ IH).
  destruct (fold_res (gpass w deps kids bnd c2 f) (deps t) (enter st t)) as [st2| |]; simpl; try reflexivity.
  rewrite (c06_fold_res_ext _ _ IH).
  destruct (fold_res (gpass w deps kids bnd c2 f) (kids t) st2) as [st3| |]; simpl; try reflexivity.
  rewrite Hc. reflexivity.
Qed.

(* the pass: equal results on equal states, whatever the two clocks (both <= project start) *)
Theorem c06_fwd_pass_clock cfg n2 w fuel st t :
  now cfg <= pbound cfg -> n2 <= pbound cfg ->
  fwd_pass fuel (with_now cfg n2) w st t = fwd_pass fuel cfg w st t.
Proof.
  intros H1 H2. unfold fwd_pass. change (pbound (with_now cfg n2)) with (pbound cfg).
  apply (c06_gpass_ext w (prereqs w) (fun t => k_children (gett w t))
           (fun ds pre => bound_max ds pre (pbound cfg))).
  intros ds l u ds0 pre. apply c06_fwd_compute_clock; [exact H1 | exact H2 | apply c06_bound_max_ge].
Qed.

(* the whole call: the clock only decides the pre-check "no fixed end in the future" *)
Theorem c06_forward_clock_outcome cfg n2 w :
  now cfg <= pbound cfg -> n2 <= pbound cfg ->
  no_future_ends w n2 = no_future_ends w (now cfg) ->
  forward (with_now cfg n2) w = forward cfg w.
Proof.
  intros H1 H2 Hf. unfold forward. change (now (with_now cfg n2)) with n2. rewrite Hf.
  destruct (negb (isolated_ok w)); [reflexivity|]. destruct (negb (no_future_ends w (now cfg))); [reflexivity|].
  apply c06_fold_res_ext. intros s a. apply c06_fwd_pass_clock; assumption.
Qed.

Theorem C06_clock_holds cfg1 cfg2 w a b :
  same_but_clock cfg1 cfg2 -> now cfg1 <= pbound cfg1 -> now cfg2 <= pbound cfg1 ->
  forward cfg1 w = Ok a -> forward cfg2 w = Ok b -> a = b.
Proof.
  intros Hs H1 H2 Ha Hb. rewrite Hs in Hb. unfold forward in Ha, Hb.
  change (now (with_now cfg1 (now cfg2))) with (now cfg2) in Hb.
  destruct (negb (isolated_ok w)); [discriminate|].
  destruct (negb (no_future_ends w (now cfg1))); [discriminate|].
  destruct (negb (no_future_ends w (now cfg2))); [discriminate|].
  rewrite (c06_fold_res_ext _ (fwd_pass (S (S (length w))) cfg1 w)) in Hb.
  - congruence.
  - intros s t. apply c06_fwd_pass_clock; assumption.
Qed.
