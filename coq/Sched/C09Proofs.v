(* C09: backward schedules.  An invariant of the backward machine (on top of C03's ledger invariant):
   every calculated task ends no later than its due date (the minimum of the project end and the
   starts of its own and inherited dependants, all of which are calculated before it and frozen);
   a calculated working leaf carries the facts of its placement (what the availability search skipped,
   what the fill reserved) in terms of the ledger before, of, and after the task.  The statements of
   C09 are read off the invariant at the end of the run. *)
From PJ Require Import Base.Prelude Sched.Model Sched.LedgerProofs Sched.Primitives Sched.Machine Sched.Instances
     Sched.C03Proofs Sched.WfIn Sched.C09Base.

(* the due date of a task: earliest start among its dependants (own and inherited), else the project end *)
Definition c09_due (cfg : config) (w : list itask) (ds : list dyn) (t : nat) : Z :=
  bound_min ds (dependants w t) (pbound cfg).

(* the rows of task t are one block of the ledger (newest first): after ++ new ++ before *)
Definition c09_placed (l : ledger) (t : nat) (before new after : ledger) : Prop :=
  l = after ++ new ++ before
  /\ (forall x, In x before -> r_task x <> t) /\ (forall x, In x after -> r_task x <> t)
  /\ (forall x, In x new -> r_task x = t).

Definition c09_leaf_facts (cfg : config) (w : list itask) (ds : list dyn) (l : ledger) (t : nat) (s e : Z) : Prop :=
  exists before new after eday,
    c09_placed l t before new after
    /\ eday < day_of (c09_due cfg w ds t)
    /\ 0 <= used (balance cfg) before (k_res (gett w t)) eday t < cap cfg (k_res (gett w t)) eday
    /\ e = DAY * (eday + 1) - frac (used (balance cfg) before (k_res (gett w t)) eday t) (cap cfg (k_res (gett w t)) eday)
    /\ (forall d', eday < d' < day_of (c09_due cfg w ds t) ->
                   cap cfg (k_res (gett w t)) d' - used (balance cfg) before (k_res (gett w t)) d' t <= 0)
    /\ ((new = [] /\ s = e)
        \/ exists left first,
             0 < left
             /\ fill_result (cap cfg (k_res (gett w t))) (balance cfg) (k_res (gett w t)) t (-1)
                            before (day_of e) left (new ++ before) first new
             /\ s = DAY * (first + 1)
                    - frac (used (balance cfg) (new ++ before) (k_res (gett w t)) first t) (cap cfg (k_res (gett w t)) first)).

Definition c09_task_ok (cfg : config) (w : list itask) (c : core) (t : nat) : Prop :=
  k_ext (gett w t) = false
  /\ (forall q, In q (dependants w t) -> ready w c q)
  /\ exists s e, d_start (getdl (c_dy c) t) = Some s /\ d_end (getdl (c_dy c) t) = Some e
       /\ e <= c09_due cfg w (c_dy c) t
       /\ (is_leaf (gett w t) = true -> k_milestone (gett w t) = false ->
           c09_leaf_facts cfg w (c_dy c) (c_lg c) t s e).

Definition inv09 (cfg : config) (w : list itask) (c : core) : Prop :=
  inv03 cfg w c
  /\ length (c_dy c) = length w
  /\ (forall t, ~ In t (c_calc c) -> nth t (c_dy c) no_dyn = nth t (map init_dyn w) no_dyn)
  /\ (forall t, In t (c_calc c) -> c09_task_ok cfg w c t).

(* ---------- small facts ---------- *)
Lemma c09_used_other l r d t : (forall x, In x l -> r_task x <> t) -> used false l r d t = 0.
Proof.
  induction l as [|a l IH]; intros H; [apply used_nil|].
  rewrite used_cons, IH by (intros x Hx; apply H; right; exact Hx).
  unfold hits. destruct (Nat.eqb_spec (r_task a) t) as [E|E].
  - exfalso. apply (H a); [left; reflexivity | exact E].
  - simpl. rewrite andb_false_r. reflexivity.
Qed.

(* a day that was full when only part of the ledger existed is exactly full in the whole ledger *)
Lemma c09_full_persist cp l a b r d t :
  ledger_ok cp true l -> l = a ++ b -> cp r d - used true b r d t <= 0 -> booked l r d = cp r d.
Proof.
  intros [Hpos Hcap] -> H. specialize (Hcap r d t).
  pose proof (used_app true a b r d t) as Ha.
  pose proof (used_nonneg true a r d t (fun x Hx => Hpos x (in_or_app _ _ _ (or_introl Hx)))) as Hn.
  unfold used in *. lia.
Qed.

Lemma c09_bwd_compute_length cfg w ds l t b ds' l' :
  bwd_compute cfg w ds l t b = Ok (ds', l') -> length ds' = length ds.
Proof.
  intros H. apply bwd_compute_inv in H.
  destruct H as [[_ [-> _]] | [_ [s [e [es [sp [-> _]]]]]]]; apply length_set_nth.
Qed.

Lemma c09_leaf_facts_later cfg w ds ds' l new t0 s e :
  c09_due cfg w ds' t0 = c09_due cfg w ds t0 ->
  (forall x, In x new -> r_task x <> t0) ->
  c09_leaf_facts cfg w ds l t0 s e -> c09_leaf_facts cfg w ds' (new ++ l) t0 s e.
Proof.
  intros Hd Hn. unfold c09_leaf_facts. rewrite Hd. intros [before [nw [after [eday [Hp R]]]]].
  exists before, nw, (new ++ after), eday. split; [|exact R].
  destruct Hp as [A [B [C D]]]. split; [rewrite A, app_assoc; reflexivity|]. split; [exact B|]. split; [|exact D].
  intros x Hx. apply in_app_or in Hx. destruct Hx as [Hx|Hx]; [apply Hn | apply C]; exact Hx.
Qed.

(* ---------- the step that calculates task t ---------- *)
Lemma c09_establish cfg w c t ds' l' :
  WFin w -> c09_no_user_dates w -> inv09 cfg w c ->
  k_ext (gett w t) = false -> ~ In t (c_calc c) ->
  (forall ch, In ch (k_children (gett w t)) -> ready w c ch) ->
  bwd_compute cfg w (c_dy c) (c_lg c) t (c09_due cfg w (c_dy c) t) = Ok (ds', l') ->
  exists s e, d_start (getdl ds' t) = Some s /\ d_end (getdl ds' t) = Some e
     /\ e <= c09_due cfg w (c_dy c) t
     /\ (is_leaf (gett w t) = true -> k_milestone (gett w t) = false ->
         c09_leaf_facts cfg w (c_dy c) l' t s e).
Proof.
  intros Hw Hn [Hi3 [Hlen [Hun Hok]]] Hext Hnot Hkids Hc.
  assert (Htl : (t < length (c_dy c))%nat) by (rewrite Hlen; apply c09_member_range; exact Hext).
  assert (Hnone : d_start (getdl (c_dy c) t) = None /\ d_end (getdl (c_dy c) t) = None).
  { unfold getdl. rewrite (Hun t Hnot), c09_init_nth. apply c09_init_member_none; assumption. }
  destruct Hnone as [Hs0 He0].
  apply bwd_compute_inv in Hc.
  destruct Hc as [[Hm [-> ->]] | [Hm [start [en [est [spent [-> [Hen [_ [_ Hst]]]]]]]]]].
  - exists (c09_due cfg w (c_dy c) t), (c09_due cfg w (c_dy c) t).
    unfold getdl. rewrite nth_set_nth_same by exact Htl. simpl.
    split; [reflexivity|]. split; [reflexivity|]. split; [lia|]. intros _ Hm'. congruence.
  - exists start, en. unfold getdl. rewrite nth_set_nth_same by exact Htl. simpl.
    split; [reflexivity|]. split; [reflexivity|].
    unfold bwd_end_eq in Hen. rewrite He0 in Hen. unfold bwd_start_eq in Hst. rewrite Hs0 in Hst.
    destruct (is_leaf (gett w t)) eqn:Hleaf.
    + (* a working leaf *)
      destruct Hi3 as [[Hpos Hcap] Hrw].
      destruct (bwd_nearest_spec _ _ _ _ _ _ Hen) as [d [Hd [Hfree [Ee Hskip]]]].
      unfold is_free in Hfree.
      assert (Hu0 : 0 <= used (balance cfg) (c_lg c) (k_res (gett w t)) d t) by (apply used_nonneg; exact Hpos).
      assert (Hf0 : 0 <= frac (used (balance cfg) (c_lg c) (k_res (gett w t)) d t) (cap cfg (k_res (gett w t)) d))
        by (apply frac_nonneg; lia).
      assert (Hle : en <= c09_due cfg w (c_dy c) t).
      { assert (DAY * (d + 1) <= c09_due cfg w (c_dy c) t) by (apply day_of_le_iff; lia). lia. }
      rewrite Z.min_l in Hst by exact Hle.
      destruct (bwd_shift cfg (c_lg c) (k_res (gett w t)) t en (Z.max (est - spent) 0)) as [[l2 s2]| |] eqn:Hsh;
        simpl in Hst; try discriminate.
      inversion Hst; subst l2 s2. clear Hst.
      split; [exact Hle|]. intros _ _.
      assert (Hbefore : forall x, In x (c_lg c) -> r_task x <> t).
      { intros x Hx E. destruct (Hrw x Hx) as [A _]. rewrite E in A. contradiction. }
      assert (Hskip' : forall d', d < d' < day_of (c09_due cfg w (c_dy c) t) ->
                 cap cfg (k_res (gett w t)) d' - used (balance cfg) (c_lg c) (k_res (gett w t)) d' t <= 0).
      { intros d' Hd'. destruct (Hskip d' Hd') as [A|A].
        - pose proof (used_nonneg (balance cfg) (c_lg c) (k_res (gett w t)) d' t Hpos). lia.
        - unfold is_free in A. lia. }
      destruct (bwd_shift_spec _ _ _ _ _ _ _ _ Hsh ltac:(lia)) as [[_ [-> ->]] | [Hleft [new [dl [R Es]]]]].
      * exists (c_lg c), [], [], d.
        split. { split; [reflexivity|]. split; [exact Hbefore|]. split; intros x []. }
        split; [exact Hd|]. split; [lia|]. split; [exact Ee|]. split; [exact Hskip'|].
        left. split; reflexivity.
      * pose proof (fr_app _ _ _ _ _ _ _ _ _ _ _ R) as Ea. subst l'.
        exists (c_lg c), new, [], d.
        split.
        { split; [reflexivity|]. split; [exact Hbefore|]. split; [intros x []|].
          intros x Hx. destruct (fr_rows _ _ _ _ _ _ _ _ _ _ _ R x Hx) as [_ [A _]]. exact A. }
        split; [exact Hd|]. split; [lia|]. split; [exact Ee|]. split; [exact Hskip'|].
        right. exists (Z.max (est - spent) 0), dl. split; [exact Hleft|]. split; [exact R | exact Es].
    + (* a summary: the latest end of its children, each of which inherits the summary's dependants *)
      split; [|intros Hx; discriminate].
      remember (somes (map d_end (map (getdl (c_dy c)) (k_children (gett w t))))) as L eqn:EL.
      assert (Hch : forall v, In v L -> v <= c09_due cfg w (c_dy c) t).
      { intros v Hv. subst L. rewrite map_map in Hv. apply c09_in_somes in Hv. destruct Hv as [ch [Hin Hv]].
        destruct (c09_wfin_parts w t Hw Hext) as [Hchild _]. destruct (Hchild ch Hin) as [Hcm _].
        destruct (Hkids ch Hin) as [Hx|Hcalc]; [congruence|].
        destruct (Hok ch Hcalc) as [_ [_ [s' [e' [_ [He' [Hle' _]]]]]]].
        rewrite He' in Hv. inversion Hv; subst v.
        pose proof (c09_bound_min_incl (c_dy c) _ _ (pbound cfg) (c09_dependants_child w t ch Hw Hext Hin)).
        unfold c09_due in *. lia. }
      destruct L as [|x xs]; inversion Hen; subst en.
      * lia.
      * apply c09_fold_max_lub; [apply Hch; left; reflexivity | intros y Hy; apply Hch; right; exact Hy].
Qed.

(* ---------- the invariant is kept by every step of the backward machine ---------- *)
Lemma inv09_bstep cfg w c t c' :
  WFin w -> c09_no_user_dates w -> inv09 cfg w c -> bstep cfg w c t c' -> inv09 cfg w c'.
Proof.
  intros Hw Hn Hi Hs. pose proof Hi as [Hi3 [Hlen [Hun Hok]]].
  assert (Hi3' : inv03 cfg w c') by (eapply inv03_bstep; eauto).
  unfold bstep in Hs. destruct Hs as [c t [ds' l'] Hext Hnot Hdeps Hkids Hc].
  unfold bdeps in Hdeps. unfold bkids in Hkids.
  change (bbnd cfg (c_dy c) (bdeps w t)) with (c09_due cfg w (c_dy c) t) in Hc.
  cbn [fst snd] in *.
  pose proof (bwd_compute_frame _ _ _ _ _ _ _ _ Hc) as Hframe.
  destruct (bwd_compute_ledger _ _ _ _ _ _ _ _ Hc (proj1 Hi3)) as [[new [Hl Hnew]] _].
  assert (Hneq : forall q, ready w c q -> q <> t).
  { intros q [Hq|Hq] E; subst q; [congruence | contradiction]. }
  assert (Hready : forall q, ready w c q ->
            ready w {| c_dy := ds'; c_lg := l'; c_calc := t :: c_calc c |} q).
  { intros q [Hq|Hq]; [left; exact Hq | right; right; exact Hq]. }
  assert (Hdue : forall t0, (forall q, In q (dependants w t0) -> ready w c q) ->
            c09_due cfg w ds' t0 = c09_due cfg w (c_dy c) t0).
  { intros t0 Hr. unfold c09_due. apply bound_min_ext. intros p Hp. apply Hframe. apply Hneq. apply Hr. exact Hp. }
  split; [exact Hi3'|]. cbn [c_dy c_lg c_calc].
  split; [rewrite (c09_bwd_compute_length _ _ _ _ _ _ _ _ Hc); exact Hlen|].
  split.
  { intros t0 Ht0. rewrite Hframe; [apply Hun|]; intro E; apply Ht0; [right; exact E | left; congruence]. }
  intros t0 [<-|Ht0].
  - (* the task just calculated *)
    assert (Hkids' : forall ch, In ch (k_children (gett w t)) -> ready w c ch).
    { intros ch Hch. apply Hkids. apply -> in_rev. exact Hch. }
    destruct (c09_establish cfg w c t ds' l' Hw Hn Hi Hext Hnot Hkids' Hc) as [s [e [A [B [C D]]]]].
    split; [exact Hext|]. split; [intros q Hq; apply Hready; apply Hdeps; exact Hq|].
    exists s, e. cbn [c_dy c_lg]. split; [exact A|]. split; [exact B|].
    rewrite (Hdue t Hdeps). split; [exact C|].
    intros H1 H2. apply (c09_leaf_facts_later cfg w (c_dy c) ds' l' [] t s e (Hdue t Hdeps)); [intros x []|].
    apply D; assumption.
  - (* a task calculated earlier: nothing it depends on moves, later rows are not its own *)
    assert (Hne : t0 <> t) by (intro E; subst t0; contradiction).
    destruct (Hok t0 Ht0) as [A [B [s [e [Cs [Ce [Cd Cl]]]]]]].
    split; [exact A|]. split; [intros q Hq; apply Hready; apply B; exact Hq|].
    exists s, e. cbn [c_dy c_lg]. unfold getdl in *. rewrite (Hframe t0 Hne).
    split; [exact Cs|]. split; [exact Ce|]. rewrite (Hdue t0 B). split; [exact Cd|].
    intros H1 H2. rewrite Hl. apply (c09_leaf_facts_later cfg w (c_dy c) ds' (c_lg c) new t0 s e (Hdue t0 B)).
    + intros x Hx E. destruct (Hnew x Hx) as [_ [F _]]. congruence.
    + apply Cl; assumption.
Qed.

Lemma inv09_init cfg w : cap_nonneg cfg -> inv09 cfg w (init_core w).
Proof.
  intros Hc. split; [apply inv03_init; exact Hc|]. simpl.
  split; [apply map_length|]. split; [reflexivity|]. intros t [].
Qed.

Theorem backward_inv09 cfg w st :
  WFin w -> cap_nonneg cfg -> c09_no_user_dates w -> backward cfg w = Ok st -> inv09 cfg w (core_of st).
Proof.
  intros Hw Hc Hn H. destruct (backward_is_run _ _ _ H) as [Hs _].
  eapply (gsteps_inv w _ _ _ _ (inv09 cfg w)); [|exact Hs | apply inv09_init; exact Hc].
  intros c t c' Hi Hst. eapply inv09_bstep; eauto.
Qed.

(* a member that has a date in the final schedule was calculated (members start without dates) *)
Lemma c09_dated_calc cfg w c t :
  c09_no_user_dates w -> inv09 cfg w c -> k_ext (gett w t) = false ->
  (d_start (getdl (c_dy c) t) <> None \/ d_end (getdl (c_dy c) t) <> None) -> In t (c_calc c).
Proof.
  intros Hn [_ [_ [Hun _]]] Hext Hd.
  destruct (in_dec Nat.eq_dec t (c_calc c)) as [Hin|Hnot]; [exact Hin|]. exfalso.
  unfold getdl in Hd. rewrite (Hun t Hnot), c09_init_nth in Hd.
  destruct (c09_init_member_none w t Hn Hext) as [A B]. destruct Hd as [Hd|Hd]; congruence.
Qed.

(* tasks outside the WBS keep the dates they came with *)
Lemma c09_outside_kept cfg w c t :
  inv09 cfg w c -> k_ext (gett w t) = true -> getdl (c_dy c) t = init_dyn (gett w t).
Proof.
  intros [_ [_ [Hun Hok]]] Hext. unfold getdl. rewrite <- c09_init_nth. apply Hun.
  intro Hin. destruct (Hok t Hin) as [A _]. congruence.
Qed.
