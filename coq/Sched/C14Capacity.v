(* C14, session 3: a starved leaf ANYWHERE in the WBS makes calc answer RuntimeError.
   (1) a run that answers [Ok] calculated every member through a machine step that was enabled and
       whose calculation answered [Ok], in a reachable state satisfying [inv14];
   (2) hence a member whose calculation cannot answer [Ok] in any such state excludes [Ok], and by
       totality the answer is [Err];
   (3) a non-milestone leaf without fixed start (forward) / end (backward) whose resource has no
       capacity from the earliest possible start on (forward) / before the project end (backward) is
       such a member: the availability search runs for every such leaf (also one without work left),
       it starts at or after max(project start, now, min_start) (forward) resp. before the day of the
       project end (backward) and only moves away from the bound. *)
From PJ Require Import Base.Prelude Sched.Model Sched.LedgerProofs Sched.Machine Sched.Instances
     Sched.WfIn Sched.C14Pass Sched.C14Proofs Sched.C14Wf.
From Coq Require Import Relations.Relation_Operators.

(* ---------- generic: the step that calculated a task ---------- *)
Section CalcStep.
Variable w : list itask.
Variable deps : nat -> list nat.
Variable kids : nat -> list nat.
Variable bnd : list dyn -> list nat -> Z.
Variable compute : list dyn -> ledger -> nat -> Z -> res (list dyn * ledger).

Notation gstep := (Machine.gstep w deps kids bnd compute).
Notation gsteps := (Machine.gsteps w deps kids bnd compute).

Lemma gsteps_calc_step I a b : gsteps I a b -> forall t, In t (c_calc b) -> ~ In t (c_calc a) ->
  exists c r, gsteps [] a c /\ enabled w deps kids c t
              /\ compute (c_dy c) (c_lg c) t (bnd (c_dy c) (deps t)) = Ok r.
Proof.
  induction 1 as [a | a u a' b Hn Hs Hr IH]; intros t Hb Ha; [contradiction|].
  destruct (Nat.eq_dec u t) as [E|Hne].
  - subst u. inversion Hs as [c0 t0 r Hext Hnot Hd Hk Hc]; subst.
    exists a, r. split; [constructor|]. split; [|exact Hc]. repeat split; assumption.
  - destruct (IH t Hb) as (c & r & Hs' & He & Hc).
    + inversion Hs as [c0 t0 r Hext Hnot Hd Hk Hc]; subst. simpl. intros [E|E]; [congruence | contradiction].
    + exists c, r. split; [|split; assumption].
      apply (gsteps_step w deps kids bnd compute [] a u a' c); [intros [] | exact Hs | exact Hs'].
Qed.

(* a complete run (all roots ready) from the initial state calculated every task below a root *)
Hypothesis ext_no_waits : forall t p, k_ext (gett w t) = true -> ~ waits deps kids t p.

Lemma run_calculates_under rootl c0 c t :
  c_calc c0 = [] -> gsteps [] c0 c -> (forall r, In r rootl -> ready w c r) ->
  under kids rootl t -> k_ext (gett w t) = false -> In t (c_calc c).
Proof.
  intros H0 Hs Hr Hu Hext.
  assert (HJ : acyc w deps kids c).
  { eapply (acyc_gsteps w deps kids bnd compute ext_no_waits); [exact Hs|].
    intros x p Hx. rewrite H0 in Hx. destruct Hx. }
  destruct (under_ready w deps kids ext_no_waits rootl c HJ Hr t Hu) as [He|Hc]; [congruence | exact Hc].
Qed.
End CalcStep.

(* ---------- (1) an Ok run calculated every member by an enabled step that answered Ok ---------- *)
Lemma fwd_ext_no_waits w : WFin w -> forall t p, k_ext (gett w t) = true -> ~ waits (fdeps w) (fkids w) t p.
Proof.
  intros Hw t p He [Hp|Hp]; destruct (ext_waits_nothing w t Hw He) as (A & B & C).
  - unfold fdeps in Hp. rewrite A in Hp. destruct Hp.
  - unfold fkids in Hp. rewrite C in Hp. destruct Hp.
Qed.

Lemma bwd_ext_no_waits w : WFin w -> forall t p, k_ext (gett w t) = true -> ~ waits (bdeps w) (bkids w) t p.
Proof.
  intros Hw t p He [Hp|Hp]; destruct (ext_waits_nothing w t Hw He) as (A & B & C).
  - unfold bdeps in Hp. rewrite B in Hp. destruct Hp.
  - unfold bkids in Hp. rewrite C in Hp. destruct Hp.
Qed.

Lemma inv14_fsteps cfg w I a b : fsteps cfg w I a b -> inv14 w a -> inv14 w b.
Proof.
  intros Hs. unfold fsteps in Hs. eapply gsteps_inv; [|exact Hs].
  intros c t c' Hi Hst. eapply inv14_fstep; eauto.
Qed.

Lemma inv14_bsteps cfg w I a b : bsteps cfg w I a b -> inv14 w a -> inv14 w b.
Proof.
  intros Hs. unfold bsteps in Hs. eapply gsteps_inv; [|exact Hs].
  intros c t c' Hi Hst. eapply inv14_bstep; eauto.
Qed.

Theorem forward_ok_member_step cfg w st t :
  WFin w -> forward cfg w = Ok st -> k_ext (gett w t) = false ->
  exists c r, fsteps cfg w [] (init_core w) c /\ inv14 w c /\ fenabled w c t
              /\ fwd_compute cfg w (c_dy c) (c_lg c) t (fbnd cfg (c_dy c) (fdeps w t)) = Ok r.
Proof.
  intros Hw H Hext. destruct (forward_is_run _ _ _ H) as (Hs & Hr & _).
  assert (Hin : In t (c_calc (core_of st))).
  { apply (run_calculates_under w (fdeps w) (fkids w) (fbnd cfg) (fwd_compute cfg w) (fwd_ext_no_waits w Hw)
             (roots w) (init_core w) (core_of st) t eq_refl Hs Hr); [|exact Hext].
    apply under_root_f. apply wfin_under_root; [exact Hw | apply ext_out_of_range; exact Hext | exact Hext]. }
  destruct (gsteps_calc_step w (fdeps w) (fkids w) (fbnd cfg) (fwd_compute cfg w) _ _ _ Hs t Hin ltac:(intros []))
    as (c & r & Hs' & He & Hc).
  exists c, r. split; [exact Hs'|]. split; [|split; assumption].
  eapply inv14_fsteps; [exact Hs' | apply inv14_init].
Qed.

Theorem backward_ok_member_step cfg w st t :
  WFin w -> backward cfg w = Ok st -> k_ext (gett w t) = false ->
  exists c r, bsteps cfg w [] (init_core w) c /\ inv14 w c /\ benabled w c t
              /\ bwd_compute cfg w (c_dy c) (c_lg c) t (bbnd cfg (c_dy c) (bdeps w t)) = Ok r.
Proof.
  intros Hw H Hext. destruct (backward_is_run _ _ _ H) as (Hs & Hr & _).
  assert (Hin : In t (c_calc (core_of st))).
  { apply (run_calculates_under w (bdeps w) (bkids w) (bbnd cfg) (bwd_compute cfg w) (bwd_ext_no_waits w Hw)
             (roots w) (init_core w) (core_of st) t eq_refl Hs Hr); [|exact Hext].
    apply under_root_b. apply wfin_under_root; [exact Hw | apply ext_out_of_range; exact Hext | exact Hext]. }
  destruct (gsteps_calc_step w (bdeps w) (bkids w) (bbnd cfg) (bwd_compute cfg w) _ _ _ Hs t Hin ltac:(intros []))
    as (c & r & Hs' & He & Hc).
  exists c, r. split; [exact Hs'|]. split; [|split; assumption].
  eapply inv14_bsteps; [exact Hs' | apply inv14_init].
Qed.

(* ---------- (2) a member that is stuck wherever it may be calculated: RuntimeError ---------- *)
Theorem forward_stuck_member_err cfg w t :
  WFin w -> k_ext (gett w t) = false ->
  (forall c, fsteps cfg w [] (init_core w) c -> inv14 w c -> fenabled w c t ->
             fwd_compute cfg w (c_dy c) (c_lg c) t (fbnd cfg (c_dy c) (fdeps w t)) = Err) ->
  forward cfg w = Err.
Proof.
  intros Hw Hext Hstuck. destruct (C14_total_forward_holds cfg w Hw) as [[st H]|H]; [exfalso | exact H].
  destruct (forward_ok_member_step cfg w st t Hw H Hext) as (c & r & Hs & Hi & He & Hc).
  rewrite (Hstuck c Hs Hi He) in Hc. discriminate.
Qed.

Theorem backward_stuck_member_err cfg w t :
  WFin w -> k_ext (gett w t) = false ->
  (forall c, bsteps cfg w [] (init_core w) c -> inv14 w c -> benabled w c t ->
             bwd_compute cfg w (c_dy c) (c_lg c) t (bbnd cfg (c_dy c) (bdeps w t)) = Err) ->
  backward cfg w = Err.
Proof.
  intros Hw Hext Hstuck. destruct (C14_total_backward_holds cfg w Hw) as [[st H]|H]; [exfalso | exact H].
  destruct (backward_ok_member_step cfg w st t Hw H Hext) as (c & r & Hs & Hi & He & Hc).
  rewrite (Hstuck c Hs Hi He) in Hc. discriminate.
Qed.

(* ---------- (3) the calendar has nothing left where the search looks ---------- *)
Lemma first_open_none_up cp n : forall d, (forall x, d <= x -> cp x <= 0) -> first_open cp 1 n d = None.
Proof.
  induction n as [|n IH]; intros d H; simpl; [reflexivity|].
  destruct (Z.ltb_spec 0 (cp d)) as [L|_]; [specialize (H d ltac:(lia)); lia|].
  apply IH. intros x Hx. apply H. lia.
Qed.

Lemma first_open_none_down cp n : forall d, (forall x, x <= d -> cp x <= 0) -> first_open cp (-1) n d = None.
Proof.
  induction n as [|n IH]; intros d H; simpl; [reflexivity|].
  destruct (Z.ltb_spec 0 (cp d)) as [L|_]; [specialize (H d ltac:(lia)); lia|].
  apply IH. intros x Hx. apply H. lia.
Qed.

Lemma c14_fold_max_ge l : forall b, b <= fold_left Z.max l b.
Proof. induction l as [|x l IH]; intros b; simpl; [lia|]. specialize (IH (Z.max b x)). lia. Qed.

Lemma c14_fold_min_le l : forall b, fold_left Z.min l b <= b.
Proof. induction l as [|x l IH]; intros b; simpl; [lia|]. specialize (IH (Z.min b x)). lia. Qed.

(* the earliest instant the forward search for [t] can start from, whatever was scheduled before *)
Definition fwd_earliest (cfg : config) (w : list itask) (t : nat) : Z :=
  Z.max (Z.max (pbound cfg) (now cfg)) (odflt (k_minstart (gett w t)) 0).

Lemma fwd_earliest_ge_pbound cfg w t : pbound cfg <= fwd_earliest cfg w t.
Proof. unfold fwd_earliest. lia. Qed.

Lemma fwd_compute_starved cfg w c t :
  inv14 w c -> k_ext (gett w t) = false -> ~ In t (c_calc c) ->
  k_children (gett w t) = [] -> k_milestone (gett w t) = false -> k_start (gett w t) = None ->
  (forall d, day_of (fwd_earliest cfg w t) <= d -> cap cfg (k_res (gett w t)) d <= 0) ->
  fwd_compute cfg w (c_dy c) (c_lg c) t (fbnd cfg (c_dy c) (fdeps w t)) = Err.
Proof.
  intros Hi Hext Hn Hleaf Hm Hs Hcap. rewrite fwd_compute_unfold, Hm.
  unfold fwd_start_eq. rewrite (leaf_init_dyn w c t Hi Hext Hn Hleaf). cbn [d_start]. rewrite Hs.
  unfold is_leaf. rewrite Hleaf. unfold fwd_nearest. rewrite first_open_none_up; [reflexivity|].
  intros x Hx. apply Hcap. etransitivity; [|exact Hx]. apply day_of_mono.
  pose proof (c14_fold_max_ge (somes (map (fun p => d_end (getdl (c_dy c) p)) (fdeps w t))) (pbound cfg)) as Hb.
  unfold fwd_earliest, fbnd, bound_max. lia.
Qed.

Lemma bwd_compute_starved cfg w c t :
  inv14 w c -> k_ext (gett w t) = false -> ~ In t (c_calc c) ->
  k_children (gett w t) = [] -> k_milestone (gett w t) = false -> k_end (gett w t) = None ->
  (forall d, d < day_of (pbound cfg) -> cap cfg (k_res (gett w t)) d <= 0) ->
  bwd_compute cfg w (c_dy c) (c_lg c) t (bbnd cfg (c_dy c) (bdeps w t)) = Err.
Proof.
  intros Hi Hext Hn Hleaf Hm Hs Hcap. rewrite bwd_compute_unfold, Hm.
  unfold bwd_end_eq. rewrite (leaf_init_dyn w c t Hi Hext Hn Hleaf). cbn [d_end]. rewrite Hs.
  unfold is_leaf. rewrite Hleaf. unfold bwd_nearest. rewrite first_open_none_down; [reflexivity|].
  intros x Hx. apply Hcap.
  pose proof (c14_fold_min_le (somes (map (fun p => d_start (getdl (c_dy c) p)) (bdeps w t))) (pbound cfg)) as Hb.
  assert (Hd : day_of (bbnd cfg (c_dy c) (bdeps w t)) <= day_of (pbound cfg)).
  { apply day_of_mono. unfold bbnd, bound_min. exact Hb. }
  lia.
Qed.

(* the sharp forward form: nothing from the day of max(project start, now, min_start of t) on *)
Theorem C14_err_calendar_ended_forward_from_holds cfg w t :
  WFin w -> k_ext (gett w t) = false ->
  k_children (gett w t) = [] -> k_milestone (gett w t) = false -> k_start (gett w t) = None ->
  (forall d, day_of (fwd_earliest cfg w t) <= d -> cap cfg (k_res (gett w t)) d <= 0) ->
  forward cfg w = Err.
Proof.
  intros Hw Hext Hleaf Hm Hs Hcap. apply (forward_stuck_member_err cfg w t Hw Hext).
  intros c _ Hi (_ & Hn & _). apply fwd_compute_starved; assumption.
Qed.

Theorem C14_err_calendar_ended_forward_holds cfg w t :
  WFin w -> k_ext (gett w t) = false ->
  k_children (gett w t) = [] -> k_milestone (gett w t) = false -> k_start (gett w t) = None ->
  (forall d, day_of (pbound cfg) <= d -> cap cfg (k_res (gett w t)) d <= 0) ->
  forward cfg w = Err.
Proof.
  intros Hw Hext Hleaf Hm Hs Hcap. apply (C14_err_calendar_ended_forward_from_holds cfg w t); try assumption.
  intros d Hd. apply Hcap. etransitivity; [|exact Hd]. apply day_of_mono. apply fwd_earliest_ge_pbound.
Qed.

Theorem C14_err_calendar_ended_backward_holds cfg w t :
  WFin w -> k_ext (gett w t) = false ->
  k_children (gett w t) = [] -> k_milestone (gett w t) = false -> k_end (gett w t) = None ->
  (forall d, d < day_of (pbound cfg) -> cap cfg (k_res (gett w t)) d <= 0) ->
  backward cfg w = Err.
Proof.
  intros Hw Hext Hleaf Hm Hs Hcap. apply (backward_stuck_member_err cfg w t Hw Hext).
  intros c _ Hi (_ & Hn & _). apply bwd_compute_starved; assumption.
Qed.

(* a resource that never becomes available, the starved leaf anywhere in the WBS *)
Theorem C14_err_no_capacity_any_holds : forall cfg w t,
  WFin w -> k_ext (gett w t) = false ->
  k_children (gett w t) = [] -> k_milestone (gett w t) = false ->
  (forall d, cap cfg (k_res (gett w t)) d <= 0) ->
  (k_start (gett w t) = None -> forward cfg w = Err) /\ (k_end (gett w t) = None -> backward cfg w = Err).
Proof.
  intros cfg w t Hw Hext Hleaf Hm Hcap. split; intros Hd.
  - apply (C14_err_calendar_ended_forward_holds cfg w t); try assumption. intros d _. apply Hcap.
  - apply (C14_err_calendar_ended_backward_holds cfg w t); try assumption. intros d _. apply Hcap.
Qed.

(* ---------- capacity exists, but beyond the horizon of get_nearest_availability_date ---------- *)
(* for a task that waits for nothing (no own or inherited prerequisites / dependants) the search
   starts exactly at the day of max(project start, now, min_start) resp. the day before the project
   end, so the window of [h_search] days is known from the input alone *)
Lemma first_open_none_window_up cp n : forall d,
  (forall x, d <= x < d + Z.of_nat n -> cp x <= 0) -> first_open cp 1 n d = None.
Proof.
  induction n as [|n IH]; intros d H; simpl; [reflexivity|].
  destruct (Z.ltb_spec 0 (cp d)) as [L|_]; [specialize (H d ltac:(lia)); lia|].
  apply IH. intros x Hx. apply H. lia.
Qed.

Lemma first_open_none_window_down cp n : forall d,
  (forall x, d - Z.of_nat n < x <= d -> cp x <= 0) -> first_open cp (-1) n d = None.
Proof.
  induction n as [|n IH]; intros d H; simpl; [reflexivity|].
  destruct (Z.ltb_spec 0 (cp d)) as [L|_]; [specialize (H d ltac:(lia)); lia|].
  apply IH. intros x Hx. apply H. lia.
Qed.

Theorem C14_err_beyond_horizon_forward_holds cfg w t :
  WFin w -> k_ext (gett w t) = false ->
  k_children (gett w t) = [] -> k_milestone (gett w t) = false -> k_start (gett w t) = None ->
  prereqs w t = [] ->
  (forall d, day_of (fwd_earliest cfg w t) <= d < day_of (fwd_earliest cfg w t) + Z.of_nat (h_search cfg) ->
             cap cfg (k_res (gett w t)) d <= 0) ->
  forward cfg w = Err.
Proof.
  intros Hw Hext Hleaf Hm Hs Hpre Hcap. apply (forward_stuck_member_err cfg w t Hw Hext).
  intros c _ Hi (_ & Hn & _). rewrite fwd_compute_unfold, Hm.
  unfold fwd_start_eq. rewrite (leaf_init_dyn w c t Hi Hext Hn Hleaf). cbn [d_start]. rewrite Hs.
  unfold is_leaf. rewrite Hleaf. unfold fwd_nearest, fdeps. rewrite Hpre.
  change (fbnd cfg (c_dy c) []) with (pbound cfg). fold (fwd_earliest cfg w t).
  rewrite first_open_none_window_up; [reflexivity | exact Hcap].
Qed.

Theorem C14_err_beyond_horizon_backward_holds cfg w t :
  WFin w -> k_ext (gett w t) = false ->
  k_children (gett w t) = [] -> k_milestone (gett w t) = false -> k_end (gett w t) = None ->
  dependants w t = [] ->
  (forall d, day_of (pbound cfg) - 1 - Z.of_nat (h_search cfg) < d <= day_of (pbound cfg) - 1 ->
             cap cfg (k_res (gett w t)) d <= 0) ->
  backward cfg w = Err.
Proof.
  intros Hw Hext Hleaf Hm Hs Hdep Hcap. apply (backward_stuck_member_err cfg w t Hw Hext).
  intros c _ Hi (_ & Hn & _). rewrite bwd_compute_unfold, Hm.
  unfold bwd_end_eq. rewrite (leaf_init_dyn w c t Hi Hext Hn Hleaf). cbn [d_end]. rewrite Hs.
  unfold is_leaf. rewrite Hleaf. unfold bwd_nearest, bdeps. rewrite Hdep.
  change (bbnd cfg (c_dy c) []) with (pbound cfg).
  rewrite first_open_none_window_down; [reflexivity | exact Hcap].
Qed.

(* ---------- statements in the shape of the Props file ---------- *)
Lemma C14_ok_members_computed_holds : forall cfg w t,
  WFin w -> k_ext (gett w t) = false ->
  (forall st, forward cfg w = Ok st ->
     exists c r, fsteps cfg w [] (init_core w) c /\ inv14 w c /\ fenabled w c t
                 /\ fwd_compute cfg w (c_dy c) (c_lg c) t (fbnd cfg (c_dy c) (fdeps w t)) = Ok r)
  /\ (forall st, backward cfg w = Ok st ->
     exists c r, bsteps cfg w [] (init_core w) c /\ inv14 w c /\ benabled w c t
                 /\ bwd_compute cfg w (c_dy c) (c_lg c) t (bbnd cfg (c_dy c) (bdeps w t)) = Ok r).
Proof.
  intros cfg w t Hw Hext. split; intros st H.
  - exact (forward_ok_member_step cfg w st t Hw H Hext).
  - exact (backward_ok_member_step cfg w st t Hw H Hext).
Qed.

Lemma C14_err_stuck_member_holds : forall cfg w t,
  WFin w -> k_ext (gett w t) = false ->
  ((forall c, fsteps cfg w [] (init_core w) c -> inv14 w c -> fenabled w c t ->
              fwd_compute cfg w (c_dy c) (c_lg c) t (fbnd cfg (c_dy c) (fdeps w t)) = Err) ->
   forward cfg w = Err)
  /\ ((forall c, bsteps cfg w [] (init_core w) c -> inv14 w c -> benabled w c t ->
              bwd_compute cfg w (c_dy c) (c_lg c) t (bbnd cfg (c_dy c) (bdeps w t)) = Err) ->
   backward cfg w = Err).
Proof.
  intros cfg w t Hw Hext. split; intros H.
  - exact (forward_stuck_member_err cfg w t Hw Hext H).
  - exact (backward_stuck_member_err cfg w t Hw Hext H).
Qed.

Lemma C14_err_beyond_horizon_holds : forall cfg w t,
  WFin w -> k_ext (gett w t) = false -> k_children (gett w t) = [] -> k_milestone (gett w t) = false ->
  (k_start (gett w t) = None -> prereqs w t = [] ->
   (forall d, day_of (fwd_earliest cfg w t) <= d < day_of (fwd_earliest cfg w t) + Z.of_nat (h_search cfg) ->
              cap cfg (k_res (gett w t)) d <= 0) ->
   forward cfg w = Err)
  /\ (k_end (gett w t) = None -> dependants w t = [] ->
   (forall d, day_of (pbound cfg) - 1 - Z.of_nat (h_search cfg) < d <= day_of (pbound cfg) - 1 ->
              cap cfg (k_res (gett w t)) d <= 0) ->
   backward cfg w = Err).
Proof.
  intros cfg w t Hw Hext Hleaf Hm. split.
  - intros Hs Hp Hc. exact (C14_err_beyond_horizon_forward_holds cfg w t Hw Hext Hleaf Hm Hs Hp Hc).
  - intros Hs Hp Hc. exact (C14_err_beyond_horizon_backward_holds cfg w t Hw Hext Hleaf Hm Hs Hp Hc).
Qed.
