(* C14: calc terminates with a schedule or a RuntimeError.  Both scheduler models answer [Ok] or
   [Err], never [Crash]; the four unschedulable classes answer [Err]; an [Err] has one of four
   causes, hence the converse (completeness). *)
From PJ Require Import Base.Prelude Sched.Model Sched.LedgerProofs Sched.Machine Sched.Instances
     Sched.WfIn Sched.C14Pass.
From Coq Require Import Relations.Relation_Operators.

(* ---------- the primitives answer Ok or Err ---------- *)
Lemma fwd_nearest_no_crash cfg l r t t0 k : fwd_nearest cfg l r t t0 <> Crash k.
Proof.
  unfold fwd_nearest. destruct (first_open _ _ _ _); [|discriminate]. destruct (next_free _ _ _ _ _); discriminate.
Qed.

Lemma bwd_nearest_no_crash cfg l r t t0 k : bwd_nearest cfg l r t t0 <> Crash k.
Proof.
  unfold bwd_nearest. destruct (first_open _ _ _ _); [|discriminate]. destruct (next_free _ _ _ _ _); discriminate.
Qed.

Lemma fill_no_crash cp bal r t dir n : forall l d left k, fill cp bal r t dir n l d left <> Crash k.
Proof.
  induction n as [|n IH]; intros l d left k; simpl; [discriminate|].
  match goal with |- (if ?c then _ else _) <> _ => destruct c end; [apply IH | discriminate].
Qed.

Lemma fwd_shift_no_crash cfg l r t s0 left k : fwd_shift cfg l r t s0 left <> Crash k.
Proof.
  unfold fwd_shift. destruct (left =? 0); [discriminate|].
  destruct (fill _ _ _ _ _ _ _ _ _) as [[l' d]| |k'] eqn:E; simpl; try discriminate.
  exfalso. exact (fill_no_crash _ _ _ _ _ _ _ _ _ _ E).
Qed.

Lemma bwd_shift_no_crash cfg l r t s0 left k : bwd_shift cfg l r t s0 left <> Crash k.
Proof.
  unfold bwd_shift. destruct (left =? 0); [discriminate|].
  destruct (fill _ _ _ _ _ _ _ _ _) as [[l' d]| |k'] eqn:E; simpl; try discriminate.
  exfalso. exact (fill_no_crash _ _ _ _ _ _ _ _ _ _ E).
Qed.

Lemma sum_opts_total l : (forall x, In x l -> x <> None) -> exists v, sum_opts l = Ok v.
Proof.
  induction l as [|x l IH]; intros H; simpl; [eexists; reflexivity|].
  destruct x as [x|]; [|exfalso; apply (H None); [left|]; reflexivity].
  destruct IH as [v Hv]; [intros y Hy; apply H; right; exact Hy|]. rewrite Hv. simpl. eexists; reflexivity.
Qed.

Lemma sum_opts_no_err l : sum_opts l <> Err.
Proof.
  induction l as [|x l IH]; simpl; [discriminate|]. destruct x as [x|]; [|discriminate].
  destruct (sum_opts l); simpl; congruence.
Qed.

(* ---------- a calculated task has all four values ---------- *)
Definition full (d : dyn) : Prop := exists s e es sp, d = mkd s e es sp.

Lemma full_mkd s e es sp : full (mkd s e es sp).
Proof. do 4 eexists. reflexivity. Qed.

Definition kids_full (w : list itask) (ds : list dyn) (t : nat) : Prop :=
  forall ch, In ch (k_children (gett w t)) -> full (getdl ds ch).

Lemma kids_sum (f : dyn -> option Z) w ds t :
  (forall s e es sp, f (mkd s e es sp) <> None) -> kids_full w ds t ->
  exists v, sum_opts (map f (map (getdl ds) (k_children (gett w t)))) = Ok v.
Proof.
  intros Hf H. apply sum_opts_total. intros x Hx. rewrite map_map in Hx. apply in_map_iff in Hx.
  destruct Hx as [ch [<- Hch]]. destruct (H ch Hch) as (s & e & es & sp & ->). apply Hf.
Qed.

Lemma kids_somes (f : dyn -> option Z) w ds t :
  (forall s e es sp, f (mkd s e es sp) <> None) -> kids_full w ds t -> is_leaf (gett w t) = false ->
  somes (map f (map (getdl ds) (k_children (gett w t)))) <> [].
Proof.
  intros Hf H Hl. unfold kids_full in H. unfold is_leaf in Hl.
  destruct (k_children (gett w t)) as [|c cs]; [discriminate|].
  destruct (H c (or_introl eq_refl)) as (s & e & es & sp & Hd). simpl. rewrite Hd.
  specialize (Hf s e es sp). destruct (f (mkd s e es sp)); [discriminate | congruence].
Qed.

Lemma est_eq_ok cfg w ds t : kids_full w ds t -> exists v, est_eq cfg w ds t = Ok v.
Proof.
  intros H. unfold est_eq. destruct (d_est (getdl ds t)); [eexists; reflexivity|].
  destruct (is_leaf (gett w t)); [eexists; reflexivity|]. apply kids_sum; [discriminate | exact H].
Qed.

Lemma spent_eq_ok w ds t : kids_full w ds t -> exists v, spent_eq w ds t = Ok v.
Proof.
  intros H. unfold spent_eq. destruct (d_spent (getdl ds t)); [eexists; reflexivity|].
  destruct (is_leaf (gett w t)); [eexists; reflexivity|]. apply kids_sum; [discriminate | exact H].
Qed.

Lemma est_eq_no_err cfg w ds t : est_eq cfg w ds t <> Err.
Proof.
  unfold est_eq. destruct (d_est (getdl ds t)); [discriminate|].
  destruct (is_leaf (gett w t)); [discriminate | apply sum_opts_no_err].
Qed.

Lemma spent_eq_no_err w ds t : spent_eq w ds t <> Err.
Proof.
  unfold spent_eq. destruct (d_spent (getdl ds t)); [discriminate|].
  destruct (is_leaf (gett w t)); [discriminate | apply sum_opts_no_err].
Qed.

(* ---------- forward: the calculation of one task ---------- *)
Lemma fwd_compute_unfold cfg w ds l t b :
  fwd_compute cfg w ds l t b =
  if k_milestone (gett w t) then Ok (set_nth ds t (mkd b b 0 0), l)
  else do start <- fwd_start_eq cfg w ds l t b;
       do est <- est_eq cfg w ds t;
       do spent <- spent_eq w ds t;
       do '(l', en) <- fwd_end_eq cfg w ds l t start est spent;
       Ok (set_nth ds t (mkd start en est spent), l').
Proof. reflexivity. Qed.

Lemma fwd_start_eq_no_crash cfg w ds l t b k : fwd_start_eq cfg w ds l t b <> Crash k.
Proof.
  unfold fwd_start_eq. destruct (d_start (getdl ds t)); [discriminate|].
  destruct (is_leaf (gett w t)).
  - destruct (fwd_nearest _ _ _ _ _) as [s| |k'] eqn:E; simpl; try discriminate.
    exfalso. exact (fwd_nearest_no_crash _ _ _ _ _ _ E).
  - destruct (somes _); discriminate.
Qed.

Lemma fwd_end_eq_no_crash cfg w ds l t s es sp k :
  kids_full w ds t -> fwd_end_eq cfg w ds l t s es sp <> Crash k.
Proof.
  intros H. unfold fwd_end_eq. destruct (d_end (getdl ds t)); [discriminate|].
  destruct (is_leaf (gett w t)) eqn:Hl.
  - destruct (fwd_shift _ _ _ _ _ _) as [[l' e]| |k'] eqn:E; simpl; try discriminate.
    exfalso. exact (fwd_shift_no_crash _ _ _ _ _ _ _ E).
  - pose proof (kids_somes d_end w ds t ltac:(discriminate) H Hl) as Hn.
    destruct (somes _); [congruence | discriminate].
Qed.

Theorem fwd_compute_no_crash cfg w ds l t b k : kids_full w ds t -> fwd_compute cfg w ds l t b <> Crash k.
Proof.
  intros H. rewrite fwd_compute_unfold. destruct (k_milestone (gett w t)); [discriminate|].
  destruct (fwd_start_eq cfg w ds l t b) as [s| |k1] eqn:E1; simpl;
    [|discriminate | exfalso; exact (fwd_start_eq_no_crash _ _ _ _ _ _ _ E1)].
  destruct (est_eq_ok cfg w ds t H) as [es ->]. destruct (spent_eq_ok w ds t H) as [sp ->]. simpl.
  destruct (fwd_end_eq cfg w ds l t s es sp) as [[l' en]| |k4] eqn:E4; simpl; try discriminate.
  exfalso. exact (fwd_end_eq_no_crash _ _ _ _ _ _ _ _ _ H E4).
Qed.

(* a RuntimeError of the calculation is an exhausted search *)
Definition fwd_search_exhausted (cfg : config) (w : list itask) (l : ledger) (t : nat) : Prop :=
  is_leaf (gett w t) = true /\ k_milestone (gett w t) = false
  /\ ((exists t0, fwd_nearest cfg l (k_res (gett w t)) t t0 = Err)
      \/ (exists s0 left, fwd_shift cfg l (k_res (gett w t)) t s0 left = Err)).

Lemma fwd_compute_err_inv cfg w ds l t b :
  fwd_compute cfg w ds l t b = Err -> fwd_search_exhausted cfg w l t.
Proof.
  rewrite fwd_compute_unfold. destruct (k_milestone (gett w t)) eqn:Hm; [discriminate|].
  destruct (fwd_start_eq cfg w ds l t b) as [s| |k1] eqn:E1; simpl; [| |discriminate].
  2:{ intros _. unfold fwd_start_eq in E1. destruct (d_start (getdl ds t)); [discriminate|].
      destruct (is_leaf (gett w t)) eqn:Hl; [|destruct (somes _); discriminate].
      split; [exact Hl|]. split; [exact Hm|]. left.
      destruct (fwd_nearest _ _ _ _ _) eqn:En; simpl in E1; try discriminate. eexists; exact En. }
  destruct (est_eq cfg w ds t) as [es| |k2] eqn:E2; simpl; [|exfalso; exact (est_eq_no_err _ _ _ _ E2) | discriminate].
  destruct (spent_eq w ds t) as [sp| |k3] eqn:E3; simpl; [|exfalso; exact (spent_eq_no_err _ _ _ E3) | discriminate].
  destruct (fwd_end_eq cfg w ds l t s es sp) as [[l' en]| |k4] eqn:E4; simpl; try discriminate.
  intros _. unfold fwd_end_eq in E4. destruct (d_end (getdl ds t)); [discriminate|].
  destruct (is_leaf (gett w t)) eqn:Hl; [|destruct (somes _); discriminate].
  split; [exact Hl|]. split; [exact Hm|]. right.
  destruct (fwd_shift _ _ _ _ _ _) as [[l2 e2]| |] eqn:Es; simpl in E4; try discriminate. do 2 eexists; exact Es.
Qed.

(* ---------- backward: the calculation of one task ---------- *)
Lemma bwd_compute_unfold cfg w ds l t b :
  bwd_compute cfg w ds l t b =
  if k_milestone (gett w t) then Ok (set_nth ds t (mkd b b 0 0), l)
  else do en <- bwd_end_eq cfg w ds l t b;
       do est <- est_eq cfg w ds t;
       do spent <- spent_eq w ds t;
       do '(l', start) <- bwd_start_eq cfg w ds l t b en est spent;
       Ok (set_nth ds t (mkd start en est spent), l').
Proof. reflexivity. Qed.

Lemma bwd_end_eq_no_crash cfg w ds l t b k : bwd_end_eq cfg w ds l t b <> Crash k.
Proof.
  unfold bwd_end_eq. destruct (d_end (getdl ds t)); [discriminate|].
  destruct (is_leaf (gett w t)).
  - apply bwd_nearest_no_crash.
  - destruct (somes _); discriminate.
Qed.

Lemma bwd_start_eq_no_crash cfg w ds l t b en es sp k :
  kids_full w ds t -> bwd_start_eq cfg w ds l t b en es sp <> Crash k.
Proof.
  intros H. unfold bwd_start_eq. destruct (is_leaf (gett w t)) eqn:Hl.
  - destruct (bwd_shift _ _ _ _ _ _) as [[l' e]| |k'] eqn:E; simpl; try discriminate.
    exfalso. exact (bwd_shift_no_crash _ _ _ _ _ _ _ E).
  - pose proof (kids_somes d_start w ds t ltac:(discriminate) H Hl) as Hn.
    destruct (somes _); [congruence | discriminate].
Qed.

Theorem bwd_compute_no_crash cfg w ds l t b k : kids_full w ds t -> bwd_compute cfg w ds l t b <> Crash k.
Proof.
  intros H. rewrite bwd_compute_unfold. destruct (k_milestone (gett w t)); [discriminate|].
  destruct (bwd_end_eq cfg w ds l t b) as [en| |k1] eqn:E1; simpl;
    [|discriminate | exfalso; exact (bwd_end_eq_no_crash _ _ _ _ _ _ _ E1)].
  destruct (est_eq_ok cfg w ds t H) as [es ->]. destruct (spent_eq_ok w ds t H) as [sp ->]. simpl.
  destruct (bwd_start_eq cfg w ds l t b en es sp) as [[l' s]| |k4] eqn:E4; simpl; try discriminate.
  exfalso. exact (bwd_start_eq_no_crash _ _ _ _ _ _ _ _ _ _ H E4).
Qed.

Definition bwd_search_exhausted (cfg : config) (w : list itask) (l : ledger) (t : nat) : Prop :=
  is_leaf (gett w t) = true /\ k_milestone (gett w t) = false
  /\ ((exists t0, bwd_nearest cfg l (k_res (gett w t)) t t0 = Err)
      \/ (exists e0 left, bwd_shift cfg l (k_res (gett w t)) t e0 left = Err)).

Lemma bwd_compute_err_inv cfg w ds l t b :
  bwd_compute cfg w ds l t b = Err -> bwd_search_exhausted cfg w l t.
Proof.
  rewrite bwd_compute_unfold. destruct (k_milestone (gett w t)) eqn:Hm; [discriminate|].
  destruct (bwd_end_eq cfg w ds l t b) as [en| |k1] eqn:E1; simpl; [| |discriminate].
  2:{ intros _. unfold bwd_end_eq in E1. destruct (d_end (getdl ds t)); [discriminate|].
      destruct (is_leaf (gett w t)) eqn:Hl; [|destruct (somes _); discriminate].
      split; [exact Hl|]. split; [exact Hm|]. left. eexists; exact E1. }
  destruct (est_eq cfg w ds t) as [es| |k2] eqn:E2; simpl; [|exfalso; exact (est_eq_no_err _ _ _ _ E2) | discriminate].
  destruct (spent_eq w ds t) as [sp| |k3] eqn:E3; simpl; [|exfalso; exact (spent_eq_no_err _ _ _ E3) | discriminate].
  destruct (bwd_start_eq cfg w ds l t b en es sp) as [[l' s]| |k4] eqn:E4; simpl; try discriminate.
  intros _. unfold bwd_start_eq in E4.
  destruct (is_leaf (gett w t)) eqn:Hl; [|destruct (somes _); discriminate].
  split; [exact Hl|]. split; [exact Hm|]. right.
  destruct (bwd_shift _ _ _ _ _ _) as [[l2 e2]| |] eqn:Es; simpl in E4; try discriminate. do 2 eexists; exact Es.
Qed.

(* ---------- what WFin gives ---------- *)
Lemma wfin_at w t : WFin w -> (t < length w)%nat ->
  if k_ext (gett w t) then wfin_ext_b (gett w t) = true else wfin_member_b w t = true.
Proof.
  unfold WFin, wfin_b. rewrite forallb_forall. intros H Ht.
  specialize (H t ltac:(apply in_seq; lia)). unfold is_ext in H.
  destruct (k_ext (gett w t)); [exact H|]. apply andb_true_iff in H. exact (proj1 H).
Qed.

(* all conjuncts of a boolean conjunction as separate hypotheses (independent of their number and order) *)
Ltac wf_split :=
  repeat match goal with X : _ && _ = true |- _ => apply andb_true_iff in X; destruct X end.

Lemma wfin_children w t ch :
  WFin w -> k_ext (gett w t) = false -> In ch (k_children (gett w t)) ->
  (ch < length w)%nat /\ k_ext (gett w ch) = false.
Proof.
  intros Hw Hext Hin. pose proof (wfin_at w t Hw (ext_out_of_range w t Hext)) as H. rewrite Hext in H.
  unfold wfin_member_b in H. wf_split.
  match goal with X : forallb _ (k_children (gett w t)) = true |- _ => rename X into Hc end.
  rewrite forallb_forall in Hc. specialize (Hc ch Hin).
  apply andb_true_iff in Hc. destruct Hc as [Hc _]. apply andb_true_iff in Hc. destruct Hc as [Hcr Hce].
  unfold in_range in Hcr. apply Nat.ltb_lt in Hcr. unfold is_ext in Hce. apply negb_true_iff in Hce. auto.
Qed.

Lemma ancestors_none w f t : k_parent (gett w t) = None -> ancestors w f t = [].
Proof. intros H. destruct f; simpl; [reflexivity|]. rewrite H. reflexivity. Qed.

Lemma ext_shape w t : WFin w -> k_ext (gett w t) = true ->
  k_parent (gett w t) = None /\ k_children (gett w t) = [] /\ k_preds (gett w t) = [] /\ k_succs (gett w t) = [].
Proof.
  intros Hw Hext. destruct (Nat.lt_ge_cases t (length w)) as [L|G].
  - pose proof (wfin_at w t Hw L) as H. rewrite Hext in H. unfold wfin_ext_b in H.
    destruct (k_parent (gett w t)); [discriminate|]. destruct (k_children (gett w t)); [|discriminate].
    destruct (k_preds (gett w t)); [|discriminate]. destruct (k_succs (gett w t)); [|discriminate]. auto.
  - unfold gett. rewrite nth_overflow by exact G. simpl. auto.
Qed.

Lemma ext_waits_nothing w t : WFin w -> k_ext (gett w t) = true ->
  prereqs w t = [] /\ dependants w t = [] /\ k_children (gett w t) = [].
Proof.
  intros Hw Hext. destruct (ext_shape w t Hw Hext) as (Hp & Hc & Hpr & Hs).
  unfold prereqs, dependants. rewrite Hpr, Hs, (ancestors_none w _ t Hp). simpl. auto.
Qed.

(* ---------- the invariant of both machines ---------- *)
Definition inv14 (w : list itask) (c : core) : Prop :=
  length (c_dy c) = length w
  /\ (forall p, In p (c_calc c) -> full (nth p (c_dy c) no_dyn))
  /\ (forall p, ~ In p (c_calc c) -> nth p (c_dy c) no_dyn = nth p (map init_dyn w) no_dyn).

Lemma inv14_init w : inv14 w (init_core w).
Proof.
  split; [simpl; apply map_length|]. split; [intros p []|]. intros p _. reflexivity.
Qed.

Lemma inv14_set w c t d l' :
  inv14 w c -> k_ext (gett w t) = false -> full d ->
  inv14 w {| c_dy := set_nth (c_dy c) t d; c_lg := l'; c_calc := t :: c_calc c |}.
Proof.
  intros (A & B & C) Hext Hf. pose proof (ext_out_of_range w t Hext) as Ht.
  split; [simpl; rewrite length_set_nth; exact A|]. split; simpl.
  - intros p Hp. destruct (Nat.eq_dec p t) as [->|Hne].
    + rewrite nth_set_nth_same; [exact Hf | rewrite A; exact Ht].
    + rewrite nth_set_nth_other by exact Hne. apply B. destruct Hp as [E|Hp]; [congruence | exact Hp].
  - intros p Hp. rewrite nth_set_nth_other; [apply C; tauto | intro E; apply Hp; left; congruence].
Qed.

Lemma inv14_fstep cfg w c t c' : inv14 w c -> fstep cfg w c t c' -> inv14 w c'.
Proof.
  intros Hi Hs. unfold fstep in Hs. destruct Hs as [c t r Hext Hnot _ _ Hc]. destruct r as [ds' l'].
  apply fwd_compute_inv in Hc. simpl.
  destruct Hc as [(_ & -> & _) | (_ & s & e & es & sp & -> & _)]; apply inv14_set; auto using full_mkd.
Qed.

Lemma inv14_bstep cfg w c t c' : inv14 w c -> bstep cfg w c t c' -> inv14 w c'.
Proof.
  intros Hi Hs. unfold bstep in Hs. destruct Hs as [c t r Hext Hnot _ _ Hc]. destruct r as [ds' l'].
  apply bwd_compute_inv in Hc. simpl.
  destruct Hc as [(_ & -> & _) | (_ & s & e & es & sp & -> & _)]; apply inv14_set; auto using full_mkd.
Qed.

(* when the machine may calculate t, the children of t have all four values *)
Lemma enabled_kids_full w deps kids c t :
  WFin w -> inv14 w c -> (forall ch, In ch (k_children (gett w t)) -> In ch (kids t)) ->
  enabled w deps kids c t -> kids_full w (c_dy c) t.
Proof.
  intros Hw (_ & B & _) Hk (Hext & _ & _ & Hr) ch Hch.
  destruct (wfin_children w t ch Hw Hext Hch) as [_ Hce].
  destruct (Hr ch (Hk ch Hch)) as [He|Hc]; [congruence|]. apply B. exact Hc.
Qed.

Notation fenabled w := (enabled w (fdeps w) (fkids w)).
Notation benabled w := (enabled w (bdeps w) (bkids w)).

Lemma fwd_compute_safe cfg w c t : WFin w -> inv14 w c -> fenabled w c t ->
  forall k, fwd_compute cfg w (c_dy c) (c_lg c) t (fbnd cfg (c_dy c) (fdeps w t)) <> Crash k.
Proof.
  intros Hw Hi He k. apply fwd_compute_no_crash.
  eapply enabled_kids_full; [exact Hw | exact Hi | | exact He]. intros ch Hch. exact Hch.
Qed.

Lemma bwd_compute_safe cfg w c t : WFin w -> inv14 w c -> benabled w c t ->
  forall k, bwd_compute cfg w (c_dy c) (c_lg c) t (bbnd cfg (c_dy c) (bdeps w t)) <> Crash k.
Proof.
  intros Hw Hi He k. apply bwd_compute_no_crash.
  eapply enabled_kids_full; [exact Hw | exact Hi | | exact He]. intros ch Hch. unfold bkids. apply -> in_rev. exact Hch.
Qed.

Definition top_fuel (w : list itask) : nat := S (S (length w)).

Lemma okst_init w : okst w (inv14 w) (top_fuel w) (init_state w).
Proof.
  unfold okst, top_fuel. simpl. split; [apply inv14_init|]. split; [constructor|]. split; [intros x []|lia].
Qed.

(* ---------- (a) no crash ---------- *)
Lemma fwd_fold_no_crash cfg w l st : WFin w -> okst w (inv14 w) (top_fuel w) st ->
  forall k, fold_res (fwd_pass (top_fuel w) cfg w) l st <> Crash k.
Proof.
  intros Hw Hst. unfold fwd_pass.
  apply (fold_gpass_no_crash w (fdeps w) (fkids w) (fbnd cfg) (fwd_compute cfg w)
           (fwd_compute_frame cfg w) (fun ds ds' pre => bound_max_ext (pbound cfg) ds ds' pre) (inv14 w)).
  - intros c t c' Hi Hs. eapply inv14_fstep; eauto.
  - intros c t Hi He. apply fwd_compute_safe; assumption.
  - exact Hst.
Qed.

Lemma bwd_fold_no_crash cfg w l st : WFin w -> okst w (inv14 w) (top_fuel w) st ->
  forall k, fold_res (bwd_pass (top_fuel w) cfg w) l st <> Crash k.
Proof.
  intros Hw Hst. unfold bwd_pass.
  apply (fold_gpass_no_crash w (bdeps w) (bkids w) (bbnd cfg) (bwd_compute cfg w)
           (bwd_compute_frame cfg w) (fun ds ds' pre => bound_min_ext (pbound cfg) ds ds' pre) (inv14 w)).
  - intros c t c' Hi Hs. eapply inv14_bstep; eauto.
  - intros c t Hi He. apply bwd_compute_safe; assumption.
  - exact Hst.
Qed.

Theorem C14_total_forward_holds cfg w : WFin w -> (exists st, forward cfg w = Ok st) \/ forward cfg w = Err.
Proof.
  intros Hw. unfold forward. destruct (negb (isolated_ok w)); [right; reflexivity|].
  destruct (negb (no_future_ends w (now cfg))); [right; reflexivity|].
  fold (top_fuel w).
  destruct (fold_res (fwd_pass (top_fuel w) cfg w) (roots w) (init_state w)) as [st| |k] eqn:E.
  - left. eexists; reflexivity.
  - right. reflexivity.
  - exfalso. exact (fwd_fold_no_crash cfg w _ _ Hw (okst_init w) k E).
Qed.

Theorem C14_total_backward_holds cfg w : WFin w -> (exists st, backward cfg w = Ok st) \/ backward cfg w = Err.
Proof.
  intros Hw. unfold backward. destruct (negb (isolated_ok w)); [right; reflexivity|].
  fold (top_fuel w).
  destruct (fold_res (bwd_pass (top_fuel w) cfg w) (rev (roots w)) (init_state w)) as [st| |k] eqn:E.
  - left. eexists; reflexivity.
  - right. reflexivity.
  - exfalso. exact (bwd_fold_no_crash cfg w _ _ Hw (okst_init w) k E).
Qed.

Corollary C14_no_crash_forward cfg w k : WFin w -> forward cfg w <> Crash k.
Proof. intros Hw H. destruct (C14_total_forward_holds cfg w Hw) as [[st E]|E]; congruence. Qed.

Corollary C14_no_crash_backward cfg w k : WFin w -> backward cfg w <> Crash k.
Proof. intros Hw H. destruct (C14_total_backward_holds cfg w Hw) as [[st E]|E]; congruence. Qed.

(* ---------- (b) the unschedulable classes ---------- *)
Theorem C14_err_isolated_forward cfg w : isolated_ok w = false -> forward cfg w = Err.
Proof. intros H. unfold forward. rewrite H. reflexivity. Qed.

Theorem C14_err_isolated_backward cfg w : isolated_ok w = false -> backward cfg w = Err.
Proof. intros H. unfold backward. rewrite H. reflexivity. Qed.

Theorem C14_err_future_end_forward cfg w : no_future_ends w (now cfg) = false -> forward cfg w = Err.
Proof. intros H. unfold forward. rewrite H. destruct (negb (isolated_ok w)); reflexivity. Qed.

(* the effective waiting relation *)
Definition fwaits (w : list itask) (t p : nat) : Prop := In p (prereqs w t) \/ In p (k_children (gett w t)).
Definition bwaits (w : list itask) (t p : nat) : Prop := In p (dependants w t) \/ In p (k_children (gett w t)).

(* tasks every complete run calculates: the roots and whatever hangs below them *)
Inductive under_root (w : list itask) : nat -> Prop :=
| ur_root r : In r (roots w) -> under_root w r
| ur_kid p ch : under_root w p -> In ch (k_children (gett w p)) -> under_root w ch.

Lemma clos_trans_impl (R R' : nat -> nat -> Prop) : (forall a b, R a b -> R' a b) ->
  forall a b, clos_trans nat R a b -> clos_trans nat R' a b.
Proof. intros H a b Hc. induction Hc; [apply t_step; auto | eapply t_trans; eauto]. Qed.

Lemma bwaits_waits w t p : bwaits w t p <-> waits (bdeps w) (bkids w) t p.
Proof. unfold bwaits, waits, bkids. rewrite <- in_rev. reflexivity. Qed.

Lemma under_root_f w t : under_root w t -> under (fkids w) (roots w) t.
Proof. induction 1; [apply under_base; assumption | eapply under_step; eauto]. Qed.

Lemma under_root_b w t : under_root w t -> under (bkids w) (roots w) t.
Proof.
  induction 1; [apply under_base; assumption | eapply under_step; eauto]. unfold bkids. apply -> in_rev. assumption.
Qed.

Theorem C14_err_cycle_forward_holds cfg w u :
  WFin w -> k_ext (gett w u) = false -> under_root w u -> clos_trans nat (fwaits w) u u -> forward cfg w = Err.
Proof.
  intros Hw Hext Hu Hc. destruct (C14_total_forward_holds cfg w Hw) as [[st H]|H]; [exfalso | exact H].
  destruct (forward_is_run _ _ _ H) as (Hs & Hr & _).
  apply (cycle_excludes_ok w (fdeps w) (fkids w) (fbnd cfg) (fwd_compute cfg w)) with
    (rootl := roots w) (c0 := init_core w) (c := core_of st) (u := u); try assumption.
  - intros t p He [Hp|Hp]; destruct (ext_waits_nothing w t Hw He) as (A & B & C).
    + unfold fdeps in Hp. rewrite A in Hp. destruct Hp.
    + unfold fkids in Hp. rewrite C in Hp. destruct Hp.
  - reflexivity.
  - apply under_root_f. exact Hu.
Qed.

Theorem C14_err_cycle_backward_holds cfg w u :
  WFin w -> k_ext (gett w u) = false -> under_root w u -> clos_trans nat (bwaits w) u u -> backward cfg w = Err.
Proof.
  intros Hw Hext Hu Hc. destruct (C14_total_backward_holds cfg w Hw) as [[st H]|H]; [exfalso | exact H].
  destruct (backward_is_run _ _ _ H) as (Hs & Hr & _).
  apply (cycle_excludes_ok w (bdeps w) (bkids w) (bbnd cfg) (bwd_compute cfg w)) with
    (rootl := roots w) (c0 := init_core w) (c := core_of st) (u := u); try assumption.
  - intros t p He [Hp|Hp]; destruct (ext_waits_nothing w t Hw He) as (A & B & C).
    + unfold bdeps in Hp. rewrite B in Hp. destruct Hp.
    + unfold bkids in Hp. rewrite C in Hp. destruct Hp.
  - reflexivity.
  - apply under_root_b. exact Hu.
  - eapply clos_trans_impl; [|exact Hc]. intros a b. apply bwaits_waits.
Qed.

(* the shape of the property text: A is a child of P, A waits for B, B waits for P *)
Theorem C14_err_hierarchy_cycle_forward_holds cfg w A B P :
  WFin w -> k_ext (gett w P) = false -> under_root w P ->
  In A (k_children (gett w P)) -> In B (k_preds (gett w A)) -> In P (k_preds (gett w B)) ->
  forward cfg w = Err.
Proof.
  intros Hw Hext Hu HA HB HP. apply (C14_err_cycle_forward_holds cfg w P Hw Hext Hu).
  eapply t_trans; [apply t_step; right; exact HA|].
  eapply t_trans; apply t_step; left; unfold prereqs; apply in_or_app; left; eassumption.
Qed.

Theorem C14_err_hierarchy_cycle_backward_holds cfg w A B P :
  WFin w -> k_ext (gett w P) = false -> under_root w P ->
  In A (k_children (gett w P)) -> k_parent (gett w A) = Some P ->
  In A (k_succs (gett w B)) -> In B (k_succs (gett w P)) ->
  backward cfg w = Err.
Proof.
  intros Hw Hext Hu HA Hpar HB HP.
  destruct (wfin_children w P A Hw Hext HA) as [HAr HAe].
  apply (C14_err_cycle_backward_holds cfg w A Hw HAe); [eapply ur_kid; eauto|].
  eapply t_trans; apply t_step; left; unfold dependants; apply in_or_app.
  - right. destruct (length w) as [|n] eqn:Hn; [lia|]. simpl. rewrite Hpar. simpl.
    apply in_or_app. left. exact HP.
  - left. exact HB.
Qed.

(* a resource that never becomes available *)
Lemma first_open_never cp dir n d : (forall x, cp x <= 0) -> first_open cp dir n d = None.
Proof.
  intros H. revert d; induction n as [|n IH]; intros d; simpl; [reflexivity|].
  destruct (Z.ltb_spec 0 (cp d)) as [L|_]; [specialize (H d); lia | apply IH].
Qed.

Lemma root_is_member w t : In t (roots w) -> k_ext (gett w t) = false /\ k_parent (gett w t) = None.
Proof.
  unfold roots, members. intros H. apply filter_In in H. destruct H as [H1 H2].
  apply filter_In in H1. destruct H1 as [_ H1]. apply negb_true_iff in H1.
  split; [exact H1|]. destruct (k_parent (gett w t)); [discriminate | reflexivity].
Qed.

Lemma leaf_init_dyn w c t : inv14 w c -> k_ext (gett w t) = false -> ~ In t (c_calc c) ->
  k_children (gett w t) = [] ->
  getdl (c_dy c) t = {| d_start := k_start (gett w t); d_end := k_end (gett w t);
                        d_est := k_est (gett w t); d_spent := k_spent (gett w t) |}.
Proof.
  intros (_ & _ & C) Hext Hn Hl. unfold getdl. rewrite (C t Hn).
  change no_dyn with (init_dyn no_task) at 1. rewrite map_nth. fold (gett w t).
  unfold init_dyn, is_leaf. rewrite Hl, Hext. reflexivity.
Qed.

Theorem C14_err_no_capacity_forward_holds cfg w t rest :
  WFin w -> roots w = t :: rest ->
  k_children (gett w t) = [] -> k_milestone (gett w t) = false -> k_start (gett w t) = None ->
  (forall d, cap cfg (k_res (gett w t)) d <= 0) ->
  forward cfg w = Err.
Proof.
  intros Hw Hroots Hleaf Hm Hs Hcap. unfold forward.
  destruct (negb (isolated_ok w)); [reflexivity|]. destruct (negb (no_future_ends w (now cfg))); [reflexivity|].
  rewrite Hroots. cbn [fold_res]. fold (top_fuel w).
  destruct (root_is_member w t ltac:(rewrite Hroots; left; reflexivity)) as [Hext _].
  assert (E : fwd_pass (top_fuel w) cfg w (init_state w) t = Err); [|rewrite E; reflexivity].
  unfold fwd_pass, top_fuel.
  apply (gpass_stuck_err w (fdeps w) (fkids w) (fbnd cfg) (fwd_compute cfg w)
           (fwd_compute_frame cfg w) (fun ds ds' pre => bound_max_ext (pbound cfg) ds ds' pre) (inv14 w)).
  - intros c u c' Hi Hst. eapply inv14_fstep; eauto.
  - intros c u Hi He. apply fwd_compute_safe; assumption.
  - apply okst_init.
  - exact Hext.
  - intros [].
  - intros [].
  - intros c _ Hi (_ & Hn & _). rewrite fwd_compute_unfold, Hm.
    unfold fwd_start_eq. rewrite (leaf_init_dyn w c t Hi Hext Hn Hleaf). cbn [d_start]. rewrite Hs.
    unfold is_leaf. rewrite Hleaf. unfold fwd_nearest. rewrite first_open_never by exact Hcap. reflexivity.
Qed.

Theorem C14_err_no_capacity_backward_holds cfg w t rest :
  WFin w -> rev (roots w) = t :: rest ->
  k_children (gett w t) = [] -> k_milestone (gett w t) = false -> k_end (gett w t) = None ->
  (forall d, cap cfg (k_res (gett w t)) d <= 0) ->
  backward cfg w = Err.
Proof.
  intros Hw Hroots Hleaf Hm Hs Hcap. unfold backward.
  destruct (negb (isolated_ok w)); [reflexivity|].
  rewrite Hroots. cbn [fold_res]. fold (top_fuel w).
  destruct (root_is_member w t ltac:(apply in_rev; rewrite Hroots; left; reflexivity)) as [Hext _].
  assert (E : bwd_pass (top_fuel w) cfg w (init_state w) t = Err); [|rewrite E; reflexivity].
  unfold bwd_pass, top_fuel.
  apply (gpass_stuck_err w (bdeps w) (bkids w) (bbnd cfg) (bwd_compute cfg w)
           (bwd_compute_frame cfg w) (fun ds ds' pre => bound_min_ext (pbound cfg) ds ds' pre) (inv14 w)).
  - intros c u c' Hi Hst. eapply inv14_bstep; eauto.
  - intros c u Hi He. apply bwd_compute_safe; assumption.
  - apply okst_init.
  - exact Hext.
  - intros [].
  - intros [].
  - intros c _ Hi (_ & Hn & _). rewrite bwd_compute_unfold, Hm.
    unfold bwd_end_eq. rewrite (leaf_init_dyn w c t Hi Hext Hn Hleaf). cbn [d_end]. rewrite Hs.
    unfold is_leaf. rewrite Hleaf. unfold bwd_nearest. rewrite first_open_never by exact Hcap. reflexivity.
Qed.

(* ---------- (c) where an Err comes from, and the converse ---------- *)
(* a state the forward machine can reach in which a task may be calculated and its search is exhausted *)
Definition fstuck (cfg : config) (w : list itask) (c : core) (u : nat) : Prop :=
  fenabled w c u /\ fwd_compute cfg w (c_dy c) (c_lg c) u (fbnd cfg (c_dy c) (fdeps w u)) = Err.
Definition bstuck (cfg : config) (w : list itask) (c : core) (u : nat) : Prop :=
  benabled w c u /\ bwd_compute cfg w (c_dy c) (c_lg c) u (bbnd cfg (c_dy c) (bdeps w u)) = Err.

Theorem C14_err_causes_forward_holds cfg w :
  forward cfg w = Err ->
  isolated_ok w = false \/ no_future_ends w (now cfg) = false
  \/ (exists u, k_ext (gett w u) = false /\ clos_trans nat (fwaits w) u u)
  \/ (exists c u, fsteps cfg w [] (init_core w) c /\ fstuck cfg w c u /\ fwd_search_exhausted cfg w (c_lg c) u).
Proof.
  unfold forward. destruct (isolated_ok w); [|left; reflexivity]. cbn [negb].
  destruct (no_future_ends w (now cfg)); [|right; left; reflexivity]. cbn [negb].
  intros H. right. right. unfold fwd_pass in H.
  destruct (fold_gpass_err_cause w (fdeps w) (fkids w) (fbnd cfg) (fwd_compute cfg w)
              (fwd_compute_frame cfg w) (fun ds ds' pre => bound_max_ext (pbound cfg) ds ds' pre) _ _ _ H eq_refl)
    as [(u & Hu & Hc) | (c & u & Hs & Hen & Hc)].
  - left. exists u. split; [exact Hu | exact Hc].
  - right. exists c, u. split; [exact Hs|]. split; [split; assumption|]. eapply fwd_compute_err_inv; exact Hc.
Qed.

Theorem C14_err_causes_backward_holds cfg w :
  backward cfg w = Err ->
  isolated_ok w = false
  \/ (exists u, k_ext (gett w u) = false /\ clos_trans nat (bwaits w) u u)
  \/ (exists c u, bsteps cfg w [] (init_core w) c /\ bstuck cfg w c u /\ bwd_search_exhausted cfg w (c_lg c) u).
Proof.
  unfold backward. destruct (isolated_ok w); [|left; reflexivity]. cbn [negb].
  intros H. right. unfold bwd_pass in H.
  destruct (fold_gpass_err_cause w (bdeps w) (bkids w) (bbnd cfg) (bwd_compute cfg w)
              (bwd_compute_frame cfg w) (fun ds ds' pre => bound_min_ext (pbound cfg) ds ds' pre) _ _ _ H eq_refl)
    as [(u & Hu & Hc) | (c & u & Hs & Hen & Hc)].
  - left. exists u. split; [exact Hu|]. eapply clos_trans_impl; [|exact Hc]. intros a b. apply bwaits_waits.
  - right. exists c, u. split; [exact Hs|]. split; [split; assumption|]. eapply bwd_compute_err_inv; exact Hc.
Qed.

Theorem C14_complete_forward_holds cfg w :
  WFin w -> isolated_ok w = true -> no_future_ends w (now cfg) = true ->
  (forall u, k_ext (gett w u) = false -> ~ clos_trans nat (fwaits w) u u) ->
  (forall c u, fsteps cfg w [] (init_core w) c -> ~ fstuck cfg w c u) ->
  exists st, forward cfg w = Ok st.
Proof.
  intros Hw Hi Hf Hacyc Hsearch. destruct (C14_total_forward_holds cfg w Hw) as [H|H]; [exact H|].
  exfalso. destruct (C14_err_causes_forward_holds cfg w H) as [E|[E|[(u & Hu & Hc)|(c & u & Hs & Hst & _)]]];
    [congruence | congruence | exact (Hacyc u Hu Hc) | exact (Hsearch c u Hs Hst)].
Qed.

Theorem C14_complete_backward_holds cfg w :
  WFin w -> isolated_ok w = true ->
  (forall u, k_ext (gett w u) = false -> ~ clos_trans nat (bwaits w) u u) ->
  (forall c u, bsteps cfg w [] (init_core w) c -> ~ bstuck cfg w c u) ->
  exists st, backward cfg w = Ok st.
Proof.
  intros Hw Hi Hacyc Hsearch. destruct (C14_total_backward_holds cfg w Hw) as [H|H]; [exact H|].
  exfalso. destruct (C14_err_causes_backward_holds cfg w H) as [E|[(u & Hu & Hc)|(c & u & Hs & Hst & _)]];
    [congruence | exact (Hacyc u Hu Hc) | exact (Hsearch c u Hs Hst)].
Qed.
