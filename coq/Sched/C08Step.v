(* C08, part 2: what the step of the forward machine that calculates a leaf task without user dates
   does: the search skips only days without free capacity, the fill starts on the day found, leaves
   a day only when it is full, and the two dates encode the booked share of the first / last day. *)
From PJ Require Import Base.Prelude Sched.Model Sched.LedgerProofs Sched.Primitives Sched.Machine
     Sched.Instances Sched.C03Proofs Sched.C08Run.

(* the instant a leaf task may start from: latest of project start, prerequisite ends, clock, min_start *)
Definition c08_release (cfg : config) (w : list itask) (ds : list dyn) (t : nat) : Z :=
  Z.max (Z.max (bound_max ds (prereqs w t) (pbound cfg)) (now cfg)) (odflt (k_minstart (gett w t)) 0).

(* the work that is left to reserve *)
Definition c08_left (cfg : config) (w : list itask) (t : nat) : Z :=
  Z.max (odflt (k_est (gett w t)) (dflt_est cfg) - odflt (k_spent (gett w t)) 0) 0.

Lemma c08_fold_max_ge l b : b <= fold_left Z.max l b.
Proof. revert b. induction l as [|x l IH]; intros b; simpl; [lia|]. specialize (IH (Z.max b x)). lia. Qed.

Lemma c08_release_ge cfg w ds t :
  pbound cfg <= c08_release cfg w ds t /\ now cfg <= c08_release cfg w ds t.
Proof.
  unfold c08_release, bound_max.
  pose proof (c08_fold_max_ge (somes (map (fun p => d_end (getdl ds p)) (prereqs w t))) (pbound cfg)). lia.
Qed.

Lemma c08_in_range w t : k_ext (gett w t) = false -> (t < length w)%nat.
Proof.
  intros H. destruct (Nat.lt_ge_cases t (length w)) as [L|G]; [exact L|].
  unfold gett in H. rewrite nth_overflow in H by exact G. discriminate.
Qed.

Record c08_leaf_step (cfg : config) (w : list itask) (c c' : core) (t : nat)
       (d1 s e : Z) (new : list row) : Prop := {
  ls_lg : c_lg c' = new ++ c_lg c;
  ls_start_dyn : d_start (nth t (c_dy c') no_dyn) = Some s;
  ls_end_dyn : d_end (nth t (c_dy c') no_dyn) = Some e;
  (* the first day: not before the release day, has free capacity, earlier days have none *)
  ls_rel : day_of (c08_release cfg w (c_dy c) t) <= d1;
  ls_free : 0 <= used (balance cfg) (c_lg c) (k_res (gett w t)) d1 t < cap cfg (k_res (gett w t)) d1;
  ls_start : s = DAY * d1 + frac (used (balance cfg) (c_lg c) (k_res (gett w t)) d1 t) (cap cfg (k_res (gett w t)) d1);
  ls_start_day : day_of s = d1;
  ls_wait : forall d, day_of (c08_release cfg w (c_dy c) t) <= d < d1 ->
                      used (balance cfg) (c_lg c) (k_res (gett w t)) d t = cap cfg (k_res (gett w t)) d;
  (* the reservations *)
  ls_rows : forall y, In y new -> r_res y = k_res (gett w t) /\ r_task y = t /\ 0 < r_units y /\ d1 <= r_day y;
  ls_sum : sum_units new = c08_left cfg w t;
  ls_nodup : NoDup (map r_day new);
  ls_le : s <= e;
  ls_end : (new = [] /\ e = Z.max (Z.max s (now cfg)) (pbound cfg) /\ day_of e = d1)
           \/ (exists x rest dl,
                 new = x :: rest /\ r_day x = dl /\ (forall y, In y new -> r_day y <= dl)
                 /\ (exists y, In y new /\ r_day y = d1)
                 /\ e = DAY * dl + frac (used (balance cfg) (new ++ c_lg c) (k_res (gett w t)) dl t)
                                        (cap cfg (k_res (gett w t)) dl)
                 /\ 0 < used (balance cfg) (new ++ c_lg c) (k_res (gett w t)) dl t <= cap cfg (k_res (gett w t)) dl
                 /\ forall d, d1 <= d < dl ->
                              used (balance cfg) (new ++ c_lg c) (k_res (gett w t)) d t = cap cfg (k_res (gett w t)) d) }.

Lemma c08_init_leaf k : is_leaf k = true ->
  init_dyn k = {| d_start := k_start k; d_end := k_end k; d_est := k_est k; d_spent := k_spent k |}.
Proof. intros H. unfold init_dyn. rewrite H. simpl. rewrite andb_false_r. reflexivity. Qed.

Lemma c08_step_free_leaf cfg w c t c' :
  cap_nonneg cfg -> c08_inv cfg w c -> fstep cfg w c t c' ->
  is_leaf (gett w t) = true -> k_milestone (gett w t) = false ->
  k_start (gett w t) = None -> k_end (gett w t) = None ->
  exists d1 s e new, c08_leaf_step cfg w c c' t d1 s e new.
Proof.
  intros Hcn Hinv Hs Hleaf Hms Hks Hke.
  pose proof (c08_inv_fstep cfg w c t c' Hinv Hs) as Hinv'.
  destruct Hinv as [[[Hpos Hcap] Hwf] [Hu Hlen]]. destruct Hinv' as [[[Hpos' Hcap'] _] _].
  unfold fstep in Hs. destruct Hs as [c t r0 Hext Hnot _ _ Hc]. destruct r0 as [ds' l'].
  simpl in Hpos', Hcap'. cbn [c_lg c_dy c_calc fst snd].
  assert (Hdn : getdl (c_dy c) t = {| d_start := None; d_end := None; d_est := k_est (gett w t); d_spent := k_spent (gett w t) |}).
  { unfold getdl. rewrite (Hu t Hnot), (c08_init_leaf _ Hleaf), Hks, Hke. reflexivity. }
  apply fwd_compute_inv in Hc. destruct Hc as [[Hm _] | [_ [start [en [est [spent [Hds [E1 [E2 [E3 E4]]]]]]]]]]; [congruence|].
  set (r := k_res (gett w t)) in *. set (l := c_lg c) in *.
  change (fbnd cfg (c_dy c) (fdeps w t)) with (bound_max (c_dy c) (prereqs w t) (pbound cfg)) in E1.
  (* start *)
  unfold fwd_start_eq in E1. rewrite Hdn, Hleaf in E1. cbn [d_start d_end] in E1.
  fold r in E1. fold (c08_release cfg w (c_dy c) t) in E1.
  set (rel := c08_release cfg w (c_dy c) t) in *.
  destruct (fwd_nearest cfg l r t rel) as [s1| |] eqn:En; simpl in E1; try discriminate.
  inversion E1; subst s1. clear E1.
  destruct (fwd_nearest_spec _ _ _ _ _ _ En) as [d1 [Hd1 [Hfree [Hst Hskip]]]]. unfold is_free in Hfree.
  (* amounts *)
  unfold est_eq in E2. rewrite Hdn, Hleaf in E2. cbn [d_est] in E2.
  assert (Hest : est = odflt (k_est (gett w t)) (dflt_est cfg)).
  { destruct (k_est (gett w t)); inversion E2; reflexivity. }
  unfold spent_eq in E3. rewrite Hdn, Hleaf in E3. cbn [d_spent] in E3.
  assert (Hspent : spent = odflt (k_spent (gett w t)) 0).
  { destruct (k_spent (gett w t)); inversion E3; reflexivity. }
  (* end *)
  unfold fwd_end_eq in E4. rewrite Hdn, Hleaf in E4. cbn [d_end] in E4. fold r in E4.
  set (s0 := Z.max (Z.max start (now cfg)) (pbound cfg)) in *.
  destruct (fwd_shift cfg l r t s0 (Z.max (est - spent) 0)) as [[l2 e2]| |] eqn:Esh; simpl in E4; try discriminate.
  inversion E4; subst l2 en. clear E4.
  (* arithmetic of the first day *)
  pose proof (used_nonneg (balance cfg) l r d1 t Hpos) as Hu0.
  assert (Hfr : 0 <= frac (used (balance cfg) l r d1 t) (cap cfg r d1) < DAY).
  { split; [apply frac_nonneg; lia | apply frac_lt; lia]. }
  assert (Hsd : day_of start = d1) by (rewrite Hst; apply day_of_within; lia).
  destruct (c08_release_ge cfg w (c_dy c) t) as [Hrp Hrn]. fold rel in Hrp, Hrn.
  assert (Hs0d : day_of s0 = d1).
  { assert (A : start <= s0) by (unfold s0; lia).
    assert (B : s0 <= start \/ s0 <= rel) by (unfold s0; lia).
    pose proof (day_of_mono _ _ A) as A'. destruct B as [B|B]; pose proof (day_of_mono _ _ B) as B'; lia. }
  assert (Ht : (t < length (c_dy c))%nat) by (rewrite Hlen; apply c08_in_range; exact Hext).
  assert (Hwait : forall d, day_of rel <= d < d1 -> used (balance cfg) l r d t = cap cfg r d).
  { intros d Hd. pose proof (Hcap r d t) as A. pose proof (used_nonneg (balance cfg) l r d t Hpos) as B.
    pose proof (Hcn r d) as C. destruct (Hskip d Hd) as [D|D]; [lia|]. unfold is_free in D. lia. }
  destruct (fwd_shift_spec _ _ _ _ _ _ _ _ Esh ltac:(lia)) as [[Hl0 [-> ->]] | [Hlpos [new [dl [R He2]]]]].
  - (* nothing to reserve *)
    exists d1, start, (Z.max s0 start), []. constructor; cbn [c_lg c_dy c_calc fst snd]; fold r; fold l; try assumption.
    + reflexivity.
    + rewrite Hds, nth_set_nth_same by exact Ht. reflexivity.
    + rewrite Hds, nth_set_nth_same by exact Ht. reflexivity.
    + lia.
    + intros y [].
    + unfold c08_left. rewrite <- Hest, <- Hspent. simpl. lia.
    + simpl. constructor.
    + lia.
    + left. split; [reflexivity|]. assert (Z.max s0 start = s0) as -> by (unfold s0; lia). split; [reflexivity | exact Hs0d].
  - (* a fill starting on day d1 *)
    rewrite Hs0d in R. pose proof (used_last_day _ _ _ _ _ _ _ _ _ _ _ Hpos R) as Hlast.
    destruct R as [Ra Rr Rs Rl Rn Rc Rf Rt].
    replace (d1 - 1 + 1) with d1 in Rf by lia.
    assert (Hrows : forall y, In y new -> r_res y = r /\ r_task y = t /\ 0 < r_units y /\ d1 <= r_day y <= dl).
    { intros y Hy. destruct (Rr y Hy) as [A [B [C [k [Hk [Hd [kl [Hkl Hdl]]]]]]]]. repeat split; try assumption; lia. }
    assert (Hge : used (balance cfg) l r d1 t <= used (balance cfg) l' r d1 t).
    { rewrite Ra, used_app.
      assert (0 <= used (balance cfg) new r d1 t); [|lia].
      apply used_nonneg. intros y Hy. destruct (Hrows y Hy) as [_ [_ [P _]]]. exact P. }
    assert (Hdl : d1 <= dl).
    { destruct Rl as [x [rest [Hn Hx]]]. destruct (Hrows x) as [_ [_ [_ P]]]; [rewrite Hn; left; reflexivity | lia]. }
    assert (Hle : start <= e2).
    { rewrite He2, Hst. destruct (Z.eq_dec dl d1) as [->|Hne].
      - assert (frac (used (balance cfg) l r d1 t) (cap cfg r d1) <= frac (used (balance cfg) l' r d1 t) (cap cfg r d1)); [|lia].
        apply frac_mono; lia.
      - assert (0 <= frac (used (balance cfg) l' r dl t) (cap cfg r dl)) by (apply frac_nonneg; lia).
        unfold DAY in *. nia. }
    exists d1, start, (Z.max e2 start), new. constructor; cbn [c_lg c_dy c_calc fst snd]; fold r; fold l; try assumption.
    + rewrite Hds, nth_set_nth_same by exact Ht. reflexivity.
    + rewrite Hds, nth_set_nth_same by exact Ht. reflexivity.
    + lia.
    + intros y Hy. destruct (Hrows y Hy) as [A [B [C D]]]. repeat split; try assumption; lia.
    + rewrite Rs. unfold c08_left. rewrite <- Hest, <- Hspent. reflexivity.
    + lia.
    + right. destruct Rl as [x [rest [Hn Hx]]]. exists x, rest, dl.
      split; [exact Hn|]. split; [exact Hx|].
      split; [intros y Hy; destruct (Hrows y Hy) as [_ [_ [_ D]]]; lia|].
      split; [apply Rf; exact Hfree|].
      rewrite <- Ra. split; [lia|]. split; [exact Hlast|].
      intros d Hd. pose proof (Hcap' r d t) as A.
      specialize (Rt (Z.to_nat (d - (d1 - 1))) (Z.to_nat (dl - (d1 - 1))) ltac:(lia) ltac:(lia)).
      replace (d1 - 1 + 1 * Z.of_nat (Z.to_nat (d - (d1 - 1)))) with d in Rt by lia. lia.
Qed.
