(* C08, part 15 (balancing off): the run on the table without the tasks of an unrelated set cannot fail
   when the run on the full table succeeds, so the second run of the independence clause need not be
   assumed.  The simulation of C08IndepSetRenSim.v yields the run on the shorter table with the fuel of the
   longer one; a successful pass never nests deeper than the number of table entries (the tasks in progress
   are distinct entries), so the smaller fuel of [forward] on the shorter table is enough. *)
From PJ Require Import Base.Prelude Sched.Model Sched.LedgerProofs Sched.Primitives Sched.Machine
     Sched.Instances Sched.C03Proofs Sched.WfIn Sched.C08Run Sched.C08Step Sched.C08Proofs Sched.C08Indep
     Sched.C08Leaves Sched.C08Check Sched.Check Sched.Oracles Sched.C08Order Sched.C08IndepSim Sched.C08Renumber
     Sched.C08IndepSet Sched.C08IndepSetSim Sched.C08IndepSetRen Sched.C08IndepSetRenSim.

(* ---------- a successful call leaves the list of tasks in progress as it found it ---------- *)
Lemma c08_fold_inprog (f : sst -> nat -> res sst) :
  (forall s a s', f s a = Ok s' -> inprog s' = inprog s) ->
  forall l s s', fold_res f l s = Ok s' -> inprog s' = inprog s.
Proof.
  intros Hf. induction l as [|a l IH]; intros s s' E; simpl in E; [inversion E; reflexivity|].
  destruct (f s a) as [s1| |] eqn:E1; simpl in E; try discriminate.
  rewrite (IH _ _ E). exact (Hf _ _ _ E1).
Qed.

Lemma c08_gpass_inprog cfg w : forall f s v s', c08_fp cfg w f s v = Ok s' -> inprog s' = inprog s.
Proof.
  induction f as [|f IH]; intros s v s' Hg; [discriminate|]. cbn [gpass] in Hg.
  destruct (k_ext (gett w v)); [inversion Hg; reflexivity|].
  destruct (memb v (calc s)); [inversion Hg; reflexivity|].
  destruct (memb v (inprog s)) eqn:Ei; [discriminate|].
  destruct (fold_res (c08_fp cfg w f) (prereqs w v) (enter s v)) as [st2| |] eqn:E2; simpl in Hg; try discriminate.
  destruct (fold_res (c08_fp cfg w f) (k_children (gett w v)) st2) as [st3| |] eqn:E3; simpl in Hg; try discriminate.
  destruct (fwd_compute cfg w (dy st3) (lg st3) v (bound_max (dy st2) (prereqs w v) (pbound cfg))) as [[ds' l']| |] eqn:Ec;
    simpl in Hg; try discriminate.
  inversion Hg; subst s'. cbn [leave inprog].
  rewrite (c08_fold_inprog _ IH _ _ _ E3), (c08_fold_inprog _ IH _ _ _ E2). cbn [enter inprog].
  apply remove_nat_head. apply memb_false. exact Ei.
Qed.

(* ---------- less fuel is enough ---------- *)
Definition c08_inprog_ok (w : list itask) (L : list nat) : Prop :=
  NoDup L /\ forall x, In x L -> (x < length w)%nat.

Lemma c08_fold_keep (g g' : sst -> nat -> res sst) (P : sst -> Prop) :
  (forall s a s', g s a = Ok s' -> P s -> g' s a = Ok s' /\ P s') ->
  forall l s s', fold_res g l s = Ok s' -> P s -> fold_res g' l s = Ok s' /\ P s'.
Proof.
  intros Hg. induction l as [|a l IH]; intros s s' E HP; simpl in *; [inversion E; subst; split; [reflexivity | exact HP]|].
  destruct (g s a) as [s1| |] eqn:E1; simpl in E; try discriminate.
  destruct (Hg _ _ _ E1 HP) as [A B]. rewrite A. simpl. exact (IH _ _ E B).
Qed.

Lemma c08_gpass_less_fuel cfg w : forall f s v s', c08_fp cfg w f s v = Ok s' -> c08_inprog_ok w (inprog s) ->
  forall f', (length w < f' + length (inprog s))%nat -> c08_fp cfg w f' s v = Ok s'.
Proof.
  induction f as [|f IH]; intros s v s' Hg [Hnd Hrg] f' Hf'; [discriminate|].
  destruct f' as [|f'].
  { exfalso. assert (Hincl : incl (inprog s) (seq 0 (length w))) by (intros x Hx; apply in_seq; specialize (Hrg x Hx); lia).
    pose proof (NoDup_incl_length Hnd Hincl) as L. rewrite seq_length in L. lia. }
  cbn [gpass] in Hg |- *.
  destruct (k_ext (gett w v)) eqn:Hext; [exact Hg|]. destruct (memb v (calc s)); [exact Hg|].
  destruct (memb v (inprog s)) eqn:Ei; [discriminate|].
  assert (Hok : c08_inprog_ok w (v :: inprog s)).
  { split; [constructor; [apply memb_false; exact Ei | exact Hnd]|].
    intros x [<-|Hx]; [exact (c08_in_range w v Hext) | exact (Hrg x Hx)]. }
  assert (Hstep : forall s0 a s0', c08_fp cfg w f s0 a = Ok s0' -> inprog s0 = v :: inprog s ->
                    c08_fp cfg w f' s0 a = Ok s0' /\ inprog s0' = v :: inprog s).
  { intros s0 a s0' E P. split; [|rewrite (c08_gpass_inprog cfg w _ _ _ _ E); exact P].
    apply (IH s0 a s0' E); rewrite P; [exact Hok | simpl; lia]. }
  destruct (fold_res (c08_fp cfg w f) (prereqs w v) (enter s v)) as [st2| |] eqn:E2; simpl in Hg; try discriminate.
  destruct (c08_fold_keep _ (c08_fp cfg w f') (fun s0 => inprog s0 = v :: inprog s) Hstep _ _ _ E2 eq_refl) as [A2 P2].
  rewrite A2. cbn [bind].
  destruct (fold_res (c08_fp cfg w f) (k_children (gett w v)) st2) as [st3| |] eqn:E3; simpl in Hg; try discriminate.
  destruct (c08_fold_keep _ (c08_fp cfg w f') (fun s0 => inprog s0 = v :: inprog s) Hstep _ _ _ E3 P2) as [A3 _].
  rewrite A3. cbn [bind]. exact Hg.
Qed.

(* ---------- the two guards of [forward] on the shorter table ---------- *)
Section Guards.
Variable w : list itask.
Variable U : nat -> bool.
Hypothesis H : WFin w.
Hypothesis HU : c08_unrelated w U.

Lemma c08_drop_set_member t : In t (members (c08_drop_set U w)) ->
  exists a, t = c08_rank U a /\ U a = false /\ In a (members w).
Proof.
  unfold members. rewrite c08_drop_set_length, c08_seq_rank. intros Ht. apply filter_In in Ht. destruct Ht as [A B].
  apply in_map_iff in A. destruct A as [a [<- Ha]]. apply filter_In in Ha. destruct Ha as [Ha La].
  unfold c08_live in La. apply negb_true_iff in La. exists a. split; [reflexivity|]. split; [exact La|].
  apply filter_In. split; [exact Ha|]. rewrite (c08_drop_set_gett U w a La) in B. exact B.
Qed.

Lemma c08_drop_set_isolated_ok : isolated_ok w = true -> isolated_ok (c08_drop_set U w) = true.
Proof.
  intros Hi. unfold isolated_ok in *. rewrite forallb_forall in Hi. apply forallb_forall. intros t Ht.
  destruct (c08_drop_set_member t Ht) as [a [-> [Ua Hm]]]. specialize (Hi a Hm). rewrite forallb_forall in Hi.
  rewrite (c08_drop_set_preds w U H HU a Ua). apply forallb_forall. intros p' Hp'.
  apply in_map_iff in Hp'. destruct Hp' as [p [<- Hp]].
  rewrite (c08_drop_set_gett U w p (c08_out_pred w U H HU a p Ua Hp)). exact (Hi p Hp).
Qed.

Lemma c08_drop_set_no_future_ends nw : no_future_ends w nw = true -> no_future_ends (c08_drop_set U w) nw = true.
Proof.
  intros Hi. unfold no_future_ends in *. rewrite forallb_forall in Hi. apply forallb_forall. intros t Ht.
  destruct (c08_drop_set_member t Ht) as [a [-> [Ua Hm]]]. rewrite (c08_drop_set_gett U w a Ua). exact (Hi a Hm).
Qed.
End Guards.

(* ---------- (d) independence for an unrelated set, second run not assumed ---------- *)
Theorem C08_indep_set_total_holds cfg w U st :
  balance cfg = false -> WFin w -> c08_unrelated w U -> forward cfg w = Ok st ->
  exists st3, forward cfg (c08_drop_set U w) = Ok st3
              /\ forall t, U t = false -> getd st t = getd st3 (c08_rank U t).
Proof.
  intros Hb H HU Hf.
  assert (Hex : exists st3, forward cfg (c08_drop_set U w) = Ok st3).
  { unfold forward in Hf |- *.
    destruct (isolated_ok w) eqn:Ei; cbn [negb] in Hf; [|discriminate Hf].
    destruct (no_future_ends w (now cfg)) eqn:En; cbn [negb] in Hf; [|discriminate Hf].
    rewrite (c08_drop_set_isolated_ok w U H HU Ei), (c08_drop_set_no_future_ends w U _ En). cbn [negb].
    unfold fwd_pass in Hf |- *.
    destruct (c08_simU_roots cfg w U _ Hb H HU _ _ _ _ (c08_simU_init w U) Hf) as [s2 [A2 _]].
    destruct (c08_renU_fold U _ _ (c08_renU_gpass w U H HU cfg (S (S (length w))))
                (filter (fun t => negb (U t)) (roots w)) _ _ _
                ltac:(intros a X; apply filter_In in X; destruct X as [_ X]; apply negb_true_iff in X; exact X)
                (c08_renU_init w U H HU) A2) as [s3 [A3 _]].
    rewrite <- (c08_drop_set_roots w U) in A3. exists s3.
    refine (proj1 (c08_fold_keep _ (c08_fp cfg (c08_drop_set U w) (S (S (length (c08_drop_set U w)))))
                     (fun s0 => inprog s0 = []) _ _ _ _ A3 eq_refl)).
    intros s0 a s0' E P. split; [|rewrite (c08_gpass_inprog cfg _ _ _ _ _ E); exact P].
    apply (c08_gpass_less_fuel cfg _ _ _ _ _ E); rewrite P; [split; [constructor | intros x []] | simpl; lia]. }
  destruct Hex as [st3 Hf3]. exists st3. split; [exact Hf3|].
  exact (C08_indep_set_holds cfg w U st st3 Hb H HU Hf Hf3).
Qed.
