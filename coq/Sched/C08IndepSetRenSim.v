(* C08, part 14 (balancing off): the simulation between the run on the blanked table [c08_mask_set U w]
   and the run on the table without the entries of U, remaining tasks renumbered ([c08_drop_set U w]);
   the independence clause for an unrelated set in its final form. *)
From PJ Require Import Base.Prelude Sched.Model Sched.LedgerProofs Sched.Primitives Sched.Machine
     Sched.Instances Sched.C03Proofs Sched.WfIn Sched.C08Run Sched.C08Step Sched.C08Proofs Sched.C08Indep
     Sched.C08Leaves Sched.C08Check Sched.Check Sched.Oracles Sched.C08Order Sched.C08IndepSim Sched.C08Renumber
     Sched.C08IndepSet Sched.C08IndepSetSim Sched.C08IndepSetRen.

Lemma c08_anc_none w v : k_parent (gett w v) = None -> forall n, ancestors w n v = [].
Proof. intros Hp [|n]; simpl; [reflexivity|]. rewrite Hp. reflexivity. Qed.

Section RenSet.
Variable w : list itask.
Variable U : nat -> bool.
Hypothesis H : WFin w.
Hypothesis HU : c08_unrelated w U.

Local Notation sg := (c08_rank U).
Local Notation w3 := (c08_drop_set U w).

(* ---------- what a task waits for, after renumbering ---------- *)
Lemma c08_drop_set_ancestors : forall n v, U v = false ->
  ancestors w3 n (sg v) = map sg (ancestors w n v).
Proof.
  induction n as [|n IH]; intros v Hv; simpl; [reflexivity|].
  rewrite c08_drop_set_gett by exact Hv. cbn [c08_renumber_set k_parent].
  destruct (k_parent (gett w v)) as [p|] eqn:Hp; simpl; [|reflexivity].
  rewrite IH; [reflexivity|]. exact (c08_out_parent w U H HU v p Hv Hp).
Qed.

Lemma c08_live_count n : length (filter (c08_live U) (seq 0 n)) = c08_rank U n.
Proof. rewrite <- (seq_length (c08_rank U n) 0), c08_seq_rank, map_length. reflexivity. Qed.

(* the chain of ancestors of a task outside U fits into the shorter table *)
Lemma c08_anc_short_set v : U v = false ->
  ancestors w (length w3) v = ancestors w (length w) v.
Proof.
  intros Hv. destruct (k_ext (gett w v)) eqn:Hext.
  - pose proof (c08_ext_no_parent w v H Hext) as Hp. rewrite !(c08_anc_none w v Hp). reflexivity.
  - assert (Hn3 : length w3 = c08_rank U (length w)) by apply c08_drop_set_length.
    assert (Hle : (length w3 <= length w)%nat) by (rewrite Hn3; apply c08_rank_from_le).
    symmetry. apply c08_anc_stable; [|exact Hle].
    set (n := length w3) in *.
    pose proof (c08_anc_nodup w H n v Hle Hext) as Hnd.
    destruct (c08_out_ancestors w U H HU n v Hv) as [_ Hlive].
    assert (Hincl : incl (v :: ancestors w n v) (filter (c08_live U) (seq 0 (length w)))).
    { intros a Ha. apply filter_In. destruct Ha as [<-|Ha].
      - split; [apply in_seq; pose proof (c08_in_range w v Hext); lia | unfold c08_live; rewrite Hv; reflexivity].
      - split; [|unfold c08_live; rewrite (Hlive a Ha); reflexivity].
        apply in_seq. pose proof (c08_in_range w a (c08_anc_members w H _ v Hext a Ha)). lia. }
    pose proof (NoDup_incl_length Hnd Hincl) as L. simpl in L. rewrite c08_live_count, <- Hn3 in L. lia.
Qed.

Lemma c08_drop_set_preds a : U a = false -> k_preds (gett w3 (sg a)) = map sg (k_preds (gett w a)).
Proof.
  intros Ha. rewrite c08_drop_set_gett by exact Ha. cbn [c08_renumber_set k_preds].
  rewrite c08_filter_all; [reflexivity|]. intros p Hp. unfold c08_live.
  rewrite (c08_out_pred w U H HU a p Ha Hp). reflexivity.
Qed.

Lemma c08_drop_set_children a : U a = false -> k_children (gett w3 (sg a)) = map sg (k_children (gett w a)).
Proof.
  intros Ha. rewrite c08_drop_set_gett by exact Ha.
  apply (c08_is_leaf_rank U (gett w a)). intros c Hc. exact (c08_out_child w U H HU a c Ha Hc).
Qed.

Lemma c08_drop_set_prereqs v : U v = false -> prereqs w3 (sg v) = map sg (prereqs w v).
Proof.
  intros Hv. unfold prereqs.
  rewrite (c08_drop_set_preds v Hv), (c08_drop_set_ancestors _ v Hv), (c08_anc_short_set v Hv), map_app. f_equal.
  destruct (c08_out_ancestors w U H HU (length w) v Hv) as [_ Hlive].
  induction (ancestors w (length w) v) as [|a l IH]; [reflexivity|]. simpl. rewrite map_app.
  rewrite (c08_drop_set_preds a (Hlive a (or_introl eq_refl))). f_equal.
  apply IH. intros b Hb. apply Hlive. right. exact Hb.
Qed.

(* ---------- the simulation relation ---------- *)
Record c08_renU (s2 s3 : sst) : Prop := {
  rn_dy : forall p, U p = false -> nth (sg p) (dy s3) no_dyn = nth p (dy s2) no_dyn;
  rn_len : length (dy s3) = sg (length (dy s2));
  rn_lg : lg s3 = map (c08_rankrow U) (lg s2);
  rn_lgu : forall x, In x (lg s2) -> U (r_task x) = false;
  rn_calc : calc s3 = map sg (calc s2);
  rn_calcu : forall x, In x (calc s2) -> U x = false;
  rn_inprog : inprog s3 = map sg (inprog s2);
  rn_inu : forall x, In x (inprog s2) -> U x = false }.

Lemma c08_renU_fold (f f3 : sst -> nat -> res sst) :
  (forall s a s' s3, U a = false -> c08_renU s s3 -> f s a = Ok s' ->
      exists s3', f3 s3 (sg a) = Ok s3' /\ c08_renU s' s3') ->
  forall l s s' s3, (forall a, In a l -> U a = false) -> c08_renU s s3 -> fold_res f l s = Ok s' ->
    exists s3', fold_res f3 (map sg l) s3 = Ok s3' /\ c08_renU s' s3'.
Proof.
  intros Hf. induction l as [|a l IH]; intros s s' s3 Hu Hs E; simpl in *.
  - inversion E; subst. exists s3. split; [reflexivity | exact Hs].
  - destruct (f s a) as [s1| |] eqn:E1; simpl in E; try discriminate.
    destruct (Hf s a s1 s3 (Hu a (or_introl eq_refl)) Hs E1) as [s31 [A B]].
    rewrite A. simpl. apply (IH s1 s' s31); [intros b Hb; apply Hu; right; exact Hb | exact B | exact E].
Qed.

Lemma c08_renU_gpass cfg :
  forall fuel s v s' s3, U v = false -> c08_renU s s3 -> c08_fp cfg (c08_mask_set U w) fuel s v = Ok s' ->
    exists s3', c08_fp cfg w3 fuel s3 (sg v) = Ok s3' /\ c08_renU s' s3'.
Proof.
  induction fuel as [|f IH]; intros s v s' s3 Hv Hs Hg; [discriminate|].
  cbn [gpass] in Hg |- *. rewrite (c08_mask_set_gett U w v Hv) in Hg.
  rewrite (c08_drop_set_children v Hv).
  assert (Hext3 : k_ext (gett w3 (sg v)) = k_ext (gett w v)).
  { rewrite c08_drop_set_gett by exact Hv. reflexivity. }
  rewrite Hext3.
  destruct (k_ext (gett w v)). { inversion Hg; subst. exists s3. split; [reflexivity | exact Hs]. }
  rewrite (rn_calc _ _ Hs). rewrite (c08_memb_rank U v _ Hv (rn_calcu _ _ Hs)).
  destruct (memb v (calc s)). { inversion Hg; subst. exists s3. split; [reflexivity | exact Hs]. }
  rewrite (rn_inprog _ _ Hs). rewrite (c08_memb_rank U v _ Hv (rn_inu _ _ Hs)).
  destruct (memb v (inprog s)); [discriminate|].
  rewrite (c08_mask_set_prereqs w U H HU v Hv) in Hg. rewrite (c08_drop_set_prereqs v Hv).
  destruct (fold_res (c08_fp cfg (c08_mask_set U w) f) (prereqs w v) (enter s v)) as [st2| |] eqn:E2; simpl in Hg; try discriminate.
  assert (Hse : c08_renU (enter s v) (enter s3 (sg v))).
  { destruct Hs as [A B C D E F G I]. constructor; simpl; try assumption.
    - rewrite G. reflexivity.
    - intros x [<-|X]; [exact Hv | exact (I x X)]. }
  destruct (c08_renU_fold _ _ IH (prereqs w v) _ _ _ (fun p => c08_out_prereq w U H HU v p Hv) Hse E2) as [st23 [A2 S2]].
  rewrite A2. cbn [bind].
  destruct (fold_res (c08_fp cfg (c08_mask_set U w) f) (k_children (gett w v)) st2) as [st3| |] eqn:E3; simpl in Hg; try discriminate.
  destruct (c08_renU_fold _ _ IH (k_children (gett w v)) _ _ _ (fun c => c08_out_child w U H HU v c Hv) S2 E3) as [st33 [A3 S3]].
  rewrite A3. cbn [bind].
  destruct (fwd_compute cfg (c08_mask_set U w) (dy st3) (lg st3) v (bound_max (dy st2) (prereqs w v) (pbound cfg)))
    as [[ds' l']| |] eqn:Ec; simpl in Hg; try discriminate.
  inversion Hg; subst s'. clear Hg.
  rewrite (c08_bound_max_rank U (dy st2) (dy st23) _ _ (rn_dy _ _ S2) (fun p => c08_out_prereq w U H HU v p Hv)).
  destruct (c08_fwd_compute_rank cfg w U (dy st3) (dy st33) (lg st3) v _ ds' l'
              (fun c => c08_out_child w U H HU v c Hv) Hv (rn_dy _ _ S3) (rn_lgu _ _ S3) Ec) as [x [Eds [Ec3 Hl']]].
  rewrite (rn_lg _ _ S3). rewrite Ec3. cbn [bind]. eexists. split; [reflexivity|].
  destruct S3 as [A B C D E F G I]. constructor; cbn [leave dy lg calc inprog fst snd].
  - subst ds'. apply c08_nth_set_nth_rank; assumption.
  - subst ds'. rewrite !length_set_nth. exact B.
  - reflexivity.
  - exact Hl'.
  - rewrite E. reflexivity.
  - intros y [<-|X]; [exact Hv | exact (F y X)].
  - rewrite G. apply c08_remove_rank; assumption.
  - unfold remove_nat. intros y X. apply filter_In in X. destruct X as [X _]. exact (I y X).
Qed.

(* ---------- the roots ---------- *)
Lemma c08_drop_set_roots : roots w3 = map sg (filter (fun t => negb (U t)) (roots w)).
Proof.
  unfold roots, members. rewrite c08_drop_set_length, c08_seq_rank, !c08_filter_map. f_equal.
  set (nu := fun t => negb (U t)).
  set (m := fun t => negb (k_ext (gett w t))).
  set (r := fun t => match k_parent (gett w t) with Some _ => false | None => true end).
  change (c08_live U) with nu.
  set (L := filter nu (seq 0 (length w))).
  assert (HL : forall p, In p L -> U p = false).
  { intros p Hp. apply filter_In in Hp. destruct Hp as [_ Hp]. apply negb_true_iff in Hp. exact Hp. }
  assert (R : filter nu (filter r (filter m (seq 0 (length w)))) = filter r (filter m L)).
  { rewrite (c08_filter_comm nu r). f_equal. apply (c08_filter_comm nu m). }
  rewrite R.
  rewrite (filter_ext_in (fun a => negb (k_ext (gett w3 (c08_rank U a)))) m L).
  2:{ intros p Hp. rewrite c08_drop_set_gett by (apply HL; exact Hp). reflexivity. }
  apply filter_ext_in. intros p Hp. apply filter_In in Hp. destruct Hp as [Hp _].
  rewrite c08_drop_set_gett by (apply HL; exact Hp). cbn [c08_renumber_set k_parent]. unfold r.
  destruct (k_parent (gett w p)); reflexivity.
Qed.

(* ---------- the initial states ---------- *)
Lemma c08_renU_init : c08_renU (init_state (c08_mask_set U w)) (init_state w3).
Proof.
  constructor; simpl.
  - intros p Hp. rewrite !c08_init_dyn_nth, (c08_mask_set_gett U w p Hp).
    rewrite c08_drop_set_gett by exact Hp. unfold init_dyn.
    destruct (c08_is_leaf_rank U (gett w p) (fun c => c08_out_child w U H HU p c Hp)) as [_ E]. rewrite E. reflexivity.
  - rewrite !map_length, c08_mask_set_length. apply c08_drop_set_length.
  - reflexivity.
  - intros x [].
  - reflexivity.
  - intros x [].
  - reflexivity.
  - intros x [].
Qed.
End RenSet.

(* ---------- (d) independence for an unrelated set with renumbering, balancing off ---------- *)
Theorem C08_indep_set_holds cfg w U st st3 :
  balance cfg = false -> WFin w -> c08_unrelated w U ->
  forward cfg w = Ok st -> forward cfg (c08_drop_set U w) = Ok st3 ->
  forall t, U t = false -> getd st t = getd st3 (c08_rank U t).
Proof.
  intros Hb H HU Hf Hf3 t Ht. unfold forward in Hf, Hf3.
  destruct (isolated_ok w); cbn [negb] in Hf; [|discriminate Hf].
  destruct (no_future_ends w (now cfg)); cbn [negb] in Hf; [|discriminate Hf].
  destruct (isolated_ok (c08_drop_set U w)); cbn [negb] in Hf3; [|discriminate Hf3].
  destruct (no_future_ends (c08_drop_set U w) (now cfg)); cbn [negb] in Hf3; [|discriminate Hf3].
  unfold fwd_pass in Hf, Hf3.
  (* run on the blanked table *)
  destruct (c08_simU_roots cfg w U _ Hb H HU _ _ _ _ (c08_simU_init w U) Hf) as [s2 [A2 B2]].
  (* run on the renumbered table, with the fuel of the first run *)
  destruct (c08_renU_fold U _ _ (c08_renU_gpass w U H HU cfg (S (S (length w))))
              (filter (fun t => negb (U t)) (roots w)) _ _ _
              ltac:(intros a X; apply filter_In in X; destruct X as [_ X]; apply negb_true_iff in X; exact X)
              (c08_renU_init w U H HU) A2) as [s3 [A3 B3]].
  rewrite <- (c08_drop_set_roots w U) in A3.
  assert (Hlen : (length (c08_drop_set U w) <= length w)%nat) by (rewrite c08_drop_set_length; apply c08_rank_from_le).
  pose proof (c08_fold_mono _ (c08_fp cfg (c08_drop_set U w) (S (S (length w))))
                (fun s a s' E => c08_gpass_more_fuel cfg (c08_drop_set U w) (S (S (length (c08_drop_set U w)))) s a s' E
                                   (S (S (length w))) ltac:(lia)) _ _ _ Hf3) as Hf3'.
  rewrite A3 in Hf3'. inversion Hf3'; subst s3.
  unfold getd. rewrite (su_dy _ _ _ B2 t Ht), (rn_dy _ _ _ B3 t Ht). reflexivity.
Qed.

Corollary C08_indep_set_list cfg w us st st3 :
  balance cfg = false -> WFin w -> c08_unrelated_b w us = true ->
  forward cfg w = Ok st -> forward cfg (c08_drop_set (fun t => memb t us) w) = Ok st3 ->
  forall t, ~ In t us -> getd st t = getd st3 (c08_rank (fun t => memb t us) t).
Proof.
  intros Hb H HU Hf Hf3 t Ht.
  apply (C08_indep_set_holds cfg w (fun t => memb t us) st st3 Hb H (c08_unrelated_b_sound w us HU) Hf Hf3).
  apply memb_false. exact Ht.
Qed.
