(* What code 0 of Sched/CapTie.check_captie means: the capacity function [cap_of] the scheduler model and the
   oracles run with IS the calendar model of C17 evaluated on the case's calendar expressions - on the window and
   the two weekly patterns entry by entry, hence (the table being periodic outside) non-negative on every day, and
   the answer of the calendar at ANY instant of a window day is the table entry of that day. *)
From Coq Require Import QArith Lia.
From PJ Require Import Base.Prelude Cal.Calendar Cal.CalendarProofs Cal.CalendarCap Cal.CalendarCapQ.
From PJ Require Import Sched.Model Sched.C03Proofs Sched.Check Sched.CapTie.
Local Open Scope Z_scope.

(* ---- the rational instance of the glue of Cal/CalendarCap.v ---- *)
Lemma nonneg_qcalb_sound c : nonneg_qcalb c = true -> nonneg_qcal c.
Proof.
  apply cal_allb_sound.
  - intros _ _ h H. apply Forall_forall. intros x Hx. rewrite forallb_forall in H. apply Qle_bool_iff. exact (H x Hx).
  - intros m H. apply Forall_forall. intros x Hx. rewrite forallb_forall in H. apply Qle_bool_iff. exact (H x Hx).
  - intros u _ _ H. apply Qle_bool_iff. exact H.
Qed.

Lemma cap_of_qcals_nonneg_at (cs : nat -> qcal) r : nonneg_qcal (cs r) -> forall d, (0 <= cap_of_qcals cs r d)%Q.
Proof.
  intros H d. unfold cap_of_qcals. destruct (qunits (cs r) (DAY * d)) as [v| |k] eqn:E; try apply Qle_refl.
  exact (qunits_nonneg _ _ _ H E).
Qed.

Theorem cap_of_qcals_nonneg (cs : nat -> qcal) : (forall r, nonneg_qcal (cs r)) -> forall r d, (0 <= cap_of_qcals cs r d)%Q.
Proof. intros H r. apply cap_of_qcals_nonneg_at. apply H. Qed.

Lemma cap_of_qcals_any_time_at (cs : nat -> qcal) r :
  aligned_cal (cs r) -> forall t v, qunits (cs r) t = Ok v -> qunits (cs r) t = Ok (cap_of_qcals cs r (day_of t)).
Proof.
  intros H t v E. unfold cap_of_qcals. change (DAY * day_of t) with (day_start t). rewrite <- (qunits_day_start (cs r) H t). rewrite E. reflexivity.
Qed.

Theorem cap_of_qcals_any_time (cs : nat -> qcal) :
  (forall r, aligned_cal (cs r)) ->
  forall r t v, qunits (cs r) t = Ok v -> qunits (cs r) t = Ok (cap_of_qcals cs r (day_of t)).
Proof. intros H r. apply cap_of_qcals_any_time_at. apply H. Qed.

(* ---- the checker ---- *)
Definition in_ext_window (rc : rescal) (d : Z) : Prop :=
  rc_lo rc - 7 <= d < rc_lo rc + Z.of_nat (length (rc_tab rc)) + 7.

Lemma entry_ok_spec k c d v :
  entry_ok k c d v = true -> exists q, qunits c (DAY * d) = Ok q /\ (q * inject_Z k == inject_Z v)%Q.
Proof.
  unfold entry_ok. destruct (qunits c (DAY * d)) as [q| |kk]; try discriminate.
  intro H. exists q. split; [reflexivity | apply Qeq_bool_iff; exact H].
Qed.

(* the entry [cap_of] reads for a day of the window or of the seven days on either side was compared with the model *)
Lemma table_ok_spec k c rs r :
  table_ok k c (nth r rs no_rescal) = true ->
  forall d, in_ext_window (nth r rs no_rescal) d -> entry_ok k c d (cap_of rs r d) = true.
Proof.
  unfold table_ok, in_ext_window, cap_of. set (rc := nth r rs no_rescal).
  intros H d Hd. apply andb_true_iff in H. destruct H as [H Hpost]. apply andb_true_iff in H. destruct H as [Htab Hpre].
  rewrite forallb_forall in Htab, Hpre, Hpost.
  destruct (Z.ltb_spec d (rc_lo rc)) as [A|A].
  - specialize (Hpre (Z.to_nat (d - rc_lo rc + 7))). cbv zeta in Hpre.
    replace (rc_lo rc - 7 + Z.of_nat (Z.to_nat (d - rc_lo rc + 7))) with d in Hpre by lia.
    apply Hpre. apply in_seq. lia.
  - destruct (Z.ltb_spec d (rc_lo rc + Z.of_nat (length (rc_tab rc)))) as [B|B].
    + specialize (Htab (Z.to_nat (d - rc_lo rc))).
      replace (rc_lo rc + Z.of_nat (Z.to_nat (d - rc_lo rc))) with d in Htab by lia.
      apply Htab. apply in_seq. lia.
    + specialize (Hpost (Z.to_nat (d - rc_lo rc - Z.of_nat (length (rc_tab rc))))). cbv zeta in Hpost.
      replace (rc_lo rc + Z.of_nat (length (rc_tab rc)) + Z.of_nat (Z.to_nat (d - rc_lo rc - Z.of_nat (length (rc_tab rc)))))
        with d in Hpost by lia.
      apply Hpost. apply in_seq. lia.
Qed.

(* outside the extended window the table repeats the pattern: every entry [cap_of] can read is one of the compared ones *)
Lemma cap_of_periodic rs r d :
  exists d', in_ext_window (nth r rs no_rescal) d' /\ cap_of rs r d = cap_of rs r d'.
Proof.
  unfold in_ext_window, cap_of. set (rc := nth r rs no_rescal). set (n := Z.of_nat (length (rc_tab rc))).
  assert (Hn : 0 <= n) by (unfold n; lia).
  destruct (Z.ltb_spec d (rc_lo rc)) as [A|A].
  - exists (rc_lo rc - 7 + (d - (rc_lo rc - 7)) mod 7).
    pose proof (Z.mod_pos_bound (d - (rc_lo rc - 7)) 7 ltac:(lia)) as Hm.
    split; [lia|].
    destruct (Z.ltb_spec (rc_lo rc - 7 + (d - (rc_lo rc - 7)) mod 7) (rc_lo rc)) as [A'|A']; [|lia].
    f_equal. f_equal. unfold weekday_of_day.
    rewrite (Z.add_comm (rc_lo rc - 7)), <- Z.add_assoc, Zplus_mod_idemp_l. f_equal. lia.
  - destruct (Z.ltb_spec d (rc_lo rc + n)) as [B|B].
    + exists d. split; [lia|].
      destruct (Z.ltb_spec d (rc_lo rc)) as [A'|A']; [lia|].
      destruct (Z.ltb_spec d (rc_lo rc + n)) as [B'|B']; [reflexivity|lia].
    + exists (rc_lo rc + n + (d - (rc_lo rc + n)) mod 7).
      pose proof (Z.mod_pos_bound (d - (rc_lo rc + n)) 7 ltac:(lia)) as Hm.
      split; [lia|].
      destruct (Z.ltb_spec (rc_lo rc + n + (d - (rc_lo rc + n)) mod 7) (rc_lo rc)) as [A'|A']; [lia|].
      destruct (Z.ltb_spec (rc_lo rc + n + (d - (rc_lo rc + n)) mod 7) (rc_lo rc + n)) as [B'|B']; [lia|].
      f_equal. f_equal. unfold weekday_of_day.
      rewrite (Z.add_comm (rc_lo rc + n)), <- Z.add_assoc, Zplus_mod_idemp_l. f_equal. lia.
Qed.

Lemma first_bad_zero {A} (f : A -> bool) l i : first_bad f l i = 0%nat -> forall x, In x l -> f x = true.
Proof.
  revert i. induction l as [|y l IH]; intros i H x Hx; [destruct Hx|].
  cbn [first_bad] in H. destruct (f y) eqn:E; [|discriminate].
  destruct Hx as [<-|Hx]; [exact E | exact (IH _ H x Hx)].
Qed.

(* the calendars and the tables of a case, by resource number *)
Definition tie_cal (x : option qexpr * rescal) : qcal :=
  match qbuild (the_expr (fst x)) with Ok c => c | _ => Fixed 0%Q None None end.
Definition tie_cals (c : tiecase) : nat -> qcal :=
  fun r => tie_cal (nth r (t_res c) (None, no_rescal)).
Definition tie_tables (c : tiecase) : list rescal := map snd (t_res c).

Lemma tie_tables_nth c r : nth r (tie_tables c) no_rescal = snd (nth r (t_res c) (None, no_rescal)).
Proof. unfold tie_tables. change no_rescal with (snd (@None qexpr, no_rescal)). apply map_nth. Qed.

(* code 0: every expression builds (the model accepts what the library accepted) *)
Theorem captie_builds c r :
  check_captie c = 0%nat -> (r < length (t_res c))%nat ->
  qbuild (the_expr (fst (nth r (t_res c) (None, no_rescal)))) = Ok (tie_cals c r).
Proof.
  intros H Hr. pose proof (first_bad_zero _ _ _ H _ (nth_In _ (None, no_rescal) Hr)) as T.
  unfold tie_ok in T. unfold tie_cals, tie_cal.
  destruct (qbuild _) as [q| |k]; [reflexivity | discriminate | discriminate].
Qed.

(* code 0: on the window and on both weekly patterns the table entry is the model's answer at 00:00, times K *)
Theorem captie_entry c r :
  check_captie c = 0%nat -> (r < length (t_res c))%nat -> aligned_calb (tie_cals c r) = true ->
  forall d, in_ext_window (nth r (tie_tables c) no_rescal) d ->
  exists q, qunits (tie_cals c r) (DAY * d) = Ok q /\
            (q * inject_Z (t_scale c) == inject_Z (cap_of (tie_tables c) r d))%Q.
Proof.
  intros H Hr Ha d Hd. pose proof (first_bad_zero _ _ _ H _ (nth_In _ (None, no_rescal) Hr)) as T.
  unfold tie_ok in T. unfold tie_cals, tie_cal in *.
  destruct (qbuild _) as [q| |k]; try discriminate. rewrite Ha in T.
  rewrite <- tie_tables_nth in T. apply entry_ok_spec. exact (table_ok_spec _ _ _ _ T d Hd).
Qed.

Theorem captie_table_is_model c r :
  check_captie c = 0%nat -> (r < length (t_res c))%nat -> aligned_calb (tie_cals c r) = true ->
  forall d, in_ext_window (nth r (tie_tables c) no_rescal) d ->
  (inject_Z (cap_of (tie_tables c) r d) == cap_of_qcals (tie_cals c) r d * inject_Z (t_scale c))%Q.
Proof.
  intros H Hr Ha d Hd. destruct (captie_entry c r H Hr Ha d Hd) as [q [E Q]].
  unfold cap_of_qcals. rewrite E. symmetry. exact Q.
Qed.

Theorem captie_meaning c r :
  check_captie c = 0%nat -> (r < length (t_res c))%nat ->
  qbuild (the_expr (fst (nth r (t_res c) (None, no_rescal)))) = Ok (tie_cals c r) /\
  (aligned_calb (tie_cals c r) = true ->
   forall d, in_ext_window (nth r (tie_tables c) no_rescal) d ->
   (inject_Z (cap_of (tie_tables c) r d) == cap_of_qcals (tie_cals c) r d * inject_Z (t_scale c))%Q).
Proof. intros H Hr. split; [exact (captie_builds c r H Hr) | exact (captie_table_is_model c r H Hr)]. Qed.

(* ... and the calendar's answer at ANY instant of such a day is that entry: the capacity is a function of the day *)
Theorem captie_any_time c r :
  check_captie c = 0%nat -> (r < length (t_res c))%nat -> aligned_calb (tie_cals c r) = true ->
  forall t, in_ext_window (nth r (tie_tables c) no_rescal) (day_of t) ->
  exists q, qunits (tie_cals c r) t = Ok q /\
            (q * inject_Z (t_scale c) == inject_Z (cap_of (tie_tables c) r (day_of t)))%Q.
Proof.
  intros H Hr Ha t Hd. destruct (captie_entry c r H Hr Ha _ Hd) as [q [E Q]].
  exists q. split; [|exact Q].
  rewrite (qunits_day_start _ (aligned_calb_sound _ Ha) t). exact E.
Qed.

(* the hypothesis [cap_nonneg] of the scheduler theorems, for the harness' own [cap_of], on EVERY day *)
Theorem captie_cap_nonneg c :
  check_captie c = 0%nat -> 0 <= t_scale c ->
  (forall r, (r < length (t_res c))%nat -> aligned_calb (tie_cals c r) = true /\ nonneg_qcalb (tie_cals c r) = true) ->
  forall r d, 0 <= cap_of (tie_tables c) r d.
Proof.
  intros H Hk Hc r d.
  destruct (Nat.lt_ge_cases r (length (t_res c))) as [Hr|Hr].
  - destruct (Hc r Hr) as [Ha Hn].
    destruct (cap_of_periodic (tie_tables c) r d) as [d' [Hd' ->]].
    pose proof (captie_table_is_model c r H Hr Ha d' Hd') as Q.
    pose proof (cap_of_qcals_nonneg_at (tie_cals c) r (nonneg_qcalb_sound _ Hn) d') as N.
    rewrite Zle_Qle. rewrite Q. change (inject_Z 0) with 0%Q.
    apply Qmult_le_0_compat; [exact N|]. change 0%Q with (inject_Z 0). rewrite <- Zle_Qle. exact Hk.
  - unfold cap_of. rewrite (nth_overflow (tie_tables c) no_rescal) by (unfold tie_tables; rewrite map_length; exact Hr).
    cbn [rc_lo rc_tab rc_pre rc_post no_rescal length].
    destruct (d <? 0); [destruct (Z.to_nat (weekday_of_day d)); reflexivity|].
    destruct (d <? 0 + Z.of_nat 0); [destruct (Z.to_nat (d - 0)) | destruct (Z.to_nat (weekday_of_day d))]; reflexivity.
Qed.

(* ... as the scheduler theorems want it: for the configuration the harness builds from the tables *)
Theorem captie_cap_nonneg_config c fwd bal de pb nw :
  check_captie c = 0%nat -> 0 <= t_scale c ->
  (forall r, (r < length (t_res c))%nat -> aligned_calb (tie_cals c r) = true /\ nonneg_qcalb (tie_cals c r) = true) ->
  cap_nonneg (mk_config fwd (tie_tables c) bal de pb nw).
Proof. intros H Hk Hc r d. cbn [cap mk_config]. exact (captie_cap_nonneg c H Hk Hc r d). Qed.

(* non-vacuity: K = 8, window = Mon 2029-01-01 .. Wed 2029-01-03 (day 21550 is a Monday), resource 0 nobody supplied
   (the default Mon-Fri 8 = 64 eighths), resource 1 = (Mon-Fri 8, valid from Tuesday 2029-01-02 00:00) * 0.5 | Saturdays 2;
   before the validity the weekly operand has no information and is skipped: the scalar alone, half a unit, every day *)
Definition tie_example_tables (fri : Z) : list rescal :=
  [ {| rc_lo := 21550; rc_tab := [64; 64; 64]; rc_pre := [64; 64; 64; 64; 64; 0; 0]; rc_post := [64; 64; 64; 64; 64; 0; 0] |};
    {| rc_lo := 21550; rc_tab := [4; 32; 32]; rc_pre := [4; 4; 4; 4; 4; 4; 4]; rc_post := [32; 32; 32; 32; fri; 16; 0] |} ].
Definition tie_example_cal : qexpr :=
  QBinC OpOr (QBinN OpMul (QWeeklyDays (Some (DAY * 21551)) None [0; 1; 2; 3; 4] (8 # 1)) (1 # 2))
             (QWeeklyDict None None [(5, 2 # 1)]).
Definition tie_example (fri : Z) : tiecase :=
  {| t_scale := 8; t_res := combine [None; Some tie_example_cal] (tie_example_tables fri) |}.

Lemma tie_example_ok :
  check_captie (tie_example 32) = 0%nat /\ check_captie (tie_example 64) = 2%nat /\
  (forall r, (r < length (t_res (tie_example 32)))%nat ->
     aligned_calb (tie_cals (tie_example 32) r) = true /\ nonneg_qcalb (tie_cals (tie_example 32) r) = true) /\
  cap_of (tie_tables (tie_example 32)) 1 21550 = 4 /\ cap_of (tie_tables (tie_example 32)) 1 21551 = 32 /\
  cap_of (tie_tables (tie_example 32)) 1 30004 = 16 /\
  cap_nonneg (mk_config true (tie_tables (tie_example 32)) true 0 0 0).
Proof.
  assert (H0 : check_captie (tie_example 32) = 0%nat) by (vm_compute; reflexivity).
  assert (HC : forall r, (r < length (t_res (tie_example 32)))%nat ->
     aligned_calb (tie_cals (tie_example 32) r) = true /\ nonneg_qcalb (tie_cals (tie_example 32) r) = true).
  { intros r Hr. change (length (t_res (tie_example 32))) with 2%nat in Hr.
    destruct r as [|[|r]]; [split; vm_compute; reflexivity | split; vm_compute; reflexivity | exfalso; lia]. }
  split; [exact H0|]. split; [vm_compute; reflexivity|]. split; [exact HC|].
  split; [vm_compute; reflexivity|]. split; [vm_compute; reflexivity|]. split; [vm_compute; reflexivity|].
  apply captie_cap_nonneg_config; [exact H0 | vm_compute; discriminate | exact HC].
Qed.
