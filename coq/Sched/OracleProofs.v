(* The boolean oracles mean what they say (reflection), and the model's own output passes them. *)
From PJ Require Import Base.Prelude Sched.Model Sched.LedgerProofs Sched.Machine Sched.Instances
     Sched.C03Proofs Sched.Check Sched.Oracles.

Definition obs_of (w : list itask) (st : sst) : osch :=
  {| o_tasks := model_tasks w st; o_rows := model_rows st |}.

(* ---------- observed rows vs ledger ---------- *)
Lemma osum_app a b : osum (a ++ b) = osum a + osum b.
Proof. induction a as [|x a IH]; simpl; [reflexivity|]. unfold osum in *. simpl. lia. Qed.

Lemma osum_rev a : osum (rev a) = osum a.
Proof. induction a as [|x a IH]; simpl; [reflexivity|]. rewrite osum_app, IH. unfold osum. simpl. lia. Qed.

Lemma osum_map_row_obs l : osum (map row_obs l) = sum_units l.
Proof. induction l as [|x l IH]; simpl; [reflexivity|]. unfold osum, sum_units in *. simpl. rewrite IH. reflexivity. Qed.

Lemma filter_map_row_obs (f : obs_row -> bool) l :
  filter f (map row_obs l) = map row_obs (filter (fun x => f (row_obs x)) l).
Proof. induction l as [|x l IH]; simpl; [reflexivity|]. destruct (f (row_obs x)); simpl; rewrite IH; reflexivity. Qed.

Lemma filter_rev {A} (f : A -> bool) l : filter f (rev l) = rev (filter f l).
Proof.
  induction l as [|x l IH]; simpl; [reflexivity|].
  rewrite filter_app, IH. simpl. destruct (f x); simpl; [reflexivity | rewrite app_nil_r; reflexivity].
Qed.

Lemma obooked_model l r d : obooked (map row_obs (rev l)) r d = booked l r d.
Proof.
  unfold obooked, booked. rewrite filter_map_row_obs, osum_map_row_obs, filter_rev.
  rewrite <- (osum_map_row_obs (rev _)), map_rev, osum_rev, osum_map_row_obs. reflexivity.
Qed.

Lemma obooked_t_model l r d t : obooked_t (map row_obs (rev l)) r d t = booked_t l r d t.
Proof.
  unfold obooked_t, booked_t. rewrite filter_map_row_obs, osum_map_row_obs, filter_rev.
  rewrite <- (osum_map_row_obs (rev _)), map_rev, osum_rev, osum_map_row_obs. reflexivity.
Qed.

(* ---------- C03 oracle: reflection ---------- *)
Definition c03_statement (cfg : config) (w : list itask) (rows : list obs_row) : Prop :=
  forall x, In x rows ->
    0 < row_units x
    /\ ((row_task x < length w)%nat /\ k_ext (gett w (row_task x)) = false)
    /\ row_res x = k_res (gett w (row_task x))
    /\ 0 < cap cfg (row_res x) (row_day x)
    /\ (if balance cfg then obooked rows (row_res x) (row_day x) <= cap cfg (row_res x) (row_day x)
        else obooked_t rows (row_res x) (row_day x) (row_task x) <= cap cfg (row_res x) (row_day x)).

Theorem c03_b_spec cfg w o : c03_b cfg w o = true <-> c03_statement cfg w (o_rows o).
Proof.
  unfold c03_b, c03_statement. rewrite forallb_forall. split; intros H x Hx; specialize (H x Hx).
  - rewrite !andb_true_iff in H. destruct H as [[[[H1 H2] H3] H4] H5].
    unfold is_member in H2. rewrite andb_true_iff in H2. destruct H2 as [H2a H2b].
    apply Z.ltb_lt in H1. apply Nat.ltb_lt in H2a. apply negb_true_iff in H2b. apply Nat.eqb_eq in H3.
    apply Z.ltb_lt in H4. repeat split; try assumption.
    destruct (balance cfg); apply Z.leb_le; exact H5.
  - destruct H as [H1 [[H2a H2b] [H3 [H4 H5]]]]. rewrite !andb_true_iff. unfold is_member.
    rewrite andb_true_iff. repeat split.
    + apply Z.ltb_lt; exact H1.
    + apply Nat.ltb_lt; exact H2a.
    + apply negb_true_iff; exact H2b.
    + apply Nat.eqb_eq; exact H3.
    + apply Z.ltb_lt; exact H4.
    + destruct (balance cfg); apply Z.leb_le; exact H5.
Qed.

Lemma not_ext_in_range w t : k_ext (gett w t) = false -> (t < length w)%nat.
Proof.
  intros H. destruct (Nat.lt_ge_cases t (length w)) as [L|G]; [exact L|].
  unfold gett in H. rewrite nth_overflow in H by exact G. discriminate.
Qed.

Lemma no_overallocation_obs cfg w l :
  no_overallocation cfg w l -> c03_statement cfg w (map row_obs (rev l)).
Proof.
  intros H x Hx. apply in_map_iff in Hx. destruct Hx as [y [<- Hy]]. apply in_rev in Hy.
  destruct (H y Hy) as [A [B [C [D [E F]]]]]. unfold row_obs, row_units, row_task, row_res, row_day.
  repeat split; try assumption.
  - apply not_ext_in_range. exact B.
  - rewrite obooked_model, obooked_t_model. destruct (balance cfg) eqn:Hb; [apply E | apply F]; reflexivity.
Qed.

(* the model's output always passes the C03 oracle *)
Theorem C03_forward_oracle cfg w st :
  cap_nonneg cfg -> forward cfg w = Ok st -> c03_b cfg w (obs_of w st) = true.
Proof.
  intros Hc H. apply c03_b_spec. simpl. unfold model_rows. apply no_overallocation_obs.
  eapply C03_forward_holds; eauto.
Qed.

Theorem C03_backward_oracle cfg w st :
  cap_nonneg cfg -> backward cfg w = Ok st -> c03_b cfg w (obs_of w st) = true.
Proof.
  intros Hc H. apply c03_b_spec. simpl. unfold model_rows. apply no_overallocation_obs.
  eapply C03_backward_holds; eauto.
Qed.

(* the report clause: per-day totals are sums of rows *)
Theorem c03_report_b_spec o reserved :
  c03_report_b o reserved = true <-> forall r d v, In (r, d, v) reserved -> obooked (o_rows o) r d = v.
Proof.
  unfold c03_report_b. rewrite forallb_forall. split.
  - intros H r d v Hin. specialize (H _ Hin). simpl in H. apply Z.eqb_eq. exact H.
  - intros H [[r d] v] Hin. apply Z.eqb_eq. apply H. exact Hin.
Qed.
