(* The capacity table of a scheduler case IS the calendar model of C17.

   The scheduler harness tabulates the real resource's calendar day by day (Sched/Check.v [rescal]: a window
   plus a weekly pattern before and after it, in units scaled by K) and [cap_of] turns the table into the
   capacity function the scheduler model and the oracles run with.  This checker evaluates, inside Coq, the
   calendar model of C17 (Cal/Calendar.v, exact rational instance of Cal/CalendarCapQ.v) on the calendar
   EXPRESSION of every resource of the case - built through the model's own constructors [mk_*] / [binop], the
   default Monday-Friday calendar of gen/Consts.v for a resource nobody supplied - for every day of the window
   and for the 2 x 7 pattern days, and requires   units (cal r) (DAY * d) * K = table entry of d.
   Definitions only; CapTieProofs.v shows what code 0 means. *)
From Coq Require Import QArith.
From PJ Require Import Base.Prelude Cal.Calendar Cal.CalendarCap Cal.CalendarCapQ Sched.Check.
From PJ Require Import gen.Consts.
Local Open Scope Z_scope.

(* how a calendar is built through the public API (the DSL of harness/props/sched_common.py), amounts as exact rationals *)
Inductive qexpr :=
| QWeeklyDays (st en : option Z) (days : list Z) (u : Q)
| QWeeklyDict (st en : option Z) (m : list (Z * Q))
| QFixed (u : Q) (st en : option Z)
| QDated (m : list (Z * Q))
| QDatedSet (m0 m1 : list (Z * Q))
| QBinC (k : opk) (a b : qexpr)
| QBinN (k : opk) (a : qexpr) (x : Q)
| QNary (k : opk) (cs : list qexpr).

Fixpoint qbuild (e : qexpr) : res qcal :=
  match e with
  | QWeeklyDays st en days u => mk_weekly_days 0%Q qltb st en days u
  | QWeeklyDict st en m => mk_weekly_dict 0%Q qltb st en m
  | QFixed u st en => mk_fixed 0%Q qltb u st en
  | QDated m => mk_dated 0%Q qltb m
  | QDatedSet m0 m1 => do c <- mk_dated 0%Q qltb m0; dated_set 0%Q qltb c m1
  | QBinC k a b => do ca <- qbuild a; do cb <- qbuild b; binop 0%Q qltb qis0 k ca (OCal cb)
  | QBinN k a x => do ca <- qbuild a; binop 0%Q qltb qis0 k ca (ONum x)
  | QNary k cs =>
      do cs' <- (fix go (l : list qexpr) : res (list qcal) :=
                   match l with
                   | [] => Ok []
                   | e :: r => do c <- qbuild e; do r' <- go r; Ok (c :: r')
                   end) cs;
      Ok (nary k cs')
  end.

(* calendar.DEFAULT_CALENDAR = WeeklyCalendar(days=default_weekdays, units_per_day=default_units), read from the source *)
Definition default_qexpr : qexpr := QWeeklyDays None None default_weekdays (inject_Z default_units).
Definition the_expr (o : option qexpr) : qexpr := match o with Some e => e | None => default_qexpr end.

(* boolean twins of [nonneg_cal 0 Qle] and (generic, in CalendarCap.v) [aligned_cal], [div_free] *)
Definition nonneg_qcalb : qcal -> bool :=
  cal_allb (fun _ _ h => forallb (fun x => Qle_bool 0 x) h)
           (fun m => forallb (fun kv => Qle_bool 0 (snd kv)) m)
           (fun u _ _ => Qle_bool 0 u).

(* the table the schedulers are given, as the calendar model defines it: what resource r reports at 00:00 of
   day d (a lookup that raises - only ZeroDivisionError is possible - counts as 0, as in [cap_of_cals]) *)
Definition cap_of_qcals (cs : nat -> qcal) : nat -> Z -> Q :=
  fun r d => match qunits (cs r) (DAY * d) with Ok v => v | _ => 0%Q end.

(* one entry: the model answers, and its answer scaled by K is the tabulated integer *)
Definition entry_ok (k : Z) (c : qcal) (d : Z) (v : Z) : bool :=
  match qunits c (DAY * d) with
  | Ok q => Qeq_bool (q * inject_Z k) (inject_Z v)
  | _ => false
  end.

(* the window, then the seven days before it and the seven days after it (patterns are indexed by weekday) *)
Definition table_ok (k : Z) (c : qcal) (rc : rescal) : bool :=
  let n := Z.of_nat (length (rc_tab rc)) in
  forallb (fun i => entry_ok k c (rc_lo rc + Z.of_nat i) (nth i (rc_tab rc) 0)) (seq 0 (length (rc_tab rc)))
  && forallb (fun j => let d := rc_lo rc - 7 + Z.of_nat j in
                       entry_ok k c d (nth (Z.to_nat (weekday_of_day d)) (rc_pre rc) 0)) (seq 0 7)
  && forallb (fun j => let d := rc_lo rc + n + Z.of_nat j in
                       entry_ok k c d (nth (Z.to_nat (weekday_of_day d)) (rc_post rc) 0)) (seq 0 7).

Record tiecase := {
  t_scale : Z;                                  (* K: table units per unit of work *)
  t_res : list (option qexpr * rescal) }.       (* per resource number: the calendar expression in force
                                                   (None: nobody supplied it), its tabulation *)

(* a resource is tied when its expression builds and - if it is day aligned - the whole tabulation agrees;
   an expression with a validity bound inside a day is outside the scheduler model (its capacity is no
   function of the day): skipped here and counted by [captie_flags] *)
Definition tie_ok (k : Z) (x : option qexpr * rescal) : bool :=
  match qbuild (the_expr (fst x)) with
  | Ok c => if aligned_calb c then table_ok k c (snd x) else true
  | _ => false
  end.

Fixpoint first_bad {A} (f : A -> bool) (l : list A) (i : nat) : nat :=
  match l with
  | [] => 0%nat
  | x :: r => if f x then first_bad f r (S i) else S i
  end.

(* 0 = every resource is tied; 1 + number of the first resource whose table differs from the model otherwise *)
Definition check_captie (c : tiecase) : nat := first_bad (tie_ok (t_scale c)) (t_res c) 0%nat.

(* coverage: how many of the case's calendars are non-negative / day aligned / free of division *)
Definition count_cal (f : qcal -> bool) (c : tiecase) : nat :=
  length (filter (fun x => match qbuild (the_expr (fst x)) with Ok q => f q | _ => false end) (t_res c)).

(* what the harness evaluates: the tie code (< 8) and the three counts (< 8 each) packed in base 8 *)
Definition check_captie_full (c : tiecase) : nat :=
  (Nat.min (check_captie c) 7
   + 8 * (Nat.min (count_cal nonneg_qcalb c) 7
          + 8 * (Nat.min (count_cal aligned_calb c) 7
                 + 8 * Nat.min (count_cal div_freeb c) 7)))%nat.
