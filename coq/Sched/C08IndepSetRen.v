(* C08, part 13 (balancing off): the independence clause for an unrelated set with the tasks of U really
   deleted from the table and the remaining tasks renumbered ([c08_drop_set], [c08_rank]).  This file: the
   renumbering ([c08_rank U p] = number of positions below p that are not in U), the table without the
   entries of U, the ledger with renumbered tasks, one calculation under renumbering.  The simulation
   between the run on the blanked table ([c08_mask_set], C08IndepSetSim.v) and the run on the renumbered
   table is in C08IndepSetRenSim.v. *)
From PJ Require Import Base.Prelude Sched.Model Sched.LedgerProofs Sched.Primitives Sched.Machine
     Sched.Instances Sched.C03Proofs Sched.WfIn Sched.C08Run Sched.C08Step Sched.C08Proofs Sched.C08Indep
     Sched.C08Leaves Sched.C08Check Sched.Check Sched.Oracles Sched.C08Order Sched.C08IndepSim Sched.C08Renumber
     Sched.C08IndepSet.

(* ---------- the renumbering ---------- *)
Fixpoint c08_rank_from (U : nat -> bool) (i v : nat) : nat :=
  match v with
  | O => O
  | S v' => (if U i then 0 else 1) + c08_rank_from U (S i) v'
  end.
Definition c08_rank (U : nat -> bool) (v : nat) : nat := c08_rank_from U 0 v.

Fixpoint c08_keep_from {A} (U : nat -> bool) (i : nat) (l : list A) : list A :=
  match l with
  | [] => []
  | k :: r => if U i then c08_keep_from U (S i) r else k :: c08_keep_from U (S i) r
  end.

Definition c08_live (U : nat -> bool) (p : nat) : bool := negb (U p).

Definition c08_renumber_set (U : nat -> bool) (k : itask) : itask :=
  {| k_parent := option_map (c08_rank U) (k_parent k);
     k_children := map (c08_rank U) (filter (c08_live U) (k_children k));
     k_preds := map (c08_rank U) (filter (c08_live U) (k_preds k));
     k_succs := map (c08_rank U) (filter (c08_live U) (k_succs k));
     k_ext := k_ext k; k_milestone := k_milestone k; k_res := k_res k; k_est := k_est k; k_spent := k_spent k;
     k_start := k_start k; k_end := k_end k; k_minstart := k_minstart k |}.

(* the WBS without the tasks of U: the remaining tasks move down *)
Definition c08_drop_set (U : nat -> bool) (w : list itask) : list itask :=
  map (c08_renumber_set U) (c08_keep_from U 0 w).

Lemma c08_rank_from_S U : forall v i,
  c08_rank_from U i (S v) = (c08_rank_from U i v + (if U (i + v)%nat then 0 else 1))%nat.
Proof.
  induction v as [|v IH]; intros i.
  - simpl. replace (i + 0)%nat with i by lia. destruct (U i); lia.
  - change (c08_rank_from U i (S (S v))) with ((if U i then 0 else 1) + c08_rank_from U (S i) (S v))%nat.
    rewrite IH. replace (S i + v)%nat with (i + S v)%nat by lia. simpl. lia.
Qed.

Lemma c08_rank_from_mono U i : forall v' v, (v <= v')%nat -> (c08_rank_from U i v <= c08_rank_from U i v')%nat.
Proof.
  induction v' as [|v' IH]; intros v Hv.
  - replace v with 0%nat by lia. lia.
  - destruct (Nat.eq_dec v (S v')) as [->|N]; [lia|]. rewrite c08_rank_from_S.
    specialize (IH v ltac:(lia)). lia.
Qed.

Lemma c08_rank_from_strict U i v v' : (v < v')%nat -> U (i + v)%nat = false ->
  (c08_rank_from U i v < c08_rank_from U i v')%nat.
Proof.
  intros Hv Hu. pose proof (c08_rank_from_mono U i v' (S v) ltac:(lia)) as M.
  rewrite c08_rank_from_S, Hu in M. lia.
Qed.

Lemma c08_rank_from_le U : forall v i, (c08_rank_from U i v <= v)%nat.
Proof. induction v as [|v IH]; intros i; simpl; [lia|]. specialize (IH (S i)). destruct (U i); lia. Qed.

Lemma c08_rank_S U v : c08_rank U (S v) = (c08_rank U v + (if U v then 0 else 1))%nat.
Proof. unfold c08_rank. rewrite c08_rank_from_S. reflexivity. Qed.

Lemma c08_rank_strict U v v' : (v < v')%nat -> U v = false -> (c08_rank U v < c08_rank U v')%nat.
Proof. intros A B. apply c08_rank_from_strict; assumption. Qed.

Lemma c08_rank_mono U v v' : (v <= v')%nat -> (c08_rank U v <= c08_rank U v')%nat.
Proof. intros A. apply c08_rank_from_mono. exact A. Qed.

Lemma c08_rank_inj U v v' : U v = false -> U v' = false -> c08_rank U v = c08_rank U v' -> v = v'.
Proof.
  intros A B E. destruct (Nat.lt_trichotomy v v') as [L|[L|L]]; [|exact L|].
  - pose proof (c08_rank_strict U v v' L A). lia.
  - pose proof (c08_rank_strict U v' v L B). lia.
Qed.

Lemma c08_nth_keep {A} (U : nat -> bool) (d : A) : forall l i v, U (i + v)%nat = false ->
  nth (c08_rank_from U i v) (c08_keep_from U i l) d = nth v l d.
Proof.
  induction l as [|k l IH]; intros i v Hu.
  - simpl. destruct v; destruct (c08_rank_from U i _); reflexivity.
  - destruct v as [|v].
    + rewrite Nat.add_0_r in Hu. simpl. rewrite Hu. reflexivity.
    + replace (i + S v)%nat with (S i + v)%nat in Hu by lia. specialize (IH (S i) v Hu).
      simpl. destruct (U i); simpl; exact IH.
Qed.

Lemma c08_length_keep {A} (U : nat -> bool) : forall (l : list A) i,
  length (c08_keep_from U i l) = c08_rank_from U i (length l).
Proof.
  induction l as [|k l IH]; intros i; simpl; [reflexivity|]. destruct (U i); simpl; rewrite IH; reflexivity.
Qed.

Lemma c08_drop_set_length U w : length (c08_drop_set U w) = c08_rank U (length w).
Proof. unfold c08_drop_set. rewrite map_length. apply c08_length_keep. Qed.

Lemma c08_drop_set_gett U w v : U v = false ->
  gett (c08_drop_set U w) (c08_rank U v) = c08_renumber_set U (gett w v).
Proof.
  intros Hv. unfold gett, c08_drop_set. change no_task with (c08_renumber_set U no_task) at 1.
  rewrite map_nth. unfold c08_rank. rewrite c08_nth_keep by exact Hv. reflexivity.
Qed.

(* positions below n that are not in U, renumbered, are the positions below [c08_rank U n] *)
Lemma c08_seq_rank U n : seq 0 (c08_rank U n) = map (c08_rank U) (filter (c08_live U) (seq 0 n)).
Proof.
  induction n as [|n IH]; [reflexivity|]. rewrite seq_S, filter_app, map_app, c08_rank_S, <- IH. simpl.
  unfold c08_live. destruct (U n); simpl.
  - rewrite Nat.add_0_r, app_nil_r. reflexivity.
  - rewrite seq_app. reflexivity.
Qed.

Lemma c08_rank_range U n v : U v = false -> (c08_rank U v < c08_rank U n)%nat <-> (v < n)%nat.
Proof.
  intros Hv. split; intros L.
  - destruct (Nat.lt_ge_cases v n) as [A|A]; [exact A|]. pose proof (c08_rank_mono U n v A). lia.
  - apply c08_rank_strict; assumption.
Qed.

(* ---------- the ledger with renumbered tasks ---------- *)
Definition c08_rankrow (U : nat -> bool) (x : row) : row :=
  {| r_res := r_res x; r_day := r_day x; r_task := c08_rank U (r_task x); r_units := r_units x |}.

Lemma c08_used_rank bal U l r d v : (forall x, In x l -> U (r_task x) = false) -> U v = false ->
  used bal (map (c08_rankrow U) l) r d (c08_rank U v) = used bal l r d v.
Proof.
  intros H Hv. induction l as [|x l IH]; [rewrite !used_nil; reflexivity|]. simpl map. rewrite !used_cons.
  rewrite IH by (intros y Hy; apply H; right; exact Hy). f_equal.
  unfold hits, row_on. cbn [c08_rankrow r_res r_day r_task r_units].
  assert (E : Nat.eqb (c08_rank U (r_task x)) (c08_rank U v) = Nat.eqb (r_task x) v).
  { destruct (Nat.eqb_spec (r_task x) v) as [->|N]; [apply Nat.eqb_refl|]. apply Nat.eqb_neq. intro E.
    apply N. apply (c08_rank_inj U); [apply H; left; reflexivity | exact Hv | exact E]. }
  rewrite E. reflexivity.
Qed.

Lemma c08_fwd_nearest_rank cfg U l r v t0 : (forall x, In x l -> U (r_task x) = false) -> U v = false ->
  fwd_nearest cfg (map (c08_rankrow U) l) r (c08_rank U v) t0 = fwd_nearest cfg l r v t0.
Proof.
  intros H Hv. unfold fwd_nearest.
  destruct (first_open (cap cfg r) 1 (h_search cfg) (day_of t0)) as [d0|]; [|reflexivity].
  rewrite (c08_next_free_ext (cap cfg r) (fun d => used (balance cfg) (map (c08_rankrow U) l) r d (c08_rank U v))
             (fun d => used (balance cfg) l r d v) 1 (h_near cfg) (fun d => c08_used_rank _ U l r d v H Hv) d0).
  destruct (next_free _ _ _ _ _); [|reflexivity]. rewrite c08_used_rank by assumption. reflexivity.
Qed.

Lemma c08_fill_rank cp bal U r v dir n : U v = false -> forall l d left l' dl,
  (forall x, In x l -> U (r_task x) = false) ->
  fill cp bal r v dir n l d left = Ok (l', dl) ->
  fill cp bal r (c08_rank U v) dir n (map (c08_rankrow U) l) d left = Ok (map (c08_rankrow U) l', dl)
  /\ (forall x, In x l' -> U (r_task x) = false).
Proof.
  intros Hv. induction n as [|n IH]; intros l d left l' dl H; simpl; [discriminate|].
  rewrite (c08_used_rank bal U l r (d + dir) v H Hv).
  set (avail := cp (d + dir) - used bal l r (d + dir) v).
  destruct (0 <? avail) eqn:Ea.
  - set (x := {| r_res := r; r_day := d + dir; r_task := v; r_units := Z.min left avail |}).
    assert (Hx : forall y, In y (x :: l) -> U (r_task y) = false) by (intros y [<-|Hy]; [exact Hv | apply H; exact Hy]).
    destruct (0 <? left - Z.min left avail) eqn:El.
    + intros Hf. exact (IH (x :: l) _ _ _ _ Hx Hf).
    + intros Hf. inversion Hf; subst. split; [reflexivity | exact Hx].
  - destruct (0 <? left) eqn:El.
    + intros Hf. exact (IH l _ _ _ _ H Hf).
    + intros Hf. inversion Hf; subst. split; [reflexivity | exact H].
Qed.

Lemma c08_fwd_shift_rank cfg U l r v s0 left l' e : U v = false -> (forall x, In x l -> U (r_task x) = false) ->
  fwd_shift cfg l r v s0 left = Ok (l', e) ->
  fwd_shift cfg (map (c08_rankrow U) l) r (c08_rank U v) s0 left = Ok (map (c08_rankrow U) l', e)
  /\ (forall x, In x l' -> U (r_task x) = false).
Proof.
  intros Hv H. unfold fwd_shift. destruct (left =? 0).
  - intros Hf; inversion Hf; subst. split; [reflexivity | exact H].
  - destruct (fill (cap cfg r) (balance cfg) r v 1 (h_fill cfg) l (day_of s0 - 1) left) as [[la da]| |] eqn:Ef; simpl; try discriminate.
    intros Hf; inversion Hf; subst la e. clear Hf.
    destruct (c08_fill_rank _ _ U _ _ _ _ Hv _ _ _ _ _ H Ef) as [A B]. rewrite A. simpl.
    rewrite (c08_used_rank _ U l' r da v B Hv). split; [reflexivity | exact B].
Qed.

(* ---------- one calculation ---------- *)
Lemma c08_is_leaf_rank U k : (forall c, In c (k_children k) -> U c = false) ->
  k_children (c08_renumber_set U k) = map (c08_rank U) (k_children k)
  /\ is_leaf (c08_renumber_set U k) = is_leaf k.
Proof.
  intros H. assert (E : filter (c08_live U) (k_children k) = k_children k).
  { apply c08_filter_all. intros c Hc. unfold c08_live. rewrite (H c Hc). reflexivity. }
  unfold is_leaf. cbn [c08_renumber_set k_children]. rewrite E. split; [reflexivity|].
  destruct (k_children k); reflexivity.
Qed.

Lemma c08_fwd_compute_rank cfg w U ds2 ds3 l2 v b ds2' l2' :
  (forall c, In c (k_children (gett w v)) -> U c = false) -> U v = false ->
  (forall p, U p = false -> nth (c08_rank U p) ds3 no_dyn = nth p ds2 no_dyn) ->
  (forall x, In x l2 -> U (r_task x) = false) ->
  fwd_compute cfg (c08_mask_set U w) ds2 l2 v b = Ok (ds2', l2') ->
  exists x, ds2' = set_nth ds2 v x
            /\ fwd_compute cfg (c08_drop_set U w) ds3 (map (c08_rankrow U) l2) (c08_rank U v) b
               = Ok (set_nth ds3 (c08_rank U v) x, map (c08_rankrow U) l2')
            /\ (forall y, In y l2' -> U (r_task y) = false).
Proof.
  intros Hch Hv Hds Hl Hc.
  assert (Hk2 : gett (c08_mask_set U w) v = gett w v) by (apply c08_mask_set_gett; exact Hv).
  assert (Hk3 : gett (c08_drop_set U w) (c08_rank U v) = c08_renumber_set U (gett w v)) by (apply c08_drop_set_gett; exact Hv).
  assert (L1 : getdl ds3 (c08_rank U v) = getdl ds2 v) by (unfold getdl; apply Hds; exact Hv).
  destruct (c08_is_leaf_rank U (gett w v) Hch) as [L0 L2].
  assert (L3 : map (getdl ds3) (k_children (c08_renumber_set U (gett w v))) = map (getdl ds2) (k_children (gett w v))).
  { rewrite L0, map_map. apply map_ext_in. intros c Hc'. unfold getdl. apply Hds. exact (Hch c Hc'). }
  apply fwd_compute_inv in Hc. rewrite Hk2 in Hc.
  destruct Hc as [[Hm [-> ->]] | [Hm [start [en [est [spent [-> [E1 [E2 [E3 E4]]]]]]]]]].
  - exists (mkd b b 0 0). split; [reflexivity|]. split; [|exact Hl].
    unfold fwd_compute. rewrite Hk3. cbn [c08_renumber_set k_milestone]. rewrite Hm. reflexivity.
  - assert (E4' : fwd_end_eq cfg (c08_drop_set U w) ds3 (map (c08_rankrow U) l2) (c08_rank U v) start est spent
                  = Ok (map (c08_rankrow U) l2', en) /\ (forall y, In y l2' -> U (r_task y) = false)).
    { unfold fwd_end_eq in E4 |- *. rewrite Hk2 in E4. rewrite Hk3, L1, L2, L3. cbn [c08_renumber_set k_res].
      destruct (d_end (getdl ds2 v)). { inversion E4; subst. split; [reflexivity | exact Hl]. }
      destruct (is_leaf (gett w v)).
      - destruct (fwd_shift cfg l2 (k_res (gett w v)) v _ _) as [[la ea]| |] eqn:Es; simpl in E4; try discriminate.
        inversion E4; subst la en. destruct (c08_fwd_shift_rank cfg U _ _ _ _ _ _ _ Hv Hl Es) as [A B].
        rewrite A. split; [reflexivity | exact B].
      - destruct (somes _); [discriminate|]. inversion E4; subst. split; [reflexivity | exact Hl]. }
    destruct E4' as [E4' Hl'].
    exists (mkd start en est spent). split; [reflexivity|]. split; [|exact Hl'].
    apply c08_fwd_compute_of_parts.
    + rewrite Hk3. exact Hm.
    + rewrite <- E1. unfold fwd_start_eq. rewrite Hk2, Hk3, L1, L2, L3. cbn [c08_renumber_set k_res k_minstart].
      rewrite c08_fwd_nearest_rank by assumption. reflexivity.
    + rewrite <- E2. unfold est_eq. rewrite Hk2, Hk3, L1, L2, L3. reflexivity.
    + rewrite <- E3. unfold spent_eq. rewrite Hk2, Hk3, L1, L2, L3. reflexivity.
    + exact E4'.
Qed.

(* ---------- lists of renumbered tasks ---------- *)
Lemma c08_memb_rank U v l : U v = false -> (forall x, In x l -> U x = false) ->
  memb (c08_rank U v) (map (c08_rank U) l) = memb v l.
Proof.
  intros Hv. unfold memb. induction l as [|a l IH]; intros Hu; [reflexivity|]. simpl.
  rewrite IH by (intros x Hx; apply Hu; right; exact Hx).
  f_equal. destruct (Nat.eqb_spec v a) as [->|N]; [apply Nat.eqb_refl|]. apply Nat.eqb_neq. intro E. apply N.
  apply (c08_rank_inj U); [exact Hv | apply Hu; left; reflexivity | exact E].
Qed.

Lemma c08_remove_rank U v l : U v = false -> (forall x, In x l -> U x = false) ->
  remove_nat (c08_rank U v) (map (c08_rank U) l) = map (c08_rank U) (remove_nat v l).
Proof.
  intros Hv. unfold remove_nat. induction l as [|a l IH]; intros Hu; [reflexivity|]. simpl.
  rewrite IH by (intros x Hx; apply Hu; right; exact Hx).
  assert (E : Nat.eqb (c08_rank U a) (c08_rank U v) = Nat.eqb a v).
  { destruct (Nat.eqb_spec a v) as [->|N]; [apply Nat.eqb_refl|]. apply Nat.eqb_neq. intro E. apply N.
    apply (c08_rank_inj U); [apply Hu; left; reflexivity | exact Hv | exact E]. }
  rewrite E. destruct (negb (Nat.eqb a v)); reflexivity.
Qed.

Lemma c08_nth_set_nth_rank U (ds2 ds3 : list dyn) v x :
  (forall p, U p = false -> nth (c08_rank U p) ds3 no_dyn = nth p ds2 no_dyn) ->
  length ds3 = c08_rank U (length ds2) -> U v = false ->
  forall p, U p = false -> nth (c08_rank U p) (set_nth ds3 (c08_rank U v) x) no_dyn = nth p (set_nth ds2 v x) no_dyn.
Proof.
  intros H Hl Hv p Hp. destruct (Nat.eq_dec p v) as [->|Hpv].
  - destruct (Nat.lt_ge_cases v (length ds2)) as [L|G].
    + rewrite (nth_set_nth_same ds3) by (rewrite Hl; apply c08_rank_range; assumption).
      rewrite (nth_set_nth_same ds2) by exact L. reflexivity.
    + rewrite !nth_overflow; [reflexivity | rewrite length_set_nth; exact G |].
      rewrite length_set_nth, Hl. apply c08_rank_mono. exact G.
  - rewrite !nth_set_nth_other; [apply H; exact Hp | exact Hpv |].
    intro E. apply Hpv. exact (c08_rank_inj U p v Hp Hv E).
Qed.

Lemma c08_bound_max_rank U ds2 ds3 pre b :
  (forall p, U p = false -> nth (c08_rank U p) ds3 no_dyn = nth p ds2 no_dyn) ->
  (forall p, In p pre -> U p = false) ->
  bound_max ds3 (map (c08_rank U) pre) b = bound_max ds2 pre b.
Proof.
  intros H Hu. unfold bound_max. rewrite map_map. f_equal. f_equal. apply map_ext_in. intros p Hp.
  unfold getdl. rewrite H; [reflexivity|]. exact (Hu p Hp).
Qed.
