(* Both schedulers are instances of the abstract machine: frame lemmas, inversion of the two
   compute functions, the top-level runs as machine runs. *)
From PJ Require Import Base.Prelude Sched.Model Sched.LedgerProofs Sched.Machine.

Lemma nth_set_nth_other {A} (l : list A) n m x d : m <> n -> nth m (set_nth l n x) d = nth m l d.
Proof.
  revert n m; induction l as [|a l IH]; intros n m H; simpl; [reflexivity|].
  destruct n as [|n], m as [|m]; simpl; try reflexivity; try lia. apply IH. lia.
Qed.

Lemma nth_set_nth_same {A} (l : list A) n x d : (n < length l)%nat -> nth n (set_nth l n x) d = x.
Proof.
  revert n; induction l as [|a l IH]; intros n H; simpl in *; [lia|].
  destruct n as [|n]; simpl; [reflexivity|]. apply IH. lia.
Qed.

Lemma length_set_nth {A} (l : list A) n x : length (set_nth l n x) = length l.
Proof. revert n; induction l as [|a l IH]; intros [|n]; simpl; auto. Qed.

Definition mkd (s e es sp : Z) : dyn := {| d_start := Some s; d_end := Some e; d_est := Some es; d_spent := Some sp |}.

(* ---------- inversion of fwd_compute: the four binds made explicit ---------- *)
Definition fwd_start_eq (cfg : config) (w : list itask) (ds : list dyn) (l : ledger) (t : nat) (b : Z) : res Z :=
  let k := gett w t in let dn := getdl ds t in
  match d_start dn with
  | Some s => Ok s
  | None =>
      if is_leaf k then
        do s <- fwd_nearest cfg l (k_res k) t (Z.max (Z.max b (now cfg)) (odflt (k_minstart k) 0));
        Ok (match d_end dn with Some e => Z.min s e | None => s end)
      else match somes (map d_start (map (getdl ds) (k_children k))) with
           | [] => Ok 0
           | x :: xs => Ok (fold_left Z.min xs x)
           end
  end.

Definition est_eq (cfg : config) (w : list itask) (ds : list dyn) (t : nat) : res Z :=
  let k := gett w t in
  match d_est (getdl ds t) with
  | Some e => Ok e
  | None => if is_leaf k then Ok (dflt_est cfg) else sum_opts (map d_est (map (getdl ds) (k_children k)))
  end.

Definition spent_eq (w : list itask) (ds : list dyn) (t : nat) : res Z :=
  let k := gett w t in
  match d_spent (getdl ds t) with
  | Some e => Ok e
  | None => if is_leaf k then Ok 0 else sum_opts (map d_spent (map (getdl ds) (k_children k)))
  end.

Definition fwd_end_eq (cfg : config) (w : list itask) (ds : list dyn) (l : ledger) (t : nat)
           (start est spent : Z) : res (ledger * Z) :=
  let k := gett w t in
  match d_end (getdl ds t) with
  | Some e => Ok (l, e)
  | None =>
      if is_leaf k then
        do '(l', e) <- fwd_shift cfg l (k_res k) t (Z.max (Z.max start (now cfg)) (pbound cfg)) (Z.max (est - spent) 0);
        Ok (l', Z.max e start)
      else match somes (map d_end (map (getdl ds) (k_children k))) with
           | [] => Crash ValueError
           | x :: xs => Ok (l, fold_left Z.max xs x)
           end
  end.

Lemma fwd_compute_inv cfg w ds l t b ds' l' :
  fwd_compute cfg w ds l t b = Ok (ds', l') ->
  (k_milestone (gett w t) = true /\ ds' = set_nth ds t (mkd b b 0 0) /\ l' = l)
  \/ (k_milestone (gett w t) = false /\ exists start en est spent,
        ds' = set_nth ds t (mkd start en est spent)
        /\ fwd_start_eq cfg w ds l t b = Ok start
        /\ est_eq cfg w ds t = Ok est /\ spent_eq w ds t = Ok spent
        /\ fwd_end_eq cfg w ds l t start est spent = Ok (l', en)).
Proof.
  unfold fwd_compute. destruct (k_milestone (gett w t)) eqn:Hm.
  - intros H; inversion H; subst. left. repeat split.
  - intros H. right. split; [reflexivity|].
    fold (fwd_start_eq cfg w ds l t b) in H.
    destruct (fwd_start_eq cfg w ds l t b) as [start| |] eqn:E1; simpl in H; try discriminate.
    fold (est_eq cfg w ds t) in H.
    destruct (est_eq cfg w ds t) as [est| |] eqn:E2; simpl in H; try discriminate.
    fold (spent_eq w ds t) in H.
    destruct (spent_eq w ds t) as [spent| |] eqn:E3; simpl in H; try discriminate.
    fold (fwd_end_eq cfg w ds l t start est spent) in H.
    destruct (fwd_end_eq cfg w ds l t start est spent) as [[l2 en]| |] eqn:E4; simpl in H; try discriminate.
    inversion H; subst. exists start, en, est, spent. repeat split; assumption.
Qed.

(* ---------- inversion of bwd_compute ---------- *)
Definition bwd_end_eq (cfg : config) (w : list itask) (ds : list dyn) (l : ledger) (t : nat) (b : Z) : res Z :=
  let k := gett w t in
  match d_end (getdl ds t) with
  | Some e => Ok e
  | None =>
      if is_leaf k then bwd_nearest cfg l (k_res k) t b
      else match somes (map d_end (map (getdl ds) (k_children k))) with
           | [] => Ok b
           | x :: xs => Ok (fold_left Z.max xs x)
           end
  end.

Definition bwd_start_eq (cfg : config) (w : list itask) (ds : list dyn) (l : ledger) (t : nat) (b : Z)
           (en est spent : Z) : res (ledger * Z) :=
  let k := gett w t in
  if is_leaf k then
    do '(l', s) <- bwd_shift cfg l (k_res k) t (Z.min en b) (Z.max (est - spent) 0);
    Ok (l', match d_start (getdl ds t) with Some s0 => Z.min s0 s | None => s end)
  else match somes (map d_start (map (getdl ds) (k_children k))) with
       | [] => Crash ValueError
       | x :: xs => Ok (l, fold_left Z.min xs x)
       end.

Lemma bwd_compute_inv cfg w ds l t b ds' l' :
  bwd_compute cfg w ds l t b = Ok (ds', l') ->
  (k_milestone (gett w t) = true /\ ds' = set_nth ds t (mkd b b 0 0) /\ l' = l)
  \/ (k_milestone (gett w t) = false /\ exists start en est spent,
        ds' = set_nth ds t (mkd start en est spent)
        /\ bwd_end_eq cfg w ds l t b = Ok en
        /\ est_eq cfg w ds t = Ok est /\ spent_eq w ds t = Ok spent
        /\ bwd_start_eq cfg w ds l t b en est spent = Ok (l', start)).
Proof.
  unfold bwd_compute. destruct (k_milestone (gett w t)) eqn:Hm.
  - intros H; inversion H; subst. left. repeat split.
  - intros H. right. split; [reflexivity|].
    fold (bwd_end_eq cfg w ds l t b) in H.
    destruct (bwd_end_eq cfg w ds l t b) as [en| |] eqn:E1; simpl in H; try discriminate.
    fold (est_eq cfg w ds t) in H.
    destruct (est_eq cfg w ds t) as [est| |] eqn:E2; simpl in H; try discriminate.
    fold (spent_eq w ds t) in H.
    destruct (spent_eq w ds t) as [spent| |] eqn:E3; simpl in H; try discriminate.
    fold (bwd_start_eq cfg w ds l t b en est spent) in H.
    destruct (bwd_start_eq cfg w ds l t b en est spent) as [[l2 start]| |] eqn:E4; simpl in H; try discriminate.
    inversion H; subst. exists start, en, est, spent. repeat split; assumption.
Qed.

(* ---------- frame ---------- *)
Lemma fwd_compute_frame cfg w ds l t b ds' l' :
  fwd_compute cfg w ds l t b = Ok (ds', l') -> forall p, p <> t -> nth p ds' no_dyn = nth p ds no_dyn.
Proof.
  intros H p Hp. apply fwd_compute_inv in H.
  destruct H as [[_ [-> _]] | [_ [s [e [es [sp [-> _]]]]]]]; apply nth_set_nth_other; exact Hp.
Qed.

Lemma bwd_compute_frame cfg w ds l t b ds' l' :
  bwd_compute cfg w ds l t b = Ok (ds', l') -> forall p, p <> t -> nth p ds' no_dyn = nth p ds no_dyn.
Proof.
  intros H p Hp. apply bwd_compute_inv in H.
  destruct H as [[_ [-> _]] | [_ [s [e [es [sp [-> _]]]]]]]; apply nth_set_nth_other; exact Hp.
Qed.

Lemma map_ext_in_nth (f : dyn -> option Z) ds ds' pre :
  (forall p, In p pre -> nth p ds' no_dyn = nth p ds no_dyn) ->
  map (fun p => f (getdl ds' p)) pre = map (fun p => f (getdl ds p)) pre.
Proof. intros H. apply map_ext_in. intros p Hp. unfold getdl. rewrite (H p Hp). reflexivity. Qed.

Lemma bound_max_ext b ds ds' pre :
  (forall p, In p pre -> nth p ds' no_dyn = nth p ds no_dyn) -> bound_max ds' pre b = bound_max ds pre b.
Proof. intros H. unfold bound_max. rewrite (map_ext_in_nth d_end _ _ _ H). reflexivity. Qed.

Lemma bound_min_ext b ds ds' pre :
  (forall p, In p pre -> nth p ds' no_dyn = nth p ds no_dyn) -> bound_min ds' pre b = bound_min ds pre b.
Proof. intros H. unfold bound_min. rewrite (map_ext_in_nth d_start _ _ _ H). reflexivity. Qed.

(* ---------- the machines of the two schedulers ---------- *)
Definition fdeps (w : list itask) := prereqs w.
Definition fkids (w : list itask) := fun t => k_children (gett w t).
Definition fbnd (cfg : config) := fun ds pre => bound_max ds pre (pbound cfg).
Definition bdeps (w : list itask) := dependants w.
Definition bkids (w : list itask) := fun t => rev (k_children (gett w t)).
Definition bbnd (cfg : config) := fun ds pre => bound_min ds pre (pbound cfg).

Definition fstep cfg w := gstep w (fdeps w) (fkids w) (fbnd cfg) (fwd_compute cfg w).
Definition fsteps cfg w := gsteps w (fdeps w) (fkids w) (fbnd cfg) (fwd_compute cfg w).
Definition bstep cfg w := gstep w (bdeps w) (bkids w) (bbnd cfg) (bwd_compute cfg w).
Definition bsteps cfg w := gsteps w (bdeps w) (bkids w) (bbnd cfg) (bwd_compute cfg w).

Definition init_core (w : list itask) : core := {| c_dy := map init_dyn w; c_lg := []; c_calc := [] |}.

Theorem forward_is_run cfg w st :
  forward cfg w = Ok st ->
  fsteps cfg w [] (init_core w) (core_of st)
  /\ (forall t, In t (roots w) -> ready w (core_of st) t)
  /\ isolated_ok w = true /\ no_future_ends w (now cfg) = true.
Proof.
  intros H. unfold forward in H.
  destruct (isolated_ok w); cbn [negb] in H; [|discriminate H].
  destruct (no_future_ends w (now cfg)); cbn [negb] in H; [|discriminate H].
  unfold fwd_pass in H.
  destruct (fold_gpass_refines w (fdeps w) (fkids w) (fbnd cfg) (fwd_compute cfg w)
              (fwd_compute_frame cfg w) (fun ds ds' pre => bound_max_ext (pbound cfg) ds ds' pre) _ _ _ _ H) as [A B].
  repeat split; assumption.
Qed.

Theorem backward_is_run cfg w st :
  backward cfg w = Ok st ->
  bsteps cfg w [] (init_core w) (core_of st)
  /\ (forall t, In t (roots w) -> ready w (core_of st) t)
  /\ isolated_ok w = true.
Proof.
  intros H. unfold backward in H.
  destruct (isolated_ok w); cbn [negb] in H; [|discriminate H].
  unfold bwd_pass in H.
  destruct (fold_gpass_refines w (bdeps w) (bkids w) (bbnd cfg) (bwd_compute cfg w)
              (bwd_compute_frame cfg w) (fun ds ds' pre => bound_min_ext (pbound cfg) ds ds' pre) _ _ _ _ H) as [A B].
  repeat split; try assumption. intros t Ht. apply B. apply -> in_rev. exact Ht.
Qed.
