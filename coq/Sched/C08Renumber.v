(* C08, part 10 (balancing off): the independence clause with the removed task really deleted from
   the table and the later tasks renumbered ([c08_drop_task]).  A second simulation, between the run
   on the blanked table ([c08_mask], C08IndepSim.v) and the run on the renumbered table. *)
From PJ Require Import Base.Prelude Sched.Model Sched.LedgerProofs Sched.Primitives Sched.Machine
     Sched.Instances Sched.C03Proofs Sched.WfIn Sched.C08Run Sched.C08Step Sched.C08Proofs Sched.C08Indep
     Sched.C08Leaves Sched.C08Check Sched.Check Sched.Oracles Sched.C08Order Sched.C08IndepSim.

(* ---------- the renumbering ---------- *)
Definition c08_unshift (u q : nat) : nat := if (q <? u)%nat then q else S q.

Lemma c08_shift_unshift u q : c08_shift u (c08_unshift u q) = q.
Proof.
  unfold c08_shift, c08_unshift. destruct (Nat.ltb_spec q u) as [A|A].
  - destruct (Nat.ltb_spec q u); [reflexivity | lia].
  - destruct (Nat.ltb_spec (S q) u); [lia | reflexivity].
Qed.

Lemma c08_unshift_shift u p : p <> u -> c08_unshift u (c08_shift u p) = p.
Proof.
  intros H. unfold c08_shift, c08_unshift. destruct (Nat.ltb_spec p u) as [A|A].
  - destruct (Nat.ltb_spec p u); [reflexivity | lia].
  - destruct (Nat.ltb_spec (Nat.pred p) u); lia.
Qed.

Lemma c08_unshift_neq u q : c08_unshift u q <> u.
Proof. unfold c08_unshift. destruct (Nat.ltb_spec q u); lia. Qed.

Lemma c08_shift_inj u p p' : p <> u -> p' <> u -> c08_shift u p = c08_shift u p' -> p = p'.
Proof. intros A B E. rewrite <- (c08_unshift_shift u p A), <- (c08_unshift_shift u p' B), E. reflexivity. Qed.

Lemma c08_nth_drop {A} (l : list A) d : forall u q,
  nth q (firstn u l ++ skipn (S u) l) d = nth (c08_unshift u q) l d.
Proof.
  induction l as [|a l IH]; intros u q.
  - rewrite firstn_nil, skipn_nil. simpl. destruct (c08_unshift u q); destruct q; reflexivity.
  - destruct u as [|u].
    + simpl. unfold c08_unshift. simpl. reflexivity.
    + destruct q as [|q]; [reflexivity|]. simpl firstn. simpl skipn. simpl app. simpl nth at 1. rewrite IH.
      unfold c08_unshift. change (S q <? S u)%nat with (q <? u)%nat. destruct (q <? u)%nat; reflexivity.
Qed.

Lemma c08_drop_gett u w q : gett (c08_drop_task u w) q = c08_renumber u (gett w (c08_unshift u q)).
Proof.
  unfold gett, c08_drop_task. change no_task with (c08_renumber u no_task) at 1.
  rewrite map_nth, c08_nth_drop. reflexivity.
Qed.

Lemma c08_drop_gett_shift u w v : v <> u -> gett (c08_drop_task u w) (c08_shift u v) = c08_renumber u (gett w v).
Proof. intros H. rewrite c08_drop_gett, c08_unshift_shift by exact H. reflexivity. Qed.

Lemma c08_drop_length u w : (u < length w)%nat -> S (length (c08_drop_task u w)) = length w.
Proof.
  intros H. unfold c08_drop_task. rewrite map_length, app_length, firstn_length, skipn_length. lia.
Qed.

Lemma c08_is_leaf_ren u k : ~ In u (k_children k) -> is_leaf (c08_renumber u k) = is_leaf k.
Proof.
  intros H. unfold is_leaf. cbn [c08_renumber k_children]. rewrite remove_nat_notin by exact H.
  destruct (k_children k); reflexivity.
Qed.

(* ---------- the ledger with renumbered tasks ---------- *)
Definition c08_shiftrow (u : nat) (x : row) : row :=
  {| r_res := r_res x; r_day := r_day x; r_task := c08_shift u (r_task x); r_units := r_units x |}.

Lemma c08_used_shift bal u l r d v : (forall x, In x l -> r_task x <> u) -> v <> u ->
  used bal (map (c08_shiftrow u) l) r d (c08_shift u v) = used bal l r d v.
Proof.
  intros H Hv. induction l as [|x l IH]; [rewrite !used_nil; reflexivity|]. simpl map. rewrite !used_cons.
  rewrite IH by (intros y Hy; apply H; right; exact Hy). f_equal.
  unfold hits, row_on. cbn [c08_shiftrow r_res r_day r_task r_units].
  assert (E : Nat.eqb (c08_shift u (r_task x)) (c08_shift u v) = Nat.eqb (r_task x) v).
  { destruct (Nat.eqb_spec (r_task x) v) as [->|N]; [apply Nat.eqb_refl|]. apply Nat.eqb_neq. intro E.
    apply N. apply (c08_shift_inj u); [apply H; left; reflexivity | exact Hv | exact E]. }
  rewrite E. reflexivity.
Qed.

Lemma c08_fwd_nearest_ren cfg u l r v t0 : (forall x, In x l -> r_task x <> u) -> v <> u ->
  fwd_nearest cfg (map (c08_shiftrow u) l) r (c08_shift u v) t0 = fwd_nearest cfg l r v t0.
Proof.
  intros H Hv. unfold fwd_nearest.
  destruct (first_open (cap cfg r) 1 (h_search cfg) (day_of t0)) as [d0|]; [|reflexivity].
  rewrite (c08_next_free_ext (cap cfg r) (fun d => used (balance cfg) (map (c08_shiftrow u) l) r d (c08_shift u v))
             (fun d => used (balance cfg) l r d v) 1 (h_near cfg) (fun d => c08_used_shift _ u l r d v H Hv) d0).
  destruct (next_free _ _ _ _ _); [|reflexivity]. rewrite c08_used_shift by assumption. reflexivity.
Qed.

Lemma c08_fill_ren cp bal u r v dir n : v <> u -> forall l d left l' dl,
  (forall x, In x l -> r_task x <> u) ->
  fill cp bal r v dir n l d left = Ok (l', dl) ->
  fill cp bal r (c08_shift u v) dir n (map (c08_shiftrow u) l) d left = Ok (map (c08_shiftrow u) l', dl)
  /\ (forall x, In x l' -> r_task x <> u).
Proof.
  intros Hv. induction n as [|n IH]; intros l d left l' dl H; simpl; [discriminate|].
  rewrite (c08_used_shift bal u l r (d + dir) v H Hv).
  set (avail := cp (d + dir) - used bal l r (d + dir) v).
  destruct (0 <? avail) eqn:Ea.
  - set (x := {| r_res := r; r_day := d + dir; r_task := v; r_units := Z.min left avail |}).
    assert (Hx : forall y, In y (x :: l) -> r_task y <> u) by (intros y [<-|Hy]; [exact Hv | apply H; exact Hy]).
    destruct (0 <? left - Z.min left avail) eqn:El.
    + intros Hf. exact (IH (x :: l) _ _ _ _ Hx Hf).
    + intros Hf. inversion Hf; subst. split; [reflexivity | exact Hx].
  - destruct (0 <? left) eqn:El.
    + intros Hf. exact (IH l _ _ _ _ H Hf).
    + intros Hf. inversion Hf; subst. split; [reflexivity | exact H].
Qed.

Lemma c08_fwd_shift_ren cfg u l r v s0 left l' e : v <> u -> (forall x, In x l -> r_task x <> u) ->
  fwd_shift cfg l r v s0 left = Ok (l', e) ->
  fwd_shift cfg (map (c08_shiftrow u) l) r (c08_shift u v) s0 left = Ok (map (c08_shiftrow u) l', e)
  /\ (forall x, In x l' -> r_task x <> u).
Proof.
  intros Hv H. unfold fwd_shift. destruct (left =? 0).
  - intros Hf; inversion Hf; subst. split; [reflexivity | exact H].
  - destruct (fill (cap cfg r) (balance cfg) r v 1 (h_fill cfg) l (day_of s0 - 1) left) as [[la da]| |] eqn:Ef; simpl; try discriminate.
    intros Hf; inversion Hf; subst la e. clear Hf.
    destruct (c08_fill_ren _ _ u _ _ _ _ Hv _ _ _ _ _ H Ef) as [A B]. rewrite A. simpl.
    rewrite (c08_used_shift _ u l' r da v B Hv). split; [reflexivity | exact B].
Qed.

(* ---------- one calculation ---------- *)
Lemma c08_fwd_compute_ren cfg w u ds2 ds3 l2 v b ds2' l2' :
  ~ In u (k_children (gett w v)) -> v <> u ->
  (forall q, nth q ds3 no_dyn = nth (c08_unshift u q) ds2 no_dyn) ->
  (forall x, In x l2 -> r_task x <> u) ->
  fwd_compute cfg (c08_mask u w) ds2 l2 v b = Ok (ds2', l2') ->
  exists x, ds2' = set_nth ds2 v x
            /\ fwd_compute cfg (c08_drop_task u w) ds3 (map (c08_shiftrow u) l2) (c08_shift u v) b
               = Ok (set_nth ds3 (c08_shift u v) x, map (c08_shiftrow u) l2')
            /\ (forall y, In y l2' -> r_task y <> u).
Proof.
  intros Hch Hv Hds Hl Hc.
  assert (Hk2 : gett (c08_mask u w) v = gett w v) by (apply c08_mask_gett; exact Hv).
  assert (Hk3 : gett (c08_drop_task u w) (c08_shift u v) = c08_renumber u (gett w v)) by (apply c08_drop_gett_shift; exact Hv).
  assert (L1 : getdl ds3 (c08_shift u v) = getdl ds2 v).
  { unfold getdl. rewrite Hds, c08_unshift_shift by exact Hv. reflexivity. }
  assert (L3 : map (getdl ds3) (k_children (c08_renumber u (gett w v))) = map (getdl ds2) (k_children (gett w v))).
  { cbn [c08_renumber k_children]. rewrite remove_nat_notin by exact Hch. rewrite map_map. apply map_ext_in.
    intros c Hc'. unfold getdl. rewrite Hds, c08_unshift_shift; [reflexivity|]. intros ->. exact (Hch Hc'). }
  pose proof (c08_is_leaf_ren u (gett w v) Hch) as L2.
  apply fwd_compute_inv in Hc. rewrite Hk2 in Hc.
  destruct Hc as [[Hm [-> ->]] | [Hm [start [en [est [spent [-> [E1 [E2 [E3 E4]]]]]]]]]].
  - exists (mkd b b 0 0). split; [reflexivity|]. split; [|exact Hl].
    unfold fwd_compute. rewrite Hk3. cbn [c08_renumber k_milestone]. rewrite Hm. reflexivity.
  - assert (E4' : fwd_end_eq cfg (c08_drop_task u w) ds3 (map (c08_shiftrow u) l2) (c08_shift u v) start est spent
                  = Ok (map (c08_shiftrow u) l2', en) /\ (forall y, In y l2' -> r_task y <> u)).
    { unfold fwd_end_eq in E4 |- *. rewrite Hk2 in E4. rewrite Hk3, L1, L2, L3. cbn [c08_renumber k_res].
      destruct (d_end (getdl ds2 v)). { inversion E4; subst. split; [reflexivity | exact Hl]. }
      destruct (is_leaf (gett w v)).
      - destruct (fwd_shift cfg l2 (k_res (gett w v)) v _ _) as [[la ea]| |] eqn:Es; simpl in E4; try discriminate.
        inversion E4; subst la en. destruct (c08_fwd_shift_ren cfg u _ _ _ _ _ _ _ Hv Hl Es) as [A B].
        rewrite A. split; [reflexivity | exact B].
      - destruct (somes _); [discriminate|]. inversion E4; subst. split; [reflexivity | exact Hl]. }
    destruct E4' as [E4' Hl'].
    exists (mkd start en est spent). split; [reflexivity|]. split; [|exact Hl'].
    apply c08_fwd_compute_of_parts.
    + rewrite Hk3. exact Hm.
    + rewrite <- E1. unfold fwd_start_eq. rewrite Hk2, Hk3, L1, L2, L3. cbn [c08_renumber k_res k_minstart].
      rewrite c08_fwd_nearest_ren by assumption. reflexivity.
    + rewrite <- E2. unfold est_eq. rewrite Hk2, Hk3, L1, L2, L3. reflexivity.
    + rewrite <- E3. unfold spent_eq. rewrite Hk2, Hk3, L1, L2, L3. reflexivity.
    + exact E4'.
Qed.

(* ---------- what a task waits for, after renumbering ---------- *)
Lemma c08_ext_no_parent w z : WFin w -> k_ext (gett w z) = true -> k_parent (gett w z) = None.
Proof.
  intros H Hext. destruct (Nat.lt_ge_cases z (length w)) as [L|G].
  - unfold WFin, wfin_b in H. rewrite forallb_forall in H. specialize (H z ltac:(apply in_seq; lia)).
    unfold is_ext in H. rewrite Hext in H. unfold wfin_ext_b in H.
    destruct (k_parent (gett w z)); [discriminate | reflexivity].
  - unfold gett. rewrite nth_overflow by exact G. reflexivity.
Qed.

Lemma c08_drop_ancestors w u : WFin w -> c08_isolated w u -> forall n v, v <> u ->
  ancestors (c08_drop_task u w) n (c08_shift u v) = map (c08_shift u) (ancestors w n v).
Proof.
  intros H Hi. induction n as [|n IH]; intros v Hv; simpl; [reflexivity|].
  rewrite c08_drop_gett_shift by exact Hv. cbn [c08_renumber k_parent].
  destruct (k_parent (gett w v)) as [p|] eqn:Hp; simpl; [|reflexivity].
  rewrite IH; [reflexivity|]. intros ->. exact (c08_iso_not_parent w u v H Hi Hp).
Qed.

Lemma c08_anc_stable w : forall n m v, (length (ancestors w n v) < n)%nat -> (n <= m)%nat ->
  ancestors w m v = ancestors w n v.
Proof.
  induction n as [|n IH]; intros m v Hl Hm; [lia|]. destruct m as [|m]; [lia|]. simpl in *.
  destruct (k_parent (gett w v)); [|reflexivity]. simpl in Hl. f_equal. apply IH; lia.
Qed.

Lemma c08_anc_short2 w u v : WFin w -> c08_isolated w u -> v <> u ->
  ancestors w (Nat.pred (length w)) v = ancestors w (length w) v.
Proof.
  intros H Hi Hv. destruct (k_ext (gett w v)) eqn:Hext.
  - pose proof (c08_ext_no_parent w v H Hext) as Hp.
    destruct (length w) as [|[|n]]; simpl; rewrite ?Hp; reflexivity.
  - symmetry. apply c08_anc_stable; [|lia].
    set (n := Nat.pred (length w)).
    pose proof (c08_anc_nodup w H n v ltac:(unfold n; lia) Hext) as Hnd.
    destruct (c08_mask_ancestors w u H Hi n v Hv) as [_ Hnu].
    assert (Hnd2 : NoDup (u :: v :: ancestors w n v)).
    { constructor; [|exact Hnd]. intros [E|E]; [exact (Hv E) | exact (Hnu E)]. }
    assert (Hincl : incl (u :: v :: ancestors w n v) (seq 0 (length w))).
    { intros a [<-|[<-|Ha]]; apply in_seq.
      - pose proof (c08_in_range w u (proj1 Hi)). lia.
      - pose proof (c08_in_range w v Hext). lia.
      - pose proof (c08_in_range w a (c08_anc_members w H _ v Hext a Ha)). lia. }
    pose proof (NoDup_incl_length Hnd2 Hincl) as L. simpl in L. rewrite seq_length in L. unfold n in *. lia.
Qed.

Lemma c08_iso_not_pred w u a : WFin w -> c08_isolated w u -> ~ In u (k_preds (gett w a)).
Proof.
  intros H Hi Hin. apply (c08_iso_not_prereq w u a H Hi). unfold prereqs. apply in_or_app. left. exact Hin.
Qed.

Lemma c08_drop_prereqs w u v : WFin w -> c08_isolated w u -> v <> u ->
  prereqs (c08_drop_task u w) (c08_shift u v) = map (c08_shift u) (prereqs w v).
Proof.
  intros H Hi Hv. unfold prereqs.
  assert (Hlen : length (c08_drop_task u w) = Nat.pred (length w)).
  { pose proof (c08_drop_length u w (c08_in_range w u (proj1 Hi))). lia. }
  rewrite Hlen, c08_drop_gett_shift by exact Hv. cbn [c08_renumber k_preds].
  rewrite remove_nat_notin by (apply c08_iso_not_pred; assumption).
  rewrite (c08_drop_ancestors w u H Hi _ v Hv), (c08_anc_short2 w u v H Hi Hv), map_app. f_equal.
  destruct (c08_mask_ancestors w u H Hi (length w) v Hv) as [_ Hnu].
  induction (ancestors w (length w) v) as [|a l IH]; [reflexivity|]. simpl. rewrite map_app.
  assert (Ha : a <> u) by (intros ->; apply Hnu; left; reflexivity).
  rewrite c08_drop_gett_shift by exact Ha. cbn [c08_renumber k_preds].
  rewrite remove_nat_notin by (apply c08_iso_not_pred; assumption). f_equal.
  apply IH. intro X. apply Hnu. right. exact X.
Qed.

(* ---------- the simulation relation ---------- *)
Record c08_ren (u : nat) (s2 s3 : sst) : Prop := {
  ren_dy : forall q, nth q (dy s3) no_dyn = nth (c08_unshift u q) (dy s2) no_dyn;
  ren_len : length (dy s2) = S (length (dy s3)) /\ (u <= length (dy s3))%nat;
  ren_lg : lg s3 = map (c08_shiftrow u) (lg s2);
  ren_lgu : forall x, In x (lg s2) -> r_task x <> u;
  ren_calc : calc s3 = map (c08_shift u) (calc s2);
  ren_calcu : ~ In u (calc s2);
  ren_inprog : inprog s3 = map (c08_shift u) (inprog s2);
  ren_inu : ~ In u (inprog s2) }.

Lemma c08_memb_shift u v l : v <> u -> ~ In u l -> memb (c08_shift u v) (map (c08_shift u) l) = memb v l.
Proof.
  intros Hv. unfold memb. induction l as [|a l IH]; intros Hu; [reflexivity|]. simpl. rewrite IH by (intro X; apply Hu; right; exact X).
  f_equal. destruct (Nat.eqb_spec v a) as [->|N]; [apply Nat.eqb_refl|]. apply Nat.eqb_neq. intro E. apply N.
  apply (c08_shift_inj u); [exact Hv | intros ->; apply Hu; left; reflexivity | exact E].
Qed.

Lemma c08_remove_shift u v l : v <> u -> ~ In u l ->
  remove_nat (c08_shift u v) (map (c08_shift u) l) = map (c08_shift u) (remove_nat v l).
Proof.
  intros Hv. unfold remove_nat. induction l as [|a l IH]; intros Hu; [reflexivity|]. simpl.
  rewrite IH by (intro X; apply Hu; right; exact X).
  assert (E : Nat.eqb (c08_shift u a) (c08_shift u v) = Nat.eqb a v).
  { destruct (Nat.eqb_spec a v) as [->|N]; [apply Nat.eqb_refl|]. apply Nat.eqb_neq. intro E. apply N.
    apply (c08_shift_inj u); [intros ->; apply Hu; left; reflexivity | exact Hv | exact E]. }
  rewrite E. destruct (negb (Nat.eqb a v)); reflexivity.
Qed.

Lemma c08_nth_set_nth_ren u (ds2 ds3 : list dyn) v x :
  (forall q, nth q ds3 no_dyn = nth (c08_unshift u q) ds2 no_dyn) ->
  length ds2 = S (length ds3) -> (u <= length ds3)%nat -> v <> u ->
  forall q, nth q (set_nth ds3 (c08_shift u v) x) no_dyn = nth (c08_unshift u q) (set_nth ds2 v x) no_dyn.
Proof.
  intros H Hl Hu Hv q. destruct (Nat.eq_dec q (c08_shift u v)) as [->|Hq].
  - rewrite c08_unshift_shift by exact Hv.
    assert (Hr : (c08_shift u v < length ds3)%nat <-> (v < length ds2)%nat).
    { unfold c08_shift. destruct (Nat.ltb_spec v u); lia. }
    destruct (Nat.lt_ge_cases v (length ds2)) as [L|G].
    + rewrite (nth_set_nth_same ds3) by (apply Hr; exact L). rewrite (nth_set_nth_same ds2) by exact L. reflexivity.
    + rewrite !nth_overflow; [reflexivity | rewrite length_set_nth; exact G | rewrite length_set_nth; lia].
  - rewrite !nth_set_nth_other; [apply H | | exact Hq].
    intro E. apply Hq. rewrite <- E. symmetry. apply c08_shift_unshift.
Qed.

Lemma c08_bound_max_ren u ds2 ds3 pre b :
  (forall q, nth q ds3 no_dyn = nth (c08_unshift u q) ds2 no_dyn) -> ~ In u pre ->
  bound_max ds3 (map (c08_shift u) pre) b = bound_max ds2 pre b.
Proof.
  intros H Hu. unfold bound_max. rewrite map_map. f_equal. f_equal. apply map_ext_in. intros p Hp.
  unfold getdl. rewrite H, c08_unshift_shift; [reflexivity|]. intros ->. exact (Hu Hp).
Qed.

Lemma c08_ren_fold u (f f3 : sst -> nat -> res sst) :
  (forall s a s' s3, a <> u -> c08_ren u s s3 -> f s a = Ok s' ->
      exists s3', f3 s3 (c08_shift u a) = Ok s3' /\ c08_ren u s' s3') ->
  forall l s s' s3, ~ In u l -> c08_ren u s s3 -> fold_res f l s = Ok s' ->
    exists s3', fold_res f3 (map (c08_shift u) l) s3 = Ok s3' /\ c08_ren u s' s3'.
Proof.
  intros Hf. induction l as [|a l IH]; intros s s' s3 Hu Hs E; simpl in *.
  - inversion E; subst. exists s3. split; [reflexivity | exact Hs].
  - destruct (f s a) as [s1| |] eqn:E1; simpl in E; try discriminate.
    destruct (Hf s a s1 s3 ltac:(intros ->; apply Hu; left; reflexivity) Hs E1) as [s31 [A B]].
    rewrite A. simpl. apply (IH s1 s' s31); [intro X; apply Hu; right; exact X | exact B | exact E].
Qed.

Lemma c08_ren_gpass cfg w u : WFin w -> c08_isolated w u ->
  forall fuel s v s' s3, v <> u -> c08_ren u s s3 -> c08_fp cfg (c08_mask u w) fuel s v = Ok s' ->
    exists s3', c08_fp cfg (c08_drop_task u w) fuel s3 (c08_shift u v) = Ok s3' /\ c08_ren u s' s3'.
Proof.
  intros H Hi. induction fuel as [|f IH]; intros s v s' s3 Hv Hs Hg; [discriminate|].
  cbn [gpass] in Hg |- *. rewrite (c08_mask_gett u w v Hv) in Hg. rewrite (c08_drop_gett_shift u w v Hv).
  cbn [c08_renumber k_ext k_children].
  destruct (k_ext (gett w v)). { inversion Hg; subst. exists s3. split; [reflexivity | exact Hs]. }
  rewrite (ren_calc _ _ _ Hs), (c08_memb_shift u v _ Hv (ren_calcu _ _ _ Hs)).
  destruct (memb v (calc s)). { inversion Hg; subst. exists s3. split; [reflexivity | exact Hs]. }
  rewrite (ren_inprog _ _ _ Hs), (c08_memb_shift u v _ Hv (ren_inu _ _ _ Hs)).
  destruct (memb v (inprog s)); [discriminate|].
  rewrite (c08_mask_prereqs w u v H Hi Hv) in Hg. rewrite (c08_drop_prereqs w u v H Hi Hv).
  rewrite (remove_nat_notin u _ (c08_iso_not_child w u v H Hi)).
  destruct (fold_res (c08_fp cfg (c08_mask u w) f) (prereqs w v) (enter s v)) as [st2| |] eqn:E2; simpl in Hg; try discriminate.
  assert (Hse : c08_ren u (enter s v) (enter s3 (c08_shift u v))).
  { destruct Hs as [A B C D E F G I]. constructor; simpl; try assumption.
    - rewrite G. reflexivity.
    - intros [X|X]; [exact (Hv X) | exact (I X)]. }
  destruct (c08_ren_fold u _ _ IH (prereqs w v) _ _ _ (c08_iso_not_prereq w u v H Hi) Hse E2) as [st23 [A2 S2]].
  rewrite A2. cbn [bind].
  destruct (fold_res (c08_fp cfg (c08_mask u w) f) (k_children (gett w v)) st2) as [st3| |] eqn:E3; simpl in Hg; try discriminate.
  destruct (c08_ren_fold u _ _ IH (k_children (gett w v)) _ _ _ (c08_iso_not_child w u v H Hi) S2 E3) as [st33 [A3 S3]].
  rewrite A3. cbn [bind].
  destruct (fwd_compute cfg (c08_mask u w) (dy st3) (lg st3) v (bound_max (dy st2) (prereqs w v) (pbound cfg)))
    as [[ds' l']| |] eqn:Ec; simpl in Hg; try discriminate.
  inversion Hg; subst s'. clear Hg.
  rewrite (c08_bound_max_ren u (dy st2) (dy st23) _ _ (ren_dy _ _ _ S2) (c08_iso_not_prereq w u v H Hi)).
  destruct (c08_fwd_compute_ren cfg w u (dy st3) (dy st33) (lg st3) v _ ds' l'
              (c08_iso_not_child w u v H Hi) Hv (ren_dy _ _ _ S3) (ren_lgu _ _ _ S3) Ec) as [x [Eds [Ec3 Hl']]].
  rewrite (ren_lg _ _ _ S3), Ec3. cbn [bind]. eexists. split; [reflexivity|].
  destruct S3 as [A [B1 B2] C D E F G I]. constructor; cbn [leave dy lg calc inprog fst snd].
  - subst ds'. apply c08_nth_set_nth_ren; assumption.
  - subst ds'. rewrite !length_set_nth. split; assumption.
  - reflexivity.
  - exact Hl'.
  - rewrite E. reflexivity.
  - intros [X|X]; [exact (Hv X) | exact (F X)].
  - rewrite G. apply c08_remove_shift; assumption.
  - unfold remove_nat. intro X. apply filter_In in X. destruct X as [X _]. exact (I X).
Qed.

(* ---------- more fuel does not change a successful pass ---------- *)
Lemma c08_fold_mono (g g' : sst -> nat -> res sst) :
  (forall s a s', g s a = Ok s' -> g' s a = Ok s') ->
  forall l s s', fold_res g l s = Ok s' -> fold_res g' l s = Ok s'.
Proof.
  intros Hg. induction l as [|a l IH]; intros s s' E; simpl in *; [exact E|].
  destruct (g s a) as [s1| |] eqn:E1; simpl in E; try discriminate.
  rewrite (Hg _ _ _ E1). simpl. apply IH. exact E.
Qed.

Lemma c08_gpass_more_fuel cfg w : forall f s v s', c08_fp cfg w f s v = Ok s' ->
  forall f', (f <= f')%nat -> c08_fp cfg w f' s v = Ok s'.
Proof.
  induction f as [|f IH]; intros s v s' Hg f' Hf; [discriminate|]. destruct f' as [|f']; [lia|].
  cbn [gpass] in Hg |- *.
  destruct (k_ext (gett w v)); [exact Hg|]. destruct (memb v (calc s)); [exact Hg|].
  destruct (memb v (inprog s)); [discriminate|].
  destruct (fold_res (c08_fp cfg w f) (prereqs w v) (enter s v)) as [st2| |] eqn:E2; simpl in Hg; try discriminate.
  rewrite (c08_fold_mono _ (c08_fp cfg w f') (fun s a s' E => IH s a s' E f' ltac:(lia)) _ _ _ E2). cbn [bind].
  destruct (fold_res (c08_fp cfg w f) (k_children (gett w v)) st2) as [st3| |] eqn:E3; simpl in Hg; try discriminate.
  rewrite (c08_fold_mono _ (c08_fp cfg w f') (fun s a s' E => IH s a s' E f' ltac:(lia)) _ _ _ E3). cbn [bind].
  exact Hg.
Qed.

(* ---------- the roots ---------- *)
Lemma c08_filter_comm {A} (f g : A -> bool) l : filter f (filter g l) = filter g (filter f l).
Proof.
  induction l as [|x l IH]; [reflexivity|]. simpl. destruct (g x) eqn:G; destruct (f x) eqn:F; simpl; rewrite ?G, ?F, IH; reflexivity.
Qed.

Lemma c08_filter_map {A B} (h : A -> B) (g : B -> bool) l : filter g (map h l) = map h (filter (fun a => g (h a)) l).
Proof. induction l as [|x l IH]; [reflexivity|]. simpl. destruct (g (h x)); simpl; rewrite IH; reflexivity. Qed.

Lemma c08_seq_drop u n : (u < n)%nat ->
  seq 0 (Nat.pred n) = map (c08_shift u) (filter (fun p => negb (Nat.eqb p u)) (seq 0 n)).
Proof.
  intros H. replace n with (u + S (n - S u))%nat at 2 by lia. rewrite seq_app. simpl seq. rewrite filter_app. simpl filter.
  rewrite Nat.eqb_refl. simpl negb. cbv iota.
  rewrite (c08_filter_all _ (seq 0 u)), (c08_filter_all _ (seq (S u) (n - S u))).
  - rewrite map_app.
    rewrite (map_ext_in (c08_shift u) (fun p => p) (seq 0 u)), map_id.
    + rewrite <- seq_shift, map_map.
      rewrite (map_ext_in (fun p => c08_shift u (S p)) (fun p => p) (seq u (n - S u))), map_id.
      * rewrite <- seq_app. f_equal. lia.
      * intros p Hp. apply in_seq in Hp. unfold c08_shift. destruct (Nat.ltb_spec (S p) u); [lia | reflexivity].
    + intros p Hp. apply in_seq in Hp. unfold c08_shift. destruct (Nat.ltb_spec p u); [reflexivity | lia].
  - intros p Hp. apply in_seq in Hp. apply negb_true_iff. apply Nat.eqb_neq. lia.
  - intros p Hp. apply in_seq in Hp. apply negb_true_iff. apply Nat.eqb_neq. lia.
Qed.

Lemma c08_drop_roots w u : WFin w -> c08_isolated w u ->
  roots (c08_drop_task u w) = map (c08_shift u) (filter (fun t => negb (Nat.eqb t u)) (roots w)).
Proof.
  intros H Hi. pose proof (c08_in_range w u (proj1 Hi)) as Hu.
  unfold roots, members.
  assert (Hlen : length (c08_drop_task u w) = Nat.pred (length w)) by (pose proof (c08_drop_length u w Hu); lia).
  rewrite Hlen, (c08_seq_drop u (length w) Hu), !c08_filter_map. f_equal.
  set (nu := fun t => negb (Nat.eqb t u)).
  set (m := fun t => negb (k_ext (gett w t))).
  set (r := fun t => match k_parent (gett w t) with Some _ => false | None => true end).
  set (L := filter nu (seq 0 (length w))).
  assert (HL : forall p, In p L -> p <> u).
  { intros p Hp. apply filter_In in Hp. destruct Hp as [_ Hp]. apply negb_true_iff in Hp. apply Nat.eqb_neq. exact Hp. }
  assert (R : filter nu (filter r (filter m (seq 0 (length w)))) = filter r (filter m L)).
  { rewrite (c08_filter_comm nu r). f_equal. apply (c08_filter_comm nu m). }
  rewrite R.
  rewrite (filter_ext_in (fun a => negb (k_ext (gett (c08_drop_task u w) (c08_shift u a)))) m L).
  2:{ intros p Hp. rewrite c08_drop_gett_shift by (apply HL; exact Hp). reflexivity. }
  apply filter_ext_in. intros p Hp. apply filter_In in Hp. destruct Hp as [Hp _].
  rewrite c08_drop_gett_shift by (apply HL; exact Hp). cbn [c08_renumber k_parent]. unfold r.
  destruct (k_parent (gett w p)); reflexivity.
Qed.

(* ---------- the initial states ---------- *)
Lemma c08_init_dyn_ren u k : ~ In u (k_children k) -> init_dyn (c08_renumber u k) = init_dyn k.
Proof. intros H. unfold init_dyn. rewrite (c08_is_leaf_ren u k H). reflexivity. Qed.

Lemma c08_ren_init w u : WFin w -> c08_isolated w u ->
  c08_ren u (init_state (c08_mask u w)) (init_state (c08_drop_task u w)).
Proof.
  intros H Hi. pose proof (c08_in_range w u (proj1 Hi)) as Hu. pose proof (c08_drop_length u w Hu) as Hlen.
  constructor; simpl.
  - intros q. rewrite !c08_init_dyn_nth, c08_drop_gett, (c08_mask_gett u w _ (c08_unshift_neq u q)).
    apply c08_init_dyn_ren. apply c08_iso_not_child; assumption.
  - rewrite !map_length, c08_mask_length. split; lia.
  - reflexivity.
  - intros x [].
  - reflexivity.
  - intros [].
  - reflexivity.
  - intros [].
Qed.

(* ---------- (d) independence with renumbering, balancing off ---------- *)
Theorem C08_indep_holds cfg w u st st3 :
  balance cfg = false -> WFin w -> c08_isolated w u ->
  forward cfg w = Ok st -> forward cfg (c08_drop_task u w) = Ok st3 ->
  forall t, t <> u -> getd st t = getd st3 (c08_shift u t).
Proof.
  intros Hb H Hi Hf Hf3 t Ht. unfold forward in Hf, Hf3.
  destruct (isolated_ok w); cbn [negb] in Hf; [|discriminate Hf].
  destruct (no_future_ends w (now cfg)); cbn [negb] in Hf; [|discriminate Hf].
  destruct (isolated_ok (c08_drop_task u w)); cbn [negb] in Hf3; [|discriminate Hf3].
  destruct (no_future_ends (c08_drop_task u w) (now cfg)); cbn [negb] in Hf3; [|discriminate Hf3].
  unfold fwd_pass in Hf, Hf3.
  pose proof (c08_in_range w u (proj1 Hi)) as Hu. pose proof (c08_drop_length u w Hu) as Hlen.
  (* run on the blanked table *)
  destruct (c08_sim_roots cfg w u _ Hb H Hi _ _ _ _ (c08_sim_init w u) Hf) as [s2 [A2 B2]].
  (* run on the renumbered table, with the fuel of the first run *)
  destruct (c08_ren_fold u _ _ (c08_ren_gpass cfg w u H Hi (S (S (length w))))
              (filter (fun t => negb (Nat.eqb t u)) (roots w)) _ _ _
              ltac:(intro X; apply filter_In in X; destruct X as [_ X]; rewrite Nat.eqb_refl in X; discriminate)
              (c08_ren_init w u H Hi) A2) as [s3 [A3 B3]].
  rewrite <- (c08_drop_roots w u H Hi) in A3.
  pose proof (c08_fold_mono _ (c08_fp cfg (c08_drop_task u w) (S (S (length w))))
                (fun s a s' E => c08_gpass_more_fuel cfg (c08_drop_task u w) (S (S (length (c08_drop_task u w)))) s a s' E
                                   (S (S (length w))) ltac:(lia)) _ _ _ Hf3) as Hf3'.
  rewrite A3 in Hf3'. inversion Hf3'; subst s3.
  unfold getd. rewrite (sim_dy _ _ _ B2 t Ht), (ren_dy _ _ _ B3), c08_unshift_shift by exact Ht. reflexivity.
Qed.

(* the statement left open in C08Indep.v *)
Theorem c08_indep_full_holds : c08_indep_full.
Proof.
  intros cfg w u st st' Hb _ H Hi Hf Hf' t Ht _.
  rewrite (C08_indep_holds cfg w u st st' Hb H Hi Hf Hf' t Ht). split; reflexivity.
Qed.
