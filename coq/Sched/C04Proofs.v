(* C04: reserved work equals remaining work and agrees with the task's dates.
   The statement for one task is written over (start, end, total reserved, reserved days) so that the
   same Prop is used for the model's state and for an observed schedule (reflection of c04_task_b).
   It is established at the machine step that calculates the task and is stable afterwards. *)
From PJ Require Import Base.Prelude Sched.Model Sched.LedgerProofs Sched.Primitives Sched.Machine
     Sched.Instances Sched.C03Proofs Sched.Check Sched.Oracles Sched.OracleProofs Sched.WfIn Sched.C04Base.

(* ---------- the statement ---------- *)
Definition is_min (m : Z) (l : list Z) : Prop := In m l /\ forall d, In d l -> m <= d.
Definition is_max (m : Z) (l : list Z) : Prop := In m l /\ forall d, In d l -> d <= m.

(* work still to do: max(estimate - spent, 0), defaults filled *)
Definition remaining (cfg : config) (k : itask) : Z :=
  Z.max (odflt (k_est k) (dflt_est cfg) - odflt (k_spent k) 0) 0.

(* a leaf that is neither a milestone nor already completed (forward: has a user-fixed end) *)
Definition worksb (fwd : bool) (k : itask) : bool :=
  is_leaf k && negb (k_milestone k) && negb (completed fwd k).

Definition c04_work (fwd : bool) (cfg : config) (k : itask) (os oe : option Z) (total : Z) (days : list Z) : Prop :=
  exists s e, os = Some s /\ oe = Some e
  (* exactly the remaining work is reserved, at most once per day *)
  /\ total = remaining cfg k
  /\ NoDup days
  (* on days from the start day up to strictly before the end; forward: never before the current day *)
  /\ (forall d, In d days -> day_of s <= d /\ DAY * d < e /\ (fwd = true -> day_of (now cfg) <= d))
  (* forward: a start chosen by the scheduler lies on the first reserved day, the end within the 24
     hours following the last reserved day's midnight *)
  /\ (fwd = true -> (k_start k = None -> forall dmin, is_min dmin days -> day_of s = dmin)
                    /\ (forall dmax, is_max dmax days -> DAY * dmax <= e <= DAY * (dmax + 1)))
  (* backward: a start chosen by the scheduler lies within the first reserved day *)
  /\ (fwd = false -> k_start k = None -> forall dmin, is_min dmin days -> DAY * dmin <= s <= DAY * (dmin + 1)).

(* user-fixed dates come back unchanged *)
Definition c04_fixed (k : itask) (os oe : option Z) : Prop :=
  (forall s, k_start k = Some s -> os = Some s) /\ (forall e, k_end k = Some e -> oe = Some e).

Definition c04_task_st (fwd : bool) (cfg : config) (k : itask) (os oe : option Z) (total : Z) (days : list Z) : Prop :=
  (worksb fwd k = true -> c04_work fwd cfg k os oe total days)
  (* milestones, completed tasks and summary tasks reserve nothing *)
  /\ (worksb fwd k = false -> days = [])
  /\ (fwd = true -> is_leaf k = true -> k_milestone k = false -> c04_fixed k os oe).

(* over the model's state *)
Definition c04_model (fwd : bool) (cfg : config) (w : list itask) (ds : list dyn) (l : ledger) (t : nat) : Prop :=
  c04_task_st fwd cfg (gett w t) (d_start (getdl ds t)) (d_end (getdl ds t))
              (sum_units (rows_t l t)) (map r_day (rows_t l t)).

(* over an observed schedule *)
Definition c04_obs (fwd : bool) (cfg : config) (w : list itask) (o : osch) (t : nat) : Prop :=
  c04_task_st fwd cfg (gett w t) (o_start o t) (o_end o t) (osum (rows_of o t)) (map row_day (rows_of o t)).

(* ---------- forward primitives ---------- *)
Lemma fwd_nearest_c04 cfg l r t t0 s :
  ledger_ok (cap cfg) (balance cfg) l -> fwd_nearest cfg l r t t0 = Ok s ->
  day_of t0 <= day_of s /\ is_free cfg l r t (day_of s).
Proof.
  intros [Hpos _] H. destruct (fwd_nearest_spec _ _ _ _ _ _ H) as [d [Hd [Hf [Hs _]]]].
  pose proof (used_nonneg (balance cfg) l r d t Hpos) as Hu. unfold is_free in Hf.
  assert (Hday : day_of s = d).
  { rewrite Hs. apply day_of_within; [apply frac_nonneg; lia | apply frac_lt; lia]. }
  rewrite Hday. split; assumption.
Qed.

Lemma fwd_shift_c04 cfg l r t s0 left l' e :
  cap_small cfg -> ledger_ok (cap cfg) (balance cfg) l -> rows_t l t = [] -> 0 <= left ->
  fwd_shift cfg l r t s0 left = Ok (l', e) ->
  sum_units (rows_t l' t) = left
  /\ NoDup (map r_day (rows_t l' t))
  /\ (forall d, In d (map r_day (rows_t l' t)) -> day_of s0 <= d /\ DAY * d < e)
  /\ (forall dmax, is_max dmax (map r_day (rows_t l' t)) -> DAY * dmax < e <= DAY * (dmax + 1) /\ day_of s0 <= dmax)
  /\ (is_free cfg l r t (day_of s0) -> map r_day (rows_t l' t) <> [] -> In (day_of s0) (map r_day (rows_t l' t))).
Proof.
  intros Hsmall [Hpos Hcap] Hnone Hleft H.
  destruct (fwd_shift_spec _ _ _ _ _ _ _ _ H Hleft) as [[-> [-> ->]] | [Hl [new [dl [R He]]]]].
  - rewrite Hnone. simpl. repeat split.
    + constructor.
    + destruct H0.
    + destruct H0.
    + destruct H0 as [[] _].
    + destruct H0 as [[] _].
    + destruct H0 as [[] _].
    + intros _ Hne. exfalso. apply Hne. reflexivity.
  - pose proof (used_last_day _ _ _ _ _ _ _ _ _ _ _ Hpos R) as [Hu1 Hu2].
    destruct R as [Ra Rr Rs Rl Rn Rc Rf Rt].
    assert (Hrows : rows_t l' t = new).
    { rewrite Ra, rows_t_app, Hnone, app_nil_r. apply rows_t_all. intros x Hx. apply (Rr x Hx). }
    rewrite Hrows.
    set (u := used (balance cfg) l' r dl t) in *. set (c := cap cfg r dl) in *.
    assert (Hc : c <= DAY) by apply Hsmall.
    assert (Hf1 : 0 < frac u c) by (apply frac_pos; lia).
    assert (Hf2 : frac u c <= DAY) by (apply frac_le; lia).
    destruct Rl as [x0 [rest [Hn0 Hx0]]].
    assert (Hin0 : In x0 new) by (rewrite Hn0; left; reflexivity).
    assert (Hdl : In dl (map r_day new)) by (apply in_map_iff; exists x0; auto).
    assert (Hle : forall d, In d (map r_day new) -> day_of s0 <= d <= dl).
    { intros d Hd. apply in_map_iff in Hd. destruct Hd as [x [<- Hx]].
      destruct (Rr x Hx) as [_ [_ [_ [k [Hk [Hd [kl [Hkl Hdl']]]]]]]]. lia. }
    split; [exact Rs|]. split; [exact Rn|]. split; [|split].
    + intros d Hd. specialize (Hle d Hd). split; [lia|]. rewrite He. unfold DAY in *. lia.
    + intros dmax [Hm1 Hm2]. assert (dmax = dl) by (specialize (Hm2 dl Hdl); specialize (Hle dmax Hm1); lia).
      subst dmax. specialize (Hle dl Hdl). rewrite He. unfold DAY in *. lia.
    + intros Hfree _. unfold is_free in Hfree.
      replace (day_of s0 - 1 + 1) with (day_of s0) in Rf by lia.
      destruct (Rf Hfree) as [x [Hx Hd]]. apply in_map_iff. exists x. auto.
Qed.

(* ---------- backward primitive ---------- *)
Lemma bwd_shift_c04 cfg l r t e0 left l' s :
  cap_small cfg -> ledger_ok (cap cfg) (balance cfg) l -> rows_t l t = [] -> 0 <= left ->
  bwd_shift cfg l r t e0 left = Ok (l', s) ->
  sum_units (rows_t l' t) = left
  /\ NoDup (map r_day (rows_t l' t))
  /\ (forall d, In d (map r_day (rows_t l' t)) -> day_of s <= d /\ DAY * d < e0)
  /\ (forall dmin, is_min dmin (map r_day (rows_t l' t)) -> DAY * dmin <= s < DAY * (dmin + 1)).
Proof.
  intros Hsmall [Hpos Hcap] Hnone Hleft H.
  destruct (bwd_shift_spec _ _ _ _ _ _ _ _ H Hleft) as [[-> [-> ->]] | [Hl [new [dl [R He]]]]].
  - rewrite Hnone. simpl. repeat split.
    + constructor.
    + destruct H0.
    + destruct H0.
    + destruct H0 as [[] _].
    + destruct H0 as [[] _].
  - pose proof (used_last_day _ _ _ _ _ _ _ _ _ _ _ Hpos R) as [Hu1 Hu2].
    destruct R as [Ra Rr Rs Rl Rn Rc Rf Rt].
    assert (Hrows : rows_t l' t = new).
    { rewrite Ra, rows_t_app, Hnone, app_nil_r. apply rows_t_all. intros x Hx. apply (Rr x Hx). }
    rewrite Hrows.
    set (u := used (balance cfg) l' r dl t) in *. set (c := cap cfg r dl) in *.
    assert (Hc : c <= DAY) by apply Hsmall.
    assert (Hf1 : 0 < frac u c) by (apply frac_pos; lia).
    assert (Hf2 : frac u c <= DAY) by (apply frac_le; lia).
    destruct Rl as [x0 [rest [Hn0 Hx0]]].
    assert (Hin0 : In x0 new) by (rewrite Hn0; left; reflexivity).
    assert (Hdl : In dl (map r_day new)) by (apply in_map_iff; exists x0; auto).
    assert (Hle : forall d, In d (map r_day new) -> dl <= d < day_of e0).
    { intros d Hd. apply in_map_iff in Hd. destruct Hd as [x [<- Hx]].
      destruct (Rr x Hx) as [_ [_ [_ [k [Hk [Hd [kl [Hkl Hdl']]]]]]]]. lia. }
    assert (Hs : DAY * dl <= s < DAY * (dl + 1)) by (rewrite He; unfold DAY in *; lia).
    split; [exact Rs|]. split; [exact Rn|]. split.
    + intros d Hd. specialize (Hle d Hd). split.
      * assert (day_of s < dl + 1) by (apply day_of_lt_iff; lia). lia.
      * pose proof (proj1 (day_of_le_iff e0 (day_of e0)) ltac:(lia)). unfold DAY in *. lia.
    + intros dmin [Hm1 Hm2]. assert (dmin = dl) by (specialize (Hm2 dl Hdl); specialize (Hle dmin Hm1); lia).
      subst dmin. exact Hs.
Qed.

(* ---------- one calculation ---------- *)
Lemma getdl_set_same ds t d : (t < length ds)%nat -> getdl (set_nth ds t d) t = d.
Proof. intros H. unfold getdl. apply nth_set_nth_same. exact H. Qed.

Lemma c04_nothing_intro fwd cfg k os oe total l t :
  worksb fwd k = false -> rows_t l t = [] ->
  (fwd = true -> is_leaf k = true -> k_milestone k = false -> c04_fixed k os oe) ->
  c04_task_st fwd cfg k os oe total (map r_day (rows_t l t)).
Proof.
  intros Hw Hn Hf. split; [intros E; congruence|]. split; [intros _; rewrite Hn; reflexivity | exact Hf].
Qed.

Lemma odflt_res (o : option Z) (d x : Z) : match o with Some e => Ok e | None => Ok d end = Ok x -> x = odflt o d.
Proof. destruct o; intros H; inversion H; reflexivity. Qed.

Lemma fwd_compute_c04 cfg w ds l t b ds' l' :
  cap_small cfg -> ledger_ok (cap cfg) (balance cfg) l ->
  rows_t l t = [] -> getdl ds t = init_dyn (gett w t) -> (t < length ds)%nat ->
  pbound cfg <= b ->
  fwd_compute cfg w ds l t b = Ok (ds', l') ->
  c04_model true cfg w ds' l' t.
Proof.
  intros Hsmall Hok Hnone Hdn Hlen Hb H. unfold c04_model.
  apply fwd_compute_inv in H.
  destruct H as [[Hm [-> ->]] | [Hm [start [en [est [spent [-> [Hs [He [Hsp Hend]]]]]]]]]].
  - (* milestone *)
    apply c04_nothing_intro; [|exact Hnone|intros _ _ Hm'; congruence].
    unfold worksb. rewrite Hm. destruct (is_leaf (gett w t)); reflexivity.
  - rewrite getdl_set_same by exact Hlen. unfold mkd. cbn [d_start d_end].
    destruct (is_leaf (gett w t)) eqn:Hleaf.
    2:{ (* summary *)
        assert (l' = l).
        { unfold fwd_end_eq in Hend. cbv zeta in Hend. rewrite Hleaf in Hend.
          destruct (d_end (getdl ds t)); [inversion Hend; reflexivity|].
          destruct (somes _); [discriminate | inversion Hend; reflexivity]. }
        subst l'. apply c04_nothing_intro; [|exact Hnone|intros _ Hl; congruence].
        unfold worksb. rewrite Hleaf. reflexivity. }
    rewrite (init_dyn_leaf _ Hleaf) in Hdn.
    unfold fwd_start_eq in Hs. cbv zeta in Hs. rewrite Hdn, Hleaf in Hs. cbn [d_start d_end] in Hs.
    unfold est_eq in He. cbv zeta in He. rewrite Hdn, Hleaf in He. cbn [d_est] in He. apply odflt_res in He.
    unfold spent_eq in Hsp. cbv zeta in Hsp. rewrite Hdn, Hleaf in Hsp. cbn [d_spent] in Hsp. apply odflt_res in Hsp.
    unfold fwd_end_eq in Hend. cbv zeta in Hend. rewrite Hdn, Hleaf in Hend. cbn [d_end] in Hend.
    assert (Hfixs : forall s, k_start (gett w t) = Some s -> Some start = Some s).
    { intros s Hk. rewrite Hk in Hs. inversion Hs. reflexivity. }
    destruct (k_end (gett w t)) as [e1|] eqn:Hke.
    + (* completed *)
      inversion Hend; subst l' en.
      apply c04_nothing_intro; [|exact Hnone|].
      * unfold worksb, completed. rewrite Hleaf, Hm, Hke. reflexivity.
      * intros _ _ _. split; [exact Hfixs|]. intros e Hk. congruence.
    + (* work to reserve *)
      destruct (fwd_shift cfg l (k_res (gett w t)) t _ _) as [[l2 e2]| |] eqn:Hsh; cbn in Hend; try discriminate.
      inversion Hend; subst l2 en. clear Hend.
      set (s0 := Z.max (Z.max start (now cfg)) (pbound cfg)) in *.
      assert (Hrem : Z.max (est - spent) 0 = remaining cfg (gett w t)) by (unfold remaining; rewrite He, Hsp; reflexivity).
      destruct (fwd_shift_c04 _ _ _ _ _ _ _ _ Hsmall Hok Hnone (Z.le_max_r _ _) Hsh) as [F1 [F2 [F3 [F4 F5]]]].
      split; [|split].
      2:{ intros E. exfalso. unfold worksb, completed in E. rewrite Hleaf, Hm, Hke in E. discriminate. }
      2:{ intros _ _ _. split; [exact Hfixs|]. intros e Hk. congruence. }
      intros _. exists start, (Z.max e2 start). split; [reflexivity|]. split; [reflexivity|].
      split; [rewrite F1; exact Hrem|]. split; [exact F2|].
      assert (Hs0 : start <= s0 /\ now cfg <= s0) by (unfold s0; lia).
      split; [|split].
      * intros d Hd. destruct (F3 d Hd) as [A B].
        pose proof (day_of_mono start s0 ltac:(lia)). pose proof (day_of_mono (now cfg) s0 ltac:(lia)).
        split; [lia|]. split; [lia|]. intros _. lia.
      * intros _. split.
        -- intros Hks dmin [Hm1 Hm2]. rewrite Hks in Hs.
           destruct (fwd_nearest cfg l (k_res (gett w t)) t _) as [s1| |] eqn:Hn; cbn in Hs; try discriminate.
           inversion Hs; subst s1. clear Hs.
           destruct (fwd_nearest_c04 _ _ _ _ _ _ Hok Hn) as [N1 N2].
           set (t0 := Z.max (Z.max b (now cfg)) (odflt (k_minstart (gett w t)) 0)) in *.
           pose proof (day_of_mono (now cfg) t0 ltac:(unfold t0; lia)).
           pose proof (day_of_mono (pbound cfg) t0 ltac:(unfold t0; lia)).
           pose proof (day_of_mono start s0 ltac:(lia)).
           assert (Hd0 : day_of s0 = day_of start).
           { assert (day_of s0 <= day_of start); [|lia]. unfold s0.
             destruct (Z.max_spec (Z.max start (now cfg)) (pbound cfg)) as [[_ ->]|[_ ->]]; [lia|].
             destruct (Z.max_spec start (now cfg)) as [[_ ->]|[_ ->]]; lia. }
           rewrite <- Hd0 in N2.
           assert (Hne : map r_day (rows_t l' t) <> []) by (intro E; rewrite E in Hm1; destruct Hm1).
           specialize (Hm2 _ (F5 N2 Hne)). destruct (F3 dmin Hm1) as [A _]. lia.
        -- intros dmax Hmax. destruct (F4 dmax Hmax) as [[A B] C].
           assert (s0 < DAY * (day_of s0 + 1)) by (apply day_of_lt_iff; lia).
           unfold DAY in *. lia.
      * intros E. discriminate.
Qed.

Lemma bwd_compute_c04 cfg w ds l t b ds' l' :
  cap_small cfg -> ledger_ok (cap cfg) (balance cfg) l ->
  rows_t l t = [] -> getdl ds t = init_dyn (gett w t) -> (t < length ds)%nat ->
  bwd_compute cfg w ds l t b = Ok (ds', l') ->
  c04_model false cfg w ds' l' t.
Proof.
  intros Hsmall Hok Hnone Hdn Hlen H. unfold c04_model.
  apply bwd_compute_inv in H.
  destruct H as [[Hm [-> ->]] | [Hm [start [en [est [spent [-> [Hen [He [Hsp Hst]]]]]]]]]].
  - apply c04_nothing_intro; [|exact Hnone|intros E; discriminate].
    unfold worksb. rewrite Hm. destruct (is_leaf (gett w t)); reflexivity.
  - rewrite getdl_set_same by exact Hlen. unfold mkd. cbn [d_start d_end].
    destruct (is_leaf (gett w t)) eqn:Hleaf.
    2:{ assert (l' = l).
        { unfold bwd_start_eq in Hst. cbv zeta in Hst. rewrite Hleaf in Hst.
          destruct (somes _); [discriminate | inversion Hst; reflexivity]. }
        subst l'. apply c04_nothing_intro; [|exact Hnone|intros E; discriminate].
        unfold worksb. rewrite Hleaf. reflexivity. }
    rewrite (init_dyn_leaf _ Hleaf) in Hdn.
    unfold est_eq in He. cbv zeta in He. rewrite Hdn, Hleaf in He. cbn [d_est] in He. apply odflt_res in He.
    unfold spent_eq in Hsp. cbv zeta in Hsp. rewrite Hdn, Hleaf in Hsp. cbn [d_spent] in Hsp. apply odflt_res in Hsp.
    unfold bwd_start_eq in Hst. cbv zeta in Hst. rewrite Hdn, Hleaf in Hst. cbn [d_start] in Hst.
    destruct (bwd_shift cfg l (k_res (gett w t)) t _ _) as [[l2 s2]| |] eqn:Hsh; cbn in Hst; try discriminate.
    inversion Hst; subst l2. clear Hst. rename H1 into Hstart. rewrite Hstart.
    assert (Hrem : Z.max (est - spent) 0 = remaining cfg (gett w t)) by (unfold remaining; rewrite He, Hsp; reflexivity).
    destruct (bwd_shift_c04 _ _ _ _ _ _ _ _ Hsmall Hok Hnone (Z.le_max_r _ _) Hsh) as [F1 [F2 [F3 F4]]].
    assert (Hle : start <= s2) by (rewrite <- Hstart; destruct (k_start (gett w t)); lia).
    split; [|split].
    2:{ intros E. exfalso. unfold worksb, completed in E. rewrite Hleaf, Hm in E. discriminate. }
    2:{ intros E. discriminate. }
    intros _. exists start, en. split; [reflexivity|]. split; [reflexivity|].
    split; [rewrite F1; exact Hrem|]. split; [exact F2|]. split; [|split].
    + intros d Hd. destruct (F3 d Hd) as [A B]. pose proof (day_of_mono start s2 Hle).
      split; [lia|]. split; [lia|]. intros E. discriminate.
    + intros E. discriminate.
    + intros _ Hks dmin Hmin. rewrite Hks in Hstart. subst s2. specialize (F4 dmin Hmin). lia.
Qed.

(* ---------- the invariant of both machines ---------- *)
Definition inv04 (fwd : bool) (cfg : config) (w : list itask) (c : core) : Prop :=
  forall t, In t (c_calc c) -> c04_model fwd cfg w (c_dy c) (c_lg c) t.

Definition inv04_all (fwd : bool) (cfg : config) (w : list itask) (c : core) : Prop :=
  inv03 cfg w c /\ binv w c /\ inv04 fwd cfg w c.

Lemma inv04_step_gen fwd cfg w c t ds' l' :
  inv04 fwd cfg w c -> ~ In t (c_calc c) ->
  adds_rows_of t (k_res (gett w t)) (c_lg c) l' ->
  (forall p, p <> t -> nth p ds' no_dyn = nth p (c_dy c) no_dyn) ->
  c04_model fwd cfg w ds' l' t ->
  inv04 fwd cfg w {| c_dy := ds'; c_lg := l'; c_calc := t :: c_calc c |}.
Proof.
  intros Hi Hn Ha Hfr Ht u [<-|Hu]; simpl; [exact Ht|].
  assert (Hne : u <> t) by (intro E; subst; contradiction).
  specialize (Hi u Hu). unfold c04_model in *. unfold getdl in *.
  rewrite (Hfr u Hne), (rows_t_adds u t _ _ _ Ha (not_eq_sym Hne)). exact Hi.
Qed.

Lemma inv04_fstep cfg w c t c' :
  cap_small cfg -> inv04_all true cfg w c -> fstep cfg w c t c' -> inv04_all true cfg w c'.
Proof.
  intros Hsmall [H3 [Hb H4]] Hs.
  split; [eapply inv03_fstep; eauto|]. split; [eapply binv_fstep; eauto|].
  unfold fstep in Hs. destruct Hs as [c t [ds' l'] Hext Hnot _ _ Hc]. simpl.
  destruct (fwd_compute_ledger _ _ _ _ _ _ _ _ Hc (proj1 H3)) as [Ha _].
  apply inv04_step_gen; try assumption.
  - eapply fwd_compute_frame; eauto.
  - eapply fwd_compute_c04; try exact Hc; try assumption.
    + exact (proj1 H3).
    + eapply rows_t_uncalculated; [exact (proj2 H3) | exact Hnot].
    + unfold getdl. apply (b_init _ _ Hb). exact Hnot.
    + rewrite (b_len _ _ Hb). apply not_ext_in_range. exact Hext.
    + unfold fbnd. apply bound_max_ge.
Qed.

Lemma inv04_bstep cfg w c t c' :
  cap_small cfg -> inv04_all false cfg w c -> bstep cfg w c t c' -> inv04_all false cfg w c'.
Proof.
  intros Hsmall [H3 [Hb H4]] Hs.
  split; [eapply inv03_bstep; eauto|]. split; [eapply binv_bstep; eauto|].
  unfold bstep in Hs. destruct Hs as [c t [ds' l'] Hext Hnot _ _ Hc]. simpl.
  destruct (bwd_compute_ledger _ _ _ _ _ _ _ _ Hc (proj1 H3)) as [Ha _].
  apply inv04_step_gen; try assumption.
  - eapply bwd_compute_frame; eauto.
  - eapply bwd_compute_c04; try exact Hc; try assumption.
    + exact (proj1 H3).
    + eapply rows_t_uncalculated; [exact (proj2 H3) | exact Hnot].
    + unfold getdl. apply (b_init _ _ Hb). exact Hnot.
    + rewrite (b_len _ _ Hb). apply not_ext_in_range. exact Hext.
Qed.

Lemma inv04_init fwd cfg w : cap_nonneg cfg -> inv04_all fwd cfg w (init_core w).
Proof. intros H. split; [apply inv03_init; exact H|]. split; [apply binv_init | intros t []]. Qed.

(* ---------- the property on the model ---------- *)
Definition C04_statement (fwd : bool) (cfg : config) (w : list itask) (st : sst) : Prop :=
  forall t, k_ext (gett w t) = false -> c04_model fwd cfg w (dy st) (lg st) t.

Theorem C04_forward_holds cfg w st :
  WFin w -> cap_nonneg cfg -> cap_small cfg -> forward cfg w = Ok st -> C04_statement true cfg w st.
Proof.
  intros Hw Hc Hsmall H. destruct (forward_is_run _ _ _ H) as [Hs [Hr _]].
  assert (Hi : inv04_all true cfg w (core_of st)).
  { eapply (gsteps_inv w _ _ _ _ (inv04_all true cfg w)); [|exact Hs | apply inv04_init; exact Hc].
    intros c t c' Hi Hst. eapply inv04_fstep; eauto. }
  destruct Hi as [_ [Hb H4]]. intros t Ht. apply (H4 t). eapply all_calculated; eauto.
Qed.

Theorem C04_backward_holds cfg w st :
  WFin w -> cap_nonneg cfg -> cap_small cfg -> backward cfg w = Ok st -> C04_statement false cfg w st.
Proof.
  intros Hw Hc Hsmall H. destruct (backward_is_run _ _ _ H) as [Hs [Hr _]].
  assert (Hi : inv04_all false cfg w (core_of st)).
  { eapply (gsteps_inv w _ _ _ _ (inv04_all false cfg w)); [|exact Hs | apply inv04_init; exact Hc].
    intros c t c' Hi Hst. eapply inv04_bstep; eauto. }
  destruct Hi as [_ [Hb H4]]. intros t Ht. apply (H4 t). eapply all_calculated; eauto.
Qed.

(* ---------- reflection of the oracle ---------- *)
Lemma nodup_z_spec l : nodup_z l = true <-> NoDup l.
Proof.
  induction l as [|a l IH]; simpl; [split; [constructor | reflexivity]|].
  rewrite andb_true_iff, negb_true_iff, IH. split.
  - intros [A B]. constructor; [|exact B]. intro Hin.
    assert (E : existsb (Z.eqb a) l = true) by (apply existsb_exists; exists a; split; [exact Hin | apply Z.eqb_refl]).
    congruence.
  - intros H. inversion H as [|? ? Hn Hd]; subst. split; [|exact Hd].
    destruct (existsb (Z.eqb a) l) eqn:E; [|reflexivity]. exfalso.
    apply existsb_exists in E. destruct E as [y [Hy E]]. apply Z.eqb_eq in E. subst. contradiction.
Qed.

Lemma zmin_list_spec l : forall x, is_min (zmin_list x l) (x :: l).
Proof.
  induction l as [|y l IH]; intros x; simpl.
  - split; [left; reflexivity | intros d [<-|[]]; lia].
  - destruct (IH (Z.min x y)) as [A B]. split.
    + destruct A as [A|A]; [|right; right; exact A]. rewrite <- A.
      destruct (Z.min_spec x y) as [[_ ->]|[_ ->]]; [left | right; left]; reflexivity.
    + intros d [<-|[<-|Hd]].
      * specialize (B (Z.min x y) (or_introl eq_refl)). lia.
      * specialize (B (Z.min x y) (or_introl eq_refl)). lia.
      * apply B. right. exact Hd.
Qed.

Lemma zmax_list_spec l : forall x, is_max (zmax_list x l) (x :: l).
Proof.
  induction l as [|y l IH]; intros x; simpl.
  - split; [left; reflexivity | intros d [<-|[]]; lia].
  - destruct (IH (Z.max x y)) as [A B]. split.
    + destruct A as [A|A]; [|right; right; exact A]. rewrite <- A.
      destruct (Z.max_spec x y) as [[_ ->]|[_ ->]]; [right; left | left]; reflexivity.
    + intros d [<-|[<-|Hd]].
      * specialize (B (Z.max x y) (or_introl eq_refl)). lia.
      * specialize (B (Z.max x y) (or_introl eq_refl)). lia.
      * apply B. right. exact Hd.
Qed.

Lemma is_min_unique m m' l : is_min m l -> is_min m' l -> m = m'.
Proof. intros [A B] [A' B']. specialize (B _ A'). specialize (B' _ A). lia. Qed.

Lemma is_max_unique m m' l : is_max m l -> is_max m' l -> m = m'.
Proof. intros [A B] [A' B']. specialize (B _ A'). specialize (B' _ A). lia. Qed.

Lemma worksb_cond fwd w t :
  negb (leafb w t) || k_milestone (gett w t) || completed fwd (gett w t) = negb (worksb fwd (gett w t)).
Proof.
  unfold leafb, worksb.
  destruct (is_leaf (gett w t)), (k_milestone (gett w t)), (completed fwd (gett w t)); reflexivity.
Qed.

Lemma c04_ends_spec (fwd : bool) (ks : option Z) s e days :
  (match days with
   | [] => true
   | d0 :: ds =>
       let dmin := zmin_list d0 ds in
       let dmax := zmax_list d0 ds in
       if fwd then
         (match ks with None => day_of s =? dmin | Some s0 => (s =? s0) end)
         && (DAY * dmax <=? e) && (e <=? DAY * (dmax + 1))
       else
         (match ks with None => (DAY * dmin <=? s) && (s <=? DAY * (dmin + 1)) | Some _ => true end)
   end) = true
  <-> ((fwd = true ->
        (match ks with
         | Some s0 => days <> [] -> s = s0
         | None => forall dmin, is_min dmin days -> day_of s = dmin
         end)
        /\ (forall dmax, is_max dmax days -> DAY * dmax <= e <= DAY * (dmax + 1)))
       /\ (fwd = false -> ks = None -> forall dmin, is_min dmin days -> DAY * dmin <= s <= DAY * (dmin + 1))).
Proof.
  destruct days as [|d0 ds].
  - split; [|reflexivity]. intros _. split.
    + intros _. split.
      * destruct ks; [intros Hne; exfalso; apply Hne; reflexivity | intros dmin [[] _]].
      * intros dmax [[] _].
    + intros _ _ dmin [[] _].
  - pose proof (zmin_list_spec ds d0) as Hmin. pose proof (zmax_list_spec ds d0) as Hmax. cbv zeta.
    destruct fwd.
    + rewrite !andb_true_iff, !Z.leb_le. split.
      * intros [[A B] C]. split; [|intros E; discriminate]. intros _. split.
        -- destruct ks; [intros _; apply Z.eqb_eq; exact A|].
           intros dmin Hd. rewrite <- (is_min_unique _ _ _ Hmin Hd). apply Z.eqb_eq. exact A.
        -- intros dmax Hd. rewrite <- (is_max_unique _ _ _ Hmax Hd). lia.
      * intros [H _]. destruct (H eq_refl) as [A B]. split; [split|].
        -- destruct ks; apply Z.eqb_eq; [apply A; discriminate | apply A; exact Hmin].
        -- apply (B _ Hmax).
        -- apply (B _ Hmax).
    + split.
      * intros H. split; [intros E; discriminate|]. intros _ -> dmin Hd.
        rewrite <- (is_min_unique _ _ _ Hmin Hd). rewrite andb_true_iff, !Z.leb_le in H. exact H.
      * intros [_ H]. destruct ks; [reflexivity|]. rewrite andb_true_iff, !Z.leb_le. apply H; auto.
Qed.

Theorem c04_task_b_spec fwd cfg w o t : c04_task_b fwd cfg w o t = true <-> c04_obs fwd cfg w o t.
Proof.
  unfold c04_task_b, c04_obs, c04_task_st. cbv zeta. rewrite worksb_cond.
  set (k := gett w t). set (rs := rows_of o t).
  destruct (worksb fwd k) eqn:Hw; cbn [negb].
  - assert (Hleaf : is_leaf k = true /\ k_milestone k = false /\ completed fwd k = false).
    { unfold worksb in Hw. destruct (is_leaf k), (k_milestone k), (completed fwd k); try discriminate; auto. }
    destruct Hleaf as [Hleaf [Hmil Hcomp]].
    split.
    + intros H. destruct (o_start o t) as [s|]; [|discriminate]. destruct (o_end o t) as [e|]; [|discriminate].
      rewrite !andb_true_iff in H. destruct H as [[[[H1 H2] H3] H4] H5].
      apply c04_ends_spec in H5. destruct H5 as [H5f H5b].
      split; [|split].
      * intros _. exists s, e. split; [reflexivity|]. split; [reflexivity|].
        split; [apply Z.eqb_eq in H1; exact H1|]. split; [apply nodup_z_spec; exact H2|].
        split; [|split].
        -- intros d Hd. rewrite forallb_forall in H3. specialize (H3 d Hd).
           rewrite !andb_true_iff in H3. destruct H3 as [[A B] C]. apply Z.leb_le in A. apply Z.ltb_lt in B.
           split; [exact A|]. split; [exact B|]. intros ->. apply Z.leb_le. exact C.
        -- intros ->. destruct (H5f eq_refl) as [A B]. split; [|exact B]. intros Hks. rewrite Hks in A. exact A.
        -- intros -> Hks. apply H5b; auto.
      * intros E; discriminate.
      * intros -> _ _. split.
        -- intros s0 Hks. rewrite Hks in H4. apply Z.eqb_eq in H4. subst. reflexivity.
        -- intros e0 Hke. exfalso. unfold completed in Hcomp. rewrite Hke in Hcomp. discriminate.
    + intros [Hwk [_ Hfix]]. destruct (Hwk eq_refl) as [s [e [Es [Ee [T [N [Wd [F B]]]]]]]]. rewrite Es, Ee in *.
      rewrite !andb_true_iff. split; [split; [split; [split|]|]|].
      * apply Z.eqb_eq. exact T.
      * apply nodup_z_spec. exact N.
      * apply forallb_forall. intros d Hd. destruct (Wd d Hd) as [A [B' C]]. rewrite !andb_true_iff.
        split; [split|]; [apply Z.leb_le; exact A | apply Z.ltb_lt; exact B' |].
        destruct fwd; [apply Z.leb_le; apply C; reflexivity | reflexivity].
      * destruct fwd; [|reflexivity]. destruct (k_start k) as [s0|] eqn:Hks; [|reflexivity].
        destruct (Hfix eq_refl Hleaf Hmil) as [A _]. specialize (A s0 Hks). inversion A. apply Z.eqb_refl.
      * apply c04_ends_spec. split.
        -- intros ->. destruct (F eq_refl) as [A B']. split; [|exact B'].
           destruct (k_start k) as [s0|] eqn:Hks.
           ++ intros _. destruct (Hfix eq_refl Hleaf Hmil) as [X _]. specialize (X s0 Hks). inversion X; reflexivity.
           ++ apply A; reflexivity.
        -- intros -> Hks. apply B; auto.
  - split.
    + intros H. apply andb_true_iff in H. destruct H as [H1 H2]. split; [intros E; discriminate|]. split.
      * intros _. destruct rs; [reflexivity | discriminate].
      * intros -> Hl Hm. unfold leafb in H2. fold k in H2. rewrite Hl, Hm in H2. cbn in H2.
        apply andb_true_iff in H2. destruct H2 as [A B]. split.
        -- intros s Hks. rewrite Hks in A. apply (opt_eqb_spec Z.eqb Z.eqb_eq) in A. exact A.
        -- intros e Hke. rewrite Hke in B. apply (opt_eqb_spec Z.eqb Z.eqb_eq) in B. exact B.
    + intros [_ [Hd Hfix]]. apply andb_true_iff. split.
      * specialize (Hd eq_refl). destruct rs; [reflexivity | discriminate].
      * destruct fwd; [|reflexivity]. cbn. unfold leafb. fold k.
        destruct (is_leaf k) eqn:Hl; [|reflexivity]. destruct (k_milestone k) eqn:Hm; [reflexivity|]. cbn.
        destruct (Hfix eq_refl eq_refl eq_refl) as [A B]. apply andb_true_iff. split.
        -- destruct (k_start k) as [s|]; [|reflexivity]. apply (opt_eqb_spec Z.eqb Z.eqb_eq). apply A; reflexivity.
        -- destruct (k_end k) as [e|]; [|reflexivity]. apply (opt_eqb_spec Z.eqb Z.eqb_eq). apply B; reflexivity.
Qed.

Theorem c04_b_spec fwd cfg w o :
  c04_b fwd cfg w o = true <-> forall t, In t (members w) -> c04_obs fwd cfg w o t.
Proof.
  unfold c04_b. rewrite forallb_forall. split; intros H t Ht; apply c04_task_b_spec; apply H; exact Ht.
Qed.

(* ---------- the model's own output passes the oracle ---------- *)
Lemma is_min_rev m l : is_min m (rev l) <-> is_min m l.
Proof.
  unfold is_min. split; intros [A B]; (split; [apply in_rev in A; try exact A; rewrite rev_involutive in A; exact A|]);
    intros d Hd; apply B; [apply -> in_rev; exact Hd | apply in_rev; exact Hd].
Qed.

Lemma is_max_rev m l : is_max m (rev l) <-> is_max m l.
Proof.
  unfold is_max. split; intros [A B]; (split; [apply in_rev in A; try exact A; rewrite rev_involutive in A; exact A|]);
    intros d Hd; apply B; [apply -> in_rev; exact Hd | apply in_rev; exact Hd].
Qed.

Lemma c04_task_st_rev fwd cfg k os oe total days :
  c04_task_st fwd cfg k os oe total days -> c04_task_st fwd cfg k os oe total (rev days).
Proof.
  intros [A [B C]]. split; [|split; [|exact C]].
  - intros Hw. destruct (A Hw) as [s [e [Hs [He [T [N [Wd [F Bk]]]]]]]]. exists s, e.
    split; [exact Hs|]. split; [exact He|]. split; [exact T|]. split; [apply NoDup_rev; exact N|].
    split; [|split].
    + intros d Hd. apply Wd. apply in_rev. exact Hd.
    + intros Hf. destruct (F Hf) as [F1 F2]. split.
      * intros Hks dmin Hm. apply F1; [exact Hks | apply is_min_rev; exact Hm].
      * intros dmax Hm. apply F2. apply is_max_rev. exact Hm.
    + intros Hf Hks dmin Hm. apply Bk; [exact Hf | exact Hks | apply is_min_rev; exact Hm].
  - intros Hw. rewrite (B Hw). reflexivity.
Qed.

Lemma c04_model_obs fwd cfg w st t : exts_last w -> In t (members w) ->
  c04_model fwd cfg w (dy st) (lg st) t -> c04_obs fwd cfg w (obs_of w st) t.
Proof.
  intros He Hin H. unfold c04_obs. destruct (obs_fields w st t He Hin) as [-> [-> _]].
  rewrite rows_of_obs, osum_rows_obs, days_rows_obs. apply c04_task_st_rev. exact H.
Qed.

Theorem C04_forward_oracle cfg w st :
  WFin w -> cap_nonneg cfg -> cap_small cfg -> exts_last w ->
  forward cfg w = Ok st -> c04_b true cfg w (obs_of w st) = true.
Proof.
  intros Hw Hc Hs He H. apply c04_b_spec. intros t Ht. apply c04_model_obs; try assumption.
  apply (C04_forward_holds cfg w st Hw Hc Hs H). apply in_members. exact Ht.
Qed.

Theorem C04_backward_oracle cfg w st :
  WFin w -> cap_nonneg cfg -> cap_small cfg -> exts_last w ->
  backward cfg w = Ok st -> c04_b false cfg w (obs_of w st) = true.
Proof.
  intros Hw Hc Hs He H. apply c04_b_spec. intros t Ht. apply c04_model_obs; try assumption.
  apply (C04_backward_holds cfg w st Hw Hc Hs H). apply in_members. exact Ht.
Qed.

(* ---------- the clauses one by one, in the words of the property ---------- *)
Definition reserved_days (st : sst) (t : nat) : list Z := map r_day (rows_t (lg st) t).
Definition reserved_total (st : sst) (t : nat) : Z := sum_units (rows_t (lg st) t).
Definition start_of (st : sst) (t : nat) : option Z := d_start (getd st t).
Definition end_of (st : sst) (t : nat) : option Z := d_end (getd st t).

(* exactly the remaining work, at most once per day *)
Lemma C04_conserve_once fwd cfg w st t :
  C04_statement fwd cfg w st -> k_ext (gett w t) = false -> worksb fwd (gett w t) = true ->
  reserved_total st t = remaining cfg (gett w t) /\ NoDup (reserved_days st t).
Proof.
  intros H He Hw. destruct (H t He) as [A _]. destruct (A Hw) as [s [e [_ [_ [T [N _]]]]]]. auto.
Qed.

(* every reserved day lies between the start day and the end; forward: not before the current day *)
Lemma C04_window fwd cfg w st t :
  C04_statement fwd cfg w st -> k_ext (gett w t) = false -> worksb fwd (gett w t) = true ->
  exists s e, start_of st t = Some s /\ end_of st t = Some e /\
    forall d, In d (reserved_days st t) -> day_of s <= d /\ DAY * d < e /\ (fwd = true -> day_of (now cfg) <= d).
Proof.
  intros H He Hw. destruct (H t He) as [A _]. destruct (A Hw) as [s [e [Hs [Hen [_ [_ [Wd _]]]]]]].
  exists s, e. auto.
Qed.

(* milestones, completed tasks and summary tasks reserve nothing *)
Lemma C04_nothing fwd cfg w st t :
  C04_statement fwd cfg w st -> k_ext (gett w t) = false -> worksb fwd (gett w t) = false ->
  rows_t (lg st) t = [].
Proof.
  intros H He Hw. destruct (H t He) as [_ [B _]]. specialize (B Hw). apply map_eq_nil in B. exact B.
Qed.

(* the forward scheduler returns user-fixed dates of non-milestone leaves unchanged *)
Lemma C04_fixed_dates cfg w st t :
  C04_statement true cfg w st -> k_ext (gett w t) = false ->
  is_leaf (gett w t) = true -> k_milestone (gett w t) = false ->
  (forall s, k_start (gett w t) = Some s -> start_of st t = Some s)
  /\ (forall e, k_end (gett w t) = Some e -> end_of st t = Some e).
Proof. intros H He Hl Hm. destruct (H t He) as [_ [_ C]]. exact (C eq_refl Hl Hm). Qed.
