(* C08, part 8: the model's own output passes the whole oracle c08_b. *)
From PJ Require Import Base.Prelude Sched.Model Sched.Machine Sched.Instances Sched.C03Proofs Sched.WfIn
     Sched.C08Run Sched.C08Step Sched.C08Proofs Sched.C08Leaves Sched.C08Check Sched.C08Oracle Sched.C08Order
     Sched.Check Sched.Oracles Sched.OracleProofs.

Theorem C08_model_passes_oracle_holds cfg w st o :
  cap_nonneg cfg -> WFin w -> c08_preorder w -> forward cfg w = Ok st -> c08_obs_agrees w st o ->
  c08_b cfg w o = true.
Proof.
  intros Hcn Hw Hp Hf Ha. unfold c08_b. apply andb_true_iff. split.
  - exact (C08_model_passes_task_oracle cfg w st o Hcn Hw Hf Ha).
  - apply c08_order_b_complete. destruct Ha as [Hr _]. rewrite Hr.
    exact (C08_order_holds cfg w st Hcn Hw Hp Hf).
Qed.

Lemma c08_members_first_spec w : c08_members_first_b w = true -> c08_members_first w.
Proof. unfold c08_members_first_b, c08_members_first. apply list_eqb_spec. apply Nat.eqb_eq. Qed.

Corollary C08_model_passes_oracle_obs_of cfg w st :
  cap_nonneg cfg -> WFin w -> c08_preorder w -> c08_members_first_b w = true -> forward cfg w = Ok st ->
  c08_b cfg w (obs_of w st) = true.
Proof.
  intros Hcn Hw Hp Hm Hf.
  exact (C08_model_passes_oracle_holds cfg w st _ Hcn Hw Hp Hf (c08_obs_of_agrees w st (c08_members_first_spec w Hm))).
Qed.
