(* C08, part 7: leaf tasks that take part in no dependency are calculated - hence receive their
   reservations - in WBS order.  Unlike the other scheduler theorems this one is about the order in
   which the recursive pass visits the tasks, so it is proved on [gpass] itself, not on the abstract
   machine. *)
From PJ Require Import Base.Prelude Sched.Model Sched.LedgerProofs Sched.Primitives Sched.Machine
     Sched.Instances Sched.C03Proofs Sched.WfIn Sched.C08Run Sched.C08Step Sched.C08Proofs Sched.C08Leaves
     Sched.C08Check Sched.Check Sched.Oracles.

(* the tasks the clause is about: members that are unlinked free leaves *)
Definition c08_q (w : list itask) (t : nat) : bool := unlinked w t && negb (k_ext (gett w t)).

Lemma c08_q_facts w q : c08_q w q = true ->
  k_ext (gett w q) = false /\ free_leaf w q = true /\ k_children (gett w q) = []
  /\ prereqs w q = [] /\ dependants w q = [].
Proof.
  unfold c08_q, unlinked. intros H. rewrite !andb_true_iff in H. destruct H as [[[A B] C] D].
  apply negb_true_iff in D. split; [exact D|]. split; [exact A|].
  destruct (c08_free_leaf_inv _ _ A) as [L _]. unfold is_leaf in L.
  destruct (k_children (gett w q)); [|discriminate].
  destruct (prereqs w q); [|discriminate]. destruct (dependants w q); [|discriminate]. auto.
Qed.

(* ---------- more of WFin ---------- *)
Lemma c08_ext_no_links w z : WFin w -> k_ext (gett w z) = true ->
  k_children (gett w z) = [] /\ k_preds (gett w z) = [].
Proof.
  intros H Hext. destruct (Nat.lt_ge_cases z (length w)) as [L|G].
  - unfold WFin, wfin_b in H. rewrite forallb_forall in H. specialize (H z ltac:(apply in_seq; lia)).
    unfold is_ext in H. rewrite Hext in H. unfold wfin_ext_b in H.
    destruct (k_parent (gett w z)); [discriminate|]. destruct (k_children (gett w z)); [|discriminate].
    destruct (k_preds (gett w z)); [|discriminate]. auto.
  - unfold gett. rewrite nth_overflow by exact G. auto.
Qed.

(* a declared predecessor inside the WBS lists the task among its successors *)
Lemma c08_pred_mirror w z y : WFin w -> k_ext (gett w z) = false -> In y (k_preds (gett w z)) ->
  k_ext (gett w y) = false -> In z (k_succs (gett w y)).
Proof.
  intros H Hz Hy Hyext. pose proof (c08_wfin_member w z H Hz) as M. unfold wfin_member_b in M.
  repeat (apply andb_true_iff in M; let X := fresh "X" in destruct M as [M X]).
  assert (HP : forallb (fun p => in_range w p && negb (Nat.eqb p z)
                                 && (is_ext w p || memb z (k_succs (gett w p)))) (k_preds (gett w z)) = true) by assumption.
  rewrite forallb_forall in HP. specialize (HP y Hy). apply andb_true_iff in HP. destruct HP as [_ A].
  unfold is_ext in A. rewrite Hyext in A. simpl in A. apply memb_true. exact A.
Qed.

(* whatever a task waits for has a successor *)
Lemma c08_prereq_has_succ w x y : WFin w -> In y (prereqs w x) -> k_ext (gett w y) = false ->
  k_succs (gett w y) <> [].
Proof.
  intros H Hy Hyext. unfold prereqs in Hy.
  assert (Hz : exists z, In y (k_preds (gett w z))).
  { apply in_app_or in Hy. destruct Hy as [Hy|Hy]; [exists x; exact Hy|].
    apply in_flat_map in Hy. destruct Hy as [z [_ Hz]]. exists z. exact Hz. }
  destruct Hz as [z Hz]. destruct (k_ext (gett w z)) eqn:Hzext.
  - destruct (c08_ext_no_links w z H Hzext) as [_ E]. rewrite E in Hz. destruct Hz.
  - pose proof (c08_pred_mirror w z y H Hzext Hz Hyext) as Hin. intro E. rewrite E in Hin. destruct Hin.
Qed.

(* ---------- ancestors ---------- *)
Definition c08_anc_or_self (w : list itask) (a t : nat) : Prop := a = t \/ In a (ancestors w (length w) t).

Lemma c08_anc_parent_closed w : forall n q v u,
  In v (ancestors w n q) -> k_parent (gett w v) = Some u -> (length (ancestors w n q) < n)%nat ->
  In u (ancestors w n q).
Proof.
  induction n as [|n IH]; intros q v u Hv Hp Hlen; simpl in *; [destruct Hv|].
  destruct (k_parent (gett w q)) as [p|] eqn:Hq; [|destruct Hv]. simpl in Hlen.
  destruct Hv as [<-|Hv].
  - right. destruct n as [|n]; [simpl in Hlen; lia|]. simpl. rewrite Hp. left. reflexivity.
  - right. apply (IH p v u Hv Hp). lia.
Qed.

Lemma c08_flat_map_nil {A B} (f : A -> list B) l : flat_map f l = [] -> forall a, In a l -> f a = [].
Proof.
  induction l as [|x l IH]; intros H a Ha; [destruct Ha|]. simpl in H. apply app_eq_nil in H. destruct H as [H1 H2].
  destruct Ha as [<-|Ha]; [exact H1 | apply IH; assumption].
Qed.

Lemma c08_q_anc_no_succ w q a : c08_q w q = true -> c08_anc_or_self w a q -> k_succs (gett w a) = [].
Proof.
  intros Hq Ha. destruct (c08_q_facts w q Hq) as [_ [_ [_ [_ Hd]]]]. unfold dependants in Hd.
  apply app_eq_nil in Hd. destruct Hd as [H1 H2]. destruct Ha as [->|Ha]; [exact H1|].
  apply (c08_flat_map_nil _ _ H2 a Ha).
Qed.

Lemma c08_anc_or_self_member w q a : WFin w -> k_ext (gett w q) = false -> c08_anc_or_self w a q ->
  k_ext (gett w a) = false.
Proof. intros H Hq [->|Ha]; [exact Hq | eapply c08_anc_members; eauto]. Qed.

(* ---------- what a call of the pass can calculate ---------- *)
Inductive c08_reach (w : list itask) : nat -> nat -> Prop :=
| c08_reach_refl u : c08_reach w u u
| c08_reach_step u v t : In v (prereqs w u ++ k_children (gett w u)) -> c08_reach w v t -> c08_reach w u t.

(* a task of the clause is only reached from above, through the hierarchy *)
Lemma c08_reach_q w u q : WFin w -> c08_q w q = true -> c08_reach w u q -> c08_anc_or_self w u q.
Proof.
  intros H Hq. destruct (c08_q_facts w q Hq) as [Hqext _].
  induction 1 as [u|u v t Hv Hr IH]; [left; reflexivity|]. specialize (IH Hq Hqext).
  pose proof (c08_anc_or_self_member w t v H Hqext IH) as Hvext.
  apply in_app_or in Hv. destruct Hv as [Hv|Hv].
  - exfalso. apply (c08_prereq_has_succ w u v H Hv Hvext). apply (c08_q_anc_no_succ w t v Hq IH).
  - destruct (k_ext (gett w u)) eqn:Huext.
    { destruct (c08_ext_no_links w u H Huext) as [E _]. rewrite E in Hv. destruct Hv. }
    destruct (mf_children _ _ (c08_member_facts_of w u H Huext) v Hv) as [_ Hp].
    right. destruct IH as [->|IH].
    + pose proof (c08_in_range w t Hqext) as Hr'. destruct (length w) as [|n]; [lia|]. simpl. rewrite Hp. left. reflexivity.
    + apply (c08_anc_parent_closed w (length w) t v u IH Hp). apply c08_anc_short; assumption.
Qed.

Notation c08_fg cfg w := (Model.gpass w (fdeps w) (fkids w) (fbnd cfg) (fwd_compute cfg w)).

Lemma c08_fold_new w (f : sst -> nat -> res sst) :
  (forall s a s', f s a = Ok s' -> exists new, calc s' = new ++ calc s /\ forall t, In t new -> c08_reach w a t) ->
  forall l s s', fold_res f l s = Ok s' ->
    exists new, calc s' = new ++ calc s /\ forall t, In t new -> exists a, In a l /\ c08_reach w a t.
Proof.
  intros Hf. induction l as [|a l IHl]; intros s s'; simpl.
  - intros H; inversion H; subst. exists []. split; [reflexivity | intros t []].
  - destruct (f s a) as [s1| |] eqn:E; simpl; try discriminate. intros H.
    destruct (Hf _ _ _ E) as [n1 [A1 B1]]. destruct (IHl _ _ H) as [n2 [A2 B2]].
    exists (n2 ++ n1). split; [rewrite A2, A1, app_assoc; reflexivity|].
    intros t Ht. apply in_app_or in Ht. destruct Ht as [Ht|Ht].
    + destruct (B2 t Ht) as [b [Hb Hr]]. exists b. split; [right; exact Hb | exact Hr].
    + exists a. split; [left; reflexivity | apply B1; exact Ht].
Qed.

(* a call of the pass on u calculates only tasks reachable from u *)
Lemma c08_gpass_new cfg w : forall fuel st u st', c08_fg cfg w fuel st u = Ok st' ->
  exists new, calc st' = new ++ calc st /\ forall t, In t new -> c08_reach w u t.
Proof.
  induction fuel as [|f IH]; intros st u st'; simpl; [discriminate|].
  destruct (k_ext (gett w u)). { intros H; inversion H; subst. exists []. split; [reflexivity | intros t []]. }
  destruct (memb u (calc st)). { intros H; inversion H; subst. exists []. split; [reflexivity | intros t []]. }
  destruct (memb u (inprog st)); [discriminate|].
  destruct (fold_res (c08_fg cfg w f) (fdeps w u) (enter st u)) as [st2| |] eqn:E2; simpl; try discriminate.
  destruct (fold_res (c08_fg cfg w f) (fkids w u) st2) as [st3| |] eqn:E3; simpl; try discriminate.
  destruct (fwd_compute cfg w (dy st3) (lg st3) u (fbnd cfg (dy st2) (fdeps w u))) as [r| |] eqn:Ec; simpl; try discriminate.
  intros H; inversion H; subst st'. clear H.
  destruct (c08_fold_new w _ IH _ _ _ E2) as [n2 [A2 B2]]. destruct (c08_fold_new w _ IH _ _ _ E3) as [n3 [A3 B3]].
  exists (u :: n3 ++ n2). split.
  - simpl. rewrite A3, A2. simpl. rewrite app_assoc. reflexivity.
  - intros t [<-|Ht]; [constructor|]. apply in_app_or in Ht. destruct Ht as [Ht|Ht].
    + destruct (B3 t Ht) as [a [Ha Hr]]. eapply c08_reach_step; [|exact Hr]. apply in_or_app. right. exact Ha.
    + destruct (B2 t Ht) as [a [Ha Hr]]. eapply c08_reach_step; [|exact Hr]. apply in_or_app. left. exact Ha.
Qed.

(* waiting for the prerequisites calculates no task of the clause *)
Lemma c08_deps_quiet cfg w f u st st2 : WFin w ->
  fold_res (c08_fg cfg w f) (fdeps w u) st = Ok st2 ->
  filter (c08_q w) (calc st2) = filter (c08_q w) (calc st).
Proof.
  intros H E. destruct (c08_fold_new w _ (c08_gpass_new cfg w f) _ _ _ E) as [new [A B]].
  rewrite A, filter_app, (c08_filter_none _ new); [reflexivity|].
  intros t Ht. destruct (c08_q w t) eqn:Eq; [exfalso | reflexivity].
  destruct (B t Ht) as [a [Ha Hr]]. pose proof (c08_reach_q w a t H Eq Hr) as Hanc.
  destruct (c08_q_facts w t Eq) as [Htext _].
  apply (c08_prereq_has_succ w u a H Ha (c08_anc_or_self_member w t a H Htext Hanc)).
  apply (c08_q_anc_no_succ w t a Eq Hanc).
Qed.

(* ---------- the order of calculation follows the walk ---------- *)
Definition c08_J (w : list itask) (s : sst) (L : list nat) : Prop :=
  filter (c08_q w) (calc s) = rev (filter (c08_q w) L).

Lemma c08_nodup_app_disj {A} (a b : list A) x : NoDup (a ++ b) -> In x a -> In x b -> False.
Proof.
  induction a as [|y a IH]; intros Hn Ha Hb; [destruct Ha|]. simpl in Hn. inversion Hn as [|? ? Hy Hn']; subst.
  destruct Ha as [->|Ha]; [apply Hy; apply in_or_app; right; exact Hb | exact (IH Hn' Ha Hb)].
Qed.

Lemma c08_nodup_app_l {A} (a b : list A) : NoDup (a ++ b) -> NoDup a.
Proof.
  induction a as [|y a IH]; intros Hn; [constructor|]. simpl in Hn. inversion Hn as [|? ? Hy Hn']; subst.
  constructor; [intro Hin; apply Hy; apply in_or_app; left; exact Hin | exact (IH Hn')].
Qed.

Lemma c08_dfs_calc w c : WFin w -> c08_closed w c ->
  forall f u, In u (c_calc c) -> k_ext (gett w u) = false -> forall q, In q (c08_dfs w f u) -> In q (c_calc c).
Proof.
  intros H Hcl. induction f as [|f IH]; intros u Hu Hext q Hq; simpl in Hq; [destruct Hq|].
  destruct Hq as [<-|Hq]; [exact Hu|]. apply in_flat_map in Hq. destruct Hq as [ch [Hch Hq]].
  destruct (mf_children _ _ (c08_member_facts_of w u H Hext) ch Hch) as [Hce _].
  destruct (Hcl u Hu ch Hch) as [R|R]; [congruence|]. exact (IH ch R Hce q Hq).
Qed.

Lemma c08_fold_order w (f : sst -> nat -> res sst) (d : nat -> list nat) :
  (forall s a s' L, f s a = Ok s' -> k_ext (gett w a) = false -> c08_closed w (core_of s) -> c08_J w s L ->
       NoDup (L ++ d a) -> c08_J w s' (L ++ d a) /\ c08_closed w (core_of s')) ->
  forall cs s s' L0, fold_res f cs s = Ok s' -> (forall c, In c cs -> k_ext (gett w c) = false) ->
    c08_closed w (core_of s) -> c08_J w s L0 -> NoDup (L0 ++ flat_map d cs) ->
    c08_J w s' (L0 ++ flat_map d cs) /\ c08_closed w (core_of s').
Proof.
  intros Hf. induction cs as [|c cs IHc]; intros s s' L0; simpl.
  - intros E _ Hcl HJ _. inversion E; subst. rewrite app_nil_r. split; assumption.
  - destruct (f s c) as [s1| |] eqn:E1; simpl; try discriminate. intros E Hm Hcl HJ Hnd.
    rewrite app_assoc in Hnd |- *.
    destruct (Hf s c s1 L0 E1 (Hm c (or_introl eq_refl)) Hcl HJ (c08_nodup_app_l _ _ Hnd)) as [HJ1 Hcl1].
    apply (IHc s1 s' (L0 ++ d c) E (fun x Hx => Hm x (or_intror Hx)) Hcl1 HJ1 Hnd).
Qed.

Lemma c08_gpass_closed cfg w fuel st u st' :
  c08_fg cfg w fuel st u = Ok st' -> c08_closed w (core_of st) -> c08_closed w (core_of st').
Proof.
  intros Hg Hcl.
  destruct (gpass_refines w (fdeps w) (fkids w) (fbnd cfg) (fwd_compute cfg w) (fwd_compute_frame cfg w)
              (fun ds ds' pre => bound_max_ext (pbound cfg) ds ds' pre) fuel st u st' Hg) as [Hs _].
  exact (c08_closed_fsteps cfg w _ _ _ Hs Hcl).
Qed.

Lemma c08_fold_closed cfg w fuel l st st' :
  fold_res (c08_fg cfg w fuel) l st = Ok st' -> c08_closed w (core_of st) -> c08_closed w (core_of st').
Proof.
  intros Hg Hcl.
  destruct (fold_gpass_refines w (fdeps w) (fkids w) (fbnd cfg) (fwd_compute cfg w) (fwd_compute_frame cfg w)
              (fun ds ds' pre => bound_max_ext (pbound cfg) ds ds' pre) fuel l st st' Hg) as [Hs _].
  exact (c08_closed_fsteps cfg w _ _ _ Hs Hcl).
Qed.

Lemma c08_gpass_order cfg w : WFin w -> forall fuel st u st' L,
  c08_fg cfg w fuel st u = Ok st' -> k_ext (gett w u) = false -> c08_closed w (core_of st) -> c08_J w st L ->
  NoDup (L ++ c08_dfs w fuel u) -> c08_J w st' (L ++ c08_dfs w fuel u) /\ c08_closed w (core_of st').
Proof.
  intros H. induction fuel as [|f IH]; intros st u st' L Hg Hext Hcl HJ Hnd; [discriminate|].
  split; [|exact (c08_gpass_closed cfg w _ _ _ _ Hg Hcl)].
  simpl in Hg. rewrite Hext in Hg. destruct (memb u (calc st)) eqn:Hc.
  - (* calculated earlier, as somebody's prerequisite: nothing of the clause lies below u *)
    inversion Hg; subst st'. apply memb_true in Hc. unfold c08_J. rewrite filter_app.
    rewrite (c08_filter_none _ (c08_dfs w (S f) u)); [rewrite app_nil_r; exact HJ|].
    intros q Hq. destruct (c08_q w q) eqn:Eq; [exfalso | reflexivity].
    pose proof (c08_dfs_calc w (core_of st) H Hcl (S f) u Hc Hext q Hq) as Hqc. simpl in Hqc.
    assert (HqL : In q L).
    { assert (A : In q (filter (c08_q w) (calc st))) by (apply filter_In; auto).
      rewrite HJ in A. apply in_rev in A. apply filter_In in A. tauto. }
    exact (c08_nodup_app_disj _ _ _ Hnd HqL Hq).
  - destruct (memb u (inprog st)); [discriminate|].
    destruct (fold_res (c08_fg cfg w f) (fdeps w u) (enter st u)) as [st2| |] eqn:E2; simpl in Hg; try discriminate.
    destruct (fold_res (c08_fg cfg w f) (fkids w u) st2) as [st3| |] eqn:E3; simpl in Hg; try discriminate.
    destruct (fwd_compute cfg w (dy st3) (lg st3) u (fbnd cfg (dy st2) (fdeps w u))) as [r| |] eqn:Ec; simpl in Hg; try discriminate.
    inversion Hg; subst st'. clear Hg.
    pose proof (c08_deps_quiet cfg w f u _ _ H E2) as Q2. change (calc (enter st u)) with (calc st) in Q2.
    assert (Hcl2 : c08_closed w (core_of st2)) by (apply (c08_fold_closed cfg w f _ _ _ E2); exact Hcl).
    unfold c08_J. cbn [calc leave c08_dfs]. destruct (c08_q w u) eqn:Equ.
    + (* a task of the clause: a leaf *)
      destruct (c08_q_facts w u Equ) as [_ [_ [Hch _]]]. unfold fkids in E3. rewrite Hch in E3 |- *.
      simpl in E3. inversion E3; subst st3. cbn [flat_map filter]. rewrite Equ.
      rewrite filter_app. cbn [filter]. rewrite Equ, rev_app_distr. simpl. rewrite Q2, HJ. reflexivity.
    + assert (HJ2 : c08_J w st2 (L ++ [u])).
      { unfold c08_J. rewrite filter_app. cbn [filter]. rewrite Equ, app_nil_r, Q2. exact HJ. }
      assert (Hnd2 : NoDup ((L ++ [u]) ++ flat_map (c08_dfs w f) (fkids w u))).
      { rewrite <- app_assoc. exact Hnd. }
      destruct (c08_fold_order w (c08_fg cfg w f) (c08_dfs w f) IH (fkids w u) st2 st3 (L ++ [u]) E3
                  (fun c Hc' => proj1 (mf_children _ _ (c08_member_facts_of w u H Hext) c Hc')) Hcl2 HJ2 Hnd2) as [HJ3 _].
      cbn [filter]. rewrite Equ. unfold c08_J in HJ3. rewrite HJ3, <- app_assoc. reflexivity.
Qed.

(* ---------- the whole run ---------- *)
Definition c08_preorder (w : list itask) : Prop := c08_preorder_b w = true.

Lemma c08_preorder_walk w : c08_preorder w -> c08_walk w = members w.
Proof. unfold c08_preorder, c08_preorder_b. apply list_eqb_spec. apply Nat.eqb_eq. Qed.

Lemma c08_members_nodup w : NoDup (members w).
Proof. unfold members. apply NoDup_filter. apply seq_NoDup. Qed.

Lemma c08_root_member w t : In t (roots w) -> k_ext (gett w t) = false.
Proof.
  unfold roots, members. intros Ht. apply filter_In in Ht. destruct Ht as [Ht _].
  apply filter_In in Ht. destruct Ht as [_ Ht]. apply negb_true_iff in Ht. exact Ht.
Qed.

(* the tasks of the clause are calculated in the order of their numbers (newest first in [calc]) *)
Theorem c08_calc_order cfg w st : WFin w -> c08_preorder w -> forward cfg w = Ok st ->
  filter (c08_q w) (calc st) = rev (filter (c08_q w) (members w)).
Proof.
  intros H Hp Hf. unfold forward in Hf.
  destruct (isolated_ok w); cbn [negb] in Hf; [|discriminate Hf].
  destruct (no_future_ends w (now cfg)); cbn [negb] in Hf; [|discriminate Hf].
  change (fold_res (c08_fg cfg w (S (S (length w)))) (roots w) (init_state w) = Ok st) in Hf.
  destruct (c08_fold_order w (c08_fg cfg w (S (S (length w)))) (c08_dfs w (S (S (length w))))
              (c08_gpass_order cfg w H (S (S (length w)))) (roots w) (init_state w) st [] Hf
              (c08_root_member w)) as [HJ _].
  - intros p [].
  - reflexivity.
  - change (NoDup (c08_walk w)). rewrite (c08_preorder_walk w Hp). apply c08_members_nodup.
  - unfold c08_J in HJ. change (filter (c08_q w) (calc st) = rev (filter (c08_q w) (c08_walk w))) in HJ.
    rewrite (c08_preorder_walk w Hp) in HJ. exact HJ.
Qed.

(* ---------- the ledger is made of one block of rows per calculated task, newest first ---------- *)
Inductive c08_blocks : list nat -> ledger -> Prop :=
| c08_blocks_nil : c08_blocks [] []
| c08_blocks_cons t k new l : c08_blocks k l -> (forall x, In x new -> r_task x = t) -> c08_blocks (t :: k) (new ++ l).

Definition c08_inv3 (cfg : config) (w : list itask) (c : core) : Prop :=
  c08_inv cfg w c /\ c08_blocks (c_calc c) (c_lg c) /\ NoDup (c_calc c).

Lemma c08_inv3_final cfg w st : cap_nonneg cfg -> forward cfg w = Ok st -> c08_inv3 cfg w (core_of st).
Proof.
  intros Hcn Hf. destruct (forward_is_run _ _ _ Hf) as [Hrun _]. unfold fsteps in Hrun.
  apply (gsteps_inv w (fdeps w) (fkids w) (fbnd cfg) (fwd_compute cfg w) (c08_inv3 cfg w) [] (init_core w) (core_of st)); [|exact Hrun|].
  - intros c t c' [Hi [Hb Hn]] Hs. split; [eapply c08_inv_fstep; eauto|].
    destruct Hi as [[Hok _] _]. destruct Hs as [c t r Hext Hnot _ _ Hc]. destruct r as [ds' l']. simpl.
    destruct (fwd_compute_ledger _ _ _ _ _ _ _ _ Hc Hok) as [[new [Ha Hr]] _]. split.
    + rewrite Ha. constructor; [exact Hb|]. intros x Hx. destruct (Hr x Hx) as [_ [A _]]. exact A.
    + constructor; assumption.
  - split; [apply c08_inv_init; exact Hcn|]. split; constructor.
Qed.

Lemma c08_blocks_tasks k l : c08_blocks k l -> forall x, In x l -> In (r_task x) k.
Proof.
  induction 1 as [|t k new l Hb IH Hn]; intros x Hx; [destruct Hx|].
  apply in_app_or in Hx. destruct Hx as [Hx|Hx]; [left; symmetry; apply Hn; exact Hx | right; apply IH; exact Hx].
Qed.

Lemma c08_blocks_split A t B l : c08_blocks (A ++ t :: B) l ->
  exists lA new lB, l = lA ++ new ++ lB /\ (forall x, In x lA -> In (r_task x) A)
                    /\ (forall x, In x new -> r_task x = t) /\ (forall x, In x lB -> In (r_task x) B).
Proof.
  revert l. induction A as [|a A IH]; intros l Hb; simpl in Hb; inversion Hb as [|t0 k new l0 Hb0 Hn]; subst.
  - exists [], new, l0. split; [reflexivity|]. split; [intros x []|]. split; [exact Hn | apply c08_blocks_tasks; exact Hb0].
  - destruct (IH l0 Hb0) as [lA [new' [lB [E [HA [Hnew HB]]]]]]. exists (new ++ lA), new', lB.
    split; [rewrite E, app_assoc; reflexivity|]. split; [|split; assumption].
    intros x Hx. apply in_app_or in Hx. destruct Hx as [Hx|Hx]; [left; symmetry; apply Hn; exact Hx | right; apply HA; exact Hx].
Qed.

(* ---------- list lemmas ---------- *)
Lemma c08_filter_split {A} (f : A -> bool) l : forall X y Y, filter f l = X ++ y :: Y ->
  exists P R, l = P ++ y :: R /\ filter f P = X /\ filter f R = Y.
Proof.
  induction l as [|a l IH]; intros X y Y E; simpl in E; [destruct X; discriminate|].
  destruct (f a) eqn:Fa.
  - destruct X as [|x X]; simpl in E; inversion E; subst.
    + exists [], l. split; [reflexivity|]. split; reflexivity.
    + destruct (IH X y Y H1) as [P [R [E1 [E2 E3]]]]. exists (x :: P), R. subst l. simpl. rewrite Fa, E2. auto.
  - destruct (IH X y Y E) as [P [R [E1 [E2 E3]]]]. exists (a :: P), R. subst l. simpl. rewrite Fa. auto.
Qed.

Lemma c08_filter_seq_sorted (g : nat -> bool) : forall n s P a R, filter g (seq s n) = P ++ a :: R ->
  forall b, In b R -> (a < b)%nat.
Proof.
  induction n as [|n IH]; intros s P a R E b Hb; simpl in E; [destruct P; discriminate|].
  destruct (g s).
  - destruct P as [|p P]; simpl in E; injection E as Ea ER.
    + subst a. rewrite <- ER in Hb. apply filter_In in Hb. destruct Hb as [Hin _]. apply in_seq in Hin. lia.
    + exact (IH (S s) P a R ER b Hb).
  - exact (IH (S s) P a R E b Hb).
Qed.

Lemma c08_filter_filter {A} (f h : A -> bool) l : (forall x, f x = true -> h x = true) ->
  filter f (filter h l) = filter f l.
Proof.
  intros Hfh. induction l as [|x l IH]; simpl; [reflexivity|]. destruct (h x) eqn:Hx; simpl.
  - rewrite IH. reflexivity.
  - destruct (f x) eqn:Fx; [rewrite (Hfh x Fx) in Hx; discriminate | exact IH].
Qed.

Lemma c08_q_members w : filter (c08_q w) (members w) = filter (c08_q w) (seq 0 (length w)).
Proof. unfold members. apply c08_filter_filter. intros x Hx. unfold c08_q in Hx. apply andb_true_iff in Hx. tauto. Qed.

Lemma c08_first_index_skip a b t : forall k, (forall x, In x a -> row_task x <> t) ->
  first_index (a ++ b) t k = first_index b t (k + length a).
Proof.
  induction a as [|x a IH]; intros k H; simpl; [f_equal; lia|].
  destruct (Nat.eqb_spec (row_task x) t) as [E|E]; [exfalso; apply (H x); [left; reflexivity | exact E]|].
  rewrite IH by (intros y Hy; apply H; right; exact Hy). f_equal. lia.
Qed.

Lemma c08_first_index_ge l t : forall k j, first_index l t k = Some j -> (k <= j)%nat.
Proof.
  induction l as [|x l IH]; intros k j E; simpl in E; [discriminate|].
  destruct (Nat.eqb (row_task x) t); [inversion E; lia | specialize (IH _ _ E); lia].
Qed.

Lemma c08_first_index_lt a b t : forall k i, first_index (a ++ b) t k = Some i ->
  (exists x, In x a /\ row_task x = t) -> (i < k + length a)%nat.
Proof.
  induction a as [|x a IH]; intros k i E [y [Hy Ht]]; [destruct Hy|]. simpl in E |- *.
  destruct (Nat.eqb_spec (row_task x) t) as [Ex|Ex]; [inversion E; lia|].
  destruct Hy as [->|Hy]; [contradiction|]. specialize (IH (S k) i E (ex_intro _ y (conj Hy Ht))). lia.
Qed.

Lemma c08_first_index_in l t : forall k i, first_index l t k = Some i -> exists x, In x l /\ row_task x = t.
Proof.
  induction l as [|x l IH]; intros k i E; simpl in E; [discriminate|].
  destruct (Nat.eqb_spec (row_task x) t) as [Ex|Ex]; [exists x; split; [left; reflexivity | exact Ex]|].
  destruct (IH _ _ E) as [y [Hy Ht]]. exists y. split; [right; exact Hy | exact Ht].
Qed.

(* ---------- (c) the first rows of the tasks of the clause appear in WBS order ---------- *)
Definition c08_order_statement (w : list itask) (rows : list obs_row) : Prop :=
  forall t1 t2 i j, c08_q w t1 = true -> c08_q w t2 = true -> (t1 < t2)%nat ->
    first_index rows t1 0 = Some i -> first_index rows t2 0 = Some j -> (i < j)%nat.

Theorem C08_order_holds cfg w st :
  cap_nonneg cfg -> WFin w -> c08_preorder w -> forward cfg w = Ok st ->
  c08_order_statement w (model_rows st).
Proof.
  intros Hcn H Hp Hf t1 t2 i j Q1 Q2 Hlt F1 F2.
  pose proof (c08_calc_order cfg w st H Hp Hf) as Hord. rewrite c08_q_members in Hord.
  destruct (c08_inv3_final cfg w st Hcn Hf) as [_ [Hblocks Hnd]]. simpl in Hblocks, Hnd.
  destruct (c08_q_facts w t1 Q1) as [E1 _]. destruct (c08_q_facts w t2 Q2) as [E2 _].
  set (M := filter (c08_q w) (seq 0 (length w))) in *.
  assert (M1 : In t1 M) by (apply filter_In; split; [apply in_seq; pose proof (c08_in_range w t1 E1); lia | exact Q1]).
  assert (M2 : In t2 M) by (apply filter_In; split; [apply in_seq; pose proof (c08_in_range w t2 E2); lia | exact Q2]).
  destruct (in_split t2 M M2) as [P [R EM]].
  assert (HP : In t1 P).
  { rewrite EM in M1. apply in_app_or in M1. destruct M1 as [A|[A|A]]; [exact A | lia |].
    pose proof (c08_filter_seq_sorted (c08_q w) _ _ _ _ _ EM t1 A). lia. }
  rewrite EM, rev_app_distr in Hord. simpl in Hord. rewrite <- app_assoc in Hord. simpl in Hord.
  destruct (c08_filter_split _ _ _ _ _ Hord) as [A [B [Ecalc [_ EB]]]].
  assert (HB : In t1 B).
  { assert (X : In t1 (filter (c08_q w) B)) by (rewrite EB; apply -> in_rev; exact HP). apply filter_In in X. tauto. }
  rewrite Ecalc in Hblocks, Hnd.
  destruct (c08_blocks_split A t2 B _ Hblocks) as [lA [new [lB [Elg [HlA [Hnew HlB]]]]]].
  assert (HnA : ~ In t1 A) by (intro X; exact (c08_nodup_app_disj _ _ _ Hnd X (or_intror HB))).
  assert (Hn2 : ~ In t2 B).
  { apply NoDup_remove_2 in Hnd. intro X. apply Hnd. apply in_or_app. right. exact X. }
  rewrite (c08_model_rows_split st lA new lB Elg) in F1, F2.
  set (a := map row_obs (rev lB)) in *.
  assert (Ha2 : forall x, In x a -> row_task x <> t2).
  { intros x Hx E. apply in_map_iff in Hx. destruct Hx as [y [<- Hy]]. apply in_rev in Hy.
    apply Hn2. rewrite <- E. apply HlB. exact Hy. }
  rewrite (c08_first_index_skip a _ t2 0 Ha2) in F2. apply c08_first_index_ge in F2.
  assert (Ha1 : exists x, In x a /\ row_task x = t1).
  { destruct (c08_first_index_in _ _ _ _ F1) as [x [Hx Ex]]. exists x. split; [|exact Ex].
    apply in_app_or in Hx. destruct Hx as [Hx|Hx]; [exact Hx | exfalso].
    apply in_app_or in Hx. destruct Hx as [Hx|Hx]; apply in_map_iff in Hx; destruct Hx as [y [<- Hy]]; apply in_rev in Hy.
    - specialize (Hnew y Hy). unfold row_obs, row_task in Ex. lia.
    - apply HnA. rewrite <- Ex. apply HlA. exact Hy. }
  pose proof (c08_first_index_lt a _ t1 0 i F1 Ha1). lia.
Qed.

(* the oracle's order clause means that statement ... *)
Lemma c08_increasing_cons i rest : increasing rest = true -> (forall j, In j rest -> (i < j)%nat) -> increasing (i :: rest) = true.
Proof.
  intros Hr Hi. destruct rest as [|j r]; [reflexivity|]. simpl. apply andb_true_iff. split; [|exact Hr].
  apply Nat.ltb_lt. apply Hi. left. reflexivity.
Qed.

Lemma c08_increasing_somes (fi : nat -> option nat) M :
  (forall P a R, M = P ++ a :: R -> forall b, In b R -> forall i j, fi a = Some i -> fi b = Some j -> (i < j)%nat) ->
  increasing (somes (map fi M)) = true.
Proof.
  induction M as [|a M IH]; intros H; [reflexivity|]. simpl map.
  assert (IH' : increasing (somes (map fi M)) = true).
  { apply IH. intros P a' R E. apply (H (a :: P) a' R). rewrite E. reflexivity. }
  simpl somes. destruct (fi a) as [i|] eqn:Fa; [|exact IH'].
  apply c08_increasing_cons; [exact IH'|]. intros j Hj.
  assert (X : exists b, In b M /\ fi b = Some j).
  { clear - Hj. induction M as [|b M IHM]; simpl in Hj; [destruct Hj|].
    destruct (fi b) as [k|] eqn:Fb.
    - destruct Hj as [->|Hj]; [exists b; split; [left; reflexivity | exact Fb]|].
      destruct (IHM Hj) as [c [Hc Fc]]. exists c. split; [right; exact Hc | exact Fc].
    - destruct (IHM Hj) as [c [Hc Fc]]. exists c. split; [right; exact Hc | exact Fc]. }
  destruct X as [b [Hb Fb]]. exact (H [] a M eq_refl b Hb i j Fa Fb).
Qed.

Theorem c08_order_b_complete w o : c08_order_statement w (o_rows o) -> c08_order_b w o = true.
Proof.
  intros H. unfold c08_order_b.
  assert (E : filter (unlinked w) (members w) = filter (c08_q w) (seq 0 (length w))).
  { rewrite <- c08_q_members. apply filter_ext_in. intros t Ht. unfold c08_q.
    unfold members in Ht. apply filter_In in Ht. destruct Ht as [_ Ht]. rewrite Ht, andb_true_r. reflexivity. }
  rewrite E. apply c08_increasing_somes. intros P a R EM b Hb i j Fa Fb.
  assert (Qa : c08_q w a = true).
  { assert (X : In a (filter (c08_q w) (seq 0 (length w)))) by (rewrite EM; apply in_or_app; right; left; reflexivity).
    apply filter_In in X. tauto. }
  assert (Qb : c08_q w b = true).
  { assert (X : In b (filter (c08_q w) (seq 0 (length w)))) by (rewrite EM; apply in_or_app; right; right; exact Hb).
    apply filter_In in X. tauto. }
  exact (H a b i j Qa Qb (c08_filter_seq_sorted _ _ _ _ _ _ EM b Hb) Fa Fb).
Qed.

(* ... and conversely *)
Lemma c08_increasing_tail a l : increasing (a :: l) = true -> increasing l = true.
Proof. destruct l as [|b l]; [reflexivity|]. simpl. intros H. apply andb_true_iff in H. tauto. Qed.

Lemma c08_increasing_head_lt Y : forall i, increasing (i :: Y) = true -> forall j, In j Y -> (i < j)%nat.
Proof.
  induction Y as [|y Y IH]; intros i H j Hj; [destruct Hj|]. simpl in H. apply andb_true_iff in H. destruct H as [H1 H2].
  apply Nat.ltb_lt in H1. destruct Hj as [<-|Hj]; [exact H1|]. specialize (IH y H2 j Hj). lia.
Qed.

Lemma c08_increasing_app_r X Z : increasing (X ++ Z) = true -> increasing Z = true.
Proof. induction X as [|x X IH]; intros H; [exact H|]. apply IH. exact (c08_increasing_tail _ _ H). Qed.

Lemma c08_in_somes_map (fi : nat -> option nat) R b j : In b R -> fi b = Some j -> In j (somes (map fi R)).
Proof.
  induction R as [|c R IH]; intros Hb Fb; [destruct Hb|]. simpl. destruct Hb as [->|Hb].
  - rewrite Fb. left. reflexivity.
  - destruct (fi c); [right|]; apply IH; assumption.
Qed.

Theorem c08_order_b_sound w o : c08_order_b w o = true -> c08_order_statement w (o_rows o).
Proof.
  unfold c08_order_b. intros H t1 t2 i j Q1 Q2 Hlt F1 F2.
  assert (E : filter (unlinked w) (members w) = filter (c08_q w) (seq 0 (length w))).
  { rewrite <- c08_q_members. apply filter_ext_in. intros t Ht. unfold c08_q.
    unfold members in Ht. apply filter_In in Ht. destruct Ht as [_ Ht]. rewrite Ht, andb_true_r. reflexivity. }
  rewrite E in H. set (M := filter (c08_q w) (seq 0 (length w))) in *.
  destruct (c08_q_facts w t1 Q1) as [E1 _]. destruct (c08_q_facts w t2 Q2) as [E2 _].
  assert (M1 : In t1 M) by (apply filter_In; split; [apply in_seq; pose proof (c08_in_range w t1 E1); lia | exact Q1]).
  assert (M2 : In t2 M) by (apply filter_In; split; [apply in_seq; pose proof (c08_in_range w t2 E2); lia | exact Q2]).
  destruct (in_split t1 M M1) as [P [R EM]].
  assert (HR : In t2 R).
  { rewrite EM in M2. apply in_app_or in M2. destruct M2 as [A|[A|A]]; [exfalso | lia | exact A].
    destruct (in_split t2 P A) as [P1 [P2 EP]]. rewrite EP, <- app_assoc in EM. simpl in EM.
    pose proof (c08_filter_seq_sorted (c08_q w) _ _ _ _ _ EM t1 ltac:(apply in_or_app; right; left; reflexivity)). lia. }
  rewrite EM, map_app, c08_somes_app in H. simpl in H. rewrite F1 in H.
  apply c08_increasing_app_r in H.
  exact (c08_increasing_head_lt _ i H j (c08_in_somes_map _ R t2 j HR F2)).
Qed.
