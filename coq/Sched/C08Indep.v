(* C08, part 4 (balancing off): the calculation of one task reads the ledger only through the
   task's own reservations, so rows of other tasks can be added or removed without changing the
   task's dates and reservations.  This is the step lemma of the independence clause of C08; the clause
   itself is stated here (c08_indep_full) and proved in C08IndepSim.v / C08Renumber.v. *)
From PJ Require Import Base.Prelude Sched.Model Sched.LedgerProofs Sched.Primitives Sched.Machine
     Sched.Instances Sched.C03Proofs Sched.WfIn.

(* two ledgers that agree on the reservations of task t *)
Definition c08_same_own (t : nat) (l1 l2 : ledger) : Prop :=
  forall r d, booked_t l1 r d t = booked_t l2 r d t.

Lemma c08_same_own_cons t x l1 l2 : c08_same_own t l1 l2 -> c08_same_own t (x :: l1) (x :: l2).
Proof.
  intros H r d. change (used false (x :: l1) r d t = used false (x :: l2) r d t).
  rewrite !used_cons. unfold used. rewrite (H r d). reflexivity.
Qed.

Lemma c08_same_own_app t new l1 l2 : c08_same_own t l1 l2 -> c08_same_own t (new ++ l1) (new ++ l2).
Proof. induction new as [|x new IH]; intros H; [exact H|]. simpl. apply c08_same_own_cons. apply IH. exact H. Qed.

(* removing all rows of another task keeps the task's own reservations *)
Lemma c08_same_own_remove t u l : u <> t ->
  c08_same_own t l (filter (fun x => negb (Nat.eqb (r_task x) u)) l).
Proof.
  intros Hne r d. induction l as [|x l IH]; [reflexivity|]. simpl filter.
  destruct (Nat.eqb_spec (r_task x) u) as [E|E]; simpl negb; cbv iota.
  - change (used false (x :: l) r d t = booked_t (filter (fun x => negb (Nat.eqb (r_task x) u)) l) r d t).
    rewrite used_cons. unfold hits. simpl orb.
    destruct (Nat.eqb_spec (r_task x) t) as [E2|E2]; [congruence|]. rewrite andb_false_r. simpl. exact IH.
  - change (used false (x :: l) r d t = used false (x :: filter (fun x => negb (Nat.eqb (r_task x) u)) l) r d t).
    rewrite !used_cons. unfold used. rewrite IH. reflexivity.
Qed.

Lemma c08_next_free_ext cp us us' dir n : (forall d, us d = us' d) ->
  forall d, next_free cp us dir n d = next_free cp us' dir n d.
Proof.
  intros H. induction n as [|n IH]; intros d; simpl; [reflexivity|]. rewrite (H d), IH. reflexivity.
Qed.

Lemma c08_fwd_nearest_own cfg l1 l2 r t t0 :
  balance cfg = false -> c08_same_own t l1 l2 -> fwd_nearest cfg l1 r t t0 = fwd_nearest cfg l2 r t t0.
Proof.
  intros Hb H. unfold fwd_nearest. rewrite Hb. cbn [used].
  destruct (first_open (cap cfg r) 1 (h_search cfg) (day_of t0)) as [d0|]; [|reflexivity].
  rewrite (c08_next_free_ext (cap cfg r) (fun d => booked_t l1 r d t) (fun d => booked_t l2 r d t) 1 (h_near cfg)
             (fun d => H r d) d0).
  destruct (next_free _ _ _ _ _); [|reflexivity]. rewrite (H r z). reflexivity.
Qed.

Lemma c08_fill_own cp r t dir n : forall l1 l2 d left l1' dl,
  c08_same_own t l1 l2 ->
  fill cp false r t dir n l1 d left = Ok (l1', dl) ->
  exists new, l1' = new ++ l1 /\ fill cp false r t dir n l2 d left = Ok (new ++ l2, dl).
Proof.
  induction n as [|n IH]; intros l1 l2 d left l1' dl H; simpl; [discriminate|].
  cbn [used]. rewrite (H r (d + dir)).
  set (avail := cp (d + dir) - booked_t l2 r (d + dir) t).
  destruct (0 <? avail) eqn:Ea.
  - set (x := {| r_res := r; r_day := d + dir; r_task := t; r_units := Z.min left avail |}).
    destruct (0 <? left - Z.min left avail) eqn:El.
    + intros Hf. destruct (IH (x :: l1) (x :: l2) _ _ _ _ (c08_same_own_cons t x l1 l2 H) Hf) as [new [A B]].
      exists (new ++ [x]). rewrite <- !app_assoc. simpl. split; assumption.
    + intros Hf. inversion Hf; subst. exists [x]. split; reflexivity.
  - destruct (0 <? left) eqn:El.
    + intros Hf. destruct (IH l1 l2 _ _ _ _ H Hf) as [new [A B]]. exists new. split; assumption.
    + intros Hf. inversion Hf; subst. exists []. split; reflexivity.
Qed.

Lemma c08_fwd_shift_own cfg l1 l2 r t s0 left l1' e :
  balance cfg = false -> c08_same_own t l1 l2 ->
  fwd_shift cfg l1 r t s0 left = Ok (l1', e) ->
  exists new, l1' = new ++ l1 /\ fwd_shift cfg l2 r t s0 left = Ok (new ++ l2, e).
Proof.
  intros Hb H. unfold fwd_shift. destruct (left =? 0).
  - intros Hf; inversion Hf; subst. exists []. split; reflexivity.
  - rewrite Hb. destruct (fill (cap cfg r) false r t 1 (h_fill cfg) l1 (day_of s0 - 1) left) as [[l1a d1]| |] eqn:Ef;
      simpl; try discriminate.
    intros Hf; inversion Hf; subst l1a e. clear Hf.
    destruct (c08_fill_own _ _ _ _ _ _ _ _ _ _ _ H Ef) as [new [A B]]. exists new. split; [exact A|].
    rewrite B. simpl. subst l1'. cbn [used]. rewrite (c08_same_own_app t new l1 l2 H r d1). reflexivity.
Qed.

(* the converse of [fwd_compute_inv] for tasks that are not milestones *)
Lemma c08_fwd_compute_of_parts cfg w ds l t b start en est spent l' :
  k_milestone (gett w t) = false ->
  fwd_start_eq cfg w ds l t b = Ok start -> est_eq cfg w ds t = Ok est -> spent_eq w ds t = Ok spent ->
  fwd_end_eq cfg w ds l t start est spent = Ok (l', en) ->
  fwd_compute cfg w ds l t b = Ok (set_nth ds t (mkd start en est spent), l').
Proof.
  intros Hm E1 E2 E3 E4. unfold fwd_compute. rewrite Hm.
  fold (fwd_start_eq cfg w ds l t b). rewrite E1. cbn [bind].
  fold (est_eq cfg w ds t). rewrite E2. cbn [bind].
  fold (spent_eq w ds t). rewrite E3. cbn [bind].
  fold (fwd_end_eq cfg w ds l t start est spent). rewrite E4. reflexivity.
Qed.

(* balancing off: the calculation of t on two ledgers with the same reservations of t gives the same
   dates and the same new reservations *)
Theorem c08_fwd_compute_own_rows cfg w ds l1 l2 t b ds' l1' :
  balance cfg = false -> c08_same_own t l1 l2 ->
  fwd_compute cfg w ds l1 t b = Ok (ds', l1') ->
  exists new, l1' = new ++ l1 /\ (forall x, In x new -> r_task x = t)
              /\ fwd_compute cfg w ds l2 t b = Ok (ds', new ++ l2).
Proof.
  intros Hb H Hc.
  assert (Hrows : exists new0, l1' = new0 ++ l1 /\ forall x, In x new0 -> r_task x = t).
  { pose proof Hc as Hc'. apply fwd_compute_inv in Hc'.
    destruct Hc' as [[_ [_ ->]] | [_ [start [en [est [spent [_ [_ [_ [_ He]]]]]]]]]]; [exists []; split; [reflexivity | intros x []]|].
    unfold fwd_end_eq in He. destruct (d_end (getdl ds t)).
    { inversion He; subst. exists []. split; [reflexivity | intros x []]. }
    destruct (is_leaf (gett w t)).
    - destruct (fwd_shift cfg l1 (k_res (gett w t)) t _ _) as [[la ea]| |] eqn:Es; simpl in He; try discriminate.
      inversion He; subst la en. unfold fwd_shift in Es.
      destruct (Z.eqb_spec (Z.max (est - spent) 0) 0) as [Ez|Ez].
      { inversion Es; subst. exists []. split; [reflexivity | intros x []]. }
      destruct (fill _ _ _ _ _ _ _ _ _) as [[lb db]| |] eqn:Ef; simpl in Es; try discriminate.
      inversion Es; subst lb ea.
      destruct (fill_spec (cap cfg (k_res (gett w t))) (balance cfg) (k_res (gett w t)) t 1 ltac:(lia) _ _ _ _ _ _ Ef ltac:(lia))
        as [new0 R]. exists new0. split; [apply (fr_app _ _ _ _ _ _ _ _ _ _ _ R)|].
      intros x Hx. destruct (fr_rows _ _ _ _ _ _ _ _ _ _ _ R x Hx) as [_ [A _]]. exact A.
    - destruct (somes _); [discriminate|]. inversion He; subst. exists []. split; [reflexivity | intros x []]. }
  apply fwd_compute_inv in Hc.
  destruct Hc as [[Hm [-> ->]] | [Hm [start [en [est [spent [-> [E1 [E2 [E3 E4]]]]]]]]]].
  - exists []. split; [reflexivity|]. split; [intros x []|]. unfold fwd_compute. rewrite Hm. reflexivity.
  - assert (E1' : fwd_start_eq cfg w ds l2 t b = Ok start).
    { rewrite <- E1. unfold fwd_start_eq. rewrite (c08_fwd_nearest_own cfg l1 l2 _ t _ Hb H). reflexivity. }
    assert (E4' : exists new, l1' = new ++ l1 /\ fwd_end_eq cfg w ds l2 t start est spent = Ok (new ++ l2, en)).
    { unfold fwd_end_eq in *. destruct (d_end (getdl ds t)).
      { inversion E4; subst. exists []. split; reflexivity. }
      destruct (is_leaf (gett w t)).
      - destruct (fwd_shift cfg l1 (k_res (gett w t)) t _ _) as [[la ea]| |] eqn:Es; simpl in E4; try discriminate.
        inversion E4; subst la en.
        destruct (c08_fwd_shift_own _ _ _ _ _ _ _ _ _ Hb H Es) as [new [A B]]. exists new. split; [exact A|].
        rewrite B. reflexivity.
      - destruct (somes _); [discriminate|]. inversion E4; subst. exists []. split; reflexivity. }
    destruct E4' as [new [A B]]. exists new. split; [exact A|]. split.
    + destruct Hrows as [new0 [A0 B0]]. rewrite A in A0. apply app_inv_tail in A0. subst new0. exact B0.
    + apply c08_fwd_compute_of_parts; assumption.
Qed.

(* in particular the rows of any other task can be removed from the ledger *)
Corollary c08_fwd_compute_without cfg w ds l t u b ds' l' :
  balance cfg = false -> u <> t ->
  fwd_compute cfg w ds l t b = Ok (ds', l') ->
  exists new, l' = new ++ l
              /\ fwd_compute cfg w ds (filter (fun x => negb (Nat.eqb (r_task x) u)) l) t b
                 = Ok (ds', new ++ filter (fun x => negb (Nat.eqb (r_task x) u)) l).
Proof.
  intros Hb Hne Hc.
  destruct (c08_fwd_compute_own_rows cfg w ds l _ t b ds' l' Hb (c08_same_own_remove t u l Hne) Hc) as [new [A [_ B]]].
  exists new. split; assumption.
Qed.

(* ---------- the full independence clause (proved in C08Renumber.v) ---------- *)
(* the WBS without its u-th task: later tasks move down by one *)
Definition c08_shift (u p : nat) : nat := if (p <? u)%nat then p else Nat.pred p.
Definition c08_renumber (u : nat) (k : itask) : itask :=
  {| k_parent := option_map (c08_shift u) (k_parent k);
     k_children := map (c08_shift u) (remove_nat u (k_children k));
     k_preds := map (c08_shift u) (remove_nat u (k_preds k));
     k_succs := map (c08_shift u) (remove_nat u (k_succs k));
     k_ext := k_ext k; k_milestone := k_milestone k; k_res := k_res k; k_est := k_est k; k_spent := k_spent k;
     k_start := k_start k; k_end := k_end k; k_minstart := k_minstart k |}.
Definition c08_drop_task (u : nat) (w : list itask) : list itask :=
  map (c08_renumber u) (firstn u w ++ skipn (S u) w).

(* u has nothing to do with anybody: a top-level leaf without links *)
Definition c08_isolated (w : list itask) (u : nat) : Prop :=
  k_ext (gett w u) = false /\ k_parent (gett w u) = None /\ k_children (gett w u) = []
  /\ k_preds (gett w u) = [] /\ k_succs (gett w u) = [].

Definition c08_indep_full : Prop :=
  forall cfg w u st st', balance cfg = false -> cap_nonneg cfg -> WFin w -> c08_isolated w u ->
    forward cfg w = Ok st -> forward cfg (c08_drop_task u w) = Ok st' ->
    forall t, t <> u -> k_ext (gett w t) = false ->
      d_start (getd st t) = d_start (getd st' (c08_shift u t))
      /\ d_end (getd st t) = d_end (getd st' (c08_shift u t)).
