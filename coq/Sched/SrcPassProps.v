(* What the source-text tie of the two recursive passes (Sched/SrcPassEquivF.v, Sched/SrcPassEquivB.v) gives the
   properties: every theorem about the result of the model's [forward] / [backward] is a theorem about what the
   *translated source* of ForwardScheduler.__forward_pass / BackwardScheduler.__backward_pass (gen/SrcPass.v, regenerated
   on every run) computes when it is called once per root as calc does ([src_roots_fold]), after calc's two pre-checks
   ([isolated_ok], [no_future_ends] - not translated) have passed.  [src_sst] packs what the code returns - the task dates
   and amounts, the ledger, the list of calculated ids - as a model state; the oracles and statements read nothing else. *)
From PJ Require Import Base.Prelude Sched.Model Sched.Machine Sched.Instances Sched.WfIn Sched.Check Sched.Oracles
  Sched.OracleProofs Sched.C02Proofs Sched.C03Proofs Sched.C04Proofs Sched.C06Proofs Sched.C07Proofs Sched.C08Oracle
  Sched.C04Base Sched.C08Order Sched.C08Check Sched.C08Full Sched.C09Model Sched.C09Passes Sched.C14Proofs gen.SrcPass Sched.SrcPassRel Sched.SrcPassEquivF Sched.SrcPassEquivB.
Open Scope Z_scope.

Definition src_sst (x : list dyn * ledger * list nat) : sst :=
  {| dy := fst (fst x); lg := snd (fst x); calc := snd x; inprog := [] |}.

Lemma obs_of_src w st ds l cl : dy st = ds -> lg st = l -> obs_of w st = obs_of w (src_sst (ds, l, cl)).
Proof. intros <- <-. reflexivity. Qed.

Section Forward.
Variables (cfg : config) (w : list itask) (ds : list dyn) (l : ledger) (cl : list nat).
Hypothesis Hiso : isolated_ok w = true.
Hypothesis Hfut : no_future_ends w (now cfg) = true.
Hypothesis Hrun : src_roots_fold src_fwd_pass cfg w (roots w) = Ok (ds, l, cl).

Lemma src_fwd_model : exists st, forward cfg w = Ok st /\ dy st = ds /\ lg st = l /\ same_elts (calc st) cl.
Proof. exact (src_forward_Ok cfg w ds l cl Hiso Hfut Hrun). Qed.

Lemma src_fwd_no_overallocation : cap_nonneg cfg -> no_overallocation cfg w l.
Proof. intro Hc. destruct src_fwd_model as [st [E [_ [<- _]]]]. exact (C03_forward_holds cfg w st Hc E). Qed.

Lemma src_fwd_all_dated : WFin w -> all_dated w (src_sst (ds, l, cl)).
Proof.
  intro Hw. destruct src_fwd_model as [st [E [Ed [El _]]]].
  pose proof (C06_dates_forward_holds cfg w st Hw E) as H. subst ds l. exact H.
Qed.

Lemma src_fwd_rollups : WFin w -> cap_nonneg cfg -> forall t, k_ext (gett w t) = false ->
  c07_task_st w (ds_start ds) (ds_end ds) (ds_est ds) (ds_spent ds) t.
Proof. intros Hw Hc t Ht. destruct src_fwd_model as [st [E [<- _]]]. exact (C07_forward_holds cfg w st Hw Hc E t Ht). Qed.

Lemma src_fwd_c02_oracle : cap_nonneg cfg -> WFin w -> ext_last w -> c02_b cfg w (obs_of w (src_sst (ds, l, cl))) = true.
Proof.
  intros Hc Hw He. destruct src_fwd_model as [st [E [Ed [El _]]]].
  rewrite <- (obs_of_src w st ds l cl Ed El). exact (C02_forward_oracle cfg w st Hc Hw He E).
Qed.

Lemma src_fwd_c03_oracle : cap_nonneg cfg -> c03_b cfg w (obs_of w (src_sst (ds, l, cl))) = true.
Proof.
  intros Hc. destruct src_fwd_model as [st [E [Ed [El _]]]].
  rewrite <- (obs_of_src w st ds l cl Ed El). exact (C03_forward_oracle cfg w st Hc E).
Qed.

Lemma src_fwd_c04_oracle : WFin w -> cap_nonneg cfg -> cap_small cfg -> exts_last w ->
  c04_b true cfg w (obs_of w (src_sst (ds, l, cl))) = true.
Proof.
  intros Hw Hc Hs He. destruct src_fwd_model as [st [E [Ed [El _]]]].
  rewrite <- (obs_of_src w st ds l cl Ed El). exact (C04_forward_oracle cfg w st Hw Hc Hs He E).
Qed.

Lemma src_fwd_c07_oracle : WFin w -> cap_nonneg cfg -> exts_last w ->
  c07_b w (obs_of w (src_sst (ds, l, cl))) (wbs_start w (ds_start ds)) (wbs_end w (ds_end ds)) = true.
Proof.
  intros Hw Hc He. destruct src_fwd_model as [st [E [Ed [El _]]]].
  rewrite <- (obs_of_src w st ds l cl Ed El). rewrite <- Ed. exact (C07_forward_oracle cfg w st Hw Hc He E).
Qed.

Lemma src_fwd_c08_oracle : cap_nonneg cfg -> WFin w -> c08_preorder w -> c08_members_first_b w = true ->
  c08_b cfg w (obs_of w (src_sst (ds, l, cl))) = true.
Proof.
  intros Hc Hw Hp Hm. destruct src_fwd_model as [st [E [Ed [El _]]]].
  rewrite <- (obs_of_src w st ds l cl Ed El). exact (C08_model_passes_oracle_obs_of cfg w st Hc Hw Hp Hm E).
Qed.
End Forward.

Section Backward.
Variables (cfg : config) (w : list itask) (ds : list dyn) (l : ledger) (cl : list nat).
Hypothesis Hiso : isolated_ok w = true.
Hypothesis Hrun : src_roots_fold src_bwd_pass cfg w (rev (roots w)) = Ok (ds, l, cl).

Lemma src_bwd_model : exists st, backward cfg w = Ok st /\ dy st = ds /\ lg st = l /\ same_elts (calc st) cl.
Proof. exact (src_backward_Ok cfg w ds l cl Hiso Hrun). Qed.

Lemma src_bwd_no_overallocation : cap_nonneg cfg -> no_overallocation cfg w l.
Proof. intro Hc. destruct src_bwd_model as [st [E [_ [<- _]]]]. exact (C03_backward_holds cfg w st Hc E). Qed.

Lemma src_bwd_all_dated : WFin w -> all_dated w (src_sst (ds, l, cl)).
Proof.
  intro Hw. destruct src_bwd_model as [st [E [Ed [El _]]]].
  pose proof (C06_dates_backward_holds cfg w st Hw E) as H. subst ds l. exact H.
Qed.

Lemma src_bwd_rollups : WFin w -> cap_nonneg cfg -> forall t, k_ext (gett w t) = false ->
  c07_task_st w (ds_start ds) (ds_end ds) (ds_est ds) (ds_spent ds) t.
Proof. intros Hw Hc t Ht. destruct src_bwd_model as [st [E [<- _]]]. exact (C07_backward_holds cfg w st Hw Hc E t Ht). Qed.

Lemma src_bwd_c04_oracle : WFin w -> cap_nonneg cfg -> cap_small cfg -> exts_last w ->
  c04_b false cfg w (obs_of w (src_sst (ds, l, cl))) = true.
Proof.
  intros Hw Hc Hs He. destruct src_bwd_model as [st [E [Ed [El _]]]].
  rewrite <- (obs_of_src w st ds l cl Ed El). exact (C04_backward_oracle cfg w st Hw Hc Hs He E).
Qed.

Lemma src_bwd_c09_oracle : WFin w -> cap_nonneg cfg -> members_first w ->
  c09_b cfg w (obs_of w (src_sst (ds, l, cl))) = true.
Proof.
  intros Hw Hc Hm. destruct src_bwd_model as [st [E [Ed [El _]]]].
  rewrite <- (obs_of_src w st ds l cl Ed El). exact (C09_model_oracle_holds cfg w st Hw Hc Hm E).
Qed.
End Backward.

(* C14: the translated passes, called as calc calls them, end with a result or with RuntimeError - never with another
   exception, never out of fuel - on every well-formed input *)
Lemma src_fwd_total cfg w : WFin w -> isolated_ok w = true -> no_future_ends w (now cfg) = true ->
  (exists x, src_roots_fold src_fwd_pass cfg w (roots w) = Ok x) \/ src_roots_fold src_fwd_pass cfg w (roots w) = Err.
Proof.
  intros Hw Hi Hf. pose proof (src_forward_rel cfg w Hi Hf) as R. unfold calc_rel in R.
  destruct (C14_total_forward_holds cfg w Hw) as [[st E]|E]; rewrite E in R;
    destruct (src_roots_fold src_fwd_pass cfg w (roots w)) as [x| |k]; try contradiction.
  - left. exists x. reflexivity.
  - right. reflexivity.
Qed.

Lemma src_bwd_total cfg w : WFin w -> isolated_ok w = true ->
  (exists x, src_roots_fold src_bwd_pass cfg w (rev (roots w)) = Ok x) \/ src_roots_fold src_bwd_pass cfg w (rev (roots w)) = Err.
Proof.
  intros Hw Hi. pose proof (src_backward_rel cfg w Hi) as R. unfold calc_rel in R.
  destruct (C14_total_backward_holds cfg w Hw) as [[st E]|E]; rewrite E in R;
    destruct (src_roots_fold src_bwd_pass cfg w (rev (roots w))) as [x| |k]; try contradiction.
  - left. exists x. reflexivity.
  - right. reflexivity.
Qed.
