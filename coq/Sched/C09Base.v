(* C09, helpers: folds of min/max, the bound of the backward pass, what WFin says about one member,
   the chain of ancestors (depth below the number of tasks, hence a child inherits every dependant of
   its parent). *)
From PJ Require Import Base.Prelude Sched.Model Sched.LedgerProofs Sched.Machine Sched.Instances Sched.WfIn.

(* ---------- folds ---------- *)
Lemma c09_fold_min_le_init l b : fold_left Z.min l b <= b.
Proof. revert b; induction l as [|x l IH]; intros b; simpl; [lia|]. specialize (IH (Z.min b x)). lia. Qed.

Lemma c09_fold_min_le_in l b x : In x l -> fold_left Z.min l b <= x.
Proof.
  revert b; induction l as [|y l IH]; intros b H; simpl; [destruct H|]. destruct H as [->|H].
  - pose proof (c09_fold_min_le_init l (Z.min b x)). lia.
  - apply IH. exact H.
Qed.

Lemma c09_fold_min_glb l b m : m <= b -> (forall x, In x l -> m <= x) -> m <= fold_left Z.min l b.
Proof.
  revert b; induction l as [|y l IH]; intros b Hb H; simpl; [exact Hb|].
  apply IH; [|intros x Hx; apply H; right; exact Hx]. specialize (H y (or_introl eq_refl)). lia.
Qed.

Lemma c09_fold_max_lub l b m : b <= m -> (forall x, In x l -> x <= m) -> fold_left Z.max l b <= m.
Proof.
  revert b; induction l as [|y l IH]; intros b Hb H; simpl; [exact Hb|].
  apply IH; [|intros x Hx; apply H; right; exact Hx]. specialize (H y (or_introl eq_refl)). lia.
Qed.

Lemma c09_in_somes {A B} (f : A -> option B) l v :
  In v (somes (map f l)) <-> exists a, In a l /\ f a = Some v.
Proof.
  induction l as [|a l IH]; simpl.
  - split; [intros [] | intros [a [[] _]]].
  - destruct (f a) as [y|] eqn:E; simpl; rewrite IH; split.
    + intros [<-|[a' [H1 H2]]]; [exists a; auto | exists a'; auto].
    + intros [a' [[<-|H1] H2]]; [left; congruence | right; exists a'; auto].
    + intros [a' [H1 H2]]. exists a'; auto.
    + intros [a' [[<-|H1] H2]]; [congruence | exists a'; auto].
Qed.

(* ---------- the bound of the backward pass ---------- *)
Lemma c09_bound_min_le_b ds pre b : bound_min ds pre b <= b.
Proof. apply c09_fold_min_le_init. Qed.

Lemma c09_bound_min_le_start ds pre b q s2 :
  In q pre -> d_start (getdl ds q) = Some s2 -> bound_min ds pre b <= s2.
Proof.
  intros Hq Hs. apply c09_fold_min_le_in. apply (c09_in_somes (fun p => d_start (getdl ds p))). exists q. auto.
Qed.

Lemma c09_bound_min_incl ds l l' b : incl l l' -> bound_min ds l' b <= bound_min ds l b.
Proof.
  intros Hi. unfold bound_min at 2. apply c09_fold_min_glb; [apply c09_bound_min_le_b|].
  intros x Hx. apply (c09_in_somes (fun p => d_start (getdl ds p))) in Hx. destruct Hx as [q [Hq Hs]].
  eapply c09_bound_min_le_start; [apply Hi; exact Hq | exact Hs].
Qed.

(* ---------- members ---------- *)
Lemma c09_member_range w t : k_ext (gett w t) = false -> (t < length w)%nat.
Proof.
  intros H. destruct (Nat.lt_ge_cases t (length w)) as [L|G]; [exact L|].
  unfold gett in H. rewrite nth_overflow in H by exact G. discriminate.
Qed.

Lemma c09_members_in w t : In t (members w) <-> k_ext (gett w t) = false.
Proof.
  unfold members. rewrite filter_In, in_seq, negb_true_iff. split; [intros [_ H]; exact H|].
  intros H. split; [|exact H]. pose proof (c09_member_range w t H). lia.
Qed.

Lemma c09_wfin_member w t : WFin w -> k_ext (gett w t) = false -> wfin_member_b w t = true.
Proof.
  intros Hw Ht. unfold WFin, wfin_b in Hw. rewrite forallb_forall in Hw.
  specialize (Hw t). unfold is_ext in Hw. rewrite Ht in Hw. apply andb_true_iff in Hw; [apply Hw|].
  apply in_seq. pose proof (c09_member_range w t Ht). lia.
Qed.

(* what the scheduler proofs need from the well-formedness of one member *)
Lemma c09_wfin_parts w t : WFin w -> k_ext (gett w t) = false ->
  (forall c, In c (k_children (gett w t)) -> k_ext (gett w c) = false /\ k_parent (gett w c) = Some t)
  /\ (forall p, k_parent (gett w t) = Some p -> k_ext (gett w p) = false)
  /\ ~ In t (ancestors w (length w) t).
Proof.
  intros Hw Ht. pose proof (c09_wfin_member w t Hw Ht) as H. unfold wfin_member_b in H. cbv zeta in H.
  rewrite !andb_true_iff in H.
  destruct H as [[[[[[[[[[[H1 H2] H3] H4] H5] H6] H7] H8] H9] H10] H11] H12].
  split; [|split].
  - intros c Hc. rewrite forallb_forall in H1. specialize (H1 c Hc). rewrite !andb_true_iff in H1.
    destruct H1 as [[_ Hx] Hp]. unfold is_ext in Hx. apply negb_true_iff in Hx. split; [exact Hx|].
    destruct (k_parent (gett w c)) as [p|]; [|discriminate]. apply Nat.eqb_eq in Hp. congruence.
  - intros p Hp. rewrite Hp in H3. rewrite !andb_true_iff in H3. destruct H3 as [[_ Hx] _].
    unfold is_ext in Hx. apply negb_true_iff in Hx. exact Hx.
  - apply negb_true_iff in H4. apply memb_false in H4. exact H4.
Qed.

(* milestones are leaves *)
Lemma c09_wfin_milestone_leaf w t : WFin w -> k_ext (gett w t) = false -> k_milestone (gett w t) = true ->
  is_leaf (gett w t) = true.
Proof.
  intros Hw Ht Hm. pose proof (c09_wfin_member w t Hw Ht) as H. unfold wfin_member_b in H. cbv zeta in H.
  rewrite !andb_true_iff in H.
  destruct H as [[[[[[[[[[[H1 H2] H3] H4] H5] H6] H7] H8] H9] H10] H11] H12].
  rewrite Hm in H10. exact H10.
Qed.

(* ---------- the chain of ancestors ---------- *)
Lemma c09_anc_S w f t :
  ancestors w (S f) t = match k_parent (gett w t) with None => [] | Some p => p :: ancestors w f p end.
Proof. reflexivity. Qed.

Lemma c09_anc_mono w k : forall k' t y, (k <= k')%nat -> In y (ancestors w k t) -> In y (ancestors w k' t).
Proof.
  induction k as [|k IH]; intros k' t y Hk Hy; [destruct Hy|].
  destruct k' as [|k']; [lia|]. rewrite c09_anc_S in *.
  destruct (k_parent (gett w t)) as [p|]; [|destruct Hy].
  destruct Hy as [->|Hy]; [left; reflexivity | right; apply IH; [lia | exact Hy]].
Qed.

Lemma c09_anc_stable w m : forall t, (length (ancestors w m t) < m)%nat -> ancestors w (S m) t = ancestors w m t.
Proof.
  induction m as [|m IH]; intros t H; [simpl in H; lia|].
  rewrite (c09_anc_S w (S m)). rewrite (c09_anc_S w m) in *.
  destruct (k_parent (gett w t)) as [p|]; [|reflexivity].
  f_equal. apply IH. simpl in H. lia.
Qed.

Lemma c09_anc_members w : WFin w -> forall k t y, k_ext (gett w t) = false -> In y (ancestors w k t) -> k_ext (gett w y) = false.
Proof.
  intros Hw. induction k as [|k IH]; intros t y Ht Hy; [destruct Hy|]. rewrite c09_anc_S in Hy.
  destruct (k_parent (gett w t)) as [p|] eqn:Hp; [|destruct Hy].
  destruct (c09_wfin_parts w t Hw Ht) as [_ [Hpar _]]. specialize (Hpar p Hp).
  destruct Hy as [<-|Hy]; [exact Hpar | eapply IH; eauto].
Qed.

Lemma c09_anc_nodup w : WFin w -> forall k t, (k <= length w)%nat -> k_ext (gett w t) = false -> NoDup (t :: ancestors w k t).
Proof.
  intros Hw. induction k as [|k IH]; intros t Hk Ht.
  - simpl. constructor; [intros [] | constructor].
  - destruct (c09_wfin_parts w t Hw Ht) as [_ [Hpar Hacy]].
    constructor.
    + intro Hin. apply Hacy. eapply c09_anc_mono; [|exact Hin]. exact Hk.
    + rewrite c09_anc_S. destruct (k_parent (gett w t)) as [p|] eqn:Hp; [|constructor].
      apply IH; [lia | apply Hpar; reflexivity].
Qed.

Lemma c09_anc_length w : WFin w -> forall t, k_ext (gett w t) = false ->
  (length (ancestors w (length w) t) < length w)%nat.
Proof.
  intros Hw t Ht.
  pose proof (c09_anc_nodup w Hw (length w) t (Nat.le_refl _) Ht) as Hn.
  assert (Hi : incl (t :: ancestors w (length w) t) (seq 0 (length w))).
  { intros y [<-|Hy]; apply in_seq.
    - pose proof (c09_member_range w t Ht). lia.
    - pose proof (c09_member_range w y (c09_anc_members w Hw _ _ _ Ht Hy)). lia. }
  pose proof (NoDup_incl_length Hn Hi) as Hl. simpl in Hl. rewrite seq_length in Hl. lia.
Qed.

(* the chain of a member is its parent followed by the parent's chain (the fuel is never exhausted) *)
Lemma c09_anc_parent w t p : WFin w -> k_ext (gett w t) = false -> k_parent (gett w t) = Some p ->
  ancestors w (length w) t = p :: ancestors w (length w) p.
Proof.
  intros Hw Ht Hp. pose proof (c09_anc_length w Hw t Ht) as Hl.
  destruct (length w) as [|m] eqn:En; [lia|].
  rewrite c09_anc_S, Hp in Hl. simpl in Hl.
  assert (Hs : ancestors w (S m) p = ancestors w m p) by (apply c09_anc_stable; lia).
  rewrite (c09_anc_S w m t), Hp, Hs. reflexivity.
Qed.

(* a child waits for everything its parent waits for *)
Lemma c09_dependants_child w t c : WFin w -> k_ext (gett w t) = false -> In c (k_children (gett w t)) ->
  incl (dependants w t) (dependants w c).
Proof.
  intros Hw Ht Hc. destruct (c09_wfin_parts w t Hw Ht) as [Hch _]. destruct (Hch c Hc) as [Hcm Hcp].
  unfold dependants. rewrite (c09_anc_parent w c t Hw Hcm Hcp). simpl.
  intros q Hq. apply in_app_or in Hq. apply in_or_app. right. apply in_or_app. exact Hq.
Qed.

(* the parent of a member lists it among its children *)
Lemma c09_wfin_parent_lists w t p : WFin w -> k_ext (gett w t) = false -> k_parent (gett w t) = Some p ->
  In t (k_children (gett w p)).
Proof.
  intros Hw Ht Hp. pose proof (c09_wfin_member w t Hw Ht) as H. unfold wfin_member_b in H. cbv zeta in H.
  rewrite !andb_true_iff in H.
  destruct H as [[[[[[[[[[[H1 H2] H3] H4] H5] H6] H7] H8] H9] H10] H11] H12].
  rewrite Hp in H3. rewrite !andb_true_iff in H3. destruct H3 as [_ Hx]. apply memb_true. exact Hx.
Qed.

(* ---------- initial dates ---------- *)
Lemma c09_init_nth w t : nth t (map init_dyn w) no_dyn = init_dyn (gett w t).
Proof. change no_dyn with (init_dyn no_task). unfold gett. apply map_nth. Qed.

Definition c09_no_user_dates (w : list itask) : Prop :=
  forall t, k_ext (gett w t) = false -> k_start (gett w t) = None /\ k_end (gett w t) = None.

Lemma c09_init_member_none w t : c09_no_user_dates w -> k_ext (gett w t) = false ->
  d_start (init_dyn (gett w t)) = None /\ d_end (init_dyn (gett w t)) = None.
Proof.
  intros Hn Ht. destruct (Hn t Ht) as [A B]. unfold init_dyn.
  destruct (negb (k_ext (gett w t)) && negb (is_leaf (gett w t))); simpl; auto.
Qed.
