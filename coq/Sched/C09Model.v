(* C09: the model's own backward schedule, seen through the observation the oracle works on:
   every member is calculated (has both dates), and the observed schedule satisfies the oracle's
   clauses. *)
From PJ Require Import Base.Prelude Sched.Model Sched.LedgerProofs Sched.Primitives Sched.Machine Sched.Instances
     Sched.C03Proofs Sched.WfIn Sched.Check Sched.Oracles Sched.OracleProofs
     Sched.C09Base Sched.C09Proofs Sched.C09Final Sched.C09Oracle.

(* ---------- every member is calculated ---------- *)
Definition c09_kids_ready (w : list itask) (c : core) : Prop :=
  forall t, In t (c_calc c) -> forall ch, In ch (k_children (gett w t)) -> ready w c ch.

Lemma c09_kids_ready_bstep cfg w c t c' : c09_kids_ready w c -> bstep cfg w c t c' -> c09_kids_ready w c'.
Proof.
  intros Hk Hs. unfold bstep in Hs. destruct Hs as [c t r Hext Hnot Hdeps Hkids Hc].
  intros t0 Hin ch Hch. cbn [c_calc] in Hin.
  assert (Hr : ready w c ch).
  { destruct Hin as [<-|Hin]; [apply Hkids; unfold bkids; apply -> in_rev; exact Hch | eapply Hk; eauto]. }
  destruct Hr as [Hr|Hr]; [left; exact Hr | right; cbn [c_calc]; right; exact Hr].
Qed.

Lemma c09_all_calc cfg w st :
  WFin w -> backward cfg w = Ok st -> forall t, k_ext (gett w t) = false -> In t (calc st).
Proof.
  intros Hw H. destruct (backward_is_run _ _ _ H) as [Hs [Hroots _]].
  assert (Hk : c09_kids_ready w (core_of st)).
  { eapply (gsteps_inv w _ _ _ _ (c09_kids_ready w)); [|exact Hs | intros t []].
    intros c t c' Hi Hst. eapply c09_kids_ready_bstep; eauto. }
  assert (Hall : forall n t, length (ancestors w (length w) t) = n -> k_ext (gett w t) = false -> In t (calc st)).
  { induction n as [|n IH]; intros t Hlen Ht; destruct (k_parent (gett w t)) as [p|] eqn:Hp.
    - rewrite (c09_anc_parent w t p Hw Ht Hp) in Hlen. discriminate.
    - destruct (Hroots t) as [Hr|Hr]; [|congruence | exact Hr].
      unfold roots. apply filter_In. split; [apply c09_members_in; exact Ht | rewrite Hp; reflexivity].
    - rewrite (c09_anc_parent w t p Hw Ht Hp) in Hlen. simpl in Hlen.
      destruct (c09_wfin_parts w t Hw Ht) as [_ [Hpar _]]. specialize (Hpar p Hp).
      assert (Hpc : In p (calc st)) by (apply IH; [lia | exact Hpar]).
      destruct (Hk p Hpc t (c09_wfin_parent_lists w t p Hw Ht Hp)) as [Hr|Hr]; [congruence | exact Hr].
    - destruct (Hroots t) as [Hr|Hr]; [|congruence | exact Hr].
      unfold roots. apply filter_In. split; [apply c09_members_in; exact Ht | rewrite Hp; reflexivity]. }
  intros t Ht. eapply Hall; [reflexivity | exact Ht].
Qed.

Theorem C09_all_dated_holds cfg w st :
  WFin w -> cap_nonneg cfg -> no_user_dates w = true -> backward cfg w = Ok st ->
  forall t, In t (members w) -> exists s e, d_start (getd st t) = Some s /\ d_end (getd st t) = Some e.
Proof.
  intros Hw Hc Hn H t Ht. apply c09_no_user_dates_b in Hn. apply c09_members_in in Ht.
  pose proof (backward_inv09 cfg w st Hw Hc Hn H) as [_ [_ [_ Hok]]].
  destruct (Hok t (c09_all_calc cfg w st Hw H t Ht)) as [_ [_ [s [e [A [B _]]]]]].
  exists s, e. split; assumption.
Qed.

(* ---------- the observation of the model's schedule ---------- *)
(* members are numbered before the outside tasks (the numbering of the harness; evaluated on every case) *)
Definition members_first (w : list itask) : Prop := members w = seq 0 (length (members w)).

Lemma c09_obs_get w st t : members_first w -> In t (members w) ->
  o_get (obs_of w st) t = dyn_obs (getd st t).
Proof.
  intros Hm Ht. unfold o_get, obs_of, model_tasks. cbn [o_tasks]. rewrite Hm in *.
  apply in_seq in Ht. set (f := fun t0 => dyn_obs (getd st t0)).
  rewrite (nth_indep _ _ (f 0%nat)) by (rewrite map_length, seq_length; lia).
  rewrite map_nth, seq_nth by lia. reflexivity.
Qed.

Lemma c09_obs_start w st t : members_first w -> In t (members w) -> o_start (obs_of w st) t = d_start (getd st t).
Proof. intros Hm Ht. unfold o_start. rewrite (c09_obs_get w st t Hm Ht). reflexivity. Qed.

Lemma c09_obs_end w st t : members_first w -> In t (members w) -> o_end (obs_of w st) t = d_end (getd st t).
Proof. intros Hm Ht. unfold o_end. rewrite (c09_obs_get w st t Hm Ht). reflexivity. Qed.

(* the observed starts of a list of tasks are the model's starts *)
Lemma c09_starts_of_model cfg w st ps :
  WFin w -> cap_nonneg cfg -> no_user_dates w = true -> members_first w -> backward cfg w = Ok st ->
  starts_of (obs_of w st) w ps = somes (map (fun p => d_start (getdl (dy st) p)) ps).
Proof.
  intros Hw Hc Hn Hm H. unfold starts_of. f_equal. apply map_ext. intros p.
  destruct (k_ext (gett w p)) eqn:Hp.
  - destruct (C09_outside_dates_hold cfg w st Hw Hc Hn H p Hp) as [A _]. symmetry. exact A.
  - apply c09_obs_start; [exact Hm | apply c09_members_in; exact Hp].
Qed.

Lemma c09_zmin_list_fold l x : zmin_list x l = fold_left Z.min l x.
Proof. revert x; induction l as [|y l IH]; intros x; simpl; [reflexivity | apply IH]. Qed.

Lemma c09_due_model cfg w st t :
  WFin w -> cap_nonneg cfg -> no_user_dates w = true -> members_first w -> backward cfg w = Ok st ->
  zmin_list (pbound cfg) (starts_of (obs_of w st) w (dependants w t)) = c09_due cfg w (dy st) t.
Proof.
  intros Hw Hc Hn Hm H. rewrite (c09_starts_of_model cfg w st _ Hw Hc Hn Hm H), c09_zmin_list_fold. reflexivity.
Qed.

(* ---------- the deadline and dependency clauses of the oracle on the model's output ---------- *)
Definition c09_order_statement (cfg : config) (w : list itask) (o : osch) (t : nat) : Prop :=
  exists s e, o_start o t = Some s /\ o_end o t = Some e
  /\ e <= pbound cfg
  /\ (forall s2, In s2 (starts_of o w (dependants w t)) -> e <= s2).

Theorem C09_model_order_holds cfg w st :
  WFin w -> cap_nonneg cfg -> no_user_dates w = true -> members_first w -> backward cfg w = Ok st ->
  forall t, In t (members w) -> c09_order_statement cfg w (obs_of w st) t.
Proof.
  intros Hw Hc Hn Hm H t Ht.
  destruct (C09_all_dated_holds cfg w st Hw Hc Hn H t Ht) as [s [e [Hs He]]].
  exists s, e. rewrite (c09_obs_start w st t Hm Ht), (c09_obs_end w st t Hm Ht).
  split; [exact Hs|]. split; [exact He|].
  split; [apply (C09_deadline_holds cfg w st Hw Hc Hn H t e Ht He)|].
  intros s2 Hs2. rewrite (c09_starts_of_model cfg w st _ Hw Hc Hn Hm H) in Hs2.
  apply (c09_in_somes (fun p => d_start (getdl (dy st) p))) in Hs2. destruct Hs2 as [q [Hq Hqs]].
  apply (C09_deps_holds cfg w st Hw Hc Hn H t q e s2 Ht Hq He Hqs).
Qed.

(* ---------- the whole oracle on the model's output ---------- *)
Lemma c09_filter_none {A} (f : A -> bool) l : (forall x, In x l -> f x = false) -> filter f l = [].
Proof.
  induction l as [|a l IH]; intros H; simpl; [reflexivity|].
  rewrite (H a (or_introl eq_refl)). apply IH. intros x Hx. apply H. right. exact Hx.
Qed.

Lemma c09_filter_all {A} (f : A -> bool) l : (forall x, In x l -> f x = true) -> filter f l = l.
Proof.
  induction l as [|a l IH]; intros H; simpl; [reflexivity|].
  rewrite (H a (or_introl eq_refl)). f_equal. apply IH. intros x Hx. apply H. right. exact Hx.
Qed.

Lemma c09_rows_of_model w st t before new after :
  c09_placed (lg st) t before new after -> rows_of (obs_of w st) t = map row_obs (rev new).
Proof.
  intros [Hl [Hb [Ha Hn]]]. unfold rows_of, obs_of, model_rows. cbn [o_rows].
  rewrite filter_map_row_obs, filter_rev. f_equal. f_equal.
  rewrite Hl, !filter_app.
  rewrite (c09_filter_none _ after), (c09_filter_none _ before), (c09_filter_all _ new).
  - simpl. apply app_nil_r.
  - intros x Hx. unfold row_obs, row_task. apply Nat.eqb_eq. apply Hn. exact Hx.
  - intros x Hx. unfold row_obs, row_task. apply Nat.eqb_neq. apply Hb. exact Hx.
  - intros x Hx. unfold row_obs, row_task. apply Nat.eqb_neq. apply Ha. exact Hx.
Qed.

Lemma c09_zmin_list_spec l x : In (zmin_list x l) (x :: l) /\ forall y, In y (x :: l) -> zmin_list x l <= y.
Proof.
  revert x; induction l as [|z l IH]; intros x; simpl zmin_list.
  - split; [left; reflexivity | intros y [<-|[]]; lia].
  - destruct (IH (Z.min x z)) as [A B]. split.
    + destruct A as [A|A]; [|right; right; exact A].
      destruct (Z.min_spec x z) as [[_ E]|[_ E]]; [left | right; left]; rewrite <- A; symmetry; exact E.
    + intros y Hy. pose proof (B (Z.min x z) (or_introl eq_refl)) as B0.
      destruct Hy as [<-|[<-|Hy]]; [lia | lia | apply B; right; exact Hy].
Qed.

Lemma c09_zmax_list_spec l x : In (zmax_list x l) (x :: l) /\ forall y, In y (x :: l) -> y <= zmax_list x l.
Proof.
  revert x; induction l as [|z l IH]; intros x; simpl zmax_list.
  - split; [left; reflexivity | intros y [<-|[]]; lia].
  - destruct (IH (Z.max x z)) as [A B]. split.
    + destruct A as [A|A]; [|right; right; exact A].
      destruct (Z.max_spec x z) as [[_ E]|[_ E]]; [right; left | left]; rewrite <- A; symmetry; exact E.
    + intros y Hy. pose proof (B (Z.max x z) (or_introl eq_refl)) as B0.
      destruct Hy as [<-|[<-|Hy]]; [lia | lia | apply B; right; exact Hy].
Qed.

Lemma c09_upto_skip a b t d :
  (forall z, In z a -> row_task z <> t \/ row_day z <> d) -> upto_task_day (a ++ b) t d = a ++ upto_task_day b t d.
Proof.
  induction a as [|z a IH]; intros H; simpl; [reflexivity|].
  destruct (H z (or_introl eq_refl)) as [E|E].
  - apply Nat.eqb_neq in E. rewrite E. simpl. f_equal. apply IH. intros y Hy. apply H. right. exact Hy.
  - apply Z.eqb_neq in E. rewrite E, andb_false_r. f_equal. apply IH. intros y Hy. apply H. right. exact Hy.
Qed.

Lemma c09_before_skip a b t :
  (forall z, In z a -> row_task z <> t) -> before_task (a ++ b) t = a ++ before_task b t.
Proof.
  induction a as [|z a IH]; intros H; simpl; [reflexivity|].
  pose proof (H z (or_introl eq_refl)) as E. apply Nat.eqb_neq in E. rewrite E. f_equal.
  apply IH. intros y Hy. apply H. right. exact Hy.
Qed.

Lemma c09_upto_hit z b t d : row_task z = t -> row_day z = d -> upto_task_day (z :: b) t d = [z].
Proof. intros <- <-. simpl. rewrite Nat.eqb_refl, Z.eqb_refl. reflexivity. Qed.

Lemma c09_before_hit z b t : row_task z = t -> before_task (z :: b) t = [].
Proof. intros <-. simpl. rewrite Nat.eqb_refl. reflexivity. Qed.

(* rows() order of the model's ledger: before the task, the task's rows, later rows *)
Lemma c09_model_rows_split st t before new after :
  c09_placed (lg st) t before new after ->
  model_rows st = map row_obs (rev before) ++ map row_obs (rev new) ++ map row_obs (rev after).
Proof.
  intros [Hl _]. unfold model_rows. rewrite Hl, !rev_app_distr, !map_app, <- app_assoc. reflexivity.
Qed.

Lemma c09_before_task_model st t before new after :
  c09_placed (lg st) t before new after -> new <> [] ->
  before_task (model_rows st) t = map row_obs (rev before).
Proof.
  intros Hp Hne. rewrite (c09_model_rows_split st t before new after Hp). destruct Hp as [_ [Hb [_ Hn]]].
  rewrite c09_before_skip.
  - destruct (rev new) as [|z zs] eqn:Er.
    + exfalso. apply Hne. rewrite <- (rev_involutive new), Er. reflexivity.
    + assert (Hz : r_task z = t) by (apply Hn; apply in_rev; rewrite Er; left; reflexivity).
      cbn [map app]. rewrite (c09_before_hit (row_obs z)) by exact Hz. apply app_nil_r.
  - intros z Hz. apply in_map_iff in Hz. destruct Hz as [y [<- Hy]]. apply in_rev in Hy.
    unfold row_obs, row_task. apply Hb. exact Hy.
Qed.

Lemma c09_upto_task_model st t before x rest after :
  c09_placed (lg st) t before (x :: rest) after -> NoDup (map r_day (x :: rest)) ->
  upto_task_day (model_rows st) t (r_day x) = map row_obs (rev ((x :: rest) ++ before)).
Proof.
  intros Hp Hnd. rewrite (c09_model_rows_split st t before (x :: rest) after Hp). destruct Hp as [_ [Hb [_ Hn]]].
  assert (Hx : r_task x = t) by (apply Hn; left; reflexivity).
  rewrite c09_upto_skip.
  - simpl rev. rewrite map_app, <- app_assoc. rewrite c09_upto_skip.
    + cbn [map app]. rewrite (c09_upto_hit (row_obs x)) by (try exact Hx; reflexivity).
      rewrite rev_app_distr. simpl rev. rewrite !map_app, <- app_assoc. reflexivity.
    + intros z Hz. apply in_map_iff in Hz. destruct Hz as [y [<- Hy]]. apply in_rev in Hy. right.
      unfold row_obs, row_day. inversion Hnd as [|? ? Hnot _]; subst. intro E. apply Hnot. rewrite <- E.
      apply in_map. exact Hy.
  - intros z Hz. apply in_map_iff in Hz. destruct Hz as [y [<- Hy]]. apply in_rev in Hy. left.
    unfold row_obs, row_task. apply Hb. exact Hy.
Qed.

(* the first |a| elements of a ++ b *)
Lemma c09_firstn_app_exact {A} (a b : list A) : firstn (length a) (a ++ b) = a.
Proof. rewrite firstn_app, Nat.sub_diag, firstn_all. simpl. apply app_nil_r. Qed.
