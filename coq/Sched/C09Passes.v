(* C09: the model's own backward schedule passes the whole oracle c09_b. *)
From PJ Require Import Base.Prelude Sched.Model Sched.LedgerProofs Sched.Primitives Sched.Machine Sched.Instances
     Sched.C03Proofs Sched.WfIn Sched.Check Sched.Oracles Sched.OracleProofs
     Sched.C09Base Sched.C09Proofs Sched.C09Final Sched.C09Oracle Sched.C09Model Sched.C09Desc.

(* the clause about the leaves below the dependants *)
Lemma c09_model_leaves_clause cfg w st :
  WFin w -> cap_nonneg cfg -> no_user_dates w = true -> members_first w -> backward cfg w = Ok st ->
  forall t e, In t (members w) -> d_end (getd st t) = Some e ->
  forall s2, In s2 (starts_of (obs_of w st) w (dependant_leaves w t)) -> e <= s2.
Proof.
  intros Hw Hc Hn Hm H t e Ht He s2 Hs2.
  rewrite (c09_starts_of_model cfg w st _ Hw Hc Hn Hm H) in Hs2.
  apply (c09_in_somes (fun p => d_start (getdl (dy st) p))) in Hs2. destruct Hs2 as [s [Hs Hss]].
  unfold dependant_leaves in Hs. apply in_flat_map in Hs. destruct Hs as [q [Hq Hsq]].
  destruct (k_ext (gett w q)) eqn:Hqe.
  - rewrite (c09_leaves_ext w _ q Hqe) in Hsq. destruct Hsq as [<-|[]].
    apply (C09_deps_holds cfg w st Hw Hc Hn H t q e s2 Ht Hq He Hss).
  - destruct (c09_leaves_below w Hw _ q s Hqe Hsq) as [->|[Hsm Hin]].
    + apply (C09_deps_holds cfg w st Hw Hc Hn H t q e s2 Ht Hq He Hss).
    + apply (C09_deps_below_holds cfg w st Hw Hc Hn H t q s e s2 Ht Hq (proj2 (c09_members_in w s) Hsm)
               (or_intror Hin) He Hss).
Qed.

Lemma c09_placed_new_in l t before new after x : c09_placed l t before new after -> In x new -> In x l.
Proof. intros [-> _] Hx. apply in_or_app. right. apply in_or_app. left. exact Hx. Qed.

Theorem C09_model_task_holds cfg w st :
  WFin w -> cap_nonneg cfg -> no_user_dates w = true -> members_first w -> backward cfg w = Ok st ->
  forall t, In t (members w) -> c09_task_statement cfg w (obs_of w st) t.
Proof.
  intros Hw Hc Hn Hm H t Ht.
  destruct (C09_model_order_holds cfg w st Hw Hc Hn Hm H t Ht) as [s [e [Hs [He [H1 H2]]]]].
  exists s, e. split; [exact Hs|]. split; [exact He|]. split; [exact H1|]. split; [exact H2|].
  rewrite (c09_obs_start w st t Hm Ht) in Hs. rewrite (c09_obs_end w st t Hm Ht) in He.
  split; [exact (c09_model_leaves_clause cfg w st Hw Hc Hn Hm H t e Ht He)|].
  intros Hleaf Hmil. cbv zeta.
  rewrite (c09_due_model cfg w st t Hw Hc Hn Hm H).
  unfold leafb in Hleaf.
  destruct (C09_encode_holds cfg w st Hw Hc Hn H t s e Ht Hleaf Hmil Hs He)
    as [before [new [after [Hp [Ee [Hu [Eoff [Enil Econs]]]]]]]].
  pose proof (c09_rows_of_model w st t before new after Hp) as Hrows.
  assert (Hdays : map row_day (rows_of (obs_of w st) t) = rev (map r_day new)).
  { rewrite Hrows, map_map, <- map_rev. reflexivity. }
  assert (Hnil : map row_day (rows_of (obs_of w st) t) = [] -> new = []).
  { rewrite Hdays. intros E. destruct new as [|x rest]; [reflexivity|]. exfalso.
    apply (f_equal (@length Z)) in E. rewrite rev_length, map_length in E. discriminate. }
  assert (Hfirst : forall d0 ds, map row_day (rows_of (obs_of w st) t) = d0 :: ds ->
            exists x rest, new = x :: rest /\ zmin_list d0 ds = r_day x
                           /\ exists y, In y new /\ zmax_list d0 ds = r_day y).
  { intros d0 ds Ed. rewrite Hdays in Ed. destruct new as [|x rest]; [discriminate|].
    exists x, rest. split; [reflexivity|].
    destruct (Econs x rest eq_refl) as [Hminx _].
    destruct (c09_zmin_list_spec ds d0) as [A B]. destruct (c09_zmax_list_spec ds d0) as [A' _].
    rewrite <- Ed in A, B, A'. split.
    - apply <- in_rev in A. apply in_map_iff in A. destruct A as [y [Ey Hy]]. specialize (Hminx y Hy).
      assert (Hin : In (r_day x) (rev (map r_day (x :: rest)))) by (apply -> in_rev; apply in_map; left; reflexivity).
      specialize (B _ Hin). lia.
    - apply <- in_rev in A'. apply in_map_iff in A'. destruct A' as [y [Ey Hy]]. exists y. auto. }
  cbn [obs_of o_rows]. split.
  - (* balancing on *)
    intros Hb. destruct (C09_late_holds cfg w st Hw Hc Hn H Hb t e Ht Hleaf Hmil He) as [L1 L2].
    rewrite Hb in Ee, Hu. unfold used in Ee, Hu.
    split.
    { intros d Hd. unfold model_rows. rewrite obooked_model. apply L1. exact Hd. }
    split.
    { (* nothing reserved *)
      intros Ed. pose proof (Hnil Ed) as En. subst new. unfold c09_norows_on. cbv zeta.
      split; [apply Enil; reflexivity|]. split; [lia|].
      pose proof Hp as [Hl _]. simpl in Hl.
      split.
      - unfold model_rows. rewrite obooked_model.
        pose proof (c09_booked_grows cfg w st Hw Hc Hn H after before (k_res (gett w t)) (day_of (e - 1)) Hl) as Hg.
        pose proof (frac_mono _ _ (cap cfg (k_res (gett w t)) (day_of (e - 1))) ltac:(lia) Hg). lia.
      - exists (length (map row_obs (rev before))). split.
        + rewrite (c09_model_rows_split st t before [] after Hp), app_length. lia.
        + rewrite (c09_model_rows_split st t before [] after Hp), c09_firstn_app_exact, obooked_model. exact Ee. }
    intros d0 ds Ed. destruct (Hfirst d0 ds Ed) as [x [rest [En [Emin [y [Hy Emax]]]]]]. cbv zeta.
    rewrite Emin, Emax. subst new.
    destruct (Econs x rest eq_refl) as [_ [Es [_ Hnd]]]. rewrite Hb in Es. unfold used in Es.
    split; [|split].
    + intros d Hd. unfold model_rows. rewrite obooked_model.
      apply (L2 x y d); try assumption.
      * eapply c09_placed_new_in; [exact Hp | left; reflexivity].
      * eapply c09_placed_new_in; [exact Hp | exact Hy].
      * destruct Hp as [_ [_ [_ Hnw]]]. apply Hnw. left. reflexivity.
      * destruct Hp as [_ [_ [_ Hnw]]]. apply Hnw. exact Hy.
    + rewrite (c09_upto_task_model st t before x rest after Hp Hnd), obooked_model. exact Es.
    + rewrite (c09_before_task_model st t before (x :: rest) after Hp ltac:(discriminate)), obooked_model. exact Ee.
  - (* balancing off *)
    intros Hb. split.
    { intros Ed. pose proof (Hnil Ed) as En. unfold c09_norows_off. cbv zeta.
      split; [apply Enil; exact En|]. split; [lia | exact (Eoff Hb)]. }
    intros d0 ds Ed. destruct (Hfirst d0 ds Ed) as [x [rest [En [Emin _]]]]. cbv zeta.
    rewrite Emin. subst new. destruct (Econs x rest eq_refl) as [_ [Es [Eown _]]].
    split; [|exact (Eoff Hb)].
    unfold model_rows. rewrite obooked_t_model, <- (Eown Hb). exact Es.
Qed.

(* the model's own backward schedule passes the whole oracle *)
Theorem C09_model_oracle_holds cfg w st :
  WFin w -> cap_nonneg cfg -> members_first w -> backward cfg w = Ok st -> c09_b cfg w (obs_of w st) = true.
Proof.
  intros Hw Hc Hm H. apply c09_b_spec. intros Hn t Ht.
  apply (C09_model_task_holds cfg w st Hw Hc Hn Hm H t Ht).
Qed.
