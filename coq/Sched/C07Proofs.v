(* C07: start <= end and roll-ups.  One Prop-level statement per task, written over abstract getters
   so that the same Prop speaks about the model's state and about an observed schedule; it is an
   invariant of both machines (established when the task is calculated, frozen afterwards); the tree
   induction for WBS.start / WBS.end; reflection of the executable oracles; the model's own output
   passes them. *)
From PJ Require Import Base.Prelude Sched.Model Sched.LedgerProofs Sched.Primitives Sched.Machine
     Sched.Instances Sched.C03Proofs Sched.Check Sched.Oracles Sched.OracleProofs Sched.WfIn Sched.C04Base.

(* ---------- minimum / maximum / sum of a list, declaratively ---------- *)
Definition is_minz (m : Z) (l : list Z) : Prop := In m l /\ forall d, In d l -> m <= d.
Definition is_maxz (m : Z) (l : list Z) : Prop := In m l /\ forall d, In d l -> d <= m.
Definition sumz (l : list Z) : Z := fold_right Z.add 0 l.

Lemma zmin_list_spec l : forall x, is_minz (zmin_list x l) (x :: l).
Proof.
  induction l as [|y l IH]; intros x; simpl.
  - split; [left; reflexivity | intros d [<-|[]]; lia].
  - destruct (IH (Z.min x y)) as [Hin Hlb]. split.
    + destruct Hin as [E|Hin]; [|right; right; exact Hin].
      rewrite <- E. destruct (Z.min_spec x y) as [[_ Em]|[_ Em]]; [left | right; left]; lia.
    + intros d Hd. assert (Hm : zmin_list (Z.min x y) l <= Z.min x y) by (apply Hlb; left; reflexivity).
      destruct Hd as [<-|[<-|Hd]]; [lia | lia | apply Hlb; right; exact Hd].
Qed.

Lemma zmax_list_spec l : forall x, is_maxz (zmax_list x l) (x :: l).
Proof.
  induction l as [|y l IH]; intros x; simpl.
  - split; [left; reflexivity | intros d [<-|[]]; lia].
  - destruct (IH (Z.max x y)) as [Hin Hub]. split.
    + destruct Hin as [E|Hin]; [|right; right; exact Hin].
      rewrite <- E. destruct (Z.max_spec x y) as [[_ Em]|[_ Em]]; [right; left | left]; lia.
    + intros d Hd. assert (Hm : Z.max x y <= zmax_list (Z.max x y) l) by (apply Hub; left; reflexivity).
      destruct Hd as [<-|[<-|Hd]]; [lia | lia | apply Hub; right; exact Hd].
Qed.

Lemma is_minz_unique l a b : is_minz a l -> is_minz b l -> a = b.
Proof. intros [A1 A2] [B1 B2]. specialize (A2 b B1). specialize (B2 a A1). lia. Qed.

Lemma is_maxz_unique l a b : is_maxz a l -> is_maxz b l -> a = b.
Proof. intros [A1 A2] [B1 B2]. specialize (A2 b B1). specialize (B2 a A1). lia. Qed.

Lemma min_max_meaning l x :
  is_minz (zmin_list x l) (x :: l) /\ is_maxz (zmax_list x l) (x :: l)
  /\ (forall a b, is_minz a (x :: l) -> is_minz b (x :: l) -> a = b)
  /\ (forall a b, is_maxz a (x :: l) -> is_maxz b (x :: l) -> a = b).
Proof.
  split; [apply zmin_list_spec|]. split; [apply zmax_list_spec|].
  split; [apply is_minz_unique | apply is_maxz_unique].
Qed.

(* the model folds from the left, the oracle uses zmin_list: the same function *)
Lemma fold_min_zmin l : forall x, fold_left Z.min l x = zmin_list x l.
Proof. induction l as [|y l IH]; intros x; simpl; [reflexivity | apply IH]. Qed.

Lemma fold_max_zmax l : forall x, fold_left Z.max l x = zmax_list x l.
Proof. induction l as [|y l IH]; intros x; simpl; [reflexivity | apply IH]. Qed.

Definition omin (l : list Z) : option Z := match l with [] => None | x :: xs => Some (zmin_list x xs) end.
Definition omax (l : list Z) : option Z := match l with [] => None | x :: xs => Some (zmax_list x xs) end.

(* "r is the minimum of l", None for the empty list *)
Definition min_of (l : list Z) (r : option Z) : Prop := match r with None => l = [] | Some m => is_minz m l end.
Definition max_of (l : list Z) (r : option Z) : Prop := match r with None => l = [] | Some m => is_maxz m l end.

Lemma min_of_omin l r : min_of l r <-> r = omin l.
Proof.
  destruct l as [|x xs]; destruct r as [m|]; simpl; split; intros H; try reflexivity; try discriminate.
  - destruct H as [[] _].
  - f_equal. eapply is_minz_unique; [exact H | apply zmin_list_spec].
  - inversion H; subst. apply zmin_list_spec.
Qed.

Lemma max_of_omax l r : max_of l r <-> r = omax l.
Proof.
  destruct l as [|x xs]; destruct r as [m|]; simpl; split; intros H; try reflexivity; try discriminate.
  - destruct H as [[] _].
  - f_equal. eapply is_maxz_unique; [exact H | apply zmax_list_spec].
  - inversion H; subst. apply zmax_list_spec.
Qed.

(* ---------- lists of optional values ---------- *)
Lemma somes_map_some {A} (vs : list A) : somes (map Some vs) = vs.
Proof. induction vs as [|v vs IH]; simpl; [reflexivity | rewrite IH; reflexivity]. Qed.

Lemma somes_length {A} (l : list (option A)) : (length (somes l) <= length l)%nat.
Proof. induction l as [|[x|] l IH]; simpl; lia. Qed.

(* [somes] keeps the length exactly when every element is present *)
Lemma somes_all {A} (l : list (option A)) : length (somes l) = length l -> l = map Some (somes l).
Proof.
  induction l as [|[x|] l IH]; simpl; intros H; [reflexivity | |].
  - f_equal. apply IH. lia.
  - pose proof (somes_length l). lia.
Qed.

Lemma in_somes_map {A} (g : nat -> option A) l d :
  In d (somes (map g l)) <-> exists t, In t l /\ g t = Some d.
Proof.
  induction l as [|a l IH]; simpl.
  - split; [intros [] | intros [t [[] _]]].
  - destruct (g a) as [x|] eqn:Ea; simpl; rewrite IH; split.
    + intros [<-|[t [Ht Hg]]]; [exists a; auto | exists t; auto].
    + intros [t [[<-|Ht] Hg]]; [left; congruence | right; exists t; auto].
    + intros [t [Ht Hg]]. exists t; auto.
    + intros [t [[<-|Ht] Hg]]; [congruence | exists t; auto].
Qed.

Lemma map_some_in {A} (g : nat -> option A) cs : forall vs c v,
  map g cs = map Some vs -> In c cs -> g c = Some v -> In v vs.
Proof.
  induction cs as [|a cs IH]; intros vs c v Hm Hc Hg; [destruct Hc|].
  destruct vs as [|x vs]; [discriminate|]. simpl in Hm. inversion Hm as [[E1 E2]].
  destruct Hc as [<-|Hc]; [left; congruence | right; eapply IH; eauto].
Qed.

Lemma map_some_nonempty {A B} (g : B -> option A) cs vs : map g cs = map Some vs -> cs <> [] -> vs <> [].
Proof. intros H Hc E. subst vs. destruct cs; [contradiction | discriminate]. Qed.

Lemma sum_opts_some vs : sum_opts (map Some vs) = Ok (sumz vs).
Proof. induction vs as [|v vs IH]; simpl; [reflexivity | rewrite IH; reflexivity]. Qed.

Lemma osum_opts_some l v : osum_opts l = Some v <-> exists vs, l = map Some vs /\ v = sumz vs.
Proof.
  revert v; induction l as [|x l IH]; intros v; simpl.
  - split.
    + intros H; inversion H. exists []. auto.
    + intros [vs [E ->]]. destruct vs; [reflexivity | discriminate].
  - fold (osum_opts l). destruct x as [x|].
    + destruct (osum_opts l) as [s|] eqn:Es.
      * split.
        -- intros H; inversion H. destruct (proj1 (IH s) eq_refl) as [vs [-> ->]]. exists (x :: vs). auto.
        -- intros [vs [E ->]]. destruct vs as [|y vs]; [discriminate|]. simpl in E. inversion E; subst.
           assert (Hs : Some s = Some (sumz vs)) by (apply IH; exists vs; auto). inversion Hs. reflexivity.
      * split; [discriminate|]. intros [vs [E ->]]. destruct vs as [|y vs]; [discriminate|]. simpl in E. inversion E; subst.
        assert (Hs : None = Some (sumz vs)) by (apply IH; exists vs; auto). discriminate.
    + split; [discriminate|]. intros [vs [E _]]. destruct vs; discriminate.
Qed.

Lemma osum_opts_none l : osum_opts l = None <-> In None l.
Proof.
  induction l as [|x l IH]; simpl.
  - split; [discriminate | intros []].
  - fold (osum_opts l). destruct x as [x|].
    + destruct (osum_opts l) as [s|]; split.
      * discriminate.
      * intros [E|H]; [discriminate | apply IH in H; discriminate].
      * intros _. right. apply IH. reflexivity.
      * reflexivity.
    + split; [left; reflexivity | reflexivity].
Qed.

(* ---------- the statement about one task ---------- *)
(* "the summary carries the sum of its children's values": every child has a value and [r] is their sum
   (a summary one of whose children has no value does not carry a sum) *)
Definition sum_rollup (g : nat -> option Z) (cs : list nat) (r : option Z) : Prop :=
  exists vs, map g cs = map Some vs /\ r = Some (sumz vs).

Definition rollup (gs ge gest gsp : nat -> option Z) (cs : list nat) (s e : Z) (oest osp : option Z) : Prop :=
  exists ss es,
    map gs cs = map Some ss /\ map ge cs = map Some es       (* every child has both dates *)
    /\ is_minz s ss /\ is_maxz e es
    /\ sum_rollup gest cs oest /\ sum_rollup gsp cs osp.

(* Nothing in the summary clause reads k_start / k_end / k_est / k_spent of the summary itself: the
   roll-ups hold whatever the user had put there (init_dyn clears them: [init_dyn_summary]). *)
Definition c07_task_st (w : list itask) (gs ge gest gsp : nat -> option Z) (t : nat) : Prop :=
  let k := gett w t in
  exists s e, gs t = Some s /\ ge t = Some e
    /\ (is_leaf k = true -> user_dates_ok k = true -> s <= e)
    /\ (is_leaf k = false -> k_milestone k = false ->
        rollup gs ge gest gsp (k_children k) s e (gest t) (gsp t)).

Definition ordered (gs ge : nat -> option Z) (t : nat) : Prop :=
  exists s e, gs t = Some s /\ ge t = Some e /\ s <= e.
(* the dates the user fixed on leaves are sane (those on summaries are discarded, they do not matter) *)
Definition udok_leaf (w : list itask) : Prop :=
  forall t, k_ext (gett w t) = false -> is_leaf (gett w t) = true -> user_dates_ok (gett w t) = true.

(* WBS.start / WBS.end of src/pjplan/wbs.py: min / max over the roots *)
Definition wbs_start (w : list itask) (gs : nat -> option Z) : option Z := omin (somes (map gs (roots w))).
Definition wbs_end (w : list itask) (ge : nat -> option Z) : option Z := omax (somes (map ge (roots w))).

(* the whole property over an observation *)
Definition c07_st (w : list itask) (gs ge gest gsp : nat -> option Z) (ws we : option Z) : Prop :=
  (forall t, k_ext (gett w t) = false -> c07_task_st w gs ge gest gsp t)
  /\ (udok_leaf w -> forall t, k_ext (gett w t) = false -> ordered gs ge t)
  /\ min_of (somes (map gs (members w))) ws
  /\ max_of (somes (map ge (members w))) we.

(* ---------- the statements only read the task and its children ---------- *)
Lemma sum_rollup_ext g g' cs r : (forall c, In c cs -> g' c = g c) -> sum_rollup g cs r -> sum_rollup g' cs r.
Proof.
  intros H [vs [A B]]. exists vs. split; [|exact B]. rewrite <- A. apply map_ext_in. exact H.
Qed.

Lemma rollup_ext gs ge gest gsp gs' ge' gest' gsp' cs s e oe os :
  (forall c, In c cs -> gs' c = gs c /\ ge' c = ge c /\ gest' c = gest c /\ gsp' c = gsp c) ->
  rollup gs ge gest gsp cs s e oe os -> rollup gs' ge' gest' gsp' cs s e oe os.
Proof.
  intros H [ss [es [A [B [C [D [E F]]]]]]]. exists ss, es.
  split; [rewrite <- A; apply map_ext_in; intros c Hc; apply (H c Hc)|].
  split; [rewrite <- B; apply map_ext_in; intros c Hc; apply (H c Hc)|].
  split; [exact C|]. split; [exact D|].
  split; [eapply sum_rollup_ext; [|exact E] | eapply sum_rollup_ext; [|exact F]]; intros c Hc; apply (H c Hc).
Qed.

Lemma c07_task_st_ext w gs ge gest gsp gs' ge' gest' gsp' t :
  (forall p, p = t \/ In p (k_children (gett w t)) ->
             gs' p = gs p /\ ge' p = ge p /\ gest' p = gest p /\ gsp' p = gsp p) ->
  c07_task_st w gs ge gest gsp t -> c07_task_st w gs' ge' gest' gsp' t.
Proof.
  intros H [s [e [A [B [C D]]]]]. destruct (H t (or_introl eq_refl)) as [H1 [H2 [H3 H4]]].
  exists s, e. split; [congruence|]. split; [congruence|]. split; [exact C|].
  intros Hl Hm. rewrite H3, H4. eapply rollup_ext; [|apply D; assumption].
  intros c Hc. apply H. right. exact Hc.
Qed.

Lemma ordered_ext gs ge gs' ge' t : gs' t = gs t -> ge' t = ge t -> ordered gs ge t -> ordered gs' ge' t.
Proof. intros H1 H2 [s [e [A [B C]]]]. exists s, e. split; [congruence|]. split; [congruence | exact C]. Qed.

(* ---------- reflection of the executable oracles ---------- *)
Lemma zopt_eqb_eq a b : zopt_eqb a b = true <-> a = b.
Proof. apply opt_eqb_spec. intros x y. apply Z.eqb_eq. Qed.

Lemma sum_clause_spec g cs r :
  match osum_opts (map g cs) with Some v => zopt_eqb r (Some v) | None => false end = true <-> sum_rollup g cs r.
Proof.
  unfold sum_rollup. destruct (osum_opts (map g cs)) as [v|] eqn:E.
  - apply osum_opts_some in E. destruct E as [vs [A ->]]. rewrite zopt_eqb_eq. split.
    + intros ->. exists vs. auto.
    + intros [vs' [A' ->]]. rewrite A in A'.
      assert (vs' = vs) by (rewrite <- (somes_map_some vs'), <- A', somes_map_some; reflexivity). subst. reflexivity.
  - split; [discriminate|]. intros [vs [A _]].
    assert (Hs : osum_opts (map g cs) = Some (sumz vs)) by (apply osum_opts_some; exists vs; auto). congruence.
Qed.

(* the roll-up part of the oracle, for a non-empty list of children *)
Definition rollup_b (o : osch) (cs : list nat) (t : nat) (s e : Z) : bool :=
  match somes (map (o_start o) cs), somes (map (o_end o) cs) with
  | s0 :: ss, e0 :: es =>
      (Nat.eqb (length (s0 :: ss)) (length cs)) && (Nat.eqb (length (e0 :: es)) (length cs))
      && (s =? zmin_list s0 ss) && (e =? zmax_list e0 es)
      && (match osum_opts (map (o_est o) cs) with
          | Some v => zopt_eqb (o_est o t) (Some v) | None => false end)
      && (match osum_opts (map (o_spent o) cs) with
          | Some v => zopt_eqb (o_spent o t) (Some v) | None => false end)
  | _, _ => false
  end.

Lemma rollup_b_spec o cs t s e : cs <> [] ->
  (rollup_b o cs t s e = true <->
   rollup (o_start o) (o_end o) (o_est o) (o_spent o) cs s e (o_est o t) (o_spent o t)).
Proof.
  intros Hne. unfold rollup_b, rollup. split.
  - destruct (somes (map (o_start o) cs)) as [|s0 ss] eqn:Es; [discriminate|].
    destruct (somes (map (o_end o) cs)) as [|e0 es] eqn:Ee; [discriminate|].
    rewrite !andb_true_iff. intros [[[[[L1 L2] M1] M2] S1] S2].
    apply Nat.eqb_eq in L1. apply Nat.eqb_eq in L2. apply Z.eqb_eq in M1. apply Z.eqb_eq in M2.
    apply sum_clause_spec in S1. apply sum_clause_spec in S2.
    exists (s0 :: ss), (e0 :: es).
    split. { rewrite <- Es. apply somes_all. rewrite Es, map_length. exact L1. }
    split. { rewrite <- Ee. apply somes_all. rewrite Ee, map_length. exact L2. }
    split. { subst s. apply zmin_list_spec. }
    split. { subst e. apply zmax_list_spec. }
    split; assumption.
  - intros [ss [es [A [B [C [D [E F]]]]]]].
    rewrite A, B, !somes_map_some.
    assert (Ls : length ss = length cs) by (rewrite <- (map_length Some ss), <- A, map_length; reflexivity).
    assert (Le : length es = length cs) by (rewrite <- (map_length Some es), <- B, map_length; reflexivity).
    destruct ss as [|s0 ss]; [destruct cs; [contradiction | discriminate]|].
    destruct es as [|e0 es]; [destruct cs; [contradiction | discriminate]|].
    rewrite !andb_true_iff. repeat split.
    + apply Nat.eqb_eq. exact Ls.
    + apply Nat.eqb_eq. exact Le.
    + apply Z.eqb_eq. eapply is_minz_unique; [exact C | apply zmin_list_spec].
    + apply Z.eqb_eq. eapply is_maxz_unique; [exact D | apply zmax_list_spec].
    + apply sum_clause_spec. exact E.
    + apply sum_clause_spec. exact F.
Qed.

Lemma c07_task_b_unfold w o t :
  c07_task_b w o t =
  match o_start o t, o_end o t with
  | Some s, Some e =>
      (if is_leaf (gett w t) then negb (user_dates_ok (gett w t)) || (s <=? e) else true)
      && (match k_children (gett w t) with
          | [] => true
          | c :: cs => if k_milestone (gett w t) then true else rollup_b o (c :: cs) t s e
          end)
  | _, _ => false
  end.
Proof. reflexivity. Qed.

Theorem c07_task_b_spec w o t :
  c07_task_b w o t = true <-> c07_task_st w (o_start o) (o_end o) (o_est o) (o_spent o) t.
Proof.
  rewrite c07_task_b_unfold. unfold c07_task_st. cbv zeta. split.
  - destruct (o_start o t) as [s|]; [|discriminate]. destruct (o_end o t) as [e|]; [|discriminate].
    rewrite andb_true_iff. intros [H1 H2]. exists s, e. split; [reflexivity|]. split; [reflexivity|]. split.
    + intros Hl Hu. rewrite Hl, Hu in H1. simpl in H1. apply Z.leb_le. exact H1.
    + intros Hl Hm. unfold is_leaf in Hl. destruct (k_children (gett w t)) as [|c cs] eqn:Ek; [discriminate|].
      rewrite Hm in H2. apply rollup_b_spec in H2; [exact H2 | discriminate].
  - intros [s [e [-> [-> [H1 H2]]]]]. rewrite andb_true_iff. split.
    + destruct (is_leaf (gett w t)) eqn:Hl; [|reflexivity].
      destruct (user_dates_ok (gett w t)) eqn:Hu; [|reflexivity]. simpl. apply Z.leb_le. apply H1; reflexivity.
    + destruct (k_children (gett w t)) as [|c cs] eqn:Ek; [reflexivity|].
      destruct (k_milestone (gett w t)) eqn:Hm; [reflexivity|].
      apply rollup_b_spec; [discriminate|]. apply H2; [|reflexivity].
      unfold is_leaf. rewrite Ek. reflexivity.
Qed.

Lemma udok_leaf_b w :
  forallb (fun t => negb (leafb w t) || user_dates_ok (gett w t)) (members w) = true <-> udok_leaf w.
Proof.
  rewrite forallb_forall. unfold udok_leaf, leafb. split.
  - intros H t Ht Hl. specialize (H t (proj2 (in_members w t) Ht)). rewrite Hl in H. exact H.
  - intros H t Ht. apply in_members in Ht. destruct (is_leaf (gett w t)) eqn:Hl; [|reflexivity].
    simpl. apply H; assumption.
Qed.

Theorem c07_order_b_spec w o :
  c07_order_b w o = true <->
  (udok_leaf w -> forall t, k_ext (gett w t) = false -> ordered (o_start o) (o_end o) t).
Proof.
  unfold c07_order_b. split.
  - intros H Hu t Ht. apply udok_leaf_b in Hu. rewrite Hu in H. simpl in H.
    rewrite forallb_forall in H. specialize (H t (proj2 (in_members w t) Ht)).
    unfold ordered. destruct (o_start o t) as [s|]; [|discriminate]. destruct (o_end o t) as [e|]; [|discriminate].
    exists s, e. split; [reflexivity|]. split; [reflexivity|]. apply Z.leb_le. exact H.
  - intros H. destruct (forallb (fun t => negb (leafb w t) || user_dates_ok (gett w t)) (members w)) eqn:Hu; [|reflexivity].
    simpl. apply udok_leaf_b in Hu. apply forallb_forall. intros t Ht. apply in_members in Ht.
    destruct (H Hu t Ht) as [s [e [-> [-> Hle]]]]. apply Z.leb_le. exact Hle.
Qed.

Lemma min_clause_spec l r :
  match l with
  | [] => match r with None => true | _ => false end
  | s0 :: ss => zopt_eqb r (Some (zmin_list s0 ss))
  end = true <-> min_of l r.
Proof.
  rewrite min_of_omin. destruct l as [|s0 ss]; simpl.
  - destruct r; split; intros H; try discriminate; reflexivity.
  - apply zopt_eqb_eq.
Qed.

Lemma max_clause_spec l r :
  match l with
  | [] => match r with None => true | _ => false end
  | s0 :: ss => zopt_eqb r (Some (zmax_list s0 ss))
  end = true <-> max_of l r.
Proof.
  rewrite max_of_omax. destruct l as [|s0 ss]; simpl.
  - destruct r; split; intros H; try discriminate; reflexivity.
  - apply zopt_eqb_eq.
Qed.

Theorem c07_b_spec w o ws we :
  c07_b w o ws we = true <-> c07_st w (o_start o) (o_end o) (o_est o) (o_spent o) ws we.
Proof.
  unfold c07_b, c07_st. rewrite !andb_true_iff, min_clause_spec, max_clause_spec, c07_order_b_spec.
  rewrite forallb_forall. split.
  - intros [[[H1 H2] H3] H4]. split; [|auto]. intros t Ht. apply c07_task_b_spec. apply H1. apply in_members. exact Ht.
  - intros [H1 [H2 [H3 H4]]]. split; [split; [split|]|]; try assumption.
    intros t Ht. apply c07_task_b_spec. apply H1. apply in_members. exact Ht.
Qed.

(* ---------- WBS.start / WBS.end: induction on the tree ---------- *)
(* a parent starts no later and ends no earlier than anything below it *)
Lemma up_bounds w gs ge gest gsp : WFin w ->
  (forall t, k_ext (gett w t) = false -> c07_task_st w gs ge gest gsp t) ->
  forall t r, up w t r -> k_ext (gett w t) = false ->
    k_ext (gett w r) = false
    /\ exists st et sr er, gs t = Some st /\ ge t = Some et /\ gs r = Some sr /\ ge r = Some er
                           /\ sr <= st /\ et <= er.
Proof.
  intros Hw Hall t r Hu. induction Hu as [t | t p r Ep Hu IH]; intros He.
  - split; [exact He|]. destruct (Hall t He) as [s [e [A [B _]]]].
    exists s, e, s, e. repeat split; try assumption; lia.
  - destruct (wm_parent _ _ (wfin_member w t Hw He) p Ep) as [Hp Hin].
    destruct (IH Hp) as [Hr [sp [ep [sr [er [A [B [C [D [L1 L2]]]]]]]]]].
    split; [exact Hr|].
    destruct (Hall t He) as [st [et [At [Bt _]]]].
    destruct (Hall p Hp) as [sp' [ep' [Ap [Bp [_ Hroll]]]]].
    assert (Hnl : is_leaf (gett w p) = false).
    { unfold is_leaf. destruct (k_children (gett w p)); [destruct Hin | reflexivity]. }
    assert (Hnm : k_milestone (gett w p) = false).
    { destruct (k_milestone (gett w p)) eqn:Hm; [|reflexivity].
      rewrite (wm_milestone _ _ (wfin_member w p Hw Hp) Hm) in Hnl. discriminate. }
    destruct (Hroll Hnl Hnm) as [ss [es [Ms [Me [[_ Hmin] [[_ Hmax] _]]]]]].
    assert (sp' = sp) by congruence. assert (ep' = ep) by congruence. subst sp' ep'.
    pose proof (Hmin st (map_some_in gs _ _ t st Ms Hin At)).
    pose proof (Hmax et (map_some_in ge _ _ t et Me Hin Bt)).
    exists st, et, sr, er. repeat split; try assumption; lia.
Qed.

Theorem wbs_bounds w gs ge gest gsp : WFin w ->
  (forall t, k_ext (gett w t) = false -> c07_task_st w gs ge gest gsp t) ->
  min_of (somes (map gs (members w))) (wbs_start w gs)
  /\ max_of (somes (map ge (members w))) (wbs_end w ge).
Proof.
  intros Hw Hall.
  assert (Hroot : forall t, k_ext (gett w t) = false ->
            exists r st et sr er, In r (roots w) /\ gs t = Some st /\ ge t = Some et /\ gs r = Some sr /\ ge r = Some er
                                  /\ sr <= st /\ et <= er).
  { intros t He. destruct (member_has_root w t Hw He) as [r [Hu Hr]].
    destruct (up_bounds w gs ge gest gsp Hw Hall t r Hu He) as [_ [st [et [sr [er H]]]]].
    exists r, st, et, sr, er. split; [exact Hr | exact H]. }
  assert (Hrm : forall r, In r (roots w) -> In r (members w)).
  { intros r Hr. apply in_roots in Hr. apply in_members. apply Hr. }
  unfold wbs_start, wbs_end. split.
  - destruct (somes (map gs (roots w))) as [|x xs] eqn:Er; simpl.
    + destruct (somes (map gs (members w))) as [|d ds] eqn:Em; [reflexivity|]. exfalso.
      assert (Hd : In d (somes (map gs (members w)))) by (rewrite Em; left; reflexivity).
      apply in_somes_map in Hd. destruct Hd as [t [Ht _]]. apply in_members in Ht.
      destruct (Hroot t Ht) as [r [st [et [sr [er [Hr [_ [_ [A _]]]]]]]]].
      assert (Hin : In sr (somes (map gs (roots w)))) by (apply in_somes_map; exists r; auto).
      rewrite Er in Hin. destruct Hin.
    + destruct (zmin_list_spec xs x) as [Hin Hlb]. rewrite <- Er in Hin, Hlb. split.
      * apply in_somes_map in Hin. destruct Hin as [r [Hr Hg]]. apply in_somes_map. exists r. auto.
      * intros d Hd. apply in_somes_map in Hd. destruct Hd as [t [Ht Hg]]. apply in_members in Ht.
        destruct (Hroot t Ht) as [r [st [et [sr [er [Hr [A [_ [C [_ [L _]]]]]]]]]]].
        assert (Hin' : In sr (somes (map gs (roots w)))) by (apply in_somes_map; exists r; auto).
        specialize (Hlb sr Hin'). assert (st = d) by congruence. lia.
  - destruct (somes (map ge (roots w))) as [|x xs] eqn:Er; simpl.
    + destruct (somes (map ge (members w))) as [|d ds] eqn:Em; [reflexivity|]. exfalso.
      assert (Hd : In d (somes (map ge (members w)))) by (rewrite Em; left; reflexivity).
      apply in_somes_map in Hd. destruct Hd as [t [Ht _]]. apply in_members in Ht.
      destruct (Hroot t Ht) as [r [st [et [sr [er [Hr [_ [_ [_ [B _]]]]]]]]]].
      assert (Hin : In er (somes (map ge (roots w)))) by (apply in_somes_map; exists r; auto).
      rewrite Er in Hin. destruct Hin.
    + destruct (zmax_list_spec xs x) as [Hin Hub]. rewrite <- Er in Hin, Hub. split.
      * apply in_somes_map in Hin. destruct Hin as [r [Hr Hg]]. apply in_somes_map. exists r. auto.
      * intros d Hd. apply in_somes_map in Hd. destruct Hd as [t [Ht Hg]]. apply in_members in Ht.
        destruct (Hroot t Ht) as [r [st [et [sr [er [Hr [_ [B [_ [D [_ L]]]]]]]]]]].
        assert (Hin' : In er (somes (map ge (roots w)))) by (apply in_somes_map; exists r; auto).
        specialize (Hub er Hin'). assert (et = d) by congruence. lia.
Qed.

(* the same, as equations between the two computations *)
Theorem wbs_is_min_max w gs ge gest gsp : WFin w ->
  (forall t, k_ext (gett w t) = false -> c07_task_st w gs ge gest gsp t) ->
  wbs_start w gs = omin (somes (map gs (members w))) /\ wbs_end w ge = omax (somes (map ge (members w))).
Proof.
  intros Hw Hall. destruct (wbs_bounds w gs ge gest gsp Hw Hall) as [A B].
  split; [apply min_of_omin; exact A | apply max_of_omax; exact B].
Qed.

(* ---------- the getters of the model's state ---------- *)
Definition ds_start (ds : list dyn) (p : nat) : option Z := d_start (getdl ds p).
Definition ds_end (ds : list dyn) (p : nat) : option Z := d_end (getdl ds p).
Definition ds_est (ds : list dyn) (p : nat) : option Z := d_est (getdl ds p).
Definition ds_spent (ds : list dyn) (p : nat) : option Z := d_spent (getdl ds p).

(* [U]: the domain condition under which start <= end holds for every task (forward: the dates the
   user fixed on leaves are sane; backward: none) *)
Definition task07 (U : Prop) (w : list itask) (ds : list dyn) (t : nat) : Prop :=
  c07_task_st w (ds_start ds) (ds_end ds) (ds_est ds) (ds_spent ds) t
  /\ (U -> ordered (ds_start ds) (ds_end ds) t).

(* every calculated task satisfies the statement (its children were calculated before and are frozen) *)
Definition inv07 (U : Prop) (w : list itask) (c : core) : Prop := forall t, In t (c_calc c) -> task07 U w (c_dy c) t.

Lemma inv07_init U w : inv07 U w (init_core w).
Proof. intros t []. Qed.

Lemma task07_frame U w ds ds' t :
  (forall p, p = t \/ In p (k_children (gett w t)) -> getdl ds' p = getdl ds p) ->
  task07 U w ds t -> task07 U w ds' t.
Proof.
  intros H [A B]. split.
  - eapply c07_task_st_ext; [|exact A]. intros p Hp. unfold ds_start, ds_end, ds_est, ds_spent.
    rewrite (H p Hp). auto.
  - intros Hu. eapply ordered_ext; [| |exact (B Hu)]; unfold ds_start, ds_end; rewrite (H t (or_introl eq_refl)); reflexivity.
Qed.

(* all children calculated: their four values *)
Lemma kids_values ds cs : (forall c, In c cs -> full (getdl ds c)) ->
  exists ss es ests sps,
    map d_start (map (getdl ds) cs) = map Some ss /\ map d_end (map (getdl ds) cs) = map Some es
    /\ map d_est (map (getdl ds) cs) = map Some ests /\ map d_spent (map (getdl ds) cs) = map Some sps.
Proof.
  induction cs as [|c cs IH]; intros H.
  - exists [], [], [], []. repeat split.
  - destruct IH as [ss [es [ests [sps [A [B [C D]]]]]]]; [intros x Hx; apply H; right; exact Hx|].
    destruct (H c (or_introl eq_refl)) as [s [e [es' [sp E]]]].
    exists (s :: ss), (e :: es), (es' :: ests), (sp :: sps). simpl. rewrite E, A, B, C, D. repeat split.
Qed.

(* what the four roll-up computations of a summary deliver, for both schedulers *)
Lemma rollup_of_kids ds cs start en est spent :
  cs <> [] -> (forall c, In c cs -> full (getdl ds c)) ->
  (forall x xs, somes (map d_start (map (getdl ds) cs)) = x :: xs -> start = fold_left Z.min xs x) ->
  (forall x xs, somes (map d_end (map (getdl ds) cs)) = x :: xs -> en = fold_left Z.max xs x) ->
  sum_opts (map d_est (map (getdl ds) cs)) = Ok est ->
  sum_opts (map d_spent (map (getdl ds) cs)) = Ok spent ->
  rollup (ds_start ds) (ds_end ds) (ds_est ds) (ds_spent ds) cs start en (Some est) (Some spent).
Proof.
  intros Hne Hfull H1 H2 H3 H4.
  destruct (kids_values ds cs Hfull) as [ss [es [ests [sps [A [B [C D]]]]]]].
  rewrite A in H1. rewrite B in H2. rewrite C, sum_opts_some in H3. rewrite D, sum_opts_some in H4.
  rewrite somes_map_some in H1, H2. inversion H3; subst est. inversion H4; subst spent.
  assert (Hss : ss <> []).
  { intro E. subst ss. destruct cs; [contradiction | discriminate]. }
  assert (Hes : es <> []).
  { intro E. subst es. destruct cs; [contradiction | discriminate]. }
  destruct ss as [|x xs]; [contradiction|]. destruct es as [|y ys]; [contradiction|].
  exists (x :: xs), (y :: ys). unfold ds_start, ds_end, ds_est, ds_spent.
  split; [rewrite <- A; symmetry; apply map_map|].
  split; [rewrite <- B; symmetry; apply map_map|].
  split; [rewrite (H1 x xs eq_refl), fold_min_zmin; apply zmin_list_spec|].
  split; [rewrite (H2 y ys eq_refl), fold_max_zmax; apply zmax_list_spec|].
  split; [exists ests | exists sps]; (split; [|reflexivity]).
  - rewrite <- C. symmetry. apply map_map.
  - rewrite <- D. symmetry. apply map_map.
Qed.

(* ---------- one step of either machine ---------- *)
Lemma inv07_step U w c t s e es sp l' :
  WFin w -> binv w c -> inv07 U w c -> k_ext (gett w t) = false -> ~ In t (c_calc c) ->
  (forall ch, In ch (k_children (gett w t)) -> ready w c ch) ->
  (is_leaf (gett w t) = true -> user_dates_ok (gett w t) = true -> s <= e) ->
  (is_leaf (gett w t) = true -> U -> s <= e) ->
  (is_leaf (gett w t) = false -> k_milestone (gett w t) = false ->
   rollup (ds_start (c_dy c)) (ds_end (c_dy c)) (ds_est (c_dy c)) (ds_spent (c_dy c))
          (k_children (gett w t)) s e (Some es) (Some sp)) ->
  inv07 U w {| c_dy := set_nth (c_dy c) t (mkd s e es sp); c_lg := l'; c_calc := t :: c_calc c |}.
Proof.
  intros Hw Hb Hi He Hn Hk Hleaf HleafU Hroll.
  assert (Hlen : (t < length (c_dy c))%nat) by (rewrite (b_len _ _ Hb); apply not_ext_in_range; exact He).
  assert (Hkc : forall ch, In ch (k_children (gett w t)) -> In ch (c_calc c)).
  { intros ch Hch. destruct (Hk ch Hch) as [E|E]; [|exact E].
    destruct (wm_children _ _ (wfin_member w t Hw He) ch Hch) as [E' _]. congruence. }
  intros u [<-|Hu]; cbn [c_dy c_calc].
  - (* the task calculated now *)
    set (ds' := set_nth (c_dy c) t (mkd s e es sp)).
    assert (Hsame : getdl ds' t = mkd s e es sp) by (apply nth_set_nth_same; exact Hlen).
    assert (Hoth : forall ch, In ch (k_children (gett w t)) -> getdl ds' ch = getdl (c_dy c) ch).
    { intros ch Hch. apply nth_set_nth_other. intro E. subst ch. apply Hn. apply Hkc. exact Hch. }
    assert (Hroll' : is_leaf (gett w t) = false -> k_milestone (gett w t) = false ->
                     rollup (ds_start ds') (ds_end ds') (ds_est ds') (ds_spent ds')
                            (k_children (gett w t)) s e (Some es) (Some sp)).
    { intros Hl Hm. eapply rollup_ext; [|apply Hroll; assumption].
      intros ch Hch. unfold ds_start, ds_end, ds_est, ds_spent. rewrite (Hoth ch Hch). auto. }
    split.
    + exists s, e. unfold ds_start at 1, ds_end at 1. rewrite Hsame.
      split; [reflexivity|]. split; [reflexivity|]. split; [exact Hleaf|].
      intros Hl Hm. unfold ds_est at 2, ds_spent at 2. rewrite Hsame. apply Hroll'; assumption.
    + intros Hud. exists s, e. unfold ds_start, ds_end. rewrite Hsame.
      split; [reflexivity|]. split; [reflexivity|].
      destruct (is_leaf (gett w t)) eqn:Hl; [apply HleafU; [reflexivity | exact Hud]|].
      assert (Hm : k_milestone (gett w t) = false).
      { destruct (k_milestone (gett w t)) eqn:Hm; [|reflexivity].
        rewrite (wm_milestone _ _ (wfin_member w t Hw He) Hm) in Hl. discriminate. }
      destruct (Hroll eq_refl Hm) as [ss [ee [Ms [Me [[_ Hmin] [[_ Hmax] _]]]]]].
      unfold is_leaf in Hl. destruct (k_children (gett w t)) as [|c0 cs] eqn:Ek; [discriminate|].
      assert (Hc0 : In c0 (c_calc c)) by (apply Hkc; left; reflexivity).
      destruct (Hi c0 Hc0) as [_ Hord]. destruct (Hord Hud) as [s0 [e0 [A [B L]]]].
      pose proof (Hmin s0 (map_some_in _ _ _ c0 s0 Ms (or_introl eq_refl) A)).
      pose proof (Hmax e0 (map_some_in _ _ _ c0 e0 Me (or_introl eq_refl) B)). lia.
  - (* a task calculated before: nothing it reads has changed *)
    eapply task07_frame; [|apply Hi; exact Hu].
    intros p [->|Hp]; apply nth_set_nth_other.
    + intro E. subst u. contradiction.
    + intro E. subst p. destruct (b_kids _ _ Hb u Hu t Hp) as [E|E]; [congruence | contradiction].
Qed.

(* ---------- leaves: start <= end ---------- *)
Lemma fwd_leaf_order cfg w ds l t b start en est spent l' :
  is_leaf (gett w t) = true -> getdl ds t = init_dyn (gett w t) ->
  fwd_start_eq cfg w ds l t b = Ok start ->
  fwd_end_eq cfg w ds l t start est spent = Ok (l', en) ->
  user_dates_ok (gett w t) = true -> start <= en.
Proof.
  intros Hl Hi Hs He Hu. rewrite (init_dyn_leaf _ Hl) in Hi.
  unfold fwd_start_eq in Hs. unfold fwd_end_eq in He. cbv zeta in Hs, He.
  rewrite Hi in Hs, He. rewrite Hl in Hs, He. cbn [d_start d_end] in Hs, He. unfold user_dates_ok in Hu.
  destruct (k_end (gett w t)) as [e|].
  - inversion He; subst l' en. destruct (k_start (gett w t)) as [s|].
    + inversion Hs; subst start. apply Z.leb_le. exact Hu.
    + destruct (fwd_nearest cfg l (k_res (gett w t)) t _) as [s| |]; cbn [bind] in Hs; try discriminate.
      inversion Hs. lia.
  - destruct (fwd_shift cfg l (k_res (gett w t)) t _ _) as [[l2 e2]| |]; cbn [bind] in He; try discriminate.
    inversion He. lia.
Qed.

(* a backward shift never moves later: the last day of the fill lies before the day of e0, and the
   share subtracted from the following midnight is not negative *)
Lemma bwd_shift_le cfg l r t e0 left l' s :
  bwd_shift cfg l r t e0 left = Ok (l', s) -> 0 <= left -> (forall x, In x l -> 0 < r_units x) -> s <= e0.
Proof.
  intros H Hl Hpos.
  destruct (bwd_shift_spec _ _ _ _ _ _ _ _ H Hl) as [[_ [_ ->]] | [Hp [new [dl [R ->]]]]]; [lia|].
  destruct (used_last_day _ _ _ _ _ _ _ _ _ _ _ Hpos R) as [U1 U2].
  assert (Hf : 0 <= frac (used (balance cfg) l' r dl t) (cap cfg r dl)) by (apply frac_nonneg; lia).
  destruct R as [Ra Rr Rs Rl Rn Rc Rf Rt]. destruct Rl as [x [rest [Hn Hx]]].
  destruct (Rr x) as [_ [_ [_ [k [Hk [Hd [kl [Hkl Hdl]]]]]]]]; [rewrite Hn; left; reflexivity|].
  assert (Hday : dl + 1 <= day_of e0) by lia.
  apply day_of_le_iff in Hday. lia.
Qed.

Lemma bwd_leaf_order cfg w ds l t b start en est spent l' :
  is_leaf (gett w t) = true -> (forall x, In x l -> 0 < r_units x) ->
  bwd_start_eq cfg w ds l t b en est spent = Ok (l', start) -> start <= en.
Proof.
  intros Hl Hpos Hs. unfold bwd_start_eq in Hs. cbv zeta in Hs. rewrite Hl in Hs.
  destruct (bwd_shift cfg l (k_res (gett w t)) t (Z.min en b) (Z.max (est - spent) 0)) as [[l2 s2]| |] eqn:E;
    cbn [bind] in Hs; try discriminate.
  apply bwd_shift_le in E; [|lia | exact Hpos]. inversion Hs.
  destruct (d_start (getdl ds t)); lia.
Qed.

(* ---------- summaries: the roll-ups ---------- *)
Lemma fwd_summary_rollup cfg w ds l t b start en est spent l' :
  is_leaf (gett w t) = false -> getdl ds t = no_dyn ->
  (forall c, In c (k_children (gett w t)) -> full (getdl ds c)) ->
  fwd_start_eq cfg w ds l t b = Ok start -> est_eq cfg w ds t = Ok est -> spent_eq w ds t = Ok spent ->
  fwd_end_eq cfg w ds l t start est spent = Ok (l', en) ->
  rollup (ds_start ds) (ds_end ds) (ds_est ds) (ds_spent ds) (k_children (gett w t)) start en (Some est) (Some spent).
Proof.
  intros Hl Hi Hfull Hs H2 H3 He.
  unfold fwd_start_eq in Hs. unfold est_eq in H2. unfold spent_eq in H3. unfold fwd_end_eq in He.
  cbv zeta in Hs, H2, H3, He. rewrite Hi, Hl in Hs, H2, H3, He. cbn [d_start d_end d_est d_spent no_dyn] in Hs, H2, H3, He.
  apply rollup_of_kids; try assumption.
  - unfold is_leaf in Hl. destruct (k_children (gett w t)); [discriminate | discriminate].
  - intros x xs E. rewrite E in Hs. inversion Hs. reflexivity.
  - intros x xs E. rewrite E in He. inversion He. reflexivity.
Qed.

Lemma bwd_summary_rollup cfg w ds l t b start en est spent l' :
  is_leaf (gett w t) = false -> getdl ds t = no_dyn ->
  (forall c, In c (k_children (gett w t)) -> full (getdl ds c)) ->
  bwd_end_eq cfg w ds l t b = Ok en -> est_eq cfg w ds t = Ok est -> spent_eq w ds t = Ok spent ->
  bwd_start_eq cfg w ds l t b en est spent = Ok (l', start) ->
  rollup (ds_start ds) (ds_end ds) (ds_est ds) (ds_spent ds) (k_children (gett w t)) start en (Some est) (Some spent).
Proof.
  intros Hl Hi Hfull He H2 H3 Hs.
  unfold bwd_start_eq in Hs. unfold est_eq in H2. unfold spent_eq in H3. unfold bwd_end_eq in He.
  cbv zeta in Hs, H2, H3, He. rewrite ?Hi, Hl in Hs, H2, H3, He. cbn [d_start d_end d_est d_spent no_dyn] in Hs, H2, H3, He.
  apply rollup_of_kids; try assumption.
  - unfold is_leaf in Hl. destruct (k_children (gett w t)); [discriminate | discriminate].
  - intros x xs E. rewrite E in Hs. inversion Hs. reflexivity.
  - intros x xs E. rewrite E in He. inversion He. reflexivity.
Qed.

(* ---------- the steps of the two machines ---------- *)
Lemma kids_full w c t : WFin w -> binv w c -> k_ext (gett w t) = false ->
  (forall ch, In ch (k_children (gett w t)) -> ready w c ch) ->
  forall ch, In ch (k_children (gett w t)) -> full (getdl (c_dy c) ch).
Proof.
  intros Hw Hb He Hk ch Hch. destruct (Hk ch Hch) as [E|E].
  - destruct (wm_children _ _ (wfin_member w t Hw He) ch Hch) as [E' _]. congruence.
  - apply (b_full _ _ Hb ch E).
Qed.

Lemma inv07_fstep cfg w c t c' :
  WFin w -> binv w c -> inv07 (udok_leaf w) w c -> fstep cfg w c t c' -> inv07 (udok_leaf w) w c'.
Proof.
  intros Hw Hb Hi Hs. unfold fstep in Hs. destruct Hs as [c t [ds' l'] Hext Hnot _ Hkids Hc]. cbn [fst snd].
  unfold fkids in Hkids.
  pose proof (b_init _ _ Hb t Hnot) as Hinit. fold (getdl (c_dy c) t) in Hinit.
  pose proof (kids_full w c t Hw Hb Hext Hkids) as Hfull.
  apply fwd_compute_inv in Hc.
  destruct Hc as [[Hm [-> ->]] | [Hm [start [en [est [spent [-> [Hs [He1 [He2 He3]]]]]]]]]].
  - apply inv07_step; try assumption; [intros; lia | intros; lia | intros _ Hm'; congruence].
  - apply inv07_step; try assumption.
    + intros Hl Hu. eapply fwd_leaf_order; eauto.
    + intros Hl Hu. eapply fwd_leaf_order; eauto.
    + intros Hl _. rewrite (init_dyn_summary _ Hext Hl) in Hinit. eapply fwd_summary_rollup; eauto.
Qed.

Lemma inv07_bstep cfg w c t c' :
  WFin w -> inv03 cfg w c -> binv w c -> inv07 True w c -> bstep cfg w c t c' -> inv07 True w c'.
Proof.
  intros Hw H3 Hb Hi Hs. unfold bstep in Hs. destruct Hs as [c t [ds' l'] Hext Hnot _ Hkids Hc]. cbn [fst snd].
  assert (Hkids' : forall ch, In ch (k_children (gett w t)) -> ready w c ch).
  { intros ch Hch. apply Hkids. unfold bkids. apply -> in_rev. exact Hch. }
  pose proof (b_init _ _ Hb t Hnot) as Hinit. fold (getdl (c_dy c) t) in Hinit.
  pose proof (kids_full w c t Hw Hb Hext Hkids') as Hfull.
  apply bwd_compute_inv in Hc.
  destruct Hc as [[Hm [-> ->]] | [Hm [start [en [est [spent [-> [Hs [He1 [He2 He3]]]]]]]]]].
  - apply inv07_step; try assumption; [intros; lia | intros; lia | intros _ Hm'; congruence].
  - apply inv07_step; try assumption.
    + intros Hl _. eapply bwd_leaf_order; [exact Hl | | exact He3]. apply (proj1 (proj1 H3)).
    + intros Hl _. eapply bwd_leaf_order; [exact Hl | | exact He3]. apply (proj1 (proj1 H3)).
    + intros Hl _. rewrite (init_dyn_summary _ Hext Hl) in Hinit. eapply bwd_summary_rollup; eauto.
Qed.

(* ---------- the runs ---------- *)
Definition run_inv (U : Prop) (cfg : config) (w : list itask) (c : core) : Prop :=
  inv03 cfg w c /\ binv w c /\ inv07 U w c.

Lemma run_inv_init U cfg w : cap_nonneg cfg -> run_inv U cfg w (init_core w).
Proof. intros H. split; [apply inv03_init; exact H|]. split; [apply binv_init | apply inv07_init]. Qed.

Theorem forward_run_inv cfg w st :
  WFin w -> cap_nonneg cfg -> forward cfg w = Ok st ->
  run_inv (udok_leaf w) cfg w (core_of st) /\ forall t, k_ext (gett w t) = false -> In t (calc st).
Proof.
  intros Hw Hc H. destruct (forward_is_run _ _ _ H) as [Hs [Hr _]].
  assert (Hi : run_inv (udok_leaf w) cfg w (core_of st)).
  { eapply (gsteps_inv w _ _ _ _ (run_inv (udok_leaf w) cfg w)); [|exact Hs | apply run_inv_init; exact Hc].
    intros c t c' [A [B C]] Hst. split; [eapply inv03_fstep; eauto|].
    split; [eapply binv_fstep; eauto | eapply inv07_fstep; eauto]. }
  split; [exact Hi|]. destruct Hi as [_ [Hb _]].
  exact (all_calculated w (core_of st) Hw Hb Hr).
Qed.

Theorem backward_run_inv cfg w st :
  WFin w -> cap_nonneg cfg -> backward cfg w = Ok st ->
  run_inv True cfg w (core_of st) /\ forall t, k_ext (gett w t) = false -> In t (calc st).
Proof.
  intros Hw Hc H. destruct (backward_is_run _ _ _ H) as [Hs [Hr _]].
  assert (Hi : run_inv True cfg w (core_of st)).
  { eapply (gsteps_inv w _ _ _ _ (run_inv True cfg w)); [|exact Hs | apply run_inv_init; exact Hc].
    intros c t c' [A [B C]] Hst. split; [eapply inv03_bstep; eauto|].
    split; [eapply binv_bstep; eauto | eapply inv07_bstep; eauto]. }
  split; [exact Hi|]. destruct Hi as [_ [Hb _]].
  exact (all_calculated w (core_of st) Hw Hb Hr).
Qed.

(* per task: start <= end on leaves, roll-ups on summaries *)
Theorem C07_forward_holds cfg w st :
  WFin w -> cap_nonneg cfg -> forward cfg w = Ok st ->
  forall t, k_ext (gett w t) = false ->
    c07_task_st w (ds_start (dy st)) (ds_end (dy st)) (ds_est (dy st)) (ds_spent (dy st)) t.
Proof.
  intros Hw Hc H t Ht. destruct (forward_run_inv cfg w st Hw Hc H) as [[_ [_ Hi]] Hall].
  exact (proj1 (Hi t (Hall t Ht))).
Qed.

Theorem C07_backward_holds cfg w st :
  WFin w -> cap_nonneg cfg -> backward cfg w = Ok st ->
  forall t, k_ext (gett w t) = false ->
    c07_task_st w (ds_start (dy st)) (ds_end (dy st)) (ds_est (dy st)) (ds_spent (dy st)) t.
Proof.
  intros Hw Hc H t Ht. destruct (backward_run_inv cfg w st Hw Hc H) as [[_ [_ Hi]] Hall].
  exact (proj1 (Hi t (Hall t Ht))).
Qed.

(* every task, summaries included, starts no later than it ends: forward when the dates the user fixed
   on leaves are sane (a leaf with a fixed start after its fixed end keeps both), backward always *)
Theorem C07_order_forward_holds cfg w st :
  WFin w -> cap_nonneg cfg -> forward cfg w = Ok st -> udok_leaf w ->
  forall t, k_ext (gett w t) = false -> ordered (ds_start (dy st)) (ds_end (dy st)) t.
Proof.
  intros Hw Hc H Hu t Ht. destruct (forward_run_inv cfg w st Hw Hc H) as [[_ [_ Hi]] Hall].
  exact (proj2 (Hi t (Hall t Ht)) Hu).
Qed.

Theorem C07_order_backward_holds cfg w st :
  WFin w -> cap_nonneg cfg -> backward cfg w = Ok st ->
  forall t, k_ext (gett w t) = false -> ordered (ds_start (dy st)) (ds_end (dy st)) t.
Proof.
  intros Hw Hc H t Ht. destruct (backward_run_inv cfg w st Hw Hc H) as [[_ [_ Hi]] Hall].
  exact (proj2 (Hi t (Hall t Ht)) I).
Qed.

(* every member of a returned schedule has all four values, so the sums are sums of present values *)
Theorem C07_forward_full cfg w st :
  WFin w -> cap_nonneg cfg -> forward cfg w = Ok st ->
  forall t, k_ext (gett w t) = false -> full (getd st t).
Proof.
  intros Hw Hc H t Ht. destruct (forward_run_inv cfg w st Hw Hc H) as [[_ [Hb _]] Hall].
  exact (proj2 (b_full _ _ Hb t (Hall t Ht))).
Qed.

Theorem C07_backward_full cfg w st :
  WFin w -> cap_nonneg cfg -> backward cfg w = Ok st ->
  forall t, k_ext (gett w t) = false -> full (getd st t).
Proof.
  intros Hw Hc H t Ht. destruct (backward_run_inv cfg w st Hw Hc H) as [[_ [Hb _]] Hall].
  exact (proj2 (b_full _ _ Hb t (Hall t Ht))).
Qed.

Definition sums_st (w : list itask) (ds : list dyn) (t : nat) : Prop :=
  exists ests sps, map (ds_est ds) (k_children (gett w t)) = map Some ests
                   /\ map (ds_spent ds) (k_children (gett w t)) = map Some sps
                   /\ ds_est ds t = Some (sumz ests) /\ ds_spent ds t = Some (sumz sps).

(* the sum clause of the task statement, spelled out *)
Lemma sums_of_task w ds t :
  c07_task_st w (ds_start ds) (ds_end ds) (ds_est ds) (ds_spent ds) t ->
  is_leaf (gett w t) = false -> k_milestone (gett w t) = false -> sums_st w ds t.
Proof.
  intros [s [e [_ [_ [_ Hr]]]]] Hl Hm.
  destruct (Hr Hl Hm) as [ss [es [_ [_ [_ [_ [[ests [A1 A2]] [sps [B1 B2]]]]]]]]]. exists ests, sps. auto.
Qed.

Theorem C07_forward_sums cfg w st :
  WFin w -> cap_nonneg cfg -> forward cfg w = Ok st ->
  forall t, k_ext (gett w t) = false -> is_leaf (gett w t) = false -> k_milestone (gett w t) = false ->
    sums_st w (dy st) t.
Proof.
  intros Hw Hc H t Ht. apply sums_of_task. eapply C07_forward_holds; eauto.
Qed.

Theorem C07_backward_sums cfg w st :
  WFin w -> cap_nonneg cfg -> backward cfg w = Ok st ->
  forall t, k_ext (gett w t) = false -> is_leaf (gett w t) = false -> k_milestone (gett w t) = false ->
    sums_st w (dy st) t.
Proof.
  intros Hw Hc H t Ht. apply sums_of_task. eapply C07_backward_holds; eauto.
Qed.

(* ---------- the model's output passes the oracle ---------- *)
Lemma obs_getters w st p : exts_last w -> k_ext (gett w p) = false ->
  o_start (obs_of w st) p = ds_start (dy st) p /\ o_end (obs_of w st) p = ds_end (dy st) p
  /\ o_est (obs_of w st) p = ds_est (dy st) p /\ o_spent (obs_of w st) p = ds_spent (dy st) p.
Proof. intros He Hp. apply (obs_fields w st p He). apply in_members. exact Hp. Qed.

(* the property of the state, read through the observation, with the WBS dates of the result *)
Lemma c07_st_of_state w st :
  WFin w -> exts_last w ->
  (forall t, k_ext (gett w t) = false ->
             c07_task_st w (ds_start (dy st)) (ds_end (dy st)) (ds_est (dy st)) (ds_spent (dy st)) t) ->
  (udok_leaf w -> forall t, k_ext (gett w t) = false -> ordered (ds_start (dy st)) (ds_end (dy st)) t) ->
  c07_st w (o_start (obs_of w st)) (o_end (obs_of w st)) (o_est (obs_of w st)) (o_spent (obs_of w st))
         (wbs_start w (ds_start (dy st))) (wbs_end w (ds_end (dy st))).
Proof.
  intros Hw He Hall Hord.
  destruct (wbs_bounds w _ _ _ _ Hw Hall) as [Hmin Hmax].
  split; [|split; [|split]].
  - intros t Ht. eapply c07_task_st_ext; [|apply Hall; exact Ht].
    intros p [->|Hp]; apply obs_getters; try assumption.
    apply (wm_children _ _ (wfin_member w t Hw Ht) p Hp).
  - intros Hu t Ht. destruct (obs_getters w st t He Ht) as [A [B _]].
    eapply ordered_ext; [exact A | exact B | apply Hord; assumption].
  - replace (map (o_start (obs_of w st)) (members w)) with (map (ds_start (dy st)) (members w)); [exact Hmin|].
    apply map_ext_in. intros p Hp. apply in_members in Hp. symmetry. apply (obs_getters w st p He Hp).
  - replace (map (o_end (obs_of w st)) (members w)) with (map (ds_end (dy st)) (members w)); [exact Hmax|].
    apply map_ext_in. intros p Hp. apply in_members in Hp. symmetry. apply (obs_getters w st p He Hp).
Qed.

Theorem C07_forward_oracle cfg w st :
  WFin w -> cap_nonneg cfg -> exts_last w -> forward cfg w = Ok st ->
  c07_b w (obs_of w st) (wbs_start w (ds_start (dy st))) (wbs_end w (ds_end (dy st))) = true.
Proof.
  intros Hw Hc He H. apply c07_b_spec. apply c07_st_of_state; try assumption.
  - apply (C07_forward_holds cfg w st Hw Hc H).
  - apply (C07_order_forward_holds cfg w st Hw Hc H).
Qed.

Theorem C07_backward_oracle cfg w st :
  WFin w -> cap_nonneg cfg -> exts_last w -> backward cfg w = Ok st ->
  c07_b w (obs_of w st) (wbs_start w (ds_start (dy st))) (wbs_end w (ds_end (dy st))) = true.
Proof.
  intros Hw Hc He H. apply c07_b_spec. apply c07_st_of_state; try assumption.
  - apply (C07_backward_holds cfg w st Hw Hc H).
  - intros _. apply (C07_order_backward_holds cfg w st Hw Hc H).
Qed.

(* what check_case evaluates on the model's own output (bit 2048) *)
Corollary C07_model_bits cfg w st fwd :
  WFin w -> cap_nonneg cfg -> exts_last w -> run fwd cfg w = Ok st ->
  forallb (c07_task_b w (obs_of w st)) (members w) = true /\ c07_order_b w (obs_of w st) = true.
Proof.
  intros Hw Hc He H.
  assert (Hb : c07_b w (obs_of w st) (wbs_start w (ds_start (dy st))) (wbs_end w (ds_end (dy st))) = true).
  { destruct fwd; simpl in H; [eapply C07_forward_oracle | eapply C07_backward_oracle]; eauto. }
  unfold c07_b in Hb. rewrite !andb_true_iff in Hb. tauto.
Qed.
