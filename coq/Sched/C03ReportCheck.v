(* Executable checker of the report / resources clauses of C03 on what the IMPLEMENTATION returned
   (second pass of harness/props/c03.py over the cases whose calculation returned).  Definitions only;
   C03ReportProofs.v shows what code 0 means (check_report_sound). *)
From PJ Require Import Base.Prelude Sched.Model Sched.Check Sched.Oracles Sched.C03Report.

Record repcase := {
  p_w : list itask;                 (* abstract input *)
  p_rs : list rescal;               (* tabulated capacity of every resource name of the run *)
  p_supplied : list bool;           (* per resource number: was it passed to the scheduler *)
  p_scale : Z;                      (* K: model units per unit of work *)
  p_eps : Z;                        (* tolerance of the per-day totals: 0 on the dyadic grid *)
  p_rows : list obs_row;            (* ResourceUsageReport.rows() *)
  p_reserved : list (nat * Z * Z);  (* observed ResourceUsageReport.reserved(resource, day) *)
  p_resources : list nat }.         (* numbers of the resources in Schedule.resources *)

Definition supplied_names (sup : list bool) : list nat :=
  filter (fun r => nth r sup false) (seq 0 (length sup)).

(* clause 1: every observed total is the sum of the report's rows of that resource and day *)
Definition totals_b (c : repcase) : bool :=
  forallb (fun q => let '(r, d, v) := q in Z.abs (report_reserved (p_rows c) r d - v) <=? p_eps c) (p_reserved c).

(* clauses 2, 3: Schedule.resources holds exactly the names of the table *)
Definition expected_table (c : repcase) : list nat := resource_table (supplied_names (p_supplied c)) (p_w c).
Definition none_missing_b (c : repcase) : bool := forallb (fun r => memb r (p_resources c)) (expected_table c).
Definition none_extra_b (c : repcase) : bool := forallb (fun r => memb r (expected_table c)) (p_resources c).

(* clause 4: the whole tabulation (window and the weekly patterns before / after it, indexed by weekday:
   day i - 3 has weekday i) of a resource that was not supplied is the default calendar *)
Definition tab_is_default (rs : list rescal) (k : Z) (r : nat) : bool :=
  let c := nth r rs no_rescal in
  forallb (fun i => nth (Z.to_nat i) (rc_tab c) 0 =? default_cal k (rc_lo c + i))
          (map Z.of_nat (seq 0 (length (rc_tab c))))
  && forallb (fun i => (nth (Z.to_nat i) (rc_pre c) 0 =? default_cal k (i - 3))
                       && (nth (Z.to_nat i) (rc_post c) 0 =? default_cal k (i - 3))) [0; 1; 2; 3; 4; 5; 6].
Definition defaults_b (c : repcase) : bool :=
  forallb (fun r => nth r (p_supplied c) false || tab_is_default (p_rs c) (p_scale c) r) (p_resources c).

(* 0 = fine; 1 = a per-day total differs from the sum of the rows; 2 = a supplied or named resource is
   missing from the result; 3 = the result holds a resource nobody supplied or named; 4 = a resource that
   was not supplied is not the default Monday-Friday 8-unit one *)
Definition check_report (c : repcase) : nat :=
  if negb (totals_b c) then 1
  else if negb (none_missing_b c) then 2
  else if negb (none_extra_b c) then 3
  else if negb (defaults_b c) then 4
  else 0.
