(* The primitives that the translated passes (gen/SrcPass.v) call are the model's; Sched/SrcFillEquiv.v ties the model's
   primitives to their own source text.  This file states the composition for the one place where the two differ by a
   constant: the backward search, to whose result the pass adds one day. *)
From Coq Require Import QArith.
From PJ Require Import Base.Prelude Sched.Model Cal.Calendar gen.SrcFill Sched.SrcFillEquiv gen.SrcPass.
Open Scope Z_scope.

Lemma bwd_nearest_src_is_source cfg l r t t0 : pos_rows l ->
  bwd_nearest_src cfg l r t t0
  = src_bwd_nearest (balance cfg) (nearest_of (cap cfg r) (h_search cfg)) (gau_of (cap cfg r)) r (qrows_of l) t0 t
                    (Z.of_nat (h_near cfg)).
Proof.
  intro Hp. unfold bwd_nearest_src. rewrite <- (src_bwd_nearest_eq cfg l r t t0 Hp).
  destruct (src_bwd_nearest _ _ _ _ _ _ _ _) as [e| |k]; cbn [bind]; [|reflexivity|reflexivity].
  f_equal. lia.
Qed.
