(* Checker of the OFF-GRID stream of the scheduler correspondence run: capacities and amounts that
   are not dyadic (7 units a day, 0.1 h estimates), where binary floating point makes the
   implementation's sums differ from exact arithmetic in the last bits.  The model is NOT run on
   these cases (DESIGN.md 3.1); only the oracles are evaluated on what the implementation returned,
   in exact rational arithmetic (all numbers scaled by one power of two), with a tolerance [eps]
   on the capacity bound.  With eps = 0 the tolerant oracle is the verified oracle c03_b. *)
From PJ Require Import Base.Prelude Sched.Model Sched.Check Sched.Oracles Sched.Case Sched.WfIn.

Definition c03_tol_b (eps : Z) (cfg : config) (w : list itask) (o : osch) : bool :=
  forallb (fun x =>
             (0 <? row_units x) && is_member w (row_task x)
             && Nat.eqb (row_res x) (k_res (gett w (row_task x)))
             && (0 <? cap cfg (row_res x) (row_day x))
             && (if balance cfg then obooked (o_rows o) (row_res x) (row_day x) <=? cap cfg (row_res x) (row_day x) + eps
                 else obooked_t (o_rows o) (row_res x) (row_day x) (row_task x) <=? cap cfg (row_res x) (row_day x) + eps))
          (o_rows o).

Lemma forallb_pointwise {A} (f g : A -> bool) l : (forall x, f x = g x) -> forallb f l = forallb g l.
Proof. intro H. induction l as [|x l IH]; [reflexivity|]. cbn [forallb]. rewrite H, IH. reflexivity. Qed.

Lemma c03_tol_b_zero cfg w o : c03_tol_b 0 cfg w o = c03_b cfg w o.
Proof.
  unfold c03_tol_b, c03_b. apply forallb_pointwise. intro x. rewrite !Z.add_0_r. reflexivity.
Qed.

Lemma c03_tol_b_mono eps eps' cfg w o : eps <= eps' -> c03_tol_b eps cfg w o = true -> c03_tol_b eps' cfg w o = true.
Proof.
  intros He H. unfold c03_tol_b in *. rewrite forallb_forall in *. intros x Hx. specialize (H x Hx).
  apply andb_true_iff in H as [H1 H2]. apply andb_true_iff. split; [exact H1|].
  destruct (balance cfg); apply Z.leb_le in H2; apply Z.leb_le; lia.
Qed.

(* the per-day totals the report answers agree with its rows up to eps (float sums) *)
Definition report_tol_b (eps : Z) (o : osch) (reserved : list (nat * Z * Z)) : bool :=
  forallb (fun q => let '(r, d, v) := q in Z.abs (obooked (o_rows o) r d - v) <=? eps) reserved.

(* 0 = fine; bits as in Case.check_case (8 = C03, 32 = C02, 64 = C07 dates, 512 = every task dated) *)
Definition check_offgrid (eps : Z) (c : scase) : nat :=
  let cfg := mk_config (c_fwd c) (c_rs c) (c_bal c) (c_de c) (c_pb c) (c_now c) in
  let w := c_w c in
  let o := c_obs c in
  (bit (negb (wfin_b w && members_first_b w)) 4096
   + if Nat.eqb (c_outcome c) 0 then
       bit (negb (c03_tol_b eps cfg w o && report_tol_b eps o (c_reserved c)
                  && forallb (fun t => existsb (Nat.eqb (k_res (gett w t))) (c_resources c)) (members w))) 8
       + bit (c_fwd c && negb (c02_b cfg w o)) 32
       + bit (negb (c07_order_b w o)) 64
       + bit (negb (c06_dates_b w o)) 512
     else bit (Nat.leb 10 (c_outcome c)) 1024)%nat.
