(* gen/SrcFill.v is generated on every run from the *source text* of src/pjplan/schedule.py (harness/srcgen): the
   usage ledger over exact rationals and the four day-by-day primitives of the schedulers
   (`__get_resource_nearest_available_date` and `__shift_by_resource_usage_and_calendar` of ForwardScheduler and
   BackwardScheduler).  This file proves the translated functions equal, for all inputs with a ledger of positive
   rows, to `fwd_nearest`, `fwd_shift`, `bwd_nearest`, `bwd_shift` of Sched/Model.v (integers), on which the theorems
   about the schedulers are proved. *)
From Coq Require Import QArith Qround.
From PJ Require Import Base.Prelude Sched.Model Sched.LedgerProofs Cal.Calendar gen.SrcFill Sched.SrcSchedEquiv.
Open Scope Z_scope.

Definition qrow_of (x : row) : qrow :=
  {| q_res := r_res x; q_date := DAY * r_day x; q_task := r_task x; q_units := inject_Z (r_units x) |}.
Definition qrows_of (l : ledger) : list qrow := map qrow_of (rev l).
(* the resource as the translated code sees it: capacity asked at a datetime (for a task or for none), answer of the day *)
Definition gau_of (cp : Z -> Z) : Z -> option nat -> res Q := fun t _ => Ok (inject_Z (cp (day_of t))).
(* resource.get_nearest_availability_date(start, direction) with the default horizon (it asks with task = None) *)
Definition nearest_of (cp : Z -> Z) (h : nat) : Z -> Z -> res Z :=
  fun s dir => Calendar.search 0%Q qltb (fun t => gau_of cp t None) dir h s.
Definition pos_rows (l : ledger) : Prop := forall x, In x l -> 0 < r_units x.
Definition lift_shift (r : res (ledger * Z)) : res (list qrow * Z) :=
  match r with Ok (l', e) => Ok (qrows_of l', e) | Err => Err | Crash k => Crash k end.

(* ---------- transport of the arithmetic: Leibniz equalities on the images of integers ---------- *)
Lemma q_plus_inj a b : Qplus (inject_Z a) (inject_Z b) = inject_Z (a + b).
Proof. unfold Qplus, inject_Z; cbn [Qnum Qden]. f_equal. lia. Qed.

Lemma q_minus_inj a b : Qminus (inject_Z a) (inject_Z b) = inject_Z (a - b).
Proof. unfold Qminus, Qplus, Qopp, inject_Z; cbn [Qnum Qden]. f_equal. lia. Qed.

Lemma q_ltb_inj a b : qltb (inject_Z a) (inject_Z b) = (a <? b).
Proof.
  unfold qltb, Qcompare, inject_Z, Z.ltb; cbn [Qnum Qden]. rewrite !Z.mul_1_r. reflexivity.
Qed.

Lemma q_ltb0_inj b : qltb 0%Q (inject_Z b) = (0 <? b).
Proof. apply (q_ltb_inj 0 b). Qed.

Lemma q_is0_inj a : qis0 (inject_Z a) = (a =? 0).
Proof.
  unfold qis0, Qeq_bool, inject_Z; cbn [Qnum Qden]. rewrite Z.mul_1_r. cbn [Z.mul].
  destruct (Z.eqb_spec a 0) as [->|N]; [reflexivity|].
  destruct (Zeq_bool a 0) eqn:E; [|reflexivity]. apply Zeq_bool_eq in E. contradiction.
Qed.

Lemma q_min_inj a b : qmin (inject_Z a) (inject_Z b) = inject_Z (Z.min a b).
Proof.
  unfold qmin. rewrite q_ltb_inj. destruct (Z.ltb_spec b a); f_equal; lia.
Qed.

(* 24 hours times a share u/c of the day, in whole microseconds *)
Lemma hours_share u c q : 0 < c -> qdivide (inject_Z u) (inject_Z c) = Ok q ->
  hours_us (Qmult (inject_Z 24) q) = frac u c.
Proof.
  intros Hc Hq. unfold qdivide in Hq. rewrite q_is0_inj in Hq.
  destruct (Z.eqb_spec c 0) as [E|N]; [lia|]. injection Hq as <-.
  unfold hours_us, frac. rewrite Zdiv_Qdiv. apply Qfloor_comp.
  rewrite inject_Z_mult. unfold DAY.
  assert (Hn : ~ inject_Z c == 0%Q).
  { intro E. unfold Qeq, inject_Z in E; cbn [Qnum Qden] in E. lia. }
  change (inject_Z 86400000000) with (inject_Z 24 * inject_Z 3600000000)%Q.
  field. exact Hn.
Qed.

(* ... and of the remaining share 1 - (c - u)/c *)
Lemma hours_rest u c q : 0 < c -> qdivide (inject_Z (c - u)) (inject_Z c) = Ok q ->
  hours_us (Qmult (inject_Z 24) (Qminus (inject_Z 1) q)) = frac u c.
Proof.
  intros Hc Hq. unfold qdivide in Hq. rewrite q_is0_inj in Hq.
  destruct (Z.eqb_spec c 0) as [E|N]; [lia|]. injection Hq as <-.
  unfold hours_us, frac. rewrite Zdiv_Qdiv. apply Qfloor_comp.
  rewrite inject_Z_mult. unfold Zminus. rewrite inject_Z_plus, inject_Z_opp. unfold DAY.
  assert (Hn : ~ inject_Z c == 0%Q).
  { intro E. unfold Qeq, inject_Z in E; cbn [Qnum Qden] in E. lia. }
  change (inject_Z 86400000000) with (inject_Z 24 * inject_Z 3600000000)%Q.
  field. exact Hn.
Qed.

Lemma qdivide_ok a c : c <> 0 -> exists q, qdivide (inject_Z a) (inject_Z c) = Ok q.
Proof.
  intro N. unfold qdivide. rewrite q_is0_inj. destruct (Z.eqb_spec c 0); [contradiction|]. eexists; reflexivity.
Qed.

(* ---------- days ---------- *)
Lemma day_of_add s k : day_of (s + k * DAY) = day_of s + k.
Proof. unfold day_of, DAY. apply Z.div_add. lia. Qed.

Lemma day_of_mid d : day_of (DAY * d) = d.
Proof. apply day_of_day_start. Qed.

Lemma day_start_mid d : day_start (DAY * d) = DAY * d.
Proof. unfold day_start. fold (day_of (DAY * d)). rewrite day_of_mid. reflexivity. Qed.

Lemma day_start_eq t : day_start t = DAY * day_of t.
Proof. reflexivity. Qed.

(* ---------- the ledger ---------- *)
Lemma fold_left_qplus_rev (g : row -> Z) (l : list row) (a : Z) :
  fold_left Qplus (map (fun x => inject_Z (g x)) (rev l)) (inject_Z a)
  = inject_Z (a + fold_right (fun x s => g x + s) 0 l).
Proof.
  revert a; induction l as [|x l IH]; intro a; cbn [rev map fold_right fold_left]; [f_equal; lia|].
  rewrite map_app, fold_left_app, IH. cbn [map fold_left]. rewrite q_plus_inj. f_equal. lia.
Qed.

Lemma src_qreserved_all_eq l r t : src_qreserved (qrows_of l) r t None = Ok (inject_Z (booked l r (day_of t))).
Proof.
  unfold src_qreserved, qrows_of, booked, sum_units. f_equal.
  rewrite filter_map_comm, map_map.
  rewrite (filter_ext_all _ (row_on r (day_of t))).
  - rewrite filter_rev_comm. cbn [q_units qrow_of]. change 0%Q with (inject_Z 0).
    rewrite (fold_left_qplus_rev r_units). f_equal.
  - intro x. unfold row_on, qrow_of, src_qkey_pure, src_qkey, day_start, day_of; cbn [q_res q_date].
    rewrite midnight_eqb. reflexivity.
Qed.

Lemma src_qreserved_task_eq l r t k :
  src_qreserved (qrows_of l) r t (Some k) = Ok (inject_Z (booked_t l r (day_of t) k)).
Proof.
  unfold src_qreserved, qrows_of, booked_t, sum_units. f_equal.
  rewrite filter_map_comm, map_map.
  rewrite (filter_ext_all _ (fun x => row_on r (day_of t) x && Nat.eqb (r_task x) k)).
  - rewrite filter_rev_comm. cbn [q_units qrow_of]. change 0%Q with (inject_Z 0).
    rewrite (fold_left_qplus_rev r_units). f_equal.
  - intro x. unfold row_on, qrow_of, src_qkey_pure, src_qkey, day_start, day_of; cbn [q_res q_date q_task].
    rewrite midnight_eqb. reflexivity.
Qed.

Theorem src_qreserved_used_eq : forall (balance : bool) l r t k,
  src_qreserved (qrows_of l) r t (if balance then None else Some k) = Ok (inject_Z (used balance l r (day_of t) k)).
Proof. intros [|] l r t k; [apply src_qreserved_all_eq | apply src_qreserved_task_eq]. Qed.

(* reserve appends a row dated by the midnight and returns the units *)
Theorem src_qreserve_eq : forall l r t k u,
  src_qreserve (qrows_of l) r t k (inject_Z u)
  = Ok (qrows_of ({| r_res := r; r_day := day_of t; r_task := k; r_units := u |} :: l), inject_Z u).
Proof.
  intros l r t k u. unfold src_qreserve, src_qkey, qrows_of. cbn [bind rev]. rewrite map_app. reflexivity.
Qed.

(* ---------- IResource.get_nearest_availability_date on day numbers ---------- *)
Lemma search_fwd_eq cp h : forall s,
  Calendar.search 0%Q qltb (fun t => gau_of cp t None) 1 h s
  = match first_open cp 1 h (day_of s) with Some d => Ok (s + (d - day_of s) * DAY) | None => Err end.
Proof.
  induction h as [|h IH]; intro s; cbn [Calendar.search first_open]; [reflexivity|].
  change (1 <? 0) with false. cbv iota. unfold gau_of at 1. cbn [bind]. unfold npos. rewrite q_ltb0_inj.
  destruct (0 <? cp (day_of s)); [f_equal; lia|].
  rewrite IH, day_of_add. destruct (first_open cp 1 h (day_of s + 1)) as [d|]; [f_equal; lia|reflexivity].
Qed.

Lemma search_bwd_eq cp h : forall s,
  Calendar.search 0%Q qltb (fun t => gau_of cp t None) (-1) h s
  = match first_open cp (-1) h (day_of s - 1) with Some d => Ok (s + (d + 1 - day_of s) * DAY) | None => Err end.
Proof.
  induction h as [|h IH]; intro s; cbn [Calendar.search first_open]; [reflexivity|].
  change (-1 <? 0) with true. cbv iota. unfold gau_of at 1. cbn [bind]. unfold npos. rewrite q_ltb0_inj.
  replace (s - DAY) with (s + (-1) * DAY) by lia. rewrite day_of_add.
  replace (day_of s + -1) with (day_of s - 1) by lia.
  destruct (0 <? cp (day_of s - 1)); [f_equal; lia|].
  rewrite IH, day_of_add. replace (day_of s + -1 - 1) with (day_of s - 1 + -1) by lia.
  destruct (first_open cp (-1) h (day_of s - 1 + -1)) as [d|]; [f_equal; lia|reflexivity].
Qed.

(* ---------- __get_resource_nearest_available_date ---------- *)
Section Nearest.
Variables (bal : bool) (cp : Z -> Z) (l : ledger) (r t : nat).
Variables (nearest : Z -> Z -> res Z) (start max_steps : Z).
Hypothesis Hpos : pos_rows l.

Let us (d : Z) : Z := used bal l r d t.

Lemma avail_cap_pos d : 0 < cp d - us d -> 0 < cp d.
Proof. intro H. pose proof (used_nonneg bal l r d t Hpos). unfold us in H. lia. Qed.

Lemma fwd_nearest_loop_eq n : forall i dt,
  src_fwd_nearest_loop1 bal nearest (gau_of cp) r (qrows_of l) start t max_steps n i dt
  = match next_free cp us 1 n (day_of dt) with
    | Some d => Ok (DAY * d + frac (us d) (cp d))
    | None => Err
    end.
Proof.
  induction n as [|n IH]; intros i dt; [reflexivity|].
  cbn [next_free]. remember (S n) as m eqn:Em. rewrite Em at 1. cbn [src_fwd_nearest_loop1]. subst m.
  pose proof (src_qreserved_used_eq bal l r dt t) as Hr. fold (us (day_of dt)) in Hr.
  assert (Hstep :
    (do r_6 <- Ok (inject_Z (us (day_of dt)));
     do r_7 <- gau_of cp dt (Some t);
     let available := Qminus r_7 r_6 in
     if qltb 0%Q available
     then do r_9 <- gau_of cp dt (Some t); do q <- qdivide available r_9;
          Ok (day_start dt + hours_us (Qmult (inject_Z 24) (Qminus (inject_Z 1) q)))
     else src_fwd_nearest_loop1 bal nearest (gau_of cp) r (qrows_of l) start t max_steps n (i + 1) (dt + 1 * DAY))
    = (if 0 <? cp (day_of dt) - us (day_of dt) then Ok (DAY * day_of dt + frac (us (day_of dt)) (cp (day_of dt)))
       else match next_free cp us 1 n (day_of dt + 1) with
            | Some d => Ok (DAY * d + frac (us d) (cp d))
            | None => Err
            end)).
  { unfold gau_of. cbn [bind]. rewrite q_minus_inj, q_ltb0_inj.
    destruct (Z.ltb_spec 0 (cp (day_of dt) - us (day_of dt))) as [Hav|Hav].
    - pose proof (avail_cap_pos _ Hav) as Hc.
      destruct (qdivide_ok (cp (day_of dt) - us (day_of dt)) (cp (day_of dt))) as [q Hq]; [lia|].
      rewrite Hq. cbn [bind]. rewrite (hours_rest _ _ _ Hc Hq). reflexivity.
    - rewrite IH, day_of_add. reflexivity. }
  destruct bal; rewrite Hr; (etransitivity; [exact Hstep|]); destruct (0 <? cp (day_of dt) - us (day_of dt)); reflexivity.
Qed.

Lemma bwd_nearest_loop_eq n : forall i dt,
  src_bwd_nearest_loop1 bal nearest (gau_of cp) r (qrows_of l) start t max_steps n i dt
  = match next_free cp us (-1) n (day_of dt) with
    | Some d => Ok (DAY * d - frac (us d) (cp d))
    | None => Err
    end.
Proof.
  induction n as [|n IH]; intros i dt; [reflexivity|].
  cbn [next_free]. remember (S n) as m eqn:Em. rewrite Em at 1. cbn [src_bwd_nearest_loop1]. subst m.
  pose proof (src_qreserved_used_eq bal l r dt t) as Hr. fold (us (day_of dt)) in Hr.
  assert (Hstep :
    (do r_6 <- Ok (inject_Z (us (day_of dt)));
     do r_7 <- gau_of cp dt (Some t);
     let available := Qminus r_7 r_6 in
     if qltb 0%Q available
     then do r_9 <- gau_of cp dt (Some t); do q <- qdivide available r_9;
          Ok (day_start dt - hours_us (Qmult (inject_Z 24) (Qminus (inject_Z 1) q)))
     else src_bwd_nearest_loop1 bal nearest (gau_of cp) r (qrows_of l) start t max_steps n (i + 1) (dt + (-1) * DAY))
    = (if 0 <? cp (day_of dt) - us (day_of dt) then Ok (DAY * day_of dt - frac (us (day_of dt)) (cp (day_of dt)))
       else match next_free cp us (-1) n (day_of dt + -1) with
            | Some d => Ok (DAY * d - frac (us d) (cp d))
            | None => Err
            end)).
  { unfold gau_of. cbn [bind]. rewrite q_minus_inj, q_ltb0_inj.
    destruct (Z.ltb_spec 0 (cp (day_of dt) - us (day_of dt))) as [Hav|Hav].
    - pose proof (avail_cap_pos _ Hav) as Hc.
      destruct (qdivide_ok (cp (day_of dt) - us (day_of dt)) (cp (day_of dt))) as [q Hq]; [lia|].
      rewrite Hq. cbn [bind]. rewrite (hours_rest _ _ _ Hc Hq). reflexivity.
    - rewrite IH, day_of_add. reflexivity. }
  destruct bal; rewrite Hr; (etransitivity; [exact Hstep|]); destruct (0 <? cp (day_of dt) - us (day_of dt)); reflexivity.
Qed.
End Nearest.

Theorem src_fwd_nearest_eq : forall cfg l r t t0, pos_rows l ->
  src_fwd_nearest (balance cfg) (nearest_of (cap cfg r) (h_search cfg)) (gau_of (cap cfg r)) r (qrows_of l) t0 t
                  (Z.of_nat (h_near cfg))
  = fwd_nearest cfg l r t t0.
Proof.
  intros cfg l r t t0 Hpos. unfold src_fwd_nearest, fwd_nearest. unfold nearest_of at 1.
  rewrite search_fwd_eq. destruct (first_open (cap cfg r) 1 (h_search cfg) (day_of t0)) as [d0|]; [|reflexivity].
  cbn [bind]. rewrite (fwd_nearest_loop_eq _ _ _ _ _ _ _ _ Hpos), day_of_add.
  replace (Z.to_nat (Z.of_nat (h_near cfg) - 0)) with (h_near cfg) by lia.
  replace (day_of t0 + (d0 - day_of t0)) with d0 by lia. reflexivity.
Qed.

(* the caller of the backward search adds one day (`_task.end += timedelta(days=1)`); the model has it inside *)
Theorem src_bwd_nearest_eq : forall cfg l r t t0, pos_rows l ->
  (do e <- src_bwd_nearest (balance cfg) (nearest_of (cap cfg r) (h_search cfg)) (gau_of (cap cfg r)) r (qrows_of l) t0 t
                           (Z.of_nat (h_near cfg)); Ok (e + DAY))
  = bwd_nearest cfg l r t t0.
Proof.
  intros cfg l r t t0 Hpos. unfold src_bwd_nearest, bwd_nearest. unfold nearest_of at 1.
  rewrite search_bwd_eq. destruct (first_open (cap cfg r) (-1) (h_search cfg) (day_of t0 - 1)) as [d0|]; [|reflexivity].
  cbn [bind]. rewrite (bwd_nearest_loop_eq _ _ _ _ _ _ _ _ Hpos).
  replace (t0 + (d0 + 1 - day_of t0) * DAY - 1 * DAY) with (t0 + (d0 - day_of t0) * DAY) by lia.
  rewrite day_of_add.
  replace (Z.to_nat (Z.of_nat (h_near cfg) - 0)) with (h_near cfg) by lia.
  replace (day_of t0 + (d0 - day_of t0)) with d0 by lia.
  destruct (next_free (cap cfg r) (fun d => used (balance cfg) l r d t) (-1) (h_near cfg) d0) as [d|]; [|reflexivity].
  cbn [bind]. f_equal. lia.
Qed.

(* ---------- __shift_by_resource_usage_and_calendar ---------- *)
Lemma gau_of_eq cp t k : gau_of cp t k = Ok (inject_Z (cp (day_of t))).
Proof. reflexivity. Qed.

Lemma pos_rows_cons x l : 0 < r_units x -> pos_rows l -> pos_rows (x :: l).
Proof. intros Hx Hl y [<-|Hy]; [exact Hx | apply Hl, Hy]. Qed.

(* one iteration of the model's loop *)
Lemma fill_S_free cp bal r t dir n l d left :
  0 < cp (d + dir) - used bal l r (d + dir) t ->
  fill cp bal r t dir (S n) l d left
  = (let amount := Z.min left (cp (d + dir) - used bal l r (d + dir) t) in
     let l' := {| r_res := r; r_day := d + dir; r_task := t; r_units := amount |} :: l in
     if 0 <? left - amount then fill cp bal r t dir n l' (d + dir) (left - amount) else Ok (l', d + dir)).
Proof.
  intro H. cbn [fill]. destruct (Z.ltb_spec 0 (cp (d + dir) - used bal l r (d + dir) t)); [reflexivity|lia].
Qed.

Lemma fill_S_full cp bal r t dir n l d left :
  cp (d + dir) - used bal l r (d + dir) t <= 0 -> 0 < left ->
  fill cp bal r t dir (S n) l d left = fill cp bal r t dir n l (d + dir) left.
Proof.
  intros H Hl. cbn [fill]. destruct (Z.ltb_spec 0 (cp (d + dir) - used bal l r (d + dir) t)); [lia|].
  destruct (Z.ltb_spec 0 left); [reflexivity|lia].
Qed.

(* one iteration of the translated loops, the two `balance` branches written once *)
Lemma src_fwd_shift_loop1_S balance nearest gau resource ru start task lh max fuel date dau left rows days :
  src_fwd_shift_loop1 balance nearest gau resource ru start task lh max (S fuel) date dau left rows days
  = if qltb 0%Q left then
      let date' := date + 1 * DAY in
      do r10 <- src_qreserved rows resource date' (if balance then None else Some task);
      do r11 <- gau date' (Some task);
      let ma := Qminus r11 r10 in
      if qltb 0%Q ma then
        do '(rows', r14) <- src_qreserve rows resource date' task (qmin left ma);
        let left' := Qminus left r14 in
        let days' := days + 1 in
        if days' >? max then Err
        else src_fwd_shift_loop1 balance nearest gau resource ru start task lh max fuel date' r11 left' rows' days'
      else
        let days' := days + 1 in
        if days' >? max then Err
        else src_fwd_shift_loop1 balance nearest gau resource ru start task lh max fuel date' r11 left rows days'
    else
      do r26 <- src_qreserved rows resource date (if balance then None else Some task);
      do q <- qdivide r26 dau; Ok (rows, date + hours_us (Qmult (inject_Z 24) q)).
Proof. destruct balance; reflexivity. Qed.

Lemma src_bwd_shift_loop1_S balance nearest gau resource ru start task lh max fuel date left rows days :
  src_bwd_shift_loop1 balance nearest gau resource ru start task lh max (S fuel) date left rows days
  = if qltb 0%Q left then
      let date' := date + (-1) * DAY in
      do r10 <- src_qreserved rows resource date' (if balance then None else Some task);
      do r11 <- gau date' (Some task);
      let ma := Qminus r11 r10 in
      if qltb 0%Q ma then
        do '(rows', r14) <- src_qreserve rows resource date' task (qmin left ma);
        let left' := Qminus left r14 in
        let days' := days + 1 in
        if days' >? max then Err
        else src_bwd_shift_loop1 balance nearest gau resource ru start task lh max fuel date' left' rows' days'
      else
        let days' := days + 1 in
        if days' >? max then Err
        else src_bwd_shift_loop1 balance nearest gau resource ru start task lh max fuel date' left rows days'
    else
      do r26 <- src_qreserved rows resource date (if balance then None else Some task);
      do r27 <- gau date (Some task);
      do q <- qdivide r26 r27; Ok (rows, date + 1 * DAY - hours_us (Qmult (inject_Z 24) q)).
Proof. destruct balance; reflexivity. Qed.

Section Shift.
Variables (bal : bool) (cp : Z -> Z) (r t : nat).
Variables (nearest : Z -> Z -> res Z) (rows0 : list qrow) (start : Z) (left0 : Q) (h : nat).

(* leaving the forward loop: nothing left, the capacity of the last day is known and positive *)
Lemma fwd_shift_exit m l d c left days : left <= 0 -> 0 < c ->
  src_fwd_shift_loop1 bal nearest (gau_of cp) r rows0 start t left0 (Z.of_nat h) (S m)
                      (DAY * d) (inject_Z c) (inject_Z left) (qrows_of l) days
  = Ok (qrows_of l, DAY * d + frac (used bal l r d t) c).
Proof.
  intros Hl Hc. rewrite src_fwd_shift_loop1_S, q_ltb0_inj.
  destruct (Z.ltb_spec 0 left) as [|_]; [lia|].
  rewrite src_qreserved_used_eq, day_of_mid. cbn [bind].
  destruct (qdivide_ok (used bal l r d t) c) as [q Hq]; [lia|].
  rewrite Hq. cbn [bind]. rewrite (hours_share _ _ _ Hc Hq). reflexivity.
Qed.

Lemma fwd_shift_loop_eq n : forall l d left dau days,
  pos_rows l -> 0 < left -> days + Z.of_nat n = Z.of_nat h ->
  src_fwd_shift_loop1 bal nearest (gau_of cp) r rows0 start t left0 (Z.of_nat h) (S (S n))
                      (DAY * d) dau (inject_Z left) (qrows_of l) days
  = lift_shift (do '(l', d') <- fill cp bal r t 1 n l d left;
                Ok (l', DAY * d' + frac (used bal l' r d' t) (cp d'))).
Proof.
  induction n as [|n IH]; intros l d left dau days Hpos Hleft Hdays.
  - cbn [fill bind lift_shift]. rewrite src_fwd_shift_loop1_S, q_ltb0_inj.
    destruct (Z.ltb_spec 0 left) as [_|]; [|lia]. cbv zeta.
    rewrite src_qreserved_used_eq, gau_of_eq. cbn [bind]. rewrite q_minus_inj, q_ltb0_inj.
    destruct (0 <? _).
    + rewrite q_min_inj, src_qreserve_eq. cbn [bind]. destruct (Z.gtb_spec (days + 1) (Z.of_nat h)); [reflexivity|lia].
    + destruct (Z.gtb_spec (days + 1) (Z.of_nat h)); [reflexivity|lia].
  - rewrite src_fwd_shift_loop1_S, q_ltb0_inj.
    destruct (Z.ltb_spec 0 left) as [_|]; [|lia]. cbv zeta.
    rewrite src_qreserved_used_eq, gau_of_eq. cbn [bind]. rewrite q_minus_inj, q_ltb0_inj.
    replace (DAY * d + 1 * DAY) with (DAY * (d + 1)) by lia. rewrite day_of_mid.
    destruct (Z.gtb_spec (days + 1) (Z.of_nat h)) as [|_]; [lia|].
    destruct (Z.ltb_spec 0 (cp (d + 1) - used bal l r (d + 1) t)) as [Hav|Hav].
    + rewrite q_min_inj, src_qreserve_eq. cbn [bind]. rewrite q_minus_inj, day_of_mid.
      rewrite (fill_S_free _ _ _ _ _ _ _ _ _ Hav). cbv zeta.
      set (amount := Z.min left (cp (d + 1) - used bal l r (d + 1) t)).
      assert (Hamt : 0 < amount) by (unfold amount; lia).
      destruct (Z.ltb_spec 0 (left - amount)) as [Hmore|Hdone].
      * apply IH; [apply pos_rows_cons; [exact Hamt|exact Hpos] | exact Hmore | lia].
      * pose proof (used_nonneg bal l r (d + 1) t Hpos) as Hu.
        rewrite fwd_shift_exit; [reflexivity | exact Hdone | lia].
    + rewrite (fill_S_full _ _ _ _ _ _ _ _ _ Hav Hleft). apply IH; [exact Hpos | exact Hleft | lia].
Qed.

(* leaving the backward loop: nothing left, the capacity of the last day is positive *)
Lemma bwd_shift_exit m l d left days : left <= 0 -> 0 < cp d ->
  src_bwd_shift_loop1 bal nearest (gau_of cp) r rows0 start t left0 (Z.of_nat h) (S m)
                      (DAY * d) (inject_Z left) (qrows_of l) days
  = Ok (qrows_of l, DAY * (d + 1) - frac (used bal l r d t) (cp d)).
Proof.
  intros Hl Hc. rewrite src_bwd_shift_loop1_S, q_ltb0_inj.
  destruct (Z.ltb_spec 0 left) as [|_]; [lia|].
  rewrite src_qreserved_used_eq, gau_of_eq, day_of_mid. cbn [bind].
  destruct (qdivide_ok (used bal l r d t) (cp d)) as [q Hq]; [lia|].
  rewrite Hq. cbn [bind]. rewrite (hours_share _ _ _ Hc Hq). do 2 f_equal. lia.
Qed.

Lemma bwd_shift_loop_eq n : forall l d left days,
  pos_rows l -> 0 < left -> days + Z.of_nat n = Z.of_nat h ->
  src_bwd_shift_loop1 bal nearest (gau_of cp) r rows0 start t left0 (Z.of_nat h) (S (S n))
                      (DAY * d) (inject_Z left) (qrows_of l) days
  = lift_shift (do '(l', d') <- fill cp bal r t (-1) n l d left;
                Ok (l', DAY * (d' + 1) - frac (used bal l' r d' t) (cp d'))).
Proof.
  induction n as [|n IH]; intros l d left days Hpos Hleft Hdays.
  - cbn [fill bind lift_shift]. rewrite src_bwd_shift_loop1_S, q_ltb0_inj.
    destruct (Z.ltb_spec 0 left) as [_|]; [|lia]. cbv zeta.
    rewrite src_qreserved_used_eq, gau_of_eq. cbn [bind]. rewrite q_minus_inj, q_ltb0_inj.
    destruct (0 <? _).
    + rewrite q_min_inj, src_qreserve_eq. cbn [bind]. destruct (Z.gtb_spec (days + 1) (Z.of_nat h)); [reflexivity|lia].
    + destruct (Z.gtb_spec (days + 1) (Z.of_nat h)); [reflexivity|lia].
  - rewrite src_bwd_shift_loop1_S, q_ltb0_inj.
    destruct (Z.ltb_spec 0 left) as [_|]; [|lia]. cbv zeta.
    rewrite src_qreserved_used_eq, gau_of_eq. cbn [bind]. rewrite q_minus_inj, q_ltb0_inj.
    replace (DAY * d + -1 * DAY) with (DAY * (d + -1)) by lia. rewrite day_of_mid.
    destruct (Z.gtb_spec (days + 1) (Z.of_nat h)) as [|_]; [lia|].
    destruct (Z.ltb_spec 0 (cp (d + -1) - used bal l r (d + -1) t)) as [Hav|Hav].
    + rewrite q_min_inj, src_qreserve_eq. cbn [bind]. rewrite q_minus_inj, day_of_mid.
      rewrite (fill_S_free _ _ _ _ _ _ _ _ _ Hav). cbv zeta.
      set (amount := Z.min left (cp (d + -1) - used bal l r (d + -1) t)).
      assert (Hamt : 0 < amount) by (unfold amount; lia).
      destruct (Z.ltb_spec 0 (left - amount)) as [Hmore|Hdone].
      * apply IH; [apply pos_rows_cons; [exact Hamt|exact Hpos] | exact Hmore | lia].
      * pose proof (used_nonneg bal l r (d + -1) t Hpos) as Hu.
        rewrite bwd_shift_exit; [reflexivity | exact Hdone | lia].
    + rewrite (fill_S_full _ _ _ _ _ _ _ _ _ Hav Hleft). apply IH; [exact Hpos | exact Hleft | lia].
Qed.
End Shift.

Theorem src_fwd_shift_eq : forall cfg l r t s0 left, pos_rows l -> 0 <= left ->
  src_fwd_shift (balance cfg) (nearest_of (cap cfg r) (h_search cfg)) (gau_of (cap cfg r)) r (qrows_of l) s0 t
                (inject_Z left) (Z.of_nat (h_fill cfg))
  = lift_shift (fwd_shift cfg l r t s0 left).
Proof.
  intros cfg l r t s0 left Hpos Hleft. unfold src_fwd_shift, fwd_shift. rewrite q_is0_inj.
  destruct (Z.eqb_spec left 0) as [E|N]; [reflexivity|]. cbv zeta.
  rewrite Nat2Z.id, day_start_eq.
  replace (DAY * day_of s0 - 1 * DAY) with (DAY * (day_of s0 - 1)) by lia.
  apply fwd_shift_loop_eq; [exact Hpos | lia | lia].
Qed.

Theorem src_bwd_shift_eq : forall cfg l r t e0 left, pos_rows l -> 0 <= left ->
  src_bwd_shift (balance cfg) (nearest_of (cap cfg r) (h_search cfg)) (gau_of (cap cfg r)) r (qrows_of l) e0 t
                (inject_Z left) (Z.of_nat (h_fill cfg))
  = lift_shift (bwd_shift cfg l r t e0 left).
Proof.
  intros cfg l r t e0 left Hpos Hleft. unfold src_bwd_shift, bwd_shift. rewrite q_is0_inj.
  destruct (Z.eqb_spec left 0) as [E|N]; [reflexivity|]. cbv zeta.
  rewrite Nat2Z.id, day_start_eq.
  apply bwd_shift_loop_eq; [exact Hpos | lia | lia].
Qed.

Print Assumptions src_qreserved_used_eq.
Print Assumptions src_qreserve_eq.
Print Assumptions src_fwd_nearest_eq.
Print Assumptions src_fwd_shift_eq.
Print Assumptions src_bwd_nearest_eq.
Print Assumptions src_bwd_shift_eq.
