(* Shared by C04 and C07: what well-formedness of the input gives (every member hangs below a root),
   the basic invariant of both machines (a task that is not calculated still has its initial
   dates, a calculated one has all four values and its children are calculated), "every member is
   calculated at the end", and the observation [obs_of] of the model's state read back. *)
From PJ Require Import Base.Prelude Sched.Model Sched.LedgerProofs Sched.Primitives Sched.Machine
     Sched.Instances Sched.C03Proofs Sched.Check Sched.Oracles Sched.OracleProofs Sched.WfIn.

(* ---------- members and roots ---------- *)
Lemma in_members w t : In t (members w) <-> k_ext (gett w t) = false.
Proof.
  unfold members. rewrite filter_In, in_seq, negb_true_iff. split.
  - intros [_ H]; exact H.
  - intros H. split; [|exact H]. pose proof (not_ext_in_range w t H). lia.
Qed.

Lemma in_roots w t : In t (roots w) <-> k_ext (gett w t) = false /\ k_parent (gett w t) = None.
Proof.
  unfold roots. rewrite filter_In, in_members. split.
  - intros [H1 H2]. split; [exact H1|]. destruct (k_parent (gett w t)); [discriminate | reflexivity].
  - intros [H1 H2]. rewrite H2. auto.
Qed.

(* ---------- what WFin says about one member ---------- *)
Record wf_member (w : list itask) (t : nat) : Prop := {
  wm_children : forall c, In c (k_children (gett w t)) ->
                          k_ext (gett w c) = false /\ k_parent (gett w c) = Some t;
  wm_parent : forall p, k_parent (gett w t) = Some p ->
                        k_ext (gett w p) = false /\ In t (k_children (gett w p));
  wm_acyclic : ~ In t (ancestors w (length w) t);
  wm_milestone : k_milestone (gett w t) = true -> is_leaf (gett w t) = true }.

Lemma wfin_member w t : WFin w -> k_ext (gett w t) = false -> wf_member w t.
Proof.
  intros H He. unfold WFin, wfin_b in H. rewrite forallb_forall in H.
  specialize (H t). rewrite in_seq in H.
  specialize (H ltac:(pose proof (not_ext_in_range w t He); lia)).
  unfold is_ext in H. rewrite He in H. apply andb_true_iff in H. destruct H as [H _].
  unfold wfin_member_b in H. rewrite !andb_true_iff in H.
  destruct H as [[[[[[[[[[[H1 H2] H3] H4] H5] H6] H7] H8] H9] H10] H11] H12].
  constructor.
  - intros c Hc. rewrite forallb_forall in H1. specialize (H1 c Hc).
    rewrite !andb_true_iff in H1. destruct H1 as [[_ B] C]. unfold is_ext in B.
    apply negb_true_iff in B. split; [exact B|].
    destruct (k_parent (gett w c)) as [p|]; [|discriminate]. apply Nat.eqb_eq in C. subst. reflexivity.
  - intros p Hp. rewrite Hp in H3. rewrite !andb_true_iff in H3. destruct H3 as [[_ B] C].
    unfold is_ext in B. apply negb_true_iff in B. apply memb_true in C. auto.
  - apply negb_true_iff in H4. apply memb_false in H4. exact H4.
  - intros Hm. rewrite Hm in H10. exact H10.
Qed.

(* ---------- every member hangs below a root ---------- *)
Inductive up (w : list itask) : nat -> nat -> Prop :=
| up_refl t : up w t t
| up_step t p r : k_parent (gett w t) = Some p -> up w p r -> up w t r.

Lemma anc_mono w n m t x : (n <= m)%nat -> In x (ancestors w n t) -> In x (ancestors w m t).
Proof.
  revert m t; induction n as [|n IH]; intros m t Hle; simpl; [intros []|].
  destruct m as [|m]; [lia|]. simpl. destruct (k_parent (gett w t)) as [p|]; [|intros []].
  intros [E|H]; [left; exact E | right; apply IH; [lia | exact H]].
Qed.

Lemma anc_members w : WFin w -> forall n t, k_ext (gett w t) = false ->
  forall x, In x (ancestors w n t) -> k_ext (gett w x) = false.
Proof.
  intros Hw. induction n as [|n IH]; intros t He x; simpl; [intros []|].
  destruct (k_parent (gett w t)) as [p|] eqn:Ep; [|intros []].
  destruct (wm_parent _ _ (wfin_member w t Hw He) p Ep) as [Hp _].
  intros [<-|H]; [exact Hp | apply (IH p Hp x H)].
Qed.

Lemma anc_nodup w : WFin w -> forall n t, (n <= length w)%nat -> k_ext (gett w t) = false ->
  NoDup (t :: ancestors w n t).
Proof.
  intros Hw. induction n as [|n IH]; intros t Hn He.
  - simpl. constructor; [intros [] | constructor].
  - constructor.
    + intro Hin. apply (wm_acyclic _ _ (wfin_member w t Hw He)). eapply anc_mono; [|exact Hin]. exact Hn.
    + simpl. destruct (k_parent (gett w t)) as [p|] eqn:Ep; [|constructor].
      apply IH; [lia|]. apply (wm_parent _ _ (wfin_member w t Hw He) p Ep).
Qed.

Lemma anc_short w t : WFin w -> k_ext (gett w t) = false ->
  (length (ancestors w (length w) t) < length w)%nat.
Proof.
  intros Hw He. pose proof (anc_nodup w Hw (length w) t (le_n _) He) as Hn.
  assert (Hi : incl (t :: ancestors w (length w) t) (seq 0 (length w))).
  { intros x [<-|Hx]; apply in_seq.
    - pose proof (not_ext_in_range w t He). lia.
    - pose proof (not_ext_in_range w x (anc_members w Hw _ _ He x Hx)). lia. }
  pose proof (NoDup_incl_length Hn Hi) as Hl. rewrite seq_length in Hl. simpl in Hl. lia.
Qed.

Lemma short_chain_root w : WFin w -> forall n t, k_ext (gett w t) = false ->
  (length (ancestors w n t) < n)%nat -> exists r, up w t r /\ In r (roots w).
Proof.
  intros Hw. induction n as [|n IH]; intros t He; simpl; [lia|].
  destruct (k_parent (gett w t)) as [p|] eqn:Ep.
  - simpl. intros Hl. destruct (wm_parent _ _ (wfin_member w t Hw He) p Ep) as [Hp _].
    destruct (IH p Hp ltac:(lia)) as [r [Hu Hr]]. exists r. split; [eapply up_step; eauto | exact Hr].
  - intros _. exists t. split; [constructor | apply in_roots; auto].
Qed.

Theorem member_has_root w t : WFin w -> k_ext (gett w t) = false -> exists r, up w t r /\ In r (roots w).
Proof. intros Hw He. eapply short_chain_root; eauto. apply anc_short; assumption. Qed.

(* ---------- the basic invariant ---------- *)
Definition full (d : dyn) : Prop := exists s e es sp, d = mkd s e es sp.

Record binv (w : list itask) (c : core) : Prop := {
  b_len : length (c_dy c) = length w;
  b_init : forall p, ~ In p (c_calc c) -> nth p (c_dy c) no_dyn = init_dyn (gett w p);
  b_full : forall p, In p (c_calc c) -> k_ext (gett w p) = false /\ full (nth p (c_dy c) no_dyn);
  b_kids : forall p, In p (c_calc c) -> forall ch, In ch (k_children (gett w p)) -> ready w c ch }.

Lemma binv_init w : binv w (init_core w).
Proof.
  constructor; simpl.
  - apply map_length.
  - intros p _. exact (map_nth init_dyn w no_task p).
  - intros p [].
  - intros p [].
Qed.

Lemma binv_step w c t ds' l' :
  binv w c -> k_ext (gett w t) = false -> ~ In t (c_calc c) ->
  (forall ch, In ch (k_children (gett w t)) -> ready w c ch) ->
  (exists d, full d /\ ds' = set_nth (c_dy c) t d) ->
  binv w {| c_dy := ds'; c_lg := l'; c_calc := t :: c_calc c |}.
Proof.
  intros [Bl Bi Bf Bk] He Hn Hk [d [Hd ->]].
  assert (Ht : (t < length (c_dy c))%nat) by (rewrite Bl; apply not_ext_in_range; exact He).
  constructor; simpl.
  - rewrite length_set_nth. exact Bl.
  - intros p Hp. rewrite nth_set_nth_other by (intro E; apply Hp; left; auto).
    apply Bi. intro Hin. apply Hp. right. exact Hin.
  - intros p [<-|Hp].
    + split; [exact He|]. rewrite nth_set_nth_same by exact Ht. exact Hd.
    + rewrite nth_set_nth_other by (intro E; subst; contradiction). apply Bf. exact Hp.
  - assert (Hm : forall ch, ready w c ch ->
                 ready w {| c_dy := set_nth (c_dy c) t d; c_lg := l'; c_calc := t :: c_calc c |} ch).
    { intros ch [H|H]; [left; exact H | right; right; exact H]. }
    intros p [<-|Hp] ch Hc; apply Hm; [apply Hk; exact Hc | eapply Bk; eauto].
Qed.

Lemma fwd_compute_writes cfg w ds l t b ds' l' :
  fwd_compute cfg w ds l t b = Ok (ds', l') -> exists d, full d /\ ds' = set_nth ds t d.
Proof.
  intros H. apply fwd_compute_inv in H.
  destruct H as [[_ [-> _]] | [_ [s [e [es [sp [-> _]]]]]]]; eexists; (split; [|reflexivity]);
    repeat eexists.
Qed.

Lemma bwd_compute_writes cfg w ds l t b ds' l' :
  bwd_compute cfg w ds l t b = Ok (ds', l') -> exists d, full d /\ ds' = set_nth ds t d.
Proof.
  intros H. apply bwd_compute_inv in H.
  destruct H as [[_ [-> _]] | [_ [s [e [es [sp [-> _]]]]]]]; eexists; (split; [|reflexivity]);
    repeat eexists.
Qed.

Lemma binv_fstep cfg w c t c' : binv w c -> fstep cfg w c t c' -> binv w c'.
Proof.
  intros Hb Hs. unfold fstep in Hs. destruct Hs as [c t [ds' l'] Hext Hnot _ Hkids Hc]. simpl.
  apply binv_step; try assumption. eapply fwd_compute_writes; eauto.
Qed.

Lemma binv_bstep cfg w c t c' : binv w c -> bstep cfg w c t c' -> binv w c'.
Proof.
  intros Hb Hs. unfold bstep in Hs. destruct Hs as [c t [ds' l'] Hext Hnot _ Hkids Hc]. simpl.
  apply binv_step; try assumption.
  - intros ch Hch. apply Hkids. unfold bkids. apply -> in_rev. exact Hch.
  - eapply bwd_compute_writes; eauto.
Qed.

(* everything at or below a calculated task is calculated; with WFin: every member is *)
Lemma up_calculated w c : binv w c -> forall t r, up w t r -> k_ext (gett w t) = false -> WFin w ->
  In r (c_calc c) -> In t (c_calc c).
Proof.
  intros Hb t r Hu. induction Hu as [t | t p r Ep Hu IH]; intros He Hw Hr; [exact Hr|].
  destruct (wm_parent _ _ (wfin_member w t Hw He) p Ep) as [Hp Hin].
  specialize (IH Hp Hw Hr).
  destruct (b_kids _ _ Hb p IH t Hin) as [H|H]; [congruence | exact H].
Qed.

Theorem all_calculated w c : WFin w -> binv w c -> (forall r, In r (roots w) -> ready w c r) ->
  forall t, k_ext (gett w t) = false -> In t (c_calc c).
Proof.
  intros Hw Hb Hr t He. destruct (member_has_root w t Hw He) as [r [Hu Hin]].
  eapply up_calculated; eauto.
  destruct (Hr r Hin) as [H|H]; [|exact H]. apply in_roots in Hin. destruct Hin as [Hx _]. congruence.
Qed.

(* ---------- small facts used by both properties ---------- *)
Lemma fold_left_max_ge l b : b <= fold_left Z.max l b.
Proof. revert b; induction l as [|x l IH]; intros b; simpl; [lia|]. specialize (IH (Z.max b x)). lia. Qed.

Lemma fold_left_min_le l b : fold_left Z.min l b <= b.
Proof. revert b; induction l as [|x l IH]; intros b; simpl; [lia|]. specialize (IH (Z.min b x)). lia. Qed.

Lemma bound_max_ge ds pre b : b <= bound_max ds pre b.
Proof. apply fold_left_max_ge. Qed.

Lemma bound_min_le ds pre b : bound_min ds pre b <= b.
Proof. apply fold_left_min_le. Qed.

(* a member leaf starts with what the user gave it, a member summary with nothing *)
Lemma init_dyn_leaf k : is_leaf k = true ->
  init_dyn k = {| d_start := k_start k; d_end := k_end k; d_est := k_est k; d_spent := k_spent k |}.
Proof. intros H. unfold init_dyn. rewrite H. simpl. rewrite andb_false_r. reflexivity. Qed.

Lemma init_dyn_summary k : k_ext k = false -> is_leaf k = false -> init_dyn k = no_dyn.
Proof. intros H1 H2. unfold init_dyn. rewrite H1, H2. reflexivity. Qed.

(* the rows of one task *)
Definition rows_t (l : ledger) (t : nat) : list row := filter (fun x => Nat.eqb (r_task x) t) l.

Lemma rows_t_app a b t : rows_t (a ++ b) t = rows_t a t ++ rows_t b t.
Proof. apply filter_app. Qed.

Lemma rows_t_all new t : (forall x, In x new -> r_task x = t) -> rows_t new t = new.
Proof.
  induction new as [|x new IH]; intros H; simpl; [reflexivity|].
  rewrite (H x (or_introl eq_refl)), Nat.eqb_refl. f_equal. apply IH. intros y Hy. apply H. right. exact Hy.
Qed.

Lemma rows_t_none new t : (forall x, In x new -> r_task x <> t) -> rows_t new t = [].
Proof.
  induction new as [|x new IH]; intros H; simpl; [reflexivity|].
  destruct (Nat.eqb_spec (r_task x) t) as [E|E]; [exfalso; apply (H x (or_introl eq_refl)); exact E|].
  apply IH. intros y Hy. apply H. right. exact Hy.
Qed.

(* a task that is not calculated owns no row *)
Lemma rows_t_uncalculated w c t : rows_wf w c -> ~ In t (c_calc c) -> rows_t (c_lg c) t = [].
Proof.
  intros Hw Hn. apply rows_t_none. intros x Hx E. apply Hn. rewrite <- E. apply (Hw x Hx).
Qed.

(* a step that calculates another task leaves the rows of this one alone *)
Lemma rows_t_adds t u r l l' : adds_rows_of u r l l' -> u <> t -> rows_t l' t = rows_t l t.
Proof.
  intros [new [-> Hn]] Hne. rewrite rows_t_app, rows_t_none; [reflexivity|].
  intros x Hx. destruct (Hn x Hx) as [_ [E _]]. congruence.
Qed.

(* ---------- the observation of the model's final state ---------- *)
(* tasks outside the WBS come after all members, as the harness numbers them *)
Definition exts_last (w : list itask) : Prop := members w = seq 0 (length (members w)).
Definition exts_last_b (w : list itask) : bool := list_eqb Nat.eqb (members w) (seq 0 (length (members w))).

Lemma exts_last_b_spec w : exts_last_b w = true <-> exts_last w.
Proof. unfold exts_last_b, exts_last. apply list_eqb_spec. intros x y. apply Nat.eqb_eq. Qed.

Lemma o_get_obs w st t : exts_last w -> In t (members w) -> o_get (obs_of w st) t = dyn_obs (getd st t).
Proof.
  intros He Hin. unfold o_get, obs_of, model_tasks. simpl.
  unfold exts_last in He. set (m := length (members w)) in *.
  assert (Ht : (t < m)%nat) by (rewrite He in Hin; apply in_seq in Hin; lia).
  rewrite He.
  rewrite (nth_indep _ _ (dyn_obs (getd st 0%nat))) by (rewrite map_length, seq_length; exact Ht).
  pose proof (map_nth (fun t => dyn_obs (getd st t)) (seq 0 m) 0%nat t) as E. cbv beta in E.
  rewrite E, seq_nth by exact Ht. reflexivity.
Qed.

Lemma obs_fields w st t : exts_last w -> In t (members w) ->
  o_start (obs_of w st) t = d_start (getd st t) /\ o_end (obs_of w st) t = d_end (getd st t)
  /\ o_est (obs_of w st) t = d_est (getd st t) /\ o_spent (obs_of w st) t = d_spent (getd st t).
Proof.
  intros He Hin. unfold o_start, o_end, o_est, o_spent. rewrite (o_get_obs w st t He Hin).
  unfold dyn_obs. auto.
Qed.

Lemma rows_of_obs w st t : rows_of (obs_of w st) t = map row_obs (rev (rows_t (lg st) t)).
Proof.
  unfold rows_of, obs_of, model_rows, rows_t. simpl. rewrite filter_map_row_obs, filter_rev. reflexivity.
Qed.

Lemma sum_units_rev l : sum_units (rev l) = sum_units l.
Proof.
  induction l as [|x l IH]; simpl; [reflexivity|]. rewrite sum_units_app, IH. unfold sum_units. simpl. lia.
Qed.

Lemma osum_rows_obs l : osum (map row_obs (rev l)) = sum_units l.
Proof. rewrite osum_map_row_obs. apply sum_units_rev. Qed.

Lemma days_rows_obs l : map row_day (map row_obs (rev l)) = rev (map r_day l).
Proof. rewrite map_map, <- map_rev. apply map_ext. intros x. reflexivity. Qed.

(* the bound on capacities under which a positive reservation is visible in a date (frac_pos) *)
Definition cap_small (cfg : config) : Prop := forall r d, cap cfg r d <= DAY.

(* both hold for the tabulated capacities of a harness case whose tables have entries in [0, DAY] *)
Definition rescal_ok_b (c : rescal) : bool :=
  forallb (fun v => (0 <=? v) && (v <=? DAY)) (rc_tab c ++ rc_pre c ++ rc_post c).

Lemma nth_bounded (l : list Z) n : forallb (fun v => (0 <=? v) && (v <=? DAY)) l = true ->
  0 <= nth n l 0 <= DAY.
Proof.
  intros H. destruct (Nat.lt_ge_cases n (length l)) as [L|G].
  - rewrite forallb_forall in H. specialize (H _ (nth_In l 0 L)).
    apply andb_true_iff in H. destruct H as [A B]. apply Z.leb_le in A. apply Z.leb_le in B. lia.
  - rewrite nth_overflow by exact G. unfold DAY. lia.
Qed.

Lemma cap_of_bounds rs : forallb rescal_ok_b rs = true -> forall r d, 0 <= cap_of rs r d <= DAY.
Proof.
  intros H r d. unfold cap_of.
  assert (Hc : rescal_ok_b (nth r rs no_rescal) = true).
  { destruct (Nat.lt_ge_cases r (length rs)) as [L|G].
    - rewrite forallb_forall in H. apply H. apply nth_In. exact L.
    - rewrite nth_overflow by exact G. reflexivity. }
  unfold rescal_ok_b in Hc. rewrite !forallb_app in Hc. rewrite !andb_true_iff in Hc.
  destruct Hc as [A [B C]].
  destruct (d <? rc_lo _); [apply nth_bounded; exact B|].
  destruct (d <? _); apply nth_bounded; assumption.
Qed.
