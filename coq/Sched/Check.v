(* Executable checker for generated scheduler cases: runs the model on the abstract input the
   implementation was given and compares with what the implementation returned. *)
From PJ Require Import Base.Prelude Sched.Model.
From PJ Require Import gen.Consts.

(* capacity of a resource as tabulated from the real resource object: an explicit window plus a
   weekly pattern before and after it *)
Record rescal := { rc_lo : Z; rc_tab : list Z; rc_pre : list Z; rc_post : list Z }.
Definition no_rescal : rescal := {| rc_lo := 0; rc_tab := []; rc_pre := []; rc_post := [] |}.

Definition cap_of (rs : list rescal) (r : nat) (d : Z) : Z :=
  let c := nth r rs no_rescal in
  if d <? rc_lo c then nth (Z.to_nat (weekday_of_day d)) (rc_pre c) 0
  else if d <? rc_lo c + Z.of_nat (length (rc_tab c)) then nth (Z.to_nat (d - rc_lo c)) (rc_tab c) 0
  else nth (Z.to_nat (weekday_of_day d)) (rc_post c) 0.

Definition mk_config (fwd : bool) (rs : list rescal) (bal : bool) (de pb nw : Z) : config :=
  {| cap := cap_of rs; balance := bal; dflt_est := de; pbound := pb; now := nw;
     h_search := Z.to_nat search_max_days;
     h_near := Z.to_nat (if fwd then fwd_nearest_steps else bwd_nearest_steps);
     h_fill := Z.to_nat (if fwd then fwd_fill_steps else bwd_fill_steps) |}.

Definition run (fwd : bool) (cfg : config) (w : list itask) : res sst :=
  if fwd then forward cfg w else backward cfg w.

(* observation of a returned schedule: per member (start, end, estimate, spent), rows in rows() order *)
Definition obs_task : Type := option Z * option Z * option Z * option Z.
Definition obs_row : Type := nat * Z * nat * Z.        (* resource, day, task, units *)

Definition dyn_obs (d : dyn) : obs_task := (d_start d, d_end d, d_est d, d_spent d).
Definition row_obs (x : row) : obs_row := (r_res x, r_day x, r_task x, r_units x).

Definition obs_task_eqb (a b : obs_task) : bool :=
  let '(a1, a2, a3, a4) := a in let '(b1, b2, b3, b4) := b in
  zopt_eqb a1 b1 && zopt_eqb a2 b2 && zopt_eqb a3 b3 && zopt_eqb a4 b4.
Definition obs_row_eqb (a b : obs_row) : bool :=
  let '(a1, a2, a3, a4) := a in let '(b1, b2, b3, b4) := b in
  Nat.eqb a1 b1 && (a2 =? b2) && Nat.eqb a3 b3 && (a4 =? b4).

Definition model_tasks (w : list itask) (st : sst) : list obs_task :=
  map (fun t => dyn_obs (getd st t)) (members w).
Definition model_rows (st : sst) : list obs_row := map row_obs (rev (lg st)).
