(* Specifications of the date arithmetic and of the four primitives of the schedulers:
   forward/backward nearest available date, forward/backward shift. *)
From PJ Require Import Base.Prelude Sched.Model Sched.LedgerProofs.

(* ---------- 24h * u / c ---------- *)
Lemma frac_nonneg u c : 0 <= u -> 0 < c -> 0 <= frac u c.
Proof. intros Hu Hc. unfold frac, DAY. apply Z.div_pos; lia. Qed.

Lemma frac_lt u c : 0 <= u -> u < c -> frac u c < DAY.
Proof. intros Hu Hc. unfold frac. apply Z.div_lt_upper_bound; unfold DAY; nia. Qed.

Lemma frac_le u c : 0 < c -> u <= c -> frac u c <= DAY.
Proof.
  intros Hc Hu. unfold frac. apply Z.div_le_upper_bound; [lia|]. unfold DAY. nia.
Qed.

(* a positive (integer) amount is visible in the date as long as a day has at most DAY units *)
Lemma frac_pos u c : 0 < u -> 0 < c -> c <= DAY -> 0 < frac u c.
Proof.
  intros Hu Hc Hd. unfold frac. apply Z.div_str_pos. split; [lia|]. unfold DAY in *. nia.
Qed.

Lemma frac_mono u u' c : 0 < c -> u <= u' -> frac u c <= frac u' c.
Proof. intros Hc Hu. unfold frac. apply Z.div_le_mono; [lia|]. unfold DAY. nia. Qed.

Lemma frac_zero c : frac 0 c = 0.
Proof. unfold frac. rewrite Z.mul_0_r. destruct c; reflexivity. Qed.

Lemma day_of_within d x : 0 <= x -> x < DAY -> day_of (DAY * d + x) = d.
Proof.
  intros H0 H1. unfold day_of. symmetry. apply (Z.div_unique_pos _ _ d x); [split; assumption | lia].
Qed.

Lemma day_of_le_iff t d : d <= day_of t <-> DAY * d <= t.
Proof.
  unfold day_of. split; intro H.
  - pose proof (Z.mul_div_le t DAY ltac:(unfold DAY; lia)). unfold DAY in *. nia.
  - apply Z.div_le_lower_bound; [unfold DAY; lia | exact H].
Qed.

Lemma day_of_lt_iff t d : day_of t < d <-> t < DAY * d.
Proof. pose proof (day_of_le_iff t d). lia. Qed.

(* ---------- forward: nearest available date ---------- *)
Definition is_free (cfg : config) (l : ledger) (r t : nat) (d : Z) : Prop :=
  0 < cap cfg r d - used (balance cfg) l r d t.

Lemma fwd_nearest_spec cfg l r t t0 s :
  fwd_nearest cfg l r t t0 = Ok s ->
  exists d, day_of t0 <= d /\ is_free cfg l r t d
            /\ s = DAY * d + frac (used (balance cfg) l r d t) (cap cfg r d)
            /\ forall d', day_of t0 <= d' < d -> cap cfg r d' <= 0 \/ ~ is_free cfg l r t d'.
Proof.
  unfold fwd_nearest.
  destruct (first_open (cap cfg r) 1 (h_search cfg) (day_of t0)) as [d0|] eqn:E0; [|discriminate].
  destruct (next_free (cap cfg r) (fun d => used (balance cfg) l r d t) 1 (h_near cfg) d0) as [d|] eqn:E1; [|discriminate].
  intros H; inversion H; subst s. clear H.
  destruct (first_open_spec _ _ _ _ _ E0) as [k0 [_ [Hd0 [_ Hm0]]]].
  destruct (next_free_spec _ _ _ _ _ _ E1) as [k1 [_ [Hd1 [Hf Hm1]]]].
  exists d. split; [lia|]. split; [exact Hf|]. split; [reflexivity|].
  intros d' Hd'. destruct (Z_lt_le_dec d' d0) as [L|G].
  - left. specialize (Hm0 (Z.to_nat (d' - day_of t0)) ltac:(lia)).
    replace (day_of t0 + 1 * Z.of_nat (Z.to_nat (d' - day_of t0))) with d' in Hm0 by lia. exact Hm0.
  - right. unfold is_free. specialize (Hm1 (Z.to_nat (d' - d0)) ltac:(lia)).
    replace (d0 + 1 * Z.of_nat (Z.to_nat (d' - d0))) with d' in Hm1 by lia. lia.
Qed.

(* ---------- forward: shift ---------- *)
Lemma fwd_shift_spec cfg l r t s0 left l' e :
  fwd_shift cfg l r t s0 left = Ok (l', e) -> 0 <= left ->
  (left = 0 /\ l' = l /\ e = s0)
  \/ (0 < left /\ exists new dl,
        fill_result (cap cfg r) (balance cfg) r t 1 l (day_of s0 - 1) left l' dl new
        /\ e = DAY * dl + frac (used (balance cfg) l' r dl t) (cap cfg r dl)).
Proof.
  unfold fwd_shift. destruct (Z.eqb_spec left 0) as [E|E].
  - intros H _; inversion H; subst. left. auto.
  - destruct (fill _ _ _ _ _ _ _ _ _) as [[l2 d2]| |] eqn:Hf; simpl; try discriminate.
    intros H Hl; inversion H; subst l2 e. right. split; [lia|].
    destruct (fill_spec (cap cfg r) (balance cfg) r t 1 ltac:(lia) _ _ _ _ _ _ Hf ltac:(lia)) as [new R].
    exists new, d2. split; [exact R | reflexivity].
Qed.

(* ---------- backward ---------- *)
Lemma bwd_nearest_spec cfg l r t t0 e :
  bwd_nearest cfg l r t t0 = Ok e ->
  exists d, d < day_of t0 /\ is_free cfg l r t d
            /\ e = DAY * (d + 1) - frac (used (balance cfg) l r d t) (cap cfg r d)
            /\ forall d', d < d' < day_of t0 -> cap cfg r d' <= 0 \/ ~ is_free cfg l r t d'.
Proof.
  unfold bwd_nearest.
  destruct (first_open (cap cfg r) (-1) (h_search cfg) (day_of t0 - 1)) as [d0|] eqn:E0; [|discriminate].
  destruct (next_free (cap cfg r) (fun d => used (balance cfg) l r d t) (-1) (h_near cfg) d0) as [d|] eqn:E1; [|discriminate].
  intros H; inversion H; subst e. clear H.
  destruct (first_open_spec _ _ _ _ _ E0) as [k0 [_ [Hd0 [_ Hm0]]]].
  destruct (next_free_spec _ _ _ _ _ _ E1) as [k1 [_ [Hd1 [Hf Hm1]]]].
  exists d. split; [lia|]. split; [exact Hf|]. split; [reflexivity|].
  intros d' Hd'. destruct (Z_lt_le_dec d0 d') as [L|G].
  - left. specialize (Hm0 (Z.to_nat (day_of t0 - 1 - d')) ltac:(lia)).
    replace (day_of t0 - 1 + -1 * Z.of_nat (Z.to_nat (day_of t0 - 1 - d'))) with d' in Hm0 by lia. exact Hm0.
  - right. unfold is_free. specialize (Hm1 (Z.to_nat (d0 - d')) ltac:(lia)).
    replace (d0 + -1 * Z.of_nat (Z.to_nat (d0 - d'))) with d' in Hm1 by lia. lia.
Qed.

Lemma bwd_shift_spec cfg l r t e0 left l' s :
  bwd_shift cfg l r t e0 left = Ok (l', s) -> 0 <= left ->
  (left = 0 /\ l' = l /\ s = e0)
  \/ (0 < left /\ exists new dl,
        fill_result (cap cfg r) (balance cfg) r t (-1) l (day_of e0) left l' dl new
        /\ s = DAY * (dl + 1) - frac (used (balance cfg) l' r dl t) (cap cfg r dl)).
Proof.
  unfold bwd_shift. destruct (Z.eqb_spec left 0) as [E|E].
  - intros H _; inversion H; subst. left. auto.
  - destruct (fill _ _ _ _ _ _ _ _ _) as [[l2 d2]| |] eqn:Hf; simpl; try discriminate.
    intros H Hl; inversion H; subst l2 s. right. split; [lia|].
    destruct (fill_spec (cap cfg r) (balance cfg) r t (-1) ltac:(lia) _ _ _ _ _ _ Hf ltac:(lia)) as [new R].
    exists new, d2. split; [exact R | reflexivity].
Qed.

(* ---------- the last day of a fill carries a visible share ---------- *)
Lemma used_last_day cp balance r t dir l d left l' dl new :
  (forall x, In x l -> 0 < r_units x) ->
  fill_result cp balance r t dir l d left l' dl new ->
  0 < used balance l' r dl t <= cp dl.
Proof.
  intros Hpos R. destruct R as [Ra Rr Rs Rl Rn Rc Rf Rt].
  destruct Rl as [x [rest [Hn Hx]]].
  assert (Hin : In x new) by (rewrite Hn; left; reflexivity).
  destruct (Rr x Hin) as [A [B [C _]]]. split.
  - rewrite Ra, Hn. simpl. rewrite used_cons. unfold hits, row_on. rewrite A, B, Hx, !Nat.eqb_refl, Z.eqb_refl. simpl.
    rewrite orb_true_r.
    assert (0 <= used balance (rest ++ l) r dl t).
    { apply used_nonneg. intros y Hy. apply in_app_or in Hy. destruct Hy as [Hy|Hy]; [|apply Hpos; exact Hy].
      destruct (Rr y) as [_ [_ [P _]]]; [rewrite Hn; right; exact Hy | exact P]. }
    lia.
  - rewrite <- Hx. apply Rc. exact Hin.
Qed.
