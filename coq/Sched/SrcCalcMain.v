(* The source-text tie for the two entry points (gen/SrcPass.v, generated from src/pjplan/schedule.py):
   ForwardScheduler.calc and BackwardScheduler.calc - the pre-checks, __prepare_tasks, then one call of the pass per
   root - are the model's [forward] / [backward] (Sched/Model.v), started on the user's values [map raw_dyn w].
   The pieces: Sched/SrcCalcEquiv.v (helpers), Sched/SrcPassEquivF.v / SrcPassEquivB.v (the passes under the roots
   loop); here they are put together, plus the index loop `for i in range(len(roots) - 1, -1, -1)` of the backward
   calc, which is a walk over the reversed list. *)
From Coq Require Import Lia.
From PJ Require Import Base.Prelude Sched.Model gen.SrcPass Sched.SrcPassRel Sched.SrcPassEquivF Sched.SrcPassEquivB Sched.SrcCalcEquiv.
Open Scope Z_scope.

(* ---------- list lemmas ---------- *)
Lemma fold_res_ext {S A} (f g : S -> A -> res S) :
  (forall s a, f s a = g s a) -> forall l s, fold_res f l s = fold_res g l s.
Proof.
  intros Hfg l. induction l as [|a r IH]; intros s.
  - reflexivity.
  - cbn [fold_res]. rewrite Hfg. destruct (g s a) as [s'| |k]; cbn [bind]; [apply IH|reflexivity|reflexivity].
Qed.

Lemma src_list_get_nat {A} (l : list A) (i : nat) (d : A) :
  (i < length l)%nat -> src_list_get l (Z.of_nat i) = Ok (nth i l d).
Proof.
  intros Hi. unfold src_list_get. cbv zeta.
  assert (E1 : (Z.of_nat i <? 0) = false) by (apply Z.ltb_ge; lia).
  rewrite E1.
  assert (E2 : (0 <=? Z.of_nat i) = true) by (apply Z.leb_le; lia).
  assert (E3 : (Z.of_nat i <? Z.of_nat (length l)) = true) by (apply Z.ltb_lt; lia).
  rewrite E2, E3. cbn [andb]. rewrite Nat2Z.id.
  rewrite (nth_error_nth' l d Hi). reflexivity.
Qed.

Lemma firstn_snoc {A} (d : A) : forall (l : list A) (n : nat),
  (n < length l)%nat -> firstn (S n) l = firstn n l ++ [nth n l d].
Proof.
  induction l as [|a r IH]; intros n Hn.
  - cbn [length] in Hn. lia.
  - destruct n as [|n].
    + reflexivity.
    + cbn [length] in Hn. change (firstn (S (S n)) (a :: r)) with (a :: firstn (S n) r).
      rewrite (IH n) by lia. reflexivity.
Qed.

(* walking the indices n-1 .. 0 with lst[i] is walking the first n elements backwards *)
Lemma index_walk_firstn {S A} (l : list A) (F : S -> A -> res S) (G : S -> Z -> res S) :
  (forall s i, G s i = do x <- src_list_get l i; F s x) ->
  forall n, (n <= length l)%nat -> forall s,
    fold_res G (map Z.of_nat (rev (seq 0 n))) s = fold_res F (rev (firstn n l)) s.
Proof.
  intros HG. induction n as [|n IH]; intros Hn s.
  - reflexivity.
  - destruct l as [|d l'] eqn:El; [cbn [length] in Hn; lia|]. rewrite <- El in *.
    rewrite seq_S, rev_app_distr. cbn [plus rev app map fold_res].
    rewrite (firstn_snoc d l n) by lia. rewrite rev_app_distr. cbn [rev app fold_res].
    rewrite HG. rewrite (src_list_get_nat l n d) by lia. cbn [bind].
    destruct (F s (nth n l d)) as [s'| |k]; cbn [bind]; [|reflexivity|reflexivity].
    apply IH. lia.
Qed.

(* Python's `for i in range(len(l) - 1, -1, -1): x = l[i]; ...` *)
Lemma index_walk_rev {S A} (l : list A) (F : S -> A -> res S) (G : S -> Z -> res S) :
  (forall s i, G s i = do x <- src_list_get l i; F s x) ->
  forall s, fold_res G (map Z.of_nat (rev (seq 0 (Z.to_nat (Z.of_nat (length l) - 1 + 1))))) s
            = fold_res F (rev l) s.
Proof.
  intros HG s.
  replace (Z.of_nat (length l) - 1 + 1) with (Z.of_nat (length l)) by lia. rewrite Nat2Z.id.
  rewrite (index_walk_firstn l F G HG (length l) (Nat.le_refl _) s). rewrite firstn_all. reflexivity.
Qed.

(* the statement of the brief, literally *)
Corollary index_walk_rev_lit {S A} (l : list A) (F : S -> A -> res S) (s0 : S) :
  fold_res (fun st i => do x <- src_list_get l i; F st x)
           (map Z.of_nat (rev (seq 0 (Z.to_nat (Z.of_nat (length l) - 1 + 1))))) s0
  = fold_res F (rev l) s0.
Proof. apply index_walk_rev. intros s i. reflexivity. Qed.

(* ---------- calc is the roots loop after the checks ---------- *)
Lemma bind_ret3 (r : res (list dyn * ledger * list nat)) :
  (do st <- r; let '(a, b, c) := st in Ok (a, b, c)) = r.
Proof. destruct r as [[[a b] c]| |k]; reflexivity. Qed.

Lemma src_forward_calc_unfold cfg w :
  src_forward_calc cfg w (map raw_dyn w)
  = if isolated_ok w then
      if no_future_ends w (now cfg) then src_roots_fold src_fwd_pass cfg w (roots w) else Err
    else Err.
Proof.
  unfold src_forward_calc.
  rewrite src_validate_graph_isolation_eq, src_check_no_end_dates_in_future_eq, src_prepare_tasks_eq.
  destruct (isolated_ok w); cbn [bind]; [|reflexivity].
  destruct (no_future_ends w (now cfg)); cbn [bind]; [|reflexivity].
  unfold src_roots_fold. apply bind_ret3.
Qed.

Lemma src_backward_calc_unfold cfg w :
  src_backward_calc cfg w (map raw_dyn w)
  = if isolated_ok w then src_roots_fold src_bwd_pass cfg w (rev (roots w)) else Err.
Proof.
  unfold src_backward_calc.
  rewrite src_validate_graph_isolation_eq, src_prepare_tasks_bwd_eq.
  destruct (isolated_ok w); cbn [bind]; [|reflexivity].
  cbv zeta. unfold src_roots_fold.
  rewrite (index_walk_rev (roots w)
             (fun st t => let '(ds, l, cl) := st in
                          do '((ds2, l2, cl2, _), _) <- src_bwd_pass (S (S (length w))) cfg w ds l cl [] t;
                          Ok (ds2, l2, cl2))).
  - apply bind_ret3.
  - intros [[ds l] cl] i. reflexivity.
Qed.

(* ---------- the theorems ---------- *)
Theorem src_forward_calc_rel : forall cfg w, calc_rel (forward cfg w) (src_forward_calc cfg w (map raw_dyn w)).
Proof.
  intros cfg w. rewrite src_forward_calc_unfold.
  destruct (isolated_ok w) eqn:H1.
  - destruct (no_future_ends w (now cfg)) eqn:H2.
    + apply src_forward_rel; assumption.
    + unfold forward. rewrite H1, H2. cbn [negb calc_rel]. exact I.
  - unfold forward. rewrite H1. cbn [negb calc_rel]. exact I.
Qed.

Theorem src_backward_calc_rel : forall cfg w, calc_rel (backward cfg w) (src_backward_calc cfg w (map raw_dyn w)).
Proof.
  intros cfg w. rewrite src_backward_calc_unfold.
  destruct (isolated_ok w) eqn:H1.
  - apply src_backward_rel; assumption.
  - unfold backward. rewrite H1. cbn [negb calc_rel]. exact I.
Qed.

Lemma calc_rel_Ok m ds l cl : calc_rel m (Ok (ds, l, cl)) ->
  exists st, m = Ok st /\ dy st = ds /\ lg st = l /\ same_elts (calc st) cl.
Proof.
  intros H. destruct m as [st| |k]; cbn [calc_rel] in H; try contradiction.
  exists st. split; [reflexivity|exact H].
Qed.

Lemma calc_rel_outcome m c : calc_rel m c -> outcome_code c = outcome_code m.
Proof.
  intros H. destruct m as [st| |ka]; destruct c as [[[ds l] cl]| |kb]; cbn [calc_rel] in H; try contradiction;
    cbn [outcome_code]; try reflexivity.
  subst. reflexivity.
Qed.

Corollary src_forward_calc_Ok : forall cfg w ds l cl, src_forward_calc cfg w (map raw_dyn w) = Ok (ds, l, cl) ->
  exists st, forward cfg w = Ok st /\ dy st = ds /\ lg st = l /\ same_elts (calc st) cl.
Proof.
  intros cfg w ds l cl E. apply calc_rel_Ok. rewrite <- E. apply src_forward_calc_rel.
Qed.

Corollary src_backward_calc_Ok : forall cfg w ds l cl, src_backward_calc cfg w (map raw_dyn w) = Ok (ds, l, cl) ->
  exists st, backward cfg w = Ok st /\ dy st = ds /\ lg st = l /\ same_elts (calc st) cl.
Proof.
  intros cfg w ds l cl E. apply calc_rel_Ok. rewrite <- E. apply src_backward_calc_rel.
Qed.

Corollary src_forward_calc_outcome : forall cfg w,
  outcome_code (src_forward_calc cfg w (map raw_dyn w)) = outcome_code (forward cfg w).
Proof. intros cfg w. apply calc_rel_outcome. apply src_forward_calc_rel. Qed.

Corollary src_backward_calc_outcome : forall cfg w,
  outcome_code (src_backward_calc cfg w (map raw_dyn w)) = outcome_code (backward cfg w).
Proof. intros cfg w. apply calc_rel_outcome. apply src_backward_calc_rel. Qed.

(* ---------- non-vacuity ---------- *)
(* the WBS of Sched/SrcPassEquivF.v (a summary task 0 with the children 1 -> 2, a milestone 3 after the summary task;
   two roots, so the index loop of the backward calc is walked twice), and the same with an end date after `now` on
   task 1 (forward refuses, backward does not look), and with a predecessor outside the WBS that has no dates (both
   refuse) *)
Definition mx_w : list itask := SrcPassEquivF.ex_w.
Definition mx_cfg : config := SrcPassEquivF.ex_cfg.
Definition mx_task_end (e : option Z) : itask :=
  {| k_parent := Some 0%nat; k_children := []; k_preds := []; k_succs := [2%nat]; k_ext := false; k_milestone := false;
     k_res := 0; k_est := Some 80; k_spent := None; k_start := None; k_end := e; k_minstart := None |}.
Definition mx_w_future : list itask :=
  [ nth 0 mx_w no_task; mx_task_end (Some (19800 * DAY)); nth 2 mx_w no_task; nth 3 mx_w no_task ].
Definition mx_w_outside : list itask :=
  [ {| k_parent := None; k_children := []; k_preds := [1%nat]; k_succs := []; k_ext := false; k_milestone := false;
       k_res := 0; k_est := Some 80; k_spent := None; k_start := None; k_end := None; k_minstart := None |};
    {| k_parent := None; k_children := []; k_preds := []; k_succs := [0%nat]; k_ext := true; k_milestone := false;
       k_res := 0; k_est := None; k_spent := None; k_start := None; k_end := None; k_minstart := None |} ].

Example src_calc_main_example :
  (exists ds l, src_forward_calc mx_cfg mx_w (map raw_dyn mx_w) = Ok (ds, l, [1; 2; 0; 3]%nat)
                /\ length l = 4%nat /\ d_start (nth 3 ds no_dyn) = d_end (nth 0 ds no_dyn)) /\
  (exists ds l, src_backward_calc mx_cfg mx_w (map raw_dyn mx_w) = Ok (ds, l, [3; 2; 1; 0]%nat)
                /\ d_start (getdl ds 3) = Some (19723 * DAY)) /\
  is_ok (forward mx_cfg mx_w) = true /\ is_ok (backward mx_cfg mx_w) = true /\
  roots mx_w = [0; 3]%nat /\
  src_forward_calc mx_cfg mx_w_future (map raw_dyn mx_w_future) = Err /\
  is_ok (src_backward_calc mx_cfg mx_w_future (map raw_dyn mx_w_future)) = true /\
  src_forward_calc mx_cfg mx_w_outside (map raw_dyn mx_w_outside) = Err /\
  src_backward_calc mx_cfg mx_w_outside (map raw_dyn mx_w_outside) = Err.
Proof.
  split; [eexists; eexists; split; [vm_compute; reflexivity|split; vm_compute; reflexivity]|].
  split; [eexists; eexists; split; vm_compute; reflexivity|].
  repeat split; vm_compute; reflexivity.
Qed.

Print Assumptions index_walk_rev_lit.
Print Assumptions src_forward_calc_rel.
Print Assumptions src_backward_calc_rel.
Print Assumptions src_forward_calc_Ok.
Print Assumptions src_backward_calc_Ok.
Print Assumptions src_forward_calc_outcome.
Print Assumptions src_backward_calc_outcome.
Print Assumptions src_calc_main_example.
