(* C08, part 6: the model's own output satisfies the per-task C08 statement in the oracle's wording
   (release day from the prerequisite leaves' ends, rows in rows() order), hence passes c08_task_b. *)
From PJ Require Import Base.Prelude Sched.Model Sched.LedgerProofs Sched.Primitives Sched.Machine
     Sched.Instances Sched.C03Proofs Sched.WfIn Sched.C08Run Sched.C08Step Sched.C08Proofs Sched.C08Leaves
     Sched.Check Sched.Oracles Sched.OracleProofs.

(* an observation that reports the state faithfully: rows in rows() order, the dates of every member *)
Definition c08_obs_agrees (w : list itask) (st : sst) (o : osch) : Prop :=
  o_rows o = model_rows st
  /\ forall p, k_ext (gett w p) = false ->
               o_start o p = d_start (getd st p) /\ o_end o p = d_end (getd st p).

(* the numbering convention of the abstract input: members first, in WBS order *)
Definition c08_members_first (w : list itask) : Prop := members w = seq 0 (length (members w)).

Lemma c08_obs_of_agrees w st : c08_members_first w -> c08_obs_agrees w st (obs_of w st).
Proof.
  intros Hm. split; [reflexivity|]. intros p Hext.
  assert (Hp : In p (members w)).
  { unfold members. apply filter_In. split; [|rewrite Hext; reflexivity].
    apply in_seq. pose proof (c08_in_range w p Hext). lia. }
  rewrite Hm in Hp. apply in_seq in Hp.
  assert (G : o_get (obs_of w st) p = dyn_obs (getd st p)).
  { unfold o_get, obs_of, model_tasks. cbn [o_tasks]. rewrite Hm.
    rewrite (nth_indep _ _ (dyn_obs (getd st 0%nat))) by (rewrite map_length, seq_length; lia).
    rewrite (map_nth (fun t => dyn_obs (getd st t))). rewrite seq_nth by lia. reflexivity. }
  unfold o_start, o_end. rewrite G. split; reflexivity.
Qed.

(* tasks outside the WBS are never calculated, they keep the dates they came with *)
Lemma c08_calc_member cfg w st p : forward cfg w = Ok st -> In p (calc st) -> k_ext (gett w p) = false.
Proof.
  intros Hf Hp. destruct (forward_is_run _ _ _ Hf) as [Hrun _].
  destruct (c08_run_split cfg w [] _ _ p Hrun Hp ltac:(intros [])) as [c [c' [_ [Hs _]]]].
  unfold fstep in Hs. destruct Hs. assumption.
Qed.

Lemma c08_ends_of_model cfg w st o ps :
  cap_nonneg cfg -> forward cfg w = Ok st -> c08_obs_agrees w st o ->
  ends_of o w ps = somes (map (fun p => d_end (getdl (dy st) p)) ps).
Proof.
  intros Hcn Hf [_ Ha]. unfold ends_of. f_equal. apply map_ext. intros p.
  destruct (k_ext (gett w p)) eqn:Hext.
  - destruct (forward_is_run _ _ _ Hf) as [Hrun _].
    pose proof (c08_inv_fsteps _ _ _ _ _ Hrun (c08_inv_init cfg w Hcn)) as [_ [Hu _]].
    unfold getdl. change (dy st) with (c_dy (core_of st)). rewrite (Hu p).
    + unfold init_dyn. rewrite Hext. reflexivity.
    + intro Hin. pose proof (c08_calc_member cfg w st p Hf Hin). congruence.
  - apply Ha. exact Hext.
Qed.

Lemma c08_zmax_list_fold l : forall x, zmax_list x l = fold_left Z.max l x.
Proof. induction l as [|y l IH]; intros x; simpl; [reflexivity | apply IH]. Qed.

Lemma c08_is_max_release pb nw ms E :
  c08_is_max (pb :: nw :: ms :: E) (Z.max (Z.max (fold_left Z.max E pb) nw) ms).
Proof.
  destruct (c08_zmax_list_spec E pb) as [A B]. rewrite c08_zmax_list_fold in A, B.
  set (m0 := fold_left Z.max E pb) in *. split.
  - assert (C : Z.max (Z.max m0 nw) ms = ms \/ Z.max (Z.max m0 nw) ms = nw \/ Z.max (Z.max m0 nw) ms = m0) by lia.
    destruct C as [C|[C|C]]; rewrite C.
    + right; right; left; reflexivity.
    + right; left; reflexivity.
    + destruct A as [A|A]; [left; exact A | right; right; right; exact A].
  - intros d [<-|[<-|[<-|Hd]]]; try lia.
    + specialize (B pb (or_introl eq_refl)). lia.
    + specialize (B d (or_intror Hd)). lia.
Qed.

(* the days of the task's rows: observed in rows() order = the ledger's, reversed *)
Lemma c08_days_model st o t : o_rows o = model_rows st ->
  map row_day (rows_of o t) = rev (map r_day (c08_own_rows (lg st) t)).
Proof.
  intros Hr. unfold rows_of. rewrite Hr. unfold model_rows. rewrite filter_map_row_obs, filter_rev, map_map.
  rewrite <- map_rev. reflexivity.
Qed.

Lemma c08_is_max_rev l m : c08_is_max (rev l) m <-> c08_is_max l m.
Proof.
  unfold c08_is_max. split; intros [A B]; split.
  - apply in_rev. exact A.
  - intros d Hd. apply B. apply -> in_rev. exact Hd.
  - apply -> in_rev. exact A.
  - intros d Hd. apply B. apply in_rev. exact Hd.
Qed.

Lemma c08_is_min_rev l m : c08_is_min (rev l) m <-> c08_is_min l m.
Proof.
  unfold c08_is_min. split; intros [A B]; split.
  - apply in_rev. exact A.
  - intros d Hd. apply B. apply -> in_rev. exact Hd.
  - apply -> in_rev. exact A.
  - intros d Hd. apply B. apply in_rev. exact Hd.
Qed.

Lemma c08_rev_nil {A} (l : list A) : rev l = [] <-> l = [].
Proof.
  split; intros H; [|subst; reflexivity]. rewrite <- (rev_involutive l), H. reflexivity.
Qed.

Theorem c08_model_task_statement cfg w st o t :
  cap_nonneg cfg -> WFin w -> forward cfg w = Ok st -> c08_obs_agrees w st o ->
  k_ext (gett w t) = false -> c08_task_statement cfg w o t.
Proof.
  intros Hcn Hw Hf Ha Hext Hfl.
  pose proof (c08_all_calculated cfg w st Hw Hf t Hext) as Hcalc.
  destruct (c08_at_final_calc cfg w st t Hcn Hf Hfl Hcalc) as [d1 [s [e [ext [new [l [Hs F]]]]]]].
  pose proof (cf_end_dyn _ _ _ _ _ _ _ _ _ _ F) as He.
  pose proof (C08_encode_holds cfg w st Hcn Hf t s e Hfl Hs He) as Henc.
  destruct Ha as [Hrows Hdates]. destruct (Hdates t Hext) as [Hos Hoe].
  pose proof (c08_days_model st o t Hrows) as Hdays.
  set (r := k_res (gett w t)) in *.
  exists s, e, (c08_release cfg w (dy st) t).
  (* the last day *)
  assert (Hld : exists ld, c08_lastday_is (map r_day (c08_own_rows (lg st) t)) s ld
                /\ (balance cfg = true -> forall d, day_of (c08_release cfg w (dy st) t) <= d < ld ->
                                                  booked (lg st) r d = cap cfg r d)).
  { destruct (balance cfg) eqn:Hb.
    - destruct (C08_tight_holds cfg w st Hcn Hb Hf t s Hfl Hs) as [ld [A B]]. exists ld. split; [exact A | intros _; exact B].
    - rewrite (c08_own_rows_final _ _ _ _ _ _ _ _ _ _ F).
      destruct (cf_end _ _ _ _ _ _ _ _ _ _ F) as [[-> _] | [x [rest [dl [A [B [C _]]]]]]].
      + exists (day_of s). split; [left; split; reflexivity | discriminate].
      + exists dl. split; [|discriminate]. right. split.
        * apply in_map_iff. exists x. split; [exact B | rewrite A; left; reflexivity].
        * intros d Hd. apply in_map_iff in Hd. destruct Hd as [y [<- Hy]]. apply C. exact Hy. }
  destruct Hld as [ld [Hld Htight]]. exists ld. cbv zeta.
  split; [rewrite Hos; exact Hs|]. split; [rewrite Hoe; exact He|]. split; [|split; [|split; [|split]]].
  - rewrite (c08_ends_of_model cfg w st o _ Hcn Hf (conj Hrows Hdates)).
    unfold c08_release. rewrite <- (c08_bound_leaves cfg w st t (pbound cfg) Hcn Hw Hf Hcalc).
    apply c08_is_max_release.
  - rewrite Hdays. destruct Hld as [[A B]|A]; [left | right].
    + split; [apply c08_rev_nil; exact A | exact B].
    + apply c08_is_max_rev. exact A.
  - intros Hb d Hd. rewrite Hrows. unfold model_rows. rewrite obooked_model. apply Htight; assumption.
  - intros _ Hne. rewrite Hdays in Hne |- *.
    assert (Hne' : c08_own_rows (lg st) t <> []).
    { intro E. apply Hne. rewrite E. reflexivity. }
    specialize (Henc Hne'). cbv zeta in Henc. fold r in Henc.
    destruct Henc as [first [last [Hmin [Hmax [_ [_ Hdt]]]]]].
    assert (last = ld).
    { destruct Hld as [[A _]|A]; [|eapply c08_is_max_unique; eauto].
      exfalso. apply Hne'. destruct (c08_own_rows (lg st) t); [reflexivity | discriminate]. }
    subst last. exists first. split; [apply c08_is_min_rev; exact Hmin|].
    rewrite Hrows. destruct (balance cfg).
    + destruct Hdt as [A [_ [B _]]]. split; assumption.
    + destruct Hdt as [A [B _]]. split; [exact A|]. unfold model_rows. rewrite obooked_t_model. exact B.
  - intros Hnow Hnil. rewrite Hdays, (c08_own_rows_final _ _ _ _ _ _ _ _ _ _ F) in Hnil.
    assert (En : new = []).
    { destruct new as [|x rest]; [reflexivity|]. exfalso.
      apply (f_equal (@length Z)) in Hnil. rewrite rev_length, map_length in Hnil. discriminate. }
    subst new. rewrite Hrows. exact (c08_norows_holds cfg w st t d1 s e ext l F Hnow).
Qed.

(* the model's output passes the per-task oracle *)
Theorem C08_model_passes_task_oracle cfg w st o :
  cap_nonneg cfg -> WFin w -> forward cfg w = Ok st -> c08_obs_agrees w st o ->
  forallb (c08_task_b cfg w o) (members w) = true.
Proof.
  intros Hcn Hw Hf Ha. apply forallb_forall. intros t Ht. apply c08_task_b_complete.
  apply (c08_model_task_statement cfg w st o t Hcn Hw Hf Ha).
  unfold members in Ht. apply filter_In in Ht. destruct Ht as [_ Ht]. apply negb_true_iff in Ht. exact Ht.
Qed.

(* tight with the release day of the oracle / of the property text: prerequisite leaves *)
Theorem C08_tight_leaves_holds cfg w st :
  cap_nonneg cfg -> WFin w -> balance cfg = true -> forward cfg w = Ok st ->
  forall t, k_ext (gett w t) = false -> free_leaf w t = true ->
    exists s ld, d_start (getd st t) = Some s
      /\ c08_lastday_is (map r_day (c08_own_rows (lg st) t)) s ld
      /\ forall d,
           day_of (Z.max (Z.max (bound_max (dy st) (prereq_leaves w t) (pbound cfg)) (now cfg))
                         (odflt (k_minstart (gett w t)) 0)) <= d < ld ->
           booked (lg st) (k_res (gett w t)) d = cap cfg (k_res (gett w t)) d.
Proof.
  intros Hcn Hw Hb Hf t Hext Hfl.
  pose proof (c08_all_calculated cfg w st Hw Hf t Hext) as Hcalc.
  destruct (c08_at_final_calc cfg w st t Hcn Hf Hfl Hcalc) as [d1 [s [e [ext [new [l [Hs F]]]]]]].
  destruct (C08_tight_holds cfg w st Hcn Hb Hf t s Hfl Hs) as [ld [A B]].
  exists s, ld. split; [exact Hs|]. split; [exact A|].
  rewrite (c08_bound_leaves cfg w st t (pbound cfg) Hcn Hw Hf Hcalc). exact B.
Qed.
