(* C09: the boolean oracle c09_task_b / c09_b means what the property says (reflection). *)
From PJ Require Import Base.Prelude Sched.Model Sched.LedgerProofs Sched.Primitives Sched.Machine Sched.Instances
     Sched.C03Proofs Sched.WfIn Sched.Check Sched.Oracles Sched.C09Base.

Lemma c09_in_zrange d lo n : In d (zrange lo n) <-> lo <= d < lo + Z.of_nat n.
Proof.
  revert lo; induction n as [|n IH]; intros lo; simpl zrange.
  - simpl. lia.
  - simpl In. rewrite IH. lia.
Qed.

(* every day strictly between lo and hi is fully booked on resource r *)
Definition c09_full (cfg : config) (rows : list obs_row) (r : nat) (lo hi : Z) : Prop :=
  forall d, lo < d < hi -> obooked rows r d = cap cfg r d.

Lemma c09_full_b cfg rows r lo hi :
  forallb (fun d => obooked rows r d =? cap cfg r d) (zrange (lo + 1) (Z.to_nat (hi - lo - 1))) = true
  <-> c09_full cfg rows r lo hi.
Proof.
  rewrite forallb_forall. unfold c09_full. split; intros H d Hd.
  - apply Z.eqb_eq. apply H. apply c09_in_zrange. lia.
  - apply Z.eqb_eq. apply H. apply c09_in_zrange in Hd. lia.
Qed.

(* a working leaf that reserved nothing (no work left), balancing on *)
Definition c09_norows_on (cfg : config) (rows : list obs_row) (r : nat) (s e : Z) : Prop :=
  let eday := day_of (e - 1) in
  s = e /\ 0 < cap cfg r eday
  /\ DAY * (eday + 1) - frac (obooked rows r eday) (cap cfg r eday) <= e
  /\ exists n, (n <= length rows)%nat
       /\ e = DAY * (eday + 1) - frac (obooked (firstn n rows) r eday) (cap cfg r eday).

(* ... balancing off *)
Definition c09_norows_off (cfg : config) (r : nat) (s e : Z) : Prop :=
  let eday := day_of (e - 1) in
  s = e /\ 0 < cap cfg r eday /\ e = DAY * (eday + 1).

Lemma c09_norows_on_b cfg rows r s e :
  (s =? e) && (0 <? cap cfg r (day_of (e - 1)))
  && (DAY * (day_of (e - 1) + 1) - frac (obooked rows r (day_of (e - 1))) (cap cfg r (day_of (e - 1))) <=? e)
  && existsb (fun n => e =? DAY * (day_of (e - 1) + 1)
                            - frac (obooked (firstn n rows) r (day_of (e - 1))) (cap cfg r (day_of (e - 1))))
             (seq 0 (S (length rows))) = true
  <-> c09_norows_on cfg rows r s e.
Proof.
  unfold c09_norows_on. cbv zeta.
  rewrite !andb_true_iff, Z.eqb_eq, Z.ltb_lt, Z.leb_le, existsb_exists.
  split.
  - intros [[[A B] C] [n [Hn En]]]. apply in_seq in Hn. apply Z.eqb_eq in En.
    split; [exact A|]. split; [exact B|]. split; [exact C|]. exists n. split; [lia | exact En].
  - intros [A [B [C [n [Hn En]]]]]. split; [split; [split|]|]; try assumption.
    exists n. split; [apply in_seq; lia | apply Z.eqb_eq; exact En].
Qed.

Lemma c09_norows_off_b cfg r s e :
  (s =? e) && (0 <? cap cfg r (day_of (e - 1))) && (e =? DAY * (day_of (e - 1) + 1)) = true
  <-> c09_norows_off cfg r s e.
Proof.
  unfold c09_norows_off. cbv zeta. rewrite !andb_true_iff, !Z.eqb_eq, Z.ltb_lt. tauto.
Qed.

Definition c09_task_statement (cfg : config) (w : list itask) (o : osch) (t : nat) : Prop :=
  exists s e, o_start o t = Some s /\ o_end o t = Some e
  (* not after the project end; before every dependant (own or inherited) that has a start *)
  /\ e <= pbound cfg
  /\ (forall s2, In s2 (starts_of o w (dependants w t)) -> e <= s2)
  (* and before every leaf below a dependant summary *)
  /\ (forall s2, In s2 (starts_of o w (dependant_leaves w t)) -> e <= s2)
  /\ (leafb w t = true -> k_milestone (gett w t) = false ->
      let r := k_res (gett w t) in
      let due := zmin_list (pbound cfg) (starts_of o w (dependants w t)) in
      let eday := day_of (e - 1) in
      (balance cfg = true ->
         c09_full cfg (o_rows o) r (day_of e) (day_of due)
         (* no work left, nothing reserved *)
         /\ (map row_day (rows_of o t) = [] -> c09_norows_on cfg (o_rows o) r s e)
         /\ forall d0 ds, map row_day (rows_of o t) = d0 :: ds ->
              let first := zmin_list d0 ds in
              let last := zmax_list d0 ds in
              c09_full cfg (o_rows o) r first last
              /\ s = DAY * (first + 1) - frac (obooked (upto_task_day (o_rows o) t first) r first) (cap cfg r first)
              /\ e = DAY * (eday + 1) - frac (obooked (before_task (o_rows o) t) r eday) (cap cfg r eday))
      /\ (balance cfg = false ->
          (map row_day (rows_of o t) = [] -> c09_norows_off cfg r s e)
          /\ forall d0 ds, map row_day (rows_of o t) = d0 :: ds ->
              let first := zmin_list d0 ds in
              s = DAY * (first + 1) - frac (obooked_t (o_rows o) r first t) (cap cfg r first)
              /\ e = DAY * (eday + 1))).

Theorem c09_task_b_spec cfg w o t : c09_task_b cfg w o t = true <-> c09_task_statement cfg w o t.
Proof.
  unfold c09_task_b, c09_task_statement.
  destruct (o_start o t) as [s|]; [|split; [discriminate | intros [s [e [H _]]]; discriminate]].
  destruct (o_end o t) as [e|]; [|split; [discriminate | intros [s' [e [_ [H _]]]]; discriminate]].
  split.
  - intros H. exists s, e. split; [reflexivity|]. split; [reflexivity|].
    apply andb_true_iff in H. destruct H as [H H3]. apply andb_true_iff in H. destruct H as [H H2'].
    apply andb_true_iff in H. destruct H as [H1 H2].
    apply Z.leb_le in H1. rewrite forallb_forall in H2. rewrite forallb_forall in H2'.
    split; [exact H1|]. split; [intros s2 Hs2; apply Z.leb_le; apply H2; exact Hs2|].
    split; [intros s2 Hs2; apply Z.leb_le; apply H2'; exact Hs2|].
    intros Hl Hm. rewrite Hl, Hm in H3. cbn [negb andb] in H3. cbv zeta.
    split.
    + intros Hb. rewrite Hb in H3. apply andb_true_iff in H3. destruct H3 as [H3 H4].
      apply c09_full_b in H3. split; [exact H3|]. split.
      * intros Ed. rewrite Ed in H4. apply c09_norows_on_b. exact H4.
      * intros d0 ds Ed. rewrite Ed in H4. apply andb_true_iff in H4. destruct H4 as [H4 H7].
        apply andb_true_iff in H4. destruct H4 as [H5 H6].
        apply c09_full_b in H5. apply Z.eqb_eq in H6. apply Z.eqb_eq in H7. auto.
    + intros Hb. rewrite Hb in H3. split.
      * intros Ed. rewrite Ed in H3. apply c09_norows_off_b. exact H3.
      * intros d0 ds Ed. rewrite Ed in H3.
        apply andb_true_iff in H3. destruct H3 as [H4 H5]. apply Z.eqb_eq in H4. apply Z.eqb_eq in H5. auto.
  - intros [s' [e' [Es [Ee [H1 [H2 [H2' H3]]]]]]]. inversion Es; subst s'. inversion Ee; subst e'. clear Es Ee.
    apply andb_true_iff. split; [apply andb_true_iff; split; [apply andb_true_iff; split|]|].
    + apply Z.leb_le. exact H1.
    + rewrite forallb_forall. intros s2 Hs2. apply Z.leb_le. apply H2. exact Hs2.
    + rewrite forallb_forall. intros s2 Hs2. apply Z.leb_le. apply H2'. exact Hs2.
    + destruct (leafb w t) eqn:Hl; [|reflexivity]. destruct (k_milestone (gett w t)) eqn:Hm; [reflexivity|].
      cbn [negb andb]. specialize (H3 eq_refl eq_refl). cbv zeta in H3. destruct H3 as [Hon Hoff].
      destruct (balance cfg) eqn:Hb.
      * destruct (Hon eq_refl) as [A [N B]]. apply andb_true_iff. split; [apply c09_full_b; exact A|].
        destruct (map row_day (rows_of o t)) as [|d0 ds] eqn:Ed; [apply c09_norows_on_b; apply N; reflexivity|].
        destruct (B d0 ds eq_refl) as [B1 [B2 B3]].
        apply andb_true_iff. split; [apply andb_true_iff; split|].
        -- apply c09_full_b. exact B1.
        -- apply Z.eqb_eq. exact B2.
        -- apply Z.eqb_eq. exact B3.
      * destruct (Hoff eq_refl) as [N B].
        destruct (map row_day (rows_of o t)) as [|d0 ds] eqn:Ed; [apply c09_norows_off_b; apply N; reflexivity|].
        destruct (B d0 ds eq_refl) as [B2 B3].
        apply andb_true_iff. split; apply Z.eqb_eq; assumption.
Qed.

(* the whole oracle: on a WBS without user-fixed dates, the statement for every member *)
Theorem c09_b_spec cfg w o :
  c09_b cfg w o = true <-> (no_user_dates w = true -> forall t, In t (members w) -> c09_task_statement cfg w o t).
Proof.
  unfold c09_b. destruct (no_user_dates w); cbn [negb orb].
  - rewrite forallb_forall. split.
    + intros H _ t Ht. apply c09_task_b_spec. apply H. exact Ht.
    + intros H t Ht. apply c09_task_b_spec. apply H; [reflexivity | exact Ht].
  - split; [intros _ H; discriminate | reflexivity].
Qed.
