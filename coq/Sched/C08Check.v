(* C08: the numbering convention of the abstract scheduler input that the order clause of C08 relies
   on, as a boolean the harness evaluates on every generated case: the member tasks are numbered in
   the order in which the forward pass walks the hierarchy (roots in order, every task followed by
   the subtrees of its children in order) - "WBS order".  Definitions only. *)
From PJ Require Import Base.Prelude Sched.Model.

Fixpoint c08_dfs (w : list itask) (fuel : nat) (u : nat) : list nat :=
  match fuel with
  | O => []
  | S f => u :: flat_map (c08_dfs w f) (k_children (gett w u))
  end.

Definition c08_walk (w : list itask) : list nat := flat_map (c08_dfs w (S (S (length w)))) (roots w).

Definition c08_preorder_b (w : list itask) : bool := list_eqb Nat.eqb (c08_walk w) (members w).

(* members come first in the table (tasks outside the WBS after them) *)
Definition c08_members_first_b (w : list itask) : bool :=
  list_eqb Nat.eqb (members w) (seq 0 (length (members w))).

(* evaluated by the harness on the abstract input of every generated case: 0 = both conventions hold *)
Definition c08_pre_code (w : list itask) : nat :=
  ((if c08_preorder_b w then 0 else 1) + (if c08_members_first_b w then 0 else 2))%nat.
