(* C08, part 5: what links the theorems about the model to the oracle's wording.
   - every member task of a well-formed WBS is calculated by a successful forward run;
   - roll-up: the end of a calculated summary is the latest end among its children, hence the
     latest end among the leaves below it: the release instant computed from the prerequisite tasks
     (as the pass does) equals the one computed from the prerequisite leaves (as the oracle does). *)
From PJ Require Import Base.Prelude Sched.Model Sched.LedgerProofs Sched.Primitives Sched.Machine
     Sched.Instances Sched.C03Proofs Sched.WfIn Sched.C08Run Sched.C08Step
     Sched.Check Sched.Oracles.

(* ---------- reading WFin ---------- *)
Lemma c08_wfin_member w t : WFin w -> k_ext (gett w t) = false -> wfin_member_b w t = true.
Proof.
  intros H Hext. unfold WFin, wfin_b in H. rewrite forallb_forall in H.
  specialize (H t). unfold is_ext in H. rewrite Hext in H. apply andb_true_iff in H; [tauto|].
  apply in_seq. pose proof (c08_in_range w t Hext). lia.
Qed.

Record c08_member_facts (w : list itask) (t : nat) : Prop := {
  mf_children : forall c, In c (k_children (gett w t)) -> k_ext (gett w c) = false /\ k_parent (gett w c) = Some t;
  mf_parent : forall p, k_parent (gett w t) = Some p -> k_ext (gett w p) = false /\ In t (k_children (gett w p));
  mf_acyclic : ~ In t (ancestors w (length w) t);
  mf_milestone : k_milestone (gett w t) = true -> is_leaf (gett w t) = true }.

Lemma c08_member_facts_of w t : WFin w -> k_ext (gett w t) = false -> c08_member_facts w t.
Proof.
  intros H Hext. pose proof (c08_wfin_member w t H Hext) as M. unfold wfin_member_b in M.
  repeat (apply andb_true_iff in M; let X := fresh "X" in destruct M as [M X]).
  (* the conjuncts are picked by their shape, not by their position *)
  assert (Hc : forallb (fun c => in_range w c && negb (is_ext w c)
                          && match k_parent (gett w c) with Some p => Nat.eqb p t | None => false end)
                       (k_children (gett w t)) = true) by assumption.
  assert (Hp : match k_parent (gett w t) with
               | Some p => in_range w p && negb (is_ext w p) && memb t (k_children (gett w p))
               | None => true end = true) by assumption.
  assert (Ha : negb (memb t (ancestors w (length w) t)) = true) by assumption.
  assert (Hm : negb (k_milestone (gett w t)) || is_leaf (gett w t) = true) by assumption.
  constructor.
  - intros c Hin. rewrite forallb_forall in Hc. specialize (Hc c Hin).
    apply andb_true_iff in Hc. destruct Hc as [Hc M3]. apply andb_true_iff in Hc. destruct Hc as [_ M2].
    unfold is_ext in M2. apply negb_true_iff in M2. split; [exact M2|].
    destruct (k_parent (gett w c)) as [p|]; [|discriminate]. apply Nat.eqb_eq in M3. subst. reflexivity.
  - intros p Hpp. rewrite Hpp in Hp. apply andb_true_iff in Hp. destruct Hp as [A B].
    apply andb_true_iff in A. destruct A as [_ A]. unfold is_ext in A. apply negb_true_iff in A.
    split; [exact A | apply memb_true; exact B].
  - apply negb_true_iff in Ha. apply memb_false. exact Ha.
  - intros Hmm. rewrite Hmm in Hm. simpl in Hm. exact Hm.
Qed.

(* ---------- the hierarchy is finite: every chain of parents ends within length w steps ---------- *)
Lemma c08_anc_members w : WFin w -> forall n t, k_ext (gett w t) = false ->
  forall a, In a (ancestors w n t) -> k_ext (gett w a) = false.
Proof.
  intros H. induction n as [|n IH]; intros t Hext a Ha; simpl in Ha; [destruct Ha|].
  destruct (k_parent (gett w t)) as [p|] eqn:Hp; [|destruct Ha].
  destruct (mf_parent _ _ (c08_member_facts_of w t H Hext) p Hp) as [Hpe _].
  destruct Ha as [<-|Ha]; [exact Hpe | eapply IH; eauto].
Qed.

Lemma c08_anc_mono w : forall m n t x, (m <= n)%nat -> In x (ancestors w m t) -> In x (ancestors w n t).
Proof.
  induction m as [|m IH]; intros n t x Hmn Hx; simpl in Hx; [destruct Hx|].
  destruct n as [|n]; [lia|]. simpl. destruct (k_parent (gett w t)) as [p|]; [|destruct Hx].
  destruct Hx as [<-|Hx]; [left; reflexivity | right; apply (IH n); [lia | exact Hx]].
Qed.

Lemma c08_anc_nodup w : WFin w -> forall n t, (n <= length w)%nat -> k_ext (gett w t) = false ->
  NoDup (t :: ancestors w n t).
Proof.
  intros H. induction n as [|n IH]; intros t Hn Hext.
  - simpl. constructor; [intros [] | constructor].
  - constructor.
    + intro Hin. apply (mf_acyclic _ _ (c08_member_facts_of w t H Hext)).
      apply (c08_anc_mono w (S n) (length w)); assumption.
    + simpl. destruct (k_parent (gett w t)) as [p|] eqn:Hp; [|constructor].
      apply IH; [lia|]. apply (mf_parent _ _ (c08_member_facts_of w t H Hext) p Hp).
Qed.

Lemma c08_anc_short w t : WFin w -> k_ext (gett w t) = false ->
  (length (ancestors w (length w) t) < length w)%nat.
Proof.
  intros H Hext. pose proof (c08_anc_nodup w H (length w) t ltac:(lia) Hext) as Hnd.
  assert (Hincl : incl (t :: ancestors w (length w) t) (seq 0 (length w))).
  { intros a [<-|Ha]; apply in_seq.
    - pose proof (c08_in_range w t Hext). lia.
    - pose proof (c08_in_range w a (c08_anc_members w H _ t Hext a Ha)). lia. }
  pose proof (NoDup_incl_length Hnd Hincl) as L. simpl in L. rewrite seq_length in L. lia.
Qed.

(* ---------- a calculated task has all its children calculated ---------- *)
Definition c08_closed (w : list itask) (c : core) : Prop :=
  forall p, In p (c_calc c) -> forall ch, In ch (k_children (gett w p)) -> ready w c ch.

Lemma c08_closed_fstep cfg w c t c' : c08_closed w c -> fstep cfg w c t c' -> c08_closed w c'.
Proof.
  intros Hc Hs. pose proof Hs as Hs'. unfold fstep in Hs. destruct Hs as [c t r _ _ _ Hk _].
  intros p Hp ch Hch. simpl in Hp.
  assert (R : ready w c ch) by (destruct Hp as [<-|Hp]; [apply Hk; exact Hch | eapply Hc; eauto]).
  destruct R as [R|R]; [left; exact R | right; simpl; right; exact R].
Qed.

Lemma c08_closed_fsteps cfg w I a b : fsteps cfg w I a b -> c08_closed w a -> c08_closed w b.
Proof.
  intros Hs. unfold fsteps in Hs.
  apply (gsteps_inv w (fdeps w) (fkids w) (fbnd cfg) (fwd_compute cfg w) (c08_closed w) I a b); [|exact Hs].
  intros c t c' Hi Hst. eapply c08_closed_fstep; eauto.
Qed.

Lemma c08_calc_of_chain w c : WFin w -> c08_closed w c -> (forall t, In t (roots w) -> ready w c t) ->
  forall n t, k_ext (gett w t) = false -> (length (ancestors w n t) < n)%nat -> In t (c_calc c).
Proof.
  intros H Hcl Hroots. induction n as [|n IH]; intros t Hext Hlen; [lia|].
  simpl in Hlen. destruct (k_parent (gett w t)) as [p|] eqn:Hp.
  - destruct (mf_parent _ _ (c08_member_facts_of w t H Hext) p Hp) as [Hpe Hch].
    assert (Hpc : In p (c_calc c)) by (apply IH; [exact Hpe | simpl in Hlen; lia]).
    destruct (Hcl p Hpc t Hch) as [R|R]; [congruence | exact R].
  - destruct (Hroots t) as [R|R]; [|congruence | exact R].
    unfold roots, members. apply filter_In. split; [|rewrite Hp; reflexivity].
    apply filter_In. split; [|rewrite Hext; reflexivity].
    apply in_seq. pose proof (c08_in_range w t Hext). lia.
Qed.

Theorem c08_all_calculated cfg w st : WFin w -> forward cfg w = Ok st ->
  forall t, k_ext (gett w t) = false -> In t (calc st).
Proof.
  intros H Hf t Hext. destruct (forward_is_run _ _ _ Hf) as [Hrun [Hroots _]].
  apply (c08_calc_of_chain w (core_of st) H) with (n := length w).
  - apply (c08_closed_fsteps _ _ _ _ _ Hrun). intros p [].
  - exact Hroots.
  - exact Hext.
  - apply c08_anc_short; assumption.
Qed.

(* ---------- roll-up of ends ---------- *)
Definition c08_rolled (w : list itask) (c : core) : Prop :=
  forall p, In p (c_calc c) -> k_milestone (gett w p) = false -> is_leaf (gett w p) = false ->
    exists x xs, somes (map (fun q => d_end (getdl (c_dy c) q)) (k_children (gett w p))) = x :: xs
                 /\ d_end (getdl (c_dy c) p) = Some (fold_left Z.max xs x).

Lemma c08_init_summary k : k_ext k = false -> is_leaf k = false -> init_dyn k = no_dyn.
Proof. intros A B. unfold init_dyn. rewrite A, B. reflexivity. Qed.

Lemma c08_rolled_fstep cfg w c t c' :
  c08_inv cfg w c -> c08_closed w c -> c08_rolled w c -> fstep cfg w c t c' -> c08_rolled w c'.
Proof.
  intros [_ [Hu Hlen]] Hcl Hr Hs. unfold fstep in Hs. destruct Hs as [c t r Hext Hnot _ Hk Hc]. destruct r as [ds' l'].
  assert (Hsame : forall q, ready w c q -> getdl ds' q = getdl (c_dy c) q).
  { intros q Hq. unfold getdl. apply (fwd_compute_frame _ _ _ _ _ _ _ _ Hc). intros ->.
    destruct Hq as [Hq|Hq]; [congruence | contradiction]. }
  intros p Hp Hm Hl. cbn [c_dy c_calc fst] in *.
  assert (Hkids : forall q, In q (k_children (gett w p)) -> ready w c q).
  { intros q Hq. destruct Hp as [<-|Hp]; [apply Hk; exact Hq | eapply Hcl; eauto]. }
  rewrite (map_ext_in _ (fun q => d_end (getdl (c_dy c) q))) by (intros q Hq; rewrite (Hsame q (Hkids q Hq)); reflexivity).
  destruct Hp as [<-|Hp].
  - apply fwd_compute_inv in Hc. destruct Hc as [[Hm' _]|[_ [start [en [est [spent [Hds [_ [_ [_ E4]]]]]]]]]]; [congruence|].
    unfold fwd_end_eq in E4.
    assert (Hdn : getdl (c_dy c) t = no_dyn).
    { unfold getdl. rewrite (Hu t Hnot). apply c08_init_summary; assumption. }
    rewrite Hdn, Hl in E4. cbn [d_end no_dyn] in E4. rewrite map_map in E4.
    destruct (somes (map (fun q => d_end (getdl (c_dy c) q)) (k_children (gett w t)))) as [|x xs]; [discriminate|].
    inversion E4; subst l' en. exists x, xs. split; [reflexivity|].
    unfold getdl. rewrite Hds, nth_set_nth_same; [reflexivity|].
    rewrite Hlen. apply c08_in_range. exact Hext.
  - rewrite (Hsame p (or_intror Hp)). apply Hr; assumption.
Qed.

Definition c08_inv2 (cfg : config) (w : list itask) (c : core) : Prop :=
  c08_inv cfg w c /\ c08_closed w c /\ c08_rolled w c.

Lemma c08_inv2_fsteps cfg w I a b : fsteps cfg w I a b -> c08_inv2 cfg w a -> c08_inv2 cfg w b.
Proof.
  intros Hs. unfold fsteps in Hs.
  apply (gsteps_inv w (fdeps w) (fkids w) (fbnd cfg) (fwd_compute cfg w) (c08_inv2 cfg w) I a b); [|exact Hs].
  intros c t c' [A [B C]] Hst. split; [eapply c08_inv_fstep; eauto|].
  split; [eapply c08_closed_fstep; eauto | eapply c08_rolled_fstep; eauto].
Qed.

Lemma c08_inv2_final cfg w st : cap_nonneg cfg -> forward cfg w = Ok st -> c08_inv2 cfg w (core_of st).
Proof.
  intros Hcn Hf. destruct (forward_is_run _ _ _ Hf) as [Hrun _].
  apply (c08_inv2_fsteps _ _ _ _ _ Hrun). split; [apply c08_inv_init; exact Hcn|].
  split; intros p [].
Qed.

(* ---------- latest end over the leaves = latest end over the tasks ---------- *)
Lemma c08_somes_app {A} (a b : list (option A)) : somes (a ++ b) = somes a ++ somes b.
Proof. induction a as [|[x|] a IH]; simpl; [reflexivity | rewrite IH; reflexivity | exact IH]. Qed.

Lemma c08_bound_max_app ds a b b0 : bound_max ds (a ++ b) b0 = bound_max ds b (bound_max ds a b0).
Proof. unfold bound_max. rewrite map_app, c08_somes_app, fold_left_app. reflexivity. Qed.

Lemma c08_fold_max_out xs : forall a b, fold_left Z.max xs (Z.max a b) = Z.max a (fold_left Z.max xs b).
Proof. induction xs as [|y xs IH]; intros a b; simpl; [reflexivity|]. rewrite <- Z.max_assoc. apply IH. Qed.

Lemma c08_bound_max_flat ds (g : nat -> list nat) l :
  (forall q, In q l -> forall b0, bound_max ds (g q) b0 = bound_max ds [q] b0) ->
  forall b0, bound_max ds (flat_map g l) b0 = bound_max ds l b0.
Proof.
  induction l as [|q l IH]; intros H b0; [reflexivity|]. simpl flat_map.
  rewrite c08_bound_max_app, (H q (or_introl eq_refl)), IH by (intros q' Hq'; apply H; right; exact Hq').
  change (q :: l) with ([q] ++ l). rewrite c08_bound_max_app. reflexivity.
Qed.

Lemma c08_leaves_roll cfg w c : WFin w -> c08_inv2 cfg w c ->
  forall f p b0, ready w c p -> bound_max (c_dy c) (leaves_of w f p) b0 = bound_max (c_dy c) [p] b0.
Proof.
  intros H [_ [Hcl Hr]]. induction f as [|f IH]; intros p b0 Hp; [reflexivity|]. cbn [leaves_of].
  destruct (k_children (gett w p)) as [|c0 cs] eqn:Hch; [reflexivity|].
  destruct (k_ext (gett w p)) eqn:Hext; [reflexivity|].
  destruct Hp as [Hp|Hp]; [congruence|].
  rewrite c08_bound_max_flat.
  2:{ intros q Hq b1. apply IH. apply (Hcl p Hp). rewrite Hch. exact Hq. }
  assert (Hl : is_leaf (gett w p) = false) by (unfold is_leaf; rewrite Hch; reflexivity).
  assert (Hm : k_milestone (gett w p) = false).
  { destruct (k_milestone (gett w p)) eqn:E; [|reflexivity].
    rewrite (mf_milestone _ _ (c08_member_facts_of w p H Hext) E) in Hl. discriminate. }
  destruct (Hr p Hp Hm Hl) as [x [xs [A B]]]. rewrite Hch in A.
  unfold bound_max. rewrite A. cbn [map somes]. unfold getdl in B |- *. rewrite B. cbn [somes fold_left].
  apply c08_fold_max_out.
Qed.

Theorem c08_bound_leaves cfg w st t b0 :
  cap_nonneg cfg -> WFin w -> forward cfg w = Ok st -> In t (calc st) ->
  bound_max (dy st) (prereq_leaves w t) b0 = bound_max (dy st) (prereqs w t) b0.
Proof.
  intros Hcn H Hf Ht. pose proof (c08_inv2_final cfg w st Hcn Hf) as Hi.
  destruct (forward_is_run _ _ _ Hf) as [Hrun _].
  unfold prereq_leaves. apply (c08_bound_max_flat (dy st)). intros q Hq b1.
  apply (c08_leaves_roll cfg w (core_of st) H Hi).
  (* what t waited for was ready when t was calculated *)
  destruct (c08_run_split cfg w [] _ _ t Hrun Ht ltac:(intros [])) as [c [c' [_ [Hstep Hcb]]]].
  unfold fstep in Hstep. destruct Hstep as [c0 t0 r0 _ _ Hd _ _].
  assert (R : ready w c0 q) by (apply Hd; exact Hq).
  eapply (ready_mono w (fdeps w) (fkids w) (fbnd cfg) (fwd_compute cfg w)); [exact Hcb|].
  destruct R as [R|R]; [left; exact R | right; simpl; right; exact R].
Qed.
