(* WBS.start / WBS.end of wbs.py (earliest start / latest end over the root tasks), translated on every run (gen/SrcPass.v:
   src_wbs_start, src_wbs_end) and equal to the model's [wbs_start] / [wbs_end] of Sched/C07Proofs.v for every WBS and every
   assignment of dates: the statement of C07 about WBS.start / WBS.end (C07_wbs) is about this text. *)
From PJ Require Import Base.Prelude Sched.Model Sched.C07Proofs gen.SrcPass.
Open Scope Z_scope.

Theorem src_wbs_start_eq : forall w ds, src_wbs_start w ds = Ok (wbs_start w (ds_start ds)).
Proof.
  intros w ds. unfold src_wbs_start, wbs_start, ds_start, omin. cbv zeta.
  destruct (somes (map (fun t => d_start (getdl ds t)) (roots w))) as [|x xs] eqn:E.
  - reflexivity.
  - replace (Z.of_nat (length (x :: xs)) =? 0) with false by (symmetry; apply Z.eqb_neq; cbn [length]; lia).
    rewrite fold_min_zmin. reflexivity.
Qed.

Theorem src_wbs_end_eq : forall w ds, src_wbs_end w ds = Ok (wbs_end w (ds_end ds)).
Proof.
  intros w ds. unfold src_wbs_end, wbs_end, ds_end, omax. cbv zeta.
  destruct (somes (map (fun t => d_end (getdl ds t)) (roots w))) as [|x xs] eqn:E.
  - reflexivity.
  - replace (Z.of_nat (length (x :: xs)) =? 0) with false by (symmetry; apply Z.eqb_neq; cbn [length]; lia).
    rewrite fold_max_zmax. reflexivity.
Qed.

Print Assumptions src_wbs_start_eq.
Print Assumptions src_wbs_end_eq.
