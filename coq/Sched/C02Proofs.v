(* C02 - forward schedules respect prerequisites.

   Invariant [inv02] of the abstract machine that the forward pass refines (Sched/Machine.v):
   every calculated task t carries dates that satisfy, relative to the dates of what it waited for,
     milestone: start = end = max (project start :: ends of prereqs w t);
     leaf with no user start: the release instant T0 = max (max (max pstart (ends of prereqs)) now) min_start
       is not on a later day than the start (when no user end clamps it) nor than any reserved day;
     summary: end = max of the children's ends (roll-up), attained by a child;
   and - because dates of calculated tasks are frozen - this stays true until the end of the run.
   The pass waits for [prereqs w t] = own predecessors ++ predecessors of every ancestor, which may be
   summary tasks; the roll-up clause carries every bound down to all descendants ([below]) - in
   particular to the leaf descendants the property speaks about ([leaves_of], the oracle's expansion).
   Needs: WFin (milestones are leaves, children are members, parent chain finite - every member is
   calculated, C06Proofs) and non-negative capacities (ledger amounts are positive: the start
   encodes a non-negative share of its day). *)
From PJ Require Import Base.Prelude Sched.Model Sched.LedgerProofs Sched.Primitives Sched.Machine
     Sched.Instances Sched.Check Sched.Oracles Sched.WfIn Sched.C03Proofs Sched.OracleProofs Sched.C06Proofs.

(* ---------- lists, maxima ---------- *)
Lemma c02_in_somes {A} (l : list (option A)) v : In v (somes l) <-> In (Some v) l.
Proof.
  induction l as [|[x|] l IH]; simpl; [tauto| |].
  - rewrite IH. split; intros [H|H]; auto; left; congruence.
  - rewrite IH. split; [auto | intros [H|H]; [discriminate | exact H]].
Qed.

Lemma c02_fold_max_ub l : forall b x, In x l -> x <= fold_left Z.max l b.
Proof.
  induction l as [|y l IH]; intros b x Hx; [destruct Hx|]. simpl. destruct Hx as [->|Hx].
  - pose proof (c06_fold_max_ge l (Z.max b x)). lia.
  - apply IH. exact Hx.
Qed.

Lemma c02_fold_max_in l : forall b, fold_left Z.max l b = b \/ In (fold_left Z.max l b) l.
Proof.
  induction l as [|x l IH]; intros b; simpl; [left; reflexivity|].
  destruct (IH (Z.max b x)) as [E|E]; [|right; right; exact E].
  rewrite E. destruct (Z.max_spec b x) as [[_ ->]|[_ ->]]; [right; left; reflexivity | left; reflexivity].
Qed.

Lemma c02_zmax_fold l : forall x, zmax_list x l = fold_left Z.max l x.
Proof. induction l as [|y l IH]; intros x; simpl; [reflexivity | apply IH]. Qed.

Lemma c02_max_same b l1 l2 :
  (forall x, In x l1 -> exists y, In y l2 /\ x <= y) ->
  (forall y, In y l2 -> exists x, In x l1 /\ y <= x) ->
  fold_left Z.max l1 b = fold_left Z.max l2 b.
Proof.
  intros H12 H21.
  assert (A : forall la lb, (forall x, In x la -> exists y, In y lb /\ x <= y) ->
                            fold_left Z.max la b <= fold_left Z.max lb b).
  { intros la lb H. destruct (c02_fold_max_in la b) as [E|E].
    - rewrite E. apply c06_fold_max_ge.
    - destruct (H _ E) as [y [Hy Hle]]. pose proof (c02_fold_max_ub lb b y Hy). lia. }
  pose proof (A l1 l2 H12). pose proof (A l2 l1 H21). lia.
Qed.

Lemma c02_bound_max_end ds pre b p e :
  In p pre -> d_end (getdl ds p) = Some e -> e <= bound_max ds pre b.
Proof.
  intros Hp He. unfold bound_max. apply c02_fold_max_ub. apply c02_in_somes.
  rewrite <- He. apply (in_map (fun p => d_end (getdl ds p))). exact Hp.
Qed.

Lemma c02_bound_max_in ds pre b :
  bound_max ds pre b = b \/ exists p, In p pre /\ d_end (getdl ds p) = Some (bound_max ds pre b).
Proof.
  unfold bound_max. destruct (c02_fold_max_in (somes (map (fun p => d_end (getdl ds p)) pre)) b) as [E|E].
  - left. exact E.
  - right. apply c02_in_somes in E. apply in_map_iff in E. destruct E as [p [E Hp]]. exists p. split; assumption.
Qed.

(* ---------- descendants ---------- *)
(* q is p or a task below the member p in the hierarchy *)
Inductive below (w : list itask) : nat -> nat -> Prop :=
| below_refl p : below w p p
| below_child p ch q :
    k_ext (gett w p) = false -> In ch (k_children (gett w p)) -> below w ch q -> below w p q.

Lemma c02_leaves_below w : forall fuel p q, In q (leaves_of w fuel p) -> below w p q.
Proof.
  induction fuel as [|f IH]; intros p q; simpl.
  - intros [<-|[]]. constructor.
  - destruct (k_children (gett w p)) as [|c cs] eqn:Hc.
    + intros [<-|[]]. constructor.
    + destruct (k_ext (gett w p)) eqn:He.
      * intros [<-|[]]. constructor.
      * intros H. change (In q (flat_map (leaves_of w f) (c :: cs))) in H.
        apply in_flat_map in H. destruct H as [ch [Hch Hq]].
        eapply below_child; [exact He | rewrite Hc; exact Hch | apply IH; exact Hq].
Qed.

Lemma c02_leaves_ext w fuel p : k_ext (gett w p) = true -> leaves_of w fuel p = [p].
Proof. intros He. destruct fuel; simpl; [reflexivity|]. destruct (k_children (gett w p)); [reflexivity|]. rewrite He. reflexivity. Qed.

Definition dend (ds : list dyn) (p : nat) : option Z := d_end (nth p ds no_dyn).

Section C02.
Variable cfg : config.
Variable w : list itask.
Hypothesis Hcap : cap_nonneg cfg.
Hypothesis Hwf : WFin w.

(* the instant a leaf without a user start is released at *)
Definition c02_T0 (ds : list dyn) (t : nat) : Z :=
  Z.max (Z.max (bound_max ds (prereqs w t) (pbound cfg)) (now cfg)) (odflt (k_minstart (gett w t)) 0).

Definition c02_done (ds : list dyn) (l : ledger) (t : nat) : Prop :=
  exists s e es sp, nth t ds no_dyn = mkd s e es sp /\
  (k_milestone (gett w t) = true -> s = bound_max ds (prereqs w t) (pbound cfg) /\ e = s) /\
  (k_milestone (gett w t) = false -> is_leaf (gett w t) = true -> k_start (gett w t) = None ->
     (forall x, In x l -> r_task x = t -> day_of (c02_T0 ds t) <= r_day x)
     /\ (k_end (gett w t) = None -> day_of (c02_T0 ds t) <= day_of s)) /\
  (is_leaf (gett w t) = false ->
     (forall ch ec, In ch (k_children (gett w t)) -> dend ds ch = Some ec -> ec <= e)
     /\ exists ch, In ch (k_children (gett w t)) /\ dend ds ch = Some e).

Lemma c02_done_ext ds l ds' l' t :
  nth t ds' no_dyn = nth t ds no_dyn ->
  (forall p, In p (prereqs w t) -> nth p ds' no_dyn = nth p ds no_dyn) ->
  (forall ch, In ch (k_children (gett w t)) -> nth ch ds' no_dyn = nth ch ds no_dyn) ->
  (forall x, In x l' -> r_task x = t -> In x l) ->
  c02_done ds l t -> c02_done ds' l' t.
Proof.
  intros Ht Hp Hc Hl [s [e [es [sp [Hn [Hm [Hlf Hsum]]]]]]].
  assert (HB : bound_max ds' (prereqs w t) (pbound cfg) = bound_max ds (prereqs w t) (pbound cfg))
    by (apply bound_max_ext; exact Hp).
  assert (HT : c02_T0 ds' t = c02_T0 ds t) by (unfold c02_T0; rewrite HB; reflexivity).
  exists s, e, es, sp. split; [rewrite Ht; exact Hn|]. split; [rewrite HB; exact Hm|]. split.
  - intros A B C. destruct (Hlf A B C) as [R S]. rewrite HT. split; [|exact S].
    intros x Hx Hxt. apply R; [apply Hl; assumption | exact Hxt].
  - intros A. destruct (Hsum A) as [R1 [ch [Hch R2]]]. split.
    + intros c0 ec Hc0 Hec. unfold dend in Hec. rewrite (Hc c0 Hc0) in Hec. eapply R1; eauto.
    + exists ch. split; [exact Hch|]. unfold dend. rewrite (Hc ch Hch). exact R2.
Qed.

(* the calculation of one task establishes its clause *)
Lemma c02_compute_done ds l t ds' l' :
  ledger_ok (cap cfg) (balance cfg) l ->
  k_ext (gett w t) = false -> (t < length ds)%nat ->
  nth t ds no_dyn = init_dyn (gett w t) ->
  (forall x, In x l -> r_task x <> t) ->
  ~ In t (prereqs w t) -> ~ In t (k_children (gett w t)) ->
  fwd_compute cfg w ds l t (bound_max ds (prereqs w t) (pbound cfg)) = Ok (ds', l') ->
  c02_done ds' l' t.
Proof.
  intros Hok Hext Ht Hinit Hnr Hnp Hnc Hcomp.
  set (B := bound_max ds (prereqs w t) (pbound cfg)) in *.
  assert (Hfr : forall p, p <> t -> nth p ds' no_dyn = nth p ds no_dyn) by (eapply fwd_compute_frame; eauto).
  assert (HB : bound_max ds' (prereqs w t) (pbound cfg) = B).
  { apply bound_max_ext. intros p Hp. apply Hfr. intro E; subst; contradiction. }
  assert (HT : c02_T0 ds' t = Z.max (Z.max B (now cfg)) (odflt (k_minstart (gett w t)) 0))
    by (unfold c02_T0; rewrite HB; reflexivity).
  assert (Hdend : forall ch, In ch (k_children (gett w t)) -> dend ds' ch = d_end (getdl ds ch)).
  { intros ch Hch. unfold dend, getdl. rewrite Hfr; [reflexivity | intro E; subst; contradiction]. }
  pose proof (c06_wfin_member w t Hwf Hext) as Hm.
  apply fwd_compute_inv in Hcomp.
  destruct Hcomp as [[Hmil [Eds El]] | [Hmil [s [e [es [sp [Eds [Hs [_ [_ He]]]]]]]]]].
  - (* milestone *)
    exists B, B, 0, 0. split; [rewrite Eds; apply nth_set_nth_same; exact Ht|].
    split; [intros _; split; [symmetry; exact HB | reflexivity]|].
    split; [intros E; congruence|].
    intros Hl. rewrite (mo_milestone _ _ Hm Hmil) in Hl. discriminate.
  - exists s, e, es, sp. split; [rewrite Eds; apply nth_set_nth_same; exact Ht|].
    split; [intros E; congruence|]. split.
    + (* leaf without a user start *)
      intros _ Hleaf Hks.
      assert (Hdn : getdl ds t = {| d_start := k_start (gett w t); d_end := k_end (gett w t);
                                    d_est := k_est (gett w t); d_spent := k_spent (gett w t) |}).
      { unfold getdl. rewrite Hinit. unfold init_dyn. rewrite Hext, Hleaf. reflexivity. }
      unfold fwd_start_eq in Hs. rewrite Hdn in Hs. cbn [d_start d_end] in Hs. rewrite Hks, Hleaf in Hs.
      fold B in Hs.
      destruct (fwd_nearest cfg l (k_res (gett w t)) t
                  (Z.max (Z.max B (now cfg)) (odflt (k_minstart (gett w t)) 0))) as [s0| |] eqn:Hn;
        cbn [bind] in Hs; try discriminate.
      destruct (fwd_nearest_spec _ _ _ _ _ _ Hn) as [d [Hd1 [Hfree [Hs0 _]]]].
      assert (Hd2 : d <= day_of s0).
      { apply day_of_le_iff. rewrite Hs0. unfold is_free in Hfree.
        pose proof (used_nonneg (balance cfg) l (k_res (gett w t)) d t (proj1 Hok)) as Hu.
        assert (Hcp : 0 < cap cfg (k_res (gett w t)) d) by lia.
        pose proof (frac_nonneg _ _ Hu Hcp). lia. }
      unfold fwd_end_eq in He. rewrite Hdn in He. cbn [d_end] in He.
      destruct (k_end (gett w t)) as [ke|] eqn:Hke.
      * inversion He; subst l' e. split; [|intros E; discriminate].
        intros x Hx Hxt. exfalso. exact (Hnr x Hx Hxt).
      * injection Hs as <-. rewrite Hleaf in He.
        destruct (fwd_shift cfg l (k_res (gett w t)) t (Z.max (Z.max s0 (now cfg)) (pbound cfg)) (Z.max (es - sp) 0))
          as [[l2 e2]| |] eqn:Hsh; cbn [bind] in He; try discriminate.
        inversion He; subst l2 e. clear He.
        split; [|intros _; rewrite HT; lia].
        intros x Hx Hxt. rewrite HT.
        destruct (fwd_shift_spec _ _ _ _ _ _ _ _ Hsh ltac:(lia)) as [[_ [El _]] | [_ [new [dl [R _]]]]].
        -- subst l'. exfalso. exact (Hnr x Hx Hxt).
        -- destruct R as [Ra Rr _ _ _ _ _ _]. rewrite Ra in Hx. apply in_app_or in Hx.
           destruct Hx as [Hx|Hx]; [|exfalso; exact (Hnr x Hx Hxt)].
           destruct (Rr x Hx) as [_ [_ [_ [k [Hk [Hday _]]]]]].
           pose proof (day_of_mono s0 (Z.max (Z.max s0 (now cfg)) (pbound cfg)) ltac:(lia)). lia.
    + (* summary: roll-up *)
      intros Hleaf.
      assert (Hdn : getdl ds t = no_dyn).
      { unfold getdl. rewrite Hinit. unfold init_dyn. rewrite Hext, Hleaf. reflexivity. }
      unfold fwd_end_eq in He. rewrite Hdn in He. cbn [d_end no_dyn] in He. rewrite Hleaf in He.
      destruct (somes (map d_end (map (getdl ds) (k_children (gett w t))))) as [|x xs] eqn:Hso; [discriminate|].
      inversion He; subst l' e. clear He. rewrite map_map in Hso. split.
      * intros ch ec Hch Hec. rewrite (Hdend ch Hch) in Hec.
        assert (Hin : In ec (x :: xs)).
        { rewrite <- Hso. apply c02_in_somes. rewrite <- Hec. apply (in_map (fun c => d_end (getdl ds c))). exact Hch. }
        destruct Hin as [<-|Hin]; [apply c06_fold_max_ge | apply c02_fold_max_ub; exact Hin].
      * assert (Hin : In (fold_left Z.max xs x) (x :: xs)).
        { destruct (c02_fold_max_in xs x) as [E|E]; [left; symmetry; exact E | right; exact E]. }
        rewrite <- Hso in Hin. apply c02_in_somes in Hin. apply in_map_iff in Hin.
        destruct Hin as [ch [E Hch]]. exists ch. split; [exact Hch|]. rewrite (Hdend ch Hch). exact E.
Qed.

(* ---------- the invariant ---------- *)
Definition inv02 (c : core) : Prop :=
  inv03 cfg w c /\ fwd_basic w c
  /\ (forall t, In t (c_calc c) -> c02_done (c_dy c) (c_lg c) t)
  /\ (forall t, In t (c_calc c) ->
        exists q, In q (c_calc c) /\ below w t q /\ is_leaf (gett w q) = true
                  /\ dend (c_dy c) q = dend (c_dy c) t).

Lemma inv02_init : inv02 (init_core w).
Proof.
  split; [apply inv03_init; exact Hcap|]. split; [apply c06_basic_init|]. split; intros t [].
Qed.

Lemma inv02_step c t c' : inv02 c -> fstep cfg w c t c' -> inv02 c'.
Proof.
  intros [H3 [Hb [Hd Hl]]] Hs.
  pose proof (inv03_fstep cfg w c t c' H3 Hs) as H3'.
  pose proof (c06_fwd_basic_step cfg w c t c' Hb Hs) as Hb'.
  split; [exact H3'|]. split; [exact Hb'|]. clear H3' Hb'.
  unfold fstep in Hs. destruct Hs as [c t r Hext Hnot Hdeps Hkids Hcomp]. destruct r as [ds' l'].
  cbn [fst snd c_dy c_lg c_calc].
  destruct Hb as [Hlen [Hun [Hcl Hdt]]]. destruct H3 as [Hok Hrows].
  assert (Hne : forall p, ready w c p -> p <> t).
  { intros p [E|E] X; subst p; [congruence | contradiction]. }
  assert (Hfr : forall p, p <> t -> nth p ds' no_dyn = nth p (c_dy c) no_dyn) by (eapply fwd_compute_frame; eauto).
  assert (Hnr : forall x, In x (c_lg c) -> r_task x <> t).
  { intros x Hx E. destruct (Hrows x Hx) as [A _]. rewrite E in A. contradiction. }
  destruct (fwd_compute_ledger _ _ _ _ _ _ _ _ Hcomp Hok) as [[new [Ea Hnew]] _].
  assert (Hdone : c02_done ds' l' t).
  { apply (c02_compute_done (c_dy c) (c_lg c) t ds' l'); try assumption.
    - rewrite Hlen. apply not_ext_in_range. exact Hext.
    - apply Hun. exact Hnot.
    - intro X. exact (Hne t (Hdeps t X) eq_refl).
    - intro X. exact (Hne t (Hkids t X) eq_refl). }
  split.
  - intros u [<-|Hu]; [exact Hdone|].
    assert (Hut : u <> t) by (intro E; subst; contradiction).
    destruct (Hcl u Hu) as [_ [Hp Hk]].
    apply (c02_done_ext (c_dy c) (c_lg c)); [| | | |apply Hd; exact Hu].
    + apply Hfr. exact Hut.
    + intros p Hp'. apply Hfr. apply Hne. apply Hp. exact Hp'.
    + intros ch Hch. apply Hfr. apply Hne. apply Hk. exact Hch.
    + intros x Hx Hxu. rewrite Ea in Hx. apply in_app_or in Hx. destruct Hx as [Hx|Hx]; [|exact Hx].
      destruct (Hnew x Hx) as [_ [E _]]. congruence.
  - intros u [<-|Hu].
    + destruct (is_leaf (gett w t)) eqn:Hleaf.
      * exists t. split; [left; reflexivity|]. split; [constructor|]. split; [exact Hleaf | reflexivity].
      * destruct Hdone as [s [e [es [sp [Hn [_ [_ Hsum]]]]]]]. destruct (Hsum Hleaf) as [_ [ch [Hch Ech]]].
        destruct (mo_children _ _ (c06_wfin_member w t Hwf Hext) ch Hch) as [_ [Hce _]].
        destruct (Hkids ch Hch) as [X|Hcc]; [congruence|].
        destruct (Hl ch Hcc) as [q [Hq [Hbel [Hql Eq]]]].
        assert (Hqu : q <> t) by (intro E; subst; contradiction).
        assert (Hcu : ch <> t) by (intro E; subst; contradiction).
        exists q. split; [right; exact Hq|]. split; [eapply below_child; eauto|]. split; [exact Hql|].
        unfold dend in *. rewrite (Hfr q Hqu), Eq, <- (Hfr ch Hcu), Ech, Hn. reflexivity.
    + destruct (Hl u Hu) as [q [Hq [Hbel [Hql Eq]]]].
      assert (Hqt : q <> t) by (intro E; subst; contradiction).
      assert (Hut : u <> t) by (intro E; subst; contradiction).
      exists q. split; [right; exact Hq|]. split; [exact Hbel|]. split; [exact Hql|].
      unfold dend in *. rewrite (Hfr q Hqt), (Hfr u Hut). exact Eq.
Qed.

Lemma inv02_run I c : fsteps cfg w I (init_core w) c -> inv02 c.
Proof.
  intros Hs. eapply (gsteps_inv w _ _ _ _ inv02); [|exact Hs | exact inv02_init].
  intros a t b Ha Hst. eapply inv02_step; eauto.
Qed.

(* ---------- consequences of the invariant at any reachable state ---------- *)
(* the end of a calculated task bounds the ends of everything below it *)
Lemma c02_below_end c : inv02 c -> forall p q, below w p q -> ready w c p ->
  ready w c q /\ forall ep eq, dend (c_dy c) p = Some ep -> dend (c_dy c) q = Some eq -> eq <= ep.
Proof.
  intros [_ [Hb [Hd _]]]. destruct Hb as [_ [_ [Hcl Hdt]]].
  induction 1 as [p | p ch q Hpe Hch Hbel IH]; intros Hr.
  - split; [exact Hr|]. intros ep eq E1 E2. rewrite E1 in E2. inversion E2. lia.
  - destruct Hr as [Hr|Hr]; [congruence|].
    destruct (Hcl p Hr) as [_ [_ Hk]].
    destruct (IH (Hk ch Hch)) as [Hq Hle]. split; [exact Hq|].
    intros ep eq E1 E2.
    destruct (Hd p Hr) as [s [e [es [sp [Hn [_ [_ Hsum]]]]]]].
    assert (Hnl : is_leaf (gett w p) = false).
    { unfold is_leaf. destruct (k_children (gett w p)); [destruct Hch | reflexivity]. }
    destruct (Hsum Hnl) as [R1 _].
    unfold dend in E1. rewrite Hn in E1. cbn [mkd d_end] in E1. inversion E1; subst ep.
    destruct (mo_children _ _ (c06_wfin_member w p Hwf Hpe) ch Hch) as [_ [Hce _]].
    destruct (Hk ch Hch) as [X|Hcc]; [congruence|].
    destruct (Hdt ch Hcc) as [s1 [e1 [es1 [sp1 Hn1]]]].
    assert (Ec : dend (c_dy c) ch = Some e1) by (unfold dend; rewrite Hn1; reflexivity).
    specialize (R1 ch e1 Hch Ec). specialize (Hle e1 eq Ec E2). lia.
Qed.

(* the end of a calculated task is the end of one of the tasks its expansion yields *)
Lemma c02_leaves_attain c : inv02 c -> forall fuel p e, ready w c p -> dend (c_dy c) p = Some e ->
  exists q, In q (leaves_of w fuel p) /\ dend (c_dy c) q = Some e.
Proof.
  intros [_ [Hb [Hd _]]]. destruct Hb as [_ [_ [Hcl _]]].
  induction fuel as [|f IH]; intros p e Hr E; simpl.
  - exists p. split; [left; reflexivity | exact E].
  - destruct (k_children (gett w p)) as [|c0 cs] eqn:Hc.
    + exists p. split; [left; reflexivity | exact E].
    + destruct (k_ext (gett w p)) eqn:He.
      * exists p. split; [left; reflexivity | exact E].
      * destruct Hr as [Hr|Hr]; [congruence|].
        destruct (Hd p Hr) as [s [e1 [es [sp [Hn [_ [_ Hsum]]]]]]].
        assert (Hnl : is_leaf (gett w p) = false) by (unfold is_leaf; rewrite Hc; reflexivity).
        destruct (Hsum Hnl) as [_ [ch [Hch Ech]]].
        unfold dend in E. rewrite Hn in E. cbn [mkd d_end] in E. inversion E; subst e1.
        destruct (Hcl p Hr) as [_ [_ Hk]].
        destruct (IH ch e (Hk ch Hch) Ech) as [q [Hq Eq]].
        exists q. split; [|exact Eq].
        change (In q (flat_map (leaves_of w f) (c0 :: cs))). apply in_flat_map. exists ch.
        split; [rewrite <- Hc; exact Hch | exact Hq].
Qed.
End C02.

(* ---------- the final schedule ---------- *)
Theorem forward_inv02 cfg w st :
  cap_nonneg cfg -> WFin w -> forward cfg w = Ok st -> inv02 cfg w (core_of st).
Proof.
  intros Hc Hw H. destruct (forward_is_run _ _ _ H) as [Hs _]. eapply inv02_run; eauto.
Qed.

(* the end of a task in the returned schedule: its own fixed end for a task outside the WBS *)
Definition sched_end (w : list itask) (st : sst) (q : nat) : option Z :=
  if k_ext (gett w q) then k_end (gett w q) else d_end (getd st q).

Lemma c02_sched_end cfg w st q : inv02 cfg w (core_of st) -> sched_end w st q = dend (dy st) q.
Proof.
  intros [_ [Hb _]]. destruct Hb as [_ [Hun [Hcl _]]]. unfold sched_end, dend, getd.
  destruct (k_ext (gett w q)) eqn:He; [|reflexivity].
  assert (Hq : nth q (dy st) no_dyn = init_dyn (gett w q)).
  { apply (Hun q). intro Hin. destruct (Hcl q Hin) as [X _]. congruence. }
  rewrite Hq. unfold init_dyn. rewrite He. reflexivity.
Qed.

(* what a leaf without a user start waits for *)
Definition c02_bound (cfg : config) (w : list itask) (st : sst) (t : nat) (b : Z) : Prop :=
  b = pbound cfg \/ b = now cfg \/ k_minstart (gett w t) = Some b
  \/ exists p q, In p (prereqs w t) /\ below w p q /\ sched_end w st q = Some b.

Definition free_start_leaf (w : list itask) (t : nat) : Prop :=
  k_ext (gett w t) = false /\ is_leaf (gett w t) = true /\ k_milestone (gett w t) = false
  /\ k_start (gett w t) = None.

Lemma c02_prereq_end_le cfg w st t :
  cap_nonneg cfg -> WFin w -> inv02 cfg w (core_of st) -> In t (calc st) ->
  forall p q e, In p (prereqs w t) -> below w p q -> sched_end w st q = Some e ->
    e <= bound_max (dy st) (prereqs w t) (pbound cfg).
Proof.
  intros Hc Hw Hi Ht p q e Hp Hbel He. rewrite (c02_sched_end cfg w st q Hi) in He.
  pose proof Hi as [_ [Hb _]]. destruct Hb as [_ [_ [Hcl Hdt]]].
  destruct (Hcl t Ht) as [_ [Hpr _]]. pose proof (Hpr p Hp) as Hr.
  destruct Hr as [Hx|Hpc].
  - inversion Hbel; subst; [|congruence]. eapply c02_bound_max_end; [exact Hp | exact He].
  - destruct (Hdt p Hpc) as [s1 [e1 [es1 [sp1 Hn1]]]].
    assert (Ep : dend (dy st) p = Some e1) by (unfold dend; simpl in Hn1; rewrite Hn1; reflexivity).
    destruct (c02_below_end cfg w Hw (core_of st) Hi p q Hbel (or_intror Hpc)) as [_ Hle].
    specialize (Hle e1 e Ep He).
    pose proof (c02_bound_max_end (dy st) (prereqs w t) (pbound cfg) p e1 Hp Ep). lia.
Qed.

(* the technical form: everything is measured against the release instant *)
Lemma c02_leaf_T0 cfg w st t :
  cap_nonneg cfg -> WFin w -> forward cfg w = Ok st -> free_start_leaf w t ->
  exists s, d_start (getd st t) = Some s
    /\ (k_end (gett w t) = None -> day_of (c02_T0 cfg w (dy st) t) <= day_of s)
    /\ forall x, In x (lg st) -> r_task x = t -> day_of (c02_T0 cfg w (dy st) t) <= r_day x.
Proof.
  intros Hc Hw H [He [Hl [Hm Hs]]].
  pose proof (forward_inv02 cfg w st Hc Hw H) as Hi.
  destruct (c06_forward_all cfg w st Hw H) as [_ Hall]. destruct (Hall t He) as [Ht _].
  destruct Hi as [_ [_ [Hd _]]]. destruct (Hd t Ht) as [s [e [es [sp [Hn [_ [Hlf _]]]]]]].
  destruct (Hlf Hm Hl Hs) as [R S]. exists s. split; [|split; [exact S | exact R]].
  unfold getd. simpl in Hn. rewrite Hn. reflexivity.
Qed.

Lemma c02_bound_le_T0 cfg w st t b :
  cap_nonneg cfg -> WFin w -> inv02 cfg w (core_of st) -> In t (calc st) ->
  c02_bound cfg w st t b -> day_of b <= day_of (c02_T0 cfg w (dy st) t).
Proof.
  intros Hc Hw Hi Ht Hb. apply day_of_mono. unfold c02_T0.
  pose proof (c06_bound_max_ge (dy st) (prereqs w t) (pbound cfg)) as Hge.
  destruct Hb as [->|[->|[Hms|[p [q [Hp [Hbel He]]]]]]]; try lia.
  - rewrite Hms. simpl. lia.
  - pose proof (c02_prereq_end_le cfg w st t Hc Hw Hi Ht p q b Hp Hbel He). lia.
Qed.

(* C02, leaves: no start and no reservation on a day earlier than any bound *)
Theorem C02_leaf_holds cfg w st t :
  cap_nonneg cfg -> WFin w -> forward cfg w = Ok st -> free_start_leaf w t ->
  exists s, d_start (getd st t) = Some s /\
    forall b, c02_bound cfg w st t b ->
      (k_end (gett w t) = None -> day_of b <= day_of s)
      /\ forall x, In x (lg st) -> r_task x = t -> day_of b <= r_day x.
Proof.
  intros Hc Hw H Hf. destruct (c02_leaf_T0 cfg w st t Hc Hw H Hf) as [s [Hs [S R]]].
  exists s. split; [exact Hs|]. intros b Hb.
  pose proof (forward_inv02 cfg w st Hc Hw H) as Hi.
  destruct (c06_forward_all cfg w st Hw H) as [_ Hall]. destruct (Hall t (proj1 Hf)) as [Ht _].
  pose proof (c02_bound_le_T0 cfg w st t b Hc Hw Hi Ht Hb) as Hle. split.
  - intros Hke. specialize (S Hke). lia.
  - intros x Hx Hxt. specialize (R x Hx Hxt). lia.
Qed.

(* C02, milestones: zero duration, exactly at the latest end among the prerequisites (and all
   their descendants), never before the project start; the maximum is attained by the project start
   or by a leaf (or a task outside the WBS) *)
Theorem C02_milestone_holds cfg w st t :
  cap_nonneg cfg -> WFin w -> forward cfg w = Ok st ->
  k_ext (gett w t) = false -> k_milestone (gett w t) = true ->
  exists b, d_start (getd st t) = Some b /\ d_end (getd st t) = Some b
    /\ b = bound_max (dy st) (prereqs w t) (pbound cfg)
    /\ pbound cfg <= b
    /\ (forall p q e, In p (prereqs w t) -> below w p q -> sched_end w st q = Some e -> e <= b)
    /\ (b = pbound cfg
        \/ exists p q, In p (prereqs w t) /\ below w p q
                       /\ (k_ext (gett w q) = true \/ is_leaf (gett w q) = true)
                       /\ sched_end w st q = Some b).
Proof.
  intros Hc Hw H He Hm.
  pose proof (forward_inv02 cfg w st Hc Hw H) as Hi.
  destruct (c06_forward_all cfg w st Hw H) as [_ Hall]. destruct (Hall t He) as [Ht _].
  pose proof Hi as [_ [Hb [Hd Hl]]]. destruct Hb as [_ [_ [Hcl _]]].
  destruct (Hd t Ht) as [s [e [es [sp [Hn [Hmil _]]]]]]. destruct (Hmil Hm) as [Es Ee]. subst e.
  exists s. simpl in Hn. unfold getd. rewrite Hn. cbn [mkd d_start d_end].
  split; [reflexivity|]. split; [reflexivity|]. split; [exact Es|].
  split; [rewrite Es; apply c06_bound_max_ge|]. split.
  - intros p q e Hp Hbel Hq. rewrite Es. eapply c02_prereq_end_le; eauto.
  - rewrite Es. destruct (c02_bound_max_in (dy st) (prereqs w t) (pbound cfg)) as [E|[p [Hp Ep]]]; [left; exact E|].
    right. destruct (Hcl t Ht) as [_ [Hpr _]]. destruct (Hpr p Hp) as [Hx|Hpc].
    + exists p, p. split; [exact Hp|]. split; [constructor|]. split; [left; exact Hx|].
      rewrite (c02_sched_end cfg w st p Hi). exact Ep.
    + destruct (Hl p Hpc) as [q [_ [Hbel [Hql Eq]]]]. exists p, q. split; [exact Hp|]. split; [exact Hbel|].
      split; [right; exact Hql|]. rewrite (c02_sched_end cfg w st q Hi). simpl in Eq. rewrite Eq. exact Ep.
Qed.

(* ---------- the vocabulary of the property ---------- *)
(* tasks below a member are members *)
Lemma c02_below_member w p q : WFin w -> below w p q -> k_ext (gett w p) = false -> k_ext (gett w q) = false.
Proof.
  intros Hw. induction 1 as [p | p ch q Hpe Hch Hbel IH]; intros He; [exact He|].
  apply IH. destruct (mo_children _ _ (c06_wfin_member w p Hw He) ch Hch) as [_ [Hce _]]. exact Hce.
Qed.

(* roll-up as far as C02 needs it: in the returned schedule nothing below a task ends after it *)
Theorem C02_descendant_ends cfg w st p q :
  cap_nonneg cfg -> WFin w -> forward cfg w = Ok st -> k_ext (gett w p) = false -> below w p q ->
  exists ep eq, sched_end w st p = Some ep /\ sched_end w st q = Some eq /\ eq <= ep.
Proof.
  intros Hc Hw H He Hbel.
  pose proof (forward_inv02 cfg w st Hc Hw H) as Hi.
  destruct (c06_forward_all cfg w st Hw H) as [_ Hall].
  destruct (Hall p He) as [Hpc [s1 [e1 [es1 [sp1 Hn1]]]]].
  destruct (Hall q (c02_below_member w p q Hw Hbel He)) as [_ [s2 [e2 [es2 [sp2 Hn2]]]]].
  exists e1, e2. rewrite !(c02_sched_end cfg w st _ Hi). unfold dend. unfold getd in Hn1, Hn2.
  rewrite Hn1, Hn2. split; [reflexivity|]. split; [reflexivity|].
  destruct (c02_below_end cfg w Hw (core_of st) Hi p q Hbel (or_intror Hpc)) as [_ Hle].
  apply Hle; unfold dend; simpl; [rewrite Hn1 | rewrite Hn2]; reflexivity.
Qed.

(* [prereqs w t] is exactly: the predecessors declared on t and on every ancestor of t *)
Inductive anc (w : list itask) : nat -> nat -> Prop :=
| anc_parent t p : k_parent (gett w t) = Some p -> anc w t p
| anc_up t p a : k_parent (gett w t) = Some p -> anc w p a -> anc w t a.

Lemma c02_ancestors_sound w : forall n t a, In a (ancestors w n t) -> anc w t a.
Proof.
  induction n as [|n IH]; intros t a; simpl; [intros []|].
  destruct (k_parent (gett w t)) as [p|] eqn:Hp; [|intros []].
  intros [<-|H]; [apply anc_parent; exact Hp | eapply anc_up; [exact Hp | apply IH; exact H]].
Qed.

Lemma c02_ancestors_complete w t a : anc w t a ->
  forall n, (length (ancestors w n t) < n)%nat -> In a (ancestors w n t).
Proof.
  induction 1 as [t p Hp | t p a Hp Ha IH]; intros n Hn;
    (destruct n as [|n]; [simpl in Hn; lia|]); simpl in *; rewrite Hp in *; simpl in Hn.
  - left. reflexivity.
  - right. apply IH. lia.
Qed.

Theorem c02_prereqs_meaning w t p : WFin w -> k_ext (gett w t) = false ->
  (In p (prereqs w t) <->
   In p (k_preds (gett w t)) \/ exists a, anc w t a /\ In p (k_preds (gett w a))).
Proof.
  intros Hw He. unfold prereqs. rewrite in_app_iff, in_flat_map. split; intros [H|[a [Ha Hp]]].
  - left. exact H.
  - right. exists a. split; [eapply c02_ancestors_sound; exact Ha | exact Hp].
  - left. exact H.
  - right. exists a. split; [|exact Hp].
    apply c02_ancestors_complete; [exact Ha | apply c06_anc_short; assumption].
Qed.

(* the oracle's expansion [leaves_of] (fuel = number of tasks) yields exactly the leaves below a task *)
Definition depth (w : list itask) (t : nat) : nat := length (ancestors w (length w) t).

Lemma c02_anc_stable w : forall n t, (length (ancestors w n t) < n)%nat ->
  forall m, (n <= m)%nat -> ancestors w m t = ancestors w n t.
Proof.
  induction n as [|n IH]; intros t H m Hm; [simpl in H; lia|]. destruct m as [|m]; [lia|].
  simpl in *. destruct (k_parent (gett w t)); [|reflexivity]. simpl in H. f_equal. apply IH; lia.
Qed.

Lemma c02_depth_child w p ch : WFin w -> k_ext (gett w p) = false -> In ch (k_children (gett w p)) ->
  depth w ch = S (depth w p).
Proof.
  intros Hw Hpe Hch. destruct (mo_children _ _ (c06_wfin_member w p Hw Hpe) ch Hch) as [Hr [Hce Hpar]].
  unfold depth. pose proof (c06_anc_short w ch Hw Hce) as Hs.
  destruct (length w) as [|n] eqn:HL; [lia|].
  assert (E : ancestors w (S n) ch = p :: ancestors w n p) by (simpl; rewrite Hpar; reflexivity).
  rewrite E in Hs |- *. cbn [length] in Hs |- *. f_equal.
  rewrite (c02_anc_stable w n p ltac:(lia) (S n) ltac:(lia)). reflexivity.
Qed.

Lemma c02_depth_below w p q : WFin w -> below w p q -> k_ext (gett w p) = false -> (depth w p <= depth w q)%nat.
Proof.
  intros Hw. induction 1 as [p | p ch q Hpe Hch Hbel IH]; intros He; [lia|].
  rewrite (c02_depth_child w p ch Hw He Hch) in IH.
  destruct (mo_children _ _ (c06_wfin_member w p Hw He) ch Hch) as [_ [Hce _]]. specialize (IH Hce). lia.
Qed.

Lemma c02_leaves_sound w : WFin w -> forall f p q, k_ext (gett w p) = false -> In q (leaves_of w f p) ->
  is_leaf (gett w q) = true \/ (depth w p + f <= depth w q)%nat.
Proof.
  intros Hw. induction f as [|f IH]; intros p q He; simpl.
  - intros [<-|[]]. right. lia.
  - destruct (k_children (gett w p)) as [|c cs] eqn:Hc.
    + intros [<-|[]]. left. unfold is_leaf. rewrite Hc. reflexivity.
    + rewrite He. intros H. change (In q (flat_map (leaves_of w f) (c :: cs))) in H.
      apply in_flat_map in H. destruct H as [ch [Hch Hq]]. rewrite <- Hc in Hch.
      destruct (mo_children _ _ (c06_wfin_member w p Hw He) ch Hch) as [_ [Hce _]].
      destruct (IH ch q Hce Hq) as [L|R]; [left; exact L | right].
      rewrite (c02_depth_child w p ch Hw He Hch) in R. lia.
Qed.

Lemma c02_leaves_complete w : WFin w -> forall p q, below w p q -> k_ext (gett w p) = false ->
  is_leaf (gett w q) = true -> forall f, (depth w q <= depth w p + f)%nat -> In q (leaves_of w f p).
Proof.
  intros Hw. induction 1 as [p | p ch q Hpe Hch Hbel IH]; intros He Hl f Hd.
  - destruct f; simpl; [left; reflexivity|]. unfold is_leaf in Hl.
    destruct (k_children (gett w p)); [left; reflexivity | discriminate].
  - destruct (mo_children _ _ (c06_wfin_member w p Hw He) ch Hch) as [_ [Hce _]].
    pose proof (c02_depth_child w p ch Hw He Hch) as Hdc.
    pose proof (c02_depth_below w ch q Hw Hbel Hce) as Hdq.
    destruct f as [|f]; [lia|]. simpl. destruct (k_children (gett w p)) as [|c cs] eqn:Hc; [destruct Hch|].
    rewrite He. change (In q (flat_map (leaves_of w f) (c :: cs))). apply in_flat_map. exists ch.
    split; [exact Hch|]. apply IH; [exact Hce | exact Hl | lia].
Qed.

Theorem c02_leaves_of_exact w p q : WFin w -> (p < length w)%nat ->
  (In q (leaves_of w (length w) p) <-> below w p q /\ is_leaf (gett w q) = true).
Proof.
  intros Hw Hr. destruct (k_ext (gett w p)) eqn:He.
  - (* outside the WBS: a pair of dates, no children *)
    assert (Hl : is_leaf (gett w p) = true).
    { pose proof Hw as Hb. unfold WFin, wfin_b in Hb. rewrite forallb_forall in Hb.
      specialize (Hb p ltac:(apply in_seq; lia)). unfold is_ext in Hb. rewrite He in Hb.
      unfold wfin_ext_b in Hb. unfold is_leaf. destruct (k_parent (gett w p)); [discriminate|].
      destruct (k_children (gett w p)); [reflexivity | discriminate]. }
    rewrite (c02_leaves_ext w _ p He). split.
    + intros [<-|[]]. split; [constructor | exact Hl].
    + intros [Hbel _]. inversion Hbel; subst; [left; reflexivity | congruence].
  - split.
    + intros H. pose proof (c02_leaves_below w _ p q H) as Hbel. split; [exact Hbel|].
      destruct (c02_leaves_sound w Hw _ p q He H) as [L|R]; [exact L|].
      pose proof (c06_anc_short w q Hw (c02_below_member w p q Hw Hbel He)). unfold depth in R. lia.
    + intros [Hbel Hl]. apply (c02_leaves_complete w Hw p q Hbel He Hl).
      pose proof (c06_anc_short w q Hw (c02_below_member w p q Hw Hbel He)). unfold depth. lia.
Qed.

(* "each expanded to its leaf descendants": the oracle's [prereq_leaves] is exactly that *)
Theorem c02_prereq_leaves_meaning w t q : WFin w -> k_ext (gett w t) = false ->
  (In q (prereq_leaves w t) <->
   exists p, In p (prereqs w t) /\ below w p q /\ is_leaf (gett w q) = true).
Proof.
  intros Hw He. unfold prereq_leaves. rewrite in_flat_map.
  assert (Hr : forall p, In p (prereqs w t) -> (p < length w)%nat).
  { intros p Hp. unfold prereqs in Hp. apply in_app_or in Hp. destruct Hp as [Hp|Hp].
    - exact (proj1 (mo_preds _ _ (c06_wfin_member w t Hw He) p Hp)).
    - apply in_flat_map in Hp. destruct Hp as [a [Ha Hp]].
      exact (proj1 (mo_preds _ _ (c06_wfin_member w a Hw (c06_anc_member w Hw _ t He a Ha)) p Hp)). }
  split; intros [p [Hp H]]; exists p; (split; [exact Hp|]); apply (c02_leaves_of_exact w p q Hw (Hr p Hp)); exact H.
Qed.

(* every prerequisite, and everything below it, has an end in the returned schedule: the bounds of
   C02_leaf are never vacuous *)
Theorem C02_prereq_ends_defined cfg w st t p q :
  WFin w -> forward cfg w = Ok st -> k_ext (gett w t) = false ->
  In p (prereqs w t) -> below w p q -> exists e, sched_end w st q = Some e.
Proof.
  intros Hw H He Hp Hbel. destruct (c06_forward_all cfg w st Hw H) as [_ Hall].
  destruct (k_ext (gett w p)) eqn:Hpe.
  - inversion Hbel; subst; [|congruence]. unfold sched_end. rewrite Hpe.
    destruct (forward_is_run _ _ _ H) as [_ [_ [Hiso _]]].
    assert (Ha : exists a, k_ext (gett w a) = false /\ In q (k_preds (gett w a))).
    { unfold prereqs in Hp. apply in_app_or in Hp. destruct Hp as [Hp|Hp]; [exists t; split; assumption|].
      apply in_flat_map in Hp. destruct Hp as [a [Ha Hq]]. exists a. split; [|exact Hq].
      eapply c06_anc_member; eauto. }
    destruct Ha as [a [Hae Hq]]. unfold isolated_ok in Hiso. rewrite forallb_forall in Hiso.
    specialize (Hiso a (c06_member_in w a Hae)). rewrite forallb_forall in Hiso. specialize (Hiso q Hq).
    cbv zeta in Hiso. rewrite Hpe in Hiso. cbn [negb orb] in Hiso.
    destruct (k_start (gett w q)); [|discriminate]. destruct (k_end (gett w q)) as [e|]; [|discriminate].
    exists e. reflexivity.
  - pose proof (c02_below_member w p q Hw Hbel Hpe) as Hqe.
    destruct (Hall q Hqe) as [_ [s2 [e2 [es2 [sp2 Hn2]]]]]. exists e2. unfold sched_end. rewrite Hqe, Hn2. reflexivity.
Qed.

(* why the start clause needs "no user end": for a leaf with a fixed end on a day before the clock's
   no start can satisfy both C07 (start <= end, the F24 repair) and C02's "not before the current day" *)
Lemma c02_fixed_end_conflict nw e s : day_of e < day_of nw -> s <= e -> ~ (day_of nw <= day_of s).
Proof. intros H1 H2 H3. pose proof (day_of_mono s e H2). lia. Qed.

(* ---------- the oracle c02_b: reflection ---------- *)
Definition c02_task_statement (cfg : config) (w : list itask) (o : osch) (t : nat) : Prop :=
  is_leaf (gett w t) = true ->
  (k_milestone (gett w t) = true ->
     o_start o t = Some (zmax_list (pbound cfg) (ends_of o w (prereq_leaves w t)))
     /\ o_end o t = Some (zmax_list (pbound cfg) (ends_of o w (prereq_leaves w t))))
  /\ (k_milestone (gett w t) = false -> k_start (gett w t) = None -> k_end (gett w t) = None ->
      exists s, o_start o t = Some s /\
        forall b, In b (pbound cfg :: now cfg :: odflt (k_minstart (gett w t)) 0
                        :: ends_of o w (prereq_leaves w t)) ->
          day_of b <= day_of s /\ forall x, In x (rows_of o t) -> day_of b <= row_day x).

Definition c02_statement (cfg : config) (w : list itask) (o : osch) : Prop :=
  forall t, In t (members w) -> c02_task_statement cfg w o t.

Lemma c02_zopt_eqb a b : zopt_eqb a b = true <-> a = b.
Proof. apply (opt_eqb_spec Z.eqb Z.eqb_eq). Qed.

Theorem c02_task_b_spec cfg w o t : c02_task_b cfg w o t = true <-> c02_task_statement cfg w o t.
Proof.
  unfold c02_task_b, c02_task_statement, leafb. destruct (is_leaf (gett w t)); cbn [negb].
  2:{ split; [intros _ X; discriminate | reflexivity]. }
  destruct (k_milestone (gett w t)).
  - rewrite andb_true_iff, !c02_zopt_eqb. split.
    + intros H _. split; [intros _; exact H | intros X; discriminate].
    + intros H. destruct (H eq_refl) as [A _]. apply A. reflexivity.
  - destruct (k_start (gett w t)) as [us|].
    { split; [intros _ _; split; intros X; discriminate | reflexivity]. }
    destruct (k_end (gett w t)) as [ue|].
    { split; [intros _ _; split; [intros X | intros _ _ X]; discriminate | reflexivity]. }
    split.
    + intros H _. split; [intros X; discriminate|]. intros _ _ _.
      destruct (o_start o t) as [s|]; [|discriminate]. exists s. split; [reflexivity|].
      rewrite forallb_forall in H. intros b Hb. specialize (H b Hb). rewrite andb_true_iff in H.
      destruct H as [A B]. apply Z.leb_le in A. split; [exact A|].
      rewrite forallb_forall in B. intros x Hx. apply Z.leb_le. apply B. exact Hx.
    + intros H. destruct (H eq_refl) as [_ B]. destruct (B eq_refl eq_refl eq_refl) as [s [-> C]].
      rewrite forallb_forall. intros b Hb. destruct (C b Hb) as [A D]. rewrite andb_true_iff.
      split; [apply Z.leb_le; exact A|]. rewrite forallb_forall. intros x Hx. apply Z.leb_le. apply D. exact Hx.
Qed.

Theorem c02_b_spec cfg w o : c02_b cfg w o = true <-> c02_statement cfg w o.
Proof.
  unfold c02_b, c02_statement. rewrite forallb_forall.
  split; intros H t Ht; apply c02_task_b_spec; apply H; exact Ht.
Qed.

(* ---------- the model's output passes the oracle ---------- *)
Section Oracle.
Variable cfg : config.
Variable w : list itask.
Variable st : sst.
Hypothesis Hc : cap_nonneg cfg.
Hypothesis Hw : WFin w.
Hypothesis Hx : ext_last w.
Hypothesis Hi : inv02 cfg w (core_of st).

Lemma c02_obs_end q :
  (if k_ext (gett w q) then k_end (gett w q) else o_end (obs_of w st) q) = dend (dy st) q.
Proof.
  rewrite <- (c02_sched_end cfg w st q Hi). unfold sched_end.
  destruct (k_ext (gett w q)) eqn:He; [reflexivity|].
  apply c06_o_end; [exact Hx | apply c06_member_in; exact He].
Qed.

Lemma c02_in_ends_of qs b :
  In b (ends_of (obs_of w st) w qs) <-> exists q, In q qs /\ dend (dy st) q = Some b.
Proof.
  unfold ends_of. rewrite c02_in_somes, in_map_iff. split.
  - intros [q [E Hq]]. exists q. split; [exact Hq|]. rewrite <- c02_obs_end. exact E.
  - intros [q [Hq E]]. exists q. split; [|exact Hq]. rewrite c02_obs_end. exact E.
Qed.

Lemma c02_in_rows_of t x : In x (rows_of (obs_of w st) t) -> exists y, In y (lg st) /\ r_task y = t /\ row_day x = r_day y.
Proof.
  unfold rows_of, obs_of, model_rows. cbn [o_rows]. intros H. apply filter_In in H. destruct H as [A B].
  apply in_map_iff in A. destruct A as [y [<- Hy]]. apply in_rev in Hy. exists y.
  split; [exact Hy|]. split; [|reflexivity]. apply Nat.eqb_eq in B. exact B.
Qed.

Lemma c02_milestone_max t : In t (calc st) ->
  zmax_list (pbound cfg) (ends_of (obs_of w st) w (prereq_leaves w t))
  = bound_max (dy st) (prereqs w t) (pbound cfg).
Proof.
  intros Ht. rewrite c02_zmax_fold. unfold bound_max.
  pose proof Hi as [_ [Hb _]]. destruct Hb as [_ [_ [Hcl Hdt]]].
  destruct (Hcl t Ht) as [_ [Hpr _]].
  apply c02_max_same.
  - intros x Hxin. apply c02_in_ends_of in Hxin. destruct Hxin as [q [Hq Eq]].
    unfold prereq_leaves in Hq. apply in_flat_map in Hq. destruct Hq as [p [Hp Hq]].
    destruct (Hpr p Hp) as [Hpx|Hpc].
    + rewrite (c02_leaves_ext w _ p Hpx) in Hq. destruct Hq as [<-|[]].
      exists x. split; [|lia]. apply c02_in_somes. rewrite <- Eq. apply (in_map (fun p => d_end (getdl (dy st) p))). exact Hp.
    + destruct (Hdt p Hpc) as [s1 [e1 [es1 [sp1 Hn1]]]].
      assert (Ep : dend (dy st) p = Some e1) by (unfold dend; simpl in Hn1; rewrite Hn1; reflexivity).
      destruct (c02_below_end cfg w Hw (core_of st) Hi p q (c02_leaves_below w _ p q Hq) (or_intror Hpc)) as [_ Hle].
      exists e1. split; [|exact (Hle e1 x Ep Eq)].
      apply c02_in_somes. rewrite <- Ep. apply (in_map (fun p => d_end (getdl (dy st) p))). exact Hp.
  - intros y Hy. apply c02_in_somes in Hy. apply in_map_iff in Hy. destruct Hy as [p [Ep Hp]].
    destruct (c02_leaves_attain cfg w (core_of st) Hi (length w) p y (Hpr p Hp) Ep) as [q [Hq Eq]].
    exists y. split; [|lia]. apply c02_in_ends_of. exists q. split; [|exact Eq].
    unfold prereq_leaves. apply in_flat_map. exists p. split; assumption.
Qed.
End Oracle.

Theorem C02_forward_oracle cfg w st :
  cap_nonneg cfg -> WFin w -> ext_last w -> forward cfg w = Ok st -> c02_b cfg w (obs_of w st) = true.
Proof.
  intros Hc Hw Hx H. apply c02_b_spec. intros t Ht Hleaf.
  pose proof (forward_inv02 cfg w st Hc Hw H) as Hi.
  destruct (c06_member_not_ext w t Ht) as [_ He].
  destruct (c06_forward_all cfg w st Hw H) as [_ Hall]. destruct (Hall t He) as [Htc _].
  split.
  - intros Hm. destruct (C02_milestone_holds cfg w st t Hc Hw H He Hm) as [b [Es [Ee [Eb _]]]].
    rewrite (c06_o_start w st t Hx Ht), (c06_o_end w st t Hx Ht), (c02_milestone_max cfg w st Hw Hx Hi t Htc), <- Eb.
    split; assumption.
  - intros Hm Hks Hke.
    destruct (c02_leaf_T0 cfg w st t Hc Hw H (conj He (conj Hleaf (conj Hm Hks)))) as [s [Es [S R]]].
    exists s. rewrite (c06_o_start w st t Hx Ht). split; [exact Es|].
    intros b Hb.
    assert (Hle : day_of b <= day_of (c02_T0 cfg w (dy st) t)).
    { destruct Hb as [<-|[<-|[<-|Hb]]].
      - apply (c02_bound_le_T0 cfg w st t _ Hc Hw Hi Htc). left. reflexivity.
      - apply (c02_bound_le_T0 cfg w st t _ Hc Hw Hi Htc). right; left. reflexivity.
      - apply day_of_mono. unfold c02_T0. lia.
      - apply (c02_in_ends_of cfg w st Hx Hi) in Hb. destruct Hb as [q [Hq Eq]].
        unfold prereq_leaves in Hq. apply in_flat_map in Hq. destruct Hq as [p [Hp Hq]].
        apply (c02_bound_le_T0 cfg w st t _ Hc Hw Hi Htc). right; right; right.
        exists p, q. split; [exact Hp|]. split; [eapply c02_leaves_below; exact Hq|].
        rewrite (c02_sched_end cfg w st q Hi). exact Eq. }
    specialize (S Hke). split; [lia|].
    intros x Hxin. destruct (c02_in_rows_of w st t x Hxin) as [y [Hy [Hyt ->]]].
    specialize (R y Hy Hyt). lia.
Qed.
