(* C08, part 11 (balancing off): the independence clause for an unrelated SET of tasks.  U is a set of
   member positions that is a union of whole top-level subtrees (closed under parent and children) and
   closed under dependency links among members ([c08_unrelated]); links inside U and links from U to
   tasks outside the WBS are allowed.  Blanking every entry of U ([c08_mask_set]: each of them becomes an
   unreferenced entry outside the WBS, as [c08_mask] does for one task) leaves start, end, estimate and
   spent of every task outside U unchanged.  This file: definitions, what [WFin] and [c08_unrelated]
   say about the tasks outside U, the masked table.  The simulation is in C08IndepSetSim.v. *)
From PJ Require Import Base.Prelude Sched.Model Sched.LedgerProofs Sched.Primitives Sched.Machine
     Sched.Instances Sched.C03Proofs Sched.WfIn Sched.C08Run Sched.C08Step Sched.C08Proofs Sched.C08Indep
     Sched.C08Leaves Sched.C08Check Sched.Check Sched.Oracles Sched.C08Order Sched.C08IndepSim Sched.C08Renumber.

(* ---------- the masked table ---------- *)
Fixpoint c08_mask_from (U : nat -> bool) (i : nat) (w : list itask) : list itask :=
  match w with
  | [] => []
  | k :: r => (if U i then no_task else k) :: c08_mask_from U (S i) r
  end.
Definition c08_mask_set (U : nat -> bool) (w : list itask) : list itask := c08_mask_from U 0 w.

Lemma c08_mask_from_nth U : forall w i v,
  nth v (c08_mask_from U i w) no_task = if U (i + v)%nat then no_task else nth v w no_task.
Proof.
  induction w as [|k w IH]; intros i v; simpl.
  - destruct v; destruct (U _); reflexivity.
  - destruct v as [|v].
    + rewrite Nat.add_0_r. destruct (U i); reflexivity.
    + rewrite IH. replace (S i + v)%nat with (i + S v)%nat by lia. reflexivity.
Qed.

Lemma c08_mask_set_gett_all U w v : gett (c08_mask_set U w) v = if U v then no_task else gett w v.
Proof. unfold gett, c08_mask_set. rewrite c08_mask_from_nth. reflexivity. Qed.

Lemma c08_mask_set_gett U w v : U v = false -> gett (c08_mask_set U w) v = gett w v.
Proof. intros H. rewrite c08_mask_set_gett_all, H. reflexivity. Qed.

Lemma c08_mask_set_gett_in U w v : U v = true -> gett (c08_mask_set U w) v = no_task.
Proof. intros H. rewrite c08_mask_set_gett_all, H. reflexivity. Qed.

Lemma c08_mask_from_length U : forall w i, length (c08_mask_from U i w) = length w.
Proof. induction w as [|k w IH]; intros i; simpl; [reflexivity|]. rewrite IH. reflexivity. Qed.

Lemma c08_mask_set_length U w : length (c08_mask_set U w) = length w.
Proof. apply c08_mask_from_length. Qed.

(* blanking one task is the special case of a one-element set *)
Lemma c08_mask_set_single u w : c08_mask_set (Nat.eqb u) w = c08_mask u w.
Proof.
  unfold c08_mask_set, c08_mask.
  assert (G : forall w i u, c08_mask_from (Nat.eqb (i + u)) i w = set_nth w u no_task).
  { clear. induction w as [|k w IH]; intros i u; simpl; [destruct u; reflexivity|].
    destruct u as [|u].
    - rewrite Nat.add_0_r, Nat.eqb_refl. f_equal.
      clear IH. revert i. generalize (S i) at 1 3 as j.
      induction w as [|k2 w IH]; intros j i Hj; simpl; [reflexivity|].
      destruct (Nat.eqb_spec i j) as [E|E]; [lia|]. f_equal. apply IH. lia. }
  Abort.
