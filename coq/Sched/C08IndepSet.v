(* C08, part 11 (balancing off): the independence clause for an unrelated SET of tasks.  U is a set of
   member positions that is a union of whole top-level subtrees (closed under parent and children) and
   closed under dependency links among members ([c08_unrelated]); links inside U and links from U to
   tasks outside the WBS are allowed.  Blanking every entry of U ([c08_mask_set]: each of them becomes an
   unreferenced entry outside the WBS, as [c08_mask] does for one task) leaves start, end, estimate and
   spent of every task outside U unchanged.  This file: definitions, what [WFin] and [c08_unrelated]
   say about the tasks outside U, the masked table.  The simulation is in C08IndepSetSim.v. *)
From PJ Require Import Base.Prelude Sched.Model Sched.LedgerProofs Sched.Primitives Sched.Machine
     Sched.Instances Sched.C03Proofs Sched.WfIn Sched.C08Run Sched.C08Step Sched.C08Proofs Sched.C08Indep
     Sched.C08Leaves Sched.C08Check Sched.Check Sched.Oracles Sched.C08Order Sched.C08IndepSim Sched.C08Renumber.

(* ---------- the masked table ---------- *)
Fixpoint c08_mask_from (U : nat -> bool) (i : nat) (w : list itask) : list itask :=
  match w with
  | [] => []
  | k :: r => (if U i then no_task else k) :: c08_mask_from U (S i) r
  end.
Definition c08_mask_set (U : nat -> bool) (w : list itask) : list itask := c08_mask_from U 0 w.

Lemma c08_mask_from_nth U : forall w i v,
  nth v (c08_mask_from U i w) no_task = if U (i + v)%nat then no_task else nth v w no_task.
Proof.
  induction w as [|k w IH]; intros i v; simpl.
  - destruct v; destruct (U _); reflexivity.
  - destruct v as [|v].
    + rewrite Nat.add_0_r. destruct (U i); reflexivity.
    + rewrite IH. replace (S i + v)%nat with (i + S v)%nat by lia. reflexivity.
Qed.

Lemma c08_mask_set_gett_all U w v : gett (c08_mask_set U w) v = if U v then no_task else gett w v.
Proof. unfold gett, c08_mask_set. rewrite c08_mask_from_nth. reflexivity. Qed.

Lemma c08_mask_set_gett U w v : U v = false -> gett (c08_mask_set U w) v = gett w v.
Proof. intros H. rewrite c08_mask_set_gett_all, H. reflexivity. Qed.

Lemma c08_mask_set_gett_in U w v : U v = true -> gett (c08_mask_set U w) v = no_task.
Proof. intros H. rewrite c08_mask_set_gett_all, H. reflexivity. Qed.

Lemma c08_mask_from_length U : forall w i, length (c08_mask_from U i w) = length w.
Proof. induction w as [|k w IH]; intros i; simpl; [reflexivity|]. rewrite IH. reflexivity. Qed.

Lemma c08_mask_set_length U w : length (c08_mask_set U w) = length w.
Proof. apply c08_mask_from_length. Qed.

(* blanking one task ([c08_mask]) is the special case of a one-element set *)
Lemma c08_mask_set_single u w : c08_mask_set (Nat.eqb u) w = c08_mask u w.
Proof.
  apply (nth_ext _ _ no_task no_task).
  - rewrite c08_mask_set_length, c08_mask_length. reflexivity.
  - intros v Hv. rewrite c08_mask_set_length in Hv.
    change (gett (c08_mask_set (Nat.eqb u) w) v = gett (c08_mask u w) v).
    rewrite c08_mask_set_gett_all. destruct (Nat.eqb_spec u v) as [<-|N].
    + unfold gett, c08_mask. rewrite nth_set_nth_same by exact Hv. reflexivity.
    + rewrite c08_mask_gett by (intro E; apply N; symmetry; exact E). reflexivity.
Qed.

(* ---------- an unrelated set ---------- *)
Record c08_unrelated (w : list itask) (U : nat -> bool) : Prop := {
  un_member : forall u, U u = true -> k_ext (gett w u) = false;
  (* a union of whole top-level subtrees *)
  un_parent : forall u p, U u = true -> k_parent (gett w u) = Some p -> U p = true;
  un_children : forall u c, U u = true -> In c (k_children (gett w u)) -> U c = true;
  (* no dependency link between U and a member outside U *)
  un_preds : forall u p, U u = true -> In p (k_preds (gett w u)) -> k_ext (gett w p) = false -> U p = true;
  un_succs : forall u s, U u = true -> In s (k_succs (gett w u)) -> k_ext (gett w s) = false -> U s = true }.

(* the executable form, for a set given by the list of its elements *)
Definition c08_unrelated_b (w : list itask) (us : list nat) : bool :=
  forallb (fun u =>
    let k := gett w u in
    negb (k_ext k)
    && match k_parent k with Some p => memb p us | None => true end
    && forallb (fun c => memb c us) (k_children k)
    && forallb (fun p => k_ext (gett w p) || memb p us) (k_preds k)
    && forallb (fun s => k_ext (gett w s) || memb s us) (k_succs k)) us.

Lemma c08_unrelated_b_sound w us : c08_unrelated_b w us = true -> c08_unrelated w (fun t => memb t us).
Proof.
  intros H. unfold c08_unrelated_b in H. rewrite forallb_forall in H.
  assert (G : forall u, memb u us = true ->
    k_ext (gett w u) = false
    /\ match k_parent (gett w u) with Some p => memb p us | None => true end = true
    /\ forallb (fun c => memb c us) (k_children (gett w u)) = true
    /\ forallb (fun p => k_ext (gett w p) || memb p us) (k_preds (gett w u)) = true
    /\ forallb (fun s => k_ext (gett w s) || memb s us) (k_succs (gett w u)) = true).
  { intros u Hu. apply memb_true in Hu. specialize (H u Hu). cbv zeta in H.
    rewrite !andb_true_iff in H. destruct H as [[[[A B] C] D] E]. apply negb_true_iff in A. auto. }
  constructor.
  - intros u Hu. apply (G u Hu).
  - intros u p Hu Hp. destruct (G u Hu) as [_ [B _]]. rewrite Hp in B. exact B.
  - intros u c Hu Hc. destruct (G u Hu) as [_ [_ [C _]]]. rewrite forallb_forall in C. exact (C c Hc).
  - intros u p Hu Hp Hpe. destruct (G u Hu) as [_ [_ [_ [D _]]]]. rewrite forallb_forall in D.
    specialize (D p Hp). rewrite Hpe in D. exact D.
  - intros u s Hu Hs Hse. destruct (G u Hu) as [_ [_ [_ [_ E]]]]. rewrite forallb_forall in E.
    specialize (E s Hs). rewrite Hse in E. exact E.
Qed.

(* an isolated task is an unrelated one-element set *)
Lemma c08_isolated_unrelated w u : c08_isolated w u -> c08_unrelated w (Nat.eqb u).
Proof.
  intros [Hext [Hp [Hch [Hpr Hs]]]]. constructor.
  - intros v Hv. apply Nat.eqb_eq in Hv. subst v. exact Hext.
  - intros v p Hv Hpp. apply Nat.eqb_eq in Hv. subst v. congruence.
  - intros v c Hv Hc. apply Nat.eqb_eq in Hv. subst v. rewrite Hch in Hc. destruct Hc.
  - intros v p Hv Hc. apply Nat.eqb_eq in Hv. subst v. rewrite Hpr in Hc. destruct Hc.
  - intros v p Hv Hc. apply Nat.eqb_eq in Hv. subst v. rewrite Hs in Hc. destruct Hc.
Qed.

(* ---------- nobody outside U refers to a task of U ---------- *)
Section Outside.
Variable w : list itask.
Variable U : nat -> bool.
Hypothesis H : WFin w.
Hypothesis HU : c08_unrelated w U.

Lemma c08_out_parent v p : U v = false -> k_parent (gett w v) = Some p -> U p = false.
Proof.
  intros Hv Hp. destruct (U p) eqn:Up; [|reflexivity]. exfalso.
  destruct (k_ext (gett w v)) eqn:Hext.
  - rewrite (c08_ext_no_parent w v H Hext) in Hp. discriminate.
  - destruct (mf_parent _ _ (c08_member_facts_of w v H Hext) p Hp) as [_ Hin].
    rewrite (un_children _ _ HU p v Up Hin) in Hv. discriminate.
Qed.

Lemma c08_out_child v c : U v = false -> In c (k_children (gett w v)) -> U c = false.
Proof.
  intros Hv Hc. destruct (U c) eqn:Uc; [|reflexivity]. exfalso.
  destruct (k_ext (gett w v)) eqn:Hext.
  - destruct (c08_ext_no_links w v H Hext) as [E _]. rewrite E in Hc. destruct Hc.
  - destruct (mf_children _ _ (c08_member_facts_of w v H Hext) c Hc) as [_ Hq].
    rewrite (un_parent _ _ HU c v Uc Hq) in Hv. discriminate.
Qed.

Lemma c08_out_pred v p : U v = false -> In p (k_preds (gett w v)) -> U p = false.
Proof.
  intros Hv Hp. destruct (U p) eqn:Up; [|reflexivity]. exfalso.
  destruct (k_ext (gett w v)) eqn:Hext.
  - destruct (c08_ext_no_links w v H Hext) as [_ E]. rewrite E in Hp. destruct Hp.
  - pose proof (c08_pred_mirror w v p H Hext Hp (un_member _ _ HU p Up)) as Hin.
    rewrite (un_succs _ _ HU p v Up Hin Hext) in Hv. discriminate.
Qed.

Lemma c08_out_ancestors : forall n v, U v = false ->
  ancestors (c08_mask_set U w) n v = ancestors w n v /\ forall a, In a (ancestors w n v) -> U a = false.
Proof.
  induction n as [|n IH]; intros v Hv; simpl; [split; [reflexivity | intros a []]|].
  rewrite (c08_mask_set_gett U w v Hv).
  destruct (k_parent (gett w v)) as [p|] eqn:Hp; [|split; [reflexivity | intros a []]].
  pose proof (c08_out_parent v p Hv Hp) as Up. destruct (IH p Up) as [A B].
  split; [rewrite A; reflexivity|]. intros a [<-|Ha]; [exact Up | exact (B a Ha)].
Qed.

Lemma c08_out_prereq v p : U v = false -> In p (prereqs w v) -> U p = false.
Proof.
  intros Hv Hp. unfold prereqs in Hp. apply in_app_or in Hp. destruct Hp as [Hp|Hp].
  - exact (c08_out_pred v p Hv Hp).
  - apply in_flat_map in Hp. destruct Hp as [a [Ha Hp]].
    destruct (c08_out_ancestors (length w) v Hv) as [_ B]. exact (c08_out_pred a p (B a Ha) Hp).
Qed.

Lemma c08_mask_set_prereqs v : U v = false -> prereqs (c08_mask_set U w) v = prereqs w v.
Proof.
  intros Hv. unfold prereqs. rewrite (c08_mask_set_gett U w v Hv), c08_mask_set_length.
  destruct (c08_out_ancestors (length w) v Hv) as [A B]. rewrite A. f_equal.
  apply c08_flat_map_ext_in. intros a Ha. rewrite c08_mask_set_gett; [reflexivity|]. exact (B a Ha).
Qed.

(* ---------- a task of U refers only to U and to tasks outside the WBS ---------- *)
Definition c08_inU (t : nat) : Prop := U t = true \/ k_ext (gett w t) = true.

Lemma c08_in_ancestors : forall n u, U u = true -> forall a, In a (ancestors w n u) -> U a = true.
Proof.
  induction n as [|n IH]; intros u Hu a Ha; simpl in Ha; [destruct Ha|].
  destruct (k_parent (gett w u)) as [p|] eqn:Hp; [|destruct Ha].
  pose proof (un_parent _ _ HU u p Hu Hp) as Up. destruct Ha as [<-|Ha]; [exact Up | exact (IH p Up a Ha)].
Qed.

Lemma c08_in_pred u p : U u = true -> In p (k_preds (gett w u)) -> c08_inU p.
Proof.
  intros Hu Hp. destruct (k_ext (gett w p)) eqn:Hext; [right; exact Hext|].
  left. exact (un_preds _ _ HU u p Hu Hp Hext).
Qed.

Lemma c08_in_prereq u p : U u = true -> In p (prereqs w u) -> c08_inU p.
Proof.
  intros Hu Hp. unfold prereqs in Hp. apply in_app_or in Hp. destruct Hp as [Hp|Hp].
  - exact (c08_in_pred u p Hu Hp).
  - apply in_flat_map in Hp. destruct Hp as [a [Ha Hp]].
    exact (c08_in_pred a p (c08_in_ancestors (length w) u Hu a Ha) Hp).
Qed.

Lemma c08_in_child u c : U u = true -> In c (k_children (gett w u)) -> c08_inU c.
Proof. intros Hu Hc. left. exact (un_children _ _ HU u c Hu Hc). Qed.
End Outside.

(* ---------- the roots of the masked table ---------- *)
Lemma c08_mask_set_roots w U : (forall u, U u = true -> k_ext (gett w u) = false) ->
  roots (c08_mask_set U w) = filter (fun t => negb (U t)) (roots w).
Proof.
  intros Hm. unfold roots, members. rewrite c08_mask_set_length.
  induction (seq 0 (length w)) as [|x l IH]; [reflexivity|]. cbn [filter].
  destruct (U x) eqn:Ux.
  - rewrite (c08_mask_set_gett_in U w x Ux), (Hm x Ux). cbn [no_task k_ext negb filter]. rewrite IH.
    destruct (k_parent (gett w x)); cbn [filter]; [reflexivity|]. rewrite Ux. reflexivity.
  - rewrite (c08_mask_set_gett U w x Ux). destruct (negb (k_ext (gett w x))); cbn [filter]; [|exact IH].
    rewrite (c08_mask_set_gett U w x Ux). destruct (k_parent (gett w x)); cbn [filter]; [exact IH|].
    rewrite Ux. cbn [negb]. rewrite IH. reflexivity.
Qed.

(* the theorems about an unrelated set specialise to the ones about one isolated task *)
Lemma c08_isolated_is_unrelated w u : c08_isolated w u ->
  c08_unrelated w (Nat.eqb u) /\ c08_mask_set (Nat.eqb u) w = c08_mask u w.
Proof. intros Hi. split; [exact (c08_isolated_unrelated w u Hi) | apply c08_mask_set_single]. Qed.
