(* Source-text tie for BackwardScheduler.__backward_pass: the translated source (gen/SrcPass.v, [src_bwd_pass]) against
   the model's [bwd_pass] (Sched/Model.v), in the vocabulary of Sched/SrcPassRel.v.

   Plan of the file
   1. the generated body restated in stages ([tl_fin], [tl_start], [tl_spent], [tl_est], [tl_end], [tl_all]); the
      restatement is tied to the generated text by [reflexivity] ([src_bwd_pass_S]) - if the generator or the source
      changes, that lemma fails;
   2. small lemmas about [dupd] / [with_*] / [set_nth] / [getdl];
   3. the per-task computation: [tl_all] = [bwd_compute] followed by the bookkeeping ([tl_all_compute]);
   4. the induction on fuel ([src_bwd_pass_rel_len]) and the statements asked for. *)
From PJ Require Import Base.Prelude Sched.Model gen.SrcPass Sched.SrcPassRel.
Open Scope Z_scope.

(* ---------- 1. the generated body in stages ---------- *)
Section Stages.
Variables (cfg : config) (w : list itask) (t : nat) (bound : Z).

Definition leafb : bool := Z.of_nat (length (k_children (gett w t))) =? 0.

(* in_progress.remove(_task); calculated.append(_task) *)
Definition tl_fin (cl ip : list nat) (ds : list dyn) (l : ledger) : res (pstate * unit) :=
  if existsb (Nat.eqb t) ip then Ok ((ds, l, cl ++ [t], src_remove1 t ip), tt) else Crash ValueError.

Definition tl_start (l : ledger) (K : list dyn -> ledger -> res (pstate * unit)) (ds : list dyn) : res (pstate * unit) :=
  if leafb then
    match d_est (getdl ds t) with
    | None => Crash TypeError
    | Some e =>
      match d_spent (getdl ds t) with
      | None => Crash TypeError
      | Some s =>
        match d_end (getdl ds t) with
        | None => Crash TypeError
        | Some en =>
          do '(l', r) <- bwd_shift cfg l (k_res (gett w t)) t (Z.min en bound) (Z.max (e - s) 0);
          match d_start (getdl ds t) with
          | None => K (dupd ds t (with_start (Some r))) l'
          | Some x => K (dupd ds t (with_start (Some (Z.min x r)))) l'
          end
        end
      end
    end
  else
    match somes (map (fun c => d_start (getdl ds c)) (k_children (gett w t))) with
    | [] => Crash ValueError
    | x :: xs => K (dupd ds t (with_start (Some (fold_left Z.min xs x)))) l
    end.

Definition tl_spent (K : list dyn -> res (pstate * unit)) (ds : list dyn) : res (pstate * unit) :=
  match d_spent (getdl ds t) with
  | None =>
      if leafb then K (dupd ds t (with_spent (Some 0)))
      else do s <- sum_opts (map (fun c => d_spent (getdl ds c)) (k_children (gett w t)));
           K (dupd ds t (with_spent (Some s)))
  | Some _ => K ds
  end.

Definition tl_est (K : list dyn -> res (pstate * unit)) (ds : list dyn) : res (pstate * unit) :=
  match d_est (getdl ds t) with
  | None =>
      if leafb then K (dupd ds t (with_est (Some (dflt_est cfg))))
      else do s <- sum_opts (map (fun c => d_est (getdl ds c)) (k_children (gett w t)));
           K (dupd ds t (with_est (Some s)))
  | Some _ => K ds
  end.

Definition tl_end (l : ledger) (K : list dyn -> res (pstate * unit)) (ds : list dyn) : res (pstate * unit) :=
  match d_end (getdl ds t) with
  | None =>
      if leafb then
        do r <- bwd_nearest_src cfg l (k_res (gett w t)) t bound;
        K (dupd (dupd (dupd ds t (with_end (Some bound))) t (with_end (Some r))) t (with_end (Some (r + 1 * DAY))))
      else
        let ce := somes (map (fun c => d_end (getdl ds c)) (k_children (gett w t))) in
        if Z.of_nat (length ce) =? 0 then K (dupd ds t (with_end (Some bound)))
        else match ce with
             | [] => Crash ValueError
             | x :: xs => K (dupd ds t (with_end (Some (fold_left Z.max xs x))))
             end
  | Some _ => K ds
  end.

Definition tl_all (ds : list dyn) (l : ledger) (cl ip : list nat) : res (pstate * unit) :=
  if k_milestone (gett w t) then
    tl_fin cl ip
      (dupd (dupd (dupd (dupd ds t (with_start (Some bound))) t (with_end (Some bound))) t (with_est (Some 0))) t
            (with_spent (Some 0))) l
  else tl_end l (tl_est (tl_spent (tl_start l (tl_fin cl ip)))) ds.
End Stages.

(* one recursive call inside the two loops *)
Definition bstep (f : nat) (cfg : config) (w : list itask) (st : pstate) (u : nat) : res pstate :=
  let '(ds, l, cl, ip) := st in
  do '((ds', l', cl', ip'), _) <- src_bwd_pass f cfg w ds l cl ip u; Ok (ds', l', cl', ip').

Definition src_deps (w : list itask) (t : nat) : res (list nat) :=
  fold_res (fun st p => Ok (st ++ k_succs (gett w p))) (ancestors w (length w) t) (k_succs (gett w t)).

Lemma src_bwd_pass_S : forall f cfg w ds l cl ip t,
  src_bwd_pass (S f) cfg w ds l cl ip t =
  if k_ext (gett w t) then Ok ((ds, l, cl, ip), tt)
  else if existsb (Nat.eqb t) cl then Ok ((ds, l, cl, ip), tt)
  else if existsb (Nat.eqb t) ip then Err
  else
    do deps <- src_deps w t;
    do st1 <- fold_res (bstep f cfg w) deps (ds, l, cl, ip ++ [t]);
    let '(ds1, l1, cl1, ip1) := st1 in
    match somes (map (fun u => d_start (getdl ds1 u)) deps) ++ [pbound cfg] with
    | [] => Crash ValueError
    | x :: xs =>
        do st2 <- fold_res (bstep f cfg w) (rev (k_children (gett w t))) (ds1, l1, cl1, ip1);
        let '(ds2, l2, cl2, ip2) := st2 in
        tl_all cfg w t (fold_left Z.min xs x) ds2 l2 cl2 ip2
    end.
Proof. intros. reflexivity. Qed.

(* ---------- 2. small lemmas ---------- *)
Lemma set_nth_length {A} (l : list A) n x : length (set_nth l n x) = length l.
Proof. revert n. induction l as [|a l IH]; intros [|n]; simpl; auto. Qed.

Lemma nth_set_nth_same {A} (l : list A) n x d : (n < length l)%nat -> nth n (set_nth l n x) d = x.
Proof.
  revert n. induction l as [|a l IH]; intros [|n] H; simpl in *; try lia; auto. apply IH. lia.
Qed.

Lemma nth_set_nth_other {A} (l : list A) n m x d : m <> n -> nth m (set_nth l n x) d = nth m l d.
Proof.
  revert n m. induction l as [|a l IH]; intros [|n] [|m] H; simpl; auto; try congruence.
Qed.

Lemma set_nth_twice {A} (l : list A) n x y : set_nth (set_nth l n x) n y = set_nth l n y.
Proof. revert n. induction l as [|a l IH]; intros [|n]; simpl; auto. f_equal. apply IH. Qed.

Lemma set_nth_nth {A} (l : list A) n d : set_nth l n (nth n l d) = l.
Proof. revert n. induction l as [|a l IH]; intros [|n]; simpl; auto. f_equal. apply IH. Qed.

Lemma set_nth_oob {A} (l : list A) n x : (length l <= n)%nat -> set_nth l n x = l.
Proof.
  revert n. induction l as [|a l IH]; intros [|n] H; simpl in *; auto; try lia. f_equal. apply IH. lia.
Qed.

Lemma getdl_set_same ds t d : (t < length ds)%nat -> getdl (set_nth ds t d) t = d.
Proof. apply nth_set_nth_same. Qed.

(* a read of a field that the write leaves alone *)
Lemma getdl_set_field (X : dyn -> option Z) ds t d u :
  X d = X (getdl ds t) -> X (getdl (set_nth ds t d) u) = X (getdl ds u).
Proof.
  intros H. destruct (Nat.eq_dec u t) as [->|Hne].
  - destruct (Nat.lt_ge_cases t (length ds)) as [Hlt|Hge].
    + rewrite getdl_set_same by exact Hlt. exact H.
    + rewrite set_nth_oob by exact Hge. reflexivity.
  - unfold getdl. rewrite nth_set_nth_other by exact Hne. reflexivity.
Qed.

Lemma dupd_set ds t d f : (t < length ds)%nat -> dupd (set_nth ds t d) t f = set_nth ds t (f d).
Proof. intros H. unfold dupd. rewrite getdl_set_same by exact H. apply set_nth_twice. Qed.

Lemma dupd_dupd ds t f g : (t < length ds)%nat -> dupd (dupd ds t f) t g = dupd ds t (fun d => g (f d)).
Proof. intros H. unfold dupd at 2. rewrite dupd_set by exact H. reflexivity. Qed.

Lemma dupd_length ds t f : length (dupd ds t f) = length ds.
Proof. apply set_nth_length. Qed.

Lemma leafb_is_leaf w t : leafb w t = is_leaf (gett w t).
Proof. unfold leafb, is_leaf. destruct (k_children (gett w t)); reflexivity. Qed.

Lemma ext_false_lt w t : k_ext (gett w t) = false -> (t < length w)%nat.
Proof.
  intros H. destruct (Nat.lt_ge_cases t (length w)) as [Hlt|Hge]; [exact Hlt|].
  unfold gett in H. rewrite nth_overflow in H by exact Hge. discriminate.
Qed.

Lemma fold_min_acc l a b : fold_left Z.min l (Z.min a b) = Z.min (fold_left Z.min l a) b.
Proof.
  revert a. induction l as [|y l IH]; intros a; simpl; [reflexivity|].
  rewrite <- IH. f_equal. lia.
Qed.

(* min(xs + [b]) is the fold from b *)
Lemma min_app_last l b x xs : l ++ [b] = x :: xs -> fold_left Z.min xs x = fold_left Z.min l b.
Proof.
  destruct l as [|y l]; simpl; intros H; inversion H; subst; [reflexivity|].
  rewrite fold_left_app. simpl. rewrite (Z.min_comm b x). rewrite fold_min_acc. reflexivity.
Qed.

Lemma memb_iff t l : memb t l = true <-> In t l.
Proof.
  unfold memb. rewrite existsb_exists. split.
  - intros (x & Hin & E). apply Nat.eqb_eq in E. subst. exact Hin.
  - intros H. exists t. split; [exact H|apply Nat.eqb_refl].
Qed.

Lemma memb_same t a b : same_elts a b -> memb t a = memb t b.
Proof.
  intros H. destruct (memb t a) eqn:Ea, (memb t b) eqn:Eb; auto.
  - apply memb_iff in Ea. apply H in Ea. apply memb_iff in Ea. congruence.
  - apply memb_iff in Eb. apply H in Eb. apply memb_iff in Eb. congruence.
Qed.

Lemma memb_app_last t l : memb t (l ++ [t]) = true.
Proof. apply memb_iff. apply in_or_app. right. left. reflexivity. Qed.

Lemma src_remove1_app_last t l : memb t l = false -> src_remove1 t (l ++ [t]) = l.
Proof.
  induction l as [|y l IH]; simpl; intros H.
  - rewrite Nat.eqb_refl. reflexivity.
  - apply orb_false_iff in H. destruct H as [H1 H2]. rewrite H1. f_equal. apply IH. exact H2.
Qed.

Lemma src_deps_eq w t : src_deps w t = Ok (dependants w t).
Proof.
  unfold src_deps, dependants. generalize (k_succs (gett w t)) as a. generalize (ancestors w (length w) t) as l.
  induction l as [|p l IH]; intros a; simpl.
  - rewrite app_nil_r. reflexivity.
  - rewrite IH. rewrite app_assoc. reflexivity.
Qed.

(* ---------- 3. the per-task computation ---------- *)
(* the four values of [bwd_compute], each as the model computes it *)
Definition m_en (cfg : config) (w : list itask) (ds : list dyn) (l : ledger) (t : nat) (bound : Z) : res Z :=
  match d_end (getdl ds t) with
  | Some e => Ok e
  | None =>
      if is_leaf (gett w t) then bwd_nearest cfg l (k_res (gett w t)) t bound
      else match somes (map d_end (map (getdl ds) (k_children (gett w t)))) with
           | [] => Ok bound
           | x :: xs => Ok (fold_left Z.max xs x)
           end
  end.
Definition m_est (cfg : config) (w : list itask) (ds : list dyn) (t : nat) : res Z :=
  match d_est (getdl ds t) with
  | Some e => Ok e
  | None => if is_leaf (gett w t) then Ok (dflt_est cfg)
            else sum_opts (map d_est (map (getdl ds) (k_children (gett w t))))
  end.
Definition m_spent (w : list itask) (ds : list dyn) (t : nat) : res Z :=
  match d_spent (getdl ds t) with
  | Some e => Ok e
  | None => if is_leaf (gett w t) then Ok 0
            else sum_opts (map d_spent (map (getdl ds) (k_children (gett w t))))
  end.
Definition m_start (cfg : config) (w : list itask) (ds : list dyn) (l : ledger) (t : nat) (bound en est spent : Z)
  : res (ledger * Z) :=
  if is_leaf (gett w t) then
    do '(l', s) <- bwd_shift cfg l (k_res (gett w t)) t (Z.min en bound) (Z.max (est - spent) 0);
    Ok (l', match d_start (getdl ds t) with Some s0 => Z.min s0 s | None => s end)
  else
    match somes (map d_start (map (getdl ds) (k_children (gett w t)))) with
    | [] => Crash ValueError
    | x :: xs => Ok (l, fold_left Z.min xs x)
    end.

Lemma bwd_compute_stages cfg w ds l t bound :
  bwd_compute cfg w ds l t bound =
  if k_milestone (gett w t) then
    Ok (set_nth ds t {| d_start := Some bound; d_end := Some bound; d_est := Some 0; d_spent := Some 0 |}, l)
  else
    do en <- m_en cfg w ds l t bound;
    do est <- m_est cfg w ds t;
    do spent <- m_spent w ds t;
    do '(l', start) <- m_start cfg w ds l t bound en est spent;
    Ok (set_nth ds t {| d_start := Some start; d_end := Some en; d_est := Some est; d_spent := Some spent |}, l').
Proof. reflexivity. Qed.

Lemma bwd_compute_length cfg w ds l t bound r :
  bwd_compute cfg w ds l t bound = Ok r -> length (fst r) = length ds.
Proof.
  rewrite bwd_compute_stages. destruct (k_milestone (gett w t)).
  - intros H. inversion H. simpl. apply set_nth_length.
  - destruct (m_en cfg w ds l t bound) as [en| |]; cbn [bind]; try discriminate.
    destruct (m_est cfg w ds t) as [est| |]; cbn [bind]; try discriminate.
    destruct (m_spent w ds t) as [spent| |]; cbn [bind]; try discriminate.
    destruct (m_start cfg w ds l t bound en est spent) as [[l' st]| |]; cbn [bind]; try discriminate.
    intros H. inversion H. simpl. apply set_nth_length.
Qed.

Lemma with_end_id d e : d_end d = Some e -> with_end (Some e) d = d.
Proof. destruct d; simpl; intros ->; reflexivity. Qed.
Lemma with_est_id d e : d_est d = Some e -> with_est (Some e) d = d.
Proof. destruct d; simpl; intros ->; reflexivity. Qed.
Lemma with_spent_id d e : d_spent d = Some e -> with_spent (Some e) d = d.
Proof. destruct d; simpl; intros ->; reflexivity. Qed.

Lemma of_nat_len_cons {A} (x : A) xs : (Z.of_nat (length (x :: xs)) =? 0) = false.
Proof. apply Z.eqb_neq. simpl length. lia. Qed.

Section StageLemmas.
Variables (cfg : config) (w : list itask) (t : nat) (bound : Z).

(* _task.end: the three writes of the leaf branch collapse; nearest-minus-a-day plus a day is the model's nearest *)
Lemma tl_end_eq l K ds : (t < length ds)%nat ->
  tl_end cfg w t bound l K ds =
  do en <- m_en cfg w ds l t bound; K (set_nth ds t (with_end (Some en) (getdl ds t))).
Proof.
  intros Hlt. unfold tl_end, m_en. destruct (d_end (getdl ds t)) as [e|] eqn:E; cbn [bind].
  - rewrite (with_end_id _ _ E). unfold getdl. rewrite set_nth_nth. reflexivity.
  - rewrite leafb_is_leaf. destruct (is_leaf (gett w t)).
    + unfold bwd_nearest_src. destruct (bwd_nearest cfg l (k_res (gett w t)) t bound) as [z| |]; cbn [bind]; auto.
      rewrite !dupd_dupd by (rewrite ?dupd_length; exact Hlt). unfold dupd. replace (z - DAY + 1 * DAY) with z by lia. reflexivity.
    + rewrite map_map.
      destruct (somes (map (fun x => d_end (getdl ds x)) (k_children (gett w t)))) as [|x xs]; cbn [bind].
      * reflexivity.
      * rewrite of_nat_len_cons. reflexivity.
Qed.

Lemma tl_est_eq K ds : (t < length ds)%nat ->
  tl_est cfg w t K ds = do e <- m_est cfg w ds t; K (set_nth ds t (with_est (Some e) (getdl ds t))).
Proof.
  intros Hlt. unfold tl_est, m_est. destruct (d_est (getdl ds t)) as [e|] eqn:E; cbn [bind].
  - rewrite (with_est_id _ _ E). unfold getdl. rewrite set_nth_nth. reflexivity.
  - rewrite leafb_is_leaf. destruct (is_leaf (gett w t)); cbn [bind]; [reflexivity|].
    rewrite map_map. reflexivity.
Qed.

Lemma tl_spent_eq K ds : (t < length ds)%nat ->
  tl_spent w t K ds = do e <- m_spent w ds t; K (set_nth ds t (with_spent (Some e) (getdl ds t))).
Proof.
  intros Hlt. unfold tl_spent, m_spent. destruct (d_spent (getdl ds t)) as [e|] eqn:E; cbn [bind].
  - rewrite (with_spent_id _ _ E). unfold getdl. rewrite set_nth_nth. reflexivity.
  - rewrite leafb_is_leaf. destruct (is_leaf (gett w t)); cbn [bind]; [reflexivity|].
    rewrite map_map. reflexivity.
Qed.

(* _task.start: the re-reads of estimate / spent / end find what was just written *)
Lemma tl_start_eq l K ds e s en : (t < length ds)%nat ->
  d_est (getdl ds t) = Some e -> d_spent (getdl ds t) = Some s -> d_end (getdl ds t) = Some en ->
  tl_start cfg w t bound l K ds =
  do '(l', st) <- m_start cfg w ds l t bound en e s; K (set_nth ds t (with_start (Some st) (getdl ds t))) l'.
Proof.
  intros Hlt He Hs Hen. unfold tl_start, m_start. rewrite leafb_is_leaf. destruct (is_leaf (gett w t)).
  - rewrite He, Hs, Hen.
    destruct (bwd_shift cfg l (k_res (gett w t)) t (Z.min en bound) (Z.max (e - s) 0)) as [[l' r]| |]; cbn [bind]; auto.
    destruct (d_start (getdl ds t)); reflexivity.
  - rewrite map_map.
    destruct (somes (map (fun x => d_start (getdl ds x)) (k_children (gett w t)))) as [|x xs]; cbn [bind]; reflexivity.
Qed.

(* the children's values are read after writes to other fields of the task *)
Lemma m_est_indep ds d : (t < length ds)%nat -> d_est d = d_est (getdl ds t) ->
  m_est cfg w (set_nth ds t d) t = m_est cfg w ds t.
Proof.
  intros Hlt H. unfold m_est. rewrite getdl_set_same by exact Hlt. rewrite H. rewrite !map_map.
  rewrite (map_ext (fun x => d_est (getdl (set_nth ds t d) x)) (fun x => d_est (getdl ds x))); [reflexivity|].
  intros u. apply (getdl_set_field d_est). exact H.
Qed.

Lemma m_spent_indep ds d : (t < length ds)%nat -> d_spent d = d_spent (getdl ds t) ->
  m_spent w (set_nth ds t d) t = m_spent w ds t.
Proof.
  intros Hlt H. unfold m_spent. rewrite getdl_set_same by exact Hlt. rewrite H. rewrite !map_map.
  rewrite (map_ext (fun x => d_spent (getdl (set_nth ds t d) x)) (fun x => d_spent (getdl ds x))); [reflexivity|].
  intros u. apply (getdl_set_field d_spent). exact H.
Qed.

Lemma m_start_indep ds d l en e s : (t < length ds)%nat -> d_start d = d_start (getdl ds t) ->
  m_start cfg w (set_nth ds t d) l t bound en e s = m_start cfg w ds l t bound en e s.
Proof.
  intros Hlt H. unfold m_start. rewrite getdl_set_same by exact Hlt. rewrite H. rewrite !map_map.
  rewrite (map_ext (fun x => d_start (getdl (set_nth ds t d) x)) (fun x => d_start (getdl ds x))); [reflexivity|].
  intros u. apply (getdl_set_field d_start). exact H.
Qed.

(* The per-task computation of the source (everything after the two loops) is the model's [bwd_compute] followed by
   the bookkeeping of the two lists. *)
Lemma tl_all_compute ds l cl ip : (t < length ds)%nat ->
  tl_all cfg w t bound ds l cl ip =
  do r <- bwd_compute cfg w ds l t bound; tl_fin t cl ip (fst r) (snd r).
Proof.
  intros Hlt. unfold tl_all. rewrite bwd_compute_stages. destruct (k_milestone (gett w t)); cbn [bind fst snd].
  - rewrite !dupd_dupd by (rewrite ?dupd_length; exact Hlt). reflexivity.
  - rewrite tl_end_eq by exact Hlt.
    destruct (m_en cfg w ds l t bound) as [en| |]; cbn [bind]; auto.
    rewrite tl_est_eq by (rewrite set_nth_length; exact Hlt).
    rewrite m_est_indep by (exact Hlt || reflexivity).
    destruct (m_est cfg w ds t) as [est| |]; cbn [bind]; auto.
    rewrite getdl_set_same by exact Hlt. rewrite set_nth_twice.
    rewrite tl_spent_eq by (rewrite set_nth_length; exact Hlt).
    rewrite m_spent_indep by (exact Hlt || reflexivity).
    destruct (m_spent w ds t) as [spent| |]; cbn [bind]; auto.
    rewrite getdl_set_same by exact Hlt. rewrite set_nth_twice.
    rewrite (tl_start_eq l _ _ est spent en)
      by (try (rewrite set_nth_length; exact Hlt); rewrite getdl_set_same by exact Hlt; reflexivity).
    rewrite m_start_indep by (exact Hlt || reflexivity).
    destruct (m_start cfg w ds l t bound en est spent) as [[l' st]| |]; cbn [bind fst snd]; auto.
    rewrite getdl_set_same by exact Hlt. rewrite set_nth_twice. reflexivity.
Qed.
End StageLemmas.

(* ---------- 4. the induction on fuel ---------- *)
Definition res_rel {A B} (R : A -> B -> Prop) (m : res A) (c : res B) : Prop :=
  match m, c with
  | Ok a, Ok b => R a b
  | Err, Err => True
  | Crash a, Crash b => a = b
  | _, _ => False
  end.

Lemma res_rel_bind {A B A' B'} (R : A -> B -> Prop) (R' : A' -> B' -> Prop) m c k k' :
  res_rel R m c -> (forall a b, R a b -> res_rel R' (k a) (k' b)) ->
  res_rel R' (do a <- m; k a) (do b <- c; k' b).
Proof.
  intros H Hk. destruct m as [a| |ka], c as [b| |kb]; simpl in *; try contradiction; auto.
Qed.

Lemma res_rel_impl {A B} (R R' : A -> B -> Prop) m c :
  res_rel R m c -> (forall a b, R a b -> R' a b) -> res_rel R' m c.
Proof. intros H Hi. destruct m, c; simpl in *; auto. Qed.

(* related states whose dynamic part covers the WBS (a write beyond the end of [ds] would be lost and the re-read
   would find None: see [short_ds_counterexample]) *)
Definition srel (w : list itask) (st : sst) (x : pstate) : Prop :=
  st_rel st x /\ (length w <= length (fst (fst (fst x))))%nat.

(* the result of a call: related states, the caller's in_progress list given back *)
Definition prel (w : list itask) (ip : list nat) (st' : sst) (x' : pstate) : Prop :=
  srel w st' x' /\ snd x' = ip.

Lemma bstep_eq f cfg w ds l cl ip u :
  bstep f cfg w (ds, l, cl, ip) u = do xu <- src_bwd_pass f cfg w ds l cl ip u; Ok (fst xu).
Proof.
  unfold bstep. destruct (src_bwd_pass f cfg w ds l cl ip u) as [[[[[ds' l'] cl'] ip'] []]| |]; reflexivity.
Qed.

Lemma fold_prel {A} w (M : sst -> A -> res sst) (C : pstate -> A -> res pstate) :
  (forall st x u, srel w st x -> res_rel (prel w (snd x)) (M st u) (C x u)) ->
  forall ts st x, srel w st x -> res_rel (prel w (snd x)) (fold_res M ts st) (fold_res C ts x).
Proof.
  intros Hstep ts. induction ts as [|u ts IH]; intros st x Hrel; cbn [fold_res].
  - simpl. split; [exact Hrel|reflexivity].
  - apply (res_rel_bind (prel w (snd x))); [apply Hstep; exact Hrel|].
    intros st' x' [Hrel' Hip]. rewrite <- Hip. apply IH. exact Hrel'.
Qed.

Lemma bwd_pass_S f cfg w st t :
  bwd_pass (S f) cfg w st t =
  if k_ext (gett w t) then Ok st
  else if memb t (calc st) then Ok st
  else if memb t (inprog st) then Err
  else
    do st2 <- fold_res (bwd_pass f cfg w) (dependants w t) (enter st t);
    do st3 <- fold_res (bwd_pass f cfg w) (rev (k_children (gett w t))) st2;
    do r <- bwd_compute cfg w (dy st3) (lg st3) t (bound_min (dy st2) (dependants w t) (pbound cfg));
    Ok (leave st3 t r).
Proof. reflexivity. Qed.

Lemma same_elts_cons_app t a b : same_elts a b -> same_elts (t :: a) (b ++ [t]).
Proof.
  intros H u. rewrite in_app_iff. simpl. rewrite (H u). tauto.
Qed.

Lemma same_elts_remove t a b : same_elts a (b ++ [t]) -> memb t b = false -> same_elts (remove_nat t a) b.
Proof.
  intros H Hn u. unfold remove_nat. rewrite filter_In. rewrite (H u). rewrite in_app_iff. simpl.
  rewrite negb_true_iff, Nat.eqb_neq. split.
  - intros [[Hin|[E|[]]] Hne]; [exact Hin|congruence].
  - intros Hin. split; [left; exact Hin|]. intros ->. apply memb_iff in Hin. congruence.
Qed.

(* the main relation, with the length invariant carried along *)
Lemma src_bwd_pass_prel cfg w : forall fuel st ds l cl ip t,
  srel w st (ds, l, cl, ip) ->
  res_rel (fun st' xu => prel w ip st' (fst xu)) (bwd_pass fuel cfg w st t) (src_bwd_pass fuel cfg w ds l cl ip t).
Proof.
  induction fuel as [|f IH]; intros st ds l cl ip t Hrel.
  - simpl. reflexivity.
  - assert (Hstep : forall st x u, srel w st x ->
                     res_rel (prel w (snd x)) (bwd_pass f cfg w st u) (bstep f cfg w x u)).
    { intros st0 [[[ds0 l0] cl0] ip0] u H0. rewrite bstep_eq.
      replace (bwd_pass f cfg w st0 u) with (do a <- bwd_pass f cfg w st0 u; Ok a)
        by (destruct (bwd_pass f cfg w st0 u); reflexivity).
      apply (res_rel_bind (fun st' xu => prel w ip0 st' (fst xu))); [apply IH; exact H0|].
      intros a b Hab. exact Hab. }
    rewrite src_bwd_pass_S, bwd_pass_S.
    destruct Hrel as [(Hds & Hl & Hcl & Hip) Hlen]. cbn [fst] in Hlen.
    destruct (k_ext (gett w t)) eqn:Hext.
    { simpl. split; [|reflexivity]. split; [|exact Hlen]. repeat split; auto; apply Hcl || apply Hip. }
    rewrite (memb_same t _ _ Hcl). fold (memb t cl). destruct (memb t cl) eqn:Hmc.
    { simpl. split; [|reflexivity]. split; [|exact Hlen]. repeat split; auto; apply Hcl || apply Hip. }
    rewrite (memb_same t _ _ Hip). fold (memb t ip). destruct (memb t ip) eqn:Hmi.
    { simpl. exact I. }
    rewrite src_deps_eq. cbn [bind].
    (* the successors *)
    apply (res_rel_bind (prel w (ip ++ [t]))).
    { apply (fold_prel w _ _ Hstep _ (enter st t) (ds, l, cl, ip ++ [t])).
      split; [|exact Hlen]. repeat split; auto; try apply Hcl. 
      - apply (same_elts_cons_app t _ _ Hip).
      - apply (same_elts_cons_app t _ _ Hip). }
    intros st2 [[[ds1 l1] cl1] ip1] [Hrel1 Hip1]. cbn [snd] in Hip1. subst ip1.
    destruct (somes (map (fun u => d_start (getdl ds1 u)) (dependants w t)) ++ [pbound cfg]) as [|x xs] eqn:Ebnd.
    { destruct (somes (map (fun u => d_start (getdl ds1 u)) (dependants w t))); discriminate. }
    apply min_app_last in Ebnd.
    (* the children *)
    apply (res_rel_bind (prel w (ip ++ [t]))).
    { apply (fold_prel w _ _ Hstep _ st2 (ds1, l1, cl1, ip ++ [t])). exact Hrel1. }
    intros st3 [[[ds2 l2] cl2] ip2] [Hrel2 Hip2]. cbn [snd] in Hip2. subst ip2.
    destruct Hrel1 as [(Hds1 & _) _]. destruct Hrel2 as [(Hds2 & Hl2 & Hcl2 & Hip2) Hlen2]. cbn [fst] in Hlen2.
    (* the task itself *)
    assert (Hlt : (t < length ds2)%nat) by (apply ext_false_lt in Hext; lia).
    rewrite (tl_all_compute cfg w t _ ds2 l2 cl2 (ip ++ [t]) Hlt).
    unfold bound_min. rewrite Hds1, Hds2, Hl2, Ebnd.
    destruct (bwd_compute cfg w ds2 l2 t (fold_left Z.min (somes (map (fun p => d_start (getdl ds1 p)) (dependants w t)))
                                                    (pbound cfg))) as [r| |] eqn:Ecomp; cbn [bind]; [|exact I|reflexivity].
    unfold tl_fin. fold (memb t (ip ++ [t])). rewrite memb_app_last. rewrite (src_remove1_app_last t ip Hmi).
    simpl. split; [|reflexivity]. split.
    + repeat split; auto.
      * apply (same_elts_cons_app t _ _ Hcl2).
      * apply (same_elts_cons_app t _ _ Hcl2).
      * apply (same_elts_remove t _ _ Hip2 Hmi).
      * apply (same_elts_remove t _ _ Hip2 Hmi).
    + simpl. rewrite (bwd_compute_length _ _ _ _ _ _ _ Ecomp). exact Hlen2.
Qed.

(* ---------- the statements ---------- *)
(* The relation as asked for, with one more hypothesis: the dynamic part covers the WBS.  Without it the statement is
   false ([short_ds_counterexample]): a write to `_task.end` beyond the end of [ds] is lost ([set_nth] is then the
   identity), the code's re-read finds None (TypeError) while the model, which computes the four values first and
   writes once, returns.  The schedulers only ever run with [ds = map init_dyn w] and the passes keep the length.
   [NoDup ip] is not needed (the guard `_task in in_progress` is enough for `remove` to give the list back). *)
Theorem src_bwd_pass_rel_len : forall fuel cfg w st ds l cl ip t,
  st_rel st (ds, l, cl, ip) -> (length w <= length ds)%nat ->
  pass_rel ip (bwd_pass fuel cfg w st t) (src_bwd_pass fuel cfg w ds l cl ip t).
Proof.
  intros fuel cfg w st ds l cl ip t Hrel Hlen.
  pose proof (src_bwd_pass_prel cfg w fuel st ds l cl ip t (conj Hrel Hlen)) as H.
  unfold pass_rel. destruct (bwd_pass fuel cfg w st t) as [st'| |ka], (src_bwd_pass fuel cfg w ds l cl ip t) as [[x' u]| |kb];
    simpl in H; try contradiction; auto.
  destruct H as [[Hr _] Hip]. split; assumption.
Qed.

Theorem src_bwd_pass_rel : forall fuel cfg w st ds l cl ip t,
  st_rel st (ds, l, cl, ip) -> NoDup ip -> (length w <= length ds)%nat ->
  pass_rel ip (bwd_pass fuel cfg w st t) (src_bwd_pass fuel cfg w ds l cl ip t).
Proof. intros fuel cfg w st ds l cl ip t Hrel _ Hlen. apply src_bwd_pass_rel_len; assumption. Qed.

(* an Ok call keeps the dynamic part at least as long as the WBS (the invariant that makes the relation compose) *)
Theorem src_bwd_pass_covers : forall fuel cfg w st ds l cl ip t ds' l' cl' ip' u,
  st_rel st (ds, l, cl, ip) -> (length w <= length ds)%nat ->
  src_bwd_pass fuel cfg w ds l cl ip t = Ok ((ds', l', cl', ip'), u) -> (length w <= length ds')%nat.
Proof.
  intros fuel cfg w st ds l cl ip t ds' l' cl' ip' u Hrel Hlen E.
  pose proof (src_bwd_pass_prel cfg w fuel st ds l cl ip t (conj Hrel Hlen)) as H. rewrite E in H.
  destruct (bwd_pass fuel cfg w st t); simpl in H; try contradiction. destruct H as [[_ H] _]. exact H.
Qed.

Lemma roots_fold_rel cfg w F : forall rts st ds l cl,
  srel w st (ds, l, cl, []) ->
  calc_rel (fold_res (bwd_pass F cfg w) rts st)
           (fold_res (fun st t => let '(ds, l, cl) := st in
                                  do '((ds2, l2, cl2, _), _) <- src_bwd_pass F cfg w ds l cl [] t; Ok (ds2, l2, cl2))
                     rts (ds, l, cl)).
Proof.
  induction rts as [|u rts IH]; intros st ds l cl Hrel; cbn [fold_res].
  - destruct Hrel as [(Hds & Hl & Hcl & _) _]. simpl. auto.
  - pose proof (src_bwd_pass_prel cfg w F st ds l cl [] u Hrel) as H.
    destruct (bwd_pass F cfg w st u) as [st'| |ka], (src_bwd_pass F cfg w ds l cl [] u) as [[[[[ds' l'] cl'] ip'] []]| |kb];
      simpl in H; try contradiction; cbn [bind].
    + destruct H as [Hrel' Hip]. cbn [fst snd] in Hip. subst ip'. apply IH. exact Hrel'.
    + exact I.
    + exact H.
Qed.

Theorem src_backward_rel : forall cfg w, isolated_ok w = true ->
  calc_rel (backward cfg w) (src_roots_fold src_bwd_pass cfg w (rev (roots w))).
Proof.
  intros cfg w Hiso. unfold backward, src_roots_fold. rewrite Hiso. cbn [negb].
  apply roots_fold_rel. split.
  - simpl. repeat split; auto.
  - cbn [fst]. rewrite map_length. apply Nat.le_refl.
Qed.

(* transport: whatever is proved about the model's result is a statement about the translated source *)
Corollary src_backward_Ok : forall cfg w ds l cl, isolated_ok w = true ->
  src_roots_fold src_bwd_pass cfg w (rev (roots w)) = Ok (ds, l, cl) ->
  exists st, backward cfg w = Ok st /\ dy st = ds /\ lg st = l /\ same_elts (calc st) cl.
Proof.
  intros cfg w ds l cl Hiso E. pose proof (src_backward_rel cfg w Hiso) as H. rewrite E in H.
  destruct (backward cfg w) as [st| |k]; simpl in H; try contradiction. exists st. split; [reflexivity|exact H].
Qed.

Corollary src_backward_outcome : forall cfg w, isolated_ok w = true ->
  outcome_code (src_roots_fold src_bwd_pass cfg w (rev (roots w))) = outcome_code (backward cfg w).
Proof.
  intros cfg w Hiso. pose proof (src_backward_rel cfg w Hiso) as H.
  destruct (backward cfg w) as [st| |ka], (src_roots_fold src_bwd_pass cfg w (rev (roots w))) as [[[ds l] cl]| |kb];
    simpl in H; try contradiction; simpl; auto. rewrite H. reflexivity.
Qed.

(* ---------- instances ---------- *)
Definition ex_cfg : config :=
  {| cap := fun _ _ => 64; balance := true; dflt_est := 0; pbound := 19723 * DAY; now := 19700 * DAY;
     h_search := 1000; h_near := 1000; h_fill := 1000 |}.
Definition ex_task (p : option nat) (ch pr su : list nat) (ms : bool) (est : option Z) : itask :=
  {| k_parent := p; k_children := ch; k_preds := pr; k_succs := su; k_ext := false; k_milestone := ms;
     k_res := 0; k_est := est; k_spent := None; k_start := None; k_end := None; k_minstart := None |}.

(* the first statement of the brief without the length hypothesis: one leaf task, an empty dynamic part; the model
   returns, the code raises TypeError *)
Example short_ds_counterexample :
  let w := [ex_task None [] [] [] false (Some 80)] in
  let st := {| dy := []; lg := []; calc := []; inprog := [] |} in
  st_rel st ([], [], [], []) /\ NoDup (@nil nat) /\
  bwd_pass 3 ex_cfg w st 0 = Ok {| dy := []; lg := []; calc := [0%nat]; inprog := [] |} /\
  src_bwd_pass 3 ex_cfg w [] [] [] [] 0 = Crash TypeError /\
  ~ pass_rel [] (bwd_pass 3 ex_cfg w st 0) (src_bwd_pass 3 ex_cfg w [] [] [] [] 0).
Proof.
  cbv zeta. split; [|split; [constructor|]].
  - simpl. repeat split; auto.
  - split; [vm_compute; reflexivity|]. split; [vm_compute; reflexivity|]. vm_compute. intros H. exact H.
Qed.

(* non-vacuity: a summary task (0) with two children (1 before 2: a dependency) and a milestone (3) that follows the
   summary task; the translated source returns, and so does the model, with the same dates and reservations *)
Definition ex_w : list itask :=
  [ ex_task None [1; 2]%nat [] [3%nat] false None;
    ex_task (Some 0%nat) [] [] [2%nat] false (Some 80);
    ex_task (Some 0%nat) [] [1%nat] [] false (Some 40);
    ex_task None [] [0%nat] [] true None ].

Example src_backward_nonvacuous :
  isolated_ok ex_w = true /\
  is_ok (src_roots_fold src_bwd_pass ex_cfg ex_w (rev (roots ex_w))) = true /\
  (forall ds l cl, src_roots_fold src_bwd_pass ex_cfg ex_w (rev (roots ex_w)) = Ok (ds, l, cl) ->
     length l = 3%nat /\ d_start (getdl ds 3) = Some (19723 * DAY) /\ d_est (getdl ds 0) = Some 120
     /\ cl = [3; 2; 1; 0]%nat).
Proof.
  split; [vm_compute; reflexivity|]. split; [vm_compute; reflexivity|].
  intros ds l cl. vm_compute. intros H. inversion H. repeat split; reflexivity.
Qed.

Print Assumptions src_bwd_pass_S.
Print Assumptions tl_all_compute.
Print Assumptions src_bwd_pass_rel_len.
Print Assumptions src_bwd_pass_rel.
Print Assumptions src_bwd_pass_covers.
Print Assumptions src_backward_rel.
Print Assumptions src_backward_Ok.
Print Assumptions src_backward_outcome.
Print Assumptions short_ds_counterexample.
Print Assumptions src_backward_nonvacuous.
