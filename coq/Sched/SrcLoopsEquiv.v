(* The translated `_check_loops` (gen/SrcPass.v: src_check_loops, from schedule.py) accepts every well-formed WBS
   (WFin, Sched/WfIn.v) and refuses a member that lists itself among its predecessors.  Proofs only. *)
From PJ Require Import Base.Prelude Sched.Model Sched.WfIn gen.SrcPass.

(* ---------- the search, one step unfolded ---------- *)
Definition loops_step (fuel : nat) (w : list itask) : (list nat * list nat) -> nat -> res (list nat * list nat) :=
  fun st s => let '(vis, val) := st in
    (do '((vis', val'), _) <- src_check_loops_from_task fuel w vis val s; Ok (vis', val')).

Lemma loops_unfold : forall fuel w vis val t,
  src_check_loops_from_task (S fuel) w vis val t =
  if existsb (Nat.eqb t) val then Ok ((vis, val), tt)
  else if existsb (Nat.eqb t) vis then Err
  else (do st <- fold_res (loops_step fuel w) (k_preds (gett w t)) (vis ++ [t], val);
        let '(vis3, val4) := st in
        if existsb (Nat.eqb t) vis3 then Ok ((src_remove1 t vis3, val4 ++ [t]), tt) else Crash KeyError).
Proof. reflexivity. Qed.

Lemma existsb_eqb_In : forall t l, existsb (Nat.eqb t) l = true <-> In t l.
Proof.
  intros t l. rewrite existsb_exists. split.
  - intros [x [Hin Heq]]. apply Nat.eqb_eq in Heq. subst. exact Hin.
  - intros Hin. exists t. split; [exact Hin | apply Nat.eqb_refl].
Qed.

Lemma existsb_eqb_notIn : forall t l, existsb (Nat.eqb t) l = false <-> ~ In t l.
Proof.
  intros t l. rewrite <- existsb_eqb_In. destruct (existsb (Nat.eqb t) l); split; intros H.
  - discriminate.
  - exfalso. apply H. reflexivity.
  - intros H'. discriminate.
  - reflexivity.
Qed.

Lemma src_remove1_app_last : forall t l, ~ In t l -> src_remove1 t (l ++ [t]) = l.
Proof.
  intros t l. induction l as [|y r IH]; intros Hn; cbn.
  - rewrite Nat.eqb_refl. reflexivity.
  - destruct (Nat.eqb t y) eqn:E.
    + apply Nat.eqb_eq in E. exfalso. apply Hn. left. symmetry. exact E.
    + f_equal. apply IH. intros H. apply Hn. right. exact H.
Qed.

(* ---------- acceptance ---------- *)
Definition dok (w : list itask) (d : nat) (t : nat) : bool := is_ext w t || pred_depth_ok w d t.

Lemma pred_depth_ok_mono : forall w d t, pred_depth_ok w d t = true -> pred_depth_ok w (S d) t = true.
Proof.
  intros w d. induction d as [|d IH]; intros t H.
  - discriminate.
  - cbn [pred_depth_ok] in H. cbn [pred_depth_ok]. rewrite forallb_forall in *.
    intros p Hp. specialize (H p Hp). apply orb_true_iff in H. apply orb_true_iff.
    destruct H as [H|H]; [left; exact H | right; apply IH; exact H].
Qed.

Lemma dok_mono : forall w d t, dok w d t = true -> dok w (S d) t = true.
Proof.
  intros w d t H. unfold dok in *. apply orb_true_iff in H. apply orb_true_iff.
  destruct H as [H|H]; [left; exact H | right; apply pred_depth_ok_mono; exact H].
Qed.

Section Accept.
  Variable w : list itask.
  Hypothesis Hext : forall t, is_ext w t = true -> k_preds (gett w t) = [].

  (* the predecessors are searched with the path unchanged *)
  Lemma loops_fold_ok : forall fuel vis l val,
    (forall p, In p l -> forall val0, exists val1, src_check_loops_from_task fuel w vis val0 p = Ok ((vis, val1), tt)) ->
    exists val', fold_res (loops_step fuel w) l (vis, val) = Ok (vis, val').
  Proof.
    intros fuel vis l. induction l as [|a r IH]; intros val H.
    - exists val. reflexivity.
    - destruct (H a (or_introl eq_refl) val) as [val1 H1].
      destruct (IH val1) as [val' H'].
      { intros p Hp. apply H. right. exact Hp. }
      exists val'. cbn [fold_res]. unfold loops_step at 1. rewrite H1. cbn [bind]. exact H'.
  Qed.

  (* one level of the search, given that the predecessors behave *)
  Lemma loops_node_ok : forall fuel vis val t,
    ~ In t vis ->
    (forall p, In p (k_preds (gett w t)) -> forall val0,
       exists val1, src_check_loops_from_task fuel w (vis ++ [t]) val0 p = Ok ((vis ++ [t], val1), tt)) ->
    exists val', src_check_loops_from_task (S fuel) w vis val t = Ok ((vis, val'), tt).
  Proof.
    intros fuel vis val t Hn Hp. rewrite loops_unfold.
    destruct (existsb (Nat.eqb t) val) eqn:Ev.
    - exists val. reflexivity.
    - apply existsb_eqb_notIn in Hn. rewrite Hn.
      destruct (loops_fold_ok fuel (vis ++ [t]) (k_preds (gett w t)) val Hp) as [val' H'].
      rewrite H'. cbn [bind].
      assert (Hin : existsb (Nat.eqb t) (vis ++ [t]) = true).
      { apply existsb_eqb_In. apply in_or_app. right. left. reflexivity. }
      rewrite Hin. rewrite src_remove1_app_last.
      + exists (val' ++ [t]). reflexivity.
      + apply existsb_eqb_notIn. exact Hn.
  Qed.

  Lemma loops_from_task_ok : forall d fuel vis val t,
    (d < fuel)%nat -> dok w d t = true -> (forall v, In v vis -> dok w d v = false) ->
    exists val', src_check_loops_from_task fuel w vis val t = Ok ((vis, val'), tt).
  Proof.
    intros d. induction d as [|d IH]; intros fuel vis val t Hf Hd Hvis.
    - (* only a task outside the WBS: no predecessors *)
      destruct fuel as [|fuel]; [lia|].
      apply loops_node_ok.
      + intros Hin. apply Hvis in Hin. rewrite Hin in Hd. discriminate.
      + unfold dok in Hd. cbn [pred_depth_ok] in Hd. rewrite orb_false_r in Hd.
        rewrite (Hext t Hd). intros p [].
    - destruct (dok w d t) eqn:Ed.
      + apply IH; [lia | exact Ed |].
        intros v Hv. destruct (dok w d v) eqn:E; [|reflexivity].
        apply dok_mono in E. rewrite (Hvis v Hv) in E. discriminate.
      + destruct fuel as [|fuel]; [lia|].
        apply loops_node_ok.
        * intros Hin. apply Hvis in Hin. rewrite Hin in Hd. discriminate.
        * intros p Hp val0. apply IH; [lia | |].
          -- unfold dok in Hd, Ed. apply orb_false_iff in Ed. destruct Ed as [Ee _]. rewrite Ee in Hd.
             cbn [orb pred_depth_ok] in Hd. rewrite forallb_forall in Hd. apply Hd in Hp. exact Hp.
          -- intros v Hv. apply in_app_or in Hv. destruct Hv as [Hv|[Hv|[]]].
             ++ destruct (dok w d v) eqn:E; [|reflexivity].
                apply dok_mono in E. rewrite (Hvis v Hv) in E. discriminate.
             ++ subst v. exact Ed.
  Qed.

  Lemma loops_members_ok : forall l val,
    (forall t, In t l -> dok w (length w) t = true) ->
    exists val', fold_res (fun st t => let 'validated := st in
        (do '((_, validated'), _) <- src_check_loops_from_task (S (length w)) w [] validated t; Ok validated')) l val = Ok val'.
  Proof.
    intros l. induction l as [|a r IH]; intros val H.
    - exists val. reflexivity.
    - destruct (loops_from_task_ok (length w) (S (length w)) [] val a) as [val1 H1].
      + lia.
      + apply H. left. reflexivity.
      + intros v [].
      + destruct (IH val1) as [val' H'].
        { intros t Ht. apply H. right. exact Ht. }
        exists val'. cbn [fold_res]. rewrite H1. cbn [bind]. exact H'.
  Qed.
End Accept.

Lemma wfin_ext_no_preds : forall w, WFin w -> forall t, is_ext w t = true -> k_preds (gett w t) = [].
Proof.
  intros w Hwf t He. destruct (Nat.lt_ge_cases t (length w)) as [Hlt|Hge].
  - unfold WFin, wfin_b in Hwf. rewrite forallb_forall in Hwf.
    assert (Hin : In t (seq 0 (length w))) by (apply in_seq; lia).
    specialize (Hwf t Hin). rewrite He in Hwf. unfold wfin_ext_b in Hwf.
    destruct (k_parent (gett w t)); [discriminate|].
    destruct (k_children (gett w t)); [|discriminate].
    destruct (k_preds (gett w t)); [reflexivity|discriminate].
  - unfold gett. rewrite nth_overflow by exact Hge. reflexivity.
Qed.

Lemma wfin_member_depth : forall w, WFin w -> forall t, In t (members w) -> pred_depth_ok w (length w) t = true.
Proof.
  intros w Hwf t Hm. unfold members in Hm. apply filter_In in Hm. destruct Hm as [Hin Hne].
  unfold WFin, wfin_b in Hwf. rewrite forallb_forall in Hwf. specialize (Hwf t Hin).
  unfold is_ext in Hwf. apply negb_true_iff in Hne. rewrite Hne in Hwf.
  apply andb_true_iff in Hwf. destruct Hwf as [_ H]. exact H.
Qed.

Theorem src_check_loops_accepts : forall w, WFin w -> src_check_loops w = Ok tt.
Proof.
  intros w Hwf. unfold src_check_loops.
  destruct (loops_members_ok w (wfin_ext_no_preds w Hwf) (members w) []) as [val' H'].
  - intros t Ht. unfold dok. rewrite (wfin_member_depth w Hwf t Ht). apply orb_true_r.
  - rewrite H'. reflexivity.
Qed.

(* ---------- refusal of a self-loop ---------- *)
Section Refuse.
  Variable w : list itask.
  Variable t : nat.
  Hypothesis Hself : In t (k_preds (gett w t)).

  (* what a successful call gives back: the path unchanged, and [t] still not validated *)
  Definition call_inv (fuel : nat) : Prop :=
    forall vis val x vis' val', src_check_loops_from_task fuel w vis val x = Ok ((vis', val'), tt) ->
      vis' = vis /\ (~ In t val -> ~ In t val').

  Lemma refuse_fold_inv : forall fuel, call_inv fuel -> forall l vis val vis' val',
    fold_res (loops_step fuel w) l (vis, val) = Ok (vis', val') -> vis' = vis /\ (~ In t val -> ~ In t val').
  Proof.
    intros fuel Hc l. induction l as [|a r IH]; intros vis val vis' val' H.
    - cbn in H. inversion H. subst. split; [reflexivity | auto].
    - cbn [fold_res] in H. unfold loops_step at 1 in H.
      destruct (src_check_loops_from_task fuel w vis val a) as [[[v1 va1] []]| |k] eqn:E; cbn [bind] in H; try discriminate.
      apply Hc in E. destruct E as [E1 E2]. subst v1.
      apply IH in H. destruct H as [H1 H2]. split; [exact H1 | auto].
  Qed.

  (* with [t] on the path and among the tasks to search, the search of the list does not return *)
  Lemma refuse_fold_hit : forall fuel, call_inv fuel -> forall l vis val,
    In t l -> In t vis -> ~ In t val -> forall st, fold_res (loops_step fuel w) l (vis, val) <> Ok st.
  Proof.
    intros fuel Hc l. induction l as [|a r IH]; intros vis val Hl Hv Hn st H.
    - destruct Hl.
    - cbn [fold_res] in H. unfold loops_step at 1 in H.
      destruct (src_check_loops_from_task fuel w vis val a) as [[[v1 va1] []]| |k] eqn:E; cbn [bind] in H; try discriminate.
      destruct (Nat.eq_dec a t) as [Ea|Ea].
      + subst a. destruct fuel as [|fuel]; [cbn in E; discriminate|].
        rewrite loops_unfold in E.
        apply existsb_eqb_notIn in Hn. rewrite Hn in E.
        apply existsb_eqb_In in Hv. rewrite Hv in E. discriminate.
      + apply Hc in E. destruct E as [E1 E2]. subst v1.
        destruct Hl as [Hl|Hl]; [contradiction|].
        exact (IH vis va1 Hl Hv (E2 Hn) st H).
  Qed.

  (* the search from [t] itself does not return *)
  Lemma refuse_at_self : forall fuel, call_inv fuel -> forall vis val r,
    ~ In t val -> src_check_loops_from_task (S fuel) w vis val t <> Ok r.
  Proof.
    intros fuel Hc vis val r Hn H. rewrite loops_unfold in H.
    apply existsb_eqb_notIn in Hn. rewrite Hn in H. apply existsb_eqb_notIn in Hn.
    destruct (existsb (Nat.eqb t) vis); [discriminate|].
    destruct (fold_res (loops_step fuel w) (k_preds (gett w t)) (vis ++ [t], val)) as [st| |k] eqn:E; cbn [bind] in H; try discriminate.
    apply (refuse_fold_hit fuel Hc _ _ _ Hself) in E; [exact E | | exact Hn].
    apply in_or_app. right. left. reflexivity.
  Qed.

  Lemma refuse_call_inv : forall fuel, call_inv fuel.
  Proof.
    intros fuel. induction fuel as [|fuel IH]; intros vis val x vis' val' H.
    - cbn in H. discriminate.
    - destruct (Nat.eq_dec x t) as [Ex|Ex].
      + subst x. destruct (in_dec Nat.eq_dec t val) as [Hi|Hi].
        * rewrite loops_unfold in H. apply existsb_eqb_In in Hi. rewrite Hi in H. inversion H. subst.
          split; [reflexivity | auto].
        * exfalso. exact (refuse_at_self fuel IH vis val _ Hi H).
      + rewrite loops_unfold in H.
        destruct (existsb (Nat.eqb x) val) eqn:Ev.
        * inversion H. subst. split; [reflexivity | auto].
        * destruct (existsb (Nat.eqb x) vis) eqn:Evis; [discriminate|].
          destruct (fold_res (loops_step fuel w) (k_preds (gett w x)) (vis ++ [x], val)) as [[v3 va4]| |k] eqn:E;
            cbn [bind] in H; try discriminate.
          apply (refuse_fold_inv fuel IH) in E. destruct E as [E1 E2]. subst v3.
          destruct (existsb (Nat.eqb x) (vis ++ [x])); [|discriminate].
          inversion H. subst. split.
          -- apply src_remove1_app_last. apply existsb_eqb_notIn. exact Evis.
          -- intros Hn Hin. apply in_app_or in Hin. destruct Hin as [Hin|[Hin|[]]].
             ++ exact (E2 Hn Hin).
             ++ exact (Ex Hin).
  Qed.

  Lemma refuse_members : forall fuel l val,
    In t l -> ~ In t val -> forall r,
    fold_res (fun st t0 => let 'validated := st in
        (do '((_, validated'), _) <- src_check_loops_from_task (S fuel) w [] validated t0; Ok validated')) l val <> Ok r.
  Proof.
    intros fuel l. induction l as [|a r0 IH]; intros val Hl Hn r H.
    - destruct Hl.
    - cbn [fold_res] in H.
      destruct (src_check_loops_from_task (S fuel) w [] val a) as [[[v1 va1] []]| |k] eqn:E; cbn [bind] in H; try discriminate.
      destruct (Nat.eq_dec a t) as [Ea|Ea].
      + subst a. exact (refuse_at_self fuel (refuse_call_inv fuel) [] val _ Hn E).
      + destruct Hl as [Hl|Hl]; [contradiction|].
        apply (refuse_call_inv (S fuel)) in E. destruct E as [_ E2].
        exact (IH va1 Hl (E2 Hn) r H).
  Qed.
End Refuse.

Theorem src_check_loops_refuses_self_loop : forall w t, (t < length w)%nat -> k_ext (gett w t) = false ->
  In t (k_preds (gett w t)) -> src_check_loops w <> Ok tt.
Proof.
  intros w t Hlt Hne Hself H. unfold src_check_loops in H.
  match type of H with bind ?F _ = _ => destruct F as [val| |k] eqn:E end; cbn [bind] in H; try discriminate.
  apply (refuse_members w t Hself (length w) (members w) []) in E; [exact E | | intros []].
  unfold members. apply filter_In. split; [apply in_seq; lia | rewrite Hne; reflexivity].
Qed.

(* ---------- the statements are not vacuous ---------- *)
Definition mk_task (parent : option nat) (preds succs : list nat) (ext : bool) : itask :=
  {| k_parent := parent; k_children := []; k_preds := preds; k_succs := succs; k_ext := ext; k_milestone := false;
     k_res := 0; k_est := Some 1; k_spent := Some 0; k_start := None; k_end := None; k_minstart := None |}.

(* a diamond 0 <- 1, 0 <- 2, {1, 2} <- 3, and task 1 also waits for the outside task 4 *)
Definition w_diamond : list itask :=
  [ mk_task None [] [1; 2]%nat false; mk_task None [0; 4]%nat [3%nat] false; mk_task None [0%nat] [3%nat] false;
    mk_task None [1; 2]%nat [] false; mk_task None [] [] true ].

Example w_diamond_wf : WFin w_diamond.
Proof. vm_compute. reflexivity. Qed.

Example w_diamond_accepted : src_check_loops w_diamond = Ok tt.
Proof. apply src_check_loops_accepts. exact w_diamond_wf. Qed.

Example w_diamond_accepted_computed : src_check_loops w_diamond = Ok tt.
Proof. vm_compute. reflexivity. Qed.

(* 0 waits for 1, 1 waits for 0 *)
Definition w_cycle2 : list itask := [ mk_task None [1%nat] [1%nat] false; mk_task None [0%nat] [0%nat] false ].

Example w_cycle2_refused : src_check_loops w_cycle2 = Err.
Proof. vm_compute. reflexivity. Qed.

Example w_cycle2_not_wf : wfin_b w_cycle2 = false.
Proof. vm_compute. reflexivity. Qed.

(* a task that waits for itself *)
Definition w_self : list itask := [ mk_task None [] [] false; mk_task None [1%nat] [1%nat] false ].

Example w_self_refused : src_check_loops w_self <> Ok tt.
Proof. apply (src_check_loops_refuses_self_loop w_self 1%nat); vm_compute; [lia | reflexivity | left; reflexivity]. Qed.

Example w_self_refused_computed : src_check_loops w_self = Err.
Proof. vm_compute. reflexivity. Qed.

Print Assumptions src_check_loops_accepts.
Print Assumptions src_check_loops_refuses_self_loop.
