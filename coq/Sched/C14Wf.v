(* C14, auxiliary facts: every member of a well-formed WBS hangs below a root (pigeonhole on the
   parent chain), the divisors of the percent computations are positive, and a fully worked
   instance of the hypotheses of the completeness theorem. *)
From PJ Require Import Base.Prelude Sched.Model Sched.LedgerProofs Sched.Primitives Sched.Machine Sched.Instances
     Sched.WfIn Sched.C14Pass Sched.C14Proofs.
From Coq Require Import Relations.Relation_Operators Relations.Operators_Properties.

(* ---------- members hang below a root ---------- *)
Definition member (w : list itask) (u : nat) : Prop := (u < length w)%nat /\ k_ext (gett w u) = false.

Lemma wfin_member w u : WFin w -> member w u -> wfin_member_b w u = true.
Proof. intros Hw [Hu He]. pose proof (wfin_at w u Hw Hu) as H. rewrite He in H. exact H. Qed.

Lemma wfin_parent w u p : WFin w -> member w u -> k_parent (gett w u) = Some p ->
  member w p /\ In u (k_children (gett w p)).
Proof.
  intros Hw Hm Hp. pose proof (wfin_member w u Hw Hm) as H. unfold wfin_member_b in H.
  rewrite Hp in H. wf_split.
  match goal with X : in_range w p = true |- _ => rename X into Hpr end.
  match goal with X : negb (is_ext w p) = true |- _ => rename X into Hpe end.
  match goal with X : memb u (k_children (gett w p)) = true |- _ => rename X into Hpc end.
  unfold in_range in Hpr. apply Nat.ltb_lt in Hpr. unfold is_ext in Hpe. apply negb_true_iff in Hpe.
  apply memb_true in Hpc. split; [split|]; assumption.
Qed.

Lemma wfin_not_own_ancestor w u : WFin w -> member w u -> ~ In u (ancestors w (length w) u).
Proof.
  intros Hw Hm. pose proof (wfin_member w u Hw Hm) as H. unfold wfin_member_b in H.
  wf_split.
  match goal with X : negb (memb u (ancestors w (length w) u)) = true |- _ => rename X into Ha end.
  apply negb_true_iff in Ha. apply memb_false in Ha. exact Ha.
Qed.

Lemma anc_mono w f : forall y x, In x (ancestors w f y) -> In x (ancestors w (S f) y).
Proof.
  induction f as [|f IH]; intros y x H; [destruct H|]. simpl in H. change (ancestors w (S (S f)) y) with
    (match k_parent (gett w y) with None => [] | Some p => p :: ancestors w (S f) p end).
  destruct (k_parent (gett w y)) as [p|]; [|destruct H]. destruct H as [<-|H]; [left; reflexivity|].
  right. apply IH. exact H.
Qed.

Lemma anc_mono_le w f g y x : (f <= g)%nat -> In x (ancestors w f y) -> In x (ancestors w g y).
Proof. intros Hle. induction Hle as [|g Hle IH]; [auto|]. intros Hx. apply anc_mono. auto. Qed.

Lemma anc_members w : WFin w -> forall f u, member w u -> forall x, In x (ancestors w f u) -> member w x.
Proof.
  intros Hw. induction f as [|f IH]; intros u Hm x Hx; [destruct Hx|]. simpl in Hx.
  destruct (k_parent (gett w u)) as [p|] eqn:Hp; [|destruct Hx].
  destruct (wfin_parent w u p Hw Hm Hp) as [Hmp _]. destruct Hx as [<-|Hx]; [exact Hmp|]. eapply IH; eauto.
Qed.

Lemma anc_nodup w : WFin w -> forall f, (f <= length w)%nat -> forall u, member w u -> NoDup (u :: ancestors w f u).
Proof.
  intros Hw. induction f as [|f IH]; intros Hf u Hm; [simpl; constructor; [intros []|constructor]|].
  constructor.
  - intro Hin. apply (wfin_not_own_ancestor w u Hw Hm). eapply anc_mono_le; [exact Hf | exact Hin].
  - simpl. destruct (k_parent (gett w u)) as [p|] eqn:Hp; [|constructor].
    apply IH; [lia|]. exact (proj1 (wfin_parent w u p Hw Hm Hp)).
Qed.

Fixpoint reaches_root (w : list itask) (f : nat) (u : nat) : Prop :=
  match f with
  | O => False
  | S f' => match k_parent (gett w u) with None => True | Some p => reaches_root w f' p end
  end.

Lemma short_chain_reaches w : forall f u, (length (ancestors w f u) < f)%nat -> reaches_root w f u.
Proof.
  induction f as [|f IH]; intros u H; [lia|]. simpl in *.
  destruct (k_parent (gett w u)) as [p|]; [|exact I]. apply IH. simpl in H. lia.
Qed.

Lemma reaches_under_root w : WFin w -> forall f u, member w u -> reaches_root w f u -> under_root w u.
Proof.
  intros Hw. induction f as [|f IH]; intros u Hm H; [destruct H|]. simpl in H.
  destruct (k_parent (gett w u)) as [p|] eqn:Hp.
  - destruct (wfin_parent w u p Hw Hm Hp) as [Hmp Hch]. eapply ur_kid; [apply IH; eassumption | exact Hch].
  - apply ur_root. unfold roots, members. apply filter_In. split.
    + apply filter_In. destruct Hm as [Hu He]. split; [apply in_seq; lia | rewrite He; reflexivity].
    + rewrite Hp. reflexivity.
Qed.

Theorem wfin_under_root w u : WFin w -> (u < length w)%nat -> k_ext (gett w u) = false -> under_root w u.
Proof.
  intros Hw Hu He. assert (Hm : member w u) by (split; assumption).
  apply (reaches_under_root w Hw (length w) u Hm). apply short_chain_reaches.
  pose proof (anc_nodup w Hw (length w) (le_n _) u Hm) as Hn.
  assert (Hl : (length (u :: ancestors w (length w) u) <= length w)%nat).
  { apply (stack_bounded w _ Hn). intros x [<-|Hx]; [exact Hu|]. exact (proj1 (anc_members w Hw _ u Hm x Hx)). }
  simpl in Hl. lia.
Qed.

(* ---------- the divisors of the percent computations ---------- *)
Lemma fwd_nearest_divisor cfg l r t t0 s :
  (forall x, In x l -> 0 < r_units x) -> fwd_nearest cfg l r t t0 = Ok s ->
  exists d, s = DAY * d + frac (used (balance cfg) l r d t) (cap cfg r d) /\ 0 < cap cfg r d.
Proof.
  intros Hpos H. destruct (fwd_nearest_spec _ _ _ _ _ _ H) as (d & _ & Hf & Hs & _). exists d. split; [exact Hs|].
  unfold is_free in Hf. pose proof (used_nonneg (balance cfg) l r d t Hpos). lia.
Qed.

Lemma bwd_nearest_divisor cfg l r t t0 s :
  (forall x, In x l -> 0 < r_units x) -> bwd_nearest cfg l r t t0 = Ok s ->
  exists d, s = DAY * (d + 1) - frac (used (balance cfg) l r d t) (cap cfg r d) /\ 0 < cap cfg r d.
Proof.
  intros Hpos H. destruct (bwd_nearest_spec _ _ _ _ _ _ H) as (d & _ & Hf & Hs & _). exists d. split; [exact Hs|].
  unfold is_free in Hf. pose proof (used_nonneg (balance cfg) l r d t Hpos). lia.
Qed.

Lemma fwd_shift_divisor cfg l r t s0 left l' e :
  (forall x, In x l -> 0 < r_units x) -> 0 < left -> fwd_shift cfg l r t s0 left = Ok (l', e) ->
  exists d, e = DAY * d + frac (used (balance cfg) l' r d t) (cap cfg r d) /\ 0 < cap cfg r d.
Proof.
  intros Hpos Hl H. destruct (fwd_shift_spec _ _ _ _ _ _ _ _ H ltac:(lia)) as [(E & _)|(_ & new & dl & R & He)]; [lia|].
  exists dl. split; [exact He|]. pose proof (used_last_day _ _ _ _ _ _ _ _ _ _ _ Hpos R). lia.
Qed.

Lemma bwd_shift_divisor cfg l r t e0 left l' s :
  (forall x, In x l -> 0 < r_units x) -> 0 < left -> bwd_shift cfg l r t e0 left = Ok (l', s) ->
  exists d, s = DAY * (d + 1) - frac (used (balance cfg) l' r d t) (cap cfg r d) /\ 0 < cap cfg r d.
Proof.
  intros Hpos Hl H. destruct (bwd_shift_spec _ _ _ _ _ _ _ _ H ltac:(lia)) as [(E & _)|(_ & new & dl & R & He)]; [lia|].
  exists dl. split; [exact He|]. pose proof (used_last_day _ _ _ _ _ _ _ _ _ _ _ Hpos R). lia.
Qed.

(* ---------- an instance of the hypotheses of the completeness theorem ---------- *)
Definition cx_cap (r : nat) (d : Z) : Z :=
  match r with O => if weekday_of_day d <? 5 then 64 else 0 | _ => 0 end.
Definition cx_cfg : config :=
  {| cap := cx_cap; balance := true; dflt_est := 0; pbound := 19723 * DAY; now := 19700 * DAY;
     h_search := 1000; h_near := 1000; h_fill := 1000 |}.
Definition cx_w : list itask :=
  [{| k_parent := None; k_children := []; k_preds := []; k_succs := []; k_ext := false; k_milestone := false;
      k_res := 0; k_est := Some 80; k_spent := None; k_start := None; k_end := None; k_minstart := None |}].

Lemma cx_only_task u : k_ext (gett cx_w u) = false -> u = 0%nat.
Proof. intros H. apply ext_out_of_range in H. simpl in H. lia. Qed.

Lemma complete_example_holds :
  WFin cx_w /\ isolated_ok cx_w = true /\ no_future_ends cx_w (now cx_cfg) = true
  /\ (forall u, k_ext (gett cx_w u) = false -> ~ clos_trans nat (fwaits cx_w) u u)
  /\ (forall c u, fsteps cx_cfg cx_w [] (init_core cx_w) c -> ~ fstuck cx_cfg cx_w c u).
Proof.
  split; [vm_compute; reflexivity|]. split; [vm_compute; reflexivity|]. split; [vm_compute; reflexivity|]. split.
  - intros u Hu Hc. apply cx_only_task in Hu. subst u. apply clos_trans_t1n in Hc.
    inversion Hc as [y Hw | y z Hw _]; subst; destruct Hw as [Hw|Hw]; vm_compute in Hw; exact Hw.
  - intros c u Hs [(Hext & Hnot & _) Hc]. apply cx_only_task in Hext. subst u. unfold fsteps in Hs.
    inversion Hs as [|c0 t c1 c2 Hn Hst Hrest]; subst.
    + vm_compute in Hc. discriminate.
    + inversion Hst as [c0 t0 r Hext0 _ _ _ _]; subst. apply cx_only_task in Hext0. subst t.
      inversion Hrest as [|c0 t c1' c2 _ Hst' _]; subst.
      * apply Hnot. left. reflexivity.
      * inversion Hst' as [c0 t0 r' Hext' Hnot' _ _ _]; subst. apply cx_only_task in Hext'. subst t.
        apply Hnot'. left. reflexivity.
Qed.

(* ---------- the cycle theorems without the side condition ---------- *)
Theorem C14_err_cycle_forward_wf cfg w u :
  WFin w -> k_ext (gett w u) = false -> clos_trans nat (fwaits w) u u -> forward cfg w = Err.
Proof.
  intros Hw He Hc. apply (C14_err_cycle_forward_holds cfg w u Hw He); [|exact Hc].
  apply wfin_under_root; [exact Hw | apply ext_out_of_range; exact He | exact He].
Qed.

Theorem C14_err_cycle_backward_wf cfg w u :
  WFin w -> k_ext (gett w u) = false -> clos_trans nat (bwaits w) u u -> backward cfg w = Err.
Proof.
  intros Hw He Hc. apply (C14_err_cycle_backward_holds cfg w u Hw He); [|exact Hc].
  apply wfin_under_root; [exact Hw | apply ext_out_of_range; exact He | exact He].
Qed.

Theorem C14_err_hierarchy_cycle_forward_wf cfg w A B P :
  WFin w -> k_ext (gett w P) = false ->
  In A (k_children (gett w P)) -> In B (k_preds (gett w A)) -> In P (k_preds (gett w B)) ->
  forward cfg w = Err.
Proof.
  intros Hw He. apply (C14_err_hierarchy_cycle_forward_holds cfg w A B P Hw He).
  apply wfin_under_root; [exact Hw | apply ext_out_of_range; exact He | exact He].
Qed.

Theorem C14_err_hierarchy_cycle_backward_wf cfg w A B P :
  WFin w -> k_ext (gett w P) = false ->
  In A (k_children (gett w P)) -> k_parent (gett w A) = Some P ->
  In A (k_succs (gett w B)) -> In B (k_succs (gett w P)) ->
  backward cfg w = Err.
Proof.
  intros Hw He. apply (C14_err_hierarchy_cycle_backward_holds cfg w A B P Hw He).
  apply wfin_under_root; [exact Hw | apply ext_out_of_range; exact He | exact He].
Qed.

(* ---------- statements in the shape of the Props file ---------- *)
Lemma C14_compute_no_crash_holds : forall cfg w ds l t b k,
  kids_full w ds t -> fwd_compute cfg w ds l t b <> Crash k /\ bwd_compute cfg w ds l t b <> Crash k.
Proof. intros cfg w ds l t b k H. exact (conj (fwd_compute_no_crash cfg w ds l t b k H) (bwd_compute_no_crash cfg w ds l t b k H)). Qed.

Lemma C14_err_isolated_holds : forall cfg w, isolated_ok w = false -> forward cfg w = Err /\ backward cfg w = Err.
Proof. intros cfg w H. exact (conj (C14_err_isolated_forward cfg w H) (C14_err_isolated_backward cfg w H)). Qed.

Lemma C14_err_no_capacity_holds : forall cfg w t rest,
  WFin w -> k_children (gett w t) = [] -> k_milestone (gett w t) = false ->
  (forall d, cap cfg (k_res (gett w t)) d <= 0) ->
  (roots w = t :: rest -> k_start (gett w t) = None -> forward cfg w = Err)
  /\ (rev (roots w) = t :: rest -> k_end (gett w t) = None -> backward cfg w = Err).
Proof.
  intros cfg w t rest Hw Hl Hm Hc. split; intros Hr Hd.
  - exact (C14_err_no_capacity_forward_holds cfg w t rest Hw Hr Hl Hm Hd Hc).
  - exact (C14_err_no_capacity_backward_holds cfg w t rest Hw Hr Hl Hm Hd Hc).
Qed.

Lemma C14_err_cycle_holds : forall cfg w u,
  WFin w -> k_ext (gett w u) = false ->
  (clos_trans nat (fwaits w) u u -> forward cfg w = Err) /\ (clos_trans nat (bwaits w) u u -> backward cfg w = Err).
Proof.
  intros cfg w u Hw He. split; intros Hc;
    [exact (C14_err_cycle_forward_wf cfg w u Hw He Hc) | exact (C14_err_cycle_backward_wf cfg w u Hw He Hc)].
Qed.

Lemma C14_err_hierarchy_cycle_holds : forall cfg w A B P,
  WFin w -> k_ext (gett w P) = false -> In A (k_children (gett w P)) ->
  (In B (k_preds (gett w A)) -> In P (k_preds (gett w B)) -> forward cfg w = Err)
  /\ (k_parent (gett w A) = Some P -> In A (k_succs (gett w B)) -> In B (k_succs (gett w P)) -> backward cfg w = Err).
Proof.
  intros cfg w A B P Hw He HA. split.
  - intros HB HP. exact (C14_err_hierarchy_cycle_forward_wf cfg w A B P Hw He HA HB HP).
  - intros Hp HB HP. exact (C14_err_hierarchy_cycle_backward_wf cfg w A B P Hw He HA Hp HB HP).
Qed.

Lemma C14_reentry_holds : forall w deps kids bnd compute fuel st t,
  k_ext (gett w t) = false -> memb t (calc st) = false -> memb t (inprog st) = true ->
  gpass w deps kids bnd compute (S fuel) st t = Err
  /\ forall (f : sst -> nat -> res sst) l1 a l2 s s1,
       fold_res f l1 s = Ok s1 -> f s1 a = Err -> fold_res f (l1 ++ a :: l2) s = Err.
Proof.
  intros w deps kids bnd compute fuel st t H1 H2 H3. split.
  - exact (gpass_reentry w deps kids bnd compute fuel st t H1 H2 H3).
  - exact (@fold_res_err_propagates sst nat).
Qed.

Lemma C14_divisors_positive_holds : forall cfg l r t x left l' s,
  (forall y, In y l -> 0 < r_units y) ->
  (fwd_nearest cfg l r t x = Ok s ->
     exists d, s = DAY * d + frac (used (balance cfg) l r d t) (cap cfg r d) /\ 0 < cap cfg r d)
  /\ (bwd_nearest cfg l r t x = Ok s ->
     exists d, s = DAY * (d + 1) - frac (used (balance cfg) l r d t) (cap cfg r d) /\ 0 < cap cfg r d)
  /\ (0 < left -> fwd_shift cfg l r t x left = Ok (l', s) ->
     exists d, s = DAY * d + frac (used (balance cfg) l' r d t) (cap cfg r d) /\ 0 < cap cfg r d)
  /\ (0 < left -> bwd_shift cfg l r t x left = Ok (l', s) ->
     exists d, s = DAY * (d + 1) - frac (used (balance cfg) l' r d t) (cap cfg r d) /\ 0 < cap cfg r d).
Proof.
  intros cfg l r t x left l' s Hpos. split; [|split; [|split]].
  - exact (fwd_nearest_divisor cfg l r t x s Hpos).
  - exact (bwd_nearest_divisor cfg l r t x s Hpos).
  - exact (fwd_shift_divisor cfg l r t x left l' s Hpos).
  - exact (bwd_shift_divisor cfg l r t x left l' s Hpos).
Qed.

