(* Case type and checker of the scheduler correspondence run (evaluated by vm_compute on generated
   cases).  The result is a bit mask so that each property decides on its own observables. *)
From PJ Require Import Base.Prelude Sched.Model Sched.Check Sched.Oracles Sched.WfIn.

Record scase := {
  c_fwd : bool;
  c_w : list itask;
  c_rs : list rescal;
  c_supplied : list bool;          (* per resource: was it passed to the scheduler *)
  c_unit8 : Z;                     (* 8 work units in the case's scale *)
  c_bal : bool; c_de : Z; c_pb : Z; c_now : Z;
  c_outcome : nat;                 (* observed outcome class of calc *)
  c_obs : osch;                    (* observed schedule *)
  c_reserved : list (nat * Z * Z); (* observed ResourceUsageReport.reserved(resource, day) *)
  c_resources : list nat;          (* resources present in Schedule.resources *)
  c_wstart : option Z; c_wend : option Z;     (* observed WBS.start / WBS.end of the result *)
  c_again : list osch }.           (* repeated call, fresh scheduler, other clock <= start: must be equal *)

Definition osch_eqb (a b : osch) : bool :=
  list_eqb obs_task_eqb (o_tasks a) (o_tasks b) && list_eqb obs_row_eqb (o_rows a) (o_rows b).

Definition bit (b : bool) (n : nat) : nat := if b then n else 0%nat.

Definition check_case (c : scase) : nat :=
  let cfg := mk_config (c_fwd c) (c_rs c) (c_bal c) (c_de c) (c_pb c) (c_now c) in
  let w := c_w c in
  let m := run (c_fwd c) cfg w in
  let o := c_obs c in
  (bit (negb (Nat.eqb (outcome_code m) (c_outcome c))) 1
   + bit (negb (wfin_b w && members_first_b w)) 4096
   + bit (Nat.leb 10 (c_outcome c)) 1024
   + match m with
     | Ok st =>
         let mo := {| o_tasks := model_tasks w st; o_rows := model_rows st |} in
         bit (negb (c03_b cfg w mo && c04_b (c_fwd c) cfg w mo
                    && (if c_fwd c then c02_b cfg w mo && c08_b cfg w mo else c09_b cfg w mo)
                    && forallb (c07_task_b w mo) (members w) && c07_order_b w mo && c06_dates_b w mo)) 2048
         + (if Nat.eqb (c_outcome c) 0 then
              bit (negb (list_eqb obs_task_eqb (o_tasks o) (model_tasks w st))) 2
              + bit (negb (list_eqb obs_row_eqb (o_rows o) (model_rows st))) 4
            else 0)
     | _ => 0
     end
   + if Nat.eqb (c_outcome c) 0 then
       bit (negb (c03_b cfg w o && c03_report_b o (c_reserved c)
                  && forallb (fun t => existsb (Nat.eqb (k_res (gett w t))) (c_resources c)) (members w)
                  && forallb (fun r => nth r (c_supplied c) false || c03_default_b (c_rs c) (c_unit8 c) r) (c_resources c))) 8
       + bit (negb (c04_b (c_fwd c) cfg w o)) 16
       + bit (c_fwd c && negb (c02_b cfg w o)) 32
       + bit (negb (c07_b w o (c_wstart c) (c_wend c))) 64
       + bit (c_fwd c && negb (c08_b cfg w o)) 128
       + bit (negb (c_fwd c) && negb (c09_b cfg w o)) 256
       + bit (negb (c06_dates_b w o && forallb (osch_eqb o) (c_again c))) 512
     else 0)%nat.
