(* The recursive pass refines a simple abstract machine: a sequence of "calculate one task" steps,
   each taken when everything the task waits for and all of its children are calculated.  All
   scheduler theorems are invariants of that machine; this file proves the refinement once, for
   both schedulers. *)
From PJ Require Import Base.Prelude Sched.Model.

Record core := { c_dy : list dyn; c_lg : ledger; c_calc : list nat }.
Definition core_of (st : sst) : core := {| c_dy := dy st; c_lg := lg st; c_calc := calc st |}.

Lemma memb_true t l : memb t l = true <-> In t l.
Proof.
  unfold memb. rewrite existsb_exists. split.
  - intros [x [Hx E]]. apply Nat.eqb_eq in E. subst. exact Hx.
  - intros H. exists t. split; [exact H | apply Nat.eqb_refl].
Qed.

Lemma memb_false t l : memb t l = false <-> ~ In t l.
Proof. rewrite <- memb_true. destruct (memb t l); split; congruence. Qed.

Lemma remove_nat_notin t l : ~ In t l -> remove_nat t l = l.
Proof.
  unfold remove_nat. induction l as [|x l IH]; simpl; intros H; [reflexivity|].
  destruct (Nat.eqb_spec x t) as [E|E]; simpl.
  - exfalso. apply H. left. exact E.
  - f_equal. apply IH. intro Hin. apply H. right. exact Hin.
Qed.

Lemma remove_nat_head t l : ~ In t l -> remove_nat t (t :: l) = l.
Proof. intros H. unfold remove_nat. simpl. rewrite Nat.eqb_refl. simpl. apply remove_nat_notin. exact H. Qed.

Section Machine.
Variable w : list itask.
Variable deps : nat -> list nat.
Variable kids : nat -> list nat.
Variable bnd : list dyn -> list nat -> Z.
Variable compute : list dyn -> ledger -> nat -> Z -> res (list dyn * ledger).

(* the calculation of a task writes only that task's dates *)
Hypothesis compute_frame : forall ds l t b ds' l', compute ds l t b = Ok (ds', l') ->
  forall p, p <> t -> nth p ds' no_dyn = nth p ds no_dyn.
(* the bound only looks at the tasks it is given *)
Hypothesis bnd_ext : forall ds ds' pre, (forall p, In p pre -> nth p ds' no_dyn = nth p ds no_dyn) ->
  bnd ds' pre = bnd ds pre.

Definition ready (c : core) (p : nat) : Prop := k_ext (gett w p) = true \/ In p (c_calc c).

Inductive gstep : core -> nat -> core -> Prop :=
| gstep_intro c t r :
    k_ext (gett w t) = false -> ~ In t (c_calc c) ->
    (forall p, In p (deps t) -> ready c p) ->
    (forall ch, In ch (kids t) -> ready c ch) ->
    compute (c_dy c) (c_lg c) t (bnd (c_dy c) (deps t)) = Ok r ->
    gstep c t {| c_dy := fst r; c_lg := snd r; c_calc := t :: c_calc c |}.

(* sequences of steps none of which calculates a task of [I] *)
Inductive gsteps (I : list nat) : core -> core -> Prop :=
| gsteps_refl c : gsteps I c c
| gsteps_step c t c' c'' : ~ In t I -> gstep c t c' -> gsteps I c' c'' -> gsteps I c c''.

Lemma gsteps_trans I a b c : gsteps I a b -> gsteps I b c -> gsteps I a c.
Proof. induction 1; intros; [assumption|]. econstructor; eauto. Qed.

Lemma gsteps_weaken I I' a b : (forall t, In t I' -> In t I) -> gsteps I a b -> gsteps I' a b.
Proof. intros Hi. induction 1; [constructor|]. econstructor; eauto. Qed.

Lemma gsteps_one I c t c' : ~ In t I -> gstep c t c' -> gsteps I c c'.
Proof. intros. econstructor; eauto. constructor. Qed.

(* invariants of the machine: induction principle *)
Lemma gsteps_inv (P : core -> Prop) I a b :
  (forall c t c', P c -> gstep c t c' -> P c') -> gsteps I a b -> P a -> P b.
Proof. intros Hs. induction 1; intros; [assumption|]. eauto. Qed.

Lemma gstep_calc_mono c t c' : gstep c t c' -> forall p, In p (c_calc c) -> In p (c_calc c').
Proof. destruct 1. simpl. intros p Hp. right. exact Hp. Qed.

Lemma gsteps_calc_mono I a b : gsteps I a b -> forall p, In p (c_calc a) -> In p (c_calc b).
Proof. induction 1; intros p Hp; [assumption|]. apply IHgsteps. eapply gstep_calc_mono; eauto. Qed.

Lemma ready_mono I a b p : gsteps I a b -> ready a p -> ready b p.
Proof. intros Hs [H|H]; [left; exact H | right; eapply gsteps_calc_mono; eauto]. Qed.

(* once calculated (or outside the WBS), a task's dates never change *)
Lemma gstep_frozen c t c' : gstep c t c' -> forall p, ready c p -> nth p (c_dy c') no_dyn = nth p (c_dy c) no_dyn.
Proof.
  destruct 1 as [c t r Hext Hnot _ _ Hc]. intros p Hp. simpl. destruct r as [ds' l']. simpl.
  eapply compute_frame; [exact Hc|]. intro E; subst p. destruct Hp as [Hp|Hp]; [congruence | contradiction].
Qed.

Lemma gsteps_frozen I a b : gsteps I a b -> forall p, ready a p -> nth p (c_dy b) no_dyn = nth p (c_dy a) no_dyn.
Proof.
  induction 1 as [|a t a' b Hn Hs Hr IH]; intros p Hp; [reflexivity|].
  rewrite IH; [eapply gstep_frozen; eauto|]. eapply ready_mono; [|exact Hp]. eapply gsteps_one; eauto.
Qed.

(* tasks of I are not calculated *)
Lemma gsteps_avoid I a b : gsteps I a b -> forall t, In t I -> In t (c_calc b) -> In t (c_calc a).
Proof.
  induction 1 as [|a u a' b Hn Hs Hr IH]; intros t Ht Hin; [assumption|].
  specialize (IH t Ht Hin). destruct Hs. simpl in IH. destruct IH as [E|E]; [subst; contradiction | exact E].
Qed.

Notation gpass := (gpass w deps kids bnd compute).

Definition pass_post (st : sst) (t : nat) (st' : sst) : Prop :=
  gsteps (inprog st) (core_of st) (core_of st') /\ ready (core_of st') t /\ inprog st' = inprog st.

Lemma fold_pass_post (f : sst -> nat -> res sst) :
  (forall s a s', f s a = Ok s' -> pass_post s a s') ->
  forall l s s', fold_res f l s = Ok s' ->
    gsteps (inprog s) (core_of s) (core_of s') /\ (forall a, In a l -> ready (core_of s') a) /\ inprog s' = inprog s.
Proof.
  intros Hf. induction l as [|a l IH]; intros s s'; simpl.
  - intros H; inversion H; subst. split; [constructor|]. split; [intros a []|reflexivity].
  - destruct (f s a) as [s1| |k] eqn:E; simpl; try discriminate. intros H.
    destruct (Hf _ _ _ E) as [H1 [H2 H3]]. destruct (IH _ _ H) as [H4 [H5 H6]].
    rewrite H3 in H4. split; [eapply gsteps_trans; eauto|]. split; [|congruence].
    intros b [<-|Hb]; [eapply ready_mono; eauto | apply H5; exact Hb].
Qed.

(* the recursive pass is a run of the machine *)
Theorem gpass_refines : forall fuel st t st', gpass fuel st t = Ok st' -> pass_post st t st'.
Proof.
  induction fuel as [|f IH]; intros st t st'; simpl; [discriminate|].
  destruct (k_ext (gett w t)) eqn:Hext.
  { intros H; inversion H; subst. split; [constructor|]. split; [left; exact Hext | reflexivity]. }
  destruct (memb t (calc st)) eqn:Hcalc.
  { intros H; inversion H; subst. split; [constructor|]. split; [right; apply memb_true; exact Hcalc | reflexivity]. }
  destruct (memb t (inprog st)) eqn:Hin; [discriminate|].
  apply memb_false in Hcalc. apply memb_false in Hin.
  destruct (fold_res (Model.gpass w deps kids bnd compute f) (deps t) (enter st t)) as [st2| |k2] eqn:E2; simpl; try discriminate.
  destruct (fold_res (Model.gpass w deps kids bnd compute f) (kids t) st2) as [st3| |k3] eqn:E3; simpl; try discriminate.
  destruct (compute (dy st3) (lg st3) t (bnd (dy st2) (deps t))) as [r| |kr] eqn:Ec; simpl; try discriminate.
  intros H; inversion H; subst st'. clear H.
  destruct (fold_pass_post _ (IH) _ _ _ E2) as [A1 [A2 A3]].
  destruct (fold_pass_post _ (IH) _ _ _ E3) as [B1 [B2 B3]].
  simpl in A1, A3. rewrite A3 in B1, B3.
  assert (S13 : gsteps (t :: inprog st) (core_of st) (core_of st3)) by (eapply gsteps_trans; eauto).
  assert (Hdeps3 : forall p, In p (deps t) -> ready (core_of st3) p).
  { intros p Hp. eapply ready_mono; [exact B1 | apply A2; exact Hp]. }
  assert (Hnot3 : ~ In t (c_calc (core_of st3))).
  { intro Hc. apply Hcalc. apply (gsteps_avoid _ _ _ S13 t); [left; reflexivity | exact Hc]. }
  assert (Hb : bnd (dy st3) (deps t) = bnd (dy st2) (deps t)).
  { apply bnd_ext. intros p Hp. apply (gsteps_frozen _ _ _ B1 p). apply A2. exact Hp. }
  rewrite <- Hb in Ec.
  assert (Hstep : gstep (core_of st3) t (core_of (leave st3 t r))).
  { unfold core_of at 2. simpl. apply (gstep_intro (core_of st3) t r); assumption. }
  split.
  - eapply gsteps_trans.
    + eapply gsteps_weaken; [|exact S13]. intros u Hu. right. exact Hu.
    + eapply gsteps_one; [exact Hin | exact Hstep].
  - split; [right; simpl; left; reflexivity|]. simpl. rewrite B3. apply remove_nat_head. exact Hin.
Qed.

Lemma fold_gpass_refines fuel l s s' :
  fold_res (gpass fuel) l s = Ok s' ->
  gsteps (inprog s) (core_of s) (core_of s') /\ (forall a, In a l -> ready (core_of s') a).
Proof.
  intros H. destruct (fold_pass_post _ (gpass_refines fuel) _ _ _ H) as [A [B _]]. split; assumption.
Qed.

End Machine.
