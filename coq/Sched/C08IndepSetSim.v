(* C08, part 12 (balancing off): the simulation between the run of the recursive pass on [w] and the run
   on [c08_mask_set U w] for an unrelated set U (C08IndepSet.v).  The relation [c08_simU]: the same dates
   outside U, ledgers agreeing on the own rows of every task outside U, the same calculated and
   in-progress tasks outside U.  A call on a task outside U is matched step by step (it never reaches U);
   a call on a task of U - or on a task outside the WBS - only reaches U and tasks outside the WBS, and
   changes nothing the others see. *)
From PJ Require Import Base.Prelude Sched.Model Sched.LedgerProofs Sched.Primitives Sched.Machine
     Sched.Instances Sched.C03Proofs Sched.WfIn Sched.C08Run Sched.C08Step Sched.C08Proofs Sched.C08Indep
     Sched.C08Leaves Sched.C08Check Sched.Check Sched.Oracles Sched.C08Order Sched.C08IndepSim Sched.C08Renumber
     Sched.C08IndepSet.

Record c08_simU (U : nat -> bool) (s s2 : sst) : Prop := {
  su_dy : forall p, U p = false -> nth p (dy s) no_dyn = nth p (dy s2) no_dyn;
  su_len : length (dy s) = length (dy s2);
  su_lg : forall t, U t = false -> c08_same_own t (lg s) (lg s2);
  su_calc : forall p, U p = false -> memb p (calc s) = memb p (calc s2);
  su_inprog : forall p, U p = false -> memb p (inprog s) = memb p (inprog s2) }.

Lemma c08_memb_remove p v l : memb p (remove_nat v l) = negb (Nat.eqb p v) && memb p l.
Proof.
  unfold memb, remove_nat. induction l as [|a l IH]; simpl; [rewrite andb_false_r; reflexivity|].
  destruct (Nat.eqb_spec a v) as [->|N]; simpl.
  - rewrite IH. destruct (Nat.eqb_spec p v) as [->|N2]; simpl; reflexivity.
  - rewrite IH. destruct (Nat.eqb_spec p v) as [->|N2]; simpl; [|reflexivity].
    destruct (Nat.eqb_spec v a) as [E|E]; [congruence | reflexivity].
Qed.

Lemma c08_nth_set_nth_simU (U : nat -> bool) (l l2 : list dyn) v x :
  length l = length l2 -> (forall p, U p = false -> nth p l no_dyn = nth p l2 no_dyn) ->
  forall p, U p = false -> nth p (set_nth l v x) no_dyn = nth p (set_nth l2 v x) no_dyn.
Proof.
  intros Hl H p Hp. destruct (Nat.eq_dec p v) as [->|Hpv].
  - destruct (Nat.lt_ge_cases v (length l)) as [L|G].
    + rewrite !nth_set_nth_same by lia. reflexivity.
    + rewrite !nth_overflow by (rewrite length_set_nth; lia). reflexivity.
  - rewrite !nth_set_nth_other by exact Hpv. apply H. exact Hp.
Qed.

(* ---------- a call on a task outside U ---------- *)
Lemma c08_simU_fold U (f f2 : sst -> nat -> res sst) :
  (forall s a s' s2, U a = false -> c08_simU U s s2 -> f s a = Ok s' ->
     exists s2', f2 s2 a = Ok s2' /\ c08_simU U s' s2') ->
  forall l s s' s2, (forall a, In a l -> U a = false) -> c08_simU U s s2 -> fold_res f l s = Ok s' ->
    exists s2', fold_res f2 l s2 = Ok s2' /\ c08_simU U s' s2'.
Proof.
  intros Hf. induction l as [|a l IH]; intros s s' s2 Hu Hs E; simpl in *.
  - inversion E; subst. exists s2. split; [reflexivity | exact Hs].
  - destruct (f s a) as [s1| |] eqn:E1; simpl in E; try discriminate.
    destruct (Hf s a s1 s2 (Hu a (or_introl eq_refl)) Hs E1) as [s21 [A B]].
    rewrite A. simpl. apply (IH s1 s' s21); [intros b Hb; apply Hu; right; exact Hb | exact B | exact E].
Qed.

Lemma c08_simU_gpass cfg w U : balance cfg = false -> WFin w -> c08_unrelated w U ->
  forall fuel s v s' s2, U v = false -> c08_simU U s s2 -> c08_fp cfg w fuel s v = Ok s' ->
    exists s2', c08_fp cfg (c08_mask_set U w) fuel s2 v = Ok s2' /\ c08_simU U s' s2'.
Proof.
  intros Hb H HU. induction fuel as [|f IH]; intros s v s' s2 Hv Hs Hg; [discriminate|].
  cbn [gpass] in Hg |- *. rewrite (c08_mask_set_gett U w v Hv).
  destruct (k_ext (gett w v)). { inversion Hg; subst. exists s2. split; [reflexivity | exact Hs]. }
  rewrite <- (su_calc _ _ _ Hs v Hv).
  destruct (memb v (calc s)). { inversion Hg; subst. exists s2. split; [reflexivity | exact Hs]. }
  rewrite <- (su_inprog _ _ _ Hs v Hv). destruct (memb v (inprog s)); [discriminate|].
  rewrite (c08_mask_set_prereqs w U H HU v Hv).
  destruct (fold_res (c08_fp cfg w f) (prereqs w v) (enter s v)) as [st2| |] eqn:E2; simpl in Hg; try discriminate.
  assert (Hse : c08_simU U (enter s v) (enter s2 v)).
  { destruct Hs as [A B C D E]. constructor; simpl; try assumption.
    intros p Hp. rewrite (E p Hp). reflexivity. }
  destruct (c08_simU_fold U _ _ IH (prereqs w v) _ _ _ (fun p => c08_out_prereq w U H HU v p Hv) Hse E2) as [st22 [A2 S2]].
  rewrite A2. cbn [bind].
  destruct (fold_res (c08_fp cfg w f) (k_children (gett w v)) st2) as [st3| |] eqn:E3; simpl in Hg; try discriminate.
  destruct (c08_simU_fold U _ _ IH (k_children (gett w v)) _ _ _ (fun c => c08_out_child w U H HU v c Hv) S2 E3) as [st32 [A3 S3]].
  rewrite A3. cbn [bind].
  destruct (fwd_compute cfg w (dy st3) (lg st3) v (bound_max (dy st2) (prereqs w v) (pbound cfg))) as [[ds' l']| |] eqn:Ec;
    simpl in Hg; try discriminate.
  inversion Hg; subst s'. clear Hg.
  (* the same bound *)
  assert (Hbnd : bound_max (dy st22) (prereqs w v) (pbound cfg) = bound_max (dy st2) (prereqs w v) (pbound cfg)).
  { apply bound_max_ext. intros p Hp. symmetry. apply (su_dy _ _ _ S2). exact (c08_out_prereq w U H HU v p Hv Hp). }
  rewrite Hbnd.
  (* the same calculation *)
  destruct (c08_fwd_compute_own_rows cfg w (dy st3) (lg st3) (lg st32) v _ ds' l' Hb (su_lg _ _ _ S3 v Hv) Ec)
    as [new [El' [Hnew Ec2]]].
  destruct (c08_fwd_compute_ext cfg w (c08_mask_set U w) (dy st3) (dy st32) (lg st32) v
              (bound_max (dy st2) (prereqs w v) (pbound cfg)) ds' (new ++ lg st32)) as [x [Eds Ec3]].
  - apply c08_mask_set_gett. exact Hv.
  - unfold getdl. symmetry. apply (su_dy _ _ _ S3). exact Hv.
  - apply map_ext_in. intros c Hc. unfold getdl. symmetry. apply (su_dy _ _ _ S3).
    exact (c08_out_child w U H HU v c Hv Hc).
  - exact Ec2.
  - rewrite Ec3. cbn [bind]. eexists. split; [reflexivity|].
    destruct S3 as [A B C D E]. constructor; cbn [leave dy lg calc inprog fst snd].
    + subst ds'. apply c08_nth_set_nth_simU; assumption.
    + subst ds'. rewrite !length_set_nth. exact B.
    + intros t Ht. subst l'. apply c08_same_own_app. apply C. exact Ht.
    + intros p Hp. simpl. rewrite (D p Hp). reflexivity.
    + intros p Hp. rewrite !c08_memb_remove, (E p Hp). reflexivity.
Qed.

(* ---------- a call on a task of U, or on a task outside the WBS ---------- *)
Lemma c08_simU_fold_self w U (f : sst -> nat -> res sst) :
  (forall s a s' s2, c08_inU w U a -> c08_simU U s s2 -> f s a = Ok s' -> c08_simU U s' s2) ->
  forall l s s' s2, (forall a, In a l -> c08_inU w U a) -> c08_simU U s s2 -> fold_res f l s = Ok s' ->
    c08_simU U s' s2.
Proof.
  intros Hf. induction l as [|a l IH]; intros s s' s2 Hu Hs E; simpl in *.
  - inversion E; subst. exact Hs.
  - destruct (f s a) as [s1| |] eqn:E1; simpl in E; try discriminate.
    apply (IH s1 s' s2); [intros b Hb; apply Hu; right; exact Hb | | exact E].
    exact (Hf s a s1 s2 (Hu a (or_introl eq_refl)) Hs E1).
Qed.

Lemma c08_simU_self cfg w U : balance cfg = false -> WFin w -> c08_unrelated w U ->
  forall fuel s u s' s2, c08_inU w U u -> c08_simU U s s2 -> c08_fp cfg w fuel s u = Ok s' -> c08_simU U s' s2.
Proof.
  intros Hb H HU. induction fuel as [|f IH]; intros s u s' s2 Hu Hs Hg; [discriminate|].
  cbn [gpass] in Hg.
  destruct (k_ext (gett w u)) eqn:Hext. { inversion Hg; subst. exact Hs. }
  destruct Hu as [Hu|Hu]; [|congruence].
  destruct (memb u (calc s)). { inversion Hg; subst. exact Hs. }
  destruct (memb u (inprog s)); [discriminate|].
  destruct (fold_res (c08_fp cfg w f) (prereqs w u) (enter s u)) as [st2| |] eqn:E2; simpl in Hg; try discriminate.
  assert (Hne : forall p, U p = false -> Nat.eqb p u = false).
  { intros p Hp. apply Nat.eqb_neq. intros ->. congruence. }
  assert (Hse : c08_simU U (enter s u) s2).
  { destruct Hs as [A B C D E]. constructor; simpl; try assumption.
    intros p Hp. rewrite (Hne p Hp). simpl. exact (E p Hp). }
  pose proof (c08_simU_fold_self w U _ IH (prereqs w u) _ _ _ (fun p => c08_in_prereq w U HU u p Hu) Hse E2) as S2.
  destruct (fold_res (c08_fp cfg w f) (k_children (gett w u)) st2) as [st3| |] eqn:E3; simpl in Hg; try discriminate.
  pose proof (c08_simU_fold_self w U _ IH (k_children (gett w u)) _ _ _ (fun c => c08_in_child w U HU u c Hu) S2 E3) as S3.
  destruct (fwd_compute cfg w (dy st3) (lg st3) u (bound_max (dy st2) (prereqs w u) (pbound cfg))) as [[ds' l']| |] eqn:Ec;
    simpl in Hg; try discriminate.
  inversion Hg; subst s'. clear Hg.
  destruct (c08_fwd_compute_own_rows cfg w (dy st3) (lg st3) (lg st3) u _ ds' l' Hb (fun r d => eq_refl) Ec) as [new [El' [Hnew _]]].
  destruct S3 as [A B C D E]. constructor; cbn [leave dy lg calc inprog fst snd].
  - intros p Hp. rewrite (fwd_compute_frame _ _ _ _ _ _ _ _ Ec p); [apply A; exact Hp|]. intros ->. congruence.
  - rewrite (c08_compute_length _ _ _ _ _ _ _ _ Ec). exact B.
  - intros t Ht r d. subst l'. rewrite c08_booked_t_app, (c08_booked_t_foreign new r d t).
    + simpl. apply C. exact Ht.
    + intros x Hx. rewrite (Hnew x Hx). intros ->. congruence.
  - intros p Hp. simpl. rewrite (Hne p Hp). simpl. apply D. exact Hp.
  - intros p Hp. rewrite c08_memb_remove, (Hne p Hp). simpl. apply E. exact Hp.
Qed.

(* ---------- the roots ---------- *)
Lemma c08_simU_roots cfg w U fuel : balance cfg = false -> WFin w -> c08_unrelated w U ->
  forall l s s' s2, c08_simU U s s2 -> fold_res (c08_fp cfg w fuel) l s = Ok s' ->
    exists s2', fold_res (c08_fp cfg (c08_mask_set U w) fuel) (filter (fun t => negb (U t)) l) s2 = Ok s2'
                /\ c08_simU U s' s2'.
Proof.
  intros Hb H HU. induction l as [|a l IH]; intros s s' s2 Hs E; simpl in E.
  - inversion E; subst. exists s2. split; [reflexivity | exact Hs].
  - destruct (c08_fp cfg w fuel s a) as [s1| |] eqn:E1; simpl in E; try discriminate. cbn [filter].
    destruct (U a) eqn:Ua; cbn [negb].
    + apply (IH s1 s' s2); [|exact E]. exact (c08_simU_self cfg w U Hb H HU fuel s a s1 s2 (or_introl Ua) Hs E1).
    + destruct (c08_simU_gpass cfg w U Hb H HU fuel s a s1 s2 Ua Hs E1) as [s21 [A B]].
      cbn [fold_res]. rewrite A. cbn [bind]. exact (IH s1 s' s21 B E).
Qed.

Lemma c08_simU_init w U : c08_simU U (init_state w) (init_state (c08_mask_set U w)).
Proof.
  constructor; simpl; try reflexivity.
  - intros p Hp. rewrite !c08_init_dyn_nth, (c08_mask_set_gett U w p Hp). reflexivity.
  - rewrite !map_length, c08_mask_set_length. reflexivity.
  - intros t _ r d. reflexivity.
Qed.

(* ---------- (d) independence for an unrelated set, balancing off ---------- *)
Theorem C08_indep_set_mask_holds cfg w U st st2 :
  balance cfg = false -> WFin w -> c08_unrelated w U ->
  forward cfg w = Ok st -> forward cfg (c08_mask_set U w) = Ok st2 ->
  forall t, U t = false -> getd st t = getd st2 t.
Proof.
  intros Hb H HU Hf Hf2 t Ht. unfold forward in Hf, Hf2.
  destruct (isolated_ok w); cbn [negb] in Hf; [|discriminate Hf].
  destruct (no_future_ends w (now cfg)); cbn [negb] in Hf; [|discriminate Hf].
  destruct (isolated_ok (c08_mask_set U w)); cbn [negb] in Hf2; [|discriminate Hf2].
  destruct (no_future_ends (c08_mask_set U w) (now cfg)); cbn [negb] in Hf2; [|discriminate Hf2].
  unfold fwd_pass in Hf, Hf2. rewrite c08_mask_set_length in Hf2.
  destruct (c08_simU_roots cfg w U _ Hb H HU _ _ _ _ (c08_simU_init w U) Hf) as [s2' [A B]].
  rewrite <- (c08_mask_set_roots w U (un_member _ _ HU)) in A. rewrite A in Hf2. inversion Hf2; subst s2'.
  unfold getd. apply (su_dy _ _ _ B). exact Ht.
Qed.

(* the set given by the list of its elements, hypothesis in executable form *)
Corollary C08_indep_set_mask_list cfg w us st st2 :
  balance cfg = false -> WFin w -> c08_unrelated_b w us = true ->
  forward cfg w = Ok st -> forward cfg (c08_mask_set (fun t => memb t us) w) = Ok st2 ->
  forall t, ~ In t us -> getd st t = getd st2 t.
Proof.
  intros Hb H HU Hf Hf2 t Ht.
  apply (C08_indep_set_mask_holds cfg w (fun t => memb t us) st st2 Hb H (c08_unrelated_b_sound w us HU) Hf Hf2).
  apply memb_false. exact Ht.
Qed.

(* ---------- the run on the blanked table cannot fail when the run on the full table succeeds ---------- *)
Lemma c08_mask_set_member w U t : In t (members (c08_mask_set U w)) -> U t = false /\ In t (members w).
Proof.
  unfold members. rewrite c08_mask_set_length. intros Ht. apply filter_In in Ht. destruct Ht as [A B].
  destruct (U t) eqn:Ut.
  - rewrite (c08_mask_set_gett_in U w t Ut) in B. discriminate.
  - split; [reflexivity|]. apply filter_In. rewrite (c08_mask_set_gett U w t Ut) in B. split; assumption.
Qed.

Lemma c08_mask_set_isolated_ok w U : WFin w -> c08_unrelated w U ->
  isolated_ok w = true -> isolated_ok (c08_mask_set U w) = true.
Proof.
  intros H HU Hi. unfold isolated_ok in *. rewrite forallb_forall in Hi. apply forallb_forall. intros t Ht.
  destruct (c08_mask_set_member w U t Ht) as [Ut Hm]. specialize (Hi t Hm). rewrite forallb_forall in Hi.
  rewrite (c08_mask_set_gett U w t Ut). apply forallb_forall. intros p Hp.
  rewrite (c08_mask_set_gett U w p (c08_out_pred w U H HU t p Ut Hp)). exact (Hi p Hp).
Qed.

Lemma c08_mask_set_no_future_ends w U nw :
  no_future_ends w nw = true -> no_future_ends (c08_mask_set U w) nw = true.
Proof.
  intros Hi. unfold no_future_ends in *. rewrite forallb_forall in Hi. apply forallb_forall. intros t Ht.
  destruct (c08_mask_set_member w U t Ht) as [Ut Hm]. rewrite (c08_mask_set_gett U w t Ut). exact (Hi t Hm).
Qed.

Theorem C08_indep_set_mask_total cfg w U st :
  balance cfg = false -> WFin w -> c08_unrelated w U -> forward cfg w = Ok st ->
  exists st2, forward cfg (c08_mask_set U w) = Ok st2 /\ forall t, U t = false -> getd st t = getd st2 t.
Proof.
  intros Hb H HU Hf.
  assert (Hex : exists st2, forward cfg (c08_mask_set U w) = Ok st2).
  { unfold forward in Hf |- *.
    destruct (isolated_ok w) eqn:Ei; cbn [negb] in Hf; [|discriminate Hf].
    destruct (no_future_ends w (now cfg)) eqn:En; cbn [negb] in Hf; [|discriminate Hf].
    rewrite (c08_mask_set_isolated_ok w U H HU Ei), (c08_mask_set_no_future_ends w U _ En). cbn [negb].
    unfold fwd_pass in Hf |- *. rewrite c08_mask_set_length.
    destruct (c08_simU_roots cfg w U _ Hb H HU _ _ _ _ (c08_simU_init w U) Hf) as [s2' [A _]].
    rewrite (c08_mask_set_roots w U (un_member _ _ HU)). exists s2'. exact A. }
  destruct Hex as [st2 Hf2]. exists st2. split; [exact Hf2|].
  exact (C08_indep_set_mask_holds cfg w U st st2 Hb H HU Hf Hf2).
Qed.
