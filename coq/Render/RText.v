(* C19 - text vocabulary of the three renderers: code points, decimal printing, padding,
   splitting and trimming, date fields and the date formats.  Definitions only. *)
From Coq Require Import NArith ZArith List Bool String Ascii Decimal DecimalN.
From PJ Require Import Base.Prelude.
Import ListNotations.

Definition text := list N.

(* ASCII literal -> code points (always used under [Eval vm_compute]) *)
Definition T (s : string) : text := List.map N_of_ascii (list_ascii_of_string s).

Definition text_eqb (a b : text) : bool := list_eqb N.eqb a b.

Fixpoint starts_with (p s : text) : bool :=
  match p, s with
  | [], _ => true
  | a :: p', b :: s' => N.eqb a b && starts_with p' s'
  | _ :: _, [] => false
  end.

Definition has_char (c : N) (s : text) : bool := existsb (N.eqb c) s.

(* ---- decimal numbers -------------------------------------------------------------------------- *)
Fixpoint uint_text (u : uint) : text :=
  match u with
  | Nil => []
  | D0 u => 48%N :: uint_text u | D1 u => 49%N :: uint_text u | D2 u => 50%N :: uint_text u
  | D3 u => 51%N :: uint_text u | D4 u => 52%N :: uint_text u | D5 u => 53%N :: uint_text u
  | D6 u => 54%N :: uint_text u | D7 u => 55%N :: uint_text u | D8 u => 56%N :: uint_text u
  | D9 u => 57%N :: uint_text u
  end.

Definition digit_cons (c : N) (u : uint) : option uint :=
  (if c =? 48 then Some (D0 u) else if c =? 49 then Some (D1 u) else if c =? 50 then Some (D2 u)
   else if c =? 51 then Some (D3 u) else if c =? 52 then Some (D4 u) else if c =? 53 then Some (D5 u)
   else if c =? 54 then Some (D6 u) else if c =? 55 then Some (D7 u) else if c =? 56 then Some (D8 u)
   else if c =? 57 then Some (D9 u) else None)%N.

Fixpoint text_uint (t : text) : option uint :=
  match t with
  | [] => Some Nil
  | c :: r => match text_uint r with Some u => digit_cons c u | None => None end
  end.

(* str(int) / repr(int) of a non-negative Python int *)
Definition print_N (n : N) : text := uint_text (N.to_uint n).

Definition parse_N (t : text) : option N :=
  match t with
  | [] => None
  | _ => match text_uint t with Some u => Some (N.of_uint u) | None => None end
  end.

Definition is_digit (c : N) : bool := ((48 <=? c) && (c <=? 57))%N.

(* zero padded fields of strftime / isoformat *)
Definition pad2 (n : N) : text := [48 + n / 10; 48 + n mod 10]%N.
Definition pad4 (n : N) : text := [48 + n / 1000; 48 + (n / 100) mod 10; 48 + (n / 10) mod 10; 48 + n mod 10]%N.
Definition pad6 (n : N) : text :=
  [48 + n / 100000; 48 + (n / 10000) mod 10; 48 + (n / 1000) mod 10;
   48 + (n / 100) mod 10; 48 + (n / 10) mod 10; 48 + n mod 10]%N.

Definition dval (c : N) : option N := if is_digit c then Some (c - 48)%N else None.

Definition parse2 (a b : N) : option N :=
  match dval a, dval b with Some x, Some y => Some (10 * x + y)%N | _, _ => None end.

Definition parse4 (a b c d : N) : option N :=
  match dval a, dval b, dval c, dval d with
  | Some x, Some y, Some z, Some w => Some (1000 * x + 100 * y + 10 * z + w)%N
  | _, _, _, _ => None
  end.

(* ---- splitting and trimming ------------------------------------------------------------------- *)
Fixpoint split_on (p : N -> bool) (s : text) : list text :=
  match s with
  | [] => [[]]
  | c :: r =>
      if p c then [] :: split_on p r
      else match split_on p r with
           | h :: tl => (c :: h) :: tl
           | [] => [[c]]
           end
  end.

(* text before the first character satisfying p, that character, the rest *)
Fixpoint break_at (p : N -> bool) (s : text) : text * option (N * text) :=
  match s with
  | [] => ([], None)
  | c :: r => if p c then ([], Some (c, r))
              else let '(a, b) := break_at p r in (c :: a, b)
  end.

Definition is_space (c : N) : bool := ((c =? 32) || (c =? 9))%N.

Fixpoint ltrim (s : text) : text :=
  match s with
  | c :: r => if is_space c then ltrim r else s
  | [] => []
  end.

Definition rtrim (s : text) : text := rev (ltrim (rev s)).
Definition trim (s : text) : text := rtrim (ltrim s).

Fixpoint join (sep : text) (l : list text) : text :=
  match l with
  | [] => []
  | [x] => x
  | x :: r => x ++ sep ++ join sep r
  end.

Definition lower (c : N) : N := if ((65 <=? c) && (c <=? 90))%N then (c + 32)%N else c.

(* case-insensitive prefix test, the prefix is given in lower case *)
Fixpoint starts_with_ci (p s : text) : bool :=
  match p, s with
  | [], _ => true
  | a :: p', b :: s' => N.eqb a (lower b) && starts_with_ci p' s'
  | _ :: _, [] => false
  end.

(* ---- dates: microseconds since 1970-01-01 -> civil fields ------------------------------------ *)
Record dfields := { f_year : Z; f_month : Z; f_day : Z; f_hour : Z; f_min : Z; f_sec : Z; f_us : Z }.

(* days since 1970-01-01 -> (year, month, day), proleptic Gregorian calendar *)
Definition civil_of_days (days : Z) : Z * Z * Z :=
  let z := days + 719468 in
  let era := z / 146097 in
  let doe := z - era * 146097 in
  let yoe := (doe - doe / 1460 + doe / 36524 - doe / 146096) / 365 in
  let doy := doe - (365 * yoe + yoe / 4 - yoe / 100) in
  let mp := (5 * doy + 2) / 153 in
  let d := doy - (153 * mp + 2) / 5 + 1 in
  let m := if mp <? 10 then mp + 3 else mp - 9 in
  let y := yoe + era * 400 + (if m <=? 2 then 1 else 0) in
  (y, m, d).

Definition days_of_civil (y m d : Z) : Z :=
  let y' := if m <=? 2 then y - 1 else y in
  let era := y' / 400 in
  let yoe := y' - era * 400 in
  let mp := if 2 <? m then m - 3 else m + 9 in
  let doy := (153 * mp + 2) / 5 + d - 1 in
  let doe := yoe * 365 + yoe / 4 - yoe / 100 + doy in
  era * 146097 + doe - 719468.

Definition fields_of (t : Z) : dfields :=
  let '(y, m, d) := civil_of_days (t / DAY) in
  let tod := t mod DAY in
  {| f_year := y; f_month := m; f_day := d;
     f_hour := tod / 3600000000; f_min := (tod / 60000000) mod 60;
     f_sec := (tod / 1000000) mod 60; f_us := tod mod 1000000 |}.

(* what the property calls "dates to the minute" *)
Definition minute_fields (t : Z) : N * N * N * N * N :=
  let f := fields_of t in
  (Z.to_N (f_year f), Z.to_N (f_month f), Z.to_N (f_day f), Z.to_N (f_hour f), Z.to_N (f_min f)).

(* strftime('%d<sep>%m<sep>%Y %H:%M') for years 1000..9999 *)
Definition fmt_dmy (sep : N) (t : Z) : text :=
  let '(y, m, d, hh, mm) := minute_fields t in
  pad2 d ++ [sep] ++ pad2 m ++ [sep] ++ pad4 y ++ [32%N] ++ pad2 hh ++ [58%N] ++ pad2 mm.

Definition parse_dmy (sep : N) (s : text) : option (N * N * N * N * N) :=
  match s with
  | [d1; d2; s1; m1; m2; s2; y1; y2; y3; y4; sp; h1; h2; co; n1; n2] =>
      if (s1 =? sep)%N && (s2 =? sep)%N && (sp =? 32)%N && (co =? 58)%N then
        match parse2 d1 d2, parse2 m1 m2, parse4 y1 y2 y3 y4, parse2 h1 h2, parse2 n1 n2 with
        | Some d, Some m, Some y, Some hh, Some mm => Some (y, m, d, hh, mm)
        | _, _, _, _, _ => None
        end
      else None
  | _ => None
  end.

(* str(datetime): YYYY-MM-DD HH:MM:SS[.ffffff] *)
Definition str_datetime (t : Z) : text :=
  let f := fields_of t in
  pad4 (Z.to_N (f_year f)) ++ [45%N] ++ pad2 (Z.to_N (f_month f)) ++ [45%N] ++ pad2 (Z.to_N (f_day f)) ++ [32%N]
  ++ pad2 (Z.to_N (f_hour f)) ++ [58%N] ++ pad2 (Z.to_N (f_min f)) ++ [58%N] ++ pad2 (Z.to_N (f_sec f))
  ++ (if f_us f =? 0 then [] else 46%N :: pad6 (Z.to_N (f_us f))).
