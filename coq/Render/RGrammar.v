(* C19 - reference readers of the produced texts, written independently of the builders:
   - Mermaid gantt: entity pre-pass (mermaidAPI.encodeEntities), line lexer after gantt.jison
     (comments, keywords, section, taskTxt ':' taskData), task data after ganttDb.parseData;
   - Mermaid flowchart: node chains  id shape? (--> id shape?)*  and style statements;
   - DHTMLX: the entries of the parsed JSON document.
   That Mermaid and DHTMLX read the text as these grammars do is an assumption (DESIGN 4.19).
   Definitions only. *)
From Coq Require Import NArith ZArith List Bool String.
From PJ Require Import Base.Prelude Render.RText Render.RHtml Render.RJson.
Import ListNotations.
Local Open Scope N_scope.

Definition is_nl (c : N) : bool := (c =? 10) || (c =? 13).
Definition lines_of (s : text) : list text := split_on is_nl s.

(* ================= entity pre-pass:  /#\w+;/g  ->  placeholder ================================ *)
Definition is_word (c : N) : bool :=
  is_digit c || ((65 <=? c) && (c <=? 90)) || ((97 <=? c) && (c <=? 122)) || (c =? 95).

(* the placeholders of mermaid: fl-ligature degree [degree] ... pilcrow sharp-s *)
Definition ph_open : text := [64258; 176].
Definition ph_open_num : text := [64258; 176; 176].
Definition ph_close : text := [182; 223].
Definition placeholder (w : text) : text :=
  (if forallb is_digit w then ph_open_num else ph_open) ++ w ++ ph_close.

Definition flush (p : option text) : text := match p with Some b => 35 :: rev b | None => [] end.

(* p = Some b: a '#' and the word characters b (reversed) have been read *)
Fixpoint pp (p : option text) (s : text) : text :=
  match s with
  | [] => flush p
  | c :: r =>
      match p with
      | None => if c =? 35 then pp (Some []) r else c :: pp None r
      | Some b =>
          if is_word c then pp (Some (c :: b)) r
          else if (c =? 59) && negb (match b with [] => true | _ => false end)
               then placeholder (rev b) ++ pp None r
          else flush p ++ (if c =? 35 then pp (Some []) r else c :: pp None r)
      end
  end.

Definition encode_entities (s : text) : text := pp None s.

(* ================= Mermaid gantt ============================================================== *)
Inductive gline :=
| GBlank | GComment | GDirective
| GSection (s : text)
| GTask (name data : text)
| GInvalid.

Definition kw (s : string) : text := T s.
(* keywords of the gantt lexer (it is case-insensitive), lower case *)
Definition gantt_keywords : list text := Eval vm_compute in
  [kw "gantt"; kw "dateformat"; kw "inclusiveenddates"; kw "topaxis"; kw "axisformat"; kw "tickinterval";
   kw "includes"; kw "excludes"; kw "todaymarker"; kw "weekday"; kw "weekend"; kw "title"; kw "acctitle";
   kw "accdescr"; kw "click"; kw "href"; kw "call"].
Definition kw_section : text := Eval vm_compute in kw "section".

(* characters that end taskTxt / a section name / task data *)
Definition stop_txt (c : N) : bool := (c =? 35) || (c =? 58) || (c =? 59).
Definition stop_data (c : N) : bool := (c =? 35) || (c =? 59).

Definition starts_date (l : text) : bool :=
  match l with
  | a :: b :: c :: d :: e :: f :: g :: h :: i :: j :: _ =>
      is_digit a && is_digit b && is_digit c && is_digit d && (e =? 45)
      && is_digit f && is_digit g && (h =? 45) && is_digit i && is_digit j
  | _ => false
  end.

Definition starts_comment (l : text) : bool :=
  match l with
  | a :: r => (a =? 35)
              || match r with b :: _ => (b =? 37) && negb (a =? 125) | [] => false end
              || starts_with [37; 37] l
  | [] => false
  end.

Definition classify (line : text) : gline :=
  let l := ltrim line in
  match l with
  | [] => GBlank
  | _ =>
      if starts_comment l then GComment
      else if starts_with_ci kw_section l then
        match skipn 7 l with
        | c :: r => if is_space c then
                      match break_at stop_txt r with
                      | (s, None) => match trim s with [] => GInvalid | s' => GSection s' end
                      | (s, Some (d, _)) => if d =? 35 then match trim s with [] => GInvalid | s' => GSection s' end
                                            else GInvalid
                      end
                    else GInvalid
        | [] => GInvalid
        end
      else if existsb (fun k => starts_with_ci k l) gantt_keywords then GDirective
      else if starts_date l then GInvalid
      else match break_at stop_txt l with
           | (name, Some (d, rest)) =>
               if d =? 58 then
                 match name with
                 | [] => GInvalid
                 | _ => match break_at stop_data rest with
                        | (data, None) => GTask (trim name) data
                        | (data, Some (e, _)) => if e =? 35 then GTask (trim name) data else GInvalid
                        end
                 end
               else GInvalid
           | (_, None) => GInvalid
           end
  end.

Record gentry := {
  ge_section : option text;          (* text of the section line it is under *)
  ge_id : N;
  ge_tags : list text;               (* done / active / crit / milestone, in order *)
  ge_start : N * N * N * N * N;      (* year, month, day, hour, minute *)
  ge_end : N * N * N * N * N
}.

Definition tag_done : text := Eval vm_compute in T "done".
Definition tag_active : text := Eval vm_compute in T "active".
Definition tag_crit : text := Eval vm_compute in T "crit".
Definition tag_milestone : text := Eval vm_compute in T "milestone".
Definition is_tag (s : text) : bool :=
  text_eqb s tag_done || text_eqb s tag_active || text_eqb s tag_crit || text_eqb s tag_milestone.

Fixpoint split_tags (items : list text) : list text * list text :=
  match items with
  | x :: r => if is_tag x then let '(a, b) := split_tags r in (x :: a, b) else ([], items)
  | [] => ([], [])
  end.

Definition id_prefix : text := Eval vm_compute in T "id_".
Definition parse_gantt_id (s : text) : option N :=
  if starts_with id_prefix s then parse_N (skipn 3 s) else None.

(* the task data " tags, id, start, end" under dateFormat DD.MM.YYYY HH:mm *)
Definition parse_task_data (sec : option text) (data : text) : option gentry :=
  let items := map trim (split_on (N.eqb 44) data) in
  match split_tags items with
  | (tags, [i; s; e]) =>
      match parse_gantt_id i, parse_dmy 46 s, parse_dmy 46 e with
      | Some n, Some ds, Some de =>
          Some {| ge_section := sec; ge_id := n; ge_tags := tags; ge_start := ds; ge_end := de |}
      | _, _, _ => None
      end
  | _ => None
  end.

Fixpoint gantt_entries (sec : option text) (ls : list gline) : option (list gentry) :=
  match ls with
  | [] => Some []
  | GInvalid :: _ => None
  | GSection s :: r => gantt_entries (Some s) r
  | GTask _ data :: r =>
      match parse_task_data sec data with
      | Some e => cons_opt e (gantt_entries sec r)
      | None => None
      end
  | _ :: r => gantt_entries sec r
  end.

(* None = Mermaid reports a syntax error (nothing is drawn) *)
Definition extract_gantt (src : text) : option (list gentry) :=
  gantt_entries None (map classify (lines_of (encode_entities src))).

Definition is_milestone (e : gentry) : bool := existsb (text_eqb tag_milestone) (ge_tags e).

(* ================= Mermaid flowchart ========================================================== *)
(* a node as read: numeric id and the shape it is drawn with (0 none, 125 hexagon, 41 circle) *)
Definition fnode : Type := N * N.

Inductive fstate :=
| FNodeStart                       (* spaces, then an id *)
| FId (acc : text)                 (* reading the id (reversed) *)
| FOpen1 (id : text) (k : N)       (* first '{' or '(' read *)
| FLabel0 (id : text) (k : N)      (* after the opening pair *)
| FQuote0 (id : text) (k : N)      (* just after the opening quote *)
| FQuoted (id : text) (k : N)      (* inside "..." *)
| FQuotedEnd (id : text) (k : N)   (* after the closing quote *)
| FPlain (id : text) (k : N)       (* inside an unquoted text *)
| FClose1 (id : text) (k : N)      (* first closing character read *)
| FAfter                           (* after a node *)
| FArrow (n : nat).                (* n characters of "-->" read *)

Definition is_idchar (c : N) : bool := is_word c.
Definition closer (c : N) : option N := if c =? 123 then Some 125 else if c =? 40 then Some 41 else None.
(* characters that cannot occur in an unquoted node text *)
Definition plain_stop (c : N) : bool :=
  (c =? 34) || (c =? 123) || (c =? 125) || (c =? 40) || (c =? 41) || (c =? 91) || (c =? 93)
  || (c =? 124) || (c =? 60) || (c =? 62) || (c =? 59) || (c =? 38).

Definition mk_node (id : text) (k : N) : option fnode :=
  match parse_N id with Some n => Some (n, k) | None => None end.

Definition emit (id : text) (k : N) (rest : option (list fnode)) : option (list fnode) :=
  match mk_node id k with Some nd => cons_opt nd rest | None => None end.

Fixpoint fchain (st : fstate) (s : text) : option (list fnode) :=
  match s with
  | [] =>
      match st with
      | FAfter => Some []
      | FId acc => emit (rev acc) 0 (Some [])
      | _ => None
      end
  | c :: r =>
      match st with
      | FNodeStart => if is_space c then fchain FNodeStart r
                      else if is_idchar c then fchain (FId [c]) r else None
      | FId acc =>
          if is_idchar c then fchain (FId (c :: acc)) r
          else match closer c with
               | Some k => fchain (FOpen1 (rev acc) k) r
               | None => if is_space c then emit (rev acc) 0 (fchain FAfter r)
                         else if c =? 45 then emit (rev acc) 0 (fchain (FArrow 1) r) else None
               end
      | FOpen1 id k => match closer c with
                       | Some k' => if k' =? k then fchain (FLabel0 id k) r else None
                       | None => None
                       end
      | FLabel0 id k => if c =? 34 then fchain (FQuote0 id k) r
                        else if plain_stop c then None else fchain (FPlain id k) r
      | FQuote0 id k => if c =? 96 then None                      (* markdown string: not produced *)
                        else if c =? 34 then fchain (FQuotedEnd id k) r
                        else fchain (FQuoted id k) r
      | FQuoted id k => if c =? 34 then fchain (FQuotedEnd id k) r else fchain (FQuoted id k) r
      | FQuotedEnd id k => if c =? k then fchain (FClose1 id k) r else None
      | FPlain id k => if c =? k then fchain (FClose1 id k) r
                       else if plain_stop c then None else fchain (FPlain id k) r
      | FClose1 id k => if c =? k then emit id k (fchain FAfter r) else None
      | FAfter => if is_space c then fchain FAfter r
                  else if c =? 45 then fchain (FArrow 1) r else None
      | FArrow 1 => if c =? 45 then fchain (FArrow 2) r else None
      | FArrow 2 => if c =? 62 then fchain FNodeStart r else None
      | FArrow _ => None
      end
  end.

Inductive fentry :=
| EEdge (src dst : fnode)
| EStyle (id : N) (style : text).

Fixpoint chain_edges (ns : list fnode) : list fentry :=
  match ns with
  | a :: ((b :: _) as r) => EEdge a b :: chain_edges r
  | _ => []
  end.

Definition kw_flowchart : text := Eval vm_compute in T "flowchart".
Definition kw_graph : text := Eval vm_compute in T "graph".
Definition kw_style : text := Eval vm_compute in T "style ".

Definition flow_line (line : text) : option (list fentry) :=
  let l := ltrim line in
  match l with
  | [] => Some []
  | _ =>
      if starts_with kw_flowchart l || starts_with kw_graph l then Some []
      else if starts_with kw_style l then
        match break_at is_space (skipn 6 l) with
        | (i, Some (_, st)) => match parse_N i with Some n => Some [EStyle n st] | None => None end
        | (_, None) => None
        end
      else match fchain FNodeStart l with
           | Some ns => match ns with
                        | _ :: _ :: _ => Some (chain_edges ns)
                        | _ => None      (* a lone node statement is never produced *)
                        end
           | None => None
           end
  end.

Fixpoint flow_entries (ls : list text) : option (list fentry) :=
  match ls with
  | [] => Some []
  | l :: r => match flow_line l, flow_entries r with
              | Some a, Some b => Some (a ++ b)
              | _, _ => None
              end
  end.

Definition extract_net (src : text) : option (list fentry) := flow_entries (lines_of src).

(* ================= DHTMLX document ============================================================ *)
Record jentry := {
  je_id : N;
  je_name : text;
  je_milestone : bool;
  je_start : N * N * N * N * N;
  je_end : N * N * N * N * N;
  je_parent : N;                     (* 0 = no parent *)
  je_progress : text                 (* the JSON number as written *)
}.
Record jlink := { jl_id : N; jl_source : N; jl_target : N }.

Definition jk (s : string) : text := T s.
Definition get_num (k : text) (o : jobj) : option N :=
  match lookup k o with Some (SNum t) => parse_N t | _ => None end.
Definition get_str (k : text) (o : jobj) : option text :=
  match lookup k o with Some (SStr s) => Some s | _ => None end.

Definition K_id : text := Eval vm_compute in jk "id".
Definition K_text : text := Eval vm_compute in jk "text".
Definition K_type : text := Eval vm_compute in jk "type".
Definition K_start_date : text := Eval vm_compute in jk "start_date".
Definition K_end_date : text := Eval vm_compute in jk "end_date".
Definition K_parent : text := Eval vm_compute in jk "parent".
Definition K_progress : text := Eval vm_compute in jk "progress".
Definition K_source : text := Eval vm_compute in jk "source".
Definition K_target : text := Eval vm_compute in jk "target".
Definition V_milestone : text := Eval vm_compute in jk "milestone".
Definition V_task : text := Eval vm_compute in jk "task".

Definition entry_of_obj (o : jobj) : option jentry :=
  match get_num K_id o, get_str K_text o, get_str K_type o, get_str K_start_date o, get_str K_end_date o,
        get_num K_parent o, lookup K_progress o with
  | Some i, Some nm, Some ty, Some sd, Some ed, Some p, Some (SNum pr) =>
      match parse_dmy 45 sd, parse_dmy 45 ed with
      | Some ds, Some de =>
          if (text_eqb ty V_milestone || text_eqb ty V_task) && num_in_unit pr then
            Some {| je_id := i; je_name := nm; je_milestone := text_eqb ty V_milestone;
                    je_start := ds; je_end := de; je_parent := p; je_progress := pr |}
          else None
      | _, _ => None
      end
  | _, _, _, _, _, _, _ => None
  end.

Definition link_of_obj (o : jobj) : option jlink :=
  match get_num K_id o, get_num K_source o, get_num K_target o with
  | Some i, Some s, Some t => Some {| jl_id := i; jl_source := s; jl_target := t |}
  | _, _, _ => None
  end.

Fixpoint all_some {A B} (f : A -> option B) (l : list A) : option (list B) :=
  match l with
  | [] => Some []
  | x :: r => match f x, all_some f r with
              | Some y, Some ys => Some (y :: ys)
              | _, _ => None
              end
  end.

(* one entry per object of "data", one link per object of "links"; None = not well-formed *)
Definition extract_json (src : text) : option (list jentry * list jlink) :=
  match parse_json src with
  | Some (d, l) =>
      match all_some entry_of_obj d, all_some link_of_obj l with
      | Some es, Some ls => Some (es, ls)
      | _, _ => None
      end
  | None => None
  end.

Fixpoint nodup_N (l : list N) : bool :=
  match l with
  | [] => true
  | x :: r => negb (existsb (N.eqb x) r) && nodup_N r
  end.
