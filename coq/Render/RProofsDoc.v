(* C19 - the tie of the model's literals to the source (gen/Consts.v is extracted from pjplan/viz on
   every run), and the documents: the notebook representation decodes to the document, the Mermaid
   source is the decoded text of the <div class="mermaid"> element, the JSON text ends at the script
   element's own closing tag. *)
From Coq Require Import NArith ZArith List Bool Lia String.
From PJ Require Import Base.Prelude gen.Consts Render.RText Render.RHtml Render.RJson Render.RModel Render.RGrammar
  Render.RSpec Render.RProofsText Render.RProofsHtml Render.RProofsJson.
Import ListNotations.
Local Open Scope N_scope.

(* ---- the model's literals are the ones of the source ------------------------------------------ *)
Lemma gantt_header_is_the_source_one : c19_gantt_header = s_gantt ++ s_datefmt.
Proof. reflexivity. Qed.

Definition fmt_hole : text := [123; 125].
Lemma gantt_line_format_is_the_source_one :
  c19_gantt_line_format = [32; 32; 32; 32] ++ fmt_hole ++ [58; 32] ++ fmt_hole ++ [32] ++ fmt_hole ++ [44; 32]
                          ++ fmt_hole ++ [44; 32] ++ fmt_hole ++ [10].
Proof. reflexivity. Qed.

Definition strftime_dmy (sep : N) : text := [37; 100; sep; 37; 109; sep; 37; 89; 32; 37; 72; 58; 37; 77].
Lemma gantt_date_formats_are_the_source_ones :
  c19_gantt_start_format = strftime_dmy 46 /\ c19_gantt_end_format = strftime_dmy 46.
Proof. split; reflexivity. Qed.
Lemma dhtmlx_date_formats_are_the_source_ones :
  c19_dhtmlx_start_format = strftime_dmy 45 /\ c19_dhtmlx_end_format = strftime_dmy 45.
Proof. split; reflexivity. Qed.

Lemma net_header_is_the_source_one : c19_net_header = s_flow.
Proof. reflexivity. Qed.

(* the repairs of F22 are in the source *)
Lemma gantt_text_is_the_source_one :
  c19_gantt_text_prefix = gantt_guard /\ c19_gantt_text_suffix = []
  /\ forall c, gantt_special c = has_char c c19_gantt_text_specials.
Proof.
  split; [reflexivity|]. split; [reflexivity|]. intro c. unfold gantt_special, has_char. cbn [c19_gantt_text_specials existsb].
  rewrite orb_false_r, !orb_assoc. reflexivity.
Qed.

Lemma net_label_is_the_source_one :
  c19_net_label_prefix = [34] /\ c19_net_label_suffix = [34] /\ forall c, net_special c = has_char c c19_net_label_specials.
Proof.
  split; [reflexivity|]. split; [reflexivity|]. intro c. unfold net_special, has_char. cbn [c19_net_label_specials existsb].
  rewrite orb_false_r, !orb_assoc. reflexivity.
Qed.

Lemma json_replacement_is_the_source_one : c19_json_replace_old = [60] /\ c19_json_replace_new = lt_escape.
Proof. split; reflexivity. Qed.

Lemma mermaid_source_is_escaped_in_the_source : c19_src_escaped_mgantt = true /\ c19_src_escaped_mnet = true.
Proof. split; reflexivity. Qed.

Lemma wrappers_are_the_source_ones :
  c19_wrapper_pre_mgantt = srcdoc_open /\ c19_wrapper_pre_mnet = srcdoc_open /\ c19_wrapper_pre_dhtmlx = srcdoc_open
  /\ c19_wrapper_escaped_mgantt = true /\ c19_wrapper_escaped_mnet = true /\ c19_wrapper_escaped_dhtmlx = true
  /\ hd 0 c19_wrapper_post_mgantt = 34 /\ hd 0 c19_wrapper_post_mnet = 34 /\ hd 0 c19_wrapper_post_dhtmlx = 34.
Proof. repeat split; reflexivity. Qed.

(* the templates: the placeholder of the source sits right after the opening tag of the Mermaid div and
   right before its closing tag; the placeholder of the data sits in gantt.parse(...) and the first closing
   script tag after it is the one of the template *)
Definition s_parse_open : text := Eval vm_compute in T "gantt.parse(".
Definition s_parse_close : text := Eval vm_compute in T ");".

Lemma templates_are_the_source_ones :
  ends_with (div_open ++ [10]) c19_tpl_mgantt_before = true
  /\ starts_with ([10] ++ div_close) c19_tpl_mgantt_after = true
  /\ ends_with (div_open ++ [10]) c19_tpl_mnet_before = true
  /\ starts_with ([10] ++ div_close) c19_tpl_mnet_after = true
  /\ ends_with s_parse_open c19_tpl_dhtmlx_before = true
  /\ until_sub script_close c19_tpl_dhtmlx_after = s_parse_close ++ [10; 10]
  /\ contains_sub script_close c19_tpl_dhtmlx_after = true.
Proof. repeat split; vm_compute; reflexivity. Qed.

(* ---- the notebook representation -------------------------------------------------------------- *)
Theorem repr_roundtrip : forall pre post doc, pre = srcdoc_open -> hd 0 post = 34 ->
  srcdoc_of (repr_html pre post doc) = Some doc.
Proof.
  intros pre post doc -> H. unfold repr_html. destruct post as [|c post]; [discriminate|]. cbn [hd] in H. subst c.
  apply srcdoc_roundtrip.
Qed.

(* ---- the Mermaid source inside the div -------------------------------------------------------- *)
(* the raw text of the element ends at the template's closing tag, and decodes to the source *)
Theorem mermaid_div_text : forall after src, starts_with ([10] ++ div_close) after = true ->
  unescape_html (until_sub div_close (escape_html src ++ after)) = src ++ [10]
  /\ has_char 60 (until_sub div_close (escape_html src ++ after)) = false.
Proof.
  intros after src H. destruct after as [|c after]; [discriminate|].
  cbn [app starts_with] in H. apply andb_true_iff in H as [Hc H]. apply N.eqb_eq in Hc. subst c.
  assert (Hd : div_close = 60 :: [47; 100; 105; 118]) by reflexivity. rewrite Hd in *.
  rewrite until_sub_app by (apply escape_no; auto).
  assert (E : until_sub (60 :: [47; 100; 105; 118]) (10 :: after) = [10]).
  { cbn [until_sub]. change (starts_with (60 :: [47; 100; 105; 118]) (10 :: after)) with false. cbv beta iota.
    destruct after as [|d after]; [reflexivity|]. cbn [until_sub]. rewrite H. reflexivity. }
  rewrite E. split.
  - unfold unescape_html. rewrite <- (unescape_escape src) at 2. unfold unescape_html, escape_html.
    induction src as [|x src IH]; [reflexivity|]. cbn [flat_map]. rewrite <- app_assoc, !unesc_escape1, IH. reflexivity.
  - rewrite has_char_app, escape_no by auto. reflexivity.
Qed.

(* ---- the JSON text inside the script element -------------------------------------------------- *)
Theorem dhtmlx_script_text : forall after data, has_char 60 data = false ->
  until_sub script_close (data ++ after) = data ++ until_sub script_close after.
Proof. intros after data H. unfold script_close. apply until_sub_app, H. Qed.
