(* C19 - text put into a task name cannot add, drop or alter other entries: the entries the property
   demands after one task was renamed are the entries demanded before, except for the name field of
   that task's entry in the DHTMLX data. *)
From Coq Require Import NArith ZArith List Bool Lia.
From PJ Require Import Base.Prelude Render.RText Render.RHtml Render.RJson Render.RModel Render.RGrammar Render.RSpec
  Render.RProofsText.
Import ListNotations.

Section Rename.
Variables (i : N) (nm : text).
Notation f := (rename_task i nm).

Lemma tasks_of_rename : forall w, tasks_of (rename i nm w) = map f (tasks_of w).
Proof. intro w. unfold tasks_of, rename. rewrite !map_map. reflexivity. Qed.

(* ---- the domain is kept ----------------------------------------------------------------------- *)
Lemma task_ok_rename : forall clock t, single_line nm = true -> task_ok clock t = true -> task_ok clock (f t) = true.
Proof.
  intros clock t Hn H. unfold task_ok in *.
  change (t_start (f t)) with (t_start t). change (t_end (f t)) with (t_end t).
  change (t_section (f t)) with (t_section t). change (t_est (f t)) with (t_est t).
  change (t_spent (f t)) with (t_spent t). change (progress_kind clock (f t)) with (progress_kind clock t).
  change (t_prog_txt (f t)) with (t_prog_txt t). change (t_net_style (f t)) with (t_net_style t).
  apply andb_true_iff in H as [H H9]. apply andb_true_iff in H as [H H8]. apply andb_true_iff in H as [H H7].
  apply andb_true_iff in H as [H H6]. apply andb_true_iff in H as [H H5]. apply andb_true_iff in H as [H H4].
  apply andb_true_iff in H as [H H3]. apply andb_true_iff in H as [H1 H2].
  rewrite H2, H3, H4, H5, H6, H7, H8. rewrite !andb_true_r. apply andb_true_iff. split.
  - cbn [rename_task t_name]. destruct (t_id t =? i)%N; assumption.
  - cbn [rename_task t_preds]. rewrite forallb_forall in *. intros p Hp. apply in_map_iff in Hp as (q & <- & Hq).
    destruct (fst q =? i)%N; [exact Hn | apply H9, Hq].
Qed.

Theorem wbs_ok_rename : forall clock w, single_line nm = true -> wbs_ok clock w = true -> wbs_ok clock (rename i nm w) = true.
Proof.
  intros clock w Hn H. unfold wbs_ok in *. rewrite tasks_of_rename. rewrite forallb_forall in *.
  intros t Ht. apply in_map_iff in Ht as (t0 & <- & Ht0). apply task_ok_rename; [exact Hn | apply H, Ht0].
Qed.

(* ---- Mermaid gantt ---------------------------------------------------------------------------- *)
Lemma filter_map_inv : forall {A} (p : A -> bool) (g : A -> A) l, (forall x, p (g x) = p x) ->
  filter p (map g l) = map g (filter p l).
Proof.
  intros A p g l H. induction l as [|x l IH]; [reflexivity|]. cbn [map filter]. rewrite H, IH.
  destruct (p x); reflexivity.
Qed.

Lemma groups_rename : forall ts,
  gantt_groups (map f ts) = map (fun g => (fst g, map f (snd g))) (gantt_groups ts).
Proof.
  intro ts. unfold gantt_groups. rewrite !map_map.
  replace (map (fun x => section_of (f x)) ts) with (map section_of ts) by (apply map_ext; reflexivity).
  apply map_ext. intro s. cbn [fst snd]. f_equal. apply filter_map_inv. reflexivity.
Qed.

Lemma sectioned_rename : forall ts, sectioned (map f ts) = sectioned ts.
Proof.
  intro ts. unfold sectioned. rewrite groups_rename. destruct (gantt_groups ts) as [|a [|b G]]; reflexivity.
Qed.

Theorem gantt_expected_rename : forall clock w, gantt_expected clock (rename i nm w) = gantt_expected clock w.
Proof.
  intros clock w. unfold gantt_expected, gantt_layout. rewrite tasks_of_rename, sectioned_rename.
  destruct (sectioned (tasks_of w)).
  - rewrite groups_rename. induction (gantt_groups (tasks_of w)) as [|g G IH]; [reflexivity|].
    cbn [map flat_map fst snd]. rewrite !map_app, IH. f_equal. rewrite !map_map. reflexivity.
  - rewrite !map_map. reflexivity.
Qed.

(* ---- Mermaid network -------------------------------------------------------------------------- *)
Definition edges_of (tid : N) (ps : list (N * text)) : list fentry :=
  match ps with
  | [] => [EEdge (0%N, circle) (tid, hexagon)]
  | ps => map (fun p => EEdge (fst p, hexagon) (tid, hexagon)) ps
  end.

Lemma edges_of_map : forall tid (g : N * text -> N * text) ps, (forall p, fst (g p) = fst p) ->
  edges_of tid (map g ps) = edges_of tid ps.
Proof.
  intros tid g ps H. destruct ps as [|p ps]; [reflexivity|]. unfold edges_of. cbn [map]. rewrite (H p). f_equal.
  rewrite map_map. apply map_ext. intro q. rewrite H. reflexivity.
Qed.

Lemma net_task_edges_eq : forall t, net_task_edges t = edges_of (t_id t) (t_preds t).
Proof. intro t. unfold net_task_edges, edges_of. destruct (t_preds t); reflexivity. Qed.

Lemma net_task_edges_rename : forall t, net_task_edges (f t) = net_task_edges t.
Proof.
  intro t. rewrite !net_task_edges_eq. change (t_id (f t)) with (t_id t). cbn [rename_task t_preds].
  apply edges_of_map. intro p. destruct (fst p =? i)%N; reflexivity.
Qed.

Lemma flat_map_map : forall {A B C} (h : B -> list C) (g : A -> B) l, flat_map h (map g l) = flat_map (fun x => h (g x)) l.
Proof. intros. induction l as [|x l IH]; [reflexivity|]. cbn [map flat_map]. rewrite IH. reflexivity. Qed.

Theorem net_expected_rename : forall w, net_expected (rename i nm w) = net_expected w.
Proof.
  intro w. unfold net_expected. rewrite tasks_of_rename, !flat_map_map.
  f_equal; try (apply flat_map_ext; intro t; first [apply net_task_edges_rename | reflexivity]).
Qed.

(* ---- DHTMLX ----------------------------------------------------------------------------------- *)
Notation ftp := (fun tp : task * N => (f (fst tp), snd tp)).

Lemma with_parents_rename : forall w st,
  with_parents st (rename i nm w) = map (fun x => (fst x, ftp (snd x))) (with_parents st w).
Proof.
  induction w as [|[lv t] w IH]; intro st; [reflexivity|].
  cbn [rename map with_parents fst snd]. f_equal. apply IH.
Qed.

Lemma dorder_map : forall {X Y} (h : X -> Y) l cur,
  dorder (option_map h cur) (map (fun x => (fst x, h (snd x))) l) = map h (dorder cur l).
Proof.
  intros X Y h l. induction l as [|[lv x] l IH]; intro cur.
  - destruct cur; reflexivity.
  - cbn [map dorder fst snd]. destruct lv.
    + rewrite map_app. rewrite <- (IH (Some x)). destruct cur; reflexivity.
    + cbn [map]. rewrite IH. reflexivity.
Qed.

Lemma dhtmlx_tasks_rename : forall w, dhtmlx_tasks (rename i nm w) = map ftp (dhtmlx_tasks w).
Proof. intro w. unfold dhtmlx_tasks. rewrite with_parents_rename. apply (dorder_map ftp _ None). Qed.

Lemma dep_pairs_rename : forall ts, dep_pairs (map f ts) = dep_pairs ts.
Proof.
  intro ts. unfold dep_pairs. rewrite flat_map_map. apply flat_map_ext. intro t.
  cbn [rename_task t_preds t_id]. rewrite map_map. apply map_ext. intro p. destruct (fst p =? i)%N; reflexivity.
Qed.

Theorem json_expected_rename : forall clock w,
  json_expected clock (rename i nm w)
  = (map (rename_entry i nm) (fst (json_expected clock w)), snd (json_expected clock w)).
Proof.
  intros clock w. unfold json_expected. cbn [fst snd]. rewrite dhtmlx_tasks_rename. f_equal.
  - rewrite !map_map. apply map_ext. intros [t p]. reflexivity.
  - rewrite map_map. cbn [fst]. rewrite <- (map_map fst f), dep_pairs_rename. reflexivity.
Qed.

End Rename.
