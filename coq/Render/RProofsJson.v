(* C19 - the JSON printer and the independent reader: string literals round trip for every text,
   the printed document lexes and parses back to the document, replacing '<' on the finished text
   is the same as printing with the safe string escape, the result contains no '<'. *)
From Coq Require Import NArith ZArith List Bool Lia.
From PJ Require Import Base.Prelude Render.RText Render.RJson Render.RProofsText.
Import ListNotations.
Local Open Scope N_scope.

Ltac neq_eqb c n := replace (c =? n) with false by (symmetry; apply N.eqb_neq; lia).

(* ---- single steps of the lexer ---------------------------------------------------------------- *)
Lemma lex_idle : forall c r, lex LIdle (c :: r) = idle_step c (fun st' => lex st' r).
Proof. reflexivity. Qed.

Lemma step_bs : forall acc r, lex (LStr acc) (92 :: r) = lex (LEsc acc) r.
Proof. reflexivity. Qed.

Lemma step_u : forall acc r, lex (LEsc acc) (117 :: r) = lex (LUni acc 4 0) r.
Proof. reflexivity. Qed.

Lemma step_hex : forall acc k v c h r, hexval c = Some h ->
  lex (LUni acc (S (S k)) v) (c :: r) = lex (LUni acc (S k) (16 * v + h)) r.
Proof. intros acc k v c h r H. cbn [lex]. rewrite H. reflexivity. Qed.

Lemma step_hex_last : forall acc v c h r, hexval c = Some h ->
  lex (LUni acc 1 v) (c :: r) = lex (LStr ((16 * v + h) :: acc)) r.
Proof. intros acc v c h r H. cbn [lex]. rewrite H. reflexivity. Qed.

Lemma step_plain : forall acc c r, c <> 34 -> c <> 92 -> 32 <= c ->
  lex (LStr acc) (c :: r) = lex (LStr (c :: acc)) r.
Proof.
  intros acc c r H1 H2 H3. cbn [lex].
  apply N.eqb_neq in H1, H2. rewrite H1, H2.
  replace (c <? 32) with false by (symmetry; apply N.ltb_ge; assumption). reflexivity.
Qed.

Lemma hexval_hexdigit : forall d, d < 16 -> hexval (hexdigit d) = Some d.
Proof.
  intros d H. unfold hexdigit. destruct (d <? 10) eqn:E.
  - apply N.ltb_lt in E. unfold hexval. rewrite pad_digit by assumption. f_equal. lia.
  - apply N.ltb_ge in E. unfold hexval, is_digit.
    replace (87 + d <=? 57) with false by (symmetry; apply N.leb_gt; lia). rewrite andb_false_r.
    replace (97 <=? 87 + d) with true by (symmetry; apply N.leb_le; lia).
    replace (87 + d <=? 102) with true by (symmetry; apply N.leb_le; lia).
    cbn [andb]. f_equal. lia.
Qed.

(* one character of a string, written by the safe escape, is read back as that character *)
Lemma lex_str_char : forall c acc r, lex (LStr acc) (esc_safe1 c ++ r) = lex (LStr (c :: acc)) r.
Proof.
  intros c acc r. unfold esc_safe1.
  destruct (c =? 60) eqn:E0; [apply N.eqb_eq in E0; subst; reflexivity|].
  unfold esc_json1.
  destruct (c =? 34) eqn:E1; [apply N.eqb_eq in E1; subst; reflexivity|].
  destruct (c =? 92) eqn:E2; [apply N.eqb_eq in E2; subst; reflexivity|].
  destruct (c =? 10) eqn:E3; [apply N.eqb_eq in E3; subst; reflexivity|].
  destruct (c =? 13) eqn:E4; [apply N.eqb_eq in E4; subst; reflexivity|].
  destruct (c =? 9) eqn:E5; [apply N.eqb_eq in E5; subst; reflexivity|].
  destruct (c =? 8) eqn:E6; [apply N.eqb_eq in E6; subst; reflexivity|].
  destruct (c =? 12) eqn:E7; [apply N.eqb_eq in E7; subst; reflexivity|].
  destruct (c <? 32) eqn:E8.
  - apply N.ltb_lt in E8.
    assert (H1 : c / 16 < 16) by (apply N.div_lt_upper_bound; lia).
    assert (H2 : c mod 16 < 16) by (apply N.mod_lt; lia).
    cbn [app]. rewrite step_bs, step_u.
    rewrite (step_hex acc 2 0 48 0) by reflexivity.
    rewrite (step_hex acc 1 _ 48 0) by reflexivity.
    rewrite (step_hex acc 0 _ _ _ _ (hexval_hexdigit _ H1)).
    rewrite (step_hex_last acc _ _ _ _ (hexval_hexdigit _ H2)).
    f_equal. f_equal. f_equal. pose proof (N.div_mod c 16 ltac:(lia)). lia.
  - apply N.ltb_ge in E8. apply N.eqb_neq in E1, E2. cbn [app]. apply step_plain; assumption.
Qed.

Lemma lex_str_body : forall s acc r,
  lex (LStr acc) (flat_map esc_safe1 s ++ 34 :: r) = cons_opt (TStr (rev acc ++ s)) (lex LIdle r).
Proof.
  induction s as [|c s IH]; intros acc r.
  - cbn [flat_map app]. rewrite app_nil_r. reflexivity.
  - cbn [flat_map]. rewrite <- app_assoc, lex_str_char, IH. cbn [rev]. rewrite <- app_assoc. reflexivity.
Qed.

(* the core lemma: a printed string literal is read back as the string, for every string *)
Theorem lex_print_str : forall s r,
  lex LIdle (print_str esc_safe1 s ++ r) = cons_opt (TStr s) (lex LIdle r).
Proof.
  intros s r. unfold print_str. cbn [app]. rewrite lex_idle.
  change (idle_step 34 (fun st' => lex st' ((flat_map esc_safe1 s ++ [34]) ++ r)))
    with (lex (LStr []) ((flat_map esc_safe1 s ++ [34]) ++ r)).
  rewrite <- app_assoc. cbn [app]. rewrite lex_str_body. reflexivity.
Qed.

(* ---- whitespace, numbers, literals ------------------------------------------------------------ *)
Lemma lex_ws : forall ind r, forallb is_ws ind = true -> lex LIdle (ind ++ r) = lex LIdle r.
Proof.
  induction ind as [|c ind IH]; intros r H; [reflexivity|].
  cbn [forallb] in H. apply andb_true_iff in H as [H1 H2].
  cbn [app]. rewrite lex_idle. unfold idle_step. rewrite H1. apply IH, H2.
Qed.

Lemma numchar_idle : forall c k, is_numchar c = true -> idle_step c k = k (LNum [c]).
Proof.
  intros c k H. unfold is_numchar in H. destruct (is_digit c) eqn:D.
  - unfold is_digit in D. apply andb_true_iff in D as [D1 D2]. apply N.leb_le in D1, D2.
    unfold idle_step, is_ws, punct, is_numchar, is_digit.
    neq_eqb c 32. neq_eqb c 10. neq_eqb c 13. neq_eqb c 9. neq_eqb c 34. neq_eqb c 123. neq_eqb c 125.
    neq_eqb c 91. neq_eqb c 93. neq_eqb c 44. neq_eqb c 58.
    replace (48 <=? c) with true by (symmetry; apply N.leb_le; lia).
    replace (c <=? 57) with true by (symmetry; apply N.leb_le; lia). reflexivity.
  - cbn [orb] in H. repeat (apply orb_true_iff in H; destruct H as [H|H]);
      apply N.eqb_eq in H; subst; reflexivity.
Qed.

Lemma lex_num_run : forall t acc d r, forallb is_numchar t = true -> is_numchar d = false ->
  lex (LNum acc) (t ++ d :: r) = cons_opt (TNum (rev acc ++ t)) (lex LIdle (d :: r)).
Proof.
  induction t as [|c t IH]; intros acc d r H Hd.
  - cbn [app lex]. rewrite Hd, app_nil_r. reflexivity.
  - cbn [forallb] in H. apply andb_true_iff in H as [H1 H2].
    cbn [app lex]. rewrite H1, (IH _ _ _ H2 Hd). cbn [rev]. rewrite <- app_assoc. reflexivity.
Qed.

Definition numtext (t : text) : Prop := t <> [] /\ forallb is_numchar t = true.

Lemma lex_num : forall t d r, numtext t -> is_numchar d = false ->
  lex LIdle (t ++ d :: r) = cons_opt (TNum t) (lex LIdle (d :: r)).
Proof.
  intros t d r [Hne H] Hd. destruct t as [|c t]; [congruence|].
  cbn [forallb] in H. apply andb_true_iff in H as [H1 H2].
  cbn [app]. rewrite lex_idle, (numchar_idle _ _ H1).
  rewrite (lex_num_run _ _ _ _ H2 Hd). reflexivity.
Qed.

Definition tok_of (v : scalar) : tok :=
  match v with SNull => TNull | STrue => TTrue | SFalse => TFalse | SNum t => TNum t | SStr s => TStr s end.

Definition scalar_wf (v : scalar) : Prop := match v with SNum t => numtext t | _ => True end.

(* a scalar is always followed by a comma or a newline *)
Lemma lex_scalar : forall v d r, scalar_wf v -> d = 44 \/ d = 10 ->
  lex LIdle (print_scalar esc_safe1 v ++ d :: r) = cons_opt (tok_of v) (lex LIdle (d :: r)).
Proof.
  intros v d r Hv Hd. destruct v as [| | |t|s]; cbn [print_scalar tok_of].
  - destruct Hd; subst; reflexivity.
  - destruct Hd; subst; reflexivity.
  - destruct Hd; subst; reflexivity.
  - apply lex_num; [exact Hv | destruct Hd; subst; reflexivity].
  - apply lex_print_str.
Qed.

(* ---- token view of the document --------------------------------------------------------------- *)
Definition comma_if {A} (r : list A) : list tok := match r with [] => [] | _ => [TComma] end.

Fixpoint toks_fields (l : jobj) : list tok :=
  match l with
  | [] => []
  | (k, v) :: r => TStr k :: TColon :: tok_of v :: comma_if r ++ toks_fields r
  end.

Definition toks_obj (o : jobj) : list tok := TLBrace :: toks_fields o ++ [TRBrace].

Fixpoint toks_objs (l : list jobj) : list tok :=
  match l with
  | [] => []
  | o :: r => toks_obj o ++ comma_if r ++ toks_objs r
  end.

Definition toks_arr (l : list jobj) : list tok := TLBrack :: toks_objs l ++ [TRBrack].

Definition toks_doc (d : jdoc) : list tok :=
  [TLBrace; TStr key_data; TColon] ++ toks_arr (fst d) ++ [TComma; TStr key_links; TColon]
  ++ toks_arr (snd d) ++ [TRBrace].

Definition app_opt (l : list tok) (o : option (list tok)) : option (list tok) :=
  match o with Some x => Some (l ++ x) | None => None end.

Lemma cons_app_opt : forall t l o, cons_opt t (app_opt l o) = app_opt (t :: l) o.
Proof. intros t l [x|]; reflexivity. Qed.

Lemma app_opt_nil : forall o, app_opt [] o = o.
Proof. intros [x|]; reflexivity. Qed.

Lemma app_app_opt : forall a b o, app_opt a (app_opt b o) = app_opt (a ++ b) o.
Proof. intros a b [x|]; simpl; [rewrite app_assoc|]; reflexivity. Qed.

Lemma cons_opt_app_opt : forall t o, cons_opt t o = app_opt [t] o.
Proof. intros t [x|]; reflexivity. Qed.

Definition obj_wf (o : jobj) : Prop := Forall (fun kv => scalar_wf (snd kv)) o.
Definition spaces (ind : text) : Prop := forallb (N.eqb 32) ind = true.

Lemma spaces_ws : forall ind, spaces ind -> forallb is_ws ind = true.
Proof.
  unfold spaces. induction ind as [|c ind IH]; intro H; [reflexivity|].
  cbn [forallb] in *. apply andb_true_iff in H as [H1 H2]. apply N.eqb_eq in H1. subst.
  rewrite (IH H2). reflexivity.
Qed.

Lemma spaces_app : forall a b, spaces a -> spaces b -> spaces (a ++ b).
Proof. unfold spaces. intros a b Ha Hb. rewrite forallb_app, Ha, Hb. reflexivity. Qed.

Lemma lex_sep_after : forall {A} (rest : list A) r,
  lex LIdle (sep_after rest ++ r) = app_opt (comma_if rest) (lex LIdle r).
Proof. intros A [|x rest] r; cbn [sep_after comma_if app]; [rewrite app_opt_nil|]; reflexivity. Qed.

Lemma sep_after_head : forall {A} (rest : list A), exists d tl, sep_after rest = d :: tl /\ (d = 44 \/ d = 10).
Proof. intros A [|x rest]; cbn [sep_after]; eauto. Qed.

Lemma lex_colon_sp : forall r, lex LIdle (58 :: 32 :: r) = cons_opt TColon (lex LIdle r).
Proof. reflexivity. Qed.
Lemma lex_comma : forall r, lex LIdle (44 :: r) = cons_opt TComma (lex LIdle r).
Proof. reflexivity. Qed.
Lemma lex_nl : forall r, lex LIdle (10 :: r) = lex LIdle r.
Proof. reflexivity. Qed.
Lemma lex_sp : forall r, lex LIdle (32 :: r) = lex LIdle r.
Proof. reflexivity. Qed.
Lemma lex_lbrace : forall r, lex LIdle (123 :: r) = cons_opt TLBrace (lex LIdle r).
Proof. reflexivity. Qed.
Lemma lex_rbrace : forall r, lex LIdle (125 :: r) = cons_opt TRBrace (lex LIdle r).
Proof. reflexivity. Qed.
Lemma lex_lbrack : forall r, lex LIdle (91 :: r) = cons_opt TLBrack (lex LIdle r).
Proof. reflexivity. Qed.
Lemma lex_rbrack : forall r, lex LIdle (93 :: r) = cons_opt TRBrack (lex LIdle r).
Proof. reflexivity. Qed.

Lemma lex_fields : forall ind l r, spaces ind -> obj_wf l ->
  lex LIdle (print_fields esc_safe1 ind l ++ r) = app_opt (toks_fields l) (lex LIdle r).
Proof.
  intros ind l r Hind. induction l as [|[k v] rest IH]; intro Hwf.
  - cbn [print_fields toks_fields app]. rewrite app_opt_nil. reflexivity.
  - inversion Hwf as [|? ? Hv Hrest]; subst. cbn [snd] in Hv.
    cbn [print_fields toks_fields]. repeat rewrite <- app_assoc.
    rewrite (lex_ws _ _ (spaces_ws _ Hind)), lex_print_str.
    cbn [app]. rewrite lex_colon_sp.
    assert (E2 : lex LIdle (sep_after rest ++ print_fields esc_safe1 ind rest ++ r)
                 = app_opt (comma_if rest) (app_opt (toks_fields rest) (lex LIdle r)))
      by (rewrite lex_sep_after, (IH Hrest); reflexivity).
    destruct (sep_after_head rest) as (d & tl & Es & Hd).
    rewrite Es in E2 |- *. cbn [app] in E2 |- *. rewrite (lex_scalar _ _ _ Hv Hd), E2.
    rewrite app_app_opt, !cons_app_opt. reflexivity.
Qed.

Lemma lex_obj : forall ind o r, spaces ind -> obj_wf o ->
  lex LIdle (print_obj esc_safe1 ind o ++ r) = app_opt (toks_obj o) (lex LIdle r).
Proof.
  intros ind o r Hind Hwf. unfold print_obj, toks_obj. destruct o as [|kv o'].
  - cbn [app toks_fields]. rewrite lex_lbrace, lex_rbrace. destruct (lex LIdle r); reflexivity.
  - set (o := kv :: o') in *. repeat rewrite <- app_assoc. cbn [app].
    rewrite lex_lbrace, lex_nl, lex_fields; [| apply spaces_app; [exact Hind | reflexivity] | exact Hwf].
    rewrite (lex_ws _ _ (spaces_ws _ Hind)). cbn [app]. rewrite lex_rbrace.
    rewrite (cons_opt_app_opt TRBrace), app_app_opt, cons_app_opt. reflexivity.
Qed.

Definition objs_wf (l : list jobj) : Prop := Forall obj_wf l.

Lemma lex_objs : forall ind l r, spaces ind -> objs_wf l ->
  lex LIdle (print_objs esc_safe1 ind l ++ r) = app_opt (toks_objs l) (lex LIdle r).
Proof.
  intros ind l r Hind. induction l as [|o rest IH]; intro Hwf.
  - cbn [print_objs toks_objs app]. rewrite app_opt_nil. reflexivity.
  - inversion Hwf as [|? ? Ho Hrest]; subst.
    cbn [print_objs toks_objs]. repeat rewrite <- app_assoc.
    rewrite (lex_ws _ _ (spaces_ws _ Hind)), (lex_obj _ _ _ Hind Ho), lex_sep_after, (IH Hrest).
    rewrite !app_app_opt, <- app_assoc. reflexivity.
Qed.

Lemma lex_arr : forall ind l r, spaces ind -> objs_wf l ->
  lex LIdle (print_arr esc_safe1 ind l ++ r) = app_opt (toks_arr l) (lex LIdle r).
Proof.
  intros ind l r Hind Hwf. unfold print_arr, toks_arr. destruct l as [|o l'].
  - cbn [app toks_objs]. rewrite lex_lbrack, lex_rbrack. destruct (lex LIdle r); reflexivity.
  - set (l := o :: l') in *. repeat rewrite <- app_assoc. cbn [app].
    rewrite lex_lbrack, lex_nl, lex_objs; [| apply spaces_app; [exact Hind | reflexivity] | exact Hwf].
    rewrite (lex_ws _ _ (spaces_ws _ Hind)). cbn [app]. rewrite lex_rbrack.
    rewrite (cons_opt_app_opt TRBrack), app_app_opt, cons_app_opt. reflexivity.
Qed.

Definition doc_wf (d : jdoc) : Prop := objs_wf (fst d) /\ objs_wf (snd d).

Theorem lex_doc : forall d, doc_wf d -> lex LIdle (print_doc esc_safe1 d) = Some (toks_doc d).
Proof.
  intros d [Hd Hl]. unfold print_doc, toks_doc. repeat rewrite <- app_assoc. cbn [app].
  rewrite lex_lbrace, lex_nl, lex_sp, lex_sp, lex_print_str. cbn [app]. rewrite lex_colon_sp.
  rewrite (lex_arr [32; 32] _ _ eq_refl Hd). rewrite lex_comma, lex_nl, lex_sp, lex_sp, lex_print_str.
  cbn [app]. rewrite lex_colon_sp. rewrite (lex_arr [32; 32] _ _ eq_refl Hl).
  rewrite lex_nl, lex_rbrace. cbn [lex cons_opt app_opt].
  repeat rewrite <- app_assoc. reflexivity.
Qed.

(* ---- the parser on the token view ------------------------------------------------------------- *)
Lemma scalar_of_tok : forall v, scalar_of (tok_of v) = Some v.
Proof. destruct v; reflexivity. Qed.

Lemma parr_fields : forall l objs cur ts, l <> [] ->
  parr (PKey objs cur) (toks_fields l ++ TRBrace :: ts) = parr (PObjEnd ((rev cur ++ l) :: objs)) ts.
Proof.
  induction l as [|[k v] rest IH]; intros objs cur ts Hne; [congruence|].
  cbn [toks_fields app parr]. rewrite scalar_of_tok.
  destruct rest as [|kv2 rest'].
  - cbn [comma_if toks_fields app parr rev]. reflexivity.
  - remember (kv2 :: rest') as rest eqn:Er.
    assert (Hr : rest <> []) by (subst; discriminate).
    replace (comma_if rest) with [TComma] by (subst; reflexivity). cbn [app parr].
    rewrite IH by exact Hr. cbn [rev]. rewrite <- app_assoc. reflexivity.
Qed.

Lemma parr_obj : forall o objs ts,
  parr (PObjOpen objs) (toks_fields o ++ TRBrace :: ts) = parr (PObjEnd (o :: objs)) ts.
Proof.
  intros o objs ts. destruct o as [|[k v] rest].
  - reflexivity.
  - change (parr (PObjOpen objs) (toks_fields ((k, v) :: rest) ++ TRBrace :: ts))
      with (parr (PKey objs []) (toks_fields ((k, v) :: rest) ++ TRBrace :: ts)).
    rewrite parr_fields by discriminate. reflexivity.
Qed.

Lemma parr_objs : forall l objs ts, l <> [] ->
  parr (PNextObj objs) (toks_objs l ++ TRBrack :: ts) = Some (rev objs ++ l, ts).
Proof.
  induction l as [|o rest IH]; intros objs ts Hne; [congruence|].
  cbn [toks_objs]. unfold toks_obj. repeat rewrite <- app_assoc. cbn [app parr].
  rewrite <- app_assoc. cbn [app]. rewrite parr_obj.
  destruct rest as [|o2 rest'].
  - cbn [comma_if toks_objs app parr rev]. reflexivity.
  - remember (o2 :: rest') as rest eqn:Er.
    assert (Hr : rest <> []) by (subst; discriminate).
    replace (comma_if rest) with [TComma] by (subst; reflexivity). cbn [app parr].
    rewrite IH by exact Hr. cbn [rev]. rewrite <- app_assoc. reflexivity.
Qed.

Lemma parr_arr : forall l ts, parr PArrOpen (toks_objs l ++ TRBrack :: ts) = Some (l, ts).
Proof.
  intros l ts. destruct l as [|o rest].
  - reflexivity.
  - change (parr PArrOpen (toks_objs (o :: rest) ++ TRBrack :: ts))
      with (parr (PNextObj []) (toks_objs (o :: rest) ++ TRBrack :: ts)).
    rewrite parr_objs by discriminate. reflexivity.
Qed.

Theorem parse_toks_doc : forall d, parse_doc_toks (toks_doc d) = Some d.
Proof.
  intros [dl ll]. unfold toks_doc, toks_arr. cbn [fst snd app parse_doc_toks].
  rewrite text_eqb_refl. rewrite <- app_assoc. cbn [app]. rewrite parr_arr.
  rewrite text_eqb_refl. rewrite <- app_assoc. cbn [app]. rewrite parr_arr. reflexivity.
Qed.

(* the printed document (safe string escape) parses back to the document *)
Theorem parse_print_doc : forall d, doc_wf d -> parse_json (print_doc esc_safe1 d) = Some d.
Proof.
  intros d H. unfold parse_json. rewrite (lex_doc _ H). cbn [bind_opt]. apply parse_toks_doc.
Qed.

(* ---- replacing '<' on the finished text ------------------------------------------------------- *)
Definition repl1 (c : N) : text := if c =? 60 then lt_escape else [c].

Lemma replace_lt_app : forall a b, replace_lt (a ++ b) = replace_lt a ++ replace_lt b.
Proof. intros. unfold replace_lt. apply flat_map_app. Qed.

Lemma replace_lt_id : forall s, has_char 60 s = false -> replace_lt s = s.
Proof.
  induction s as [|c s IH]; intro H; [reflexivity|].
  unfold has_char in H. cbn [existsb] in H. apply orb_false_iff in H as [H1 H2].
  unfold replace_lt. cbn [flat_map]. fold (replace_lt s). rewrite (IH H2).
  rewrite N.eqb_sym in H1. rewrite H1. reflexivity.
Qed.

Lemma hexdigit_not_lt : forall d, d < 16 -> hexdigit d <> 60.
Proof. intros d H. unfold hexdigit. destruct (d <? 10) eqn:E; [apply N.ltb_lt in E|apply N.ltb_ge in E]; lia. Qed.

Lemma replace_esc1 : forall c, replace_lt (esc_json1 c) = esc_safe1 c.
Proof.
  intro c. unfold esc_safe1. destruct (c =? 60) eqn:E0; [apply N.eqb_eq in E0; subst; reflexivity|].
  apply replace_lt_id. unfold esc_json1.
  destruct (c =? 34); [reflexivity|]. destruct (c =? 92); [reflexivity|].
  destruct (c =? 10); [reflexivity|]. destruct (c =? 13); [reflexivity|].
  destruct (c =? 9); [reflexivity|]. destruct (c =? 8); [reflexivity|]. destruct (c =? 12); [reflexivity|].
  destruct (c <? 32) eqn:E8.
  - apply N.ltb_lt in E8.
    assert (H1 : c / 16 < 16) by (apply N.div_lt_upper_bound; lia).
    assert (H2 : c mod 16 < 16) by (apply N.mod_lt; lia).
    apply has_char_false_forall. intros x Hx.
    cbn [In] in Hx. destruct Hx as [<-|[<-|[<-|[<-|[<-|[<-|[]]]]]]]; try lia;
      apply hexdigit_not_lt; assumption.
  - unfold has_char. cbn [existsb]. rewrite N.eqb_sym, E0. reflexivity.
Qed.

Lemma replace_str : forall s, replace_lt (print_str esc_json1 s) = print_str esc_safe1 s.
Proof.
  intro s. unfold print_str. change (34 :: flat_map esc_json1 s ++ [34]) with ([34] ++ flat_map esc_json1 s ++ [34]).
  rewrite !replace_lt_app. cbn [replace_lt flat_map N.eqb Pos.eqb app]. f_equal. f_equal.
  induction s as [|c s IH]; [reflexivity|].
  cbn [flat_map]. rewrite replace_lt_app, replace_esc1, IH. reflexivity.
Qed.

Definition scalar_plain (v : scalar) : Prop := match v with SNum t => has_char 60 t = false | _ => True end.
Definition obj_plain (o : jobj) : Prop := Forall (fun kv => scalar_plain (snd kv)) o.
Definition doc_plain (d : jdoc) : Prop := Forall obj_plain (fst d) /\ Forall obj_plain (snd d).

Lemma replace_scalar : forall v, scalar_plain v ->
  replace_lt (print_scalar esc_json1 v) = print_scalar esc_safe1 v.
Proof.
  intros v H. destruct v; cbn [print_scalar]; try reflexivity.
  - apply replace_lt_id, H.
  - apply replace_str.
Qed.

Lemma spaces_plain : forall ind, spaces ind -> replace_lt ind = ind.
Proof.
  intros ind H. apply replace_lt_id. apply has_char_false_forall. intros x Hx ->.
  unfold spaces in H. rewrite forallb_forall in H. specialize (H _ Hx). discriminate.
Qed.

Lemma replace_sep : forall {A} (r : list A), replace_lt (sep_after r) = sep_after r.
Proof. intros A [|x r]; reflexivity. Qed.

Lemma replace_fields : forall ind l, spaces ind -> obj_plain l ->
  replace_lt (print_fields esc_json1 ind l) = print_fields esc_safe1 ind l.
Proof.
  intros ind l Hind. induction l as [|[k v] rest IH]; intro H; [reflexivity|].
  inversion H as [|? ? Hv Hrest]; subst. cbn [snd] in Hv.
  cbn [print_fields]. rewrite !replace_lt_app, (spaces_plain _ Hind), replace_str, (replace_scalar _ Hv),
    replace_sep, (IH Hrest). reflexivity.
Qed.

Lemma replace_obj : forall ind o, spaces ind -> obj_plain o ->
  replace_lt (print_obj esc_json1 ind o) = print_obj esc_safe1 ind o.
Proof.
  intros ind o Hind H. unfold print_obj. destruct o as [|kv o']; [reflexivity|].
  rewrite !replace_lt_app, (spaces_plain _ Hind), replace_fields;
    [reflexivity | apply spaces_app; [exact Hind | reflexivity] | exact H].
Qed.

Lemma replace_objs : forall ind l, spaces ind -> Forall obj_plain l ->
  replace_lt (print_objs esc_json1 ind l) = print_objs esc_safe1 ind l.
Proof.
  intros ind l Hind. induction l as [|o rest IH]; intro H; [reflexivity|].
  inversion H as [|? ? Ho Hrest]; subst.
  cbn [print_objs]. rewrite !replace_lt_app, (spaces_plain _ Hind), (replace_obj _ _ Hind Ho), replace_sep,
    (IH Hrest). reflexivity.
Qed.

Lemma replace_arr : forall ind l, spaces ind -> Forall obj_plain l ->
  replace_lt (print_arr esc_json1 ind l) = print_arr esc_safe1 ind l.
Proof.
  intros ind l Hind H. unfold print_arr. destruct l as [|o l']; [reflexivity|].
  rewrite !replace_lt_app, (spaces_plain _ Hind), replace_objs;
    [reflexivity | apply spaces_app; [exact Hind | reflexivity] | exact H].
Qed.

(* .replace('<', ...) on the text json.dumps returns = printing every string with the safe escape *)
Theorem replace_print_doc : forall d, doc_plain d ->
  replace_lt (print_doc esc_json1 d) = print_doc esc_safe1 d.
Proof.
  intros d [Hd Hl]. unfold print_doc.
  rewrite !replace_lt_app, !replace_str, (replace_arr [32; 32] _ eq_refl Hd), (replace_arr [32; 32] _ eq_refl Hl).
  reflexivity.
Qed.

(* after the replacement no '<' is left, whatever the text was *)
Theorem replace_lt_no_lt : forall s, has_char 60 (replace_lt s) = false.
Proof.
  induction s as [|c s IH]; [reflexivity|].
  unfold replace_lt. cbn [flat_map]. fold (replace_lt s). rewrite has_char_app, IH, orb_false_r.
  destruct (c =? 60) eqn:E; [reflexivity|].
  unfold has_char. cbn [existsb]. rewrite N.eqb_sym, E. reflexivity.
Qed.

Lemma numtext_plain : forall t, forallb is_numchar t = true -> has_char 60 t = false.
Proof.
  intros t H. apply has_char_false_forall. intros x Hx ->.
  rewrite forallb_forall in H. specialize (H _ Hx). discriminate.
Qed.

(* ---- reading values --------------------------------------------------------------------------- *)
Lemma lookup_app_absent : forall k a b, (forall kv, In kv b -> text_eqb k (fst kv) = false) ->
  lookup k (a ++ b) = lookup k a.
Proof.
  intros k a b H. induction a as [|[k' v] a IH].
  - cbn [app]. induction b as [|[k' v] b IHb]; [reflexivity|].
    cbn [lookup]. rewrite IHb by (intros kv Hkv; apply H; right; exact Hkv).
    pose proof (H (k', v) (or_introl eq_refl)) as Hk. cbn [fst] in Hk. rewrite Hk. reflexivity.
  - cbn [app lookup]. rewrite IH. reflexivity.
Qed.
