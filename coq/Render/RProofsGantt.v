(* C19 - MermaidGantt.__src: after Mermaid's entity pre-pass the gantt line reader finds exactly one task
   line per task (id, dates to the minute, state tags) under the section line of its section, whatever the
   task names and section names are. *)
From Coq Require Import NArith ZArith List Bool Lia String.
From PJ Require Import Base.Prelude Render.RText Render.RHtml Render.RJson Render.RModel Render.RGrammar Render.RSpec
  Render.RProofsText Render.RProofsNet Render.RProofsDhtmlx.
Import ListNotations.
Local Open Scope N_scope.

(* ---- the entity pre-pass ---------------------------------------------------------------------- *)
Lemma pp_nl : forall a p b, pp p (a ++ 10 :: b) = pp p a ++ 10 :: pp None b.
Proof.
  induction a as [|c a IH]; intros p b.
  - destruct p as [bf|]; reflexivity.
  - cbn [app pp]. destruct p as [bf|].
    + destruct (is_word c); [apply IH|].
      destruct ((c =? 59) && negb match bf with [] => true | _ :: _ => false end).
      * rewrite IH, app_assoc. reflexivity.
      * destruct (c =? 35); rewrite IH; [rewrite app_assoc | rewrite app_comm_cons, app_assoc]; reflexivity.
    + destruct (c =? 35); rewrite IH; reflexivity.
Qed.

Lemma pp_plain : forall s r, has_char 35 s = false -> pp None (s ++ r) = s ++ pp None r.
Proof.
  induction s as [|c s IH]; intros r H; [reflexivity|].
  unfold has_char in H. cbn [existsb] in H. apply orb_false_iff in H as [Hc Hs]. rewrite N.eqb_sym in Hc.
  cbn [app pp]. rewrite Hc, (IH _ Hs). reflexivity.
Qed.

Lemma pp_plain_all : forall s, has_char 35 s = false -> pp None s = s.
Proof. intros s H. rewrite <- (app_nil_r s) at 1. rewrite (pp_plain _ _ H). cbn [pp flush]. apply app_nil_r. Qed.

Lemma digit_word : forall c, is_digit c = true -> is_word c = true.
Proof. intros c H. unfold is_word. rewrite H. reflexivity. Qed.

Lemma pp_word_run : forall ds bf r, forallb is_digit ds = true ->
  pp (Some bf) (ds ++ r) = pp (Some (rev ds ++ bf)) r.
Proof.
  induction ds as [|d ds IH]; intros bf r H; [reflexivity|].
  cbn [forallb] in H. apply andb_true_iff in H as [Hd Hs].
  cbn [app pp]. rewrite (digit_word _ Hd), (IH _ _ Hs). cbn [rev]. rewrite <- app_assoc. reflexivity.
Qed.

(* what the pre-pass makes of an entity code *)
Definition ph (c : N) : text := ph_open_num ++ print_N c ++ ph_close.

Lemma pp_entity : forall c r, pp None (entity c ++ r) = ph c ++ pp None r.
Proof.
  intros c r. unfold entity. cbn [app pp]. change (35 =? 35) with true. cbv beta iota.
  rewrite <- app_assoc, (pp_word_run _ _ _ (print_N_digits c)). rewrite app_nil_r.
  cbn [app pp]. change (is_word 59) with false. cbv beta iota. change (59 =? 59) with true.
  pose proof (print_N_nonempty c) as Hne.
  destruct (rev (print_N c)) as [|x xs] eqn:E.
  - exfalso. apply Hne. rewrite <- (rev_involutive (print_N c)), E. reflexivity.
  - cbn [andb negb]. rewrite <- E, rev_involutive. unfold placeholder, ph. rewrite (print_N_digits c).
    rewrite <- !app_assoc. reflexivity.
Qed.

Definition shown_char (sp : N -> bool) (c : N) : text := if sp c then ph c else [c].

Lemma pp_encode : forall sp s r, sp 35 = true ->
  pp None (encode_with sp s ++ r) = flat_map (shown_char sp) s ++ pp None r.
Proof.
  intros sp s r H35. unfold encode_with. induction s as [|c s IH]; [reflexivity|].
  cbn [flat_map]. rewrite <- !app_assoc. unfold shown_char at 1. destruct (sp c) eqn:E.
  - rewrite pp_entity, IH. reflexivity.
  - assert (Hc : (c =? 35) = false) by (apply N.eqb_neq; intro; subst; congruence).
    cbn [app pp]. rewrite Hc, IH. reflexivity.
Qed.

(* a task or section text as the gantt lexer sees it *)
Definition shown (s : text) : text := ph 8203 ++ flat_map (shown_char gantt_special) s.

Lemma guard_entity : gantt_guard = entity 8203. Proof. reflexivity. Qed.

Theorem pp_gantt_text : forall s r, pp None (gantt_text s ++ r) = shown s ++ pp None r.
Proof.
  intros s r. unfold gantt_text, shown. rewrite guard_entity, <- !app_assoc, pp_entity.
  rewrite pp_encode by reflexivity. reflexivity.
Qed.

Lemma shown_section_eq : forall s, shown_section s = trim (shown s).
Proof.
  intro s. unfold shown_section, encode_entities. rewrite <- (app_nil_r (gantt_text s)), pp_gantt_text.
  cbn [pp flush]. rewrite app_nil_r. reflexivity.
Qed.

Lemma shown_head : forall s, exists tl, shown s = 64258 :: 176 :: tl.
Proof. intro s. unfold shown, ph. cbn [ph_open_num app]. eauto. Qed.

(* characters of a shown text: placeholder characters, digits, and characters of s that are not special *)
Definition quiet (c : N) : bool := negb ((c =? 35) || (c =? 58) || (c =? 59) || (c =? 10) || (c =? 13)).

Lemma digit_quiet : forall c, is_digit c = true -> quiet c = true.
Proof.
  intros c H. pose proof (digit_facts _ H). unfold quiet. apply negb_true_iff.
  repeat (apply orb_false_iff; split); apply N.eqb_neq; lia.
Qed.

Lemma ph_quiet : forall c, forallb quiet (ph c) = true.
Proof.
  intro c. unfold ph. rewrite !forallb_app. cbn [ph_open_num ph_close forallb].
  replace (forallb quiet (print_N c)) with true; [reflexivity|]. symmetry.
  apply forallb_forall. intros x Hx. apply digit_quiet, (forallb_In _ _ _ (print_N_digits c) Hx).
Qed.

Lemma shown_quiet : forall s, no_nl s -> forallb quiet (shown s) = true.
Proof.
  intros s H. unfold shown. rewrite forallb_app, ph_quiet. cbn [andb].
  induction s as [|c s IH]; [reflexivity|].
  unfold no_nl in H. cbn [forallb] in H. apply andb_true_iff in H as [Hc Hs].
  cbn [flat_map]. rewrite forallb_app, (IH Hs), andb_true_r. unfold shown_char.
  destruct (gantt_special c) eqn:E; [apply ph_quiet|].
  cbn [forallb]. rewrite andb_true_r. unfold gantt_special in E. unfold is_nl in Hc. unfold quiet.
  apply negb_true_iff in Hc. apply orb_false_iff in Hc as [H10 H13].
  apply orb_false_iff in E as [E _]. apply orb_false_iff in E as [E E58]. apply orb_false_iff in E as [E35 E59].
  rewrite E35, E58, E59, H10, H13. reflexivity.
Qed.

Lemma quiet_not_stop_txt : forall s, forallb quiet s = true -> forallb (fun c => negb (stop_txt c)) s = true.
Proof.
  intros s H. apply forallb_forall. intros x Hx. pose proof (forallb_In _ _ _ H Hx) as Q.
  unfold quiet in Q. apply negb_true_iff in Q.
  apply orb_false_iff in Q as [Q _]. apply orb_false_iff in Q as [Q _]. apply orb_false_iff in Q as [Q Q59].
  apply orb_false_iff in Q as [Q35 Q58]. unfold stop_txt. rewrite Q35, Q58, Q59. reflexivity.
Qed.

Lemma quiet_no_nl : forall s, forallb quiet s = true -> no_nl s.
Proof.
  intros s H. unfold no_nl. apply forallb_forall. intros x Hx. pose proof (forallb_In _ _ _ H Hx) as Q.
  unfold quiet in Q. apply negb_true_iff in Q.
  apply orb_false_iff in Q as [Q Q13]. apply orb_false_iff in Q as [Q Q10]. unfold is_nl. rewrite Q10, Q13. reflexivity.
Qed.

(* characters that neither stop the task data nor belong to the name syntax: no '#', ';', newline *)
Definition calm (c : N) : bool := negb ((c =? 35) || (c =? 59) || (c =? 10) || (c =? 13)).

Lemma calm_facts : forall s, forallb calm s = true ->
  has_char 35 s = false /\ forallb (fun c => negb (stop_data c)) s = true /\ no_nl s.
Proof.
  intros s H. repeat split.
  - apply has_char_false_forall. intros x Hx ->. pose proof (forallb_In _ _ _ H Hx) as Q. discriminate.
  - apply forallb_forall. intros x Hx. pose proof (forallb_In _ _ _ H Hx) as Q. unfold calm in Q.
    apply negb_true_iff in Q. apply orb_false_iff in Q as [Q _]. apply orb_false_iff in Q as [Q _].
    apply orb_false_iff in Q as [Q35 Q59]. unfold stop_data. rewrite Q35, Q59. reflexivity.
  - unfold no_nl. apply forallb_forall. intros x Hx. pose proof (forallb_In _ _ _ H Hx) as Q. unfold calm in Q.
    apply negb_true_iff in Q. apply orb_false_iff in Q as [Q Q13]. apply orb_false_iff in Q as [Q Q10].
    unfold is_nl. rewrite Q10, Q13. reflexivity.
Qed.

(* ---- the text after the colon of a task line -------------------------------------------------- *)
Definition idtxt (t : task) : text := s_id ++ print_N (t_id t).

Definition data_items (clock : Z) (t : task) : list text :=
  match gantt_tags clock t with
  | [] => [[32; 32] ++ idtxt t; 32 :: fmt_dmy 46 (t_start t); 32 :: fmt_dmy 46 (t_end t)]
  | tg :: _ => [32 :: tg; 32 :: idtxt t; 32 :: fmt_dmy 46 (t_start t); 32 :: fmt_dmy 46 (t_end t)]
  end.

Definition task_data (clock : Z) (t : task) : text := join [44] (data_items clock t).

Definition task_line (clock : Z) (t : task) : text :=
  [32; 32; 32; 32] ++ gantt_text (t_name t) ++ 58 :: task_data clock t.

Lemma gantt_line_eq : forall clock t, gantt_line clock t = task_line clock t ++ [10].
Proof.
  intros clock t. unfold gantt_line, gantt_line_with, task_line, task_data, data_items, gantt_state, gantt_tags, idtxt.
  destruct (t_ms t); [|destruct (t_end t <=? clock)%Z; [|destruct (t_start t <? clock)%Z]];
    cbn [join s_milestone s_done s_active tag_milestone tag_done tag_active app];
    repeat rewrite <- app_assoc; cbn [app]; repeat rewrite <- app_assoc; reflexivity.
Qed.

Lemma gantt_tags_cases : forall clock t,
  gantt_tags clock t = [] \/ gantt_tags clock t = [tag_milestone] \/ gantt_tags clock t = [tag_done]
  \/ gantt_tags clock t = [tag_active].
Proof.
  intros clock t. unfold gantt_tags. destruct (t_ms t); [auto|].
  destruct (t_end t <=? clock)%Z; [auto|]. destruct (t_start t <? clock)%Z; auto.
Qed.

Definition no_comma (s : text) : Prop := forallb (fun c => negb (N.eqb 44 c)) s = true.

Lemma split_join : forall items, items <> [] -> Forall no_comma items ->
  split_on (N.eqb 44) (join [44] items) = items.
Proof.
  induction items as [|x items IH]; intros Hne H; [congruence|]. inversion H as [|? ? Hx Hi]; subst.
  destruct items as [|y items].
  - cbn [join]. apply split_on_nosplit. exact Hx.
  - change (join [44] (x :: y :: items)) with (x ++ 44 :: join [44] (y :: items)).
    rewrite split_on_app; [f_equal; apply IH; [discriminate | exact Hi] | exact Hx | reflexivity].
Qed.

Lemma space_plus : forall x, is_space (48 + x) = false.
Proof. intro x. unfold is_space. apply orb_false_iff. split; apply N.eqb_neq; lia. Qed.

Lemma trim_fmt_dmy : forall sep t, trim (fmt_dmy sep t) = fmt_dmy sep t.
Proof.
  intros sep t. unfold fmt_dmy. destruct (minute_fields t) as [[[[y m] d] hh] mm]. unfold pad2, pad4. cbn [app].
  match goal with |- trim (?a :: ?b :: ?c :: ?d :: ?e :: ?f :: ?g :: ?h :: ?i :: ?j :: ?k :: ?l :: ?m0 :: ?n :: ?o :: [?p]) = _ =>
    change (a :: b :: c :: d :: e :: f :: g :: h :: i :: j :: k :: l :: m0 :: n :: o :: [p])
      with (a :: [b; c; d; e; f; g; h; i; j; k; l; m0; n; o] ++ [p]) end.
  apply trim_id; apply space_plus.
Qed.

Lemma trim_all_nonspace : forall s, s <> [] -> forallb (fun c => negb (is_space c)) s = true -> trim s = s.
Proof.
  intros s Hne H. apply trim_nonspace_ends; [exact Hne | |].
  - intros c r ->. cbn [forallb] in H. apply andb_true_iff in H as [H _]. apply negb_true_iff, H.
  - intros c r ->. rewrite forallb_app in H. apply andb_true_iff in H as [_ H]. cbn [forallb] in H.
    apply andb_true_iff in H as [H _]. apply negb_true_iff, H.
Qed.

Lemma digits_nonspace : forall s, forallb is_digit s = true -> forallb (fun c => negb (is_space c)) s = true.
Proof.
  intros s H. apply forallb_forall. intros x Hx. pose proof (digit_facts _ (forallb_In _ _ _ H Hx)).
  unfold is_space. apply negb_true_iff, orb_false_iff. split; apply N.eqb_neq; lia.
Qed.

Lemma trim_idtxt : forall t, trim (idtxt t) = idtxt t.
Proof.
  intro t. apply trim_all_nonspace; [unfold idtxt; cbn [s_id app]; discriminate|].
  unfold idtxt. rewrite forallb_app, (digits_nonspace _ (print_N_digits _)). reflexivity.
Qed.

Lemma is_tag_idtxt : forall t, is_tag (idtxt t) = false.
Proof. reflexivity. Qed.

Lemma parse_idtxt : forall t, parse_gantt_id (idtxt t) = Some (t_id t).
Proof. intro t. unfold parse_gantt_id, idtxt. cbn [s_id id_prefix app starts_with N.eqb Pos.eqb andb skipn]. apply parse_print_N. Qed.

Lemma digits_forall : forall (P : N -> bool) s, (forall c, is_digit c = true -> P c = true) ->
  forallb is_digit s = true -> forallb P s = true.
Proof. intros P s HP H. apply forallb_forall. intros x Hx. apply HP, (forallb_In _ _ _ H Hx). Qed.

Lemma fmt_dmy_forall : forall (P : N -> bool) t, fields_small (minute_fields t) ->
  (forall c, is_digit c = true -> P c = true) -> P 46 = true -> P 32 = true -> P 58 = true ->
  forallb P (fmt_dmy 46 t) = true.
Proof.
  intros P t Hs Hd H46 H32 H58. apply forallb_forall. intros x Hx.
  destruct (fmt_dmy_chars 46 t x Hs Hx) as [D | [ -> | [ -> | -> ] ] ]; auto.
Qed.

Lemma digit_no_comma : forall c, is_digit c = true -> negb (N.eqb 44 c) = true.
Proof. intros c H. pose proof (digit_facts _ H). apply negb_true_iff, N.eqb_neq. lia. Qed.

Lemma digit_calm : forall c, is_digit c = true -> calm c = true.
Proof.
  intros c H. pose proof (digit_facts _ H). unfold calm. apply negb_true_iff.
  repeat (apply orb_false_iff; split); apply N.eqb_neq; lia.
Qed.

Record gdom (t : task) : Prop := {
  gd_name : single_line (t_name t) = true;
  gd_start : fields_small (minute_fields (t_start t));
  gd_end : fields_small (minute_fields (t_end t));
  gd_section : opt_ok single_line (t_section t) = true
}.

Lemma task_dom_gdom : forall clock t, task_dom clock t -> gdom t.
Proof.
  intros clock t D. constructor; [apply (td_name _ _ D) | apply date_ok_small, (td_start _ _ D)
                                 | apply date_ok_small, (td_end _ _ D) | apply (td_section _ _ D)].
Qed.

Lemma data_items_props : forall (P : N -> bool) clock t, gdom t ->
  (forall c, is_digit c = true -> P c = true) -> P 46 = true -> P 32 = true -> P 58 = true ->
  forallb P s_id = true -> forallb P tag_milestone = true -> forallb P tag_done = true -> forallb P tag_active = true ->
  Forall (fun s => forallb P s = true) (data_items clock t).
Proof.
  intros P clock t D Hd H46 H32 H58 Hid Hm Hdn Ha.
  assert (I : forallb P (idtxt t) = true) by (unfold idtxt; rewrite forallb_app, Hid, (digits_forall P _ Hd (print_N_digits _)); reflexivity).
  assert (S1 : forallb P (32 :: fmt_dmy 46 (t_start t)) = true)
    by (cbn [forallb]; rewrite H32, (fmt_dmy_forall P _ (gd_start _ D) Hd H46 H32 H58); reflexivity).
  assert (S2 : forallb P (32 :: fmt_dmy 46 (t_end t)) = true)
    by (cbn [forallb]; rewrite H32, (fmt_dmy_forall P _ (gd_end _ D) Hd H46 H32 H58); reflexivity).
  unfold data_items. destruct (gantt_tags_cases clock t) as [E|[E|[E|E]]]; rewrite E;
    repeat (apply Forall_cons); try apply Forall_nil; try assumption;
    cbn [forallb app]; rewrite ?H32, ?I, ?Hm, ?Hdn, ?Ha; reflexivity.
Qed.

Lemma join_forall : forall (P : N -> bool) items, P 44 = true -> Forall (fun s => forallb P s = true) items ->
  forallb P (join [44] items) = true.
Proof.
  intros P items H44. induction items as [|x items IH]; intro H; [reflexivity|]. inversion H as [|? ? Hx Hi]; subst.
  destruct items as [|y items]; [exact Hx|].
  change (join [44] (x :: y :: items)) with (x ++ [44] ++ join [44] (y :: items)).
  rewrite !forallb_app, Hx, (IH Hi). cbn [forallb]. rewrite H44. reflexivity.
Qed.

Lemma task_data_calm : forall clock t, gdom t -> forallb calm (task_data clock t) = true.
Proof.
  intros clock t D. unfold task_data. apply join_forall; [reflexivity|].
  apply data_items_props; try exact D; try reflexivity. apply digit_calm.
Qed.

(* the task data is read back as the entry of the task *)
Definition mk_entry (clock : Z) (sec : option text) (t : task) : gentry :=
  {| ge_section := sec; ge_id := t_id t; ge_tags := gantt_tags clock t;
     ge_start := minute_fields (t_start t); ge_end := minute_fields (t_end t) |}.

Theorem parse_task_data_ok : forall clock sec t, gdom t ->
  parse_task_data sec (task_data clock t) = Some (mk_entry clock sec t).
Proof.
  intros clock sec t D. unfold parse_task_data, task_data. rewrite split_join.
  - unfold data_items, mk_entry.
    destruct (gantt_tags_cases clock t) as [E|[E|[E|E]]]; rewrite E; cbn [map app];
      rewrite ?trim_lead_space, ?trim_idtxt, ?trim_fmt_dmy;
      [ | change (trim tag_milestone) with tag_milestone | change (trim tag_done) with tag_done
        | change (trim tag_active) with tag_active ];
      cbn [split_tags]; rewrite ?is_tag_idtxt;
      [ | change (is_tag tag_milestone) with true | change (is_tag tag_done) with true
        | change (is_tag tag_active) with true ];
      cbv beta iota; rewrite parse_idtxt, (parse_fmt_dmy 46 _ (gd_start _ D)), (parse_fmt_dmy 46 _ (gd_end _ D));
      reflexivity.
  - unfold data_items. destruct (gantt_tags clock t); discriminate.
  - apply (data_items_props (fun c => negb (N.eqb 44 c))); try exact D; try reflexivity. apply digit_no_comma.
Qed.

(* ---- classifying the lines -------------------------------------------------------------------- *)
Lemma sc_false : forall x, starts_comment (64258 :: 176 :: x) = false.
Proof. reflexivity. Qed.
Lemma sec_false : forall x, starts_with_ci kw_section (64258 :: x) = false.
Proof. reflexivity. Qed.
Lemma kw_false : forall x, existsb (fun k => starts_with_ci k (64258 :: x)) gantt_keywords = false.
Proof. reflexivity. Qed.
Lemma starts_date_nondigit : forall a r, is_digit a = false -> starts_date (a :: r) = false.
Proof.
  intros a r H. unfold starts_date.
  destruct r as [|b [|c [|d [|e [|f [|g [|h [|i [|j r]]]]]]]]]; try reflexivity. rewrite H. reflexivity.
Qed.

Theorem classify_task : forall sh data, (exists tl, sh = 64258 :: 176 :: tl) ->
  forallb (fun c => negb (stop_txt c)) sh = true -> forallb (fun c => negb (stop_data c)) data = true ->
  classify ([32; 32; 32; 32] ++ sh ++ 58 :: data) = GTask (trim sh) data.
Proof.
  intros sh data (tl & ->) H1 H2. unfold classify.
  change (ltrim ([32; 32; 32; 32] ++ (64258 :: 176 :: tl) ++ 58 :: data)) with (64258 :: 176 :: (tl ++ 58 :: data)).
  cbv zeta beta iota. rewrite sc_false, sec_false, kw_false, starts_date_nondigit by reflexivity.
  change (64258 :: 176 :: tl ++ 58 :: data) with ((64258 :: 176 :: tl) ++ 58 :: data).
  rewrite (break_at_app stop_txt _ 58 data H1 eq_refl). cbv beta iota. change (58 =? 58) with true. cbv beta iota.
  rewrite (break_at_none _ _ H2). reflexivity.
Qed.

Lemma ltrim_keeps_nonspace : forall a c, is_space c = false -> ltrim (a ++ [c]) <> [].
Proof.
  induction a as [|x a IH]; intros c H.
  - cbn [app ltrim]. rewrite H. discriminate.
  - cbn [app ltrim]. destruct (is_space x); [apply IH, H | discriminate].
Qed.

Lemma trim_nonempty : forall c s, is_space c = false -> trim (c :: s) <> [].
Proof.
  intros c s H. unfold trim. rewrite ltrim_nospace by exact H. unfold rtrim. cbn [rev].
  intro E. apply (f_equal (@rev N)) in E. rewrite rev_involutive in E. cbn [rev] in E.
  exact (ltrim_keeps_nonspace _ _ H E).
Qed.

Theorem classify_section : forall sh, (exists tl, sh = 64258 :: 176 :: tl) ->
  forallb (fun c => negb (stop_txt c)) sh = true -> classify (s_section ++ sh) = GSection (trim sh).
Proof.
  intros sh (tl & ->) H1. unfold classify.
  change (ltrim (s_section ++ 64258 :: 176 :: tl)) with (kw_section ++ 32 :: 64258 :: 176 :: tl).
  cbv zeta. cbn [kw_section app].
  change (starts_comment (115 :: 101 :: ?x)) with false.
  change (starts_with_ci kw_section (115 :: 101 :: 99 :: 116 :: 105 :: 111 :: 110 :: ?x)) with true.
  cbv beta iota. cbn [skipn]. change (is_space 32) with true. cbv beta iota.
  rewrite (break_at_none _ _ H1).
  pose proof (trim_nonempty 64258 (176 :: tl) eq_refl) as Hne.
  destruct (trim (64258 :: 176 :: tl)); [congruence | reflexivity].
Qed.

(* ---- the source as a list of lines ------------------------------------------------------------ *)
Definition s_gantt_line : text := Eval vm_compute in T "gantt"%string.
Definition s_datefmt_line : text := Eval vm_compute in T "  dateFormat DD.MM.YYYY HH:mm"%string.
Definition s_excl_line : text := Eval vm_compute in T "  excludes weekends"%string.

Definition opt_lines (pre : text) (o : option text) : list text :=
  match o with Some s => [pre ++ s] | None => [] end.

Definition head_lines (cfg : gcfg) : list text :=
  [s_gantt_line; s_datefmt_line] ++ opt_lines s_title (g_title cfg)
  ++ (if g_weekends cfg then [s_excl_line] else []) ++ opt_lines s_tick (g_tick cfg).

Definition group_lines (clock : Z) (g : text * list task) : list text :=
  (s_section ++ gantt_text (fst g)) :: map (task_line clock) (snd g).

Definition body_lines (clock : Z) (ts : list task) : list text :=
  if sectioned ts then flat_map (group_lines clock) (gantt_groups ts) else map (task_line clock) ts.

Lemma close_map : forall {X} (f : X -> text) l, close_lines (map f l) = flat_map (fun x => f x ++ [10]) l.
Proof. intros X f l. unfold close_lines. induction l as [|x l IH]; [reflexivity|]. cbn [map flat_map]. rewrite IH. reflexivity. Qed.

Lemma opt_line_lines : forall pre o, opt_line pre o = close_lines (opt_lines pre o).
Proof.
  intros pre [s|]; [|reflexivity]. unfold opt_line, opt_lines, close_lines. cbn [flat_map].
  rewrite app_nil_r, <- !app_assoc. reflexivity.
Qed.

Lemma head_lines_eq : forall cfg, gantt_head cfg = close_lines (head_lines cfg).
Proof.
  intro cfg. unfold gantt_head, head_lines. rewrite !close_lines_app, !opt_line_lines.
  destruct (g_weekends cfg); reflexivity.
Qed.

Lemma body_lines_eq : forall clock ts, gantt_body_with gantt_text clock ts = close_lines (body_lines clock ts).
Proof.
  intros clock ts. unfold gantt_body_with, body_lines. destruct (sectioned ts).
  - rewrite close_flat_map. apply flat_map_ext. intro g. unfold gantt_group_with, group_lines.
    change ((s_section ++ gantt_text (fst g)) :: ?r) with ([s_section ++ gantt_text (fst g)] ++ r).
    rewrite close_lines_app, close_map. unfold close_lines at 1. cbn [flat_map]. rewrite app_nil_r, <- !app_assoc.
    f_equal. f_equal. f_equal. apply flat_map_ext. intro t. apply gantt_line_eq.
  - rewrite close_map. apply flat_map_ext. intro t. apply gantt_line_eq.
Qed.

Theorem render_gantt_lines : forall clock cfg w,
  render_gantt clock cfg w = close_lines (head_lines cfg ++ body_lines clock (tasks_of w)).
Proof.
  intros. unfold render_gantt, render_gantt_with. rewrite close_lines_app, head_lines_eq, body_lines_eq. reflexivity.
Qed.

(* the pre-pass works line by line *)
Lemma pp_close_lines : forall L, pp None (close_lines L) = close_lines (map (pp None) L).
Proof.
  induction L as [|l L IH]; [reflexivity|].
  unfold close_lines in *. cbn [map flat_map]. rewrite <- app_assoc. cbn [app]. rewrite pp_nl, IH, <- app_assoc. reflexivity.
Qed.

(* ---- what each line is for the reader --------------------------------------------------------- *)
Definition read_line (l : text) : gline := classify (pp None l).

Lemma read_task_line : forall clock t, gdom t ->
  read_line (task_line clock t) = GTask (trim (shown (t_name t))) (task_data clock t)
  /\ no_nl (pp None (task_line clock t)).
Proof.
  intros clock t D. unfold read_line, task_line.
  pose proof (task_data_calm clock t D) as C. destruct (calm_facts _ C) as (C35 & Cstop & Cnl).
  assert (E : pp None ([32; 32; 32; 32] ++ gantt_text (t_name t) ++ 58 :: task_data clock t)
              = [32; 32; 32; 32] ++ shown (t_name t) ++ 58 :: task_data clock t).
  { rewrite pp_plain by reflexivity. rewrite pp_gantt_text. rewrite pp_plain_all; [reflexivity|].
    unfold has_char. cbn [existsb]. exact C35. }
  rewrite E. pose proof (shown_quiet _ (single_line_no_nl _ (gd_name _ D))) as Q. split.
  - apply classify_task; [apply shown_head | apply quiet_not_stop_txt, Q | exact Cstop].
  - apply no_nl_app; [reflexivity|]. apply no_nl_app; [apply quiet_no_nl, Q|].
    change (58 :: ?x) with ([58] ++ x). apply no_nl_app; [reflexivity | exact Cnl].
Qed.

Lemma read_section_line : forall s, single_line s = true ->
  read_line (s_section ++ gantt_text s) = GSection (shown_section s) /\ no_nl (pp None (s_section ++ gantt_text s)).
Proof.
  intros s H. unfold read_line.
  assert (E : pp None (s_section ++ gantt_text s) = s_section ++ shown s).
  { rewrite pp_plain by reflexivity. rewrite <- (app_nil_r (gantt_text s)), pp_gantt_text. cbn [pp flush].
    rewrite app_nil_r. reflexivity. }
  rewrite E, shown_section_eq. pose proof (shown_quiet _ (single_line_no_nl _ H)) as Q. split.
  - apply classify_section; [apply shown_head | apply quiet_not_stop_txt, Q].
  - apply no_nl_app; [reflexivity | apply quiet_no_nl, Q].
Qed.

Lemma plain_cfg : forall s, plain_cfg_text s = true -> has_char 35 s = false /\ no_nl s.
Proof.
  intros s H. unfold plain_cfg_text in H. apply andb_true_iff in H as [H1 H2]. apply negb_true_iff in H2.
  split; [exact H2 | apply single_line_no_nl, H1].
Qed.

Lemma read_head_lines : forall cfg, cfg_ok cfg = true ->
  Forall (fun l => read_line l = GDirective /\ no_nl (pp None l)) (head_lines cfg).
Proof.
  intros cfg H. unfold cfg_ok in H. apply andb_true_iff in H as [Ht Hk]. unfold head_lines.
  apply Forall_app. split; [repeat constructor|]. apply Forall_app. split.
  - destruct (g_title cfg) as [s|]; [|constructor]. cbn [opt_ok] in Ht. destruct (plain_cfg _ Ht) as [P1 P2].
    constructor; [|constructor]. unfold read_line.
    rewrite pp_plain_all by (rewrite has_char_app, P1; reflexivity).
    split; [reflexivity | apply no_nl_app; [reflexivity | exact P2]].
  - apply Forall_app. split; [destruct (g_weekends cfg); repeat constructor|].
    destruct (g_tick cfg) as [s|]; [|constructor]. cbn [opt_ok] in Hk. destruct (plain_cfg _ Hk) as [P1 P2].
    constructor; [|constructor]. unfold read_line.
    rewrite pp_plain_all by (rewrite has_char_app, P1; reflexivity).
    split; [reflexivity | apply no_nl_app; [reflexivity | exact P2]].
Qed.

(* ---- collecting the entries ------------------------------------------------------------------- *)
Lemma entries_directives : forall L sec r, Forall (fun g => g = GDirective) L ->
  gantt_entries sec (L ++ r) = gantt_entries sec r.
Proof.
  induction L as [|g L IH]; intros sec r H; [reflexivity|]. inversion H as [|? ? Hg HL]; subst.
  cbn [app gantt_entries]. apply IH, HL.
Qed.

Lemma entries_tasks : forall clock sec ts r X, Forall gdom ts -> gantt_entries sec r = Some X ->
  gantt_entries sec (map (fun t => read_line (task_line clock t)) ts ++ r) = Some (map (mk_entry clock sec) ts ++ X).
Proof.
  intros clock sec ts r X. induction ts as [|t ts IH]; intros D HX; [exact HX|].
  inversion D as [|? ? Dt Dts]; subst. cbn [map app]. rewrite (proj1 (read_task_line clock t Dt)).
  cbn [gantt_entries]. rewrite (parse_task_data_ok clock sec t Dt), (IH Dts HX). reflexivity.
Qed.

Definition group_ok (g : text * list task) : Prop := single_line (fst g) = true /\ Forall gdom (snd g).

Lemma entries_groups : forall clock gs sec0, Forall group_ok gs ->
  gantt_entries sec0 (flat_map (fun g => map read_line (group_lines clock g)) gs ++ [GBlank])
  = Some (flat_map (fun g => map (mk_entry clock (Some (shown_section (fst g)))) (snd g)) gs).
Proof.
  intros clock gs. induction gs as [|g gs IH]; intros sec0 H; [reflexivity|].
  inversion H as [|? ? [Hs Ht] Hgs]; subst. cbn [flat_map]. unfold group_lines at 1. cbn [map].
  rewrite (proj1 (read_section_line _ Hs)). rewrite <- !app_assoc. cbn [app gantt_entries].
  rewrite map_map. apply entries_tasks; [exact Ht | apply IH, Hgs].
Qed.

Lemma firsts_in : forall l seen x, In x (firsts seen l) -> In x l.
Proof.
  induction l as [|y l IH]; intros seen x H; [contradiction|]. cbn [firsts] in H.
  destruct (mem_text y seen); [right; eapply IH, H|]. destruct H as [<-|H]; [left; reflexivity | right; eapply IH, H].
Qed.

Lemma section_of_single : forall t, gdom t -> single_line (section_of t) = true.
Proof.
  intros t D. unfold section_of. pose proof (gd_section _ D) as H. destruct (t_section t); [exact H | reflexivity].
Qed.

Lemma groups_ok : forall ts, Forall gdom ts -> Forall group_ok (gantt_groups ts).
Proof.
  intros ts D. unfold gantt_groups. apply Forall_forall. intros g Hg. apply in_map_iff in Hg as (s & <- & Hs).
  split; cbn [fst snd].
  - apply firsts_in in Hs. apply in_map_iff in Hs as (t & <- & Ht). rewrite Forall_forall in D.
    apply section_of_single, D, Ht.
  - apply Forall_forall. intros t Ht. apply filter_In in Ht as [Ht _]. rewrite Forall_forall in D. apply D, Ht.
Qed.

Lemma map_flat_map : forall {X Y Z} (f : Y -> Z) (g : X -> list Y) l,
  map f (flat_map g l) = flat_map (fun x => map f (g x)) l.
Proof. intros. induction l as [|x l IH]; [reflexivity|]. cbn [flat_map]. rewrite map_app, IH. reflexivity. Qed.

Lemma body_no_nl : forall clock ts, Forall gdom ts -> Forall (fun l => no_nl (pp None l)) (body_lines clock ts).
Proof.
  intros clock ts D. unfold body_lines. destruct (sectioned ts).
  - apply Forall_forall. intros l Hl. apply in_flat_map in Hl as (g & Hg & Hl).
    pose proof (groups_ok ts D) as G. rewrite Forall_forall in G. destruct (G g Hg) as [Hs Ht].
    unfold group_lines in Hl. destruct Hl as [<-|Hl]; [apply (proj2 (read_section_line _ Hs))|].
    apply in_map_iff in Hl as (t & <- & Hin). rewrite Forall_forall in Ht. apply (proj2 (read_task_line clock t (Ht t Hin))).
  - apply Forall_forall. intros l Hl. apply in_map_iff in Hl as (t & <- & Hin). rewrite Forall_forall in D.
    apply (proj2 (read_task_line clock t (D t Hin))).
Qed.

(* ---- the theorem ------------------------------------------------------------------------------ *)
Theorem extract_render_gantt : forall clock cfg w, wbs_ok clock w = true -> cfg_ok cfg = true ->
  extract_gantt (render_gantt clock cfg w) = Some (gantt_expected clock w).
Proof.
  intros clock cfg w Hw Hc.
  assert (D : Forall gdom (tasks_of w)).
  { eapply Forall_impl; [|apply (wbs_ok_dom _ _ Hw)]. intros t. apply task_dom_gdom. }
  pose proof (read_head_lines cfg Hc) as HH. pose proof (body_no_nl clock _ D) as HB.
  unfold extract_gantt, encode_entities. rewrite render_gantt_lines, pp_close_lines. unfold close_lines.
  rewrite lines_of_lines.
  2:{ rewrite map_app. apply Forall_app. split; apply Forall_forall; intros l Hl; apply in_map_iff in Hl as (l0 & <- & Hl0).
      - rewrite Forall_forall in HH. apply (proj2 (HH _ Hl0)).
      - rewrite Forall_forall in HB. apply (HB _ Hl0). }
  rewrite map_app, map_map, map_app. change (map classify [[]]) with [GBlank].
  fold read_line. change (fun x => classify (pp None x)) with read_line. rewrite <- app_assoc.
  rewrite entries_directives.
  2:{ apply Forall_forall. intros g Hg. apply in_map_iff in Hg as (l & <- & Hl). rewrite Forall_forall in HH.
      apply (proj1 (HH _ Hl)). }
  unfold gantt_expected, gantt_layout, body_lines. destruct (sectioned (tasks_of w)).
  - rewrite map_flat_map, (entries_groups clock _ None (groups_ok _ D)). f_equal.
    rewrite map_flat_map. apply flat_map_ext. intro g. cbv beta. rewrite map_map. reflexivity.
  - rewrite map_map, (entries_tasks clock None (tasks_of w) [GBlank] [] D eq_refl), app_nil_r, map_map. reflexivity.
Qed.
