(* C19 - executable checker run on generated cases: the model's three texts are compared with what
   the implementation produced, and the reference readers (the verified oracle) are evaluated on the
   implementation's texts.  No theorem depends on this file. *)
From Coq Require Import NArith ZArith List Bool String Strings.Byte.
From PJ Require Import Base.Prelude Render.RText Render.RHtml Render.RJson Render.RModel Render.RGrammar Render.RSpec.
Import ListNotations.

(* input, then what the implementation returned (None = it raised):
   MermaidGantt.__src(), MermaidNetwork.__src(), DhtmlxGantt.__data() *)
Definition case : Type := Z * gcfg * wbs * (option text * option text * option text).

(* the numbers handed over by the harness are what they claim to be *)
Definition num_consistent (n : num) : bool :=
  match parse_decimal (n_txt n) with
  | Some d => decimal_near d (n_num n) (Zpos (n_den n))
  | None => false
  end.

Definition progress_consistent (clock : Z) (t : task) : bool :=
  opt_ok num_consistent (t_est t) && opt_ok num_consistent (t_spent t)
  && match progress_kind clock t, t_est t, t_spent t with
     | ProgFloat, Some e, Some s =>
         match parse_decimal (t_prog_txt t) with
         | Some d => let '(p, q) := progress_exact e s in decimal_near d p q
         | None => false
         end
     | _, _, _ => true
     end.

(* 0 fine; 20 case outside the domain (harness error); 9 the implementation raised;
   1/3/5/7 the reader finds other entries in the implementation's text than the property demands
   (gantt / network / JSON / a '<' inside the script text); 2/4/6 the texts differ from the model's
   byte for byte although the entries are right; 8 a float handed over does not match the exact value *)
Definition check_case (c : case) : nat :=
  let '(clock, cfg, w, (og, on, oj)) := c in
  if negb (wbs_ok clock w && cfg_ok cfg) then 20%nat
  else match og, on, oj with
       | Some g, Some n, Some j =>
           if negb (gantt_oracle clock w g) then 1%nat
           else if negb (net_oracle w n) then 3%nat
           else if negb (json_oracle clock w j) then 5%nat
           else if negb (script_oracle j) then 7%nat
           else if negb (text_eqb g (render_gantt clock cfg w)) then 2%nat
           else if negb (text_eqb n (render_net w)) then 4%nat
           else if negb (text_eqb j (render_json clock w)) then 6%nat
           else if negb (forallb (progress_consistent clock) (tasks_of w)) then 8%nat
           else 0%nat
       | _, _, _ => 9%nat
       end.

(* the model on its own: used to show a case, and for the examples of the statement file *)
Definition model_ok (clock : Z) (cfg : gcfg) (w : wbs) : bool :=
  gantt_oracle clock w (render_gantt clock cfg w) && net_oracle w (render_net w)
  && json_oracle clock w (render_json clock w) && script_oracle (render_json clock w).

(* notebook representation: srcdoc of the iframe decodes to the document *)
Definition repr_case : Type := text * text.     (* _repr_html_(), to_html() *)
Definition check_repr (c : repr_case) : nat :=
  match srcdoc_of (fst c) with
  | Some d => if text_eqb d (snd c) then 0%nat else 1%nat
  | None => 1%nat
  end.

(* construction helper for case files *)
Definition mk_task id name st en ms res est spent minst preds sec opn bar nst extra prog : task :=
  {| t_id := id; t_name := name; t_start := st; t_end := en; t_ms := ms; t_resource := res; t_est := est;
     t_spent := spent; t_min_start := minst; t_preds := preds; t_section := sec; t_open := opn;
     t_bar_key := bar; t_net_style := nst; t_extra := extra; t_prog_txt := prog |}.
Definition mk_num txt p q : num := {| n_txt := txt; n_num := p; n_den := q |}.
Definition mk_cfg title wk tick : gcfg := {| g_title := title; g_weekends := wk; g_tick := tick |}.

(* ---- whole documents (evaluated on a few cases per run, the texts are long) ------------------- *)
Fixpoint ltrim_ws (s : text) : text :=
  match s with
  | c :: r => if is_ws c then ltrim_ws r else s
  | [] => []
  end.
Definition rtrim_ws (s : text) : text := rev (ltrim_ws (rev s)).
Definition trim_nl (s : text) : text := rtrim_ws (ltrim_ws s).
Definition parse_call_end : text := Eval vm_compute in T ");".

(* kind 0: Mermaid document and the source it must show; kind 1: DHTMLX document and its JSON;
   kind 2: _repr_html_() and to_html() *)
Definition doc_case : Type := nat * text * text.
Definition check_doc (c : doc_case) : nat :=
  let '(kind, doc, inner) := c in
  match kind with
  | 0%nat =>
      match element_text div_open div_close doc with
      | Some body => if negb (has_char 60 body) && text_eqb (trim_nl (unescape_html body)) (trim_nl inner)
                     then 0%nat else 1%nat
      | None => 1%nat
      end
  | 1%nat =>
      match element_text script_open script_close doc with
      | Some body => if ends_with (inner ++ parse_call_end) (rtrim_ws body) then 0%nat else 1%nat
      | None => 1%nat
      end
  | _ => check_repr (doc, inner)
  end.

(* ---- compact literals for the generated case files -------------------------------------------- *)
Inductive btext := BT (l : list Byte.byte).
Definition bt_parse (l : list Byte.byte) : btext := BT l.
Definition bt_print (b : btext) : list Byte.byte := match b with BT l => l end.
Declare Scope bt_scope.
Delimit Scope bt_scope with bt.
String Notation btext bt_parse bt_print : bt_scope.

(* a text as runs of printable ASCII (a string literal) and runs of other code points *)
Inductive chunk := A (b : btext) | C (l : list N).
Arguments A b%bt.
Definition tx (l : list chunk) : text :=
  flat_map (fun c => match c with A (BT bs) => map Byte.to_N bs | C l => l end) l.
