(* C19 - lemmas on the text vocabulary: decimal round trip, padded fields, date text round trip,
   splitting and trimming. *)
From Coq Require Import NArith ZArith List Bool Lia Decimal DecimalN DecimalPos.
From PJ Require Import Base.Prelude Render.RText.
Import ListNotations.
Local Open Scope N_scope.

Lemma text_eqb_spec : forall a b, text_eqb a b = true <-> a = b.
Proof. apply list_eqb_spec. intros x y. apply N.eqb_eq. Qed.

Lemma text_eqb_refl : forall a, text_eqb a a = true.
Proof. intro a. apply text_eqb_spec. reflexivity. Qed.

Lemma text_eqb_false : forall a b, a <> b -> text_eqb a b = false.
Proof. intros a b H. destruct (text_eqb a b) eqn:E; [apply text_eqb_spec in E; contradiction | reflexivity]. Qed.

Lemma starts_with_app : forall p s, starts_with p (p ++ s) = true.
Proof. induction p as [|a p IH]; intro s; simpl; [reflexivity|]. rewrite N.eqb_refl, IH. reflexivity. Qed.

Lemma has_char_app : forall c a b, has_char c (a ++ b) = has_char c a || has_char c b.
Proof. intros. unfold has_char. apply existsb_app. Qed.

Lemma has_char_false_forall : forall c s, has_char c s = false <-> forall x, In x s -> x <> c.
Proof.
  intros c s. unfold has_char. induction s as [|a s IH]; simpl.
  - split; [intros _ x []| reflexivity].
  - rewrite orb_false_iff, IH. split.
    + intros [H1 H2] x [->|Hx]; [intro; subst; rewrite N.eqb_refl in H1; discriminate | auto].
    + intro H. split; [apply N.eqb_neq; intro; subst; apply (H a); auto | intros x Hx; apply H; auto].
Qed.

(* ---- decimal ---------------------------------------------------------------------------------- *)
Lemma text_uint_text : forall u, text_uint (uint_text u) = Some u.
Proof. induction u; simpl; try rewrite IHu; reflexivity. Qed.

Lemma uint_text_nonnil : forall u, u <> Nil -> uint_text u <> [].
Proof. destruct u; simpl; congruence. Qed.

Lemma to_uint_nonnil : forall n, N.to_uint n <> Nil.
Proof. destruct n; simpl; [discriminate | apply Unsigned.to_uint_nonnil]. Qed.

Lemma print_N_nonempty : forall n, print_N n <> [].
Proof. intro n. apply uint_text_nonnil, to_uint_nonnil. Qed.

Theorem parse_print_N : forall n, parse_N (print_N n) = Some n.
Proof.
  intro n. unfold parse_N. pose proof (print_N_nonempty n) as H.
  destruct (print_N n) eqn:E; [congruence|]. rewrite <- E. unfold print_N.
  rewrite text_uint_text, DecimalN.Unsigned.of_to. reflexivity.
Qed.

Lemma uint_text_digits : forall u, forallb is_digit (uint_text u) = true.
Proof. induction u; simpl; auto. Qed.

Lemma print_N_digits : forall n, forallb is_digit (print_N n) = true.
Proof. intro. apply uint_text_digits. Qed.

Lemma forallb_In : forall (f : N -> bool) l x, forallb f l = true -> In x l -> f x = true.
Proof. intros f l x H. rewrite forallb_forall in H. auto. Qed.

(* a digit is none of the characters c with c < 48 or 57 < c *)
Lemma digits_no_char : forall c s, forallb is_digit s = true -> is_digit c = false -> has_char c s = false.
Proof.
  intros c s H Hc. apply has_char_false_forall. intros x Hx ->.
  rewrite (forallb_In _ _ _ H Hx) in Hc. discriminate.
Qed.

(* ---- padded fields ---------------------------------------------------------------------------- *)
Lemma dval_digit : forall d, d < 10 -> dval (48 + d) = Some d.
Proof.
  intros d H. unfold dval, is_digit.
  assert ((48 <=? 48 + d) = true) as -> by (apply N.leb_le; lia).
  assert ((48 + d <=? 57) = true) as -> by (apply N.leb_le; lia).
  cbn [andb]. f_equal. lia.
Qed.

Lemma parse2_pad2 : forall n, n < 100 -> parse2 (48 + n / 10) (48 + n mod 10) = Some n.
Proof.
  intros n H. unfold parse2.
  assert (n / 10 < 10) by (apply N.div_lt_upper_bound; lia).
  assert (n mod 10 < 10) by (apply N.mod_lt; lia).
  rewrite !dval_digit by assumption. f_equal.
  pose proof (N.div_mod n 10). lia.
Qed.

Lemma parse4_pad4 : forall n, n < 10000 ->
  parse4 (48 + n / 1000) (48 + (n / 100) mod 10) (48 + (n / 10) mod 10) (48 + n mod 10) = Some n.
Proof.
  intros n H. unfold parse4.
  assert (n / 1000 < 10) by (apply N.div_lt_upper_bound; lia).
  assert ((n / 100) mod 10 < 10) by (apply N.mod_lt; lia).
  assert ((n / 10) mod 10 < 10) by (apply N.mod_lt; lia).
  assert (n mod 10 < 10) by (apply N.mod_lt; lia).
  rewrite !dval_digit by assumption. f_equal.
  pose proof (N.div_mod n 10 ltac:(lia)).
  pose proof (N.div_mod (n / 10) 10 ltac:(lia)).
  pose proof (N.div_mod (n / 100) 10 ltac:(lia)).
  assert (n / 10 / 10 = n / 100) by (rewrite N.div_div by lia; reflexivity).
  assert (n / 100 / 10 = n / 1000) by (rewrite N.div_div by lia; reflexivity).
  lia.
Qed.

Lemma pad_digit : forall d, d < 10 -> is_digit (48 + d) = true.
Proof.
  intros d H. unfold is_digit. apply andb_true_iff. split; apply N.leb_le; lia.
Qed.

Lemma pad2_digits : forall n, n < 100 -> forallb is_digit (pad2 n) = true.
Proof.
  intros n H.
  assert (A : n / 10 < 10) by (apply N.div_lt_upper_bound; lia).
  assert (B : n mod 10 < 10) by (apply N.mod_lt; lia).
  unfold pad2. cbn [forallb]. rewrite (pad_digit _ A), (pad_digit _ B). reflexivity.
Qed.

Lemma pad4_digits : forall n, n < 10000 -> forallb is_digit (pad4 n) = true.
Proof.
  intros n H.
  assert (A : n / 1000 < 10) by (apply N.div_lt_upper_bound; lia).
  assert (B : (n / 100) mod 10 < 10) by (apply N.mod_lt; lia).
  assert (C : (n / 10) mod 10 < 10) by (apply N.mod_lt; lia).
  assert (D : n mod 10 < 10) by (apply N.mod_lt; lia).
  unfold pad4. cbn [forallb]. rewrite (pad_digit _ A), (pad_digit _ B), (pad_digit _ C), (pad_digit _ D). reflexivity.
Qed.

(* ---- the date text ---------------------------------------------------------------------------- *)
Definition fields_small (f : N * N * N * N * N) : Prop :=
  let '(y, m, d, hh, mm) := f in y < 10000 /\ m < 100 /\ d < 100 /\ hh < 100 /\ mm < 100.

Theorem parse_fmt_dmy : forall sep t, fields_small (minute_fields t) ->
  parse_dmy sep (fmt_dmy sep t) = Some (minute_fields t).
Proof.
  intros sep t. unfold fmt_dmy. destruct (minute_fields t) as [[[[y m] d] hh] mm].
  intros (Hy & Hm & Hd & Hh & Hmm). unfold pad2, pad4. cbn [app parse_dmy].
  rewrite !N.eqb_refl. cbn [andb].
  rewrite !parse2_pad2, parse4_pad4 by assumption. reflexivity.
Qed.

(* the characters of a date text: digits, the separator, space, colon *)
Lemma fmt_dmy_chars : forall sep t c, fields_small (minute_fields t) ->
  In c (fmt_dmy sep t) -> is_digit c = true \/ c = sep \/ c = 32 \/ c = 58.
Proof.
  intros sep t c. unfold fmt_dmy. destruct (minute_fields t) as [[[[y m] d] hh] mm].
  intros (Hy & Hm & Hd & Hh & Hmm) Hin.
  repeat (apply in_app_or in Hin; destruct Hin as [Hin|Hin]);
    try (left; eapply forallb_In; [|exact Hin]; (apply pad2_digits || apply pad4_digits); assumption);
    simpl in Hin; intuition.
Qed.

(* ---- splitting -------------------------------------------------------------------------------- *)
Lemma split_on_nosplit : forall p s, forallb (fun c => negb (p c)) s = true -> split_on p s = [s].
Proof.
  intros p s. induction s as [|c s IH]; simpl; [reflexivity|].
  intro H. apply andb_true_iff in H as [H1 H2]. apply negb_true_iff in H1. rewrite H1, (IH H2). reflexivity.
Qed.

Lemma split_on_app : forall p a c b, forallb (fun x => negb (p x)) a = true -> p c = true ->
  split_on p (a ++ c :: b) = a :: split_on p b.
Proof.
  intros p a c b. induction a as [|x a IH]; simpl; intros H Hc.
  - rewrite Hc. reflexivity.
  - apply andb_true_iff in H as [H1 H2]. apply negb_true_iff in H1. rewrite H1, (IH H2 Hc). reflexivity.
Qed.

Lemma break_at_none : forall p s, forallb (fun c => negb (p c)) s = true -> break_at p s = (s, None).
Proof.
  intros p s. induction s as [|c s IH]; simpl; [reflexivity|].
  intro H. apply andb_true_iff in H as [H1 H2]. apply negb_true_iff in H1. rewrite H1, (IH H2). reflexivity.
Qed.

Lemma break_at_app : forall p a c b, forallb (fun x => negb (p x)) a = true -> p c = true ->
  break_at p (a ++ c :: b) = (a, Some (c, b)).
Proof.
  intros p a c b. induction a as [|x a IH]; simpl; intros H Hc.
  - rewrite Hc. reflexivity.
  - apply andb_true_iff in H as [H1 H2]. apply negb_true_iff in H1. rewrite H1, (IH H2 Hc). reflexivity.
Qed.

(* ---- trimming --------------------------------------------------------------------------------- *)
Lemma ltrim_nospace : forall c s, is_space c = false -> ltrim (c :: s) = c :: s.
Proof. intros c s H. simpl. rewrite H. reflexivity. Qed.

Lemma ltrim_spaces : forall a s, forallb is_space a = true -> ltrim (a ++ s) = ltrim s.
Proof.
  induction a as [|x a IH]; intros s H; simpl; [reflexivity|].
  simpl in H. apply andb_true_iff in H as [H1 H2]. rewrite H1. apply IH, H2.
Qed.

Lemma rtrim_nospace_end : forall s c, is_space c = false -> rtrim (s ++ [c]) = s ++ [c].
Proof.
  intros s c H. unfold rtrim. rewrite rev_app_distr. simpl. rewrite H. simpl.
  rewrite rev_involutive. reflexivity.
Qed.

(* a text that neither begins nor ends with a space is its own trim *)
Lemma trim_id : forall c s d, is_space c = false -> is_space d = false -> trim (c :: s ++ [d]) = c :: s ++ [d].
Proof.
  intros c s d Hc Hd. unfold trim. rewrite ltrim_nospace by assumption.
  change (c :: s ++ [d]) with ((c :: s) ++ [d]). apply rtrim_nospace_end, Hd.
Qed.

Lemma trim_single : forall c, is_space c = false -> trim [c] = [c].
Proof. intros c H. unfold trim, rtrim. simpl. rewrite H. simpl. rewrite H. reflexivity. Qed.

Lemma trim_lead_space : forall s, trim (32 :: s) = trim s.
Proof. intro s. unfold trim. reflexivity. Qed.

(* trimming a text whose first and last characters are not spaces *)
Lemma trim_nonspace_ends : forall s, s <> [] ->
  (forall c r, s = c :: r -> is_space c = false) ->
  (forall c r, s = r ++ [c] -> is_space c = false) -> trim s = s.
Proof.
  intros s Hne Hf Hl. destruct s as [|c r]; [congruence|].
  destruct (@exists_last _ (c :: r) ltac:(discriminate)) as (r' & d & E).
  destruct r' as [|c' r'].
  - simpl in E. injection E as -> ->. apply trim_single. eapply Hf; reflexivity.
  - simpl in E. injection E as <- ->. apply trim_id; [eapply Hf; reflexivity|].
    eapply (Hl d (c :: r')). reflexivity.
Qed.
