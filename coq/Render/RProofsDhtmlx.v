(* C19 - DhtmlxGantt.__data: the embedded JSON parses back (with the independent reader) to exactly
   one entry per task and one uniquely numbered link per dependency; it contains no '<'. *)
From Coq Require Import NArith ZArith List Bool Lia Permutation.
From PJ Require Import Base.Prelude Render.RText Render.RHtml Render.RJson Render.RModel Render.RGrammar Render.RSpec
  Render.RProofsText Render.RProofsJson.
Import ListNotations.

(* ---- the domain predicate, taken apart -------------------------------------------------------- *)
Lemma date_ok_small : forall t, date_ok t = true -> fields_small (minute_fields t).
Proof.
  intros t. unfold date_ok, fields_small. destruct (minute_fields t) as [[[[y m] d] hh] mm].
  intro H. repeat (apply andb_true_iff in H; destruct H as [H ?]).
  repeat match goal with X : (_ <? _)%N = true |- _ => apply N.ltb_lt in X end. auto.
Qed.

Lemma numtext_ok_numtext : forall s, numtext_ok s = true -> numtext s.
Proof. intros s H. unfold numtext_ok in H. destruct s; [discriminate|]. split; [discriminate | exact H]. Qed.

Lemma print_N_numtext : forall n, numtext (print_N n).
Proof.
  intro n. split; [apply print_N_nonempty|].
  pose proof (print_N_digits n) as H. rewrite forallb_forall in *. intros x Hx.
  unfold is_numchar. rewrite (H _ Hx). reflexivity.
Qed.

Record task_dom (clock : Z) (t : task) : Prop := {
  td_name : single_line (t_name t) = true;
  td_start : date_ok (t_start t) = true;
  td_end : date_ok (t_end t) = true;
  td_section : opt_ok single_line (t_section t) = true;
  td_est : opt_ok num_ok (t_est t) = true;
  td_spent : opt_ok num_ok (t_spent t) = true;
  td_prog : match progress_kind clock t with
            | ProgFloat => numtext_ok (t_prog_txt t) = true /\ num_in_unit (t_prog_txt t) = true
            | _ => True
            end;
  td_style : opt_ok (forallb (fun kv => single_line (fst kv) && single_line (snd kv))) (t_net_style t) = true;
  td_preds : forallb (fun p => single_line (snd p)) (t_preds t) = true
}.

Lemma task_ok_dom : forall clock t, task_ok clock t = true -> task_dom clock t.
Proof.
  intros clock t H. unfold task_ok in H.
  apply andb_true_iff in H as [H H9]. apply andb_true_iff in H as [H H8]. apply andb_true_iff in H as [H H7].
  apply andb_true_iff in H as [H H6]. apply andb_true_iff in H as [H H5].
  apply andb_true_iff in H as [H H4]. apply andb_true_iff in H as [H H3].
  apply andb_true_iff in H as [H1 H2].
  constructor; try assumption.
  - destruct (t_est t); [exact H5 | discriminate].
  - destruct (progress_kind clock t); try exact I. apply andb_true_iff in H7. exact H7.
Qed.

Lemma wbs_ok_dom : forall clock w, wbs_ok clock w = true -> Forall (task_dom clock) (tasks_of w).
Proof.
  intros clock w H. unfold wbs_ok in H. rewrite forallb_forall in H. apply Forall_forall.
  intros t Ht. apply task_ok_dom, H, Ht.
Qed.

(* ---- one data entry --------------------------------------------------------------------------- *)
Lemma user_extras_keys : forall t kv K, In kv (user_extras t) -> In K fixed_keys -> text_eqb K (fst kv) = false.
Proof.
  intros t kv K Hin HK. unfold user_extras in Hin. apply in_map_iff in Hin as (kv0 & <- & Hin0).
  apply filter_In in Hin0 as [_ Hf]. apply andb_true_iff in Hf as [Hf _]. apply negb_true_iff in Hf.
  cbn [fst]. destruct (text_eqb K (fst kv0)) eqn:E; [|reflexivity].
  apply text_eqb_spec in E. subst K. unfold mem_text in Hf.
  assert (existsb (text_eqb (fst kv0)) fixed_keys = true) as X; [|congruence].
  apply existsb_exists. exists (fst kv0). split; [exact HK | apply text_eqb_refl].
Qed.

Lemma lookup_data : forall clock keys tp K, In K fixed_keys ->
  (forall kv, In kv (builtin_extras (fst tp)) -> text_eqb K (fst kv) = false) ->
  lookup K (data_entry clock keys tp) = lookup K (fixed_fields clock keys tp).
Proof.
  intros clock keys tp K HK Hb. unfold data_entry. apply lookup_app_absent.
  intros kv Hin. apply in_app_or in Hin as [Hin|Hin]; [apply Hb, Hin | eapply user_extras_keys; eassumption].
Qed.

Ltac builtin_absent :=
  let kv := fresh in let H := fresh in
  intros kv H; cbn [builtin_extras In] in H;
  repeat (destruct H as [H|H]; [subst kv; reflexivity|]); contradiction.

Ltac fixed_key := unfold fixed_keys; cbn [In]; auto 15.

Lemma unit_progress : forall clock t, task_dom clock t -> num_in_unit (progress_text clock t) = true.
Proof.
  intros clock t D. pose proof (td_prog _ _ D) as H. unfold progress_text.
  destruct (progress_kind clock t); [reflexivity | apply H | reflexivity].
Qed.

Theorem entry_of_data : forall clock keys tp, task_dom clock (fst tp) ->
  entry_of_obj (data_entry clock keys tp) = Some (json_entry clock tp).
Proof.
  intros clock keys [t pid] D. cbn [fst] in D. unfold entry_of_obj, get_num, get_str.
  rewrite (lookup_data clock keys (t, pid) K_id) by (fixed_key || builtin_absent).
  rewrite (lookup_data clock keys (t, pid) K_text) by (fixed_key || builtin_absent).
  rewrite (lookup_data clock keys (t, pid) K_type) by (fixed_key || builtin_absent).
  rewrite (lookup_data clock keys (t, pid) K_start_date) by (fixed_key || builtin_absent).
  rewrite (lookup_data clock keys (t, pid) K_end_date) by (fixed_key || builtin_absent).
  rewrite (lookup_data clock keys (t, pid) K_parent) by (fixed_key || builtin_absent).
  rewrite (lookup_data clock keys (t, pid) K_progress) by (fixed_key || builtin_absent).
  change (lookup K_id (fixed_fields clock keys (t, pid))) with (Some (SNum (print_N (t_id t)))).
  change (lookup K_text (fixed_fields clock keys (t, pid))) with (Some (SStr (t_name t))).
  change (lookup K_type (fixed_fields clock keys (t, pid))) with (Some (SStr (if t_ms t then k_milestone else v_task))).
  change (lookup K_start_date (fixed_fields clock keys (t, pid))) with (Some (SStr (fmt_dmy 45 (t_start t)))).
  change (lookup K_end_date (fixed_fields clock keys (t, pid))) with (Some (SStr (fmt_dmy 45 (t_end t)))).
  change (lookup K_parent (fixed_fields clock keys (t, pid))) with (Some (SNum (print_N pid))).
  change (lookup K_progress (fixed_fields clock keys (t, pid))) with (Some (SNum (progress_text clock t))).
  cbv beta iota. rewrite !parse_print_N. cbv beta iota.
  rewrite (parse_fmt_dmy 45 _ (date_ok_small _ (td_start _ _ D))), (parse_fmt_dmy 45 _ (date_ok_small _ (td_end _ _ D))).
  cbv beta iota. rewrite (unit_progress _ _ D). unfold json_entry. cbn [fst snd].
  destruct (t_ms t); reflexivity.
Qed.

Theorem link_of_entry : forall l, link_of_obj (link_entry l) = Some (json_link l).
Proof.
  intros [i [s t]]. unfold link_of_obj, get_num, link_entry. cbn [fst snd].
  change (lookup K_id ?o) with (Some (SNum (print_N i))).
  change (lookup K_source ?o) with (Some (SNum (print_N s))).
  change (lookup K_target ?o) with (Some (SNum (print_N t))).
  cbv beta iota. rewrite !parse_print_N. reflexivity.
Qed.

Lemma all_some_map : forall {A B C} (f : B -> option C) (g : A -> B) (h : A -> C) (l : list A),
  (forall x, In x l -> f (g x) = Some (h x)) -> all_some f (map g l) = Some (map h l).
Proof.
  intros A B C f g h l. induction l as [|x l IH]; intro H; [reflexivity|].
  cbn [map all_some]. rewrite (H x (or_introl eq_refl)), IH by (intros; apply H; right; assumption). reflexivity.
Qed.

(* ---- the document is printable and lexable ---------------------------------------------------- *)
Lemma opt_num_wf : forall o, opt_ok num_ok o = true -> scalar_wf (opt_num o).
Proof. intros [n|] H; cbn [opt_num scalar_wf]; [apply numtext_ok_numtext, H | exact I]. Qed.

Lemma data_entry_wf : forall clock keys tp, task_dom clock (fst tp) -> obj_wf (data_entry clock keys tp).
Proof.
  intros clock keys [t pid] D. cbn [fst] in D. unfold data_entry, obj_wf. apply Forall_app. split.
  - unfold fixed_fields. cbn [fst snd].
    repeat (apply Forall_cons; [cbn [snd scalar_wf]|]); try exact I; try apply Forall_nil.
    + apply print_N_numtext.
    + destruct (t_resource t); exact I.
    + apply opt_num_wf, (td_est _ _ D).
    + apply opt_num_wf, (td_spent _ _ D).
    + destruct (t_open t) as [[|]|]; exact I.
    + apply print_N_numtext.
    + pose proof (td_prog _ _ D) as H. unfold progress_text.
      destruct (progress_kind clock t); [split; [discriminate | reflexivity] | apply numtext_ok_numtext, H
                                        | split; [discriminate | reflexivity]].
    + unfold css_class. destruct (t_bar_key t); [destruct (index_of _ _ _)|]; exact I.
  - apply Forall_app. split.
    + unfold builtin_extras. repeat (apply Forall_cons; [exact I|]). apply Forall_nil.
    + unfold user_extras. apply Forall_forall. intros kv Hin. apply in_map_iff in Hin as (x & <- & _). exact I.
Qed.

Lemma link_entry_wf : forall l, obj_wf (link_entry l).
Proof.
  intro l. unfold link_entry, obj_wf.
  repeat (apply Forall_cons; [cbn [snd scalar_wf]; try apply print_N_numtext; try exact I|]). apply Forall_nil.
Qed.

Lemma wf_plain_scalar : forall v, scalar_wf v -> scalar_plain v.
Proof. intros [| | |t|s] H; cbn in *; try exact I. apply numtext_plain, H. Qed.

Lemma wf_plain_obj : forall o, obj_wf o -> obj_plain o.
Proof. intros o H. eapply Forall_impl; [|exact H]. intros kv. apply wf_plain_scalar. Qed.

(* ---- the iteration order is a permutation of WBS.tasks ---------------------------------------- *)
Lemma dorder_perm : forall {X} (l : list (nat * X)) cur,
  Permutation ((match cur with Some r => [r] | None => [] end) ++ map snd l) (dorder cur l).
Proof.
  intros X l. induction l as [|[lv x] rest IH]; intro cur.
  - cbn [map dorder]. rewrite app_nil_r. apply Permutation_refl.
  - cbn [map snd dorder]. destruct lv.
    + apply Permutation_app_head. apply (IH (Some x)).
    + eapply Permutation_trans; [apply Permutation_sym, Permutation_middle|].
      apply perm_skip, IH.
Qed.

Lemma with_parents_tasks : forall w st, map (fun x => fst (snd x)) (with_parents st w) = tasks_of w.
Proof.
  induction w as [|[lv t] rest IH]; intro st; [reflexivity|].
  cbn [with_parents map tasks_of snd fst]. f_equal. apply IH.
Qed.

(* every task of the WBS is visited exactly once *)
Theorem dhtmlx_tasks_perm : forall w, Permutation (tasks_of w) (map fst (dhtmlx_tasks w)).
Proof.
  intro w. unfold dhtmlx_tasks. rewrite <- (with_parents_tasks w []).
  rewrite <- (map_map snd fst). apply Permutation_map. apply (dorder_perm _ None).
Qed.

Lemma dhtmlx_tasks_dom : forall clock w, Forall (task_dom clock) (tasks_of w) ->
  forall tp, In tp (dhtmlx_tasks w) -> task_dom clock (fst tp).
Proof.
  intros clock w H tp Hin. rewrite Forall_forall in H. apply H.
  eapply Permutation_in; [apply Permutation_sym, dhtmlx_tasks_perm|]. apply in_map, Hin.
Qed.

(* ---- links are numbered 1, 2, 3, ... ---------------------------------------------------------- *)
Lemma number_from_ids : forall {A} (l : list A) i, map fst (number_from i l) = map (fun k => (i + N.of_nat k)%N) (seq 0 (length l)).
Proof.
  intros A l. induction l as [|x l IH]; intro i; [reflexivity|].
  cbn [number_from map length seq fst]. f_equal; [lia|].
  rewrite IH, <- seq_shift, map_map. apply map_ext. intro k. lia.
Qed.

Theorem link_ids_nodup : forall {A} (l : list A) i, NoDup (map fst (number_from i l)).
Proof.
  intros A l i. rewrite number_from_ids. apply FinFun.Injective_map_NoDup; [|apply seq_NoDup].
  intros a b H. lia.
Qed.

Lemma nodup_N_spec : forall l, NoDup l -> nodup_N l = true.
Proof.
  induction l as [|x l IH]; intro H; [reflexivity|]. inversion H as [|? ? Hx Hl]; subst.
  cbn [nodup_N]. rewrite (IH Hl), andb_true_r. apply negb_true_iff.
  destruct (existsb (N.eqb x) l) eqn:E; [|reflexivity].
  apply existsb_exists in E as (y & Hy & Exy). apply N.eqb_eq in Exy. subst. contradiction.
Qed.

(* ---- the theorem ------------------------------------------------------------------------------ *)
Theorem render_json_safe : forall clock w, wbs_ok clock w = true ->
  render_json clock w = print_doc esc_safe1 (json_doc clock w)
  /\ doc_wf (json_doc clock w).
Proof.
  intros clock w H. pose proof (wbs_ok_dom _ _ H) as D.
  assert (Hwf : doc_wf (json_doc clock w)).
  { unfold json_doc, doc_wf. cbn [fst snd]. split.
    - apply Forall_forall. intros o Ho. apply in_map_iff in Ho as (tp & <- & Htp).
      apply data_entry_wf. eapply dhtmlx_tasks_dom; eassumption.
    - apply Forall_forall. intros o Ho. apply in_map_iff in Ho as (l & <- & _). apply link_entry_wf. }
  split; [|exact Hwf]. unfold render_json. apply replace_print_doc.
  destruct Hwf as [H1 H2]. split; (eapply Forall_impl; [|eassumption]); intros o; apply wf_plain_obj.
Qed.

Theorem extract_render_json : forall clock w, wbs_ok clock w = true ->
  extract_json (render_json clock w) = Some (json_expected clock w).
Proof.
  intros clock w H. destruct (render_json_safe _ _ H) as [E Hwf].
  unfold extract_json. rewrite E, (parse_print_doc _ Hwf). unfold json_doc, json_expected.
  rewrite (all_some_map entry_of_obj (data_entry clock (bar_keys (tasks_of w))) (json_entry clock)).
  - rewrite (all_some_map link_of_obj link_entry json_link); [reflexivity|]. intros l _. apply link_of_entry.
  - intros tp Htp. apply entry_of_data. eapply dhtmlx_tasks_dom; [apply wbs_ok_dom|]; eassumption.
Qed.

Theorem render_json_no_lt : forall clock w, has_char 60 (render_json clock w) = false.
Proof. intros. unfold render_json. apply replace_lt_no_lt. Qed.

(* exact value of the progress formula lies in 0..1 *)
Theorem progress_exact_unit : forall e s, 0 < n_num e -> 0 <= n_num s ->
  let '(p, q) := progress_exact e s in 0 < q /\ 0 <= p <= q.
Proof.
  intros e s He Hs. unfold progress_exact.
  destruct (n_num e * Z.pos (n_den s) <=? n_num s * Z.pos (n_den e)) eqn:E.
  - lia.
  - apply Z.leb_gt in E. nia.
Qed.
