(* C19 - Gallina model of the three text builders of pjplan.viz (after the repairs of F22 and of the
   defects found with it): MermaidGantt.__src, MermaidNetwork.__src, DhtmlxGantt.__data.
   A scheduled WBS is the preorder list of its tasks with their depth (what WBS.tasks enumerates).
   Definitions only. *)
From Coq Require Import NArith ZArith List Bool String.
From PJ Require Import Base.Prelude Render.RText Render.RHtml Render.RJson.
Import ListNotations.

(* a Python number that is printed (estimate, spent): its repr and its exact value num/den *)
Record num := { n_txt : text; n_num : Z; n_den : positive }.

Record task := {
  t_id : N;
  t_name : text;
  t_start : Z;                               (* microseconds since 1970-01-01 *)
  t_end : Z;
  t_ms : bool;                               (* milestone *)
  t_resource : option text;
  t_est : option num;
  t_spent : option num;
  t_min_start : option Z;
  t_preds : list (N * text);                 (* id and name of the predecessors, in order *)
  t_section : option text;                   (* attribute gantt_section *)
  t_open : option bool;                      (* attribute gantt_open *)
  t_bar_key : option text;                   (* str(gantt_bar_style) *)
  t_net_style : option (list (text * text)); (* items of network_bar_style *)
  t_extra : list (text * text);              (* user attributes in __dict__ order: (name, str(value)) *)
  t_prog_txt : text                          (* repr of the float 1 - max(estimate - spent, 0)/estimate *)
}.

Definition wbs := list (nat * task).         (* preorder, with depth; depth 0 = root task *)
Definition tasks_of (w : wbs) : list task := map snd w.

Record gcfg := { g_title : option text; g_weekends : bool; g_tick : option text }.

Definition set_name (nm : text) (t : task) : task :=
  {| t_id := t_id t; t_name := nm; t_start := t_start t; t_end := t_end t; t_ms := t_ms t;
     t_resource := t_resource t; t_est := t_est t; t_spent := t_spent t; t_min_start := t_min_start t;
     t_preds := t_preds t; t_section := t_section t; t_open := t_open t; t_bar_key := t_bar_key t;
     t_net_style := t_net_style t; t_extra := t_extra t; t_prog_txt := t_prog_txt t |}.

(* ================= Mermaid entity codes ====================================================== *)
(* '#<code point>;' *)
Definition entity (c : N) : text := 35%N :: print_N c ++ [59%N].

Definition encode_with (special : N -> bool) (s : text) : text :=
  flat_map (fun c => if special c then entity c else [c]) s.

(* ================= MermaidGantt.__src ========================================================= *)
(* '#' ';' ':' '%' *)
Definition gantt_special (c : N) : bool := ((c =? 35) || (c =? 59) || (c =? 58) || (c =? 37))%N.

(* MermaidGantt.__text: zero width space entity, then the name with the syntax characters encoded *)
Definition gantt_guard : text := Eval vm_compute in T "#8203;".
Definition gantt_text (s : text) : text := gantt_guard ++ encode_with gantt_special s.

Definition s_gantt : text := Eval vm_compute in T "gantt" ++ [10%N].
Definition s_datefmt : text := Eval vm_compute in T "  dateFormat DD.MM.YYYY HH:mm" ++ [10%N].
Definition s_title : text := Eval vm_compute in T "  title ".
Definition s_excl : text := Eval vm_compute in T "  excludes weekends" ++ [10%N].
Definition s_tick : text := Eval vm_compute in T "  tickInterval ".
Definition s_section : text := Eval vm_compute in T "  section ".
Definition s_done : text := Eval vm_compute in T "done,".
Definition s_active : text := Eval vm_compute in T "active,".
Definition s_milestone : text := Eval vm_compute in T "milestone,".
Definition s_id : text := Eval vm_compute in T "id_".
Definition s_dash : text := [45%N].

Definition gantt_state (clock : Z) (t : task) : text :=
  if t_ms t then s_milestone
  else if t_end t <=? clock then s_done
  else if t_start t <? clock then s_active
  else [].

(* "    {}: {} {}, {}, {}\n"; enc is what is done to a name before it is written *)
Definition gantt_line_with (enc : text -> text) (clock : Z) (t : task) : text :=
  [32; 32; 32; 32]%N ++ enc (t_name t) ++ [58; 32]%N ++ gantt_state clock t ++ [32%N]
  ++ s_id ++ print_N (t_id t) ++ [44; 32]%N ++ fmt_dmy 46 (t_start t) ++ [44; 32]%N ++ fmt_dmy 46 (t_end t) ++ [10%N].

Definition section_of (t : task) : text := match t_section t with Some s => s | None => s_dash end.

Definition mem_text (x : text) (l : list text) : bool := existsb (text_eqb x) l.

(* distinct values in first-seen order (insertion order of a dict) *)
Fixpoint firsts (seen l : list text) : list text :=
  match l with
  | [] => []
  | x :: r => if mem_text x seen then firsts seen r else x :: firsts (x :: seen) r
  end.

Definition gantt_groups (ts : list task) : list (text * list task) :=
  map (fun s => (s, filter (fun t => text_eqb (section_of t) s) ts)) (firsts [] (map section_of ts)).

(* sections are written only when there are at least two different ones *)
Definition sectioned (ts : list task) : bool :=
  match gantt_groups ts with _ :: _ :: _ => true | _ => false end.

(* the order in which the task lines appear, with the section each one is under *)
Definition gantt_layout (ts : list task) : list (option text * task) :=
  if sectioned ts
  then flat_map (fun g => map (fun t => (Some (fst g), t)) (snd g)) (gantt_groups ts)
  else map (fun t => (None, t)) ts.

Definition opt_line (pre : text) (o : option text) : text :=
  match o with Some s => pre ++ s ++ [10%N] | None => [] end.

Definition gantt_head (cfg : gcfg) : text :=
  s_gantt ++ s_datefmt ++ opt_line s_title (g_title cfg)
  ++ (if g_weekends cfg then s_excl else []) ++ opt_line s_tick (g_tick cfg).

Definition gantt_group_with (enc : text -> text) (clock : Z) (g : text * list task) : text :=
  s_section ++ enc (fst g) ++ [10%N] ++ flat_map (gantt_line_with enc clock) (snd g).

Definition gantt_body_with (enc : text -> text) (clock : Z) (ts : list task) : text :=
  if sectioned ts
  then flat_map (gantt_group_with enc clock) (gantt_groups ts)
  else flat_map (gantt_line_with enc clock) ts.

Definition render_gantt_with (enc : text -> text) (clock : Z) (cfg : gcfg) (w : wbs) : text :=
  gantt_head cfg ++ gantt_body_with enc clock (tasks_of w).

Definition gantt_line := gantt_line_with gantt_text.
Definition render_gantt := render_gantt_with gantt_text.

(* ================= MermaidNetwork.__src ======================================================= *)
(* double quote, hash, backtick *)
Definition net_special (c : N) : bool := ((c =? 34) || (c =? 35) || (c =? 96))%N.
Definition net_label (s : text) : text := 34%N :: encode_with net_special s ++ [34%N].

Definition s_flow : text := Eval vm_compute in T "flowchart LR" ++ [10%N].
Definition s_start : text := Eval vm_compute in T "0((Start))".
Definition s_arrow : text := Eval vm_compute in T " --> ".
Definition s_style : text := Eval vm_compute in T "style ".

Definition net_node (id : N) (name : text) : text :=
  print_N id ++ [123; 123]%N ++ net_label name ++ [125; 125]%N.

Definition net_edges (t : task) : text :=
  match t_preds t with
  | [] => [32; 32]%N ++ s_start ++ s_arrow ++ net_node (t_id t) (t_name t) ++ [10%N]
  | ps => flat_map (fun p => [32; 32]%N ++ net_node (fst p) (snd p) ++ s_arrow
                             ++ net_node (t_id t) (t_name t) ++ [10%N]) ps
  end.

Definition net_style_text (items : list (text * text)) : text :=
  join [44%N] (map (fun kv => fst kv ++ [58%N] ++ snd kv) items).

Definition net_style (t : task) : text :=
  match t_net_style t with
  | Some items => s_style ++ print_N (t_id t) ++ [32%N] ++ net_style_text items ++ [10%N]
  | None => []
  end.

Definition render_net (w : wbs) : text :=
  s_flow ++ flat_map net_edges (tasks_of w) ++ flat_map net_style (tasks_of w).

(* ================= DhtmlxGantt.__data ========================================================= *)
(* iteration order: for every root, its descendants in preorder, then the root itself *)
Fixpoint dorder {X} (cur : option X) (l : list (nat * X)) : list X :=
  match l with
  | [] => match cur with Some r => [r] | None => [] end
  | (lv, x) :: rest =>
      match lv with
      | O => (match cur with Some r => [r] | None => [] end) ++ dorder (Some x) rest
      | S _ => x :: dorder cur rest
      end
  end.

(* id of the parent task, 0 for root tasks: stack of (depth, id) of the open ancestors *)
Fixpoint drop_deeper (lv : nat) (st : list (nat * N)) : list (nat * N) :=
  match st with
  | (l, i) :: r => if Nat.leb lv l then drop_deeper lv r else st
  | [] => []
  end.

Fixpoint with_parents (st : list (nat * N)) (w : wbs) : list (nat * (task * N)) :=
  match w with
  | [] => []
  | (lv, t) :: rest =>
      let st' := drop_deeper lv st in
      (lv, (t, match st' with (_, pid) :: _ => pid | [] => 0%N end)) :: with_parents ((lv, t_id t) :: st') rest
  end.

(* css classes: index of str(gantt_bar_style) among the distinct ones, in WBS.tasks order *)
Definition bar_keys (ts : list task) : list text :=
  firsts [] (flat_map (fun t => match t_bar_key t with Some k => [k] | None => [] end) ts).

Fixpoint index_of (x : text) (l : list text) (i : N) : option N :=
  match l with
  | [] => None
  | y :: r => if text_eqb x y then Some i else index_of x r (i + 1)%N
  end.

Definition s_barclass : text := Eval vm_compute in T "dhtmlx_bar_".

Definition css_class (keys : list text) (t : task) : scalar :=
  match t_bar_key t with
  | Some k => match index_of k keys 0%N with
              | Some i => SStr (s_barclass ++ print_N i)
              | None => SNull
              end
  | None => SNull
  end.

Definition num_positive (n : num) : bool := 0 <? n_num n.

(* which branch of the progress computation is taken.  A scheduler always leaves a number in
   estimate (0 for milestones, the roll-up for summaries); with estimate None and an end in the future
   the implementation raises TypeError - such hand-made WBSs are outside the domain (RSpec.task_ok) *)
Inductive prog_kind := ProgOne | ProgFloat | ProgZero.
Definition progress_kind (clock : Z) (t : task) : prog_kind :=
  if t_end t <? clock then ProgOne
  else match t_est t, t_spent t with
       | Some e, Some _ => if num_positive e then ProgFloat else ProgZero
       | _, _ => ProgZero
       end.

Definition progress_text (clock : Z) (t : task) : text :=
  match progress_kind clock t with
  | ProgOne => [49%N]
  | ProgFloat => t_prog_txt t
  | ProgZero => [48%N]
  end.

(* exact value of 1 - max(e - s, 0)/e for e = a/b > 0, s = c/d >= 0, as a fraction *)
Definition progress_exact (e s : num) : Z * Z :=
  let a := n_num e in let b := Zpos (n_den e) in
  let c := n_num s in let d := Zpos (n_den s) in
  if a * d <=? c * b then (1, 1) else (c * b, d * a).

Definition k_id : text := Eval vm_compute in T "id".
Definition k_text : text := Eval vm_compute in T "text".
Definition k_type : text := Eval vm_compute in T "type".
Definition k_start_date : text := Eval vm_compute in T "start_date".
Definition k_end_date : text := Eval vm_compute in T "end_date".
Definition k_resource : text := Eval vm_compute in T "resource".
Definition k_estimate : text := Eval vm_compute in T "estimate".
Definition k_spent : text := Eval vm_compute in T "spent".
Definition k_open : text := Eval vm_compute in T "open".
Definition k_parent : text := Eval vm_compute in T "parent".
Definition k_progress : text := Eval vm_compute in T "progress".
Definition k_css_class : text := Eval vm_compute in T "css_class".
Definition k_name : text := Eval vm_compute in T "name".
Definition k_start : text := Eval vm_compute in T "start".
Definition k_end : text := Eval vm_compute in T "end".
Definition k_milestone : text := Eval vm_compute in T "milestone".
Definition k_min_start : text := Eval vm_compute in T "min_start".
Definition k_source : text := Eval vm_compute in T "source".
Definition k_target : text := Eval vm_compute in T "target".
Definition v_task : text := Eval vm_compute in T "task".
Definition v_true : text := Eval vm_compute in T "true".
Definition v_True : text := Eval vm_compute in T "True".
Definition v_False : text := Eval vm_compute in T "False".
Definition v_None : text := Eval vm_compute in T "None".
Definition v_private : text := Eval vm_compute in T "_Task".

Definition fixed_keys : list text :=
  [k_id; k_text; k_type; k_start_date; k_end_date; k_resource; k_estimate; k_spent; k_open; k_parent;
   k_progress; k_css_class].

Definition opt_str (o : option text) : scalar := match o with Some s => SStr s | None => SNull end.
Definition opt_num (o : option num) : scalar := match o with Some n => SNum (n_txt n) | None => SNull end.

Definition fixed_fields (clock : Z) (keys : list text) (tp : task * N) : jobj :=
  let t := fst tp in
  [ (k_id, SNum (print_N (t_id t)));
    (k_text, SStr (t_name t));
    (k_type, SStr (if t_ms t then k_milestone else v_task));
    (k_start_date, SStr (fmt_dmy 45 (t_start t)));
    (k_end_date, SStr (fmt_dmy 45 (t_end t)));
    (k_resource, opt_str (t_resource t));
    (k_estimate, opt_num (t_est t));
    (k_spent, opt_num (t_spent t));
    (k_open, match t_open t with Some true => STrue | Some false => SFalse | None => SStr v_true end);
    (k_parent, SNum (print_N (snd tp)));
    (k_progress, SNum (progress_text clock t));
    (k_css_class, css_class keys t) ].

(* public entries of __dict__ that the constructor creates (resource is already among the fixed keys) *)
Definition builtin_extras (t : task) : jobj :=
  [ (k_name, SStr (t_name t));
    (k_start, SStr (str_datetime (t_start t)));
    (k_end, SStr (str_datetime (t_end t)));
    (k_milestone, SStr (if t_ms t then v_True else v_False));
    (k_min_start, SStr (match t_min_start t with Some m => str_datetime m | None => v_None end)) ].

Definition user_extras (t : task) : jobj :=
  map (fun kv => (fst kv, SStr (snd kv)))
      (filter (fun kv => negb (mem_text (fst kv) fixed_keys) && negb (starts_with v_private (fst kv))) (t_extra t)).

Definition data_entry (clock : Z) (keys : list text) (tp : task * N) : jobj :=
  fixed_fields clock keys tp ++ builtin_extras (fst tp) ++ user_extras (fst tp).

(* dependencies in emission order: (source id, target id) *)
Definition dep_pairs (ts : list task) : list (N * N) :=
  flat_map (fun t => map (fun p => (fst p, t_id t)) (t_preds t)) ts.

Fixpoint number_from {A} (i : N) (l : list A) : list (N * A) :=
  match l with
  | [] => []
  | x :: r => (i, x) :: number_from (i + 1)%N r
  end.

Definition link_entry (l : N * (N * N)) : jobj :=
  [ (k_id, SNum (print_N (fst l)));
    (k_source, SNum (print_N (fst (snd l))));
    (k_target, SNum (print_N (snd (snd l))));
    (k_type, SStr [48%N]) ].

Definition dhtmlx_tasks (w : wbs) : list (task * N) := dorder None (with_parents [] w).

Definition json_doc (clock : Z) (w : wbs) : jdoc :=
  let keys := bar_keys (tasks_of w) in
  let ord := dhtmlx_tasks w in
  (map (data_entry clock keys) ord, map link_entry (number_from 1%N (dep_pairs (map fst ord)))).

(* json.dumps(..., ensure_ascii=False, indent=2).replace('<', '\\u003c') *)
Definition render_json (clock : Z) (w : wbs) : text :=
  replace_lt (print_doc esc_json1 (json_doc clock w)).

(* ================= the documents ============================================================== *)
(* Template.substitute writes the texts between the literal parts of the template (gen/Consts.v has the
   literal right before and right after the placeholder of the source / the data) *)
Definition mermaid_embed (before after src : text) : text := before ++ escape_html src ++ after.
Definition dhtmlx_embed (before after data : text) : text := before ++ data ++ after.

(* _repr_html_: '<iframe srcdoc="{html}" ...>'.format(html=escape(to_html())) *)
Definition repr_html (pre post doc : text) : text := pre ++ escape_html doc ++ post.
