(* C19 - html.escape as the renderers use it, and the reference readers of HTML used by the
   statements: entity decoding, "an element's raw text ends at its first closing tag", the value of a
   double-quoted attribute.  Definitions only. *)
From Coq Require Import NArith List Bool String.
From PJ Require Import Base.Prelude Render.RText.
Import ListNotations.
Local Open Scope N_scope.

Definition ent_amp : text := Eval vm_compute in T "&amp;".
Definition ent_lt : text := Eval vm_compute in T "&lt;".
Definition ent_gt : text := Eval vm_compute in T "&gt;".
Definition ent_quot : text := Eval vm_compute in T "&quot;".
Definition ent_apos : text := Eval vm_compute in T "&#x27;".

(* html.escape(s, quote=True) *)
Definition esc_html1 (c : N) : text :=
  if c =? 38 then ent_amp else if c =? 60 then ent_lt else if c =? 62 then ent_gt
  else if c =? 34 then ent_quot else if c =? 39 then ent_apos else [c].

Definition escape_html (s : text) : text := flat_map esc_html1 s.

(* reference decoder: the five character references that html.escape writes, anything else is
   kept as it is.  [entity_at r] looks at the text after an ampersand. *)
Definition entity_at (r : text) : option (N * nat) :=
  if starts_with (tl ent_amp) r then Some (38, 4%nat)
  else if starts_with (tl ent_lt) r then Some (60, 3%nat)
  else if starts_with (tl ent_gt) r then Some (62, 3%nat)
  else if starts_with (tl ent_quot) r then Some (34, 5%nat)
  else if starts_with (tl ent_apos) r then Some (39, 5%nat)
  else None.

Fixpoint unesc (skip : nat) (s : text) : text :=
  match s with
  | [] => []
  | c :: r =>
      match skip with
      | S k => unesc k r
      | O => if c =? 38 then
               match entity_at r with
               | Some (ch, len) => ch :: unesc len r
               | None => c :: unesc 0 r
               end
             else c :: unesc 0 r
      end
  end.

Definition unescape_html (s : text) : text := unesc 0 s.

(* text before the first occurrence of pat (all of s if there is none) *)
Fixpoint until_sub (pat s : text) : text :=
  match s with
  | [] => []
  | c :: r => if starts_with pat s then [] else c :: until_sub pat r
  end.

(* text after the first occurrence of pat *)
Fixpoint after_sub (pat s : text) : option text :=
  match s with
  | [] => None
  | c :: r => if starts_with pat s then Some (skipn (length pat) s) else after_sub pat r
  end.

Definition contains_sub (pat s : text) : bool :=
  match after_sub pat s with Some _ => true | None => match pat with [] => true | _ => false end end.

(* raw text of the first element opened by [open_tag] (a literal such as <div class="mermaid">):
   it ends at the first [close_pat] (a literal such as "</div") *)
Definition element_text (open_tag close_pat doc : text) : option text :=
  match after_sub open_tag doc with
  | Some r => Some (until_sub close_pat r)
  | None => None
  end.

(* value of the attribute srcdoc="..." of the iframe written by _repr_html_, decoded *)
Definition srcdoc_open : text := Eval vm_compute in T "<iframe srcdoc=""".
Definition srcdoc_of (repr : text) : option text :=
  if starts_with srcdoc_open repr
  then Some (unescape_html (until_sub [34] (skipn (length srcdoc_open) repr)))
  else None.

(* the elements the documents put the generated texts into *)
Definition div_open : text := Eval vm_compute in T "<div class=""mermaid"">".
Definition div_close : text := Eval vm_compute in T "</div".
Definition script_open : text := Eval vm_compute in T "<script>".
Definition script_close : text := Eval vm_compute in T "</script".

Definition ends_with (suffix s : text) : bool := starts_with (rev suffix) (rev s).
