(* C19 - what the property demands of each rendering, stated on the task list (not on the text):
   the entries a reader of the text must find.  Also the domain of the property (single-line names,
   plain configuration texts, numbers that print as JSON numbers).  Definitions only. *)
From Coq Require Import NArith ZArith List Bool String.
From PJ Require Import Base.Prelude Render.RText Render.RHtml Render.RJson Render.RModel Render.RGrammar.
Import ListNotations.

(* ---- Mermaid gantt ---------------------------------------------------------------------------- *)
Definition gantt_tags (clock : Z) (t : task) : list text :=
  if t_ms t then [tag_milestone]
  else if t_end t <=? clock then [tag_done]
  else if t_start t <? clock then [tag_active]
  else [].

(* a section name as the gantt lexer carries it (entity codes replaced by Mermaid's placeholders) *)
Definition shown_section (s : text) : text := trim (encode_entities (gantt_text s)).

Definition gantt_entry (clock : Z) (st : option text * task) : gentry :=
  {| ge_section := option_map shown_section (fst st);
     ge_id := t_id (snd st);
     ge_tags := gantt_tags clock (snd st);
     ge_start := minute_fields (t_start (snd st));
     ge_end := minute_fields (t_end (snd st)) |}.

Definition gantt_expected (clock : Z) (w : wbs) : list gentry :=
  map (gantt_entry clock) (gantt_layout (tasks_of w)).

(* ---- Mermaid network -------------------------------------------------------------------------- *)
Definition hexagon : N := 125%N.
Definition circle : N := 41%N.

Definition net_task_edges (t : task) : list fentry :=
  match t_preds t with
  | [] => [EEdge (0%N, circle) (t_id t, hexagon)]
  | ps => map (fun p => EEdge (fst p, hexagon) (t_id t, hexagon)) ps
  end.

Definition net_task_style (t : task) : list fentry :=
  match t_net_style t with
  | Some items => [EStyle (t_id t) (net_style_text items)]
  | None => []
  end.

Definition net_expected (w : wbs) : list fentry :=
  flat_map net_task_edges (tasks_of w) ++ flat_map net_task_style (tasks_of w).

(* ---- DHTMLX ----------------------------------------------------------------------------------- *)
Definition json_entry (clock : Z) (tp : task * N) : jentry :=
  {| je_id := t_id (fst tp); je_name := t_name (fst tp); je_milestone := t_ms (fst tp);
     je_start := minute_fields (t_start (fst tp)); je_end := minute_fields (t_end (fst tp));
     je_parent := snd tp; je_progress := progress_text clock (fst tp) |}.

Definition json_link (l : N * (N * N)) : jlink :=
  {| jl_id := fst l; jl_source := fst (snd l); jl_target := snd (snd l) |}.

Definition json_expected (clock : Z) (w : wbs) : list jentry * list jlink :=
  (map (json_entry clock) (dhtmlx_tasks w),
   map json_link (number_from 1%N (dep_pairs (map fst (dhtmlx_tasks w))))).

(* ---- domain ----------------------------------------------------------------------------------- *)
Definition single_line (s : text) : bool := negb (has_char 10 s) && negb (has_char 13 s).

(* configuration text written as it is into a gantt header line *)
Definition plain_cfg_text (s : text) : bool := single_line s && negb (has_char 35 s).

(* dates for which strftime prints what fmt_dmy prints: year 1000..9999 (four digits), the other
   fields at most two digits (true of every datetime; checked, not proved, for the civil-date arithmetic) *)
Definition date_ok (t : Z) : bool :=
  let '(y, m, d, hh, mm) := minute_fields t in
  ((1000 <=? y) && (y <? 10000) && (m <? 100) && (d <? 100) && (hh <? 100) && (mm <? 100))%N.

Definition numtext_ok (s : text) : bool :=
  match s with [] => false | _ => forallb is_numchar s end.

Definition num_ok (n : num) : bool := numtext_ok (n_txt n).

Definition opt_ok {A} (f : A -> bool) (o : option A) : bool := match o with Some a => f a | None => true end.

Definition task_ok (clock : Z) (t : task) : bool :=
  single_line (t_name t) && date_ok (t_start t) && date_ok (t_end t)
  && opt_ok single_line (t_section t)
  && match t_est t with Some e => num_ok e | None => false end     (* scheduled: the estimate is a number *)
  && opt_ok num_ok (t_spent t)
  && match progress_kind clock t with
     | ProgFloat => numtext_ok (t_prog_txt t) && num_in_unit (t_prog_txt t)
     | _ => true
     end
  && opt_ok (forallb (fun kv => single_line (fst kv) && single_line (snd kv))) (t_net_style t)
  && forallb (fun p => single_line (snd p)) (t_preds t).            (* the names of the predecessors as written *)

Definition cfg_ok (c : gcfg) : bool := opt_ok plain_cfg_text (g_title c) && opt_ok plain_cfg_text (g_tick c).

Definition wbs_ok (clock : Z) (w : wbs) : bool := forallb (task_ok clock) (tasks_of w).

(* ---- changing one task's name ------------------------------------------------------------------ *)
(* the task with id i gets the name nm, in its own record and where its successors mention it *)
Definition rename_task (i : N) (nm : text) (t : task) : task :=
  {| t_id := t_id t; t_name := if (t_id t =? i)%N then nm else t_name t; t_start := t_start t; t_end := t_end t;
     t_ms := t_ms t; t_resource := t_resource t; t_est := t_est t; t_spent := t_spent t; t_min_start := t_min_start t;
     t_preds := map (fun p => if (fst p =? i)%N then (fst p, nm) else p) (t_preds t);
     t_section := t_section t; t_open := t_open t; t_bar_key := t_bar_key t; t_net_style := t_net_style t;
     t_extra := t_extra t; t_prog_txt := t_prog_txt t |}.

Definition rename (i : N) (nm : text) (w : wbs) : wbs := map (fun lt => (fst lt, rename_task i nm (snd lt))) w.

(* the same change on an entry of the DHTMLX data *)
Definition rename_entry (i : N) (nm : text) (e : jentry) : jentry :=
  {| je_id := je_id e; je_name := if (je_id e =? i)%N then nm else je_name e; je_milestone := je_milestone e;
     je_start := je_start e; je_end := je_end e; je_parent := je_parent e; je_progress := je_progress e |}.

(* ---- decidable equality of entries (for the oracle) ------------------------------------------- *)
Definition mf_eqb (a b : N * N * N * N * N) : bool :=
  let '(y, m, d, hh, mm) := a in let '(y', m', d', hh', mm') := b in
  (y =? y')%N && (m =? m')%N && (d =? d')%N && (hh =? hh')%N && (mm =? mm')%N.

Definition gentry_eqb (a b : gentry) : bool :=
  opt_eqb text_eqb (ge_section a) (ge_section b) && (ge_id a =? ge_id b)%N
  && list_eqb text_eqb (ge_tags a) (ge_tags b) && mf_eqb (ge_start a) (ge_start b) && mf_eqb (ge_end a) (ge_end b).

Definition fnode_eqb (a b : fnode) : bool := (fst a =? fst b)%N && (snd a =? snd b)%N.

Definition fentry_eqb (a b : fentry) : bool :=
  match a, b with
  | EEdge s d, EEdge s' d' => fnode_eqb s s' && fnode_eqb d d'
  | EStyle i t, EStyle i' t' => (i =? i')%N && text_eqb t t'
  | _, _ => false
  end.

Definition jentry_eqb (a b : jentry) : bool :=
  (je_id a =? je_id b)%N && text_eqb (je_name a) (je_name b) && Bool.eqb (je_milestone a) (je_milestone b)
  && mf_eqb (je_start a) (je_start b) && mf_eqb (je_end a) (je_end b) && (je_parent a =? je_parent b)%N
  && text_eqb (je_progress a) (je_progress b).

Definition jlink_eqb (a b : jlink) : bool :=
  (jl_id a =? jl_id b)%N && (jl_source a =? jl_source b)%N && (jl_target a =? jl_target b)%N.

(* ---- the oracles: evaluated on a text (the implementation's) ----------------------------------- *)
Definition gantt_oracle (clock : Z) (w : wbs) (src : text) : bool :=
  match extract_gantt src with
  | Some es => list_eqb gentry_eqb es (gantt_expected clock w)
  | None => false
  end.

Definition net_oracle (w : wbs) (src : text) : bool :=
  match extract_net src with
  | Some es => list_eqb fentry_eqb es (net_expected w)
  | None => false
  end.

Definition json_oracle (clock : Z) (w : wbs) (src : text) : bool :=
  match extract_json src with
  | Some (es, ls) =>
      list_eqb jentry_eqb es (fst (json_expected clock w))
      && list_eqb jlink_eqb ls (snd (json_expected clock w))
      && nodup_N (map jl_id ls)
  | None => false
  end.

(* nothing in the text can end or re-open the script element *)
Definition script_oracle (src : text) : bool := negb (has_char 60 src).
