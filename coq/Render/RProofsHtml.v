(* C19 - html.escape round trip, what an escaped text cannot contain, and where the raw text of an
   element / an attribute value ends when the inserted text has no '<' / no double quote. *)
From Coq Require Import NArith List Bool Lia.
From PJ Require Import Base.Prelude Render.RText Render.RHtml Render.RProofsText.
Import ListNotations.
Local Open Scope N_scope.

Lemma unesc_escape1 : forall c rest, unesc 0 (esc_html1 c ++ rest) = c :: unesc 0 rest.
Proof.
  intros c rest. unfold esc_html1.
  destruct (c =? 38) eqn:E1; [apply N.eqb_eq in E1; subst; reflexivity|].
  destruct (c =? 60) eqn:E2; [apply N.eqb_eq in E2; subst; reflexivity|].
  destruct (c =? 62) eqn:E3; [apply N.eqb_eq in E3; subst; reflexivity|].
  destruct (c =? 34) eqn:E4; [apply N.eqb_eq in E4; subst; reflexivity|].
  destruct (c =? 39) eqn:E5; [apply N.eqb_eq in E5; subst; reflexivity|].
  cbn [app unesc]. rewrite E1. reflexivity.
Qed.

(* the srcdoc clause: decoding the escaped document gives the document, for every document *)
Theorem unescape_escape : forall d, unescape_html (escape_html d) = d.
Proof.
  unfold unescape_html, escape_html. induction d as [|c d IH]; [reflexivity|].
  cbn [flat_map]. rewrite unesc_escape1, IH. reflexivity.
Qed.

Lemma esc_html1_no : forall x c, (x = 60 \/ x = 62 \/ x = 34 \/ x = 39) -> has_char x (esc_html1 c) = false.
Proof.
  intros x c Hx. unfold esc_html1.
  destruct (c =? 38) eqn:E1; [destruct Hx as [ -> | [ -> | [ -> | -> ] ] ]; reflexivity|].
  destruct (c =? 60) eqn:E2; [destruct Hx as [ -> | [ -> | [ -> | -> ] ] ]; reflexivity|].
  destruct (c =? 62) eqn:E3; [destruct Hx as [ -> | [ -> | [ -> | -> ] ] ]; reflexivity|].
  destruct (c =? 34) eqn:E4; [destruct Hx as [ -> | [ -> | [ -> | -> ] ] ]; reflexivity|].
  destruct (c =? 39) eqn:E5; [destruct Hx as [ -> | [ -> | [ -> | -> ] ] ]; reflexivity|].
  unfold has_char. cbn [existsb]. rewrite orb_false_r. apply N.eqb_neq.
  apply N.eqb_neq in E2, E3, E4, E5. intuition congruence.
Qed.

(* an escaped text contains none of the characters 60 62 34 39 (angle brackets and the two quotes) *)
Theorem escape_no : forall x s, (x = 60 \/ x = 62 \/ x = 34 \/ x = 39) -> has_char x (escape_html s) = false.
Proof.
  intros x s Hx. unfold escape_html. induction s as [|c s IH]; [reflexivity|].
  cbn [flat_map]. rewrite has_char_app, (esc_html1_no _ _ Hx), IH. reflexivity.
Qed.

(* every ampersand of an escaped text starts one of the five references *)
Theorem escape_amp_heads : forall s a b, escape_html s = a ++ 38 :: b ->
  exists e, In e [ent_amp; ent_lt; ent_gt; ent_quot; ent_apos] /\ starts_with (tl e) b = true.
Proof.
  unfold escape_html. induction s as [|c s IH]; intros a b E; [destruct a; discriminate|].
  cbn [flat_map] in E.
  assert (Hc : esc_html1 c = [c] /\ c <> 38 \/ In (esc_html1 c) [ent_amp; ent_lt; ent_gt; ent_quot; ent_apos]).
  { unfold esc_html1.
    destruct (c =? 38) eqn:E1; [right; simpl; auto|].
    destruct (c =? 60) eqn:E2; [right; simpl; auto|].
    destruct (c =? 62) eqn:E3; [right; simpl; auto|].
    destruct (c =? 34) eqn:E4; [right; simpl; auto|].
    destruct (c =? 39) eqn:E5; [right; simpl; auto 6|].
    left. split; [reflexivity | apply N.eqb_neq, E1]. }
  destruct Hc as [[Hc Hn]|Hc].
  - rewrite Hc in E. destruct a as [|x a]; simpl in E; [injection E; intros; congruence|].
    injection E as -> E. eapply IH; eassumption.
  - (* the entity is  & body ; with no other ampersand *)
    assert (Hent : exists body, esc_html1 c = 38 :: body /\ has_char 38 body = false).
    { simpl in Hc. destruct Hc as [<-|[<-|[<-|[<-|[<-|[]]]]]]; eexists; split; reflexivity. }
    destruct Hent as (body & Hb & Hnb). rewrite Hb in E.
    destruct a as [|x a]; simpl in E.
    + injection E as <-. exists (esc_html1 c). split; [exact Hc|]. rewrite Hb. simpl. apply starts_with_app.
    + injection E as _ E.
      (* the ampersand lies after the body *)
      clear Hb Hc. revert a E. induction body as [|y body IHb]; intros a E.
      * simpl in E. eapply IH; eassumption.
      * unfold has_char in Hnb. cbn [existsb] in Hnb. fold (has_char 38 body) in Hnb.
        apply orb_false_iff in Hnb as [Hy Hnb]. destruct a as [|x' a]; simpl in E.
        -- injection E as -> _. rewrite N.eqb_refl in Hy. discriminate.
        -- injection E as _ E. apply (IHb Hnb a E).
Qed.

(* ---- where raw text ends ---------------------------------------------------------------------- *)
Lemma starts_with_head : forall c p a s, starts_with (c :: p) (a :: s) = true -> a = c.
Proof. intros c p a s H. simpl in H. apply andb_true_iff in H as [H _]. apply N.eqb_eq in H. congruence. Qed.

Theorem until_sub_app : forall c p a b, has_char c a = false ->
  until_sub (c :: p) (a ++ b) = a ++ until_sub (c :: p) b.
Proof.
  intros c p a b. induction a as [|x a IH]; intro H; [reflexivity|].
  unfold has_char in H. cbn [existsb] in H. apply orb_false_iff in H as [Hx Ha].
  cbn [app until_sub].
  destruct (starts_with (c :: p) (x :: a ++ b)) eqn:E.
  - apply starts_with_head in E. subst. rewrite N.eqb_refl in Hx. discriminate.
  - rewrite (IH Ha). reflexivity.
Qed.

Lemma after_sub_app : forall c p s, after_sub (c :: p) ((c :: p) ++ s) = Some s.
Proof.
  intros c p s. cbn [app after_sub]. change (c :: p ++ s) with ((c :: p) ++ s).
  rewrite starts_with_app. f_equal.
  rewrite skipn_app, skipn_all, Nat.sub_diag. reflexivity.
Qed.

(* _repr_html_: the srcdoc attribute of the iframe decodes to the document *)
Theorem srcdoc_roundtrip : forall d rest,
  srcdoc_of (srcdoc_open ++ escape_html d ++ 34 :: rest) = Some d.
Proof.
  intros d rest. unfold srcdoc_of. rewrite starts_with_app.
  rewrite skipn_app, skipn_all, Nat.sub_diag. cbn [skipn app].
  rewrite until_sub_app by (apply escape_no; auto).
  cbn [until_sub starts_with]. rewrite N.eqb_refl. cbn [andb]. rewrite app_nil_r.
  rewrite unescape_escape. reflexivity.
Qed.
