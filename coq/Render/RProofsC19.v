(* C19 - the statements of Props_C19.v in their final form, assembled from the files of Render/. *)
From Coq Require Import NArith ZArith List Bool Lia Permutation.
From PJ Require Import Base.Prelude Render.RText Render.RHtml Render.RJson Render.RModel Render.RGrammar Render.RSpec
  Render.RProofsText Render.RProofsJson Render.RProofsDhtmlx Render.RProofsNet Render.RProofsGantt Render.RProofsInject.
Import ListNotations.

Lemma wbs_ok_net_dom : forall clock w, wbs_ok clock w = true -> net_dom w.
Proof.
  intros clock w H. unfold net_dom. eapply Forall_impl; [|apply (wbs_ok_dom _ _ H)].
  intros t D. split; [apply (td_name _ _ D)|]. split; [|apply (td_style _ _ D)].
  unfold preds_single. apply Forall_forall. intros p Hp. pose proof (td_preds _ _ D) as F.
  rewrite forallb_forall in F. apply F, Hp.
Qed.

Theorem c19_net : forall clock w, wbs_ok clock w = true -> extract_net (render_net w) = Some (net_expected w).
Proof. intros clock w H. apply extract_render_net, (wbs_ok_net_dom _ _ H). Qed.

(* the entries demanded of the network: per task, one edge per predecessor, or the Start edge *)
Theorem c19_net_count : forall t,
  length (net_task_edges t) = match t_preds t with [] => 1%nat | ps => length ps end.
Proof. intro t. unfold net_task_edges. destruct (t_preds t); [reflexivity|]. apply map_length. Qed.

Lemma json_link_ids : forall l, map jl_id (map json_link l) = map fst l.
Proof. intro l. rewrite map_map. apply map_ext. intros [i [s t]]. reflexivity. Qed.

Theorem c19_json : forall clock w, wbs_ok clock w = true ->
  extract_json (render_json clock w) = Some (json_expected clock w)
  /\ NoDup (map jl_id (snd (json_expected clock w)))
  /\ Forall (fun e => num_in_unit (je_progress e) = true) (fst (json_expected clock w))
  /\ Permutation (tasks_of w) (map fst (dhtmlx_tasks w))
  /\ has_char 60 (render_json clock w) = false.
Proof.
  intros clock w H. split; [apply extract_render_json, H|]. split.
  - unfold json_expected. cbn [snd]. rewrite json_link_ids. apply link_ids_nodup.
  - split; [|split; [apply dhtmlx_tasks_perm | apply render_json_no_lt]].
    unfold json_expected. cbn [fst]. apply Forall_forall. intros e He. apply in_map_iff in He as (tp & <- & Htp).
    cbn [json_entry je_progress]. apply unit_progress. eapply dhtmlx_tasks_dom; [apply wbs_ok_dom, H | exact Htp].
Qed.

Theorem c19_inject : forall clock cfg w i nm, wbs_ok clock w = true -> cfg_ok cfg = true -> single_line nm = true ->
  extract_gantt (render_gantt clock cfg (rename i nm w)) = extract_gantt (render_gantt clock cfg w)
  /\ extract_net (render_net (rename i nm w)) = extract_net (render_net w)
  /\ extract_json (render_json clock w) = Some (json_expected clock w)
  /\ extract_json (render_json clock (rename i nm w))
     = Some (map (rename_entry i nm) (fst (json_expected clock w)), snd (json_expected clock w)).
Proof.
  intros clock cfg w i nm Hw Hc Hn. pose proof (wbs_ok_rename i nm clock w Hn Hw) as Hw'.
  split; [|split; [|split]].
  - rewrite (extract_render_gantt _ _ _ Hw' Hc), (extract_render_gantt _ _ _ Hw Hc), gantt_expected_rename. reflexivity.
  - rewrite (c19_net _ _ Hw'), (c19_net _ _ Hw), net_expected_rename. reflexivity.
  - apply extract_render_json, Hw.
  - rewrite (extract_render_json _ _ Hw'), json_expected_rename. reflexivity.
Qed.

(* renaming touches only the entry of the renamed task *)
Theorem rename_entry_other : forall i nm e, je_id e <> i -> rename_entry i nm e = e.
Proof.
  intros i nm e H. unfold rename_entry. apply N.eqb_neq in H. rewrite H. destruct e; reflexivity.
Qed.

(* without sections the layout is the task list *)
Theorem layout_unsectioned : forall w, sectioned (tasks_of w) = false ->
  map snd (gantt_layout (tasks_of w)) = tasks_of w.
Proof. intros w H. unfold gantt_layout. rewrite H, map_map. apply map_id. Qed.
