(* C19 - MermaidNetwork.__src: the flowchart reader finds exactly one edge per dependency, one Start
   edge per task without predecessors and one style statement per styled task, whatever the names are. *)
From Coq Require Import NArith ZArith List Bool Lia String.
From PJ Require Import Base.Prelude Render.RText Render.RHtml Render.RJson Render.RModel Render.RGrammar Render.RSpec
  Render.RProofsText.
Import ListNotations.
Local Open Scope N_scope.

(* ---- lines ------------------------------------------------------------------------------------ *)
Definition no_nl (s : text) : Prop := forallb (fun c => negb (is_nl c)) s = true.

Lemma no_nl_app : forall a b, no_nl a -> no_nl b -> no_nl (a ++ b).
Proof. unfold no_nl. intros a b Ha Hb. rewrite forallb_app, Ha, Hb. reflexivity. Qed.

Lemma single_line_no_nl : forall s, single_line s = true -> no_nl s.
Proof.
  intros s H. unfold single_line in H. apply andb_true_iff in H as [H1 H2].
  apply negb_true_iff in H1, H2. unfold no_nl. apply forallb_forall. intros x Hx.
  unfold is_nl. apply negb_true_iff, orb_false_iff.
  pose proof (proj1 (has_char_false_forall 10 s) H1 x Hx). pose proof (proj1 (has_char_false_forall 13 s) H2 x Hx).
  split; apply N.eqb_neq; assumption.
Qed.

Lemma digits_no_nl : forall s, forallb is_digit s = true -> no_nl s.
Proof.
  intros s H. unfold no_nl. apply forallb_forall. intros x Hx. pose proof (forallb_In _ _ _ H Hx) as D.
  unfold is_digit in D. apply andb_true_iff in D as [D1 D2]. apply N.leb_le in D1, D2.
  unfold is_nl. apply negb_true_iff, orb_false_iff. split; apply N.eqb_neq; lia.
Qed.

(* the text made of lines, each closed by a newline, splits back into these lines and an empty one *)
Lemma lines_of_lines : forall L, Forall no_nl L -> lines_of (flat_map (fun l => l ++ [10]) L) = L ++ [[]].
Proof.
  induction L as [|l L IH]; intro H; [reflexivity|]. inversion H as [|? ? Hl HL]; subst.
  cbn [flat_map app]. rewrite <- app_assoc. cbn [app]. unfold lines_of.
  rewrite split_on_app by (try exact Hl; reflexivity). f_equal. apply IH, HL.
Qed.

(* ---- entity codes ----------------------------------------------------------------------------- *)
Lemma entity_no : forall x c, is_digit x = false -> x <> 35 -> x <> 59 -> has_char x (entity c) = false.
Proof.
  intros x c Hd H1 H2. unfold entity. unfold has_char. cbn [existsb]. fold (has_char x (print_N c ++ [59])).
  rewrite has_char_app, (digits_no_char _ _ (print_N_digits c) Hd). unfold has_char. cbn [existsb].
  apply N.eqb_neq in H1, H2. rewrite H1, H2. reflexivity.
Qed.

Lemma encode_no : forall (sp : N -> bool) x s, sp x = true -> is_digit x = false -> x <> 35 -> x <> 59 ->
  has_char x (encode_with sp s) = false.
Proof.
  intros sp x s Hsp Hd H1 H2. unfold encode_with. induction s as [|c s IH]; [reflexivity|].
  cbn [flat_map]. rewrite has_char_app, IH, orb_false_r. destruct (sp c) eqn:E.
  - apply entity_no; assumption.
  - unfold has_char. cbn [existsb]. rewrite orb_false_r. apply N.eqb_neq. intro; subst. congruence.
Qed.

Lemma encode_no_nl : forall sp s, no_nl s -> no_nl (encode_with sp s).
Proof.
  intros sp s. unfold encode_with. induction s as [|c s IH]; intro H; [reflexivity|].
  unfold no_nl in H. cbn [forallb] in H. apply andb_true_iff in H as [Hc Hs].
  cbn [flat_map]. apply no_nl_app; [|apply IH, Hs]. destruct (sp c).
  - unfold entity. change (35 :: print_N c ++ [59]) with ([35] ++ print_N c ++ [59]).
    apply no_nl_app; [reflexivity|]. apply no_nl_app; [apply digits_no_nl, print_N_digits | reflexivity].
  - unfold no_nl. cbn [forallb]. rewrite Hc. reflexivity.
Qed.

(* the first character of an encoded text is '#' or a character that is not special *)
Lemma encode_head : forall sp s c r, encode_with sp s = c :: r -> c = 35 \/ sp c = false.
Proof.
  intros sp s c r. unfold encode_with. induction s as [|x s IH]; [discriminate|].
  cbn [flat_map]. destruct (sp x) eqn:E.
  - unfold entity. cbn [app]. intro H. injection H as <- _. left. reflexivity.
  - cbn [app]. intro H. injection H as <- _. right. exact E.
Qed.

(* ---- one node --------------------------------------------------------------------------------- *)
Lemma digit_idchar : forall c, is_digit c = true -> is_idchar c = true.
Proof. intros c H. unfold is_idchar, is_word. rewrite H. reflexivity. Qed.

Lemma fchain_id_run : forall ds acc r, forallb is_digit ds = true ->
  fchain (FId acc) (ds ++ r) = fchain (FId (rev ds ++ acc)) r.
Proof.
  induction ds as [|d ds IH]; intros acc r H; [reflexivity|].
  cbn [forallb] in H. apply andb_true_iff in H as [Hd Hs].
  cbn [app fchain]. rewrite (digit_idchar _ Hd), (IH _ _ Hs). cbn [rev]. rewrite <- app_assoc. reflexivity.
Qed.

(* reading the id of a node up to the opening brace *)
Lemma fchain_id : forall n r,
  fchain FNodeStart (print_N n ++ 123 :: r) = fchain (FOpen1 (print_N n) 125) r.
Proof.
  intros n r. pose proof (print_N_digits n) as D. pose proof (print_N_nonempty n) as Hne.
  destruct (print_N n) as [|d ds] eqn:E; [congruence|].
  cbn [forallb] in D. apply andb_true_iff in D as [Hd Hs].
  cbn [app fchain].
  assert (Hsp : is_space d = false).
  { unfold is_digit in Hd. apply andb_true_iff in Hd as [D1 D2]. apply N.leb_le in D1, D2.
    unfold is_space. apply orb_false_iff. split; apply N.eqb_neq; lia. }
  rewrite Hsp, (digit_idchar _ Hd), (fchain_id_run _ _ _ Hs).
  cbn [fchain]. change (is_idchar 123) with false. change (closer 123) with (Some 125). cbv beta iota.
  rewrite rev_app_distr. cbn [rev app]. rewrite rev_involutive. reflexivity.
Qed.

Lemma fchain_quoted : forall e id k r, has_char 34 e = false ->
  fchain (FQuoted id k) (e ++ 34 :: r) = fchain (FQuotedEnd id k) r.
Proof.
  induction e as [|c e IH]; intros id k r H; [reflexivity|].
  unfold has_char in H. cbn [existsb] in H. apply orb_false_iff in H as [Hc He].
  cbn [app fchain]. rewrite N.eqb_sym in Hc. rewrite Hc. apply IH, He.
Qed.

Lemma fchain_quote0 : forall e id k r, has_char 34 e = false -> has_char 96 e = false ->
  fchain (FQuote0 id k) (e ++ 34 :: r) = fchain (FQuotedEnd id k) r.
Proof.
  intros e id k r H34 H96. destruct e as [|c e]; [reflexivity|].
  unfold has_char in H34, H96. cbn [existsb] in H34, H96.
  apply orb_false_iff in H34 as [Hc He]. apply orb_false_iff in H96 as [Hb _].
  cbn [app fchain]. rewrite N.eqb_sym in Hc, Hb. rewrite Hc, Hb. apply fchain_quoted, He.
Qed.

Lemma net_special_34 : net_special 34 = true. Proof. reflexivity. Qed.
Lemma net_special_96 : net_special 96 = true. Proof. reflexivity. Qed.

(* a node written by the renderer is read as one hexagon node with its id, whatever its name is *)
Theorem fchain_node : forall n name r,
  fchain FNodeStart (net_node n name ++ r) = cons_opt (n, 125) (fchain FAfter r).
Proof.
  intros n name r. unfold net_node, net_label. repeat rewrite <- app_assoc. cbn [app]. rewrite fchain_id.
  cbn [app fchain]. change (closer 123) with (Some 125). cbv beta iota. change (125 =? 125) with true. cbv beta iota.
  change (34 =? 34) with true. cbv beta iota. rewrite <- app_assoc. cbn [app].
  rewrite fchain_quote0; try (apply encode_no; (reflexivity || lia)).
  cbn [fchain]. change (125 =? 125) with true. cbv beta iota.
  unfold emit, mk_node. rewrite parse_print_N. reflexivity.
Qed.

Lemma fchain_arrow : forall r, fchain FAfter (s_arrow ++ r) = fchain FNodeStart r.
Proof. reflexivity. Qed.

Lemma fchain_start : forall r, fchain FNodeStart (s_start ++ r) = cons_opt (0, 41) (fchain FAfter r).
Proof. reflexivity. Qed.

(* ---- one line --------------------------------------------------------------------------------- *)
Lemma print_N_head : forall n, exists d ds, print_N n = d :: ds /\ is_digit d = true.
Proof.
  intro n. pose proof (print_N_digits n) as D. pose proof (print_N_nonempty n) as Hne.
  destruct (print_N n) as [|d ds]; [congruence|]. cbn [forallb] in D. apply andb_true_iff in D as [Hd _]. eauto.
Qed.

Lemma digit_facts : forall d, is_digit d = true -> 48 <= d <= 57.
Proof. intros d H. unfold is_digit in H. apply andb_true_iff in H as [D1 D2]. apply N.leb_le in D1, D2. lia. Qed.

Theorem flow_line_edge : forall a na b nb,
  flow_line ([32; 32] ++ net_node a na ++ s_arrow ++ net_node b nb) = Some [EEdge (a, 125) (b, 125)].
Proof.
  intros a na b nb. unfold flow_line. cbn [app ltrim is_space N.eqb Pos.eqb orb].
  destruct (print_N_head a) as (d & ds & E & Hd). pose proof (digit_facts _ Hd) as Hr.
  assert (Hl : ltrim (net_node a na ++ s_arrow ++ net_node b nb) = net_node a na ++ s_arrow ++ net_node b nb).
  { unfold net_node at 1 3. rewrite E. cbn [app]. apply ltrim_nospace.
    unfold is_space. apply orb_false_iff. split; apply N.eqb_neq; lia. }
  rewrite Hl.
  assert (Hc : exists tl, net_node a na ++ s_arrow ++ net_node b nb = d :: tl).
  { unfold net_node at 1. rewrite E. cbn [app]. eauto. }
  destruct Hc as (tl & Etl). rewrite Etl.
  assert (K1 : starts_with kw_flowchart (d :: tl) = false).
  { cbn [kw_flowchart starts_with]. replace (102 =? d) with false by (symmetry; apply N.eqb_neq; lia). reflexivity. }
  assert (K2 : starts_with kw_graph (d :: tl) = false).
  { cbn [kw_graph starts_with]. replace (103 =? d) with false by (symmetry; apply N.eqb_neq; lia). reflexivity. }
  assert (K3 : starts_with kw_style (d :: tl) = false).
  { cbn [kw_style starts_with]. replace (115 =? d) with false by (symmetry; apply N.eqb_neq; lia). reflexivity. }
  rewrite K1, K2, K3. cbn [orb]. rewrite <- Etl.
  rewrite fchain_node, fchain_arrow. rewrite <- (app_nil_r (net_node b nb)), fchain_node. reflexivity.
Qed.

Theorem flow_line_start : forall b nb,
  flow_line ([32; 32] ++ s_start ++ s_arrow ++ net_node b nb) = Some [EEdge (0, 41) (b, 125)].
Proof.
  intros b nb. unfold flow_line. cbn [app ltrim is_space N.eqb Pos.eqb orb s_start].
  change (starts_with kw_flowchart (48 :: ?x)) with false.
  change (starts_with kw_graph (48 :: ?x)) with false.
  change (starts_with kw_style (48 :: ?x)) with false. cbn [orb].
  change (fchain FNodeStart (48 :: 40 :: 40 :: 83 :: 116 :: 97 :: 114 :: 116 :: 41 :: 41 :: ?x))
    with (cons_opt (0, 41) (fchain FAfter x)).
  rewrite fchain_arrow. rewrite <- (app_nil_r (net_node b nb)), fchain_node. reflexivity.
Qed.

Theorem flow_line_style : forall n st,
  flow_line (s_style ++ print_N n ++ [32] ++ st) = Some [EStyle n st].
Proof.
  intros n st. unfold flow_line. cbn [s_style app ltrim is_space N.eqb Pos.eqb orb].
  change (starts_with kw_flowchart (115 :: ?x)) with false.
  change (starts_with kw_graph (115 :: ?x)) with false. cbn [orb].
  cbn [kw_style starts_with N.eqb Pos.eqb andb skipn].
  rewrite break_at_app; [rewrite parse_print_N; reflexivity | | reflexivity].
  apply forallb_forall. intros x Hx. pose proof (digit_facts _ (forallb_In _ _ _ (print_N_digits n) Hx)).
  unfold is_space. apply negb_true_iff, orb_false_iff. split; apply N.eqb_neq; lia.
Qed.

(* ---- the source as a list of lines ------------------------------------------------------------ *)
Definition edge_lines (t : task) : list text :=
  match t_preds t with
  | [] => [[32; 32] ++ s_start ++ s_arrow ++ net_node (t_id t) (t_name t)]
  | ps => map (fun p => [32; 32] ++ net_node (fst p) (snd p) ++ s_arrow ++ net_node (t_id t) (t_name t)) ps
  end.

Definition style_lines (t : task) : list text :=
  match t_net_style t with
  | Some items => [s_style ++ print_N (t_id t) ++ [32] ++ net_style_text items]
  | None => []
  end.

Definition s_flow_line : text := Eval vm_compute in T "flowchart LR"%string.

Definition net_lines (w : wbs) : list text :=
  s_flow_line :: flat_map edge_lines (tasks_of w) ++ flat_map style_lines (tasks_of w).

Definition close_lines (L : list text) : text := flat_map (fun l => l ++ [10]) L.

Lemma close_lines_app : forall A B, close_lines (A ++ B) = close_lines A ++ close_lines B.
Proof. intros. unfold close_lines. apply flat_map_app. Qed.

Lemma close_flat_map : forall {X} (f : X -> list text) l,
  close_lines (flat_map f l) = flat_map (fun x => close_lines (f x)) l.
Proof.
  intros X f l. induction l as [|x l IH]; [reflexivity|]. cbn [flat_map]. rewrite close_lines_app, IH. reflexivity.
Qed.

Lemma net_edges_lines : forall t, net_edges t = close_lines (edge_lines t).
Proof.
  intro t. unfold net_edges, edge_lines. destruct (t_preds t) as [|p ps].
  - unfold close_lines. cbn [flat_map]. rewrite app_nil_r. repeat rewrite <- app_assoc. reflexivity.
  - unfold close_lines. generalize (p :: ps). intro l. induction l as [|q l IH]; [reflexivity|].
    cbn [map flat_map]. rewrite IH. repeat rewrite <- app_assoc. reflexivity.
Qed.

Lemma net_style_lines : forall t, net_style t = close_lines (style_lines t).
Proof.
  intro t. unfold net_style, style_lines. destruct (t_net_style t); [|reflexivity].
  unfold close_lines. cbn [flat_map]. rewrite app_nil_r. repeat rewrite <- app_assoc. reflexivity.
Qed.

Theorem render_net_lines : forall w, render_net w = close_lines (net_lines w).
Proof.
  intro w. unfold render_net, net_lines. change (s_flow_line :: ?r) with ([s_flow_line] ++ r).
  rewrite !close_lines_app, !close_flat_map. f_equal. f_equal.
  - apply flat_map_ext. intro t. apply net_edges_lines.
  - apply flat_map_ext. intro t. apply net_style_lines.
Qed.

(* ---- reading the lines ------------------------------------------------------------------------ *)
Lemma flow_entries_app : forall A B a b, flow_entries A = Some a -> flow_entries B = Some b ->
  flow_entries (A ++ B) = Some (a ++ b).
Proof.
  induction A as [|l A IH]; intros B a b HA HB.
  - injection HA as <-. exact HB.
  - cbn [app flow_entries] in *. destruct (flow_line l) as [x|]; [|discriminate].
    destruct (flow_entries A) as [y|]; [|discriminate]. injection HA as <-.
    rewrite (IH B y b eq_refl HB). rewrite app_assoc. reflexivity.
Qed.

Lemma flow_entries_flat_map : forall {X} (f : X -> list text) (g : X -> list fentry) l,
  (forall x, In x l -> flow_entries (f x) = Some (g x)) -> flow_entries (flat_map f l) = Some (flat_map g l).
Proof.
  intros X f g l. induction l as [|x l IH]; intro H; [reflexivity|].
  cbn [flat_map]. apply flow_entries_app; [apply H; left; reflexivity | apply IH; intros; apply H; right; assumption].
Qed.

Lemma flow_edge_lines : forall t, flow_entries (edge_lines t) = Some (net_task_edges t).
Proof.
  intro t. unfold edge_lines, net_task_edges. destruct (t_preds t) as [|p ps].
  - cbn [flow_entries]. rewrite flow_line_start. reflexivity.
  - generalize (p :: ps). intro l. induction l as [|q l IH]; [reflexivity|].
    cbn [map flow_entries]. rewrite flow_line_edge, IH. reflexivity.
Qed.

Lemma flow_style_lines : forall t, flow_entries (style_lines t) = Some (net_task_style t).
Proof.
  intro t. unfold style_lines, net_task_style. destruct (t_net_style t); [|reflexivity].
  cbn [flow_entries]. rewrite flow_line_style. reflexivity.
Qed.

(* ---- no line of the source contains a newline ------------------------------------------------- *)
Lemma net_node_no_nl : forall n name, no_nl name -> no_nl (net_node n name).
Proof.
  intros n name H. unfold net_node, net_label.
  apply no_nl_app; [apply digits_no_nl, print_N_digits|]. apply no_nl_app; [reflexivity|].
  apply no_nl_app; [|reflexivity]. change (34 :: ?x ++ [34]) with ([34] ++ x ++ [34]).
  apply no_nl_app; [reflexivity|]. apply no_nl_app; [apply encode_no_nl, H | reflexivity].
Qed.

Definition preds_single (t : task) : Prop := Forall (fun p => single_line (snd p) = true) (t_preds t).

Lemma edge_lines_no_nl : forall t, single_line (t_name t) = true -> preds_single t -> Forall no_nl (edge_lines t).
Proof.
  intros t Hn Hp. pose proof (single_line_no_nl _ Hn) as Hn'. unfold edge_lines. destruct (t_preds t) as [|p ps] eqn:E.
  - constructor; [|constructor]. apply no_nl_app; [reflexivity|]. apply no_nl_app; [reflexivity|].
    apply no_nl_app; [reflexivity|]. apply net_node_no_nl, Hn'.
  - unfold preds_single in Hp. rewrite E in Hp. apply Forall_forall. intros l Hl.
    apply in_map_iff in Hl as (q & <- & Hq). rewrite Forall_forall in Hp.
    apply no_nl_app; [reflexivity|]. apply no_nl_app; [apply net_node_no_nl, single_line_no_nl, Hp, Hq|].
    apply no_nl_app; [reflexivity|]. apply net_node_no_nl, Hn'.
Qed.

Lemma join_no_nl : forall sep l, no_nl sep -> Forall no_nl l -> no_nl (join sep l).
Proof.
  intros sep l Hs. induction l as [|x l IH]; intro H; [reflexivity|]. inversion H as [|? ? Hx Hl]; subst.
  destruct l as [|y l]; [exact Hx|]. change (join sep (x :: y :: l)) with (x ++ sep ++ join sep (y :: l)).
  apply no_nl_app; [exact Hx|]. apply no_nl_app; [exact Hs | apply IH, Hl].
Qed.

Lemma style_lines_no_nl : forall t,
  opt_ok (forallb (fun kv => single_line (fst kv) && single_line (snd kv))) (t_net_style t) = true ->
  Forall no_nl (style_lines t).
Proof.
  intros t H. unfold style_lines. destruct (t_net_style t) as [items|]; [|constructor].
  cbn [opt_ok] in H. constructor; [|constructor].
  apply no_nl_app; [reflexivity|]. apply no_nl_app; [apply digits_no_nl, print_N_digits|].
  apply no_nl_app; [reflexivity|]. unfold net_style_text. apply join_no_nl; [reflexivity|].
  apply Forall_forall. intros l Hl. apply in_map_iff in Hl as (kv & <- & Hkv).
  rewrite forallb_forall in H. specialize (H _ Hkv). apply andb_true_iff in H as [H1 H2].
  apply no_nl_app; [apply single_line_no_nl, H1|]. apply no_nl_app; [reflexivity | apply single_line_no_nl, H2].
Qed.

(* the domain of the network theorem: single-line names (also of the predecessors) and style texts *)
Definition net_dom (w : wbs) : Prop :=
  Forall (fun t => single_line (t_name t) = true /\ preds_single t
                   /\ opt_ok (forallb (fun kv => single_line (fst kv) && single_line (snd kv))) (t_net_style t) = true)
         (tasks_of w).

(* ---- the theorem ------------------------------------------------------------------------------ *)
Theorem extract_render_net : forall w, net_dom w -> extract_net (render_net w) = Some (net_expected w).
Proof.
  intros w D. unfold net_dom in D. rewrite Forall_forall in D.
  unfold extract_net. rewrite render_net_lines. unfold close_lines. rewrite lines_of_lines.
  - unfold net_lines, net_expected.
    set (A := flat_map edge_lines (tasks_of w)). set (B := flat_map style_lines (tasks_of w)).
    set (EA := flat_map net_task_edges (tasks_of w)). set (EB := flat_map net_task_style (tasks_of w)).
    change ((s_flow_line :: A ++ B) ++ [[]]) with ([s_flow_line] ++ (A ++ B) ++ [[]]). rewrite <- app_assoc.
    replace (EA ++ EB) with ([] ++ EA ++ EB ++ []) by (rewrite app_nil_r; reflexivity). subst A B EA EB.
    apply flow_entries_app; [reflexivity|].
    apply flow_entries_app; [apply flow_entries_flat_map; intros; apply flow_edge_lines|].
    apply flow_entries_app; [apply flow_entries_flat_map; intros; apply flow_style_lines | reflexivity].
  - unfold net_lines. constructor; [reflexivity|]. apply Forall_app. split.
    + apply Forall_forall. intros l Hl. apply in_flat_map in Hl as (t & Ht & Hl).
      destruct (D t Ht) as (H1 & H2 & _). pose proof (edge_lines_no_nl t H1 H2) as F. rewrite Forall_forall in F. auto.
    + apply Forall_forall. intros l Hl. apply in_flat_map in Hl as (t & Ht & Hl).
      destruct (D t Ht) as (_ & _ & H3). pose proof (style_lines_no_nl t H3) as F. rewrite Forall_forall in F. auto.
Qed.
