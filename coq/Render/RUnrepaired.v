(* C19 - the builders as they were before the repairs of F22 (names written raw), on the witnesses of the
   three defects: the reference readers do not find the demanded entries. *)
From Coq Require Import NArith ZArith List Bool String.
From PJ Require Import Base.Prelude Render.RText Render.RHtml Render.RJson Render.RModel Render.RGrammar Render.RSpec
  Render.RCheck.
Import ListNotations.

(* MermaidNetwork.__src before the repair: the name without its double quotes between the braces *)
Definition old_label (s : text) : text := filter (fun c => negb (c =? 34)%N) s.
Definition old_node (id : N) (name : text) : text := print_N id ++ [123; 123]%N ++ old_label name ++ [125; 125]%N.
Definition old_net_edges (t : task) : text :=
  match t_preds t with
  | [] => [32; 32]%N ++ s_start ++ s_arrow ++ old_node (t_id t) (t_name t) ++ [10%N]
  | ps => flat_map (fun p => [32; 32]%N ++ old_node (fst p) (snd p) ++ s_arrow
                             ++ old_node (t_id t) (t_name t) ++ [10%N]) ps
  end.
Definition old_render_net (w : wbs) : text :=
  s_flow ++ flat_map old_net_edges (tasks_of w) ++ flat_map net_style (tasks_of w).

(* MermaidGantt.__src before the repair: the name without its colons, section names raw *)
Definition old_gantt_text (s : text) : text := filter (fun c => negb (c =? 58)%N) s.
Definition old_render_gantt := render_gantt_with old_gantt_text.

(* DhtmlxGantt.__data before the repair: the text json.dumps returns *)
Definition old_render_json (clock : Z) (w : wbs) : text := print_doc esc_json1 (json_doc clock w).

Definition day0 : Z := 1704067200000000.     (* 2024-01-01 *)
Definition day1 : Z := 1704153600000000.
Definition wtask (id : N) (name : text) (preds : list (N * text)) : task :=
  mk_task id name day0 day1 false None (Some (mk_num [56%N] 8 1)) (Some (mk_num [48%N] 0 1)) None preds None None None None [] [48; 46; 48]%N.

Definition name_arrow : text := Eval vm_compute in T "x}} --> 9{{y".
Definition name_script : text := Eval vm_compute in T "a </script> b".
Definition name_semi : text := Eval vm_compute in T "a;b".

Definition w_arrow : wbs := [(0%nat, wtask 1 [65%N] []); (0%nat, wtask 2 name_arrow [(1%N, [65%N])])].
Definition w_script : wbs := [(0%nat, wtask 1 name_script [])].
Definition w_semi : wbs := [(0%nat, wtask 1 name_semi [])].

(* the added edge 2 --> 9 *)
Lemma old_net_refuted :
  wbs_ok 0 w_arrow = true
  /\ extract_net (old_render_net w_arrow)
     = Some [EEdge (0, 41) (1, 125); EEdge (1, 125) (2, 125); EEdge (2, 125) (9, 125)]%N
  /\ net_expected w_arrow = [EEdge (0, 41) (1, 125); EEdge (1, 125) (2, 125)]%N.
Proof. vm_compute. repeat split; reflexivity. Qed.

(* a less-than sign inside the script element; the element ends in the middle of the JSON text *)
Lemma old_json_refuted :
  wbs_ok 0 w_script = true
  /\ script_oracle (old_render_json 0 w_script) = false
  /\ parse_json (until_sub script_close (old_render_json 0 w_script)) = None.
Proof. vm_compute. repeat split; reflexivity. Qed.

(* a semicolon in a name ends the statement: Mermaid reports a syntax error, no task is drawn *)
Lemma old_gantt_refuted :
  wbs_ok 0 w_semi = true /\ extract_gantt (old_render_gantt 0 (mk_cfg None false None) w_semi) = None.
Proof. vm_compute. repeat split; reflexivity. Qed.
