(* C19 - JSON as json.dumps(obj, ensure_ascii=False, indent=2) prints the document of the DHTMLX
   renderer ({"data": [flat objects], "links": [flat objects]}), and an independent reader:
   a JSON lexer (whitespace, punctuation, strings with all escapes, numbers, literals) followed by
   a parser for arrays of flat objects.  Definitions only. *)
From Coq Require Import NArith ZArith List Bool String.
From PJ Require Import Base.Prelude Render.RText.
Import ListNotations.
Local Open Scope N_scope.

Inductive scalar := SNull | STrue | SFalse | SNum (t : text) | SStr (s : text).
Definition jobj := list (text * scalar).
Definition jdoc : Type := list jobj * list jobj.

(* ---- printer ----------------------------------------------------------------------------------- *)
Definition hexdigit (d : N) : N := if d <? 10 then 48 + d else 87 + d.

(* py_encode_basestring: what json writes for one character of a str with ensure_ascii=False *)
Definition esc_json1 (c : N) : text :=
  if c =? 34 then [92; 34] else if c =? 92 then [92; 92]
  else if c =? 10 then [92; 110] else if c =? 13 then [92; 114] else if c =? 9 then [92; 116]
  else if c =? 8 then [92; 98] else if c =? 12 then [92; 102]
  else if c <? 32 then [92; 117; 48; 48; hexdigit (c / 16); hexdigit (c mod 16)]
  else [c].

(* the same with '<' written as < (the repair of F22: the text is embedded in <script>) *)
Definition lt_escape : text := [92; 117; 48; 48; 51; 99].
Definition esc_safe1 (c : N) : text := if c =? 60 then lt_escape else esc_json1 c.

(* .replace('<', '\\u003c') on the finished text *)
Definition replace_lt (s : text) : text := flat_map (fun c => if c =? 60 then lt_escape else [c]) s.

Section Printer.
Variable esc : N -> text.

Definition print_str (s : text) : text := 34 :: flat_map esc s ++ [34].

Definition print_scalar (v : scalar) : text :=
  match v with
  | SNull => [110; 117; 108; 108]
  | STrue => [116; 114; 117; 101]
  | SFalse => [102; 97; 108; 115; 101]
  | SNum t => t
  | SStr s => print_str s
  end.

Definition sep_after {A} (r : list A) : text := match r with [] => [10] | _ => [44; 10] end.

Fixpoint print_fields (ind : text) (l : jobj) : text :=
  match l with
  | [] => []
  | (k, v) :: r => ind ++ print_str k ++ [58; 32] ++ print_scalar v ++ sep_after r ++ print_fields ind r
  end.

Definition print_obj (ind : text) (o : jobj) : text :=
  match o with
  | [] => [123; 125]
  | _ => [123; 10] ++ print_fields (ind ++ [32; 32]) o ++ ind ++ [125]
  end.

Fixpoint print_objs (ind : text) (l : list jobj) : text :=
  match l with
  | [] => []
  | o :: r => ind ++ print_obj ind o ++ sep_after r ++ print_objs ind r
  end.

Definition print_arr (ind : text) (l : list jobj) : text :=
  match l with
  | [] => [91; 93]
  | _ => [91; 10] ++ print_objs (ind ++ [32; 32]) l ++ ind ++ [93]
  end.

Definition key_data : text := Eval vm_compute in T "data".
Definition key_links : text := Eval vm_compute in T "links".

Definition print_doc (d : jdoc) : text :=
  [123; 10] ++ [32; 32] ++ print_str key_data ++ [58; 32] ++ print_arr [32; 32] (fst d) ++ [44; 10]
  ++ [32; 32] ++ print_str key_links ++ [58; 32] ++ print_arr [32; 32] (snd d) ++ [10; 125].
End Printer.

(* ---- lexer ------------------------------------------------------------------------------------- *)
Inductive tok :=
| TLBrace | TRBrace | TLBrack | TRBrack | TComma | TColon
| TStr (s : text) | TNum (t : text) | TTrue | TFalse | TNull.

Inductive lstate :=
| LIdle
| LStr (acc : text)                    (* inside a string; acc = characters so far, reversed *)
| LEsc (acc : text)                    (* after a backslash *)
| LUni (acc : text) (k : nat) (v : N)  (* inside \uXXXX: k digits still to come, value so far *)
| LNum (acc : text)
| LWord (acc : text).

Definition is_ws (c : N) : bool := (c =? 32) || (c =? 10) || (c =? 13) || (c =? 9).
Definition is_numchar (c : N) : bool :=
  is_digit c || (c =? 45) || (c =? 43) || (c =? 46) || (c =? 101) || (c =? 69).
Definition is_lower (c : N) : bool := (97 <=? c) && (c <=? 122).

Definition punct (c : N) : option tok :=
  if c =? 123 then Some TLBrace else if c =? 125 then Some TRBrace
  else if c =? 91 then Some TLBrack else if c =? 93 then Some TRBrack
  else if c =? 44 then Some TComma else if c =? 58 then Some TColon else None.

Definition unesc_char (c : N) : option N :=
  if c =? 34 then Some 34 else if c =? 92 then Some 92 else if c =? 47 then Some 47
  else if c =? 98 then Some 8 else if c =? 102 then Some 12 else if c =? 110 then Some 10
  else if c =? 114 then Some 13 else if c =? 116 then Some 9 else None.

Definition hexval (c : N) : option N :=
  if is_digit c then Some (c - 48)
  else if (97 <=? c) && (c <=? 102) then Some (c - 87)
  else if (65 <=? c) && (c <=? 70) then Some (c - 55)
  else None.

Definition word_tok (w : text) : option tok :=
  if text_eqb w [116; 114; 117; 101] then Some TTrue
  else if text_eqb w [102; 97; 108; 115; 101] then Some TFalse
  else if text_eqb w [110; 117; 108; 108] then Some TNull
  else None.

Definition cons_opt {A} (x : A) (r : option (list A)) : option (list A) :=
  match r with Some l => Some (x :: l) | None => None end.

Definition bind_opt {A B} (o : option A) (f : A -> option B) : option B :=
  match o with Some a => f a | None => None end.

(* what the lexer does with a character when it is between tokens *)
Definition idle_step (c : N) (k : lstate -> option (list tok)) : option (list tok) :=
  if is_ws c then k LIdle
  else if c =? 34 then k (LStr [])
  else match punct c with
       | Some t => cons_opt t (k LIdle)
       | None => if is_numchar c then k (LNum [c])
                 else if is_lower c then k (LWord [c]) else None
       end.

Fixpoint lex (st : lstate) (s : text) : option (list tok) :=
  match s with
  | [] =>
      match st with
      | LIdle => Some []
      | LNum acc => Some [TNum (rev acc)]
      | LWord acc => bind_opt (word_tok (rev acc)) (fun t => Some [t])
      | _ => None
      end
  | c :: r =>
      match st with
      | LIdle => idle_step c (fun st' => lex st' r)
      | LStr acc =>
          if c =? 34 then cons_opt (TStr (rev acc)) (lex LIdle r)
          else if c =? 92 then lex (LEsc acc) r
          else if c <? 32 then None
          else lex (LStr (c :: acc)) r
      | LEsc acc =>
          match unesc_char c with
          | Some d => lex (LStr (d :: acc)) r
          | None => if c =? 117 then lex (LUni acc 4 0) r else None
          end
      | LUni acc k v =>
          match hexval c with
          | None => None
          | Some h =>
              match k with
              | 1%nat => lex (LStr ((16 * v + h) :: acc)) r
              | S k' => lex (LUni acc k' (16 * v + h)) r
              | O => None
              end
          end
      | LNum acc =>
          if is_numchar c then lex (LNum (c :: acc)) r
          else cons_opt (TNum (rev acc)) (idle_step c (fun st' => lex st' r))
      | LWord acc =>
          if is_lower c then lex (LWord (c :: acc)) r
          else bind_opt (word_tok (rev acc)) (fun t => cons_opt t (idle_step c (fun st' => lex st' r)))
      end
  end.

(* ---- parser for arrays of flat objects --------------------------------------------------------- *)
Definition scalar_of (t : tok) : option scalar :=
  match t with
  | TStr s => Some (SStr s) | TNum n => Some (SNum n)
  | TTrue => Some STrue | TFalse => Some SFalse | TNull => Some SNull
  | _ => None
  end.

Inductive pstate :=
| PArrOpen                                         (* after '[' *)
| PObjOpen (objs : list jobj)                      (* after '{' *)
| PKey (objs : list jobj) (cur : jobj)             (* after ',' inside an object *)
| PColon (objs : list jobj) (cur : jobj) (k : text)
| PVal (objs : list jobj) (cur : jobj) (k : text)
| PFieldEnd (objs : list jobj) (cur : jobj)        (* after a value *)
| PObjEnd (objs : list jobj)                       (* after '}' *)
| PNextObj (objs : list jobj).                     (* after ',' between objects *)

(* objs and cur are accumulated in reverse; returns the objects and the tokens after ']' *)
Fixpoint parr (st : pstate) (ts : list tok) : option (list jobj * list tok) :=
  match ts with
  | [] => None
  | t :: r =>
      match st, t with
      | PArrOpen, TRBrack => Some ([], r)
      | PArrOpen, TLBrace => parr (PObjOpen []) r
      | PObjOpen objs, TRBrace => parr (PObjEnd ([] :: objs)) r
      | PObjOpen objs, TStr k => parr (PColon objs [] k) r
      | PKey objs cur, TStr k => parr (PColon objs cur k) r
      | PColon objs cur k, TColon => parr (PVal objs cur k) r
      | PVal objs cur k, _ =>
          match scalar_of t with
          | Some v => parr (PFieldEnd objs ((k, v) :: cur)) r
          | None => None
          end
      | PFieldEnd objs cur, TComma => parr (PKey objs cur) r
      | PFieldEnd objs cur, TRBrace => parr (PObjEnd (rev cur :: objs)) r
      | PObjEnd objs, TComma => parr (PNextObj objs) r
      | PObjEnd objs, TRBrack => Some (rev objs, r)
      | PNextObj objs, TLBrace => parr (PObjOpen objs) r
      | _, _ => None
      end
  end.

Definition parse_doc_toks (ts : list tok) : option jdoc :=
  match ts with
  | TLBrace :: TStr k1 :: TColon :: TLBrack :: r =>
      if text_eqb k1 key_data then
        match parr PArrOpen r with
        | Some (d, TComma :: TStr k2 :: TColon :: TLBrack :: r2) =>
            if text_eqb k2 key_links then
              match parr PArrOpen r2 with
              | Some (l, [TRBrace]) => Some (d, l)
              | _ => None
              end
            else None
        | _ => None
        end
      else None
  | _ => None
  end.

Definition parse_json (s : text) : option jdoc := bind_opt (lex LIdle s) parse_doc_toks.

(* ---- reading values ---------------------------------------------------------------------------- *)
(* JSON.parse / json.loads keep the last of several equal keys *)
Fixpoint lookup (k : text) (o : jobj) : option scalar :=
  match o with
  | [] => None
  | (k', v) :: r => match lookup k r with
                    | Some v' => Some v'
                    | None => if text_eqb k k' then Some v else None
                    end
  end.

(* a JSON number as an exact decimal: [-]digits[.digits][e[+-]digits] -> (sign, mantissa, exponent of 10) *)
Definition split_exp (s : text) : text * option text :=
  match break_at (fun c => (c =? 101) || (c =? 69)) s with
  | (m, Some (_, e)) => (m, Some e)
  | (m, None) => (m, None)
  end.

Definition parse_exp (e : option text) : option Z :=
  match e with
  | None => Some 0%Z
  | Some (45 :: d) => option_map (fun n => (- Z.of_N n)%Z) (parse_N d)
  | Some (43 :: d) => option_map Z.of_N (parse_N d)
  | Some d => option_map Z.of_N (parse_N d)
  end.

Definition parse_decimal (s : text) : option (bool * N * Z) :=
  let '(neg, s') := match s with 45 :: r => (true, r) | _ => (false, s) end in
  let '(m, e) := split_exp s' in
  match parse_exp e with
  | None => None
  | Some ex =>
      match break_at (N.eqb 46) m with
      | (ip, Some (_, fp)) =>
          match ip, fp with
          | [], _ | _, [] => None
          | _, _ => option_map (fun n => (neg, n, (ex - Z.of_nat (length fp))%Z)) (parse_N (ip ++ fp))
          end
      | (ip, None) => option_map (fun n => (neg, n, ex)) (parse_N ip)
      end
  end.

(* 0 <= value <= 1 *)
Definition decimal_in_unit (d : bool * N * Z) : bool :=
  let '(neg, m, e) := d in
  if m =? 0 then true
  else if neg then false
  else if (0 <=? e)%Z then (e =? 0)%Z && (m =? 1)
  else m <=? N.pow 10 (Z.to_N (- e)).

Definition num_in_unit (t : text) : bool :=
  match parse_decimal t with Some d => decimal_in_unit d | None => false end.

(* |value - p/q| <= 10^-9  (q > 0) *)
Definition decimal_near (d : bool * N * Z) (p q : Z) : bool :=
  let '(neg, m, e) := d in
  let mz := (if neg then - Z.of_N m else Z.of_N m)%Z in
  (* value = mz * 10^e ; compare mz*10^e*q with p over a common scale *)
  let '(a, b) := (if (0 <=? e)%Z then (mz * Z.pow 10 e * q, q) else (mz * q, q * Z.pow 10 (- e)))%Z in
  (* a/b vs p/q  with b, q > 0:  |a*q - p*b| * 10^9 <= b*q *)
  (Z.abs (a * q - p * b) * 1000000000 <=? b * q)%Z.
