(* C19: the regrouping of the Gantt task lines by section is a permutation of the tasks - every task has
   exactly one line, whatever the section names are.  Pure list reasoning about [firsts] (distinct values in
   first-seen order) and [filter]. *)
From Coq Require Import List Bool NArith Permutation.
From PJ Require Import Base.Prelude Render.RText Render.RModel Render.RSpec Render.RProofsText.
Import ListNotations.

Lemma mem_text_In x l : mem_text x l = true <-> In x l.
Proof.
  unfold mem_text. rewrite existsb_exists. split.
  - intros (y & Hy & E). apply text_eqb_spec in E. subst y. exact Hy.
  - intro H. exists x. split; [exact H | apply text_eqb_spec; reflexivity].
Qed.

Lemma mem_text_false x l : mem_text x l = false <-> ~ In x l.
Proof.
  split.
  - intros E H. apply mem_text_In in H. congruence.
  - intro H. destruct (mem_text x l) eqn:E; [|reflexivity]. apply mem_text_In in E. contradiction.
Qed.

(* [firsts seen l]: no repetition, nothing already seen, and every element of l is seen or listed *)
Lemma firsts_spec : forall l seen,
  NoDup (firsts seen l) /\
  (forall x, In x (firsts seen l) -> ~ In x seen /\ In x l) /\
  (forall x, In x l -> In x seen \/ In x (firsts seen l)).
Proof.
  induction l as [|a r IH]; intro seen; cbn [firsts].
  - split; [constructor|]. split; [intros x []|intros x []].
  - destruct (mem_text a seen) eqn:M.
    + destruct (IH seen) as (N & A & B). split; [exact N|]. split.
      * intros x Hx. destruct (A x Hx) as [H1 H2]. split; [exact H1 | right; exact H2].
      * intros x [->|Hx]; [left; apply mem_text_In; exact M | apply B; exact Hx].
    + apply mem_text_false in M. destruct (IH (a :: seen)) as (N & A & B). split; [|split].
      * constructor; [|exact N]. intro H. destruct (A a H) as [H1 _]. apply H1. left; reflexivity.
      * intros x [->|Hx]; [split; [exact M | left; reflexivity]|].
        destruct (A x Hx) as [H1 H2]. split; [intro H; apply H1; right; exact H | right; exact H2].
      * intros x [->|Hx]; [right; left; reflexivity|].
        destruct (B x Hx) as [[->|H]|H]; [right; left; reflexivity | left; exact H | right; right; exact H].
Qed.

Lemma filter_true {A} (l : list A) : filter (fun _ => true) l = l.
Proof. induction l as [|a r IH]; cbn [filter]; [reflexivity | rewrite IH; reflexivity]. Qed.

Lemma filter_nil_all {A} (p : A -> bool) (l : list A) : (forall x, In x l -> p x = false) -> filter p l = [].
Proof.
  induction l as [|a r IH]; intro H; cbn [filter]; [reflexivity|].
  rewrite (H a (or_introl eq_refl)). apply IH. intros x Hx. apply H. right; exact Hx.
Qed.

Lemma filter_split {A} (p : A -> bool) (l : list A) :
  Permutation (filter p l ++ filter (fun x => negb (p x)) l) l.
Proof.
  induction l as [|a r IH]; cbn [filter]; [constructor|].
  destruct (p a); cbn [negb app].
  - constructor. exact IH.
  - eapply Permutation_trans; [apply Permutation_sym, Permutation_middle|]. constructor. exact IH.
Qed.

Lemma filter_ext_in {A} (p q : A -> bool) (l : list A) :
  (forall x, In x l -> p x = q x) -> filter p l = filter q l.
Proof.
  induction l as [|a r IH]; intro H; cbn [filter]; [reflexivity|].
  rewrite (H a (or_introl eq_refl)), IH; [reflexivity|]. intros x Hx. apply H. right; exact Hx.
Qed.

Section Groups.
  Context {A : Type} (f : A -> text).

  Definition group (l : list A) (k : text) : list A := filter (fun t => text_eqb (f t) k) l.

  Lemma flat_map_group_ext : forall ks (l l' : list A),
    (forall k2, In k2 ks -> group l k2 = group l' k2) -> flat_map (group l) ks = flat_map (group l') ks.
  Proof.
    induction ks as [|k2 ks IH]; intros l l' E; cbn [flat_map]; [reflexivity|].
    rewrite (E k2 (or_introl eq_refl)). f_equal. apply IH. intros k3 H3. apply E. right; exact H3.
  Qed.

  (* for distinct keys: the groups of the keys, followed by the elements whose key is not among them, are a
     rearrangement of the list *)
  Lemma groups_split : forall ks (l : list A), NoDup ks ->
    Permutation (flat_map (group l) ks ++ filter (fun t => negb (mem_text (f t) ks)) l) l.
  Proof.
    induction ks as [|k ks IH]; intros l N.
    - cbn [flat_map app]. rewrite (filter_ext_in _ (fun _ => true)); [rewrite filter_true; apply Permutation_refl|].
      intros x _. reflexivity.
    - inversion N as [|k' ks' Nk Nks]; subst. cbn [flat_map]. rewrite <- app_assoc.
      eapply Permutation_trans; [|apply (filter_split (fun t => text_eqb (f t) k) l)].
      apply Permutation_app_head.
      (* the elements whose key is not k: their groups over ks, and the rest *)
      eapply Permutation_trans; [|apply (IH (filter (fun x => negb (text_eqb (f x) k)) l) Nks)].
      apply Permutation_app.
      + (* groups of the other keys do not contain elements with key k *)
        assert (E : forall k2, In k2 ks -> group l k2 = group (filter (fun x => negb (text_eqb (f x) k)) l) k2).
        { intros k2 H2. unfold group. induction l as [|a r IHl]; cbn [filter]; [reflexivity|].
          destruct (text_eqb (f a) k2) eqn:E2; destruct (text_eqb (f a) k) eqn:Ek; cbn [negb filter]; rewrite ?E2.
          - apply text_eqb_spec in E2, Ek. exfalso. apply Nk. rewrite <- Ek, E2. exact H2.
          - f_equal. exact IHl.
          - exact IHl.
          - exact IHl. }
        rewrite (flat_map_group_ext ks l _ E). apply Permutation_refl.
      + (* the rest *)
        assert (E : filter (fun t => negb (mem_text (f t) (k :: ks))) l
                    = filter (fun t => negb (mem_text (f t) ks)) (filter (fun x => negb (text_eqb (f x) k)) l)).
        { clear. induction l as [|a r IHl]; cbn [filter]; [reflexivity|].
          unfold mem_text at 1. cbn [existsb]. fold (mem_text (f a) ks).
          destruct (text_eqb (f a) k) eqn:Ek; cbn [orb negb filter].
          - exact IHl.
          - destruct (mem_text (f a) ks); cbn [negb]; [exact IHl | f_equal; exact IHl]. }
        rewrite E. apply Permutation_refl.
  Qed.

  (* grouping by the distinct keys in first-seen order rearranges the list *)
  Theorem regroup_permutation : forall l : list A,
    Permutation (flat_map (group l) (firsts [] (map f l))) l.
  Proof.
    intro l. destruct (firsts_spec (map f l) []) as (N & _ & B).
    pose proof (groups_split (firsts [] (map f l)) l N) as P.
    rewrite (filter_nil_all _ l) in P; [rewrite app_nil_r in P; exact P|].
    intros x Hx. destruct (B (f x) (in_map f l x Hx)) as [[]|H].
    apply mem_text_In in H. rewrite H. reflexivity.
  Qed.
End Groups.

(* the layout of the Mermaid Gantt lists every task exactly once, with or without sections *)
Theorem layout_permutation : forall ts, Permutation (map snd (gantt_layout ts)) ts.
Proof.
  intro ts. unfold gantt_layout. destruct (sectioned ts).
  - unfold gantt_groups. rewrite flat_map_concat_map, concat_map, map_map, map_map.
    rewrite <- flat_map_concat_map.
    erewrite flat_map_ext; [apply (regroup_permutation section_of ts)|].
    intro s. cbn [fst snd]. rewrite map_map. cbn [snd]. rewrite map_id. reflexivity.
  - rewrite map_map. cbn [snd]. rewrite map_id. apply Permutation_refl.
Qed.

(* hence: as many lines as tasks, and no task twice when the tasks are distinct *)
Corollary layout_length : forall ts, length (gantt_layout ts) = length ts.
Proof. intro ts. rewrite <- (map_length snd). apply Permutation_length. apply layout_permutation. Qed.

Corollary layout_NoDup : forall ts, NoDup ts -> NoDup (map snd (gantt_layout ts)).
Proof. intros ts N. eapply Permutation_NoDup; [apply Permutation_sym, layout_permutation | exact N]. Qed.
