(* Glue, part 1 - the numbering of the abstraction: positions, what the table holds at every number, which objects
   have a number (members are closed under children / parents below the root; every link end of a member has a
   number), and "members come first".

   INDEX
     idx_*                     first-occurrence position in a list
     Section Tab (any state)   tab_length_abs, tab_gett_lo / tab_gett_hi (the table at a raw number), glue_members,
                               glue_members_first - pure list facts, no invariant needed
     Section Num (WFcore s)       mem_spec (In x mem_list <-> Anc x root), NoDup of the three lists, out_spec,
                               pos_* (range, injectivity, member <-> below |members|), gett_mem / gett_out (the table at
                               the number of an object), num_cases, closure lemmas kid_mem / par_mem / pred_num /
                               succ_num
     Glue_wbs_tasks            WF s -> wbs_tasks s w = Ok (mem_list s w)
     Glue_members              members (abs_wbs ..) = seq 0 (length (mem_list ..))
     Glue_members_first_holds  members_first_b (abs_wbs ..) = true
     Glue_numbering_holds, Glue_entries_holds   the numbering is a bijection; the entry at the number of an object *)
From Coq Require Import Arith PeanoNat Lia List.
From PJ Require Import Base.Prelude Graph.Model Graph.Invariant Graph.AncLemmas Graph.AncLemmas2 Graph.DepLemmas
  Graph.OracleProofs Sched.Model Sched.Machine Sched.WfIn Glue.AbsWbs.
Local Open Scope nat_scope.

(* [obj] is [nat]: make the two spellings one before arithmetic *)
Ltac olia := unfold obj in *; lia.

(* ================= idx ================= *)
Lemma idx_le x l : idx x l <= length l.
Proof. induction l as [|y r IH]; simpl; [lia|]. destruct (Nat.eqb x y); lia. Qed.

Lemma idx_In x l : In x l -> idx x l < length l /\ forall d, nth (idx x l) l d = x.
Proof.
  induction l as [|y r IH]; simpl; intro H; [contradiction|].
  destruct (Nat.eqb_spec x y) as [E|E].
  - subst. split; [lia|reflexivity].
  - destruct H as [H|H]; [congruence|]. destruct (IH H) as [A B]. split; [lia|exact B].
Qed.

Lemma idx_notin x l : ~ In x l -> idx x l = length l.
Proof.
  induction l as [|y r IH]; simpl; intro H; [reflexivity|].
  destruct (Nat.eqb_spec x y) as [E|E]; [exfalso; apply H; left; congruence|].
  f_equal. apply IH. intro K. apply H. right. exact K.
Qed.

Lemma idx_lt_In x l : idx x l < length l -> In x l.
Proof.
  intro H. destruct (in_dec Nat.eq_dec x l) as [I|N]; [exact I|]. rewrite (idx_notin _ _ N) in H. lia.
Qed.

Lemma idx_nth l : NoDup l -> forall i d, i < length l -> idx (nth i l d) l = i.
Proof.
  induction 1 as [|y r Hy Hr IH]; intros i d Hi; simpl in Hi; [lia|].
  destruct i as [|i]; simpl.
  - rewrite Nat.eqb_refl. reflexivity.
  - destruct (Nat.eqb_spec (nth i r d) y) as [E|E].
    + exfalso. apply Hy. rewrite <- E. apply nth_In. lia.
    + f_equal. apply IH. lia.
Qed.

Lemma idx_inj x y l : In x l -> idx x l = idx y l -> x = y.
Proof.
  intros Hx E. destruct (idx_In x l Hx) as [Lx Nx].
  assert (Hy : In y l) by (apply idx_lt_In; rewrite <- E; exact Lx).
  destruct (idx_In y l Hy) as [_ Ny]. rewrite <- (Nx 0), <- (Ny 0), E. reflexivity.
Qed.

Lemma idx_app_l x l1 l2 : In x l1 -> idx x (l1 ++ l2) = idx x l1.
Proof.
  induction l1 as [|y r IH]; simpl; intro H; [contradiction|].
  destruct (Nat.eqb_spec x y) as [E|E]; [reflexivity|].
  destruct H as [H|H]; [congruence|]. f_equal. apply IH. exact H.
Qed.

Lemma idx_app_r x l1 l2 : ~ In x l1 -> idx x (l1 ++ l2) = length l1 + idx x l2.
Proof.
  induction l1 as [|y r IH]; simpl; intro H; [reflexivity|].
  destruct (Nat.eqb_spec x y) as [E|E]; [exfalso; apply H; left; congruence|].
  f_equal. apply IH. intro K. apply H. right. exact K.
Qed.

Lemma filter_all_true {A} (f : A -> bool) l : (forall x, In x l -> f x = true) -> filter f l = l.
Proof.
  induction l as [|a l IH]; simpl; intro H; [reflexivity|].
  rewrite (H a (or_introl eq_refl)). f_equal. apply IH. intros x Hx. apply H. right. exact Hx.
Qed.

Lemma filter_all_false {A} (f : A -> bool) l : (forall x, In x l -> f x = false) -> filter f l = [].
Proof.
  induction l as [|a l IH]; simpl; intro H; [reflexivity|].
  rewrite (H a (or_introl eq_refl)). apply IH. intros x Hx. apply H. right. exact Hx.
Qed.

Lemma nth_map_dflt {A B} (f : A -> B) l i d e : i < length l -> nth i (map f l) e = f (nth i l d).
Proof.
  intro H. rewrite (nth_indep (map f l) e (f d)) by (rewrite map_length; exact H). apply map_nth.
Qed.

(* ================= the table, for any state ================= *)
Section Tab.
Variable s : state.
Variable w : wid.
Variable att : obj -> sattr.

Let h := hp s.
Let r := wroot s w.
Let Ms : list nat := mem_list s w.
Let Os : list nat := out_list s w.
Let Ns : list nat := num_list s w.
Let Tb := abs_wbs s w att.

Lemma tab_num_In x : In x Ns <-> In x Ms \/ In x Os.
Proof. unfold Ns, num_list. apply in_app_iff. Qed.

Lemma tab_length_num : length Ns = length Ms + length Os.
Proof. unfold Ns, num_list. apply app_length. Qed.

Lemma tab_length_abs : length Tb = length Ns.
Proof. unfold Tb, abs_wbs. rewrite app_length, !map_length. symmetry. exact tab_length_num. Qed.

(* ---- the table at a number ---- *)
Lemma tab_gett_lo i : i < length Ms -> gett Tb i = abs_member s w att (nth i Ms 0).
Proof.
  intro H. unfold gett, Tb, abs_wbs. fold Ms Os.
  rewrite app_nth1 by (rewrite map_length; exact H). apply nth_map_dflt. exact H.
Qed.

Lemma tab_gett_hi i : length Ms <= i -> i < length Ns ->
  gett Tb i = abs_ext att (nth (i - length Ms) Os 0).
Proof.
  intros H1 H2. unfold gett, Tb, abs_wbs. fold Ms Os.
  rewrite app_nth2 by (rewrite map_length; exact H1). rewrite map_length.
  apply nth_map_dflt. rewrite tab_length_num in H2. olia.
Qed.

(* ---- members come first ---- *)
Lemma glue_members : members Tb = seq 0 (length Ms).
Proof.
  unfold members. rewrite tab_length_abs, tab_length_num, seq_app, filter_app. cbn [plus].
  rewrite filter_all_true, filter_all_false; [apply app_nil_r| |].
  - intros t Ht. apply in_seq in Ht. rewrite tab_gett_hi by (rewrite ?tab_length_num; lia). reflexivity.
  - intros t Ht. apply in_seq in Ht. rewrite tab_gett_lo by lia. reflexivity.
Qed.

Lemma glue_members_first : members_first_b Tb = true.
Proof.
  unfold members_first_b. apply (list_eqb_spec Nat.eqb Nat.eqb_eq).
  rewrite glue_members, seq_length. reflexivity.
Qed.
End Tab.

(* ================= the part of the invariant the abstraction needs ================= *)
(* five of the nine conjuncts of WF: I_fin, I_ids, I_hid, I_own are never used - so the theorems also apply to states
   for which those are not known (the copy made by clone() before its ids are settled, Graph/CloneWF.v) *)
Definition WFcore (s : state) : Prop := I_pc s /\ I_acy s /\ I_sym s /\ I_dag s /\ I_sep s.

Lemma WF_WFcore s : WF s -> WFcore s.
Proof. unfold WF, WFcore. tauto. Qed.

Lemma g_pc s : WFcore s -> I_pc s.   Proof. unfold WFcore; tauto. Qed.
Lemma g_acy s : WFcore s -> I_acy s. Proof. unfold WFcore; tauto. Qed.
Lemma g_sym s : WFcore s -> I_sym s. Proof. unfold WFcore; tauto. Qed.
Lemma g_dag s : WFcore s -> I_dag s. Proof. unfold WFcore; tauto. Qed.
Lemma g_sep s : WFcore s -> I_sep s. Proof. unfold WFcore; tauto. Qed.

(* ================= the numbering of a well-formed state ================= *)
Section Num.
Variable s : state.
Variable w : wid.
Variable att : obj -> sattr.

Hypothesis W : WFcore s.

Let h := hp s.
Let r := wroot s w.
Let Ms : list nat := mem_list s w.
Let Os : list nat := out_list s w.
Let Ns : list nat := num_list s w.
Let Tb := abs_wbs s w att.

Lemma num_In x : In x Ns <-> In x Ms \/ In x Os.  Proof. exact (tab_num_In s w x). Qed.
Lemma length_num : length Ns = length Ms + length Os.  Proof. exact (tab_length_num s w). Qed.
Lemma length_abs : length Tb = length Ns.  Proof. exact (tab_length_abs s w att). Qed.
Lemma gett_lo i : i < length Ms -> gett Tb i = abs_member s w att (nth i Ms 0).
Proof. exact (tab_gett_lo s w att i). Qed.
Lemma gett_hi i : length Ms <= i -> i < length Ns -> gett Tb i = abs_ext att (nth (i - length Ms) Os 0).
Proof. exact (tab_gett_hi s w att i). Qed.

Lemma glue_pcd : pc_down h.  Proof. apply I_pc_pc_down. apply g_pc. exact W. Qed.
Lemma glue_pcu : pc_up h.    Proof. apply I_pc_pc_up. apply g_pc. exact W. Qed.
Lemma glue_knd : kids_nodup h. Proof. apply I_pc_kids_nodup. apply g_pc. exact W. Qed.
Lemma glue_acy : acyclic h.  Proof. apply I_acy_acyclic. apply g_acy. exact W. Qed.

Lemma mem_spec x : In x Ms <-> Anc h x r.
Proof. apply In_desc; [exact glue_pcd|exact glue_pcu|exact glue_acy]. Qed.

Lemma mem_NoDup : NoDup Ms.
Proof. apply NoDup_desc; [exact glue_pcd|exact glue_knd|exact glue_acy]. Qed.

Lemma root_not_mem : ~ In r Ms.
Proof. intro H. apply mem_spec in H. exact (glue_acy r H). Qed.

Lemma mem_lt x : In x Ms -> x < length h.
Proof. intro H. apply mem_spec in H. eapply Anc_lt_l. exact H. Qed.

Lemma out_spec y : In y Os <->
  ~ In y Ms /\ exists x, In x Ms /\ (In y (preds (get h x)) \/ In y (succs (get h x))).
Proof.
  unfold Os, out_list. rewrite In_dedup, filter_In. unfold link_list. rewrite in_flat_map.
  rewrite Bool.negb_true_iff, memn_false. fold Ms h. split.
  - intros [[x [Hx Hy]] Hn]. split; [exact Hn|]. exists x. split; [exact Hx|]. apply in_app_or. exact Hy.
  - intros [Hn [x [Hx Hy]]]. split; [|exact Hn]. exists x. split; [exact Hx|]. apply in_or_app. exact Hy.
Qed.

Lemma out_NoDup : NoDup Os.
Proof. apply NoDup_dedup. Qed.

Lemma num_NoDup : NoDup Ns.
Proof.
  apply NoDup_app_intro; [exact mem_NoDup|exact out_NoDup|].
  intros x Hm Ho. apply out_spec in Ho. destruct Ho as [Hn _]. exact (Hn Hm).
Qed.

(* ---- positions ---- *)
Lemma pos_lt x : In x Ns -> pos s w x < length Ns.
Proof. intro H. apply (idx_In x Ns H). Qed.

Lemma pos_nth x d : In x Ns -> nth (pos s w x) Ns d = x.
Proof. intro H. apply (idx_In x Ns H). Qed.

Lemma pos_inj x y : In x Ns -> pos s w x = pos s w y -> x = y.
Proof. apply idx_inj. Qed.

Lemma pos_mem x : In x Ms -> pos s w x = idx x Ms /\ pos s w x < length Ms.
Proof.
  intro H. change (pos s w x) with (idx x (Ms ++ Os)). rewrite (idx_app_l x Ms Os H). split; [reflexivity|]. apply (idx_In x Ms H).
Qed.

Lemma pos_out y : In y Os -> pos s w y = length Ms + idx y Os /\ length Ms <= pos s w y < length Ns.
Proof.
  intro H. pose proof H as H'. apply out_spec in H'. destruct H' as [Hn _].
  change (pos s w y) with (idx y (Ms ++ Os)). rewrite (idx_app_r y Ms Os Hn). split; [reflexivity|].
  rewrite length_num. destruct (idx_In y Os H) as [L _]. lia.
Qed.

Lemma pos_lt_mem x : pos s w x < length Ms -> In x Ms.
Proof.
  intro H. destruct (in_dec Nat.eq_dec x Ms) as [I|Nn]; [exact I|].
  change (pos s w x) with (idx x (Ms ++ Os)) in H. rewrite (idx_app_r x Ms Os Nn) in H. lia.
Qed.

Lemma gett_mem x : In x Ms -> gett Tb (pos s w x) = abs_member s w att x.
Proof.
  intro H. destruct (pos_mem x H) as [E L]. rewrite (gett_lo _ L). f_equal.
  rewrite E. apply (idx_In x Ms H).
Qed.

Lemma gett_out y : In y Os -> gett Tb (pos s w y) = abs_ext att y.
Proof.
  intro H. destruct (pos_out y H) as [E [L1 L2]]. rewrite (gett_hi _ L1 L2). f_equal.
  rewrite E. replace (length Ms + idx y Os - length Ms) with (idx y Os) by lia. apply (idx_In y Os H).
Qed.

Lemma num_cases t : t < length Tb ->
  (exists x, In x Ms /\ t = pos s w x) \/ (exists y, In y Os /\ t = pos s w y).
Proof.
  intro H. rewrite length_abs in H. pose proof (idx_nth Ns num_NoDup t 0 H) as E.
  assert (I : In (nth t Ns 0) Ns) by (apply nth_In; exact H).
  apply num_In in I. destruct I as [I|I]; [left|right]; exists (nth t Ns 0); (split; [exact I|symmetry; exact E]).
Qed.

Lemma ext_mem x : In x Ms -> is_ext Tb (pos s w x) = false.
Proof. intro H. unfold is_ext. rewrite (gett_mem x H). reflexivity. Qed.

Lemma ext_out y : In y Os -> is_ext Tb (pos s w y) = true.
Proof. intro H. unfold is_ext. rewrite (gett_out y H). reflexivity. Qed.

Lemma range_num x : In x Ns -> in_range Tb (pos s w x) = true.
Proof. intro H. unfold in_range. rewrite length_abs. apply Nat.ltb_lt. apply pos_lt. exact H. Qed.

(* ---- which objects have a number ---- *)
Lemma kid_mem x c : In x Ms -> In c (Graph.Model.kids (get h x)) -> In c Ms.
Proof.
  intros Hx Hc. apply mem_spec. apply mem_spec in Hx.
  eapply Anc_up; [apply glue_pcd; exact Hc|exact Hx].
Qed.

Lemma par_mem x p : In x Ms -> par (get h x) = Some p -> p = r \/ In p Ms.
Proof.
  intros Hx Hp. apply mem_spec in Hx. destruct (Anc_inv _ _ _ Hx) as [q [Hq Q]].
  rewrite Hp in Hq. inversion Hq; subst q. destruct Q as [Q|Q]; [left; exact Q|right; apply mem_spec; exact Q].
Qed.

Lemma mem_has_par x : In x Ms -> exists p, par (get h x) = Some p.
Proof. intro Hx. apply mem_spec in Hx. eapply Anc_has_par. exact Hx. Qed.

Lemma pred_num x p : In x Ms -> In p (preds (get h x)) -> In p Ns.
Proof.
  intros Hx Hp. apply num_In. destruct (in_dec Nat.eq_dec p Ms) as [I|Nn]; [left; exact I|right].
  apply out_spec. split; [exact Nn|]. exists x. split; [exact Hx|left; exact Hp].
Qed.

Lemma succ_num x q : In x Ms -> In q (succs (get h x)) -> In q Ns.
Proof.
  intros Hx Hq. apply num_In. destruct (in_dec Nat.eq_dec q Ms) as [I|Nn]; [left; exact I|right].
  apply out_spec. split; [exact Nn|]. exists x. split; [exact Hx|right; exact Hq].
Qed.

End Num.

Theorem Glue_wbs_tasks s w : WF s -> wbs_tasks s w = Ok (mem_list s w).
Proof.
  intro W. apply WF_WFcore in W. unfold wbs_tasks, mem_list. apply all_children_ok; [apply glue_pcd|apply glue_acy]; exact W.
Qed.

Theorem Glue_members s w att : members (abs_wbs s w att) = seq 0 (length (mem_list s w)).
Proof. apply glue_members. Qed.

Theorem Glue_members_first_holds s w att : members_first_b (abs_wbs s w att) = true.
Proof. apply glue_members_first. Qed.

(* the numbering is a bijection between the numbers below the table's length and the objects of num_list; the members
   are the proper descendants of the root, the outside tasks the link ends of members that are not members *)
Theorem Glue_numbering_holds s w : WF s ->
  NoDup (num_list s w) /\
  (forall x, In x (mem_list s w) <-> Anc (hp s) x (wroot s w)) /\
  (forall y, In y (out_list s w) <->
     ~ In y (mem_list s w) /\
     exists x, In x (mem_list s w) /\ (In y (preds (get (hp s) x)) \/ In y (succs (get (hp s) x)))).
Proof.
  intro W. apply WF_WFcore in W. split; [exact (num_NoDup s w W)|]. split; [exact (mem_spec s w W)|exact (out_spec s w)].
Qed.

(* what the table holds at the number of an object *)
Theorem Glue_entries_holds s w att :
  length (abs_wbs s w att) = length (num_list s w) /\
  (forall x, In x (mem_list s w) -> gett (abs_wbs s w att) (pos s w x) = abs_member s w att x) /\
  (forall y, In y (out_list s w) -> gett (abs_wbs s w att) (pos s w y) = abs_ext att y).
Proof.
  split; [exact (length_abs s w att)|]. split; [exact (gett_mem s w att)|exact (gett_out s w att)].
Qed.
