(* Glue, part 4 - the numbering of the abstraction is the "WBS order" the scheduler theorems of C08 ask for:
   the depth-first walk of the table from its roots (c08_walk: every task followed by the subtrees of its children
   in order) enumerates the members in their numbering.

     ps_mems          map pos members = 0, 1, .., |members| - 1
     abs_roots        roots (abs_wbs ..) = the numbers of the children of the (hidden) root, in their order
     abs_dfs          c08_dfs at a member with enough fuel = the numbers of the task and of its heap preorder
     Glue_preorder_holds   WF s -> c08_preorder_b (abs_wbs s w att) = true *)
From Coq Require Import Arith PeanoNat Lia List Bool.
From PJ Require Import Base.Prelude Graph.Model Graph.Invariant Graph.AncLemmas Graph.AncLemmas2
  Graph.OracleProofs Sched.Model Sched.WfIn Sched.C08Check Glue.AbsWbs Glue.AbsWbsProofs Glue.AbsMember.
Local Open Scope nat_scope.

(* ---- lists ---- *)
Lemma map_idx_seq l : NoDup l -> map (fun x => idx x l) l = seq 0 (length l).
Proof.
  induction 1 as [|a l Ha Hl IH]; [reflexivity|]. cbn [map length seq idx]. rewrite Nat.eqb_refl. f_equal.
  rewrite <- seq_shift, <- IH, map_map. apply map_ext_in. intros x Hx.
  destruct (Nat.eqb_spec x a) as [E|E]; [subst; contradiction|reflexivity].
Qed.

Lemma flat_map_map_eq {A B} (ps : A -> B) (F : B -> list B) (G : A -> list A) l :
  (forall c, In c l -> F (ps c) = map ps (G c)) -> flat_map F (map ps l) = map ps (flat_map G l).
Proof.
  induction l as [|a l IH]; intro H; [reflexivity|]. cbn [map flat_map]. rewrite map_app.
  rewrite (H a (or_introl eq_refl)). f_equal. apply IH. intros c Hc. apply H. right. exact Hc.
Qed.

Lemma length_flat_map_ge {A B} (G : A -> list B) l c : In c l -> length (G c) <= length (flat_map G l).
Proof.
  induction l as [|a l IH]; intro H; [contradiction|]. cbn [flat_map]. rewrite app_length.
  destruct H as [H|H]; [subst; lia|]. specialize (IH H). lia.
Qed.

Lemma filter_flat_map_single {A} (Q : A -> bool) (G : A -> list A) l :
  (forall c, In c l -> filter Q (G c) = [c]) -> filter Q (flat_map G l) = l.
Proof.
  induction l as [|a l IH]; intro H; [reflexivity|]. cbn [flat_map]. rewrite filter_app.
  rewrite (H a (or_introl eq_refl)). cbn [app]. f_equal. apply IH. intros c Hc. apply H. right. exact Hc.
Qed.

Lemma filter_map_comm {A B} (f : A -> B) (P : B -> bool) l : filter P (map f l) = map f (filter (fun x => P (f x)) l).
Proof.
  induction l as [|a l IH]; [reflexivity|]. cbn [map filter]. destruct (P (f a)); cbn [map]; rewrite IH; reflexivity.
Qed.

Section Order.
Variable s : state.
Variable w : wid.
Variable att : obj -> sattr.
Hypothesis W : WFcore s.

Let r := wroot s w.
Let Ms : list nat := mem_list s w.
Let Tb := abs_wbs s w att.
Let ps := pos s w.

Let pcd := glue_pcd s W.
Let pcu := glue_pcu s W.
Let acy := glue_acy s W.

Lemma ps_mems : map ps Ms = seq 0 (length Ms).
Proof.
  rewrite <- (map_idx_seq Ms (mem_NoDup s w W)). apply map_ext_in. intros x Hx.
  exact (proj1 (pos_mem s w x Hx)).
Qed.

Lemma l_members : members Tb = map ps Ms.
Proof. rewrite ps_mems. exact (Glue_members s w att). Qed.

Lemma desc_root : Ms = flat_map (fun c => c :: desc (hp s) c) (Graph.Model.kids (get (hp s) r)).
Proof. unfold Ms, mem_list. apply desc_eq; assumption. Qed.

Lemma desc_sub x y : In x Ms -> In y (desc (hp s) x) -> In y Ms.
Proof.
  intros Hx Hy. apply (mem_spec s w W). apply (mem_spec s w W) in Hx.
  eapply Anc_trans; [|exact Hx]. apply (In_desc (hp s) x y pcd pcu acy). exact Hy.
Qed.

Lemma desc_kid_shorter x c : In c (Graph.Model.kids (get (hp s) x)) ->
  S (length (desc (hp s) c)) <= length (desc (hp s) x).
Proof.
  intro Hc. rewrite (desc_eq (hp s) x pcd acy).
  exact (length_flat_map_ge (fun c' => c' :: desc (hp s) c') _ c Hc).
Qed.

(* ---- the roots of the table ---- *)
Definition is_top (x : obj) : bool := onat_eqb (par (get (hp s) x)) (Some r).

Lemma top_filter : filter is_top Ms = Graph.Model.kids (get (hp s) r).
Proof.
  rewrite desc_root at 1. apply filter_flat_map_single. intros c Hc. cbn [filter].
  assert (Tc : is_top c = true) by (apply onat_eqb_eq; apply pcd; exact Hc). rewrite Tc. f_equal.
  apply filter_all_false. intros y Hy. destruct (is_top y) eqn:Ty; [exfalso|reflexivity].
  apply onat_eqb_eq in Ty. apply (In_desc (hp s) c y pcd pcu acy) in Hy.
  destruct (Anc_inv _ _ _ Hy) as [p [Hp Q]]. rewrite Ty in Hp. inversion Hp; subst p.
  pose proof (pcd c r Hc) as Pc.
  destruct Q as [Q|Q].
  - apply (acy c). apply Anc_par. rewrite <- Q at 2. exact Pc.
  - apply (acy c). eapply Anc_up; [exact Pc|exact Q].
Qed.

Lemma abs_roots : roots Tb = map ps (Graph.Model.kids (get (hp s) r)).
Proof.
  unfold roots. rewrite l_members, filter_map_comm.
  rewrite <- top_filter. f_equal. apply filter_ext_in. intros x Hx.
  destruct (kf_parent s w att W x Hx) as [[P K]|[p [Hp [P K]]]]; fold Tb ps in K; rewrite K.
  - symmetry. apply onat_eqb_eq. exact P.
  - symmetry. unfold is_top. rewrite P. destruct (onat_eqb (Some p) (Some r)) eqn:E; [|reflexivity].
    apply onat_eqb_eq in E. inversion E; subst p. exfalso. exact (root_not_mem s w W Hp).
Qed.

(* ---- the walk ---- *)
Lemma abs_dfs f : forall c, In c Ms -> length (desc (hp s) c) < f ->
  c08_dfs Tb f (ps c) = map ps (c :: desc (hp s) c).
Proof.
  induction f as [|f IH]; intros c Hc Lf; [lia|]. cbn [c08_dfs map]. f_equal.
  unfold Tb, ps. rewrite (kf_children s w att c Hc). fold Tb ps.
  rewrite (desc_eq (hp s) c pcd acy).
  apply (flat_map_map_eq ps (c08_dfs Tb f) (fun c' => c' :: desc (hp s) c')).
  intros c' Hc'. apply IH.
  - exact (kid_mem s w W c c' Hc Hc').
  - pose proof (desc_kid_shorter c c' Hc'). lia.
Qed.

Lemma glue_walk : c08_walk Tb = members Tb.
Proof.
  unfold c08_walk. rewrite abs_roots, l_members.
  rewrite desc_root at 1.
  apply (flat_map_map_eq ps (c08_dfs Tb (S (S (length Tb)))) (fun c' => c' :: desc (hp s) c')).
  intros c Hc. apply abs_dfs.
  - rewrite desc_root. apply in_flat_map. exists c. split; [exact Hc|left; reflexivity].
  - pose proof (desc_kid_shorter r c Hc) as L1.
    assert (L2 : length Tb = length Ms + length (out_list s w)).
    { unfold Tb. rewrite (length_abs s w att), (length_num s w). reflexivity. }
    change (desc (hp s) r) with (mem_list s w) in L1. fold Ms in L1. unfold obj in *. lia.
Qed.

Lemma glue_preorder : c08_preorder_b Tb = true.
Proof. unfold c08_preorder_b. apply (list_eqb_spec Nat.eqb Nat.eqb_eq). exact glue_walk. Qed.
End Order.

Theorem Glue_preorder_core s w att : WFcore s -> c08_preorder_b (abs_wbs s w att) = true.
Proof. intro W. apply glue_preorder. exact W. Qed.

Theorem Glue_preorder_holds s w att : WF s -> c08_preorder_b (abs_wbs s w att) = true.
Proof. intro W. apply Glue_preorder_core. apply WF_WFcore. exact W. Qed.
