(* Glue, part 5 - the two halves composed.  For every state a Python caller can build (a public history from the
   empty state, C01) and every WBS of it, the abstraction satisfies the input hypotheses of the scheduler theorems -
   WFin and the two numbering conventions (members first, WBS order) - so those theorems hold of it with NO hypothesis
   about the shape of the WBS left.  What remains are the hypotheses about the things the graph does not contain:
   the attributes (att_ok) and the capacities (cap_nonneg, cap_small). *)
From Coq Require Import Arith PeanoNat Lia List Bool.
From PJ Require Import Base.Prelude Graph.Model Graph.Invariant Graph.StepProofs.
From PJ Require Import Sched.Model Sched.Machine Sched.Instances Sched.WfIn Sched.Oracles Sched.OracleProofs
  Sched.C03Proofs Sched.C02Proofs Sched.C04Base Sched.C04Proofs Sched.C06Proofs Sched.C07Proofs
  Sched.C08Check Sched.C08Order Sched.C08Oracle Sched.C08Full Sched.C09Model Sched.C09Passes Sched.C14Proofs.
From PJ Require Import Glue.AbsWbs Glue.AbsWbsProofs Glue.AbsWfin Glue.AbsOrder.
Local Open Scope nat_scope.

(* ---- the numbering conventions, in the spelling of every scheduler file ---- *)
Lemma Glue_ext_last s w att : ext_last (abs_wbs s w att).
Proof. exact (Glue_members_first_holds s w att). Qed.

Lemma Glue_c08_members_first s w att : c08_members_first_b (abs_wbs s w att) = true.
Proof. exact (Glue_members_first_holds s w att). Qed.

Lemma Glue_exts_last s w att : exts_last (abs_wbs s w att).
Proof. unfold exts_last. rewrite (Glue_members s w att), seq_length. reflexivity. Qed.

Lemma Glue_members_first_prop s w att : members_first (abs_wbs s w att).
Proof. exact (Glue_exts_last s w att). Qed.

Lemma Glue_c08_preorder s w att : WF s -> c08_preorder (abs_wbs s w att).
Proof. exact (Glue_preorder_holds s w att). Qed.

(* ---- on the states a caller can build ---- *)
Section Reach.
Variable ops : list op.
Variable w : wid.
Variable att : obj -> sattr.
Hypothesis P : pub_run Graph.Model.init ops.

Let s := Graph.Model.run Graph.Model.init ops.
Let A := abs_wbs s w att.

Lemma reach_wf : WF s.
Proof. exact (reach_WF ops P). Qed.

(* no hypothesis on w is needed (for an unallocated number the "root" is object 0); the statement file keeps it *)
Theorem glue_reach : att_ok s w att -> WFin A.
Proof. intro Hok. exact (Glue_WFin_any s w att reach_wf Hok). Qed.

Theorem glue_reach_order : members_first_b A = true /\ c08_preorder_b A = true.
Proof. split; [exact (Glue_members_first_holds s w att)|exact (Glue_preorder_holds s w att reach_wf)]. Qed.

Theorem glue_reach_tasks : wbs_tasks s w = Ok (mem_list s w).
Proof. exact (Glue_wbs_tasks s w reach_wf). Qed.

Hypothesis Hatt : att_ok s w att.

Theorem glue_C14_total_forward cfg : (exists st, forward cfg A = Ok st) \/ forward cfg A = Err.
Proof. exact (C14_total_forward_holds cfg A (glue_reach Hatt)). Qed.

Theorem glue_C14_total_backward cfg : (exists st, backward cfg A = Ok st) \/ backward cfg A = Err.
Proof. exact (C14_total_backward_holds cfg A (glue_reach Hatt)). Qed.

Theorem glue_C03_forward cfg st : cap_nonneg cfg -> forward cfg A = Ok st -> no_overallocation cfg A (lg st).
Proof. exact (C03_forward_holds cfg A st). Qed.

Theorem glue_C03_backward cfg st : cap_nonneg cfg -> backward cfg A = Ok st -> no_overallocation cfg A (lg st).
Proof. exact (C03_backward_holds cfg A st). Qed.

Theorem glue_C02_oracle cfg st : cap_nonneg cfg -> forward cfg A = Ok st -> c02_b cfg A (obs_of A st) = true.
Proof. intros Hc H. exact (C02_forward_oracle cfg A st Hc (glue_reach Hatt) (Glue_ext_last s w att) H). Qed.

Theorem glue_C04_forward_oracle cfg st :
  cap_nonneg cfg -> cap_small cfg -> forward cfg A = Ok st -> c04_b true cfg A (obs_of A st) = true.
Proof. intros Hc Hs H. exact (C04_forward_oracle cfg A st (glue_reach Hatt) Hc Hs (Glue_exts_last s w att) H). Qed.

Theorem glue_C04_backward_oracle cfg st :
  cap_nonneg cfg -> cap_small cfg -> backward cfg A = Ok st -> c04_b false cfg A (obs_of A st) = true.
Proof. intros Hc Hs H. exact (C04_backward_oracle cfg A st (glue_reach Hatt) Hc Hs (Glue_exts_last s w att) H). Qed.

Theorem glue_C06_dates_forward cfg st : forward cfg A = Ok st -> all_dated A st.
Proof. exact (C06_dates_forward_holds cfg A st (glue_reach Hatt)). Qed.

Theorem glue_C06_dates_backward cfg st : backward cfg A = Ok st -> all_dated A st.
Proof. exact (C06_dates_backward_holds cfg A st (glue_reach Hatt)). Qed.

Theorem glue_C07_forward_oracle cfg st : cap_nonneg cfg -> forward cfg A = Ok st ->
  c07_b A (obs_of A st) (wbs_start A (ds_start (dy st))) (wbs_end A (ds_end (dy st))) = true.
Proof. intros Hc H. exact (C07_forward_oracle cfg A st (glue_reach Hatt) Hc (Glue_exts_last s w att) H). Qed.

Theorem glue_C07_backward_oracle cfg st : cap_nonneg cfg -> backward cfg A = Ok st ->
  c07_b A (obs_of A st) (wbs_start A (ds_start (dy st))) (wbs_end A (ds_end (dy st))) = true.
Proof. intros Hc H. exact (C07_backward_oracle cfg A st (glue_reach Hatt) Hc (Glue_exts_last s w att) H). Qed.

Theorem glue_C08_oracle cfg st : cap_nonneg cfg -> forward cfg A = Ok st -> c08_b cfg A (obs_of A st) = true.
Proof.
  intros Hc H.
  exact (C08_model_passes_oracle_obs_of cfg A st Hc (glue_reach Hatt) (Glue_c08_preorder s w att reach_wf)
           (Glue_c08_members_first s w att) H).
Qed.

Theorem glue_C09_oracle cfg st : cap_nonneg cfg -> backward cfg A = Ok st -> c09_b cfg A (obs_of A st) = true.
Proof. intros Hc H. exact (C09_model_oracle_holds cfg A st (glue_reach Hatt) Hc (Glue_members_first_prop s w att) H). Qed.
(* the two answers of a forward / backward calculation, with what the schedule is known to satisfy *)
Theorem glue_forward_sound cfg : cap_nonneg cfg ->
  forward cfg A = Err \/
  exists st, forward cfg A = Ok st /\ no_overallocation cfg A (lg st) /\ all_dated A st.
Proof.
  intro Hc. destruct (glue_C14_total_forward cfg) as [[st H]|H]; [right|left; exact H].
  exists st. split; [exact H|]. split; [exact (glue_C03_forward cfg st Hc H)|exact (glue_C06_dates_forward cfg st H)].
Qed.

Theorem glue_backward_sound cfg : cap_nonneg cfg ->
  backward cfg A = Err \/
  exists st, backward cfg A = Ok st /\ no_overallocation cfg A (lg st) /\ all_dated A st.
Proof.
  intro Hc. destruct (glue_C14_total_backward cfg) as [[st H]|H]; [right|left; exact H].
  exists st. split; [exact H|]. split; [exact (glue_C03_backward cfg st Hc H)|exact (glue_C06_dates_backward cfg st H)].
Qed.
End Reach.
