(* Glue - the history, attributes and configuration of the non-vacuity example (definitions only).

   WBS 0 (hidden root: object 0) holds the summary 1 with the children 2 and 3, task 3 depends on task 2;
   WBS 1 (hidden root: object 4) holds task 5; task 2 depends on task 5, which is OUTSIDE WBS 0.
   Seen from WBS 0: members 1, 2, 3 are numbered 0, 1, 2 and the outside task 5 is numbered 3.
   Seen from WBS 1: member 5 is numbered 0 and the outside task 2 (a successor) is numbered 1. *)
From PJ Require Import Base.Prelude Graph.Model Sched.Model Glue.AbsWbs.
Local Open Scope nat_scope.

Definition glue_ops : list op :=
  [NewWbs; NewTask 1%Z None [] None; NewTask 2%Z None [] None; NewTask 3%Z None [] None;
   ChAppend 0 (Some 1); SetChildren 1 [Some 2; Some 3]; SetLinks true 3 [Some 2];
   NewWbs; NewTask 9%Z None [] None; ChAppend 4 (Some 5); SetLinks true 2 [Some 5]].

(* estimates 8 and 4 units for the two leaves; the outside task has both dates (day 0 .. day 1) *)
Definition glue_att (x : obj) : sattr :=
  {| a_milestone := false; a_res := 0;
     a_est := match x with 2 => Some 8%Z | 3 => Some 4%Z | _ => None end; a_spent := None;
     a_start := match x with 5 => Some 0%Z | _ => None end;
     a_end := match x with 5 => Some DAY | _ => None end; a_minstart := None |}.

(* one resource with 8 units every day, balancing, project bound and clock at 0 *)
Definition glue_cfg : config :=
  {| cap := fun _ _ => 8%Z; balance := true; dflt_est := 0%Z; pbound := 0%Z; now := 0%Z;
     h_search := 10; h_near := 10; h_fill := 100 |}.

Definition glue_mk (par : option nat) (ch pr su : list nat) (ext : bool) (e st en : option Z) : itask :=
  {| k_parent := par; k_children := ch; k_preds := pr; k_succs := su; k_ext := ext; k_milestone := false;
     k_res := 0; k_est := e; k_spent := None; k_start := st; k_end := en; k_minstart := None |}.

(* abs_wbs of WBS 0, written out *)
Definition glue_abs0 : list itask :=
  [glue_mk None [1; 2] [] [] false None None None;
   glue_mk (Some 0) [] [3] [2] false (Some 8%Z) None None;
   glue_mk (Some 0) [] [1] [] false (Some 4%Z) None None;
   glue_mk None [] [] [] true None (Some 0%Z) (Some DAY)].

(* abs_wbs of WBS 1, written out: the successor outside the WBS is an entry without structure *)
Definition glue_abs1 : list itask :=
  [glue_mk None [] [] [1] false None (Some 0%Z) (Some DAY);
   glue_mk None [] [] [] true (Some 8%Z) None None].

(* the attributes carried over to the copies made by clone() of WBS 0 (objects 7, 8, 9 copy 1, 2, 3) *)
Definition glue_att_clone (x : obj) : sattr :=
  glue_att (match x with 7 => 1 | 8 => 2 | 9 => 3 | _ => x end).
