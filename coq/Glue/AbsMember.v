(* Glue, part 2 - every conjunct of [wfin_member_b] for a member of the abstraction, each from the conjunct of WF
   that carries it:

     anc_abs            the chain [Sched.Model.ancestors] walks in the table is, through the position map, a chain
                        of heap ancestors that are members (any fuel)
     mb_children        children are numbered members naming the task as parent         I_pc (down), I_acy (x <> root)
     mb_children_nodup  ... and distinct                                                I_pc (NoDup), positions injective
     mb_parent          the parent lists the task                                       I_pc (up)
     mb_not_own_anc     no task is its own ancestor                                     I_acy
     mb_preds / mb_succs  links in range, never the task itself, mirrored among members I_sym, I_dag
     mb_links_nodup     the link lists have no repeats                                  I_sym (NoDup)
     mb_no_anc_link     no link with an ancestor                                        I_sep (+ I_sym for successors)
     mb_attrs           milestone is a leaf, amounts not negative                       att_ok
     glue_member        wfin_member_b (abs_wbs s w att) (pos s w x) = true for every member x
     glue_ext           wfin_ext_b of every outside entry *)
From Coq Require Import Arith PeanoNat Lia List Bool.
From PJ Require Import Base.Prelude Graph.Model Graph.Invariant Graph.AncLemmas Graph.AncLemmas2 Graph.DepLemmas
  Graph.OracleProofs Sched.Model Sched.Machine Sched.WfIn Glue.AbsWbs Glue.AbsWbsProofs.
Local Open Scope nat_scope.

Lemma nodup_nat_spec l : nodup_nat l = true <-> NoDup l.
Proof.
  induction l as [|x l IH]; simpl.
  - split; [constructor|reflexivity].
  - rewrite andb_true_iff, negb_true_iff, memb_false, IH. split.
    + intros [A B]. constructor; assumption.
    + intro H. inversion H; subst. split; assumption.
Qed.

Section Member.
Variable s : state.
Variable w : wid.
Variable att : obj -> sattr.
Hypothesis W : WFcore s.

Let r := wroot s w.
Let Ms : list nat := mem_list s w.
Let Os : list nat := out_list s w.
Let Ns : list nat := num_list s w.
Let Tb := abs_wbs s w att.
Let ps := pos s w.

Lemma l_range q : In q Ns -> in_range Tb (ps q) = true.   Proof. exact (range_num s w att q). Qed.
Lemma l_ext_mem q : In q Ms -> is_ext Tb (ps q) = false.  Proof. exact (ext_mem s w att q). Qed.
Lemma l_ext_out q : In q Os -> is_ext Tb (ps q) = true.   Proof. exact (ext_out s w att q). Qed.
Lemma l_gett_mem q : In q Ms -> gett Tb (ps q) = abs_member s w att q.  Proof. exact (gett_mem s w att q). Qed.

(* ---- the fields of a member's entry ---- *)
Lemma kf_parent x : In x Ms ->
  (par (get (hp s) x) = Some r /\ k_parent (gett Tb (ps x)) = None) \/
  (exists p, In p Ms /\ par (get (hp s) x) = Some p /\ k_parent (gett Tb (ps x)) = Some (ps p)).
Proof.
  intro Hx. rewrite (l_gett_mem x Hx). cbn [k_parent abs_member].
  destruct (mem_has_par s w W x Hx) as [p P]. rewrite P.
  destruct (Nat.eqb_spec p (wroot s w)) as [E|E].
  - left. subst p. split; reflexivity.
  - right. exists p. destruct (par_mem s w W x p Hx P) as [K|K]; [contradiction|]. repeat split; assumption.
Qed.

Lemma kf_children x : In x Ms -> k_children (gett Tb (ps x)) = map ps (Graph.Model.kids (get (hp s) x)).
Proof. intro Hx. rewrite (l_gett_mem x Hx). reflexivity. Qed.
Lemma kf_preds x : In x Ms -> k_preds (gett Tb (ps x)) = map ps (preds (get (hp s) x)).
Proof. intro Hx. rewrite (l_gett_mem x Hx). reflexivity. Qed.
Lemma kf_succs x : In x Ms -> k_succs (gett Tb (ps x)) = map ps (succs (get (hp s) x)).
Proof. intro Hx. rewrite (l_gett_mem x Hx). reflexivity. Qed.

Lemma In_map_ps y l : (forall p, In p l -> In p Ns) -> In (ps y) (map ps l) -> In y l.
Proof.
  intros Hl H. apply in_map_iff in H. destruct H as [p [E Hp]].
  assert (p = y) by (apply (pos_inj s w p y); [apply Hl; exact Hp|exact E]). subst p. exact Hp.
Qed.

Lemma NoDup_map_ps l : NoDup l -> (forall p, In p l -> In p Ns) -> NoDup (map ps l).
Proof.
  induction 1 as [|a l Ha Hl IH]; intro Hn; simpl; constructor.
  - intro K. apply Ha. apply In_map_ps; [|exact K]. intros p Hp. apply Hn. right. exact Hp.
  - apply IH. intros p Hp. apply Hn. right. exact Hp.
Qed.

Lemma mem_num x : In x Ms -> In x Ns.
Proof. intro H. apply (num_In s w). left. exact H. Qed.

(* ---- ancestors ---- *)
Lemma anc_abs f : forall x, In x Ms -> forall a, In a (ancestors Tb f (ps x)) ->
  exists y, In y Ms /\ a = ps y /\ Anc (hp s) x y.
Proof.
  induction f as [|f IH]; intros x Hx a Ha; cbn [ancestors] in Ha; [contradiction|].
  destruct (kf_parent x Hx) as [[_ K]|[p [Hp [P K]]]]; rewrite K in Ha; [contradiction|].
  destruct Ha as [Ha|Ha].
  - exists p. split; [exact Hp|]. split; [symmetry; exact Ha|]. apply Anc_par. exact P.
  - destruct (IH p Hp a Ha) as [y [Hy [E A]]]. exists y. split; [exact Hy|]. split; [exact E|].
    eapply Anc_up; [exact P|exact A].
Qed.

(* ---- hierarchy ---- *)
Lemma mb_children x : In x Ms ->
  forallb (fun c => in_range Tb c && negb (is_ext Tb c)
                    && match k_parent (gett Tb c) with Some p => Nat.eqb p (ps x) | None => false end)
          (k_children (gett Tb (ps x))) = true.
Proof.
  intro Hx. rewrite (kf_children x Hx). apply forallb_forall. intros c' Hc'.
  apply in_map_iff in Hc'. destruct Hc' as [c [E Hc]]. subst c'.
  pose proof (kid_mem s w W x c Hx Hc) as Hm.
  rewrite (l_range c (mem_num c Hm)), (l_ext_mem c Hm). cbn [negb andb].
  pose proof (glue_pcd s W c x Hc) as P.
  destruct (kf_parent c Hm) as [[P' _]|[p [_ [P' K]]]].
  - exfalso. rewrite P in P'. inversion P'. apply (root_not_mem s w W). fold r. rewrite <- H0. exact Hx.
  - rewrite K. rewrite P in P'. inversion P'. apply Nat.eqb_refl.
Qed.

Lemma mb_children_nodup x : In x Ms -> nodup_nat (k_children (gett Tb (ps x))) = true.
Proof.
  intro Hx. rewrite (kf_children x Hx). apply nodup_nat_spec. apply NoDup_map_ps.
  - apply (glue_knd s W).
  - intros c Hc. apply mem_num. exact (kid_mem s w W x c Hx Hc).
Qed.

Lemma mb_parent x : In x Ms ->
  match k_parent (gett Tb (ps x)) with
  | Some p => in_range Tb p && negb (is_ext Tb p) && memb (ps x) (k_children (gett Tb p))
  | None => true
  end = true.
Proof.
  intro Hx. destruct (kf_parent x Hx) as [[_ K]|[p [Hp [P K]]]]; rewrite K; [reflexivity|].
  rewrite (l_range p (mem_num p Hp)), (l_ext_mem p Hp). cbn [negb andb].
  rewrite (kf_children p Hp). apply memb_true. apply in_map. apply (glue_pcu s W). exact P.
Qed.

Lemma mb_not_own_anc x f : In x Ms -> negb (memb (ps x) (ancestors Tb f (ps x))) = true.
Proof.
  intro Hx. apply negb_true_iff, memb_false. intro K.
  destruct (anc_abs f x Hx _ K) as [y [Hy [E A]]].
  assert (x = y) by (apply (pos_inj s w x y); [apply mem_num; exact Hx|exact E]). subst y.
  exact (glue_acy s W x A).
Qed.

(* ---- links ---- *)
Lemma no_self_pred x : ~ In x (preds (get (hp s) x)).
Proof. intro K. apply (g_dag s W x). apply Dep_one. exact K. Qed.

Lemma no_self_succ x : ~ In x (succs (get (hp s) x)).
Proof. intro K. apply no_self_pred with x. apply (proj1 (g_sym s W) x x). exact K. Qed.

Lemma link_end_cases q : In q Ns ->
  (In q Ms /\ is_ext Tb (ps q) = false) \/ (In q Os /\ is_ext Tb (ps q) = true).
Proof.
  intro H. apply (num_In s w) in H. destruct H as [H|H]; [left|right]; (split; [exact H|]).
  - apply (l_ext_mem q H).
  - apply (l_ext_out q H).
Qed.

Lemma mb_preds x : In x Ms ->
  forallb (fun p => in_range Tb p && negb (Nat.eqb p (ps x))
                    && (is_ext Tb p || memb (ps x) (k_succs (gett Tb p)))) (k_preds (gett Tb (ps x))) = true.
Proof.
  intro Hx. rewrite (kf_preds x Hx). apply forallb_forall. intros p' Hp'.
  apply in_map_iff in Hp'. destruct Hp' as [p [E Hp]]. subst p'.
  pose proof (pred_num s w x p Hx Hp) as Hn.
  rewrite (l_range p Hn). cbn [andb].
  apply andb_true_iff. split.
  - apply negb_true_iff, Nat.eqb_neq. intro E.
    assert (p = x) by (apply (pos_inj s w p x); [exact Hn|exact E]). subst p. exact (no_self_pred x Hp).
  - destruct (link_end_cases p Hn) as [[Hm X]|[_ X]]; rewrite X; [|reflexivity]. cbn [orb].
    rewrite (kf_succs p Hm). apply memb_true. apply in_map. apply (proj1 (g_sym s W) x p). exact Hp.
Qed.

Lemma mb_succs x : In x Ms ->
  forallb (fun q => in_range Tb q && negb (Nat.eqb q (ps x))
                    && (is_ext Tb q || memb (ps x) (k_preds (gett Tb q)))) (k_succs (gett Tb (ps x))) = true.
Proof.
  intro Hx. rewrite (kf_succs x Hx). apply forallb_forall. intros q' Hq'.
  apply in_map_iff in Hq'. destruct Hq' as [q [E Hq]]. subst q'.
  pose proof (succ_num s w x q Hx Hq) as Hn.
  rewrite (l_range q Hn). cbn [andb].
  apply andb_true_iff. split.
  - apply negb_true_iff, Nat.eqb_neq. intro E.
    assert (q = x) by (apply (pos_inj s w q x); [exact Hn|exact E]). subst q. exact (no_self_succ x Hq).
  - destruct (link_end_cases q Hn) as [[Hm X]|[_ X]]; rewrite X; [|reflexivity]. cbn [orb].
    rewrite (kf_preds q Hm). apply memb_true. apply in_map. apply (proj1 (g_sym s W) q x). exact Hq.
Qed.

Lemma mb_links_nodup x : In x Ms ->
  nodup_nat (k_preds (gett Tb (ps x))) = true /\ nodup_nat (k_succs (gett Tb (ps x))) = true.
Proof.
  intro Hx. rewrite (kf_preds x Hx), (kf_succs x Hx). destruct (proj2 (g_sym s W) x) as [Np Nq].
  split; apply nodup_nat_spec; apply NoDup_map_ps; try assumption.
  - intros p Hp. exact (pred_num s w x p Hx Hp).
  - intros q Hq. exact (succ_num s w x q Hx Hq).
Qed.

Lemma mb_no_anc_link x f : In x Ms ->
  forallb (fun a => negb (memb a (k_preds (gett Tb (ps x)))) && negb (memb a (k_succs (gett Tb (ps x)))))
          (ancestors Tb f (ps x)) = true.
Proof.
  intro Hx. apply forallb_forall. intros a Ha.
  destruct (anc_abs f x Hx a Ha) as [y [Hy [E A]]]. subst a.
  rewrite (kf_preds x Hx), (kf_succs x Hx). apply andb_true_iff.
  split; apply negb_true_iff, memb_false; intro K.
  - apply In_map_ps in K; [|intros p Hp; exact (pred_num s w x p Hx Hp)].
    exact (proj1 (g_sep s W x y K) A).
  - apply In_map_ps in K; [|intros q Hq; exact (succ_num s w x q Hx Hq)].
    apply (proj1 (g_sym s W) y x) in K. exact (proj2 (g_sep s W y x K) A).
Qed.

(* ---- attributes ---- *)
Lemma mb_attrs x : att_ok s w att -> In x Ms ->
  let k := gett Tb (ps x) in
  (negb (k_milestone k) || is_leaf k) = true /\
  match k_est k with Some e => (0 <=? e)%Z | None => true end = true /\
  match k_spent k with Some e => (0 <=? e)%Z | None => true end = true.
Proof.
  intros Ok Hx. cbv zeta. destruct (Ok x Hx) as [Am [Ae As]].
  rewrite (l_gett_mem x Hx). cbn [k_milestone k_est k_spent abs_member]. repeat split.
  - unfold is_leaf. cbn [k_children abs_member]. destruct (a_milestone (att x)); [|reflexivity]. rewrite (Am eq_refl). reflexivity.
  - destruct (a_est (att x)) as [e|]; [|reflexivity]. apply Z.leb_le. apply Ae. reflexivity.
  - destruct (a_spent (att x)) as [e|]; [|reflexivity]. apply Z.leb_le. apply As. reflexivity.
Qed.

(* ---- assembled ---- *)
Lemma glue_member x : att_ok s w att -> In x Ms -> wfin_member_b Tb (ps x) = true.
Proof.
  intros Ok Hx. unfold wfin_member_b. cbv zeta.
  destruct (mb_links_nodup x Hx) as [Np Nq]. destruct (mb_attrs x Ok Hx) as [A1 [A2 A3]]. cbv zeta in A1, A2, A3.
  rewrite (mb_children x Hx), (mb_children_nodup x Hx), (mb_parent x Hx), (mb_not_own_anc x _ Hx),
    (mb_preds x Hx), (mb_succs x Hx), Np, Nq, (mb_no_anc_link x _ Hx), A1, A2, A3.
  reflexivity.
Qed.

Lemma glue_ext y : wfin_ext_b (abs_ext att y) = true.
Proof. reflexivity. Qed.
End Member.
