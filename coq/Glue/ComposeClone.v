(* Glue, part 6 - the copy the schedulers work on.  calc() schedules wbs.clone(); C10 (Graph/CloneWF.v) proves that the
   state after clone() / subtree() satisfies every conjunct of WF except - without a further hypothesis on the ids of
   the hidden roots - I_ids.  The abstraction needs only five conjuncts (WFcore), none of them I_ids: the abstraction
   of ANY WBS of the state after cloning, the new one included, is a well-formed scheduler input, in WBS order. *)
From Coq Require Import Arith PeanoNat Lia List Bool.
From PJ Require Import Base.Prelude Graph.Model Graph.Invariant Graph.AncLemmas2 Graph.Clone Graph.CloneWF.
From PJ Require Import Sched.Model Sched.WfIn Sched.C08Check.
From PJ Require Import Glue.AbsWbs Glue.AbsWbsProofs Glue.AbsWfin Glue.AbsOrder.
Local Open Scope nat_scope.

Lemma clone_sel_WFcore s w sel : WF s -> sel_ok s w sel -> WFcore (fst (clone_sel s w sel)).
Proof.
  intros W S. pose proof (clone_sel_WF_but_ids s w sel W S) as H. cbv zeta in H. unfold WFcore. tauto.
Qed.

(* the selection of clone(): the root tasks of the WBS *)
Lemma clone_sel_ok s w : WF s -> w < length (wroots s) -> sel_ok s w (Graph.Model.kids (get (hp s) (wroot s w))).
Proof.
  intros W L. split; [exact L|]. exists (mem_list s w). split; [exact (Glue_wbs_tasks s w W)|].
  pose proof (WF_WFcore s W) as Wc. intros c Hc. unfold mem_list. apply desc_kid; [exact (glue_pcd s Wc)|exact (glue_acy s Wc)|exact Hc].
Qed.

Theorem glue_clone_sel s w sel w2 att : WF s -> sel_ok s w sel ->
  att_ok (fst (clone_sel s w sel)) w2 att ->
  WFin (abs_wbs (fst (clone_sel s w sel)) w2 att) /\
  members_first_b (abs_wbs (fst (clone_sel s w sel)) w2 att) = true /\
  c08_preorder_b (abs_wbs (fst (clone_sel s w sel)) w2 att) = true.
Proof.
  intros W S Hok. pose proof (clone_sel_WFcore s w sel W S) as Wc. split; [|split].
  - exact (Glue_WFin_core _ w2 att Wc Hok).
  - exact (Glue_members_first_holds _ w2 att).
  - exact (Glue_preorder_core _ w2 att Wc).
Qed.

Theorem glue_clone s w att : WF s -> w < length (wroots s) ->
  att_ok (fst (clone s w)) (snd (clone s w)) att ->
  WFin (abs_wbs (fst (clone s w)) (snd (clone s w)) att) /\
  members_first_b (abs_wbs (fst (clone s w)) (snd (clone s w)) att) = true /\
  c08_preorder_b (abs_wbs (fst (clone s w)) (snd (clone s w)) att) = true.
Proof.
  intros W L Hok. unfold clone in *. apply glue_clone_sel; [exact W|exact (clone_sel_ok s w W L)|exact Hok].
Qed.
