(* Glue, part 7 - the order inside the dependency lists does not matter.

   The harness builds its abstract input by the recipe of abs_wbs but takes the ORDER inside each predecessor /
   successor list from the scheduler's own copy (clone() re-appends mirror entries), i.e. its table is abs_wbs up to a
   permutation of every k_preds / k_succs.  WFin and the two numbering conventions are insensitive to that:

     relinked w w'            same length; entry by entry all fields equal except k_preds / k_succs, which are permutations
     relinked_wfin            relinked w w' -> WFin w -> WFin w'
     relinked_members / relinked_walk   members and the depth-first walk are the same lists
     Glue_relinked_holds      WF s -> att_ok s w att -> relinked (abs_wbs s w att) w' ->
                              WFin w' /\ members_first_b w' = true /\ c08_preorder_b w' = true *)
From Coq Require Import Arith PeanoNat Lia List Bool Permutation.
From PJ Require Import Base.Prelude Graph.Model Graph.Invariant Sched.Model Sched.Machine Sched.WfIn Sched.C08Check
  Glue.AbsWbs Glue.AbsWbsProofs Glue.AbsMember Glue.AbsWfin Glue.AbsOrder.
Local Open Scope nat_scope.

Definition link_equiv (k k' : itask) : Prop :=
  k_parent k' = k_parent k /\ k_children k' = k_children k /\ k_ext k' = k_ext k /\
  k_milestone k' = k_milestone k /\ k_res k' = k_res k /\ k_est k' = k_est k /\ k_spent k' = k_spent k /\
  k_start k' = k_start k /\ k_end k' = k_end k /\ k_minstart k' = k_minstart k /\
  Permutation (k_preds k) (k_preds k') /\ Permutation (k_succs k) (k_succs k').

Definition relinked (w w' : list itask) : Prop := Forall2 link_equiv w w'.

Lemma link_equiv_refl k : link_equiv k k.
Proof. unfold link_equiv. repeat split; try reflexivity; apply Permutation_refl. Qed.

Lemma relinked_refl w : relinked w w.
Proof. induction w; constructor; [apply link_equiv_refl|assumption]. Qed.

Lemma Forall2_nth_rel {A} (R : A -> A -> Prop) l l' d : Forall2 R l l' -> R d d -> forall t, R (nth t l d) (nth t l' d).
Proof.
  induction 1 as [|a a' l l' Ha Hl IH]; intros Hd t; destruct t; simpl; auto.
Qed.

Lemma Forall2_len {A B} (R : A -> B -> Prop) l l' : Forall2 R l l' -> length l = length l'.
Proof. induction 1; simpl; congruence. Qed.

Lemma memb_perm x l l' : Permutation l l' -> memb x l = memb x l'.
Proof.
  intro P. destruct (memb x l') eqn:E.
  - apply memb_true. apply memb_true in E. eapply Permutation_in; [apply Permutation_sym; exact P|exact E].
  - apply memb_false. apply memb_false in E. intro K. apply E. eapply Permutation_in; eassumption.
Qed.

Section Relink.
Variables w w' : list itask.
Hypothesis R : relinked w w'.

Lemma rl_at t : link_equiv (gett w t) (gett w' t).
Proof. unfold gett. apply Forall2_nth_rel; [exact R|apply link_equiv_refl]. Qed.

Lemma rl_length : length w' = length w.
Proof. symmetry. eapply Forall2_len. exact R. Qed.

Lemma rl_parent t : k_parent (gett w' t) = k_parent (gett w t).   Proof. apply (rl_at t). Qed.
Lemma rl_children t : k_children (gett w' t) = k_children (gett w t). Proof. apply (rl_at t). Qed.
Lemma rl_ext t : is_ext w' t = is_ext w t.                         Proof. apply (rl_at t). Qed.
Lemma rl_range t : in_range w' t = in_range w t.                   Proof. unfold in_range. rewrite rl_length. reflexivity. Qed.
Lemma rl_preds t : Permutation (k_preds (gett w t)) (k_preds (gett w' t)). Proof. apply (rl_at t). Qed.
Lemma rl_succs t : Permutation (k_succs (gett w t)) (k_succs (gett w' t)). Proof. apply (rl_at t). Qed.

Lemma rl_ancestors f : forall t, ancestors w' f t = ancestors w f t.
Proof.
  induction f as [|f IH]; intro t; [reflexivity|]. cbn [ancestors]. rewrite rl_parent.
  destruct (k_parent (gett w t)); [rewrite IH|]; reflexivity.
Qed.

Lemma rl_member t : wfin_member_b w t = true -> wfin_member_b w' t = true.
Proof.
  unfold wfin_member_b. cbv zeta. rewrite !andb_true_iff.
  intros [[[[[[[[[[[C1 C2] C3] C4] C5] C6] C7] C8] C9] C10] C11] C12].
  destruct (rl_at t) as (Ep & Ec & Ee & Em & _ & Es & Esp & _ & _ & _ & Pp & Ps).
  repeat split.
  - rewrite Ec. rewrite forallb_forall in *. intros c Hc. specialize (C1 c Hc).
    rewrite rl_range, rl_ext, rl_parent. exact C1.
  - rewrite Ec. exact C2.
  - rewrite Ep. destruct (k_parent (gett w t)) as [p|]; [|reflexivity].
    rewrite rl_range, rl_ext, rl_children. exact C3.
  - rewrite rl_length, rl_ancestors. exact C4.
  - rewrite forallb_forall in *. intros p Hp.
    assert (Hp' : In p (k_preds (gett w t))) by (eapply Permutation_in; [apply Permutation_sym; exact Pp|exact Hp]).
    specialize (C5 p Hp'). rewrite rl_range, rl_ext, <- (memb_perm t _ _ (rl_succs p)). exact C5.
  - rewrite forallb_forall in *. intros q Hq.
    assert (Hq' : In q (k_succs (gett w t))) by (eapply Permutation_in; [apply Permutation_sym; exact Ps|exact Hq]).
    specialize (C6 q Hq'). rewrite rl_range, rl_ext, <- (memb_perm t _ _ (rl_preds q)). exact C6.
  - apply nodup_nat_spec. apply nodup_nat_spec in C7. eapply Permutation_NoDup; eassumption.
  - apply nodup_nat_spec. apply nodup_nat_spec in C8. eapply Permutation_NoDup; eassumption.
  - rewrite rl_length, rl_ancestors. rewrite forallb_forall in *. intros a Ha. specialize (C9 a Ha).
    rewrite <- (memb_perm a _ _ Pp), <- (memb_perm a _ _ Ps). exact C9.
  - rewrite Em. unfold is_leaf in *. rewrite Ec. exact C10.
  - rewrite Es. exact C11.
  - rewrite Esp. exact C12.
Qed.

Lemma rl_depth f : forall t, pred_depth_ok w f t = true -> pred_depth_ok w' f t = true.
Proof.
  induction f as [|f IH]; intros t H; [discriminate|]. cbn [pred_depth_ok] in *.
  rewrite forallb_forall in *. intros p Hp.
  assert (Hp' : In p (k_preds (gett w t))) by (eapply Permutation_in; [apply Permutation_sym; apply rl_preds|exact Hp]).
  specialize (H p Hp'). rewrite rl_ext. apply orb_true_iff in H. apply orb_true_iff.
  destruct H as [H|H]; [left; exact H|right; apply IH; exact H].
Qed.

Lemma rl_ext_entry t : wfin_ext_b (gett w t) = true -> wfin_ext_b (gett w' t) = true.
Proof.
  unfold wfin_ext_b. destruct (rl_at t) as (Ep & Ec & _ & _ & _ & _ & _ & _ & _ & _ & Pp & Ps).
  rewrite Ep, Ec. destruct (k_parent (gett w t)); [discriminate|]. destruct (k_children (gett w t)); [|discriminate].
  destruct (k_preds (gett w t)); [|discriminate]. destruct (k_succs (gett w t)); [|discriminate].
  apply Permutation_nil in Pp. apply Permutation_nil in Ps. rewrite Pp, Ps. reflexivity.
Qed.

Theorem relinked_wfin : WFin w -> WFin w'.
Proof.
  unfold WFin, wfin_b. rewrite rl_length, !forallb_forall. intros H t Ht. specialize (H t Ht).
  rewrite rl_ext. destruct (is_ext w t).
  - apply rl_ext_entry. exact H.
  - apply andb_true_iff in H. destruct H as [H1 H2]. apply andb_true_iff. split.
    + apply rl_member. exact H1.
    + apply rl_depth. exact H2.
Qed.

Lemma relinked_members : members w' = members w.
Proof.
  unfold members. rewrite rl_length. apply filter_ext. intro t. f_equal. exact (rl_ext t).
Qed.

Lemma relinked_roots : roots w' = roots w.
Proof. unfold roots. rewrite relinked_members. apply filter_ext. intro t. rewrite rl_parent. reflexivity. Qed.

Lemma relinked_dfs f : forall u, c08_dfs w' f u = c08_dfs w f u.
Proof.
  induction f as [|f IH]; intro u; [reflexivity|]. cbn [c08_dfs]. rewrite rl_children. f_equal.
  apply flat_map_ext. exact IH.
Qed.

Lemma relinked_walk : c08_walk w' = c08_walk w.
Proof. unfold c08_walk. rewrite relinked_roots, rl_length. apply flat_map_ext. intro u. apply relinked_dfs. Qed.

Lemma relinked_members_first : members_first_b w = true -> members_first_b w' = true.
Proof. unfold members_first_b. rewrite relinked_members. auto. Qed.

Lemma relinked_preorder : c08_preorder_b w = true -> c08_preorder_b w' = true.
Proof. unfold c08_preorder_b. rewrite relinked_walk, relinked_members. auto. Qed.
End Relink.

Theorem Glue_relinked_holds s w att w' :
  WF s -> att_ok s w att -> relinked (abs_wbs s w att) w' ->
  WFin w' /\ members_first_b w' = true /\ c08_preorder_b w' = true.
Proof.
  intros W Hok R. split; [|split].
  - apply (relinked_wfin _ _ R). exact (Glue_WFin_any s w att W Hok).
  - apply (relinked_members_first _ _ R). exact (Glue_members_first_holds s w att).
  - apply (relinked_preorder _ _ R). exact (Glue_preorder_holds s w att W).
Qed.
