(* Glue - the abstraction of one WBS of a heap state (Graph/Model.v) into the abstract WBS the schedulers
   receive (Sched/Model.v).  Definitions only; the proofs are in Glue/AbsWbsProofs.v and the files after it.

     sattr            what the graph model does not know about a task: milestone flag, resource number,
                      estimate, spent, start, end, min_start.  It is a PARAMETER of the abstraction
                      ([att : obj -> sattr]).  The heap field [est] (a sort key of C16) is IGNORED: the
                      estimate the scheduler sees is [a_est (att x)]; [att_est_agrees] names the agreement for
                      whoever wants to require it - no theorem of Glue needs it.
     mem_list s w     the members of WBS number w in WBS order: the total function behind [wbs_tasks]
                      ([desc], the depth-first preorder below the hidden root; Glue_wbs_tasks:
                      WF s -> wbs_tasks s w = Ok (mem_list s w))
     out_list s w     the tasks that occur in the predecessor / successor lists of members and are not
                      members, in first-occurrence order (members in WBS order, predecessors before successors)
     num_list s w     members, then outside tasks: task number = position in this list
     pos s w x        the number of object x (= length of num_list when x has none)
     abs_wbs s w att  the abstract WBS: one [itask] per entry of num_list
     att_ok s w att   what WFin needs from the attributes and cannot come from the graph: a milestone has no
                      children; estimate and spent are not negative when present *)
From PJ Require Import Base.Prelude Graph.Model Graph.AncLemmas2 Sched.Model.
Local Open Scope nat_scope.

Record sattr := {
  a_milestone : bool; a_res : nat;
  a_est : option Z; a_spent : option Z;
  a_start : option Z; a_end : option Z; a_minstart : option Z }.

(* position of the first occurrence; [length l] when there is none *)
Fixpoint idx (x : nat) (l : list nat) : nat :=
  match l with
  | [] => 0
  | y :: r => if Nat.eqb x y then 0 else S (idx x r)
  end.

Section Abs.
Variable s : state.
Variable w : wid.
Variable att : obj -> sattr.

Definition mem_list : list obj := desc (hp s) (wroot s w).

Definition link_list : list obj :=
  flat_map (fun x => preds (get (hp s) x) ++ succs (get (hp s) x)) mem_list.

Definition out_list : list obj :=
  dedup (filter (fun y => negb (memn y mem_list)) link_list).

Definition num_list : list obj := mem_list ++ out_list.

Definition pos (x : obj) : nat := idx x num_list.

Definition abs_member (x : obj) : itask :=
  let T := get (hp s) x in
  let a := att x in
  {| k_parent := match par T with
                 | Some p => if Nat.eqb p (wroot s w) then None else Some (pos p)
                 | None => None
                 end;
     k_children := map pos (Graph.Model.kids T);
     k_preds := map pos (preds T);
     k_succs := map pos (succs T);
     k_ext := false;
     k_milestone := a_milestone a; k_res := a_res a;
     k_est := a_est a; k_spent := a_spent a;
     k_start := a_start a; k_end := a_end a; k_minstart := a_minstart a |}.

Definition abs_ext (y : obj) : itask :=
  let a := att y in
  {| k_parent := None; k_children := []; k_preds := []; k_succs := [];
     k_ext := true;
     k_milestone := a_milestone a; k_res := a_res a;
     k_est := a_est a; k_spent := a_spent a;
     k_start := a_start a; k_end := a_end a; k_minstart := a_minstart a |}.

Definition abs_wbs : list itask := map abs_member mem_list ++ map abs_ext out_list.

Definition att_ok : Prop :=
  forall x, In x mem_list ->
    (a_milestone (att x) = true -> Graph.Model.kids (get (hp s) x) = []) /\
    (forall e, a_est (att x) = Some e -> (0 <= e)%Z) /\
    (forall e, a_spent (att x) = Some e -> (0 <= e)%Z).

(* the same as a boolean, for examples and for a harness that wants to evaluate it *)
Definition att_ok_b : bool :=
  forallb (fun x =>
    (negb (a_milestone (att x)) || match Graph.Model.kids (get (hp s) x) with [] => true | _ => false end)
    && match a_est (att x) with Some e => (0 <=? e)%Z | None => true end
    && match a_spent (att x) with Some e => (0 <=? e)%Z | None => true end) mem_list.

(* optional: the scheduler's estimate is the one stored in the heap *)
Definition att_est_agrees : Prop := forall x, In x mem_list -> a_est (att x) = est (get (hp s) x).
End Abs.
