(* Glue, part 3 - the dependency chains among members are short (pigeonhole from I_dag), and the assembled theorem
   WF s -> att_ok s w att -> WFin (abs_wbs s w att).

     depth_chain        pred_depth_ok false with fuel f at a member x  ->  a chain x -> p1 -> ... -> pf of heap
                        predecessors, all of them members
     glue_pred_depth    pred_depth_ok (abs_wbs ..) (length (abs_wbs ..)) (pos x) = true for every member x:
                        such a chain has no repeats (I_dag), so x :: chain are |chain| + 1 distinct members
     Glue_WFin_core     the theorem from the five conjuncts it uses (WFcore), for the tasks below ANY object
     Glue_WFin_any      ... from WF
     Glue_WFin_holds    ... in the shape of the statement (w an allocated WBS) *)
From Coq Require Import Arith PeanoNat Lia List Bool.
From PJ Require Import Base.Prelude Graph.Model Graph.Invariant Graph.AncLemmas Graph.AncLemmas2 Graph.DepLemmas
  Graph.OracleProofs Sched.Model Sched.Machine Sched.WfIn Glue.AbsWbs Glue.AbsWbsProofs Glue.AbsMember.
Local Open Scope nat_scope.

Lemma forallb_false {A} (f : A -> bool) l : forallb f l = false -> exists x, In x l /\ f x = false.
Proof.
  induction l as [|a l IH]; simpl; intro H; [discriminate|].
  destruct (f a) eqn:E.
  - destruct (IH H) as [x [Hx Fx]]. exists x. split; [right; exact Hx|exact Fx].
  - exists a. split; [left; reflexivity|exact E].
Qed.

Section Depth.
Variable s : state.
Variable w : wid.
Variable att : obj -> sattr.
Hypothesis W : WFcore s.

Let Ms : list nat := mem_list s w.
Let Os : list nat := out_list s w.
Let Ns : list nat := num_list s w.
Let Tb := abs_wbs s w att.
Let ps := pos s w.

Lemma depth_chain f : forall x, In x Ms -> pred_depth_ok Tb f (ps x) = false ->
  exists l, length l = f /\ chain (pnext (hp s)) x l /\ (forall y, In y l -> In y Ms).
Proof.
  induction f as [|f IH]; intros x Hx H.
  - exists []. split; [reflexivity|]. split; [exact I|]. intros y [].
  - cbn [pred_depth_ok] in H. apply forallb_false in H. destruct H as [p' [Hp' F]].
    unfold Tb, ps in Hp'. rewrite (kf_preds s w att x Hx) in Hp'.
    apply in_map_iff in Hp'. destruct Hp' as [p [E Hp]]. subst p'.
    apply orb_false_iff in F. destruct F as [Fe Fd].
    pose proof (pred_num s w x p Hx Hp) as Hn.
    destruct (link_end_cases s w att p Hn) as [[Hm _]|[_ X]].
    + destruct (IH p Hm Fd) as [l [Ll [Cl Ml]]]. exists (p :: l). split; [simpl; congruence|]. split.
      * split; [exact Hp|exact Cl].
      * intros y [Hy|Hy]; [subst y; exact Hm|apply Ml; exact Hy].
    + unfold Tb in Fe. rewrite X in Fe. discriminate.
Qed.

Lemma glue_pred_depth x : In x Ms -> pred_depth_ok Tb (length Tb) (ps x) = true.
Proof.
  intro Hx. destruct (pred_depth_ok Tb (length Tb) (ps x)) eqn:E; [reflexivity|exfalso].
  destruct (depth_chain _ x Hx E) as [l [Ll [Cl Ml]]].
  assert (Dag : forall z, ~ Reach (pnext (hp s)) z z) by (apply dag_pnext; apply g_dag; exact W).
  assert (ND : NoDup (x :: l)).
  { constructor; [|eapply chain_NoDup; eassumption].
    intro K. apply (Dag x). eapply chain_Reach; eassumption. }
  assert (Inc : incl (x :: l) Ms).
  { intros y [Hy|Hy]; [subst y; exact Hx|apply Ml; exact Hy]. }
  pose proof (NoDup_incl_length ND Inc) as Le. cbn [length] in Le.
  assert (LT : length Tb = length Ms + length Os).
  { unfold Tb. rewrite (length_abs s w att), (length_num s w). reflexivity. }
  unfold obj in *. lia.
Qed.

Lemma glue_wfin : att_ok s w att -> WFin Tb.
Proof.
  intro Ok. unfold WFin, wfin_b. apply forallb_forall. intros t Ht. apply in_seq in Ht.
  assert (Lt : t < length (abs_wbs s w att)) by (unfold Tb in Ht; lia).
  destruct (num_cases s w att W t Lt) as [[x [Hx E]]|[y [Hy E]]]; subst t.
  - unfold Tb. rewrite (ext_mem s w att x Hx). fold Tb.
    apply andb_true_iff. split; [exact (glue_member s w att W x Ok Hx)|exact (glue_pred_depth x Hx)].
  - unfold Tb. rewrite (ext_out s w att y Hy), (gett_out s w att y Hy). reflexivity.
Qed.
End Depth.

(* the tasks below any object [wroot s w] (for an unallocated w that is object 0) form a well-formed abstract WBS *)
Theorem Glue_WFin_core s w att : WFcore s -> att_ok s w att -> WFin (abs_wbs s w att).
Proof. intros W Hok. apply glue_wfin; assumption. Qed.

Theorem Glue_WFin_any s w att : WF s -> att_ok s w att -> WFin (abs_wbs s w att).
Proof. intros W Hok. apply Glue_WFin_core; [apply WF_WFcore; exact W|exact Hok]. Qed.

Theorem Glue_WFin_holds s w att :
  WF s -> w < length (wroots s) -> att_ok s w att -> WFin (abs_wbs s w att).
Proof. intros W _ Ok. apply Glue_WFin_any; assumption. Qed.

Lemma att_ok_b_spec s w att : att_ok_b s w att = true <-> att_ok s w att.
Proof.
  unfold att_ok_b, att_ok. rewrite forallb_forall. split; intros H x Hx; specialize (H x Hx).
  - apply andb_true_iff in H. destruct H as [H H3]. apply andb_true_iff in H. destruct H as [H1 H2].
    repeat split.
    + intro Mi. rewrite Mi in H1. cbn [negb orb] in H1. destruct (Graph.Model.kids (get (hp s) x)); [reflexivity|discriminate].
    + intros e Ee. rewrite Ee in H2. apply Z.leb_le. exact H2.
    + intros e Ee. rewrite Ee in H3. apply Z.leb_le. exact H3.
  - destruct H as [H1 [H2 H3]]. apply andb_true_iff. split; [apply andb_true_iff; split|].
    + destruct (a_milestone (att x)); [|reflexivity]. rewrite (H1 eq_refl). reflexivity.
    + destruct (a_est (att x)) as [e|]; [|reflexivity]. apply Z.leb_le. apply H2. reflexivity.
    + destruct (a_spent (att x)) as [e|]; [|reflexivity]. apply Z.leb_le. apply H3. reflexivity.
Qed.
