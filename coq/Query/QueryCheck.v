(* C18 - executable checker run on generated cases: the model (Query/Query.v, with substring
   search as the instance of re.search - the harness generates literal patterns only) is run on
   the input and compared with what the implementation returned.  No theorem depends on this file. *)
From PJ Require Import Base.Prelude Query.Query.
From Coq Require Import NArith.
Open Scope Z_scope.

(* callable keys the harness can also write as Python lambdas *)
Inductive pred :=
| PConst (b : bool)                 (* lambda t: b *)
| PIdIn (vs : list value)           (* lambda t: t.id in vs *)
| PHas (k : text)                   (* lambda t: filter-view of attribute k is not None *)
| PNot (p : pred).

Fixpoint pred_fun (p : pred) (t : task) : bool :=
  match p with
  | PConst b => b
  | PIdIn vs => existsb (py_eq (t_id t)) vs
  | PHas k => negb (is_none (get_attr t k))
  | PNot q => negb (pred_fun q t)
  end.

Inductive keyspec := KNone | KPred (p : pred) | KBad.
Definition key_of (k : keyspec) : key :=
  match k with KNone => KeyNone | KPred p => KeyFun (pred_fun p) | KBad => KeyBad end.

Definition filters := list (text * pyarg).

(* where a task list comes from *)
Inductive source :=
| SAll                                  (* wbs.tasks (or the plain list of all tasks, preorder) *)
| SRoots                                (* wbs.roots *)
| SKids (o : nat)                       (* t.children *)
| SDesc (o : nat)                       (* t.all_children *)
| SQuery (s : source) (k : keyspec) (fs : filters).   (* s(k, **fs) *)

Inductive op :=
| OQuery (s : source) (k : keyspec) (fs : filters)    (* s(k, **fs) *)
| OAssign (s : source) (k : text) (v : value)         (* s.k = v *)
| OWbsRemoveAll (k : keyspec) (fs : filters)          (* wbs.remove_all(k, **fs) *)
| OListRemoveAll (p : option nat) (k : keyspec) (fs : filters).  (* wbs.roots / t.children .remove_all *)

Fixpoint find_in (o : nat) (par : option value) (t : tree) : option (option value * tree) :=
  match t with
  | Node d ch =>
      if Nat.eqb (d_obj d) o then Some (par, t)
      else (fix go (l : forest) :=
              match l with
              | [] => None
              | c :: r => match find_in o (Some (d_id d)) c with Some x => Some x | None => go r end
              end) ch
  end.

Fixpoint find_node (o : nat) (f : forest) : option (option value * tree) :=
  match f with
  | [] => None
  | t :: r => match find_in o None t with Some x => Some x | None => find_node o r end
  end.

Definition q := query substr get_attr.

Fixpoint source_tasks (f : forest) (s : source) : res (list task) :=
  match s with
  | SAll => Ok (flat_forest None f)
  | SRoots => Ok (level None f)
  | SKids o => match find_node o f with
               | Some (_, Node d ch) => Ok (level (Some (d_id d)) ch)
               | None => Crash OutOfFuel
               end
  | SDesc o => match find_node o f with
               | Some (_, Node d ch) => Ok (flat_forest (Some (d_id d)) ch)
               | None => Crash OutOfFuel
               end
  | SQuery s' k fs => do l <- source_tasks f s'; q (key_of k) fs l
  end.

Fixpoint upd_tree (p : nat) (g : forest) (t : tree) : tree :=
  match t with
  | Node d ch => if Nat.eqb (d_obj d) p then Node d g else Node d (map (upd_tree p g) ch)
  end.

(* result: all tasks still reachable from the roots, preorder; objects returned by the call *)
Definition run_op (f : forest) (o : op) : res (list task * list nat) :=
  match o with
  | OQuery s k fs => do l <- source_tasks f s; do r <- q (key_of k) fs l; Ok (flat_forest None f, map t_obj r)
  | OAssign s k v => do sel <- source_tasks f s; do st <- assign k v sel (flat_forest None f); Ok (st, [])
  | OWbsRemoveAll k fs =>
      do r <- wbs_remove_all substr (key_of k) fs f; Ok (flat_forest None (fst r), map t_obj (snd r))
  | OListRemoveAll None k fs =>
      do r <- list_remove_all substr (key_of k) fs None f; Ok (flat_forest None (fst r), map t_obj (snd r))
  | OListRemoveAll (Some p) k fs =>
      match find_node p f with
      | Some (_, Node d ch) =>
          do r <- list_remove_all substr (key_of k) fs (Some (d_id d)) ch;
          Ok (flat_forest None (map (upd_tree p (fst r)) f), map t_obj (snd r))
      | None => Crash OutOfFuel
      end
  end.

(* ---- comparison with the observation (type-exact: 1, 1.0 and True are different states) ---- *)
Definition value_eqb (a b : value) : bool :=
  match a, b with
  | VNone, VNone => true
  | VBool x, VBool y => Bool.eqb x y
  | VInt x, VInt y => Z.eqb x y
  | VNum m e, VNum n g => match num_cmp (m, e) (n, g) with Eq => true | _ => false end
  | VStr x, VStr y => text_eqb x y
  | VTime x, VTime y => Z.eqb x y
  | _, _ => false
  end.

Definition attrs_sub (a b : list (text * value)) : bool :=
  forallb (fun kv => opt_eqb value_eqb (assoc (fst kv) a) (assoc (fst kv) b)) a.
Definition attrs_eqb (a b : list (text * value)) : bool :=
  Nat.eqb (length a) (length b) && attrs_sub a b && attrs_sub b a.

Definition shape_eqb (a b : task) : bool :=
  Nat.eqb (t_obj a) (t_obj b) && value_eqb (t_id a) (t_id b) && opt_eqb value_eqb (t_parent a) (t_parent b).

Definition nat_list_eqb := list_eqb Nat.eqb.

Fixpoint all2 {A B} (p : A -> B -> bool) (a : list A) (b : list B) : bool :=
  match a, b with
  | [], [] => true
  | x :: a', y :: b' => p x y && all2 p a' b'
  | _, _ => false
  end.

(* descendants of a returned task, as the original tree has them *)
Definition desc_objs (f : forest) (o : nat) : list nat :=
  match find_node o f with
  | Some (_, Node d ch) => map t_obj (flat_forest None ch)
  | None => []
  end.

Definition case : Type :=
  forest * op
  * nat                         (* observed outcome class of the call *)
  * list nat                    (* objects of the returned list, in order *)
  * list task                   (* all tasks reachable from the roots after the call, preorder *)
  * list (nat * list nat).      (* for remove_all: all_children of every returned task afterwards *)

Definition is_remove (o : op) : bool :=
  match o with OWbsRemoveAll _ _ | OListRemoveAll _ _ _ => true | _ => false end.

(* 0 fine; 1 outcome class; 2 returned tasks; 3 structure afterwards; 4 attribute state afterwards;
   5 a removed task lost part of its subtree *)
Definition check_case (c : case) : nat :=
  let '(f, o, code, ret, after, det) := c in
  let r := run_op f o in
  if negb (Nat.eqb code (outcome_code r)) then 1%nat
  else
    let '(st, mret) := match r with Ok x => x | _ => (flat_forest None f, []) end in
    if negb (nat_list_eqb mret ret) then 2%nat
    else if negb (list_eqb shape_eqb st after) then 3%nat
    else if negb (list_eqb (fun a b => attrs_eqb (t_attrs a) (t_attrs b)) st after) then 4%nat
    else if is_remove o && is_ok r
            && negb (all2 (fun x y => Nat.eqb x (fst y) && nat_list_eqb (desc_objs f x) (snd y)) mret det)
         then 5%nat
    else 0%nat.
