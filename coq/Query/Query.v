(* C18 - model of task queries and bulk operations
   (pjplan/task.py: _ImmutableTaskList.__call__, __get_task_attribute, __setattr__,
    _TaskList.remove_all, _ChildrenList.remove; pjplan/wbs.py: tasks, remove_all, __remove).
   Only definitions here; proofs are in Query/QueryProofs.v, the checker in Query/QueryCheck.v.

   The model is the code AFTER two small repairs (fixes/C18-1, C18-2):
     - estimate and spent are visible to filters like any other field (F21);
     - a callable key and keyword filters given together must all hold.
   The unrepaired behaviour is kept as [get_attr_old] / [query_old] for the refutation witnesses. *)
From PJ Require Import Base.Prelude.
From Coq Require Import NArith.
Open Scope Z_scope.

(* ---------- values -------------------------------------------------------------------------- *)
Definition text := list N.                       (* code points *)

Inductive value :=
| VNone
| VBool (b : bool)
| VInt (z : Z)
| VNum (m : Z) (e : N)                           (* a finite float, exactly: m / 2^e *)
| VStr (s : text)
| VTime (us : Z).                                (* naive datetime, microseconds *)

Definition text_eqb : text -> text -> bool := list_eqb N.eqb.

Fixpoint text_cmp (a b : text) : comparison :=   (* str ordering of Python: by code point *)
  match a, b with
  | [], [] => Eq
  | [], _ :: _ => Lt
  | _ :: _, [] => Gt
  | x :: a', y :: b' => match N.compare x y with Eq => text_cmp a' b' | c => c end
  end.

(* int, float and bool form one numeric tower compared exactly (1 == 1.0 == True) *)
Definition num_of (v : value) : option (Z * N) :=
  match v with
  | VBool b => Some (if b then 1 else 0, 0%N)
  | VInt z => Some (z, 0%N)
  | VNum m e => Some (m, e)
  | _ => None
  end.

Definition num_cmp (a b : Z * N) : comparison :=
  Z.compare (fst a * 2 ^ Z.of_N (snd b)) (fst b * 2 ^ Z.of_N (snd a)).

(* Python == on these types (never raises) *)
Definition py_eq (a b : value) : bool :=
  match num_of a, num_of b with
  | Some x, Some y => match num_cmp x y with Eq => true | _ => false end
  | None, None =>
      match a, b with
      | VNone, VNone => true
      | VStr s, VStr r => text_eqb s r
      | VTime s, VTime r => Z.eqb s r
      | _, _ => false
      end
  | _, _ => false
  end.

(* Python ordering; None = TypeError (unrelated types, or None on either side) *)
Definition py_cmp (a b : value) : option comparison :=
  match num_of a, num_of b with
  | Some x, Some y => Some (num_cmp x y)
  | None, None =>
      match a, b with
      | VStr s, VStr r => Some (text_cmp s r)
      | VTime s, VTime r => Some (Z.compare s r)
      | _, _ => None
      end
  | _, _ => None
  end.

Definition is_none (v : value) : bool := match v with VNone => true | _ => false end.

(* the value of a keyword argument: a scalar or a list/tuple/set of scalars *)
Inductive pyarg := AVal (v : value) | AList (vs : list value).

(* ---------- tasks --------------------------------------------------------------------------- *)
(* t_attrs = the public entries of the task's __dict__ (name, resource, start, end, milestone,
   min_start unless deleted, and custom attributes) plus estimate and spent, which are always there.
   t_parent = id of the public parent (the hidden WBS root is no parent). *)
Record task := { t_obj : nat; t_id : value; t_parent : option value; t_attrs : list (text * value) }.

Fixpoint assoc (k : text) (l : list (text * value)) : option value :=
  match l with
  | [] => None
  | (k', v) :: r => if text_eqb k k' then Some v else assoc k r
  end.

Definition s_parent_id : text := [112; 97; 114; 101; 110; 116; 95; 105; 100]%N.
Definition s_id : text := [105; 100]%N.
Definition s_estimate : text := [101; 115; 116; 105; 109; 97; 116; 101]%N.
Definition s_spent : text := [115; 112; 101; 110; 116]%N.

(* __get_task_attribute (repaired) *)
Definition get_attr (t : task) (k : text) : value :=
  if text_eqb k s_parent_id then match t_parent t with Some i => i | None => VNone end
  else if text_eqb k s_id then t_id t
  else match assoc k (t_attrs t) with Some v => v | None => VNone end.

(* __get_task_attribute as it was: estimate/spent are properties, not __dict__ entries (F21) *)
Definition get_attr_old (t : task) (k : text) : value :=
  if text_eqb k s_estimate || text_eqb k s_spent then VNone else get_attr t k.

(* ---------- keyword parser ------------------------------------------------------------------ *)
Inductive kind := KEq | KIn | KNotIn | KIsNone | KIsNotNone | KNe | KLt | KLe | KGt | KGe | KLike | KNotLike.

(* the elif chain of search(), in the code's order *)
Definition suffix_table : list (text * kind) :=
  [ ([95; 110; 111; 116; 95; 108; 105; 107; 101; 95]%N, KNotLike)                 (* _not_like_ *)
  ; ([95; 108; 105; 107; 101; 95]%N, KLike)                                       (* _like_ *)
  ; ([95; 110; 111; 116; 95; 105; 110; 95]%N, KNotIn)                             (* _not_in_ *)
  ; ([95; 105; 115; 95; 110; 111; 110; 101; 95]%N, KIsNone)                       (* _is_none_ *)
  ; ([95; 105; 115; 95; 110; 111; 116; 95; 110; 111; 110; 101; 95]%N, KIsNotNone) (* _is_not_none_ *)
  ; ([95; 105; 110; 95]%N, KIn)                                                   (* _in_ *)
  ; ([95; 110; 101; 95]%N, KNe)                                                   (* _ne_ *)
  ; ([95; 108; 101; 95]%N, KLe)                                                   (* _le_ *)
  ; ([95; 108; 116; 95]%N, KLt)                                                   (* _lt_ *)
  ; ([95; 103; 101; 95]%N, KGe)                                                   (* _ge_ *)
  ; ([95; 103; 116; 95]%N, KGt)                                                   (* _gt_ *)
  ].

Fixpoint prefixb (p s : text) : bool :=
  match p, s with
  | [], _ => true
  | _ :: _, [] => false
  | x :: p', y :: s' => N.eqb x y && prefixb p' s'
  end.

Definition ends_with (k s : text) : bool := prefixb (rev s) (rev k).      (* k.endswith(s) *)
Definition strip (k : text) (n : nat) : text := firstn (length k - n) k.  (* k[0:-n] *)

Fixpoint parse_with (tbl : list (text * kind)) (k : text) : text * kind :=
  match tbl with
  | [] => (k, KEq)
  | (s, kd) :: r => if ends_with k s then (strip k (length s), kd) else parse_with r k
  end.

Definition parse : text -> text * kind := parse_with suffix_table.

(* substring test: Python's [x in s] on strings, and re.search for literal patterns *)
Fixpoint substr (p s : text) : bool :=
  prefixb p s || match s with [] => false | _ :: s' => substr p s' end.

(* ---------- filters ------------------------------------------------------------------------- *)
Section Semantics.
Variable re_search : text -> text -> bool.     (* re.search(pattern, string) is not None; trusted *)
Variable ga : task -> text -> value.           (* attribute lookup: get_attr, or get_attr_old *)

(* val in container *)
Definition member (val : value) (a : pyarg) : res bool :=
  match a with
  | AList vs => Ok (existsb (py_eq val) vs)
  | AVal (VStr s) => match val with VStr x => Ok (substr x s) | _ => Crash TypeError end
  | AVal _ => Crash TypeError                   (* argument of type ... is not iterable *)
  end.

(* re.search(pattern, val) for val that is not None *)
Definition like (a : pyarg) (val : value) : res bool :=
  match a, val with
  | AVal (VStr p), VStr s => Ok (re_search p s)
  | _, _ => Crash TypeError
  end.

(* val == v where v is the keyword's value; a list never equals a scalar *)
Definition arg_eq (val : value) (a : pyarg) : bool :=
  match a with AVal v => py_eq val v | AList _ => false end.

Definition arg_cmp (val : value) (a : pyarg) : option comparison :=
  match a with AVal v => py_cmp val v | AList _ => None end.

Definition ordered (test : comparison -> bool) (val : value) (a : pyarg) : res bool :=
  if is_none val then Ok false
  else match arg_cmp val a with Some c => Ok (test c) | None => Crash TypeError end.

Definition is_lt (c : comparison) := match c with Lt => true | _ => false end.
Definition is_le (c : comparison) := match c with Gt => false | _ => true end.
Definition is_gt (c : comparison) := match c with Gt => true | _ => false end.
Definition is_ge (c : comparison) := match c with Lt => false | _ => true end.

(* one branch of the elif chain: does the task pass this keyword? *)
Definition holds_kind (kd : kind) (val : value) (a : pyarg) : res bool :=
  match kd with
  | KNotLike => if is_none val then Ok false else do m <- like a val; Ok (negb m)
  | KLike => if is_none val then Ok false else like a val
  | KNotIn => do m <- member val a; Ok (negb m)
  | KIsNone => Ok (is_none val)
  | KIsNotNone => Ok (negb (is_none val))
  | KIn => member val a
  | KNe => if is_none val then Ok false else Ok (negb (arg_eq val a))
  | KLe => ordered is_le val a
  | KLt => ordered is_lt val a
  | KGe => ordered is_ge val a
  | KGt => ordered is_gt val a
  | KEq => Ok (arg_eq val a)
  end.

Definition holds (t : task) (f : text * pyarg) : res bool :=
  let '(base, kd) := parse (fst f) in holds_kind kd (ga t base) (snd f).

(* search(t, **kw): keywords in call order, stops at the first one that fails *)
Fixpoint search (t : task) (fs : list (text * pyarg)) : res bool :=
  match fs with
  | [] => Ok true
  | f :: r => do b <- holds t f; if b then search t r else Ok false
  end.

(* the positional argument of __call__ *)
Inductive key := KeyNone | KeyFun (p : task -> bool) | KeyBad (* not callable: RuntimeError *).

Definition matches (k : key) (fs : list (text * pyarg)) (t : task) : res bool :=
  match k with
  | KeyFun p => if p t then search t fs else Ok false
  | _ => search t fs
  end.

Fixpoint select (k : key) (fs : list (text * pyarg)) (l : list task) : res (list task) :=
  match l with
  | [] => Ok []
  | t :: r => do b <- matches k fs t; do r' <- select k fs r; Ok (if b then t :: r' else r')
  end.

(* _ImmutableTaskList.__call__ *)
Definition query (k : key) (fs : list (text * pyarg)) (l : list task) : res (list task) :=
  match k with KeyBad => Err | _ => select k fs l end.

(* __call__ as it was: a callable key made the keyword filters be ignored *)
Definition query_old (k : key) (fs : list (text * pyarg)) (l : list task) : res (list task) :=
  match k with
  | KeyBad => Err
  | KeyFun p => Ok (filter p l)
  | KeyNone => select KeyNone fs l
  end.

End Semantics.

(* ---------- bulk assignment:  lst.k = v ----------------------------------------------------- *)
Fixpoint assoc_set (k : text) (v : value) (l : list (text * value)) : list (text * value) :=
  match l with
  | [] => [(k, v)]
  | (k', v') :: r => if text_eqb k k' then (k, v) :: r else (k', v') :: assoc_set k v r
  end.

Definition set_attr (k : text) (v : value) (t : task) : task :=
  {| t_obj := t_obj t; t_id := t_id t; t_parent := t_parent t; t_attrs := assoc_set k v (t_attrs t) |}.

(* what Task.__setattr__(k, v) does before storing: the estimate/spent setters reject negative
   numbers (RuntimeError) and cannot compare other types with 0; id has no setter *)
Definition check_set (k : text) (v : value) : res unit :=
  if text_eqb k s_id then Crash AttributeError
  else if text_eqb k s_estimate || text_eqb k s_spent then
    match v with
    | VNone => Ok tt
    | _ => match num_of v with
           | Some x => match num_cmp x (0, 0%N) with Lt => Err | _ => Ok tt end
           | None => Crash TypeError
           end
    end
  else Ok tt.

Definition own_name (k : text) : bool := match k with 95%N :: _ => true | _ => false end.  (* '_...' *)

Definition update_obj (o : nat) (g : task -> task) (st : list task) : list task :=
  map (fun t => if Nat.eqb (t_obj t) o then g t else t) st.

(* _ImmutableTaskList.__setattr__: names starting with '_' belong to the list object itself;
   otherwise the attribute is set on every task of the list, one after the other.
   [st] = all tasks of the universe, [sel] = the tasks of the list. *)
Definition assign (k : text) (v : value) (sel st : list task) : res (list task) :=
  if own_name k then Ok st
  else match sel with
       | [] => Ok st
       | _ => do _ <- check_set k v;
              Ok (fold_left (fun s t => update_obj (t_obj t) (set_attr k v) s) sel st)
       end.

(* ---------- trees: WBS and remove_all --------------------------------------------------------- *)
Record tdata := { d_obj : nat; d_id : value; d_attrs : list (text * value) }.
Inductive tree := Node (d : tdata) (ch : list tree).
Definition forest := list tree.

Definition root_data (t : tree) : tdata := match t with Node d _ => d end.
Definition kids (t : tree) : forest := match t with Node _ ch => ch end.
Definition has_obj (o : nat) (t : tree) : bool := Nat.eqb (d_obj (root_data t)) o.

Definition mk_task (par : option value) (d : tdata) : task :=
  {| t_obj := d_obj d; t_id := d_id d; t_parent := par; t_attrs := d_attrs d |}.

(* all_children: preorder *)
Fixpoint flat (par : option value) (t : tree) : list task :=
  match t with Node d ch => mk_task par d :: flat_map (flat (Some (d_id d))) ch end.
Definition flat_forest (par : option value) (f : forest) : list task := flat_map (flat par) f.

(* the tasks of one children list *)
Definition level (par : option value) (f : forest) : list task := map (fun t => mk_task par (root_data t)) f.

(* _ChildrenList.remove(task): by identity; parent.children = [others] *)
Definition remove_child (o : nat) (ch : forest) : forest * bool :=
  if existsb (has_obj o) ch then (filter (fun c => negb (has_obj o c)) ch, true) else (ch, false).

(* for ch in current.children: if self.__remove(task, ch): return True *)
Definition first_hit (rec : tree -> tree * bool) : forest -> forest * bool :=
  fix go (l : forest) : forest * bool :=
    match l with
    | [] => ([], false)
    | c :: r => let (c', hit) := rec c in
                if hit then (c' :: r, true) else let (r', hit') := go r in (c :: r', hit')
    end.

(* WBS.__remove(task, current) on the children of current *)
Definition remove_level (rec : tree -> tree * bool) (o : nat) (ch : forest) : forest * bool :=
  let (ch', hit) := remove_child o ch in if hit then (ch', true) else first_hit rec ch.

Fixpoint remove_under (o : nat) (t : tree) : tree * bool :=
  match t with Node d ch => let (ch', hit) := remove_level (remove_under o) o ch in (Node d ch', hit) end.

Definition wbs_remove (o : nat) (f : forest) : forest := fst (remove_level (remove_under o) o f).

Section RemoveAll.
Variable re_search : text -> text -> bool.

(* WBS.remove_all(key, **kw): the roots of the WBS have no public parent *)
Definition wbs_remove_all (k : key) (fs : list (text * pyarg)) (f : forest) : res (forest * list task) :=
  do sel <- query re_search get_attr k fs (flat_forest None f);
  Ok (fold_left (fun g t => wbs_remove (t_obj t) g) sel f, sel).

(* _TaskList.remove_all on a children list (t.children / wbs.roots) *)
Definition list_remove_all (k : key) (fs : list (text * pyarg)) (par : option value) (ch : forest)
  : res (forest * list task) :=
  do sel <- query re_search get_attr k fs (level par ch);
  Ok (fold_left (fun g t => fst (remove_child (t_obj t) g)) sel ch, sel).

End RemoveAll.
