(* C18 - the keywords of one call are a conjunction of independent tests: each keyword is judged by itself
   (whatever the other keywords of the call are, the same attribute included), their order and
   repetitions do not matter for what a returning call selects. *)
From PJ Require Import Base.Prelude Query.Query Query.QueryProofs.
From Coq Require Import List Bool Permutation.
Import ListNotations.

Section Conj.
Variable re_search : text -> text -> bool.
Variable ga : task -> text -> value.
Notation holds := (holds re_search ga).
Notation query := (query re_search ga).
Notation sat := (sat re_search ga).

Lemma okb_true (r : res bool) : okb r = true <-> r = Ok true.
Proof. destruct r as [b| |c]; simpl; split; intro H; try discriminate; [subst; reflexivity|inversion H; reflexivity]. Qed.

(* a task is selected iff the key accepts it and EVERY keyword, taken alone, holds for it *)
Theorem sat_each : forall k fs t,
  sat k fs t = true <-> key_ok k t = true /\ forall f, In f fs -> holds t f = Ok true.
Proof.
  intros k fs t. unfold sat. rewrite andb_true_iff, forallb_forall. split; intros [Hk Hf]; split; auto; intros f Hin.
  - apply okb_true, Hf, Hin.
  - apply okb_true, Hf, Hin.
Qed.

(* two keywords in one call select what each of them selects alone (intersection) *)
Theorem sat_app : forall k fs gs t, sat k (fs ++ gs) t = sat k fs t && sat k gs t.
Proof.
  intros k fs gs t. unfold sat. rewrite forallb_app.
  destruct (key_ok k t); simpl; [reflexivity|reflexivity].
Qed.

(* the order in which the keywords are written does not matter for what is selected *)
Theorem sat_perm : forall k fs gs t, Permutation fs gs -> sat k fs t = sat k gs t.
Proof.
  intros k fs gs t P. unfold sat. f_equal.
  induction P as [|x l l' _ IH|x y l|l l' l'' _ IH1 _ IH2]; simpl.
  - reflexivity.
  - rewrite IH. reflexivity.
  - destruct (okb (holds t x)), (okb (holds t y)); reflexivity.
  - rewrite IH1. exact IH2.
Qed.

Theorem query_perm : forall k fs gs l r r', Permutation fs gs ->
  query k fs l = Ok r -> query k gs l = Ok r' -> r = r'.
Proof.
  intros k fs gs l r r' P H H'.
  rewrite (query_select re_search ga _ _ _ _ H), (query_select re_search ga _ _ _ _ H').
  apply filter_ext. intro t. apply sat_perm, P.
Qed.

(* a call with the keywords fs ++ gs returns the tasks that the call with fs and the call with gs both return *)
Theorem query_app : forall k fs gs l r, query k (fs ++ gs) l = Ok r ->
  r = filter (sat k gs) (filter (sat k fs) l).
Proof.
  intros k fs gs l r H. rewrite (query_select re_search ga _ _ _ _ H). clear H.
  induction l as [|t l IH]; simpl; [reflexivity|].
  rewrite sat_app. destruct (sat k fs t) eqn:E1; simpl.
  - destruct (sat k gs t); rewrite IH; reflexivity.
  - exact IH.
Qed.
End Conj.
