(* C18 - proofs about the query model (Query/Query.v). *)
From PJ Require Import Base.Prelude Query.Query gen.Consts.
From Coq Require Import NArith.
Open Scope Z_scope.

(* ================================================================================================ *)
(* The model's tables are the ones in the source (gen/Consts.v is extracted from pjplan/task.py on  *)
(* every run): same suffixes, same order of the elif tests, strip length = length of the suffix;    *)
(* same attribute names with a lookup of their own.                                                 *)
(* ================================================================================================ *)
Lemma suffix_table_is_the_source_chain :
  map (fun e => (fst e, length (fst e))) suffix_table = query_suffix_chain.
Proof. reflexivity. Qed.

Lemma special_attrs_are_the_source_ones :
  query_special_attrs = [s_parent_id; s_id; s_estimate; s_spent].
Proof. reflexivity. Qed.

(* ================================================================================================ *)
(* text equality                                                                                    *)
(* ================================================================================================ *)
Lemma text_eqb_eq a b : text_eqb a b = true <-> a = b.
Proof. apply list_eqb_spec. intros x y. apply N.eqb_eq. Qed.

Lemma text_eqb_refl a : text_eqb a a = true.
Proof. apply text_eqb_eq. reflexivity. Qed.

Lemma text_eqb_neq a b : a <> b -> text_eqb a b = false.
Proof. intro H. destruct (text_eqb a b) eqn:E; [apply text_eqb_eq in E; contradiction | reflexivity]. Qed.

(* ================================================================================================ *)
(* prefix / suffix / substring                                                                      *)
(* ================================================================================================ *)
Lemma prefixb_spec p s : prefixb p s = true <-> exists r, s = p ++ r.
Proof.
  revert s. induction p as [|x p IH]; intros s; simpl.
  - split; [intros _; exists s; reflexivity | reflexivity].
  - destruct s as [|y s].
    + split; [discriminate | intros [r Hr]; discriminate].
    + rewrite andb_true_iff, N.eqb_eq, IH. split.
      * intros [-> [r ->]]. exists r. reflexivity.
      * intros [r Hr]. inversion Hr; subst. split; [reflexivity | exists r; reflexivity].
Qed.

Lemma substr_spec p s : substr p s = true <-> exists a b, s = a ++ p ++ b.
Proof.
  induction s as [|y s IH]; simpl.
  - rewrite orb_false_r, prefixb_spec. split.
    + intros [r Hr]. exists [], r. exact Hr.
    + intros [a [b H]]. destruct a; [exists b; exact H | discriminate].
  - rewrite orb_true_iff, prefixb_spec, IH. split.
    + intros [[r Hr] | [a [b H]]].
      * exists [], r. exact Hr.
      * exists (y :: a), b. simpl. rewrite H. reflexivity.
    + intros [a [b H]]. destruct a as [|x a].
      * left. exists b. exact H.
      * right. simpl in H. inversion H; subst. exists a, b. reflexivity.
Qed.

Lemma ends_with_spec k s : ends_with k s = true <-> exists b, k = b ++ s.
Proof.
  unfold ends_with. rewrite prefixb_spec. split.
  - intros [r Hr]. exists (rev r). rewrite <- (rev_involutive k), Hr, rev_app_distr, rev_involutive. reflexivity.
  - intros [b ->]. exists (rev b). apply rev_app_distr.
Qed.

Lemma strip_app b s : strip (b ++ s) (length s) = b.
Proof.
  unfold strip. rewrite app_length, Nat.add_sub, firstn_app, Nat.sub_diag, firstn_all. simpl. apply app_nil_r.
Qed.

(* ================================================================================================ *)
(* the keyword parser                                                                               *)
(* ================================================================================================ *)
Definition s_not : text := [95; 110; 111; 116]%N.      (* "_not" *)

Lemma parse_with_hit pre s kd post b :
  forallb (fun e => negb (ends_with (b ++ s) (fst e))) pre = true ->
  parse_with (pre ++ (s, kd) :: post) (b ++ s) = (b, kd).
Proof.
  induction pre as [|[s' kd'] pre IH]; simpl; intro H.
  - assert (E : ends_with (b ++ s) s = true) by (apply ends_with_spec; exists b; reflexivity).
    rewrite E, strip_app. reflexivity.
  - apply andb_true_iff in H as [H1 H2]. apply negb_true_iff in H1. rewrite H1. apply IH, H2.
Qed.

(* [ends_with (b ++ s) s'] for a concrete s and s': computes to false, or to a test on b alone *)
Ltac suffix_clash :=
  unfold ends_with; rewrite rev_app_distr; cbn [rev app prefixb N.eqb Pos.eqb andb negb].

Lemma parse_with_nth tbl n s kd b :
  nth_error tbl n = Some (s, kd) ->
  forallb (fun e => negb (ends_with (b ++ s) (fst e))) (firstn n tbl) = true ->
  parse_with tbl (b ++ s) = (b, kd).
Proof.
  intros Hn Hpre. rewrite <- (firstn_skipn n tbl).
  assert (Hs : skipn n tbl = (s, kd) :: skipn (S n) tbl).
  { clear Hpre. revert tbl Hn. induction n as [|n IH]; intros [|e tbl] Hn; simpl in *; try discriminate.
    - inversion Hn. reflexivity.
    - apply IH, Hn. }
  rewrite Hs. apply parse_with_hit, Hpre.
Qed.

(* C18_suffix: every one of the eleven suffixed forms is recognised with its own meaning and the
   base name is returned intact.  The only keywords read differently from how they were composed
   are those whose base name ends in "_not" combined with _in_ / _like_ (x_not + _in_ = x + _not_in_):
   that is a limit of the naming convention itself, hence the hypothesis. *)
Theorem parse_suffix : forall b s kd,
  In (s, kd) suffix_table ->
  (kd = KIn \/ kd = KLike -> ends_with b s_not = false) ->
  parse (b ++ s) = (b, kd).
Proof.
  intros b s kd Hin Hnot. unfold parse.
  assert (Hn : kd = KIn \/ kd = KLike -> prefixb [116; 111; 110; 95]%N (rev b) = false) by exact Hnot.
  clear Hnot.
  Local Ltac suffix_case i Hn :=
    apply (parse_with_nth _ i); [reflexivity |];
    cbn [firstn suffix_table forallb fst];
    repeat (apply andb_true_intro; split); try reflexivity;
    apply negb_true_iff; suffix_clash; try reflexivity; apply Hn; auto.
  unfold suffix_table in Hin. simpl in Hin.
  destruct Hin as [H|[H|[H|[H|[H|[H|[H|[H|[H|[H|[H|[]]]]]]]]]]]]; inversion H; subst s kd; clear H.
  - suffix_case 0%nat Hn.
  - suffix_case 1%nat Hn.
  - suffix_case 2%nat Hn.
  - suffix_case 3%nat Hn.
  - suffix_case 4%nat Hn.
  - suffix_case 5%nat Hn.
  - suffix_case 6%nat Hn.
  - suffix_case 7%nat Hn.
  - suffix_case 8%nat Hn.
  - suffix_case 9%nat Hn.
  - suffix_case 10%nat Hn.
Qed.

(* a keyword that ends in none of the suffixes is a plain equality test on that very name *)
Theorem parse_plain : forall k,
  (forall s kd, In (s, kd) suffix_table -> ends_with k s = false) -> parse k = (k, KEq).
Proof.
  intros k H. unfold parse. induction suffix_table as [|[s kd] tbl IH]; simpl.
  - reflexivity.
  - rewrite (H s kd (or_introl eq_refl)). apply IH. intros s' kd' Hin. apply (H s' kd'). right. exact Hin.
Qed.

(* whatever the parser answers, the keyword was base ++ the suffix of the answered kind *)
Theorem parse_sound : forall k b kd,
  parse k = (b, kd) ->
  (kd = KEq /\ b = k /\ forall s kd', In (s, kd') suffix_table -> ends_with k s = false)
  \/ (exists s, In (s, kd) suffix_table /\ k = b ++ s).
Proof.
  intros k b kd. unfold parse. induction suffix_table as [|[s kd'] tbl IH]; simpl; intro H.
  - inversion H; subst. left. repeat split. intros s kd' [].
  - destruct (ends_with k s) eqn:E.
    + inversion H; subst. right. exists s. split; [left; reflexivity |].
      apply ends_with_spec in E as [b' ->]. rewrite strip_app. reflexivity.
    + destruct (IH H) as [[-> [-> Hno]] | [s' [Hin ->]]].
      * left. repeat split. intros s0 kd0 [Heq | Hin]; [inversion Heq; subst; exact E | apply (Hno s0 kd0 Hin)].
      * right. exists s'. split; [right; exact Hin | reflexivity].
Qed.

(* the kinds are in one-to-one correspondence with the suffixes *)
Lemma suffix_kinds_distinct : NoDup (map snd suffix_table) /\ NoDup (map fst suffix_table).
Proof.
  split.
  - repeat constructor; simpl; intuition discriminate.
  - repeat constructor; simpl; intuition discriminate.
Qed.

(* ================================================================================================ *)
(* queries                                                                                          *)
(* ================================================================================================ *)
Definition okb (r : res bool) : bool := match r with Ok b => b | _ => false end.

Section Q.
Variable re_search : text -> text -> bool.
Variable ga : task -> text -> value.
Notation holds := (holds re_search ga).
Notation search := (search re_search ga).
Notation matches := (matches re_search ga).
Notation select := (select re_search ga).
Notation query := (query re_search ga).

(* the declarative meaning of a call: the callable key (if any) and every keyword filter hold *)
Definition key_ok (k : key) (t : task) : bool := match k with KeyFun p => p t | _ => true end.
Definition sat (k : key) (fs : list (text * pyarg)) (t : task) : bool :=
  key_ok k t && forallb (fun f => okb (holds t f)) fs.

Lemma search_ok t fs b : search t fs = Ok b -> b = forallb (fun f => okb (holds t f)) fs.
Proof.
  revert b. induction fs as [|f fs IH]; simpl; intros b H.
  - inversion H. reflexivity.
  - destruct (holds t f) as [x| |c] eqn:E; simpl in H; try discriminate.
    destruct x; simpl.
    + apply IH, H.
    + inversion H. reflexivity.
Qed.

Lemma matches_ok k fs t b : matches k fs t = Ok b -> b = sat k fs t.
Proof.
  unfold matches, sat. destruct k as [|p|]; simpl; intro H.
  - apply search_ok, H.
  - destruct (p t); simpl; [apply search_ok, H | inversion H; reflexivity].
  - apply search_ok, H.
Qed.

Lemma select_ok k fs l r : select k fs l = Ok r -> r = filter (sat k fs) l.
Proof.
  revert r. induction l as [|t l IH]; simpl; intros r H.
  - inversion H. reflexivity.
  - destruct (matches k fs t) as [b| |c] eqn:E; simpl in H; try discriminate.
    destruct (select k fs l) as [r'| |c] eqn:E'; simpl in H; try discriminate.
    inversion H; subst. rewrite <- (matches_ok _ _ _ _ E), (IH r' eq_refl). reflexivity.
Qed.

(* C18_select: whenever the call returns, it returns exactly the tasks of the list for which the
   key and every filter hold, in list order (the list and the tasks are values: nothing changes) *)
Theorem query_select : forall k fs l r, query k fs l = Ok r -> r = filter (sat k fs) l.
Proof. intros k fs l r H. destruct k; try discriminate; apply select_ok, H. Qed.

Lemma search_total t fs :
  (forall f, In f fs -> exists b, holds t f = Ok b) -> search t fs = Ok (forallb (fun f => okb (holds t f)) fs).
Proof.
  induction fs as [|f fs IH]; simpl; intro H.
  - reflexivity.
  - destruct (H f (or_introl eq_refl)) as [b Hb]. rewrite Hb. simpl. destruct b; simpl.
    + apply IH. intros g Hg. apply H. right. exact Hg.
    + reflexivity.
Qed.

(* ... and it does return whenever no filter compares unrelated types on a task of the list *)
Theorem query_total : forall k fs l,
  k <> KeyBad ->
  (forall t f, In t l -> In f fs -> exists b, holds t f = Ok b) ->
  query k fs l = Ok (filter (sat k fs) l).
Proof.
  intros k fs l Hk H.
  assert (S : select k fs l = Ok (filter (sat k fs) l)).
  { induction l as [|t l IH]; simpl.
    - reflexivity.
    - assert (M : matches k fs t = Ok (sat k fs t)).
      { unfold matches, sat. pose proof (search_total t fs (fun f Hf => H t f (or_introl eq_refl) Hf)) as St.
        destruct k as [|p|]; simpl; try exact St. destruct (p t); simpl; [exact St | reflexivity]. }
      rewrite M. simpl. rewrite IH; [reflexivity |]. intros t' f Ht Hf. apply H; [right; exact Ht | exact Hf]. }
  destruct k; try contradiction; exact S.
Qed.

(* the only exceptions: RuntimeError for a key that is not callable; TypeError when some filter
   compares unrelated types (or matches a pattern against a non-string) on a task of the list *)
Lemma holds_kind_crash kd val a c : holds_kind re_search kd val a = Crash c -> c = TypeError.
Proof.
  unfold holds_kind, ordered, like, member.
  destruct kd; repeat (match goal with
                       | |- context [match ?x with _ => _ end] => destruct x; simpl
                       | |- context [if ?x then _ else _] => destruct x; simpl
                       end); intro H; inversion H; reflexivity.
Qed.

Lemma holds_kind_not_err kd val a : holds_kind re_search kd val a <> Err.
Proof.
  unfold holds_kind, ordered, like, member.
  destruct kd; repeat (match goal with
                       | |- context [match ?x with _ => _ end] => destruct x; simpl
                       | |- context [if ?x then _ else _] => destruct x; simpl
                       end); discriminate.
Qed.

Lemma holds_crash t f c : holds t f = Crash c -> c = TypeError.
Proof. unfold Query.holds. destruct (parse (fst f)) as [base kd]. apply holds_kind_crash. Qed.

Lemma holds_not_err t f : holds t f <> Err.
Proof. unfold Query.holds. destruct (parse (fst f)) as [base kd]. apply holds_kind_not_err. Qed.

Lemma search_fail t fs :
  (search t fs = Err -> False) /\
  (forall c, search t fs = Crash c -> c = TypeError /\ exists f, In f fs /\ holds t f = Crash TypeError).
Proof.
  induction fs as [|f fs [IH1 IH2]]; simpl.
  - split; [discriminate | intros c H; discriminate].
  - destruct (holds t f) as [b| |c] eqn:E; simpl.
    + destruct b.
      * split; [exact IH1 |]. intros c H. destruct (IH2 c H) as [-> [g [Hg1 Hg2]]].
        split; [reflexivity | exists g; split; [right; exact Hg1 | exact Hg2]].
      * split; [discriminate | intros c H; discriminate].
    + exfalso. exact (holds_not_err _ _ E).
    + split; [discriminate |]. intros c' H. inversion H; subst c'.
      pose proof (holds_crash _ _ _ E) as ->.
      split; [reflexivity |]. exists f. split; [left; reflexivity | exact E].
Qed.

Theorem query_raises : forall k fs l,
  (query k fs l = Err <-> k = KeyBad) /\
  (forall c, query k fs l = Crash c ->
     c = TypeError /\ exists t f, In t l /\ In f fs /\ holds t f = Crash TypeError).
Proof.
  intros k fs l.
  assert (S : (select k fs l = Err -> False) /\
              (forall c, select k fs l = Crash c ->
                 c = TypeError /\ exists t f, In t l /\ In f fs /\ holds t f = Crash TypeError)).
  { induction l as [|t l [IH1 IH2]]; simpl.
    - split; [discriminate | intros c H; discriminate].
    - assert (M : (matches k fs t = Err -> False) /\
                  (forall c, matches k fs t = Crash c -> c = TypeError /\ exists f, In f fs /\ holds t f = Crash TypeError)).
      { unfold matches. pose proof (search_fail t fs) as Sf.
        destruct k as [|p|]; try exact Sf. destruct (p t); [exact Sf |]. split; [discriminate | intros c H; discriminate]. }
      destruct M as [M1 M2].
      destruct (matches k fs t) as [b| |c] eqn:E; simpl.
      + destruct (select k fs l) as [r'| |c] eqn:E'; simpl.
        * split; [discriminate | intros c H; discriminate].
        * exfalso. exact (IH1 eq_refl).
        * split; [discriminate |]. intros c' H. inversion H; subst c'.
          destruct (IH2 c eq_refl) as [-> [t' [f [Ht [Hf Hh]]]]].
          split; [reflexivity | exists t', f; repeat split; [right; exact Ht | exact Hf | exact Hh]].
      + exfalso. exact (M1 eq_refl).
      + split; [discriminate |]. intros c' H. inversion H; subst c'.
        destruct (M2 c eq_refl) as [-> [f [Hf Hh]]].
        split; [reflexivity | exists t, f; repeat split; [left; reflexivity | exact Hf | exact Hh]]. }
  destruct S as [S1 S2].
  destruct k as [|p|]; simpl.
  - split; [split; [intro H; exfalso; exact (S1 H) | discriminate] | exact S2].
  - split; [split; [intro H; exfalso; exact (S1 H) | discriminate] | exact S2].
  - split; [split; reflexivity | intros c H; discriminate].
Qed.

(* C18_callable: a callable key alone is applied as a predicate *)
Theorem query_callable : forall p l, query (KeyFun p) [] l = Ok (filter p l).
Proof.
  intros p l. rewrite (query_total (KeyFun p) [] l); [| discriminate | intros t f _ []].
  f_equal. apply filter_ext. intro t. unfold sat. simpl. apply andb_true_r.
Qed.

(* selected tasks are tasks of the list; a task of the list is selected iff it satisfies everything *)
Theorem query_members : forall k fs l r t, query k fs l = Ok r -> (In t r <-> In t l /\ sat k fs t = true).
Proof. intros k fs l r t H. rewrite (query_select _ _ _ _ H). apply filter_In. Qed.

End Q.

(* ================================================================================================ *)
(* what each form means                                                                             *)
(* ================================================================================================ *)
Section Meaning.
Variable re_search : text -> text -> bool.
Variable ga : task -> text -> value.
Notation holds := (holds re_search ga).

Lemma holds_parsed t k a base kd :
  parse k = (base, kd) -> holds t (k, a) = holds_kind re_search kd (ga t base) a.
Proof. intro P. unfold Query.holds. simpl. rewrite P. reflexivity. Qed.

(* plain keyword: equality (None included: name=None selects the tasks without a name) *)
Theorem means_eq : forall t k v base, parse k = (base, KEq) -> holds t (k, AVal v) = Ok (py_eq (ga t base) v).
Proof. intros. rewrite (holds_parsed _ _ _ _ _ H). reflexivity. Qed.

(* _in_ / _not_in_: membership / absence, None is compared like any value *)
Theorem means_in : forall t k vs base, parse k = (base, KIn) ->
  holds t (k, AList vs) = Ok (existsb (py_eq (ga t base)) vs).
Proof. intros. rewrite (holds_parsed _ _ _ _ _ H). reflexivity. Qed.

Theorem means_not_in : forall t k vs base, parse k = (base, KNotIn) ->
  holds t (k, AList vs) = Ok (negb (existsb (py_eq (ga t base)) vs)).
Proof. intros. rewrite (holds_parsed _ _ _ _ _ H). reflexivity. Qed.

Theorem means_is_none : forall t k a base, parse k = (base, KIsNone) -> holds t (k, a) = Ok (is_none (ga t base)).
Proof. intros. rewrite (holds_parsed _ _ _ _ _ H). reflexivity. Qed.

Theorem means_is_not_none : forall t k a base, parse k = (base, KIsNotNone) ->
  holds t (k, a) = Ok (negb (is_none (ga t base))).
Proof. intros. rewrite (holds_parsed _ _ _ _ _ H). reflexivity. Qed.

Theorem means_ne : forall t k v base, parse k = (base, KNe) ->
  holds t (k, AVal v) = Ok (negb (is_none (ga t base)) && negb (py_eq (ga t base) v)).
Proof. intros. rewrite (holds_parsed _ _ _ _ _ H). simpl. destruct (is_none (ga t base)); reflexivity. Qed.

Definition test_of (kd : kind) (c : comparison) : bool :=
  match kd with KLt => is_lt c | KLe => is_le c | KGt => is_gt c | KGe => is_ge c | _ => false end.

(* _lt_ _le_ _gt_ _ge_: the comparison of the attribute with the value, for comparable values *)
Theorem means_order : forall t k v base kd c,
  parse k = (base, kd) -> kd = KLt \/ kd = KLe \/ kd = KGt \/ kd = KGe ->
  ga t base <> VNone -> py_cmp (ga t base) v = Some c ->
  holds t (k, AVal v) = Ok (test_of kd c).
Proof.
  intros t k v base kd c P K Hn Hc. rewrite (holds_parsed _ _ _ _ _ P).
  assert (N : is_none (ga t base) = false) by (destruct (ga t base); try reflexivity; contradiction).
  destruct K as [->|[->|[->| ->]]]; simpl; unfold ordered; rewrite N; simpl; rewrite Hc; reflexivity.
Qed.

(* _like_ / _not_like_: regular-expression search in a string attribute *)
Theorem means_like : forall t k p s base, parse k = (base, KLike) -> ga t base = VStr s ->
  holds t (k, AVal (VStr p)) = Ok (re_search p s).
Proof. intros t k p s base P E. rewrite (holds_parsed _ _ _ _ _ P), E. reflexivity. Qed.

Theorem means_not_like : forall t k p s base, parse k = (base, KNotLike) -> ga t base = VStr s ->
  holds t (k, AVal (VStr p)) = Ok (negb (re_search p s)).
Proof. intros t k p s base P E. rewrite (holds_parsed _ _ _ _ _ P), E. reflexivity. Qed.

(* C18_absent: a task for which the attribute is None or missing passes no comparison and no
   pattern filter, whatever the value given with the keyword (no exception either) *)
Definition compares (kd : kind) : bool :=
  match kd with KNe | KLt | KLe | KGt | KGe | KLike | KNotLike => true | _ => false end.

Theorem absent_never_satisfies : forall t k a base kd,
  parse k = (base, kd) -> compares kd = true -> ga t base = VNone -> holds t (k, a) = Ok false.
Proof.
  intros t k a base kd P C E. rewrite (holds_parsed _ _ _ _ _ P), E.
  destruct kd; try discriminate; reflexivity.
Qed.

End Meaning.

(* a task lacking the attribute shows None to the filters *)
Theorem lacking_is_none : forall t k,
  k <> s_parent_id -> k <> s_id -> assoc k (t_attrs t) = None -> get_attr t k = VNone.
Proof.
  intros t k H1 H2 H. unfold get_attr. rewrite (text_eqb_neq _ _ H1), (text_eqb_neq _ _ H2), H. reflexivity.
Qed.

(* every attribute that is there is seen by the filters with its value - estimate and spent too *)
Theorem present_is_seen : forall t k v,
  k <> s_parent_id -> k <> s_id -> assoc k (t_attrs t) = Some v -> get_attr t k = v.
Proof.
  intros t k v H1 H2 H. unfold get_attr. rewrite (text_eqb_neq _ _ H1), (text_eqb_neq _ _ H2), H. reflexivity.
Qed.

(* ================================================================================================ *)
(* the unrepaired code violates the statement (witnesses replayed on the implementation: corpus)    *)
(* ================================================================================================ *)
Definition w_task : task :=
  {| t_obj := 0; t_id := VInt 1; t_parent := None;
     t_attrs := [(s_estimate, VInt 8); ([110; 97; 109; 101]%N, VStr [97]%N)] |}.

(* F21: tasks(estimate=8) is empty although the task's estimate is 8 *)
Theorem old_lookup_refuted :
  exists re l fs r, query re get_attr_old KeyNone fs l = Ok r /\ r <> filter (sat re get_attr KeyNone fs) l.
Proof.
  exists substr, [w_task], [(s_estimate, AVal (VInt 8))], []. split; [reflexivity |]. vm_compute. discriminate.
Qed.

(* a callable key switched the keyword filters off: tasks(lambda t: True, name='b') returned a task named 'a' *)
Theorem old_callable_refuted :
  exists re l k fs r, query_old re get_attr k fs l = Ok r /\ r <> filter (sat re get_attr k fs) l.
Proof.
  exists substr, [w_task], (KeyFun (fun _ => true)), [([110; 97; 109; 101]%N, AVal (VStr [98]%N))], [w_task].
  split; [reflexivity |]. vm_compute. discriminate.
Qed.

(* ================================================================================================ *)
(* bulk assignment                                                                                  *)
(* ================================================================================================ *)
Lemma assoc_set_lookup k v l k' :
  assoc k' (assoc_set k v l) = if text_eqb k' k then Some v else assoc k' l.
Proof.
  induction l as [|[k0 v0] l IH]; simpl.
  - destruct (text_eqb k' k); reflexivity.
  - destruct (text_eqb k k0) eqn:E; simpl.
    + apply text_eqb_eq in E. subst k0. destruct (text_eqb k' k); reflexivity.
    + destruct (text_eqb k' k0) eqn:E0.
      * apply text_eqb_eq in E0. subst k0.
        destruct (text_eqb k' k) eqn:E1; [| reflexivity].
        apply text_eqb_eq in E1. subst k'. rewrite text_eqb_refl in E. discriminate.
      * exact IH.
Qed.

Lemma assoc_set_idem k v l : assoc_set k v (assoc_set k v l) = assoc_set k v l.
Proof.
  induction l as [|[k0 v0] l IH]; simpl.
  - rewrite text_eqb_refl. reflexivity.
  - destruct (text_eqb k k0) eqn:E; simpl.
    + rewrite text_eqb_refl. reflexivity.
    + rewrite E, IH. reflexivity.
Qed.

Lemma set_attr_idem k v t : set_attr k v (set_attr k v t) = set_attr k v t.
Proof. unfold set_attr. simpl. rewrite assoc_set_idem. reflexivity. Qed.

Definition in_sel (sel : list task) (t : task) : bool := existsb (fun s => Nat.eqb (t_obj s) (t_obj t)) sel.

Lemma assign_fold k v sel st :
  fold_left (fun s t => update_obj (t_obj t) (set_attr k v) s) sel st
  = map (fun t => if in_sel sel t then set_attr k v t else t) st.
Proof.
  revert st. induction sel as [|a sel IH]; intro st; simpl.
  - symmetry. apply map_id.
  - rewrite IH. unfold update_obj. rewrite map_map. apply map_ext. intro t.
    unfold in_sel. simpl. rewrite (Nat.eqb_sym (t_obj a) (t_obj t)).
    destruct (Nat.eqb (t_obj t) (t_obj a)) eqn:E; simpl.
    + change (t_obj (set_attr k v t)) with (t_obj t).
      destruct (existsb _ sel); [apply set_attr_idem | reflexivity].
    + reflexivity.
Qed.

(* C18_bulk: an accepted assignment of a task attribute rewrites exactly the tasks of the list
   (recognised by identity) with [set_attr], every other task of the universe is left as it was *)
Theorem assign_exact : forall k v sel st st',
  own_name k = false -> assign k v sel st = Ok st' ->
  st' = map (fun t => if in_sel sel t then set_attr k v t else t) st.
Proof.
  intros k v sel st st' Hk H. unfold assign in H. rewrite Hk in H.
  destruct sel as [|a sel].
  - inversion H. simpl. symmetry. apply map_id.
  - destruct (check_set k v); simpl in H; try discriminate. inversion H.
    apply (assign_fold k v (a :: sel) st).
Qed.

(* ... and [set_attr] changes the one attribute and nothing else of a task *)
Theorem set_attr_exact : forall k v t,
  t_obj (set_attr k v t) = t_obj t /\ t_id (set_attr k v t) = t_id t /\ t_parent (set_attr k v t) = t_parent t /\
  forall k', assoc k' (t_attrs (set_attr k v t)) = if text_eqb k' k then Some v else assoc k' (t_attrs t).
Proof. intros. repeat split. intro k'. apply assoc_set_lookup. Qed.

(* names starting with '_' are the list object's own: no task changes *)
Theorem assign_own : forall k v sel st, own_name k = true -> assign k v sel st = Ok st.
Proof. intros. unfold assign. rewrite H. reflexivity. Qed.

(* when the assignment is refused (negative estimate/spent: RuntimeError; id: AttributeError) it is
   refused before the first task is touched - [assign] returns no state at all then, and it is
   refused only for a non-empty list *)
Theorem assign_refused : forall k v sel st,
  own_name k = false -> sel <> [] -> (forall st', assign k v sel st <> Ok st') -> check_set k v <> Ok tt.
Proof.
  intros k v sel st Hk Hs H E. unfold assign in H. rewrite Hk in H. destruct sel; [contradiction |].
  rewrite E in H. simpl in H. eapply H. reflexivity.
Qed.

Theorem assign_accepts : forall k v sel st,
  check_set k v = Ok tt -> exists st', assign k v sel st = Ok st'.
Proof.
  intros k v sel st E. unfold assign. destruct (own_name k); [eexists; reflexivity |].
  destruct sel; [eexists; reflexivity |]. rewrite E. simpl. eexists. reflexivity.
Qed.

(* ================================================================================================ *)
(* remove_all                                                                                       *)
(* ================================================================================================ *)
Lemma nodup_app {A} (a b : list A) :
  NoDup (a ++ b) <-> NoDup a /\ NoDup b /\ (forall x, In x a -> ~ In x b).
Proof.
  induction a as [|x a IH]; simpl.
  - split; [intro H; repeat split; [constructor | exact H | intros x []] | intros [_ [H _]]; exact H].
  - split.
    + intro H. inversion H as [|? ? Hx Hn]; subst. apply IH in Hn as [Ha [Hb Hd]].
      repeat split.
      * constructor; [intro Hi; apply Hx, in_or_app; left; exact Hi | exact Ha].
      * exact Hb.
      * intros y [-> | Hy]; [intro Hi; apply Hx, in_or_app; right; exact Hi | apply Hd, Hy].
    + intros [Ha [Hb Hd]]. inversion Ha as [|? ? Hx Hn]; subst. constructor.
      * intro Hi. apply in_app_or in Hi as [Hi | Hi]; [contradiction | exact (Hd x (or_introl eq_refl) Hi)].
      * apply IH. repeat split; [exact Hn | exact Hb | intros y Hy; apply Hd; right; exact Hy].
Qed.

Lemma filter_all {A} (p : A -> bool) l : (forall x, In x l -> p x = true) -> filter p l = l.
Proof.
  induction l as [|x l IH]; simpl; intro H; [reflexivity |].
  rewrite (H x (or_introl eq_refl)), IH; [reflexivity | intros y Hy; apply H; right; exact Hy].
Qed.

Lemma filter_filter {A} (p q : A -> bool) l : filter p (filter q l) = filter (fun x => q x && p x) l.
Proof.
  induction l as [|x l IH]; simpl; [reflexivity |].
  destruct (q x); simpl; [destruct (p x); rewrite IH; reflexivity | exact IH].
Qed.

(* ---- list level -------------------------------------------------------------------------------- *)
Lemma remove_child_filter o ch : fst (remove_child o ch) = filter (fun c => negb (has_obj o c)) ch.
Proof.
  unfold remove_child. destruct (existsb (has_obj o) ch) eqn:E; simpl; [reflexivity |].
  symmetry. apply filter_all. intros c Hc. apply negb_true_iff.
  destruct (has_obj o c) eqn:Eo; [| reflexivity].
  assert (existsb (has_obj o) ch = true) by (apply existsb_exists; exists c; split; assumption). congruence.
Qed.

Definition obj_in (sel : list task) (o : nat) : bool := existsb (fun s => Nat.eqb (t_obj s) o) sel.

Lemma list_remove_fold sel ch :
  fold_left (fun g t => fst (remove_child (t_obj t) g)) sel ch
  = filter (fun c => negb (obj_in sel (d_obj (root_data c)))) ch.
Proof.
  revert ch. induction sel as [|a sel IH]; intro ch; simpl.
  - symmetry. apply filter_all. reflexivity.
  - rewrite IH, remove_child_filter, filter_filter. apply filter_ext. intro c.
    unfold has_obj, obj_in. simpl. rewrite (Nat.eqb_sym (t_obj a)).
    destruct (Nat.eqb (d_obj (root_data c)) (t_obj a)); reflexivity.
Qed.

Lemma same_obj_same_task (l : list task) a b :
  NoDup (map t_obj l) -> In a l -> In b l -> t_obj a = t_obj b -> a = b.
Proof.
  induction l as [|x l IH]; simpl; intros Hn Ha Hb E; [contradiction |].
  inversion Hn as [|? ? Hx Hn']; subst.
  destruct Ha as [-> | Ha], Hb as [-> | Hb].
  - reflexivity.
  - exfalso. apply Hx. rewrite E. apply in_map, Hb.
  - exfalso. apply Hx. rewrite <- E. apply in_map, Ha.
  - apply IH; assumption.
Qed.

(* membership of an object in a selection made from a duplicate-free list = the selecting predicate *)
Lemma obj_in_filter (m : task -> bool) (l : list task) t :
  NoDup (map t_obj l) -> In t l -> obj_in (filter m l) (t_obj t) = m t.
Proof.
  intros Hn Ht. unfold obj_in. destruct (m t) eqn:E.
  - apply existsb_exists. exists t. split; [apply filter_In; split; assumption | apply Nat.eqb_refl].
  - destruct (existsb _ (filter m l)) eqn:X; [| reflexivity].
    apply existsb_exists in X as [s [Hs Ho]]. apply filter_In in Hs as [Hs Hm]. apply Nat.eqb_eq in Ho.
    rewrite (same_obj_same_task l s t Hn Hs Ht Ho) in Hm. congruence.
Qed.

Section RemoveAllProofs.
Variable re_search : text -> text -> bool.
Notation sat := (sat re_search get_attr).

Lemma level_objs par ch : map t_obj (level par ch) = map (fun c => d_obj (root_data c)) ch.
Proof. unfold level. rewrite map_map. reflexivity. Qed.

(* C18_remove_all, list level (t.children.remove_all / wbs.roots.remove_all): the children that
   match leave (each with its whole subtree, which hangs below it), the others stay in order with
   their subtrees untouched, and the matching children are returned in list order *)
Theorem list_remove_all_exact : forall k fs par ch ch' ret,
  NoDup (map (fun c => d_obj (root_data c)) ch) ->
  list_remove_all re_search k fs par ch = Ok (ch', ret) ->
  ret = filter (sat k fs) (level par ch) /\
  ch' = filter (fun c => negb (sat k fs (mk_task par (root_data c)))) ch.
Proof.
  intros k fs par ch ch' ret Hn H. unfold list_remove_all in H.
  destruct (query re_search get_attr k fs (level par ch)) as [sel| |c] eqn:Q; simpl in H; try discriminate.
  inversion H; subst ret ch'; clear H.
  pose proof (query_select _ _ _ _ _ _ Q) as ->. split; [reflexivity |].
  rewrite list_remove_fold. apply filter_ext_in. intros c Hc. f_equal.
  change (d_obj (root_data c)) with (t_obj (mk_task par (root_data c))).
  apply obj_in_filter.
  - rewrite level_objs. exact Hn.
  - unfold level. apply (in_map (fun t => mk_task par (root_data t))), Hc.
Qed.

End RemoveAllProofs.

(* ---- WBS level: trees ---------------------------------------------------------------------------- *)
Fixpoint objs (t : tree) : list nat := match t with Node d ch => d_obj d :: flat_map objs ch end.
Definition fobjs (f : forest) : list nat := flat_map objs f.

Lemma tree_ind2 (P : tree -> Prop) : (forall d ch, Forall P ch -> P (Node d ch)) -> forall t, P t.
Proof.
  intro H. fix IH 1. intros [d ch]. apply H.
  induction ch as [|c ch IHch]; constructor; [apply IH | exact IHch].
Qed.

Lemma fm_app {A B} (f : A -> list B) a b : flat_map f (a ++ b) = flat_map f a ++ flat_map f b.
Proof. induction a as [|x a IH]; simpl; [reflexivity | rewrite IH, app_assoc; reflexivity]. Qed.

(* the specification: drop every node selected by a predicate, with everything below it *)
Fixpoint prune (m : task -> bool) (par : option value) (t : tree) : forest :=
  match t with
  | Node d ch => if m (mk_task par d) then [] else [Node d (flat_map (prune m (Some (d_id d))) ch)]
  end.

(* the same by object identity *)
Fixpoint prune_objs (P : nat -> bool) (t : tree) : forest :=
  match t with Node d ch => if P (d_obj d) then [] else [Node d (flat_map (prune_objs P) ch)] end.

Lemma flat_objs t : forall par, map t_obj (flat par t) = objs t.
Proof.
  induction t as [d ch IH] using tree_ind2. intro par. simpl. f_equal.
  induction IH as [|c ch Hc _ IHch]; simpl; [reflexivity |]. rewrite map_app, Hc, IHch. reflexivity.
Qed.

Lemma flat_forest_objs par f : map t_obj (flat_forest par f) = fobjs f.
Proof.
  unfold flat_forest, fobjs. induction f as [|t f IH]; simpl; [reflexivity |].
  rewrite map_app, flat_objs, IH. reflexivity.
Qed.

Lemma prune_objs_id P t : (forall o, In o (objs t) -> P o = false) -> prune_objs P t = [t].
Proof.
  induction t as [d ch IH] using tree_ind2. intro H. simpl.
  rewrite (H (d_obj d) (or_introl eq_refl)). do 2 f_equal.
  assert (Hch : forall o, In o (flat_map objs ch) -> P o = false) by (intros o Ho; apply H; right; exact Ho).
  clear H. induction IH as [|c ch Hc _ IHch]; simpl; [reflexivity |].
  rewrite Hc, IHch; [reflexivity | |]; intros o Ho; apply Hch; simpl; apply in_or_app; [right | left]; exact Ho.
Qed.

Lemma prune_forest_id P f : (forall o, In o (fobjs f) -> P o = false) -> flat_map (prune_objs P) f = f.
Proof.
  induction f as [|t f IH]; simpl; intro H; [reflexivity |].
  rewrite prune_objs_id, IH; [reflexivity | |]; intros o Ho; apply H; unfold fobjs; simpl; apply in_or_app;
    [right | left]; exact Ho.
Qed.

Lemma prune_objs_ext P Q t : (forall o, P o = Q o) -> prune_objs P t = prune_objs Q t.
Proof.
  intro E. induction t as [d ch IH] using tree_ind2. simpl. rewrite E. destruct (Q (d_obj d)); [reflexivity |].
  do 2 f_equal. induction IH as [|c ch Hc _ IHch]; simpl; [reflexivity | rewrite Hc, IHch; reflexivity].
Qed.

Lemma prune_forest_ext P Q f : (forall o, P o = Q o) -> flat_map (prune_objs P) f = flat_map (prune_objs Q) f.
Proof. intro E. induction f as [|t f IH]; simpl; [reflexivity | rewrite (prune_objs_ext P Q t E), IH; reflexivity]. Qed.

Lemma prune_objs_compose P Q t :
  flat_map (prune_objs P) (prune_objs Q t) = prune_objs (fun o => Q o || P o) t.
Proof.
  induction t as [d ch IH] using tree_ind2. simpl. destruct (Q (d_obj d)); simpl; [reflexivity |].
  rewrite app_nil_r. destruct (P (d_obj d)); [reflexivity |]. do 2 f_equal.
  induction IH as [|c ch Hc _ IHch]; simpl; [reflexivity |]. rewrite fm_app, Hc, IHch. reflexivity.
Qed.

Lemma prune_forest_compose P Q f :
  flat_map (prune_objs P) (flat_map (prune_objs Q) f) = flat_map (prune_objs (fun o => Q o || P o)) f.
Proof. induction f as [|t f IH]; simpl; [reflexivity | rewrite fm_app, prune_objs_compose, IH; reflexivity]. Qed.

Lemma prune_objs_keeps P t :
  (forall o, In o (fobjs (prune_objs P t)) -> In o (objs t)) /\
  (NoDup (objs t) -> NoDup (fobjs (prune_objs P t))).
Proof.
  induction t as [d ch IH] using tree_ind2.
  assert (F : (forall o, In o (fobjs (flat_map (prune_objs P) ch)) -> In o (fobjs ch)) /\
              (NoDup (fobjs ch) -> NoDup (fobjs (flat_map (prune_objs P) ch)))).
  { induction IH as [|c ch [Hc1 Hc2] _ [I1 I2]]; simpl.
    - split; [intros o [] | intros _; constructor].
    - unfold fobjs in *. simpl. rewrite fm_app. split.
      + intros o Ho. apply in_app_or in Ho as [Ho | Ho]; apply in_or_app; [left; apply Hc1, Ho | right; apply I1, Ho].
      + intro Hn. apply nodup_app in Hn as [Na [Nb Nd]]. apply nodup_app. repeat split.
        * apply Hc2, Na.
        * apply I2, Nb.
        * intros x Hx Hy. apply (Nd x); [apply Hc1, Hx | apply I1, Hy]. }
  destruct F as [F1 F2]. simpl. destruct (P (d_obj d)); simpl.
  - split; [intros o [] | intros _; constructor].
  - unfold fobjs. simpl. rewrite app_nil_r. split.
    + intros o [Ho | Ho]; [left; exact Ho | right; apply F1, Ho].
    + intro Hn. inversion Hn as [|? ? Hx Hn']; subst. constructor; [intro Hi; apply Hx, F1, Hi | apply F2, Hn'].
Qed.

Lemma prune_forest_nodup P f : NoDup (fobjs f) -> NoDup (fobjs (flat_map (prune_objs P) f)).
Proof.
  induction f as [|t f IH]; simpl; intro Hn; [constructor |].
  unfold fobjs in *. simpl in Hn. rewrite fm_app. apply nodup_app in Hn as [Na [Nb Nd]]. apply nodup_app. repeat split.
  - apply prune_objs_keeps, Na.
  - apply IH, Nb.
  - intros x Hx Hy. apply (Nd x); [apply (proj1 (prune_objs_keeps P t)), Hx |].
    clear - Hy. induction f as [|c f IHf]; simpl in *; [contradiction |]. rewrite fm_app in Hy.
    apply in_app_or in Hy as [Hy | Hy]; apply in_or_app;
      [left; apply (proj1 (prune_objs_keeps P c)), Hy | right; apply IHf, Hy].
Qed.

(* one WBS.__remove = pruning the one object, wherever it is *)
Definition is_obj (o : nat) : nat -> bool := fun x => Nat.eqb x o.

Lemma existsb_is_obj o l : existsb (is_obj o) l = true <-> In o l.
Proof.
  rewrite existsb_exists. unfold is_obj. split.
  - intros [x [Hx E]]. apply Nat.eqb_eq in E. subst. exact Hx.
  - intro H. exists o. split; [exact H | apply Nat.eqb_refl].
Qed.

Lemma existsb_is_obj_false o l : existsb (is_obj o) l = false <-> ~ In o l.
Proof.
  rewrite <- existsb_is_obj. destruct (existsb (is_obj o) l); split; intro H; try reflexivity; try discriminate.
  exfalso. apply H. reflexivity.
Qed.

Definition remove_under_ok (o : nat) (t : tree) : Prop :=
  NoDup (objs t) ->
  remove_under o t = (Node (root_data t) (flat_map (prune_objs (is_obj o)) (kids t)), existsb (is_obj o) (fobjs (kids t))).

Lemma root_in_objs c : In (d_obj (root_data c)) (objs c).
Proof. destruct c. left. reflexivity. Qed.

Lemma remove_child_spec o ch :
  NoDup (fobjs ch) -> existsb (has_obj o) ch = true ->
  filter (fun c => negb (has_obj o c)) ch = flat_map (prune_objs (is_obj o)) ch /\ In o (fobjs ch).
Proof.
  induction ch as [|c ch IH]; simpl; intros Hn Hex; [discriminate |].
  unfold fobjs in *. simpl in *. apply nodup_app in Hn as [Na [Nb Nd]].
  destruct (has_obj o c) eqn:Hc; simpl.
  - unfold has_obj in Hc. apply Nat.eqb_eq in Hc.
    assert (Ho : In o (objs c)) by (rewrite <- Hc; apply root_in_objs).
    assert (Hp : prune_objs (is_obj o) c = []).
    { destruct c as [d kids0]. simpl in *. unfold is_obj. rewrite Hc, Nat.eqb_refl. reflexivity. }
    rewrite Hp. simpl. split; [| apply in_or_app; left; exact Ho].
    rewrite (prune_forest_id (is_obj o) ch).
    + apply filter_all. intros c' Hc'. apply negb_true_iff. unfold has_obj.
      destruct (Nat.eqb (d_obj (root_data c')) o) eqn:E; [| reflexivity]. apply Nat.eqb_eq in E.
      exfalso. apply (Nd o Ho). apply in_flat_map. exists c'. split; [exact Hc' | rewrite <- E; apply root_in_objs].
    + intros x Hx. unfold is_obj. destruct (Nat.eqb x o) eqn:E; [| reflexivity]. apply Nat.eqb_eq in E. subst x.
      exfalso. exact (Nd o Ho Hx).
  - destruct (IH Nb Hex) as [IH1 IH2]. split; [| apply in_or_app; right; exact IH2].
    rewrite IH1, (prune_objs_id (is_obj o) c); [reflexivity |].
    intros x Hx. unfold is_obj. destruct (Nat.eqb x o) eqn:E; [| reflexivity]. apply Nat.eqb_eq in E. subst x.
    exfalso. exact (Nd o Hx IH2).
Qed.

Lemma first_hit_spec o ch :
  Forall (remove_under_ok o) ch -> NoDup (fobjs ch) -> existsb (has_obj o) ch = false ->
  first_hit (remove_under o) ch = (flat_map (prune_objs (is_obj o)) ch, existsb (is_obj o) (fobjs ch)).
Proof.
  intro F. induction F as [|c ch Hc _ IH]; simpl; intros Hn Hex; [reflexivity |].
  unfold fobjs in *. simpl in *. apply nodup_app in Hn as [Na [Nb Nd]].
  apply orb_false_iff in Hex as [Hc0 Hex].
  rewrite (Hc Na). unfold fobjs. rewrite existsb_app.
  assert (Hroot : is_obj o (d_obj (root_data c)) = false) by exact Hc0.
  assert (Hp : prune_objs (is_obj o) c = [Node (root_data c) (flat_map (prune_objs (is_obj o)) (kids c))]).
  { destruct c as [d kids0]. simpl in *. rewrite Hroot. reflexivity. }
  assert (Hobjs : existsb (is_obj o) (objs c) = existsb (is_obj o) (flat_map objs (kids c))).
  { destruct c as [d kids0]. simpl in *. rewrite Hroot. reflexivity. }
  rewrite Hp, Hobjs.
  destruct (existsb (is_obj o) (flat_map objs (kids c))) eqn:Hit; simpl.
  - f_equal. f_equal. symmetry. apply prune_forest_id.
    intros x Hx. unfold is_obj. destruct (Nat.eqb x o) eqn:E; [| reflexivity]. apply Nat.eqb_eq in E. subst x.
    exfalso. apply (Nd o); [| exact Hx]. apply existsb_is_obj in Hit. destruct c as [d kids0]. right. exact Hit.
  - rewrite (IH Nb Hex). f_equal. f_equal.
    destruct c as [d kids0]. simpl in *. f_equal. symmetry. apply prune_forest_id.
    intros x Hx. unfold is_obj. destruct (Nat.eqb x o) eqn:E; [| reflexivity]. apply Nat.eqb_eq in E. subst x.
    apply existsb_is_obj_false in Hit. contradiction.
Qed.

Lemma remove_level_spec o ch :
  Forall (remove_under_ok o) ch -> NoDup (fobjs ch) ->
  remove_level (remove_under o) o ch = (flat_map (prune_objs (is_obj o)) ch, existsb (is_obj o) (fobjs ch)).
Proof.
  intros F Hn. unfold remove_level, remove_child. destruct (existsb (has_obj o) ch) eqn:Hex.
  - destruct (remove_child_spec o ch Hn Hex) as [H1 H2]. rewrite H1.
    apply existsb_is_obj in H2. rewrite H2. reflexivity.
  - apply first_hit_spec; assumption.
Qed.

Lemma remove_under_spec o t : remove_under_ok o t.
Proof.
  induction t as [d ch IH] using tree_ind2. unfold remove_under_ok. intro Hn. simpl.
  inversion Hn as [|? ? _ Hn']; subst. fold (fobjs ch) in Hn'.
  rewrite (remove_level_spec o ch IH Hn'). reflexivity.
Qed.

Lemma wbs_remove_spec o f : NoDup (fobjs f) -> wbs_remove o f = flat_map (prune_objs (is_obj o)) f.
Proof.
  intro Hn. unfold wbs_remove. rewrite remove_level_spec; [reflexivity | | exact Hn].
  apply Forall_forall. intros t _. apply remove_under_spec.
Qed.

Lemma wbs_remove_fold sel f :
  NoDup (fobjs f) ->
  fold_left (fun g t => wbs_remove (t_obj t) g) sel f = flat_map (prune_objs (obj_in sel)) f.
Proof.
  revert f. induction sel as [|a sel IH]; intros f Hn; simpl.
  - symmetry. apply prune_forest_id. reflexivity.
  - rewrite (wbs_remove_spec _ _ Hn), IH by (apply prune_forest_nodup, Hn).
    rewrite prune_forest_compose. apply prune_forest_ext. intro o. unfold is_obj, obj_in. simpl.
    rewrite (Nat.eqb_sym o). reflexivity.
Qed.

Lemma prune_as_objs (m : task -> bool) P t : forall par,
  (forall x, In x (flat par t) -> m x = P (t_obj x)) -> prune m par t = prune_objs P t.
Proof.
  induction t as [d ch IH] using tree_ind2. intros par H. simpl.
  rewrite (H (mk_task par d)) by (left; reflexivity). simpl. destruct (P (d_obj d)); [reflexivity |].
  do 2 f_equal.
  assert (Hch : forall x, In x (flat_map (flat (Some (d_id d))) ch) -> m x = P (t_obj x))
    by (intros x Hx; apply H; right; exact Hx).
  clear H. induction IH as [|c ch Hc _ IHch]; simpl; [reflexivity |].
  rewrite Hc, IHch; [reflexivity | |]; intros x Hx; apply Hch; simpl; apply in_or_app; [right | left]; exact Hx.
Qed.

Lemma prune_forest_as_objs (m : task -> bool) P par f :
  (forall x, In x (flat_forest par f) -> m x = P (t_obj x)) ->
  flat_map (prune m par) f = flat_map (prune_objs P) f.
Proof.
  unfold flat_forest. induction f as [|t f IH]; simpl; intro H; [reflexivity |].
  rewrite (prune_as_objs m P t par), IH; [reflexivity | |]; intros x Hx; apply H; apply in_or_app; [right | left]; exact Hx.
Qed.

Section WbsRemoveAll.
Variable re_search : text -> text -> bool.
Notation sat := (sat re_search get_attr).

(* C18_remove_all, WBS level: the calls of WBS.__remove, one per matching task in order - also for
   a matching task that already left with a matching ancestor - amount to pruning exactly the
   matching tasks with their subtrees; the matching tasks are returned in WBS order *)
Theorem wbs_remove_all_exact : forall k fs f f' ret,
  NoDup (fobjs f) ->
  wbs_remove_all re_search k fs f = Ok (f', ret) ->
  ret = filter (sat k fs) (flat_forest None f) /\
  f' = flat_map (prune (sat k fs) None) f.
Proof.
  intros k fs f f' ret Hn H. unfold wbs_remove_all in H.
  destruct (query re_search get_attr k fs (flat_forest None f)) as [sel| |c] eqn:Q; simpl in H; try discriminate.
  inversion H; subst ret f'; clear H.
  pose proof (query_select _ _ _ _ _ _ Q) as ->. split; [reflexivity |].
  rewrite (wbs_remove_fold _ _ Hn). symmetry. apply prune_forest_as_objs.
  intros x Hx. symmetry. apply obj_in_filter; [rewrite flat_forest_objs; exact Hn | exact Hx].
Qed.

(* when the query raises, remove_all raises before anything is removed (it returns no forest) *)
Theorem wbs_remove_all_raises : forall k fs f,
  (forall r, wbs_remove_all re_search k fs f <> Ok r) <->
  (forall sel, query re_search get_attr k fs (flat_forest None f) <> Ok sel).
Proof.
  intros k fs f. unfold wbs_remove_all.
  destruct (query re_search get_attr k fs (flat_forest None f)) as [sel| |c]; simpl; split; intros H x E;
    try discriminate; try (eapply H; reflexivity).
Qed.

End WbsRemoveAll.

(* what pruning means, in words: a task stays iff neither it nor any of its ancestors matched *)
Lemma prune_none m par t : (forall x, In x (flat par t) -> m x = false) -> prune m par t = [t].
Proof.
  intro H. rewrite (prune_as_objs m (fun _ => false) t par H). apply prune_objs_id. reflexivity.
Qed.

Lemma prune_root m par d ch : m (mk_task par d) = true -> prune m par (Node d ch) = [].
Proof. intro H. simpl. rewrite H. reflexivity. Qed.
