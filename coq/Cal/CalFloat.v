(* The calendar model instantiated with IEEE binary64 (Coq primitive floats) for the bit-exact
   correspondence with the Python implementation, and the checker run on generated cases.
   No theorem depends on this file. *)
From Coq Require Import PrimFloat FloatOps SpecFloat.
From PJ Require Import Base.Prelude Cal.Calendar.

Definition fis0 (x : float) : bool := PrimFloat.eqb x 0%float.

Definition feval := @eval float PrimFloat.add PrimFloat.sub PrimFloat.mul PrimFloat.div 0%float PrimFloat.ltb fis0.
Definition funits := @units float PrimFloat.add PrimFloat.sub PrimFloat.mul PrimFloat.div 0%float PrimFloat.ltb fis0.
Definition fsearch := @search float 0%float PrimFloat.ltb.

(* how a calendar is built through the public API *)
Inductive cexpr :=
| EWeeklyDays (st en : option Z) (days : list Z) (u : float)
| EWeeklyDict (st en : option Z) (m : list (Z * float))
| EFixed (u : float) (st en : option Z)
| EDated (m : list (Z * float))
| EDatedSet (m0 m1 : list (Z * float))
| EBinC (k : opk) (a b : cexpr)
| EBinN (k : opk) (a : cexpr) (x : float)
| ENary (k : opk) (cs : list cexpr).

Fixpoint build (e : cexpr) : res (cal float) :=
  match e with
  | EWeeklyDays st en days u => mk_weekly_days 0%float PrimFloat.ltb st en days u
  | EWeeklyDict st en m => mk_weekly_dict 0%float PrimFloat.ltb st en m
  | EFixed u st en => mk_fixed 0%float PrimFloat.ltb u st en
  | EDated m => mk_dated 0%float PrimFloat.ltb m
  | EDatedSet m0 m1 => do c <- mk_dated 0%float PrimFloat.ltb m0; dated_set 0%float PrimFloat.ltb c m1
  | EBinC k a b => do ca <- build a; do cb <- build b; binop 0%float PrimFloat.ltb fis0 k ca (OCal cb)
  | EBinN k a x => do ca <- build a; binop 0%float PrimFloat.ltb fis0 k ca (ONum x)
  | ENary k cs =>
      do cs' <- (fix go (l : list cexpr) : res (list (cal float)) :=
                   match l with
                   | [] => Ok []
                   | e :: r => do c <- build e; do r' <- go r; Ok (c :: r')
                   end) cs;
      Ok (nary k cs')
  end.

(* bit-exact comparison (NaN = NaN, +0 <> -0) *)
Definition sf_eqb (a b : spec_float) : bool :=
  match a, b with
  | S754_zero s1, S754_zero s2 => Bool.eqb s1 s2
  | S754_infinity s1, S754_infinity s2 => Bool.eqb s1 s2
  | S754_nan, S754_nan => true
  | S754_finite s1 m1 e1, S754_finite s2 m2 e2 => Bool.eqb s1 s2 && Pos.eqb m1 m2 && Z.eqb e1 e2
  | _, _ => false
  end.
Definition f_eqb (x y : float) : bool := sf_eqb (Prim2SF x) (Prim2SF y).

Definition crash_eqb (a b : crash_kind) : bool := Nat.eqb (crash_code a) (crash_code b).

Definition res_eqb {A} (eqb : A -> A -> bool) (a b : res A) : bool :=
  match a, b with
  | Ok x, Ok y => eqb x y
  | Err, Err => true
  | Crash k1, Crash k2 => crash_eqb k1 k2
  | _, _ => false
  end.

(* numeric comparison of what Python returned (an int or a float) with the model's float:
   the harness converts ints to floats, so +0/-0 and int/float are identified through [==] for zero *)
Definition num_eqb (x y : float) : bool :=
  f_eqb x y || (PrimFloat.eqb x 0%float && PrimFloat.eqb y 0%float).

Definition case : Type :=
  cexpr * nat                                   (* expression, observed outcome code of building it *)
  * list (Z * res (option float))               (* get_available_units(date) of the calendar *)
  * list (Z * res float)                        (* Resource(calendar).get_available_units(date) *)
  * list ((Z * Z * Z) * res Z).                 (* get_nearest_availability_date(start, direction, max_days) *)

Definition check_case (c : case) : nat :=
  let '(e, code, evs, uns, srs) := c in
  match build e with
  | Ok cl =>
      if negb (Nat.eqb code 0) then 1%nat
      else if negb (forallb (fun q => res_eqb (opt_eqb num_eqb) (feval cl (fst q)) (snd q)) evs) then 2%nat
      else if negb (forallb (fun q => res_eqb num_eqb (funits cl (fst q)) (snd q)) uns) then 3%nat
      else if negb (forallb (fun q => let '(t, dir, n) := fst q in
                                      res_eqb Z.eqb (fsearch (funits cl) dir (Z.to_nat n) t) (snd q)) srs)
           then 4%nat
      else 0%nat
  | r => if Nat.eqb code (outcome_code r) then 0%nat else 1%nat
  end.
